(* C03  Only users with effective write permission can add a message to a topic.
   Theorems only, about the topic model Sys/Topic.v (one group topic) and the lifecycle
   model Sys/TopicLife.v around it (deletion window, suspension of accounts with the full test
   of hub.topicsStateForUser over every topic category, peer-to-peer topics, me/fnd, sys with
   its subscribers); see DESIGN.md section 5/C03. *)
From Coq Require Import ZArith NArith List Bool.
From Tinode Require Import Base.Util Pure.Acs Sys.Topic Sys.TopicTac Sys.TopicFrame Sys.TopicNum Sys.TopicOut Sys.TopicNumThm Sys.TopicPub Sys.TopicMarks Sys.TopicMeta Sys.TopicCoh Sys.TopicLife Sys.TopicLifeProofs Sys.TopicOboC04 Sys.TopicOffSetC03 Sys.TopicOffSetC03Proofs.
Import ListNotations.
Open Scope Z_scope.

Section C03.
Variable dr : Z -> list (Z * Z) -> option (list (Z * Z)).
Variable nr : list (Z * Z) -> list (Z * Z).
Variable sm : sessmap.

(* [accepts sm x sid]: the topic is loaded, the session is attached, and the author's
   subscription has W in both the requested and the granted mode. *)

(* A publish is acknowledged if and only if [accepts] holds - in every state satisfying the
   numbering invariant, hence (c03_reachable) in every reachable state of every history. *)
Theorem c03_accepted_iff : forall x sid content noecho, inv_num x ->
  ((exists n, first_reply (snd (step dr nr sm NoFault x (OPub sid content noecho))) sid = Some (Ctrl 202 [(P_seq, n)]))
   <-> accepts sm x sid = true).
Proof. exact (accept_iff dr nr sm). Qed.

Theorem c03_reachable : forall s h, fresh s -> inv_num (fst (run dr nr sm (mkState s None 0) h)).
Proof. intros s h F. apply run_inv_num. apply fresh_inv. exact F. Qed.

(* A rejected publish gets exactly one error reply, to the sender only, and has no effect at
   all: store and cache are unchanged (nothing stored, no number consumed, nobody receives
   data, receipts or anything else), whatever the fault plan. *)
Theorem c03_rejected_no_effect : forall f x sid content noecho, accepts sm x sid = false ->
  exists code, 400 <= code /\
    step dr nr sm f x (OPub sid content noecho) = (mkState (st x) (ca x) 0, [(sid, Ctrl code [])]).
Proof. exact (reject_no_effect dr nr sm). Qed.

(* An accepted publish reaches the store with the next number and the true author. *)
Theorem c03_accepted_effect : forall s c n sid u content noecho,
  is_writer (pud_mode (get_pud c u)) = true -> ~ In (c_lastid c + 1) (seqs s) ->
  h_out (publish NoFault s c n sid u content noecho) =
    (sid, Ctrl 202 [(P_seq, c_lastid c + 1)]) ::
    fanout_data (h_ca (publish NoFault s c n sid u content noecho)) (if noecho then sid else 0%N) (Data (c_lastid c + 1) u content)
    ++ push_out (h_ca (publish NoFault s c n sid u content noecho)) (c_lastid c + 1) u.
Proof. exact publish_nofault. Qed.

(* ---- the decision is taken on the cache; the authoritative grant is the stored row ---- *)

(* [cohx x]: while the topic is loaded, every user's cached (want, given) is the one of his live
   stored subscription row, users without a live row have no cache entry, every attached session
   belongs to a cached user; the store never has two rows for one user.
   [safe_run]: the history contains neither of the two triggers that the faithful model reproduces
   (see the refutations below): an {set sub} from a session that is NOT attached while the topic is
   loaded, and an ownership-transfer acceptance (own want with O while given has O and want has not)
   with a store fault planned, or on a topic without a cached owner other than the requester. *)

(* Every fault plan: a Fail/Crash at any adapter call of any request keeps cache and store coherent. *)
Theorem c03_cache_is_store_partial : forall s h, wf_store s ->
  safe_run dr nr sm (mkState s None 0) h -> cohx (fst (run dr nr sm (mkState s None 0) h)).
Proof. intros s h W SR. apply run_cohx; [exact SR|exact W]. Qed.

(* acknowledged iff attached and W in both the STORED want and the STORED given of the author *)
Theorem c03_accepted_iff_stored : forall x sid content noecho, inv_num x -> cohx x ->
  ((exists n, first_reply (snd (step dr nr sm NoFault x (OPub sid content noecho))) sid = Some (Ctrl 202 [(P_seq, n)]))
   <-> accepts_stored sm x sid = true).
Proof.
  intros x sid content noecho I C. rewrite <- (accepts_stored_eq sm x sid C). exact (accept_iff dr nr sm x sid content noecho I).
Qed.

(* lifted to histories: after any history with any faults (triggers excluded) *)
Theorem c03_accepted_iff_stored_history : forall s h sid content noecho, fresh s -> wf_store s ->
  safe_run dr nr sm (mkState s None 0) h ->
  let x := fst (run dr nr sm (mkState s None 0) h) in
  ((exists n, first_reply (snd (step dr nr sm NoFault x (OPub sid content noecho))) sid = Some (Ctrl 202 [(P_seq, n)]))
   <-> accepts_stored sm x sid = true).
Proof.
  intros s h sid content noecho F W SR x. apply c03_accepted_iff_stored.
  - apply run_inv_num. apply fresh_inv. exact F.
  - apply run_cohx; [exact SR|exact W].
Qed.

(* a permission request that leaves the stored grants as they were (refused, or its store call
   failed) leaves every publish decision as it was *)
Theorem c03_failed_change_keeps_decision : forall x fo, cohx x -> safe_step sm x fo = true ->
  (forall u, smodes (st (fst (step_f dr nr sm x fo))) u = smodes (st x) u) ->
  match ca x, ca (fst (step_f dr nr sm x fo)) with
  | Some c, Some c' => forall u, is_writer (pud_mode (get_pud c' u)) = is_writer (pud_mode (get_pud c u))
  | _, _ => True
  end.
Proof. exact (grant_kept_decision_kept dr nr sm). Qed.

(* ---- topic states and topic kinds (model Sys/TopicLife.v around the group-topic model) ---- *)

(* [xaccepts sm x sid]: no delete of the topic is in flight (the hub is not inside store.Topics.Delete
   for it), the topic is not read-only (suspended), the session is attached and the author's
   subscription has W in want and given. *)
Theorem c03x_accepted_iff : forall x sid content noecho, inv_num (xb x) ->
  ((exists n, first_reply (snd (xstep dr nr sm x (EBase NoFault (OPub sid content noecho)))) sid = Some (Ctrl 202 [(P_seq, n)]))
   <-> xaccepts sm x sid = true).
Proof. exact (xaccept_iff dr nr sm). Qed.

(* every history of requests, deletions in two halves, suspensions, faults and crashes reaches a state
   satisfying the invariants the theorems need *)
(* ([xinit_pop s subs ps]: the group topic's rows s, the subscribers subs of 'sys', any number of peer-to-peer
   topics with rows ps; nothing loaded but 'sys') *)
Theorem c03x_reachable : forall s subs ps h, fresh s -> Forall fresh ps ->
  xinv (fst (xrun dr nr sm (xinit_pop s subs ps) h)).
Proof. intros s subs ps h F FP. apply xinv_xrun. apply xinv_init_pop; assumption. Qed.

Theorem c03x_accepted_iff_history : forall s subs ps h sid content noecho, fresh s -> Forall fresh ps ->
  let x := fst (xrun dr nr sm (xinit_pop s subs ps) h) in
  ((exists n, first_reply (snd (xstep dr nr sm x (EBase NoFault (OPub sid content noecho)))) sid = Some (Ctrl 202 [(P_seq, n)]))
   <-> xaccepts sm x sid = true).
Proof. intros s subs ps h sid content noecho F FP x. apply c03x_accepted_iff. apply (c03x_reachable s subs ps h F FP). Qed.

(* rejected, for any fault plan: exactly one error reply to the sender, the stores (topic rows, accounts,
   sys, the rows of every peer-to-peer topic) are what they were; unless the plan is a crash, so is everything
   in memory *)
Theorem c03x_rejected_no_effect : forall x f sid content noecho, xwf x -> xaccepts sm x sid = false ->
  exists code, 400 <= code /\
    snd (xstep dr nr sm x (EBase f (OPub sid content noecho))) = [(sid, Ctrl code [])] /\
    stores_same x (fst (xstep dr nr sm x (EBase f (OPub sid content noecho)))) /\
    (is_crash f = false ->
     fst (xstep dr nr sm x (EBase f (OPub sid content noecho))) = set_b (mkState (st (xb x)) (ca (xb x)) 0) x).
Proof. exact (xreject_no_effect dr nr sm). Qed.

(* while the hub is inside the store call of the owner's {del topic}: refused, whoever the author is *)
Theorem c03x_being_deleted_refuses : forall x f sid content noecho, x_del x <> None ->
  xstep dr nr sm x (EBase f (OPub sid content noecho)) =
    (set_b (mkState (st (xb x)) (ca (xb x)) 0) x, [(sid, Ctrl (if x_attached x sid then 503 else 409) [])]).
Proof. intros x f sid content noecho D. unfold xstep. destruct (x_del x); [reflexivity|congruence]. Qed.

(* me / fnd: refused whether the session is attached or not; nothing changes because of the publish
   (the only other thing that can complete on the way is a delete that was already in flight) *)
Theorem c03x_self_topic_refuses : forall x sid content, exists code, 400 <= code /\
  xstep dr nr sm x (EPubMe sid content) = (fst (del_finish x), snd (del_finish x) ++ [(sid, Ctrl code [])]).
Proof. exact (xstep_pub_me dr nr sm). Qed.
Theorem c03x_search_topic_refuses : forall x sid content, exists code, 400 <= code /\
  xstep dr nr sm x (EPubFnd sid content) = (fst (del_finish x), snd (del_finish x) ++ [(sid, Ctrl code [])]).
Proof. exact (xstep_pub_fnd dr nr sm). Qed.

(* sys: any logged-in author, no attachment; the message gets the next number and is stored; the subscribers
   of sys get the push receipt.  ([x_sys_ro x = false] holds in every reachable state: c03s_sys_never_read_only) *)
Theorem c03x_sys_accepts_without_attachment : forall x sid content, sess_uid sm sid <> 0%N -> sys_inv x -> x_sys_ro x = false ->
  publish_sys sm x NoFault sid content =
    (set_sys (x_sys_lastid x + 1) (x_sys_lastid x + 1)
             (x_sys_msgs x ++ [mkMsg (x_sys_lastid x + 1) (sess_uid sm sid) content 0]) x,
     (sid, Ctrl 202 [(P_seq, x_sys_lastid x + 1)]) :: sys_push x (x_sys_lastid x + 1) (sess_uid sm sid)).
Proof. exact (publish_sys_accepts sm). Qed.
Theorem c03x_sys_failed_stores_nothing : forall x f sid content,
  (exists n, snd (publish_sys sm x f sid content) = (sid, Ctrl 202 [(P_seq, n)]) :: sys_push x n (sess_uid sm sid)) \/
  ((snd (publish_sys sm x f sid content) = [(sid, Ctrl 500 [])] \/
    (x_sys_ro x = true /\ snd (publish_sys sm x f sid content) = [(sid, Ctrl 403 [])]) \/
    snd (publish_sys sm x f sid content) = []) /\
   x_sys_msgs (fst (publish_sys sm x f sid content)) = x_sys_msgs x /\
   st (xb (fst (publish_sys sm x f sid content))) = st (xb x) /\
   (is_crash f = false -> x_sys_lastid (fst (publish_sys sm x f sid content)) = x_sys_lastid x /\
                          xb (fst (publish_sys sm x f sid content)) = xb x)).
Proof. exact (publish_sys_cases sm). Qed.

(* suspension: the loaded topic of the suspended owner becomes read-only (and writable again on resume) *)
Theorem c03x_suspension_marks_loaded_topic_partial : forall x u b c a, u <> 0%N ->
  ca (xb x) = Some c -> c_owner c = u -> alookup u (users (st (xb x))) = Some a -> memN u (x_susp x) = negb b ->
  x_ro (suspend x NoFault u b) = b.
Proof. exact suspend_marks. Qed.

(* ---- which topics a suspension marks: the full test of hub.topicsStateForUser, every category ---- *)

(* the test, per topic category (m = "u is in topic.perUser", o = topic.owner): 'me' and 'fnd' never; a group
   topic and 'sys' only through ownership - and 'sys' and the peer-to-peer topics have no owner -; a
   peer-to-peer topic through membership *)
Theorem c03s_suspension_test_by_category : forall m o u,
  state_pred CatMe m o u = false /\ state_pred CatFnd m o u = false /\
  state_pred CatGrp m o u = N.eqb o u /\ state_pred CatSys m o u = N.eqb o u /\
  state_pred CatP2P m o u = m || N.eqb o u.
Proof. intros m o u. repeat split. Qed.

(* in ANY state (hence after any history): the accepted suspension / resumption (b) of an existing account u
   sets the read-only bit of the loaded group topic to b iff u is its OWNER (a plain member's suspension leaves
   it as it was), never touches 'sys' (whether u is one of its subscribers or not), sets the bit of exactly the
   loaded peer-to-peer topics u is a party of ([mark_p2p], c03s_p2p_marking), and changes nothing else but the
   account's state *)
Theorem c03s_suspension_marks_exactly : forall x u b a, u <> 0%N ->
  alookup u (users (st (xb x))) = Some a -> memN u (x_susp x) = negb b ->
  let x' := suspend x NoFault u b in
  x_ro x' = match ca (xb x) with Some c => if N.eqb (c_owner c) u then b else x_ro x | None => x_ro x end /\
  x_sys_ro x' = x_sys_ro x /\
  x_p2p x' = map (mark_p2p u b) (x_p2p x) /\
  xb x' = xb x /\ x_del x' = x_del x /\ x_susp x' = susp_upd (x_susp x) u b /\ x_me x' = x_me x /\ x_fnd x' = x_fnd x /\
  x_sys_seqid x' = x_sys_seqid x /\ x_sys_lastid x' = x_sys_lastid x /\ x_sys_msgs x' = x_sys_msgs x /\
  x_sys_subs x' = x_sys_subs x.
Proof. exact suspend_exact. Qed.
Theorem c03s_p2p_marking : forall u b p,
  pt_b (mark_p2p u b p) = pt_b p /\
  pt_ro (mark_p2p u b p) = match ca (pt_b p) with
                           | Some c => if is_member c u || N.eqb (c_owner c) u then b else pt_ro p
                           | None => pt_ro p
                           end.
Proof. intros u b p. split; [apply mark_p2p_b|apply mark_p2p_ro]. Qed.

(* a request that does not change the account's state - unknown account, account already in that state, a failed
   store call (any fault plan) - marks nothing: the whole state is what it was *)
Theorem c03s_idle_suspension_changes_nothing : forall x f u b, suspend x f u b = x \/
  (u <> 0%N /\ memN u (x_susp x) = negb b /\ suspend x f u b = mark_topics (set_susp (susp_upd (x_susp x) u b) x) u b).
Proof. exact suspend_cases. Qed.

(* 'sys' is never read-only: after ANY history - suspensions and resumptions of its subscribers, of owners, of
   parties, faults, crashes - ... *)
Theorem c03s_sys_never_read_only : forall s subs ps h, fresh s -> Forall fresh ps ->
  x_sys_ro (fst (xrun dr nr sm (xinit_pop s subs ps) h)) = false.
Proof. intros s subs ps h F FP. destruct (c03x_reachable s subs ps h F FP) as [_ [_ [_ [R _]]]]. exact R. Qed.

(* ... hence a publish to sys by any logged-in author, attached to nothing, is acknowledged with the next number
   and stored, whatever accounts are suspended (the only other output is the reply of a delete that was in flight) *)
Theorem c03s_sys_accepts_after_any_history : forall s subs ps h sid content, fresh s -> Forall fresh ps ->
  sess_uid sm sid <> 0%N ->
  let x := fst (xrun dr nr sm (xinit_pop s subs ps) h) in
  let x1 := fst (del_finish x) in
  xstep dr nr sm x (EPubSys NoFault sid content) =
    (set_sys (x_sys_lastid x1 + 1) (x_sys_lastid x1 + 1)
             (x_sys_msgs x1 ++ [mkMsg (x_sys_lastid x1 + 1) (sess_uid sm sid) content 0]) x1,
     snd (del_finish x) ++ (sid, Ctrl 202 [(P_seq, x_sys_lastid x1 + 1)]) :: sys_push x1 (x_sys_lastid x1 + 1) (sess_uid sm sid)).
Proof.
  intros s subs ps h sid content F FP U x x1. apply (xstep_pub_sys_accepts dr nr sm); [|exact U].
  apply (c03x_reachable s subs ps h F FP).
Qed.

(* peer-to-peer topics.  [p2p_accepts sm p sid]: the session's user is a party, the topic is not read-only
   (no party suspended since it was loaded), it is loaded, the session is attached and the author's want and
   given both have W *)
Theorem c03s_p2p_accepted_iff : forall x k p sid content noecho, nth_error (x_p2p x) k = Some p -> inv_num (pt_b p) ->
  ((exists n, first_reply (snd (p2p_step dr nr sm x k NoFault (PPub sid content noecho))) sid = Some (Ctrl 202 [(P_seq, n)]))
   <-> p2p_accepts sm p sid = true).
Proof. exact (p2p_accept_iff dr nr sm). Qed.
Theorem c03s_p2p_accepted_iff_history : forall s subs ps h k p sid content noecho, fresh s -> Forall fresh ps ->
  let x := fst (xrun dr nr sm (xinit_pop s subs ps) h) in
  nth_error (x_p2p x) k = Some p ->
  ((exists n, first_reply (snd (p2p_step dr nr sm x k NoFault (PPub sid content noecho))) sid = Some (Ctrl 202 [(P_seq, n)]))
   <-> p2p_accepts sm p sid = true).
Proof.
  intros s subs ps h k p sid content noecho F FP x E. apply c03s_p2p_accepted_iff; [exact E|].
  destruct (c03x_reachable s subs ps h F FP) as [_ [_ [_ [_ P]]]].
  exact (proj1 (nth_error_Forall _ _ _ _ P E)).
Qed.
Theorem c03s_p2p_rejected_no_effect : forall x k p f sid content noecho, nth_error (x_p2p x) k = Some p -> pt_inv p ->
  p2p_addressable sm p sid = true -> p2p_accepts sm p sid = false ->
  exists code, 400 <= code /\
    snd (p2p_step dr nr sm x k f (PPub sid content noecho)) = [(sid, Ctrl code [])] /\
    p2p_stores (fst (p2p_step dr nr sm x k f (PPub sid content noecho))) = p2p_stores x /\
    st (xb (fst (p2p_step dr nr sm x k f (PPub sid content noecho)))) = st (xb x) /\
    x_sys_msgs (fst (p2p_step dr nr sm x k f (PPub sid content noecho))) = x_sys_msgs x /\
    (is_crash f = false ->
     fst (p2p_step dr nr sm x k f (PPub sid content noecho)) =
       set_p2p (upd_nth k (mkPT (mkState (st (pt_b p)) (ca (pt_b p)) 0) (pt_ro p)) (x_p2p x)) x).
Proof. exact (p2p_reject_no_effect dr nr sm). Qed.

(* both halves together: after ANY history of the wrapper model - requests with Fail/Crash at any adapter call,
   deletions in two halves, suspensions, publishes to me/fnd/sys - that avoids the two named triggers, a publish
   is acknowledged iff no delete is in flight, the topic is not read-only, the session is attached and the
   author's STORED want and STORED given both have W *)
Theorem c03x_accepted_iff_stored_history : forall s subs ps h sid content noecho, fresh s -> Forall fresh ps -> wf_store s ->
  xsafe_run dr nr sm (xinit_pop s subs ps) h ->
  let x := fst (xrun dr nr sm (xinit_pop s subs ps) h) in
  ((exists n, first_reply (snd (xstep dr nr sm x (EBase NoFault (OPub sid content noecho)))) sid = Some (Ctrl 202 [(P_seq, n)]))
   <-> xaccepts_stored sm x sid = true).
Proof.
  intros s subs ps h sid content noecho F FP W SR x.
  rewrite <- (xaccepts_stored_eq sm x sid (cohx_xrun dr nr sm h (xinit_pop s subs ps) SR W)).
  apply c03x_accepted_iff_history; assumption.
Qed.
End C03.

Print Assumptions c03_accepted_iff.
Print Assumptions c03_reachable.
Print Assumptions c03_rejected_no_effect.
Print Assumptions c03_accepted_effect.
Print Assumptions c03_cache_is_store_partial.
Print Assumptions c03_accepted_iff_stored.
Print Assumptions c03_accepted_iff_stored_history.
Print Assumptions c03_failed_change_keeps_decision.
Print Assumptions c03x_accepted_iff.
Print Assumptions c03x_reachable.
Print Assumptions c03x_accepted_iff_history.
Print Assumptions c03x_rejected_no_effect.
Print Assumptions c03x_being_deleted_refuses.
Print Assumptions c03x_self_topic_refuses.
Print Assumptions c03x_search_topic_refuses.
Print Assumptions c03x_sys_accepts_without_attachment.
Print Assumptions c03x_sys_failed_stores_nothing.
Print Assumptions c03x_suspension_marks_loaded_topic_partial.
Print Assumptions c03x_accepted_iff_stored_history.
Print Assumptions c03s_suspension_test_by_category.
Print Assumptions c03s_suspension_marks_exactly.
Print Assumptions c03s_p2p_marking.
Print Assumptions c03s_idle_suspension_changes_nothing.
Print Assumptions c03s_sys_never_read_only.
Print Assumptions c03s_sys_accepts_after_any_history.
Print Assumptions c03s_p2p_accepted_iff.
Print Assumptions c03s_p2p_accepted_iff_history.
Print Assumptions c03s_p2p_rejected_no_effect.

(* The full statement - the decision follows the STORED grant after EVERY history - is refuted by the
   faithful model (and replayed on the real code, findings/C03.md): *)
Definition c03_stored_iff_statement : Prop :=
  forall (sm : sessmap) s h sid content noecho, fresh s -> wf_store s ->
  let x := fst (run (fun _ _ => None) (fun r => r) sm (mkState s None 0) h) in
  ((exists n, first_reply (snd (step (fun _ _ => None) (fun r => r) sm NoFault x (OPub sid content noecho))) sid
              = Some (Ctrl 202 [(P_seq, n)]))
   <-> accepts_stored sm x sid = true).

Definition c03_w_store : store :=
  ad_sub_create (ad_sub_create (mkStore true 0 0 0 47 0 [] [] [] [(1%N, 47%N); (2%N, 47%N)]) 1%N 255%N 255%N) 2%N 47%N 47%N.
Definition c03_w_sm : sessmap := [(1%N, 1%N); (2%N, 2%N); (3%N, 2%N)].
(* trigger 1: user 2 is attached with session 2 and drops W from his want with session 3, which is not
   attached (replyOfflineTopicSetSub writes the store, the loaded topic keeps the old want) *)
Definition c03_w_hist1 : list (fault * op) :=
  [(NoFault, OSub 2 [] false); (NoFault, OSetSub 3 0 [74%N; 82%N; 80%N])].
(* trigger 2: user 2 holds a pending ownership transfer (O in given) and accepts it with a want without W;
   the second store call of the transfer fails: want is already stored, the cache keeps the old one *)
Definition c03_w_store2 : store :=
  ad_sub_create (ad_sub_create (mkStore true 0 0 0 47 0 [] [] [] [(1%N, 47%N); (2%N, 47%N)]) 1%N 255%N 255%N) 2%N 47%N 255%N.
Definition c03_w_hist2 : list (fault * op) :=
  [(NoFault, OSub 2 [] false); (FailAt 2, OSetSub 2 0 [74%N; 82%N; 80%N; 83%N; 79%N])].

Example c03_w_fresh1 : fresh c03_w_store /\ wf_store c03_w_store.
Proof. split; [split; reflexivity|]. unfold wf_store. vm_compute. repeat constructor; cbn; intuition discriminate. Qed.
Example c03_w_fresh2 : fresh c03_w_store2 /\ wf_store c03_w_store2.
Proof. split; [split; reflexivity|]. unfold wf_store. vm_compute. repeat constructor; cbn; intuition discriminate. Qed.

Theorem c03_stored_iff_refuted : ~ c03_stored_iff_statement.
Proof.
  intros H. destruct c03_w_fresh1 as [F W].
  specialize (H c03_w_sm c03_w_store c03_w_hist1 2%N 7%N false F W). cbv zeta in H.
  destruct H as [H _].
  assert (A : accepts_stored c03_w_sm (fst (run (fun _ _ => None) (fun r => r) c03_w_sm (mkState c03_w_store None 0) c03_w_hist1)) 2 = false)
    by (vm_compute; reflexivity).
  rewrite A in H. assert (X : false = true); [apply H|discriminate X].
  exists 1. vm_compute. reflexivity.
Qed.
Theorem c03_stored_iff_refuted_by_transfer_fault : ~ c03_stored_iff_statement.
Proof.
  intros H. destruct c03_w_fresh2 as [F W].
  specialize (H c03_w_sm c03_w_store2 c03_w_hist2 2%N 7%N false F W). cbv zeta in H.
  destruct H as [H _].
  assert (A : accepts_stored c03_w_sm (fst (run (fun _ _ => None) (fun r => r) c03_w_sm (mkState c03_w_store2 None 0) c03_w_hist2)) 2 = false)
    by (vm_compute; reflexivity).
  rewrite A in H. assert (X : false = true); [apply H|discriminate X].
  exists 1. vm_compute. reflexivity.
Qed.
Print Assumptions c03_stored_iff_refuted.
Print Assumptions c03_stored_iff_refuted_by_transfer_fault.

Example c03_ex_hypotheses_satisfiable :
  let s0 := ad_sub_create (ad_sub_create (mkStore true 0 0 0 47 0 [] [] [] [(1%N, 47%N); (2%N, 47%N)]) 1%N 255%N 255%N) 2%N 3%N 47%N in
  let sm := [(1%N, 1%N); (2%N, 2%N)] in
  let x := fst (run (fun _ _ => None) (fun x => x) sm (mkState s0 None 0) [(NoFault, OSub 1 [] false); (NoFault, OSub 2 [] false)]) in
  accepts sm x 1 = true /\ accepts sm x 2 = false /\ accepts sm x 3 = false.
Proof. vm_compute. repeat split. Qed.

(* "The topic of a suspended owner is read-only" as a statement about every reachable state is refuted: the
   read-only bit is a flag of the loaded Topic only, set by hub.topicsStateForUser when the {acc} arrives;
   a topic loaded afterwards (first load, idle unload, restart) does not have it (findings/C03.md #3). *)
Definition c03_suspension_survives_reload_statement : Prop :=
  forall (sm : sessmap) s h, fresh s ->
  let x := fst (xrun (fun _ _ => None) (fun r => r) sm (xinit s) h) in
  match ca (xb x) with
  | Some c => memN (c_owner c) (x_susp x) = true -> x_ro x = true
  | None => True
  end.
Theorem c03_suspension_survives_reload_refuted : ~ c03_suspension_survives_reload_statement.
Proof.
  intros H. destruct c03_w_fresh1 as [F _].
  specialize (H c03_w_sm c03_w_store [ESuspend NoFault 1%N true; EBase NoFault (OSub 2 [] false)] F).
  vm_compute in H. specialize (H eq_refl). discriminate H.
Qed.
Print Assumptions c03_suspension_survives_reload_refuted.

(* "A loaded topic is read-only iff an account that satisfies the test of its category is currently suspended":
   the 'sys' part holds after every history (c03s_sys_never_read_only), and so does the marking itself
   (c03s_suspension_marks_exactly, in every state).  As an invariant of every reachable state the statement is
   refuted for the group topic (above) and for peer-to-peer topics, in two ways: the bit does not survive a
   reload, and the resumption of ONE party clears the bit although the OTHER party is still suspended
   (hub.topicsStateForUser(a, false) -> markReadOnly(false) on every p2p topic of a).  findings/C03.md #4, #5. *)
Definition c03s_read_only_iff_suspended_statement : Prop :=
  forall (sm : sessmap) s subs ps h, fresh s -> Forall fresh ps ->
  let x := fst (xrun (fun _ _ => None) (fun r => r) sm (xinit_pop s subs ps) h) in
  match ca (xb x) with Some c => x_ro x = memN (c_owner c) (x_susp x) | None => True end /\
  x_sys_ro x = false /\
  Forall (fun p => match ca (pt_b p) with
                   | Some c => pt_ro p = existsb (fun e => memN (fst e) (x_susp x)) (c_users c)
                   | None => True
                   end) (x_p2p x).

(* users 1 and 2 (JRWPA/JRWPA each) are the parties of the peer-to-peer topic *)
Definition c03s_w_p2p : store :=
  ad_sub_create (ad_sub_create (mkStore true 0 0 0 0 0 [] [] [] [(1%N, 47%N); (2%N, 47%N)]) 1%N 31%N 31%N) 2%N 31%N 31%N.
Example c03s_w_p2p_fresh : fresh c03s_w_p2p.
Proof. split; reflexivity. Qed.
(* user 1 attaches; 1 is suspended, 2 is suspended, 1 is resumed: the topic is writable, 2 is still suspended *)
Definition c03s_w_hist_peer : list xev :=
  [EP2P 0 NoFault (PSub 1%N); ESuspend NoFault 1%N true; ESuspend NoFault 2%N true; ESuspend NoFault 1%N false].
(* 1 is suspended while the topic is not loaded; 2 attaches *)
Definition c03s_w_hist_reload : list xev := [ESuspend NoFault 1%N true; EP2P 0 NoFault (PSub 2%N)].

Theorem c03s_read_only_iff_suspended_refuted_by_peer_resumed : ~ c03s_read_only_iff_suspended_statement.
Proof.
  intros H. destruct c03_w_fresh1 as [F _].
  specialize (H c03_w_sm c03_w_store [] [c03s_w_p2p] c03s_w_hist_peer F (Forall_cons _ c03s_w_p2p_fresh (Forall_nil _))).
  cbv zeta in H. destruct H as [_ [_ H]]. vm_compute in H. inversion H as [|p l HP HL]. discriminate HP.
Qed.
Theorem c03s_read_only_iff_suspended_refuted_by_reload : ~ c03s_read_only_iff_suspended_statement.
Proof.
  intros H. destruct c03_w_fresh1 as [F _].
  specialize (H c03_w_sm c03_w_store [] [c03s_w_p2p] c03s_w_hist_reload F (Forall_cons _ c03s_w_p2p_fresh (Forall_nil _))).
  cbv zeta in H. destruct H as [_ [_ H]]. vm_compute in H. inversion H as [|p l HP HL]. discriminate HP.
Qed.
Print Assumptions c03s_read_only_iff_suspended_refuted_by_peer_resumed.
Print Assumptions c03s_read_only_iff_suspended_refuted_by_reload.

(* the population of the correspondence runs: the suspended account is a plain member of the group topic, a
   party of a peer-to-peer topic and a subscriber of 'sys' at once; the group topic stays writable, the
   peer-to-peer topic becomes read-only (its publishes are refused), 'sys' accepts *)
Example c03s_ex_population :
  let sm := c03_w_sm in
  let h := [EBase NoFault (OSub 1%N [] false); EBase NoFault (OSub 2%N [] false);
            EP2P 0 NoFault (PSub 1%N); EP2P 0 NoFault (PSub 2%N); ESuspend NoFault 2%N true] in
  let x := fst (xrun (fun _ _ => None) (fun r => r) sm (xinit_pop c03_w_store [2%N] [c03s_w_p2p]) h) in
  x_ro x = false /\ x_sys_ro x = false /\ map pt_ro (x_p2p x) = [true] /\ x_susp x = [2%N] /\
  xaccepts sm x 1%N = true /\
  match nth_error (x_p2p x) 0 with Some p => p2p_accepts sm p 1%N | None => true end = false /\
  snd (xstep (fun _ _ => None) (fun r => r) sm x (EPubSys NoFault 1%N 7%N)) = [(1%N, Ctrl 202 [(P_seq, 1)]); (0%N, Push 1 1%N [2%N])].
Proof. vm_compute. repeat split. Qed.

(* ====================================================================================================== *)
(* Strengthening s03c: "the author is currently subscribed with write permission in both the requested and the
   granted mode ... for every history of subscription and permission changes" - (1) the permission change made
   by a session that is NOT attached (hub.go replyOfflineTopicSetSub, modelled completely in
   Sys/TopicOffSetC03.v: desc.private and sub.mode in one request); (2) the author kind "root on behalf of
   another user" and the eviction of the sessions attached on behalf of a banned / removed user. *)

(* (1) An acknowledged not-attached {set} carrying sub.mode (reply 200, or 304 = nothing to change) has stored
   exactly the sanitised mode [off_want_c03] (parsed, the O bit as stored, masked with JRWPA|A on a peer-to-peer
   topic) as the user's requested mode, and has left the granted mode alone - for EVERY desc.private carried by
   the same request (q is arbitrary), every stored Private, every fault plan, group and peer-to-peer topics. *)
Theorem c03o_offline_ack_stores_sanitised_mode : forall f p2p s pv sid u q c l, u <> 0%N -> or_mode q = c :: l ->
  off_acked_c03 (offline_set_c03 f p2p s pv sid u q) = true ->
  exists r0 mw, ad_sub_get s u false = Some r0 /\ off_want_c03 p2p (s_want r0) (c :: l) = inr mw /\
    smodes (of_st (offline_set_c03 f p2p s pv sid u q)) u = Some (mw, s_given r0).
Proof. exact off_ack_stores_want. Qed.

(* ... hence the publish decision of the topic loaded afterwards follows it: in the cache built by
   loadSubscribers the author is a writer iff W is in the acknowledged mode and in the granted mode *)
Theorem c03o_offline_ack_decides_later_publish : forall f p2p s pv sid u q c l, u <> 0%N -> wf_store s -> or_mode q = c :: l ->
  off_acked_c03 (offline_set_c03 f p2p s pv sid u q) = true ->
  exists r0 mw, ad_sub_get s u false = Some r0 /\ off_want_c03 p2p (s_want r0) (c :: l) = inr mw /\
    is_writer (pud_mode (get_pud (load (of_st (offline_set_c03 f p2p s pv sid u q))) u)) = is_writer mw && is_writer (s_given r0).
Proof. exact off_then_load_decides. Qed.

(* the modes stored by the request do not depend on its desc.private (no fault) *)
Theorem c03o_offline_private_irrelevant_to_modes : forall p2p s pv sid u t c l p1 p2, u <> 0%N ->
  forall v, smodes (of_st (offline_set_c03 NoFault p2p s pv sid u (mkOffReq t (c :: l) p1))) v =
            smodes (of_st (offline_set_c03 NoFault p2p s pv sid u (mkOffReq t (c :: l) p2))) v.
Proof. exact off_private_irrelevant. Qed.

(* exactly one reply; a refused request (error reply) writes nothing; nobody else's modes change, ever *)
Theorem c03o_offline_one_reply : forall f p2p s pv sid u q, exists fr, of_out (offline_set_c03 f p2p s pv sid u q) = [(sid, fr)].
Proof. exact off_one_reply. Qed.
Theorem c03o_offline_refused_no_effect : forall f p2p s pv sid u q, off_acked_c03 (offline_set_c03 f p2p s pv sid u q) = false ->
  of_st (offline_set_c03 f p2p s pv sid u q) = s /\ of_priv (offline_set_c03 f p2p s pv sid u q) = pv.
Proof. exact off_refused_no_effect. Qed.
Theorem c03o_offline_others_untouched : forall f p2p s pv sid u q v, u <> 0%N -> v <> u ->
  smodes (of_st (offline_set_c03 f p2p s pv sid u q)) v = smodes s v.
Proof. exact off_others_untouched. Qed.

(* the sanitised mode: the O bit of the stored requested mode never changes here; on a peer-to-peer topic the result
   stays within JRWPA and keeps A; on a group topic it is the parsed mode *)
Theorem c03o_offline_sanitised_mode_shape : forall p2p w mode mw, off_want_c03 p2p w mode = inr mw ->
  is_owner mw = (if p2p then false else is_owner w) /\
  (p2p = true -> N.land mw (N.lxor 255 ModeCP2P_c03) = 0%N /\ has mw mA = true) /\
  (p2p = false -> mw = fst (unmarshal_text 0%N mode)).
Proof. exact off_want_shape. Qed.

(* in the wrapper model run by the correspondence check: a {set} from a session that is not attached IS that
   function of the stored row, in every state of the topic *)
Theorem c03o_set_from_detached_session : forall dr nr sm roots z f sid q, x_del (oz_x z) = None -> x_attached (oz_x z) sid = false ->
  let x := oz_x z in
  let u := sess_uid sm sid in
  let r := offline_set_c03 f false (st (xb x)) (get_priv_c03 (oz_gpriv z) u) sid u q in
  ozstep_c03 dr nr sm roots z (ZSet f sid q) =
    Some (mkOZ (after_crash f (set_b (mkState (of_st r) (ca (xb x)) (of_n r)) x)) (aset u (of_priv r) (oz_gpriv z)) (oz_ppriv z),
          of_out r).
Proof. exact zset_not_attached. Qed.

(* (2) evictUser(u): no session attached AS u remains, whoever owns the session (the test of Topic.remSession reads
   perSessionData.uid); every other attachment is kept; the loop over t.sessions as written computes exactly that *)
Theorem c03o_evict_detaches_everybody_attached_as : forall c u unsub skip,
  none_attached_as_c03 (fst (evict_user c u unsub skip)) u = true.
Proof. exact evict_none_attached. Qed.
Theorem c03o_none_attached_meaning : forall c u,
  none_attached_as_c03 c u = true <-> forall sid a b, In (sid, (a, b)) (c_sess c) -> a <> u.
Proof. exact none_attached_spec. Qed.
Theorem c03o_evict_keeps_others : forall c u unsub skip e, In e (c_sess c) -> fst (snd e) <> u ->
  In e (c_sess (fst (evict_user c u unsub skip))).
Proof. exact evict_keeps_others. Qed.
Theorem c03o_evict_loop_as_written : forall l u skip unsub, u <> 0%N -> NoDup (map fst l) ->
  fst (evict_sessions_c03 l u skip unsub) = filter (fun e => negb (N.eqb (fst (snd e)) u)) l.
Proof. exact evict_sessions_is_filter. Qed.
(* a session that was attached on behalf of the evicted user - a ROOT session with extra.obo included - is not
   attached afterwards: its later {pub}, on behalf of anybody, is refused (c03_rejected_no_effect) *)
Theorem c03o_evicted_session_not_attached : forall c u unsub skip sid b, NoDup (map fst (c_sess c)) ->
  alookup sid (c_sess c) = Some (u, b) -> attached (fst (evict_user c u unsub skip)) sid = false.
Proof. exact evicted_not_attached. Qed.

(* the requests that evict: an accepted change of the target's granted mode to one without J (a ban, whatever other
   bits - W - it keeps), an acknowledged {del sub}, an acknowledged {leave unsub} *)
Theorem c03o_ban_detaches : forall f s c n sid u target mode h w g,
  another_user_sub f s c n sid u target mode = (h, SubOk (Some (w, g))) -> is_joiner g = false ->
  none_attached_as_c03 (h_ca h) target = true.
Proof. exact ban_detaches. Qed.
Theorem c03o_del_sub_detaches : forall f s c n sid u target code pt,
  In (sid, Ctrl code []) (h_out (del_sub f s c n sid u target)) -> code = 200 \/ code = 304 ->
  alookup target (c_users c) = Some pt ->
  none_attached_as_c03 (h_ca (del_sub f s c n sid u target)) target = true.
Proof. exact del_sub_detaches. Qed.
Theorem c03o_leave_unsub_detaches : forall f s c n sid u,
  In (sid, Ctrl 200 []) (h_out (leave_unsub f s c n sid u)) ->
  none_attached_as_c03 (h_ca (leave_unsub f s c n sid u)) u = true.
Proof. exact leave_unsub_detaches. Qed.

(* the author kind "root on behalf of another user": the {pub} of a root session with extra.obo = u is the topic's
   publish with u as the author under the session map in which the session stands for u - so every C03 theorem
   above (c03x_accepted_iff, c03x_rejected_no_effect, ... hold for every session map) applies with the ACTING
   user: acknowledged iff the session is attached and u's want and given both have W *)
Theorem c03o_obo_publish_is_publish_as : forall dr nr sm roots x f sid u content noecho, is_root_c04 roots sid = true -> u <> 0%N ->
  obo_step_c03 dr nr sm roots x (OboUser u) f (OPub sid content noecho) =
    Some (xstep dr nr (sm_as_c04 sm sid u) x (EBase f (OPub sid content noecho))).
Proof. exact obo_pub_is_publish_as. Qed.
Theorem c03o_obo_accepted_iff : forall dr nr sm x sid u content noecho, inv_num (xb x) ->
  ((exists n, first_reply (snd (xstep dr nr (sm_as_c04 sm sid u) x (EBase NoFault (OPub sid content noecho)))) sid = Some (Ctrl 202 [(P_seq, n)]))
   <-> xaccepts (sm_as_c04 sm sid u) x sid = true).
Proof. intros dr nr sm x sid u. exact (c03x_accepted_iff dr nr (sm_as_c04 sm sid u) x sid). Qed.
Theorem c03o_obo_needs_root : forall dr nr sm roots x ob f sid content noecho, is_root_c04 roots sid = false -> has_obo_c04 ob = true ->
  x_del x = None ->
  obo_step_c03 dr nr sm roots x ob f (OPub sid content noecho) = Some (set_b (mkState (st (xb x)) (ca (xb x)) 0) x, [(sid, Ctrl 403 [])]).
Proof. exact obo_needs_root. Qed.

Print Assumptions c03o_offline_ack_stores_sanitised_mode.
Print Assumptions c03o_offline_ack_decides_later_publish.
Print Assumptions c03o_offline_private_irrelevant_to_modes.
Print Assumptions c03o_offline_one_reply.
Print Assumptions c03o_offline_refused_no_effect.
Print Assumptions c03o_offline_others_untouched.
Print Assumptions c03o_offline_sanitised_mode_shape.
Print Assumptions c03o_set_from_detached_session.
Print Assumptions c03o_evict_detaches_everybody_attached_as.
Print Assumptions c03o_none_attached_meaning.
Print Assumptions c03o_evict_keeps_others.
Print Assumptions c03o_evict_loop_as_written.
Print Assumptions c03o_evicted_session_not_attached.
Print Assumptions c03o_ban_detaches.
Print Assumptions c03o_del_sub_detaches.
Print Assumptions c03o_leave_unsub_detaches.
Print Assumptions c03o_obo_publish_is_publish_as.
Print Assumptions c03o_obo_accepted_iff.
Print Assumptions c03o_obo_needs_root.

(* the two histories of the seeded regressions, in the model: (a) user 2, not attached, sends ONE {set} with
   desc.private {k1: 5} and sub.mode "JRP": acknowledged, the stored want is JRP, Private is stored too; after the
   topic loads he attaches and his publish is refused (403).  (b) the root session 3 of user 1 attaches on behalf of
   user 2 and publishes for him (202); the owner bans user 2 with the granted mode RWP (no J, W kept): session 3 is
   detached (evicted frame) and its next publish on behalf of user 2 is refused (409). *)
Definition c03o_w_roots : list N := [3%N].
Definition c03o_w_sm : sessmap := [(1%N, 1%N); (2%N, 2%N); (3%N, 1%N)].
Example c03o_ex_offline_set_with_private :
  let z0 := ozinit_c03 (xinit c03_w_store) in
  match ozrun_c03 (fun _ _ => None) (fun r => r) c03o_w_sm c03o_w_roots z0
          [ZSet NoFault 2%N (mkOffReq 0%N [74%N; 82%N; 80%N] (PrMap [(1%N, PeVal 5%N)]));
           ZX (EBase NoFault (OSub 2%N [] false)); ZX (EBase NoFault (OPub 2%N 7%N false))] with
  | Some (z, outs) =>
    smodes (st (xb (oz_x z))) 2%N = Some (11%N, 47%N) /\ oz_gpriv z = [(2%N, PvMap [(1%N, 5%N)])] /\
    outs = [[(2%N, CtrlAcs 200 0%N 11%N 47%N)]; [(2%N, Ctrl 200 [])]; [(2%N, Ctrl 403 [])]]
  | None => False
  end.
Proof. vm_compute. repeat split. Qed.
Example c03o_ex_root_on_behalf_of_banned :
  let z0 := ozinit_c03 (xinit c03_w_store) in
  match ozrun_c03 (fun _ _ => None) (fun r => r) c03o_w_sm c03o_w_roots z0
          [ZX (EBase NoFault (OSub 1%N [] false)); ZObo (OboUser 2%N) NoFault (OSub 3%N [] false);
           ZObo (OboUser 2%N) NoFault (OPub 3%N 7%N false);
           ZX (EBase NoFault (OSetSub 1%N 2%N [82%N; 87%N; 80%N]));
           ZObo (OboUser 2%N) NoFault (OPub 3%N 8%N false)] with
  | Some (z, outs) =>
    smodes (st (xb (oz_x z))) 2%N = Some (47%N, 14%N) /\
    match ca (xb (oz_x z)) with Some c => none_attached_as_c03 c 2%N && negb (attached c 3%N) | None => false end = true /\
    nth 2 outs [] = [(3%N, Ctrl 202 [(P_seq, 1)]); (1%N, Data 1 2%N 7%N); (3%N, Data 1 2%N 7%N); (0%N, Push 1 2%N [1%N; 2%N])] /\
    nth 3 outs [] = [(3%N, Evicted false); (1%N, CtrlAcs 200 2%N 47%N 14%N)] /\
    nth 4 outs [] = [(3%N, Ctrl 409 [])]
  | None => False
  end.
Proof. vm_compute. repeat split. Qed.

(* ------------------------------------------------------------------ *)
(* s03f: creation of a peer-to-peer topic - whose auth level selects the creator's granted mode
   (Sys/P2PCreateC03f.v: Session.dispatch's acting user/level, selectAccessMode, initTopicP2P,
   subscriptionReply/thisUserSub without a requested mode, the publish gate).  All statements for
   any two distinct accounts, any default access modes, any stored rows, any session table. *)
From Tinode Require Import Sys.P2PCreateC03f Sys.P2PCreateC03fProofs.

(* the subscription created for the requester of {sub usrB} is granted exactly the peer's default
   for the level the request is executed at (selectAccessMode on the ACTING level) *)
Theorem c03f_creator_grant_follows_acting_level : forall ua ub, ua <> ub -> forall l s u1 s' c nb,
  party_c03f ua ub u1 = true -> init_p2p_c03f ua ub l s u1 = IOk s' c nb ->
  (if t_ex s then srow_of ua s u1 else None) = None ->
  nb = true /\
  r_given (crow_of ua c u1) =
    select_mode_c03f l (d_anon (acct_of ua s (peer_c03f ua ub u1))) (d_auth (acct_of ua s (peer_c03f ua ub u1))) ModeCP2P_c03f /\
  srow_of ua s' u1 = Some (crow_of ua c u1).
Proof. exact init_creator_grant. Qed.
Print Assumptions c03f_creator_grant_follows_acting_level.

(* an existing subscription of the requester is loaded as stored *)
Theorem c03f_existing_grant_kept : forall ua ub, ua <> ub -> forall l s u1 s' c nb r,
  party_c03f ua ub u1 = true -> init_p2p_c03f ua ub l s u1 = IOk s' c nb -> t_ex s = true -> srow_of ua s u1 = Some r ->
  nb = false /\ crow_of ua c u1 = r /\ srow_of ua s' u1 = Some r.
Proof. exact init_existing_kept. Qed.
Print Assumptions c03f_existing_grant_kept.

(* the session's own level and user do not matter: a request of ANY root session on behalf of u
   with extra.authlevel x is, reply and resulting state, the request of a session of u at that
   level (absent / unparsable authlevel = auth) *)
Theorem c03f_obo_same_as_own_session : forall ua ub sm1 sm2 s q1 q2 r u x l,
  alookup (q_sid q1) sm1 = Some (r, LvRoot) -> q_obo q1 = ObUser u -> q_xl q1 = x ->
  l = (match parse_level_c03f x with LvNone => LvAuth | l0 => l0 end) ->
  alookup (q_sid q2) sm2 = Some (u, l) -> q_obo q2 = ObNone -> q_sid q2 = q_sid q1 -> q_kind q2 = q_kind q1 ->
  step_c03f ua ub sm1 s q1 = step_c03f ua ub sm2 s q2.
Proof. exact obo_same_as_own. Qed.
Print Assumptions c03f_obo_same_as_own_session.

(* cache and stored rows agree after every history *)
Theorem c03f_cache_follows_store_history : forall ua ub, ua <> ub -> forall sm h s s',
  coh_c03f s -> run_c03f ua ub sm s h = Some s' -> coh_c03f s'.
Proof. intros ua ub H sm h. exact (run_coh ua ub H sm h). Qed.
Print Assumptions c03f_cache_follows_store_history.

(* accepted iff: after any history, a {pub} executed as u (own session or root on behalf) gets
   202 iff the sending session is attached and u's STORED row has W in want and in given *)
Theorem c03f_publish_accepted_iff_history : forall ua ub, ua <> ub -> forall sm h s0 s q suid slvl u l s' code seq,
  coh_c03f s0 -> run_c03f ua ub sm s0 h = Some s ->
  alookup (q_sid q) sm = Some (suid, slvl) -> dispatch_c03f suid slvl (q_obo q) (q_xl q) = DRun u l -> q_kind q = KPub ->
  step_c03f ua ub sm s q = Some (s', (code, seq)) ->
  (code = 202 <-> attached_now_c03f s (q_sid q) = true /\ stored_writer_c03f ua s u = true).
Proof. intros ua ub H sm h s0 s q suid slvl u l s' code seq C R. eapply pub_iff; [exact H|]. eapply run_coh; eassumption. Qed.
Print Assumptions c03f_publish_accepted_iff_history.

(* refused = no effect at all; accepted = next number, one message by u, rows untouched *)
Theorem c03f_publish_effect : forall ua ub sm s q suid slvl u l s' code seq,
  alookup (q_sid q) sm = Some (suid, slvl) -> dispatch_c03f suid slvl (q_obo q) (q_xl q) = DRun u l -> q_kind q = KPub ->
  step_c03f ua ub sm s q = Some (s', (code, seq)) ->
  (code <> 202 -> s' = s /\ seq = None) /\
  (code = 202 -> exists c, ca s = Some c /\ seq = Some (k_lastid c + 1) /\ t_seq s' = k_lastid c + 1 /\
                 s_msgs s' = s_msgs s ++ [(k_lastid c + 1, u)] /\ s_a s' = s_a s /\ s_b s' = s_b s).
Proof. exact pub_effect. Qed.
Print Assumptions c03f_publish_effect.

(* the variant with the SESSION's level in initTopicP2P (seeded change C03-r5-2): full statement
   "a creator whose peer's default for his level lacks W cannot publish" is refuted for it and
   holds on the witness for the faithful model *)
Definition c03f_sessvar_grant_statement : Prop := forall sm s q s1 r,
  step_sessvar_c03f 1%N 2%N sm s q = Some (s1, r) -> step_c03f 1%N 2%N sm s q = Some (s1, r).
Theorem c03f_sessvar_grant_refuted : ~ c03f_sessvar_grant_statement.
Proof.
  intros H. pose proof sessvar_witness as W. pose proof faithful_witness as F.
  destruct (step_sessvar_c03f 1%N 2%N w_sessions_c03f w_state_c03f w_sub_c03f) as [[s1 r]|] eqn:E; [|exact W].
  rewrite (H _ _ _ _ _ E) in F. destruct W as [W _]. destruct F as [F _]. rewrite W in F. discriminate.
Qed.
Print Assumptions c03f_sessvar_grant_refuted.
(* partial: the two coincide whenever the request is not on behalf of somebody (s.authLvl = msg.AuthLvl) *)
Theorem c03f_sessvar_grant_partial : forall ua ub sm s q, q_obo q = ObNone ->
  step_sessvar_c03f ua ub sm s q = step_c03f ua ub sm s q.
Proof.
  intros ua ub sm s q H. unfold step_sessvar_c03f, step_c03f, step_gen_c03f. rewrite H.
  destruct (alookup (q_sid q) sm) as [[a b]|]; reflexivity.
Qed.
Print Assumptions c03f_sessvar_grant_partial.
Example c03f_ex_root_on_behalf_creates_without_w :
  match step_c03f 1%N 2%N w_sessions_c03f w_state_c03f w_sub_c03f with
  | Some (s1, _) => option_map r_given (s_a s1) = Some 27%N /\
    match step_c03f 1%N 2%N w_sessions_c03f s1 w_pub_c03f with Some (_, (code, _)) => code = 403 | None => False end
  | None => False end.
Proof. exact faithful_witness. Qed.
