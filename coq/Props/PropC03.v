(* C03  Only users with effective write permission can add a message to a topic.
   Theorems only, about the topic model Sys/Topic.v (one group topic; the self/search
   and system topics are outside this model, see DESIGN.md section 7). *)
From Coq Require Import ZArith NArith List Bool.
From Tinode Require Import Base.Util Pure.Acs Sys.Topic Sys.TopicTac Sys.TopicFrame Sys.TopicNum Sys.TopicOut Sys.TopicNumThm Sys.TopicPub.
Import ListNotations.
Open Scope Z_scope.

Section C03.
Variable dr : Z -> list (Z * Z) -> option (list (Z * Z)).
Variable nr : list (Z * Z) -> list (Z * Z).
Variable sm : sessmap.

(* [accepts sm x sid]: the topic is loaded, the session is attached, and the author's
   subscription has W in both the requested and the granted mode. *)

(* A publish is acknowledged if and only if [accepts] holds - in every state satisfying the
   numbering invariant, hence (c03_reachable) in every reachable state of every history. *)
Theorem c03_accepted_iff : forall x sid content noecho, inv_num x ->
  ((exists n, first_reply (snd (step dr nr sm NoFault x (OPub sid content noecho))) sid = Some (Ctrl 202 [(P_seq, n)]))
   <-> accepts sm x sid = true).
Proof. exact (accept_iff dr nr sm). Qed.

Theorem c03_reachable : forall s h, fresh s -> inv_num (fst (run dr nr sm (mkState s None 0) h)).
Proof. intros s h F. apply run_inv_num. apply fresh_inv. exact F. Qed.

(* A rejected publish gets exactly one error reply, to the sender only, and has no effect at
   all: store and cache are unchanged (nothing stored, no number consumed, nobody receives
   data, receipts or anything else), whatever the fault plan. *)
Theorem c03_rejected_no_effect : forall f x sid content noecho, accepts sm x sid = false ->
  exists code, 400 <= code /\
    step dr nr sm f x (OPub sid content noecho) = (mkState (st x) (ca x) 0, [(sid, Ctrl code [])]).
Proof. exact (reject_no_effect dr nr sm). Qed.

(* An accepted publish reaches the store with the next number and the true author. *)
Theorem c03_accepted_effect : forall s c n sid u content noecho,
  is_writer (pud_mode (get_pud c u)) = true -> ~ In (c_lastid c + 1) (seqs s) ->
  h_out (publish NoFault s c n sid u content noecho) =
    (sid, Ctrl 202 [(P_seq, c_lastid c + 1)]) ::
    fanout_data (h_ca (publish NoFault s c n sid u content noecho)) (if noecho then sid else 0%N) (Data (c_lastid c + 1) u content)
    ++ push_out (h_ca (publish NoFault s c n sid u content noecho)) (c_lastid c + 1) u.
Proof. exact publish_nofault. Qed.
End C03.

Print Assumptions c03_accepted_iff.
Print Assumptions c03_reachable.
Print Assumptions c03_rejected_no_effect.
Print Assumptions c03_accepted_effect.

Example c03_ex_hypotheses_satisfiable :
  let s0 := ad_sub_create (ad_sub_create (mkStore true 0 0 0 47 0 [] [] [] [(1%N, 47%N); (2%N, 47%N)]) 1%N 255%N 255%N) 2%N 3%N 47%N in
  let sm := [(1%N, 1%N); (2%N, 2%N)] in
  let x := fst (run (fun _ _ => None) (fun x => x) sm (mkState s0 None 0) [(NoFault, OSub 1 [] false); (NoFault, OSub 2 [] false)]) in
  accepts sm x 1 = true /\ accepts sm x 2 = false /\ accepts sm x 3 = false.
Proof. vm_compute. repeat split. Qed.
