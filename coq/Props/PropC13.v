(* C13: no client input can crash the server or leave a request unanswered.
   PROOF HALF ONLY: statements about the models coq/Sys/PanicSites.v (session / hub routing of every
   message kind, the modelled panic sites, configurations as explicit parameters), coq/Sys/DefAccess.v
   (the in-topic default-access site: getDefaultAccess / Topic.accessFor and the handlers that reach it)
   and coq/Pure/Drafty.v (message content rendered into notification previews: the Drafty span pipeline).
   Panic-freedom of Go code outside these models is NOT proved here; it is tested by the fuzz half of
   the check.

   [handle rp c st f]: outcome of one wire frame [f] in state [st] under configuration [c];
   [rp = all_repairs] is the code as it is (/repo HEAD: the repairs findings/C13_*.diff and f52b053 are
   `fix:` commits), [rp = no_repairs] the code before those repairs.
   [run rp c st ms]: the outcomes of a history of requests of one session, the state being advanced by
   [after] (attachments and the cached subscription of the acting user, which is what the default-access
   site reads). *)
From Coq Require Import List NArith ZArith Bool.
Import ListNotations.
Require Import Tinode.Sys.PanicSites Tinode.Sys.PanicSitesProofs.
Open Scope N_scope.

(* ---- no panic ---- *)
(* full statement, for the code as it is *)
Definition c13_no_panic_statement : Prop :=
  forall c st f, state_wf st = true -> is_panic (handle no_repairs c st f) = false.

(* refuted by the faithful model: an anonymous client after {hi} sends {acc} with an unknown tmpscheme *)
Theorem c13_no_panic_refuted : ~ c13_no_panic_statement.
Proof. intros H. specialize (H cfg_all st_hi (Decoded w_acc) eq_refl). vm_compute in H. discriminate H. Qed.
Print Assumptions c13_no_panic_refuted.

(* one concrete witness per modelled site (all replayed on the real server by the check's corpus) *)
Theorem c13_witnesses :
  handle no_repairs cfg_all st_hi (Decoded w_acc) = Panic site_acc_nil_auth /\
  handle no_repairs cfg_all st_in (Decoded w_note_short) = Panic site_cat_slice /\
  handle no_repairs cfg_all st_in (Decoded w_note_prefix) = Panic site_cat_default /\
  handle no_repairs cfg_all st_in (Decoded w_del_topic) = Panic site_cat_slice /\
  handle no_repairs cfg_nomedia st_att (Decoded w_pub_att) = Panic site_media_save /\
  handle no_repairs cfg_nomedia st_hi (Decoded w_acc_att) = Panic site_media_link /\
  handle no_repairs cfg_all st_in (PbSet (msg0 KSet) true true) = Panic site_pb_setquery /\
  handle no_repairs cfg_all st_root_p2p (Decoded w_pub_obo) = Panic site_p2p_original /\
  handle no_repairs cfg_all st_root_p2p (Decoded w_get_obo) = Panic site_p2p_original /\
  handle no_repairs cfg_all st_root_sys_banned (Decoded w_sub_sys) = Panic site_defacs /\
  run no_repairs cfg_all st_root w_defacs = [rep 200 [55]; rep 200 [55]; Panic site_defacs].
Proof. vm_compute. repeat split. Qed.
Print Assumptions c13_witnesses.

(* the code before the repairs panics ONLY on the listed triggers: [trigger] is a predicate on the input
   (unknown tmpscheme; {note call} / {del topic} on a name GetTopicCat does not know; attachments
   without a media handler; obo of a non-member on an attached P2P topic; empty gRPC SetQuery; a request that
   makes the sys topic ask for its default access mode: {sub} / {set sub} of a self-banned subscriber without a
   mode, {set sub user=..} inviting a new user without a mode) *)
Theorem c13_no_panic_partial :
  forall c st f, state_wf st = true -> trigger c st f = false -> is_panic (handle no_repairs c st f) = false.
Proof.
  intros c st f Hwf Ht. destruct (is_panic (handle no_repairs c st f)) eqn:E; [|reflexivity].
  rewrite (handle_trigger c st f Hwf E) in Ht. discriminate Ht.
Qed.
Print Assumptions c13_no_panic_partial.

(* FULL statement for the repaired code: every configuration, every well-formed state (all oracle
   values), every frame *)
Theorem c13_no_panic :
  forall c st f, state_wf st = true -> is_panic (handle all_repairs c st f) = false.
Proof. exact handle_safe. Qed.
Print Assumptions c13_no_panic.

(* the same over histories of requests of one session (the state advanced by [after]) *)
Theorem c13_no_panic_history :
  forall c st ms, state_wf st = true -> Forall (fun o => is_panic o = false) (run all_repairs c st ms).
Proof. intros c st ms H. exact (run_safe c ms st H). Qed.
Print Assumptions c13_no_panic_history.

(* ---- the in-topic default-access site (getDefaultAccess / Topic.accessFor) ---- *)
(* getDefaultAccess as it is returns for each of the five topic categories, whatever the other arguments *)
Theorem c13_default_access_total :
  forall cat auth_user is_chan, exists mode, get_default_access all_repairs cat auth_user is_chan = Some mode.
Proof. exact default_access_total. Qed.
Print Assumptions c13_default_access_total.

(* before /repo f52b053 the table lacked exactly the sys topic *)
Theorem c13_default_access_unrepaired :
  forall cat auth_user is_chan, get_default_access no_repairs cat auth_user is_chan = None <-> (cat = CatSys /\ auth_user = true).
Proof. exact default_access_unrepaired. Qed.
Print Assumptions c13_default_access_unrepaired.

(* every call site that a client request reaches: thisUserSub (new subscription, un-self-ban), anotherUserSub
   (invite with the default mode), replySetSub, the registration handler, initTopicFnd / initTopicNewGrp,
   replyCreateUser - for every topic (all five categories), every cached subscription, every request *)
Theorem c13_default_access_sites :
  forall st ti u target m,
    is_panic (this_user_sub all_repairs st ti u m) = false /\
    is_panic (another_user_sub all_repairs st ti u target m) = false /\
    is_panic (reply_set_sub all_repairs st ti u m) = false /\
    is_panic (topic_reg all_repairs st ti u m) = false /\
    (forall cat is_chan, init_defaults all_repairs cat is_chan = true) /\
    new_user_defaults all_repairs = true.
Proof.
  intros st ti u target m. repeat split.
  - apply this_user_sub_safe.
  - apply another_user_sub_safe.
  - apply reply_set_sub_safe.
  - apply topic_reg_safe.
  - intros cat is_chan. destruct cat, is_chan; reflexivity.
Qed.
Print Assumptions c13_default_access_sites.

(* full statement over histories for the code before f52b053, refuted by the three-request witness found by the
   lifecycle stream of the fuzz half: a root session sends {sub sys}; {set sys sub mode=N}; {sub sys} *)
Definition c13_default_access_unrepaired_statement : Prop :=
  forall c st ms, state_wf st = true -> Forall (fun o => is_panic o = false) (run no_repairs c st ms).

Theorem c13_default_access_unrepaired_refuted : ~ c13_default_access_unrepaired_statement.
Proof.
  intros H. specialize (H cfg_all st_root w_defacs eq_refl). vm_compute in H.
  inversion H as [|? ? _ H1]; subst. inversion H1 as [|? ? _ H2]; subst. inversion H2 as [|? ? H3 _]; subst. discriminate H3.
Qed.
Print Assumptions c13_default_access_unrepaired_refuted.

(* ---- every request other than a note is answered ---- *)
(* hypotheses: the session is alive (a terminating session drops all output), and a {pub} carries an
   id ({pub} without id is by protocol design not acknowledged when accepted) *)
Theorem c13_answered :
  forall c st m, s_terminating st = false -> state_wf st = true -> m_kind m <> KNote ->
    (m_kind m = KPub -> is_empty (m_id m) = false) ->
    exists r rs, handle all_repairs c st (Decoded m) = Replies (r :: rs).
Proof.
  intros c st m H1 H2 H3 H4. pose proof (answered c st m H1 H2 H3 H4) as H.
  destruct (handle all_repairs c st (Decoded m)) as [[|r rs]| |]; try discriminate H. eauto.
Qed.
Print Assumptions c13_answered.

Theorem c13_answered_junk :
  forall c st obo u, s_terminating st = false ->
    (exists code, handle all_repairs c st Undecodable = Replies [{| r_code := code; r_id := [] |}] /\ 400 <= code) /\
    (exists code, handle all_repairs c st (NoKind obo u) = Replies [{| r_code := code; r_id := [] |}] /\ 400 <= code).
Proof.
  intros c st obo u Ht. simpl. rewrite Ht. split; [exists 400; split; [reflexivity|discriminate]|].
  destruct (obo_check st obo u) eqn:O.
  - exists n. split; [reflexivity|]. apply obo_check_code in O as [-> | ->]; discriminate.
  - exists 400. split; [reflexivity|discriminate].
Qed.
Print Assumptions c13_answered_junk.

(* ---- replies echo the id ---- *)
Definition c13_id_echo_statement : Prop :=
  forall c st m, state_wf st = true -> m_kind m <> KNote -> (m_kind m = KPub -> is_empty (m_id m) = false) ->
    all_ids (m_id m) (handle all_repairs c st (Decoded m)) = true.

(* refuted: extra.obo from a non-root session is refused before the id is read: ctrl 403 with id "" *)
Theorem c13_id_echo_refuted : ~ c13_id_echo_statement.
Proof.
  intros H. specialize (H cfg_all st_in w_get_obo_nonroot eq_refl).
  assert (K : m_kind w_get_obo_nonroot <> KNote) by discriminate.
  specialize (H K (fun E => ltac:(discriminate E))). vm_compute in H. discriminate H.
Qed.
Print Assumptions c13_id_echo_refuted.

Theorem c13_id_echo_partial :
  forall c st m, state_wf st = true -> m_kind m <> KNote -> (m_kind m = KPub -> is_empty (m_id m) = false) ->
    obo_check st (m_obo m) (m_obo_uid m) = None ->
    all_ids (m_id m) (handle all_repairs c st (Decoded m)) = true.
Proof. exact id_echo_partial. Qed.
Print Assumptions c13_id_echo_partial.

(* ---- malformed / unauthorised / out-of-sequence requests get an error code, not silence ---- *)
Theorem c13_error_not_silence :
  forall c st m, s_terminating st = false -> bad_request st m = true ->
    exists code, first_code (handle all_repairs c st (Decoded m)) = Some code /\ 400 <= code.
Proof.
  intros c st m Ht Hb. pose proof (error_not_silence c st m Ht Hb) as H. unfold code_ge in H.
  destruct (first_code (handle all_repairs c st (Decoded m))) as [code|]; [|discriminate H].
  exists code. split; [reflexivity|]. now apply N.leb_le.
Qed.
Print Assumptions c13_error_not_silence.

(* the hypotheses are satisfiable *)
Example c13_wf_example : state_wf st_att = true /\ state_wf st_root_p2p = true /\ state_wf st_root = true /\ state_wf st_root_sys_banned = true /\
  trigger cfg_all st_att (Decoded (msg0 KHi)) = false /\ trigger cfg_all st_root_sys_banned (Decoded w_sub_sys) = true.
Proof. vm_compute. repeat split. Qed.
Example c13_bad_example : bad_request st_hi (with_topic KGet s_me [] 0%Z false [] 0 true []) = true.
Proof. reflexivity. Qed.

(* ================= message content rendered into notification previews (coq/Pure/Drafty.v) ================= *)
(* [Drafty.to_tree true] = toTree as it is (server/drafty/drafty.go), from the decoded document on; Go int
   additions of client integers wrap at 64 bits; every slice / index expression has an explicit Panic
   outcome; forEach runs on fuel.  The statements hold for EVERY decoded document: all integers, any
   number of spans and entities, any nesting, any text (incl. no text: nil grapheme container). *)
Require Tinode.Pure.Drafty Tinode.Pure.DraftyProofs.
Open Scope Z_scope.

(* toTree never panics and its recursion forEach never runs out of fuel *)
Theorem c13_drafty_never_panics :
  forall doc, (forall site, Drafty.to_tree true doc <> Drafty.Panic site) /\ Drafty.to_tree true doc <> Drafty.OutOfFuel.
Proof. intros doc. exact (DraftyProofs.safe_not_panic _ (DraftyProofs.to_tree_safe doc)). Qed.
Print Assumptions c13_drafty_never_panics.

(* forEach itself: on ANY list of spans that passed the range check (in any order, sorted or not), from any
   start >= 0 to any end within the text, it terminates with fuel = S (number of spans) and does not panic *)
Theorem c13_drafty_for_each_total :
  forall g start end_ spans, DraftyProofs.gcs_wf g -> 0 <= start -> end_ <= Drafty.g_length g ->
    Forall (DraftyProofs.span_ok (Drafty.g_length g)) spans ->
    exists nodes, Drafty.for_each (S (length spans)) g start end_ spans = Drafty.Ok nodes.
Proof.
  intros g start end_ spans Hg Hs He Hok.
  destruct (DraftyProofs.for_each_ok (S (length spans)) g start end_ spans Hg (le_n _) Hs He Hok) as [nodes [E _]]. eauto.
Qed.
Print Assumptions c13_drafty_for_each_total.

(* the container built by prepareGraphemes satisfies the invariant the slices rely on *)
Theorem c13_drafty_container_wf : forall doc, DraftyProofs.gcs_wf (Drafty.d_gc doc).
Proof. exact DraftyProofs.d_gc_wf. Qed.
Print Assumptions c13_drafty_container_wf.

(* PlainText (up to TrimSpace) and Preview (up to copyLight / json.Marshal), for every preview length that is a Go int *)
Theorem c13_drafty_plain_text_never_panics :
  forall doc, (forall site, Drafty.plain_text true doc <> Drafty.Panic site) /\ Drafty.plain_text true doc <> Drafty.OutOfFuel.
Proof. intros doc. exact (DraftyProofs.safe_not_panic _ (DraftyProofs.plain_text_safe doc)). Qed.
Print Assumptions c13_drafty_plain_text_never_panics.

Theorem c13_drafty_preview_never_panics :
  forall doc max_len, max_len < Drafty.two63 ->
    (forall site, Drafty.preview true max_len doc <> Drafty.Panic site) /\ Drafty.preview true max_len doc <> Drafty.OutOfFuel.
Proof. intros doc max_len H. exact (DraftyProofs.safe_not_panic _ (DraftyProofs.preview_safe max_len doc H)). Qed.
Print Assumptions c13_drafty_preview_never_panics.

(* the range check before /repo commit 6cc931e ("s.at < -1 || s.end > textLen" only) *)
Definition c13_drafty_unrepaired_statement : Prop := forall doc site, Drafty.to_tree false doc <> Drafty.Panic site.

(* refuted: {"txt":"hello","fmt":[{"at":4611686018427387904,"len":4611686018427387904,"tp":"ST"}]}: at+len wraps to -2^63,
   passes the check, and forEach slices the text up to 2^62 *)
Theorem c13_drafty_unrepaired_refuted : ~ c13_drafty_unrepaired_statement.
Proof. intros H. exact (H Drafty.doc_overflow Drafty.site_sizes_index DraftyProofs.unrepaired_panics). Qed.
Print Assumptions c13_drafty_unrepaired_refuted.

(* ... and the overflow is the only trigger: when no at+len leaves the int range the old check behaves as the new one *)
Theorem c13_drafty_unrepaired_partial :
  forall doc, DraftyProofs.no_overflow doc ->
    (forall site, Drafty.to_tree false doc <> Drafty.Panic site) /\ Drafty.to_tree false doc <> Drafty.OutOfFuel.
Proof. intros doc H. rewrite (DraftyProofs.unrepaired_same doc H). exact (DraftyProofs.safe_not_panic _ (DraftyProofs.to_tree_safe doc)). Qed.
Print Assumptions c13_drafty_unrepaired_partial.

(* the model computes: nested spans, an attachment with entity data, a preview cut at 3 graphemes *)
Example c13_drafty_example :
  Drafty.plain_text true Drafty.doc_nested
    = Drafty.Ok [91;70;73;76;69;32;39;102;39;93;42;104;95;101;108;95;108;111;42]%N      (* [FILE 'f']*h_el_lo* *)
  /\ DraftyProofs.no_overflow Drafty.doc_nested.
Proof.
  split; [vm_compute; reflexivity|]. intros i Hi. cbn in Hi.
  repeat (destruct Hi as [<- | Hi]; [vm_compute; split; [discriminate|reflexivity]|]). destruct Hi.
Qed.

(* ================= the request slot of a session and slow consumers (coq/Sys/Inflight.v) ================= *)
(* boundedWaitGroup.Done() without a preceding Add() is a logs.Err.Panicln in a hub / topic goroutine: process death.
   [Inflight.run init_test init_cfg ls]: any interleaving [ls] of the handler bodies that call Add / Done
   (Session.subscribe / leave, Hub.run join, topicInit, registerSession, unregisterSession, the slow-consumer drop
   of broadcastToSessions, cleanUp / unsubAll, evictUser, the write loop's detach) from server start, for any
   number of sessions and topics, every value of the label parameters (queue-full outcomes, who a broadcast
   selects, whether a subscription is accepted, which connections have stopped reading).
   [init_test = true] is the code as it is. *)
Require Tinode.Sys.Inflight Tinode.Sys.InflightProofs.
Open Scope N_scope.

(* FULL: on no path is Done reached without a matching Add *)
Theorem c13_inflight_no_panic :
  forall ls, Inflight.is_panic (Inflight.run true Inflight.init_cfg ls) = false.
Proof. exact InflightProofs.run_no_panic. Qed.
Print Assumptions c13_inflight_no_panic.

(* ... because at every reachable state the slot of a session holds exactly its {sub} / {leave} requests that sit
   in hub.join, in a topicInit, in a t.reg or in a t.unreg (nil after cleanUp, and then nothing of it is queued) *)
Theorem c13_inflight_balanced :
  forall ls c s, Inflight.run true Inflight.init_cfg ls = Inflight.Ok c ->
    match Inflight.s_inflight (Inflight.c_sess c s) with
    | Some n => n = Inflight.pending c s
    | None => Inflight.pending c s = 0%nat
    end.
Proof. exact InflightProofs.run_balanced. Qed.
Print Assumptions c13_inflight_balanced.

(* ... hence at rest (all queues empty) every slot is free: what the driver reads after every operation *)
Theorem c13_inflight_free_at_rest :
  forall ls c s, Inflight.run true Inflight.init_cfg ls = Inflight.Ok c -> Inflight.quiescent c = true ->
    Inflight.s_inflight (Inflight.c_sess c s) = Some 0%nat \/ Inflight.s_inflight (Inflight.c_sess c s) = None.
Proof. exact InflightProofs.run_quiescent_free. Qed.
Print Assumptions c13_inflight_free_at_rest.

(* the variant of Topic.unregisterSession that drops the test of msg.init *)
Definition c13_evict_without_init_test_statement : Prop :=
  forall ls, Inflight.is_panic (Inflight.run false Inflight.init_cfg ls) = false.

(* refuted: a session attaches, stops reading, the topic broadcasts: the drop path releases a slot nobody took *)
Theorem c13_evict_without_init_test_refuted : ~ c13_evict_without_init_test_statement.
Proof. intros H. specialize (H Inflight.w_slow_consumer). rewrite InflightProofs.variant_panics in H. discriminate H. Qed.
Print Assumptions c13_evict_without_init_test_refuted.

(* ... and a full send queue is the only trigger: without a connection that stops reading the variant is safe too *)
Theorem c13_evict_without_init_test_partial :
  forall ls, InflightProofs.no_clog ls = true -> Inflight.is_panic (Inflight.run false Inflight.init_cfg ls) = false.
Proof. exact InflightProofs.run_variant_partial. Qed.
Print Assumptions c13_evict_without_init_test_partial.

Example c13_inflight_example :
  Inflight.run false Inflight.init_cfg Inflight.w_slow_consumer = Inflight.Panic Inflight.site_done_before_add /\
  Inflight.is_panic (Inflight.run true Inflight.init_cfg Inflight.w_slow_consumer) = false /\
  InflightProofs.no_clog Inflight.w_slow_consumer = false.
Proof. vm_compute. repeat split. Qed.

(* ================= requests queued for a topic while it is being loaded (coq/Sys/HeldLoad.v) ================= *)
(* [HeldLoad.run_held as_is ti join ms rel]: the replies, in order, when session [m_sess join] sends the {sub} [join]
   for a topic that is not loaded, the requests [ms] of any sessions (none attached: {pub} {note} {get} {set} {del}
   {leave} {sub}, any ids) arrive while the database call of the load is in flight, and the load then succeeds
   ([RelOk]) or fails with any error ([RelFail code]).  [as_is = true] is the code as it is. *)
Require Tinode.Sys.HeldLoad Tinode.Sys.HeldLoadProofs.

(* FULL: every reply goes to the session of a request and carries THAT request's id (never the id of another
   pending request; the reply to a note carries the note's empty id) *)
Theorem c13_held_load_id_echo :
  forall ti join ms rel, HeldLoad.all_own (join :: ms) (HeldLoad.run_held true ti join ms rel) = true.
Proof. exact HeldLoadProofs.run_held_all_own. Qed.
Print Assumptions c13_held_load_id_echo.

(* the failure branch of topicInit exactly: one reply to the join, then ONE 503 per queued client message, in queue
   order, to that message's session with that message's id, then one per queued {del what=topic} *)
Theorem c13_held_load_failure_exact :
  forall e h, HeldLoad.release_fail true e h =
    HeldLoad.own (HeldLoad.h_join h) e
    :: map (fun m => HeldLoad.own m 503) (HeldLoad.h_client h) ++ map (fun m => HeldLoad.own m 503) (HeldLoad.h_meta h).
Proof. exact HeldLoadProofs.release_fail_exact. Qed.
Print Assumptions c13_held_load_failure_exact.

(* the variant whose drain of t.clientMsg answers with join.Id *)
Definition c13_held_load_join_id_statement : Prop :=
  forall ti join ms rel, HeldLoad.all_own (join :: ms) (HeldLoad.run_held false ti join ms rel) = true.

Theorem c13_held_load_join_id_refuted : ~ c13_held_load_join_id_statement.
Proof.
  intros H. specialize (H HeldLoad.ti_sys_topic HeldLoad.w_join [HeldLoad.w_pub] (HeldLoad.RelFail 500)).
  rewrite HeldLoadProofs.variant_foreign_id in H. discriminate H.
Qed.
Print Assumptions c13_held_load_join_id_refuted.

(* every request other than a note is answered (the queue of the paused topic, 192 slots, not overrun) *)
Definition c13_held_load_answered_statement : Prop :=
  forall ti join ms rel m, (length ms <= HeldLoad.client_cap)%nat -> In m (join :: ms) -> HeldLoad.is_note m = false ->
    HeldLoad.pub_has_id m = true -> HeldLoad.answered (HeldLoad.run_held true ti join ms rel) m = true.

(* REFUTED by the faithful model (and on the real server, see findings/C13.md): a P2P topic is deleted by a
   {del what=topic} while it is being loaded; the load succeeds; topicInit returns at `if t.isDeleted()` and the
   {sub} is never answered *)
Theorem c13_held_load_answered_refuted : ~ c13_held_load_answered_statement.
Proof.
  intros H. specialize (H HeldLoad.ti_p2p_topic HeldLoad.w_join [HeldLoad.w_del] HeldLoad.RelOk HeldLoad.w_join).
  rewrite HeldLoadProofs.join_lost in H. assert (K : false = true); [apply H|discriminate K].
  - cbn. repeat constructor.
  - now left.
  - reflexivity.
  - reflexivity.
Qed.
Print Assumptions c13_held_load_answered_refuted.

(* a second way: the OWNER's {del what=topic} for a group topic that is being loaded is queued in t.meta (t.owner is
   not known yet); after the load Topic.replyDelTopic finds the owner, logs "SHOULD NOT HAPPEN" and returns without a reply *)
Theorem c13_held_load_owner_del_unanswered :
  HeldLoad.answered (HeldLoad.run_held true HeldLoad.ti_grp_topic HeldLoad.w_join [HeldLoad.w_del_owner] HeldLoad.RelOk) HeldLoad.w_del_owner = false.
Proof. exact HeldLoadProofs.owner_del_lost. Qed.
Print Assumptions c13_held_load_owner_del_unanswered.

(* ... and these are the only ways to lose an answer: [lost_trigger] = the load SUCCEEDS after a {del what=topic}
   arrived for a P2P topic, or after the owner's {del what=topic} arrived *)
Theorem c13_held_load_answered_partial :
  forall ti join ms rel m, HeldLoadProofs.lost_trigger ti ms rel = false -> (length ms <= HeldLoad.client_cap)%nat ->
    In m (join :: ms) -> HeldLoad.is_note m = false -> HeldLoad.pub_has_id m = true ->
    HeldLoad.answered (HeldLoad.run_held true ti join ms rel) m = true.
Proof. exact HeldLoadProofs.run_held_answered. Qed.
Print Assumptions c13_held_load_answered_partial.

Example c13_held_load_example :
  HeldLoad.run_held true HeldLoad.ti_sys_topic HeldLoad.w_join [HeldLoad.w_pub] (HeldLoad.RelFail 500)
    = [HeldLoad.mkRep 1 500 [115;49]; HeldLoad.mkRep 2 503 [112;55]] /\
  HeldLoad.run_held false HeldLoad.ti_sys_topic HeldLoad.w_join [HeldLoad.w_pub] (HeldLoad.RelFail 500)
    = [HeldLoad.mkRep 1 500 [115;49]; HeldLoad.mkRep 2 503 [115;49]] /\
  HeldLoadProofs.lost_trigger HeldLoad.ti_p2p_topic [HeldLoad.w_del] HeldLoad.RelOk = true.
Proof. vm_compute. repeat split. Qed.

(* ================= the session store and the stop notice (coq/Sys/EvictStoreC13.v) ================= *)
(* "never terminates the server process, and all other sessions keep being served ... every request is answered" for
   the requests that terminate a user's sessions.  [EvictStoreC13.run keep ls (init_store us)]: any history [ls] of
   NewSession (any transport, any set of stale long-polling sessions expiring), {login}, SessionStore.Get / Delete,
   SessionStore.EvictUser, the write loop / a poll taking the stop notice, cleanUp, {acc user=U status=S} and
   {del what=user [user=U]} requests of any session (root or not, any target, any store outcome), from a server with the
   users table [us].  [Blocks BEvict sid] = SessionStore.EvictUser executes `s.stop <- data` on a full channel WHILE
   HOLDING SessionStore.lock: the requester is never answered, and every Get / NewSession / Delete of every other
   session hangs.  [keep = false] is the code as it is; [prompt_label] excludes exactly the requests whose handler puts
   a notice on the REQUESTER's own, still cached, session (replyDelUser of the own account) while nobody reads that
   session's stop channel (a long-polling session between polls, a stalled connection). *)
Require Tinode.Sys.EvictStoreC13 Tinode.Sys.EvictStoreC13Proofs.

Definition c13_evict_never_blocks_statement : Prop :=
  forall us ls, EvictStoreC13.blocks_evict (EvictStoreC13.run false ls (EvictStoreC13.init_store us)) = false.

(* REFUTED by the faithful model (and on the real server, findings/C13.md "EvictUser after a self-deletion through an
   idle long-polling session"): user 7 deletes the own account through a long-polling session and does not poll again;
   a root session deletes user 7: EvictUser finds the session still cached with its notice not taken *)
Theorem c13_evict_never_blocks_refuted : ~ c13_evict_never_blocks_statement.
Proof.
  intros H. specialize (H EvictStoreC13Proofs.wit_users EvictStoreC13Proofs.wit_self).
  rewrite EvictStoreC13Proofs.wit_self_blocks in H. discriminate H.
Qed.
Print Assumptions c13_evict_never_blocks_refuted.

(* ... and that is the only way: on every other history - any number of evictions of the same user, with any number of
   sessions of any transport whose stop channel nobody reads - EvictUser never waits *)
Theorem c13_evict_never_blocks_partial :
  forall us ls, forallb EvictStoreC13.prompt_label ls = true ->
    EvictStoreC13.blocks_evict (EvictStoreC13.run false ls (EvictStoreC13.init_store us)) = false.
Proof. exact EvictStoreC13Proofs.never_blocks_evict. Qed.
Print Assumptions c13_evict_never_blocks_partial.

(* ... because a session that is in sessCache has an empty stop channel (the notice and the removal from the cache
   happen in the same critical section: a session gets at most one notice from EvictUser) *)
Theorem c13_evict_cached_means_no_notice :
  forall us ls st s, forallb EvictStoreC13.prompt_label ls = true ->
    EvictStoreC13.run false ls (EvictStoreC13.init_store us) = EvictStoreC13.Ok st ->
    In s (EvictStoreC13.sessions st) -> EvictStoreC13.s_cached s = true -> EvictStoreC13.s_stopfull s = false.
Proof.
  intros us ls st s P E. apply EvictStoreC13Proofs.store_inv_spec. exact (EvictStoreC13Proofs.reachable_inv us ls st P E).
Qed.
Print Assumptions c13_evict_cached_means_no_notice.

(* the variant of EvictUser that leaves the evicted sessions in sessCache ("the session deletes itself when its write
   loop takes the notice") *)
Definition c13_evict_keep_cached_statement : Prop :=
  forall us ls, forallb EvictStoreC13.prompt_label ls = true ->
    EvictStoreC13.blocks_evict (EvictStoreC13.run true ls (EvictStoreC13.init_store us)) = false.

(* refuted: a user with an idle long-polling session is suspended, un-suspended and suspended again by root *)
Theorem c13_evict_keep_cached_refuted : ~ c13_evict_keep_cached_statement.
Proof.
  intros H. specialize (H EvictStoreC13Proofs.wit_users EvictStoreC13Proofs.wit_keep (proj1 EvictStoreC13Proofs.wit_keep_prompt)).
  rewrite EvictStoreC13Proofs.wit_keep_blocks in H. discriminate H.
Qed.
Print Assumptions c13_evict_keep_cached_refuted.

Example c13_evict_example :
  EvictStoreC13.run true EvictStoreC13Proofs.wit_keep_del (EvictStoreC13.init_store EvictStoreC13Proofs.wit_users)
    = EvictStoreC13.Blocks EvictStoreC13.BEvict 1 /\
  EvictStoreC13.blocks_any (EvictStoreC13.run false EvictStoreC13Proofs.wit_keep (EvictStoreC13.init_store EvictStoreC13Proofs.wit_users)) = false /\
  EvictStoreC13.blocks_any (EvictStoreC13.run false EvictStoreC13Proofs.wit_keep_del (EvictStoreC13.init_store EvictStoreC13Proofs.wit_users)) = false /\
  forallb EvictStoreC13.prompt_label EvictStoreC13Proofs.wit_self = false.
Proof. vm_compute. repeat split. Qed.

(* ================= the plain-text preview of a push notification (coq/Pure/PushPreviewC13.v) ================= *)
(* payloadToData (server/push/fcm/payload.go; fcm and tnpg adapters): the plain text of the message content is
   trimmed to push.MaxPayloadLength = 128 runes; the byte length is tested first, then the rune length, then
   runes[:128] is taken. A text is ANY list of units (well-formed sequences of any code point / stray bytes). *)
Require Tinode.Pure.PushPreviewC13 Tinode.Pure.PushPreviewC13Proofs.

(* for EVERY text: the truncation never slices beyond the rune length, the content is the text itself (at most 128 runes) or
   a prefix of its runes of at most 128 runes followed by the ellipsis, the latter exactly when runes were dropped *)
Theorem c13_push_preview_no_panic : forall s,
  (forall b l, PushPreviewC13.trim_c13 true s <> PushPreviewC13.PPanicSlice b l) /\
  exists p, (length p <= PushPreviewC13.max_payload_c13)%nat /\ p = firstn (length p) (PushPreviewC13.runes_c13 s) /\
    (PushPreviewC13.trim_c13 true s = PushPreviewC13.POk s /\ p = PushPreviewC13.runes_c13 s \/
     PushPreviewC13.trim_c13 true s = PushPreviewC13.POk (map PushPreviewC13.UValid p ++ [PushPreviewC13.UValid PushPreviewC13.ellipsis_c13]) /\ (length p < length (PushPreviewC13.runes_c13 s))%nat).
Proof. intros s. split; [exact (PushPreviewC13Proofs.trim_no_panic s)|exact (PushPreviewC13Proofs.trim_prefix s)]. Qed.
Print Assumptions c13_push_preview_no_panic.

(* exact result *)
Theorem c13_push_preview_exact : forall s,
  ((length (PushPreviewC13.runes_c13 s) <= 128)%nat /\ PushPreviewC13.trim_c13 true s = PushPreviewC13.POk s) \/
  ((128 < length (PushPreviewC13.runes_c13 s))%nat /\
   PushPreviewC13.trim_c13 true s = PushPreviewC13.POk (map PushPreviewC13.UValid (firstn 128 (PushPreviewC13.runes_c13 s)) ++ [PushPreviewC13.UValid PushPreviewC13.ellipsis_c13])).
Proof. exact PushPreviewC13Proofs.trim_spec. Qed.
Print Assumptions c13_push_preview_exact.

(* the variant that tests only the BYTE length before runes[:128] ("the rune test is redundant") *)
Definition c13_push_preview_bytes_only_statement : Prop :=
  forall s b l, PushPreviewC13.trim_c13 false s <> PushPreviewC13.PPanicSlice b l.

(* refuted: 65 Cyrillic letters = 130 bytes, 65 runes: runes[:128] of a 65-rune slice *)
Theorem c13_push_preview_bytes_only_refuted : ~ c13_push_preview_bytes_only_statement.
Proof. intros H. exact (H PushPreviewC13.witness_cyrillic_c13 128%nat 65%nat PushPreviewC13Proofs.variant_panics). Qed.
Print Assumptions c13_push_preview_bytes_only_refuted.

(* ... and multi-byte text of more than 128 bytes and fewer than 128 runes is exactly the trigger *)
Theorem c13_push_preview_bytes_only_partial : forall s,
  (exists b l, PushPreviewC13.trim_c13 false s = PushPreviewC13.PPanicSlice b l) <->
  ((128 < PushPreviewC13.byte_len_c13 s)%nat /\ (length (PushPreviewC13.runes_c13 s) < 128)%nat).
Proof. exact PushPreviewC13Proofs.variant_trigger. Qed.
Print Assumptions c13_push_preview_bytes_only_partial.
