(* C14 Attach, detach, disconnect and delete race without leaks, hangs or lost replies.
   Model: Sys/Lifecycle.v.  Lemmas: Sys/LifecycleProofs.v.  Theorems only. *)
From Coq Require Import List Arith Bool.
From Tinode Require Import Sys.Lifecycle Sys.LifecycleProofs.
Import ListNotations.

Theorem c14_inflight_balance_partial : forall st ow us c, reach_safe st ow us c -> inv_bal c.
Proof. exact inv_bal_safe. Qed.
Print Assumptions c14_inflight_balance_partial.
