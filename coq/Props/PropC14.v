(* C14 Attach, detach, disconnect and delete race without leaks, hangs or lost replies.

   Model: Sys/Lifecycle.v - sessions, hub and topic instances as communicating processes; one step = one
   handler body of the Go code at the granularity of one channel receive; `reach` = every interleaving of
   subscribe, leave, unsubscribe, delete, session disconnect, slow-consumer eviction, idle unload, with any
   number of sessions, topics and topic instances.  Queues are UNBOUNDED FIFOs (the real buffers have 1..256
   slots): a deadlock that needs a full buffer is outside the model.  Group topics with or without channel
   functionality, addressed by the group name (grpXXX) or by the channel name (chnXXX): the name form of a
   request decides asChan (Topic.verifyChannelAccess), the form a session attached under is kept per session
   (perSessionData.isChanSub), and handleLeaveRequest compares the two AFTER it has detached the session.
   Account deletion, p2p, 'me', the per-user records (online counters, channel readers' rows), presence
   and the last clause of the property (shared data only under its lock / atomic) are NOT in this model:
   the burst driver exercises them on the real code (the last clause under the Go race detector, thorough
   tier: testing in support, no theorem).
   Lemmas: Sys/LifecycleProofs.v, LifecycleAttach.v, LifecycleTerm.v, LifecycleProgress.v, LifecycleReply.v.
   Theorems only.  Where the faithful model REFUTES a clause, the clause is kept as a `_statement`, refuted
   by a witness schedule that was replayed on the real code (findings/C14.md), and proved `_partial` on the
   executions that avoid exactly the offending step. *)
From Coq Require Import List Arith Bool Lia NArith.
From Tinode Require Import Sys.Lifecycle Sys.LifecycleProofs Sys.LifecycleAttach Sys.LifecycleTerm
  Sys.LifecycleProgress Sys.LifecycleReply Sys.TopicStatusC14d Sys.LifecycleFailDelC14d
  Sys.RegistryC14f Sys.RegistryC14fProofs.
From Coq Require Import ZArith.
Import ListNotations.

(* ================================================================ 1. in-flight balance *)

(* Session.inflightReqs counts exactly the session's subscribe/leave requests that sit in hub.join, in a
   topicInit goroutine, in Topic.reg or in Topic.unreg: every Add is matched by exactly one Done. *)
Definition c14_inflight_balance_statement : Prop :=
  forall st ow us c, reach st ow us c -> balanced c.

(* REFUTED: idle topic; the owner's {del topic}, the idle timer and a {sub} cross: the stale unload message
   (addressed by NAME) marks the NEW instance deleted, its load fails, and the failure path sends on the nil
   `done` channel of the hub's termination request (init_topic.go:95-98): the deferred Done never runs.
   Replayed on the real code: corpus/C14/01, law topicinit-parked-on-nil-done. *)
Theorem c14_inflight_balance_refuted : ~ c14_inflight_balance_statement.
Proof.
  intros H. destruct stale_unload_unbalanced as (c & Hrun & Hi & Hp).
  specialize (H ex_stored ex_owner ex_user c (run_reach _ _ _ _ _ _ (reach_init _ _ _ _) Hrun) 1). lia.
Qed.
Print Assumptions c14_inflight_balance_refuted.

(* PARTIAL: on every execution in which that one step (load failure of an instance for which the hub has
   already queued a termination request) does not occur, the balance holds - any interleaving, any sizes. *)
Theorem c14_inflight_balance_partial : forall st ow us c, reach_safe st ow us c -> balanced c.
Proof. intros st ow us c H. exact (proj2 (inv_bal_safe st ow us c H)). Qed.
Print Assumptions c14_inflight_balance_partial.

(* FULL (every execution): the counter is never too LOW - no Done without its Add (a second Done would panic
   in boundedWaitGroup.Done) - so the only way the balance fails is a forgotten Done. *)
Theorem c14_inflight_never_low : forall st ow us c s, reach st ow us c -> pending s c <= s_inflight (c_sess c s).
Proof. intros st ow us c s H. exact (bal_le_reach st ow us c H s). Qed.
Print Assumptions c14_inflight_never_low.

(* ================================================================ 2. every request answered exactly once *)

(* `reachI c iss`: c is reachable and iss is the list of the {sub}/{leave}/{del} requests issued on the way.
   `acct q c` = replies carrying q's id in the outbox of q's session + copies of q still in a queue. *)

(* the clause: never answered twice, never answered and still queued *)
Definition c14_reply_at_most_once_statement : Prop :=
  forall st ow us c iss, reachI st ow us c iss -> forall q, In q iss -> acct q c <= 1.

(* REFUTED: a session attached to a group topic WITHOUT channel functionality sends {leave topic=chnXXX}:
   verifyChannelAccess fails, handleLeaveRequest queues {ctrl 404} and does not return (topic.go:697-702); the
   request is then processed as usual: a second answer (200, session detached).  Replayed on the real code:
   corpus/C14/12, law leave-chn-name-on-plain-group-answered-twice. *)
Theorem c14_reply_at_most_once_refuted : ~ c14_reply_at_most_once_statement.
Proof.
  intros H. destruct chn_leave_twice as (c & iss & q & Hrun & Hin & Ha & _).
  specialize (H _ _ _ c iss (runI_reachI _ _ _ _ _ _ _ _ (ri_init _ _ _ _) Hrun) q Hin). lia.
Qed.
Print Assumptions c14_reply_at_most_once_refuted.

(* PARTIAL: on every execution in which that one step (`noisy`: the topic takes a client's {leave} whose name is
   a channel name although the topic has no channel functionality) does not occur. *)
Theorem c14_reply_at_most_once_partial : forall st ow us c iss,
  reachI_nd st ow us c iss -> forall q, In q iss -> acct q c <= 1.
Proof. exact at_most_once. Qed.
Print Assumptions c14_reply_at_most_once_partial.

(* FULL (every execution): one step raises the account of an issued request by at most one, and only that step,
   only for the request it consumes. *)
Theorem c14_reply_at_most_one_more : forall st ow us c iss l c' q,
  reachI st ow us c iss -> In q iss -> step c l c' ->
  acct q c' <= acct q c + extra c l q /\ extra c l q <= 1 /\ (noisy c l = false -> extra c l q = 0).
Proof.
  intros st ow us c iss l c' q H Hq Hs. destruct (at_most_one_more _ _ _ _ _ _ _ _ H Hq Hs) as [A B].
  repeat split; auto. intros Hn. apply extra_quiet. exact Hn.
Qed.
Print Assumptions c14_reply_at_most_one_more.

(* the clause: as long as its session is not closing, an issued request has exactly one answer or is still on its
   way; a {leave} may instead have been overtaken by the eviction notice of that topic *)
Definition c14_reply_exactly_one_statement : Prop :=
  forall st ow us c iss q, reachI st ow us c iss -> In q iss -> s_term (c_sess c (r_sid q)) = false -> good q c.

(* REFUTED: {leave unsub} then {leave} on one connection; the session's own unsubscribe sends it no eviction
   notice, Session.subs keeps the entry until the write loop applies the detach, handleLeaveRequest says nothing
   for a session it does not list.  Replayed on the real code: corpus/C14/03 (97% of runs). *)
Theorem c14_reply_exactly_one_refuted : ~ c14_reply_exactly_one_statement.
Proof.
  intros H. destruct leave_after_unsub_lost as (c & iss & q & Hrun & Hin & _ & Ht & Ha & Hn & _).
  destruct (H _ _ _ c iss q (runI_reachI _ _ _ _ _ _ _ _ (ri_init _ _ _ _) Hrun) Hin Ht) as [X|(_ & _ & X)]; [lia|congruence].
Qed.
Print Assumptions c14_reply_exactly_one_refuted.

(* PARTIAL: on every execution that avoids the three silent steps named in `lossy` (topicInit returning on
   isDeleted; the owner's {del} forwarded to a loading topic; a {leave}/{del} reaching a topic that no longer
   lists the session WITHOUT an eviction notice having been sent) and the step named in `noisy` (above) the
   clause holds. *)
Theorem c14_reply_exactly_one_partial : forall st ow us c iss q,
  reachI_ok st ow us c iss -> In q iss -> s_term (c_sess c (r_sid q)) = false -> good q c.
Proof. intros st ow us c iss q H. exact (good_reach_ok st ow us c iss H q). Qed.
Print Assumptions c14_reply_exactly_one_partial.

(* ... hence at quiescence (all queues empty) the reply has arrived, once *)
Theorem c14_reply_at_quiescence_partial : forall st ow us c iss q,
  reachI_ok st ow us c iss -> quiescent c -> In q iss -> s_term (c_sess c (r_sid q)) = false ->
  ans (r_rid q) (c_sess c (r_sid q)) = 1 \/
  (ans (r_rid q) (c_sess c (r_sid q)) = 0 /\ is_leave q = true /\ noticed q c = true).
Proof. intros st ow us c iss q H Hq. exact (answered_at_quiescence st ow us c iss H Hq q). Qed.
Print Assumptions c14_reply_at_quiescence_partial.

(* the single-step form used above: one step never changes the account of an issued request except at a step
   named in `lossy` or `noisy` or by dropping the reply to a closing session (Session.queueOut) *)
Theorem c14_reply_conserved_stepwise : forall st ow us c iss l c' q,
  reachI st ow us c iss -> In q iss -> step c l c' -> conserves c l c' q.
Proof.
  intros st ow us c iss l c' q H Hin Hs.
  pose proof (inv_rep_reach _ _ _ _ _ H) as I.
  apply conserves_step; auto.
  - eapply init_true_reach. eapply reachI_reach; eauto.
  - exact (ir_dels _ _ I).
  - eapply uniq_of_inv; eauto.
  - left. destruct (ir_iss _ _ I q Hin). lia.
Qed.
Print Assumptions c14_reply_conserved_stepwise.

(* ================================================================ 3. quiescent symmetry *)

(* FULL: at quiescence a live session lists a topic (through instance i) iff instance i of that topic is running
   and lists the session. *)
Theorem c14_quiescent_symmetry : forall st ow us c, reach st ow us c -> quiescent c ->
  forall s t i, s_term (c_sess c s) = false ->
    (lookup t (s_subs (c_sess c s)) = Some i <->
     i_phase (c_inst c i) = PRun /\ i_name (c_inst c i) = t /\ mem s (i_sessions (c_inst c i)) = true).
Proof. exact quiescent_symmetry. Qed.
Print Assumptions c14_quiescent_symmetry.

(* FULL, without quiescence: the only thing that can be in flight between the two views is a detach notice ... *)
Theorem c14_symmetry_modulo_detach : forall st ow us c, reach st ow us c ->
  forall s t i, s_term (c_sess c s) = false -> lookup t (s_subs (c_sess c s)) = Some i ->
    (i_phase (c_inst c i) = PRun /\ i_name (c_inst c i) = t /\ mem s (i_sessions (c_inst c i)) = true) \/
    In t (s_detachq (c_sess c s)).
Proof. exact symmetry_modulo_detach. Qed.
Print Assumptions c14_symmetry_modulo_detach.

(* ... and a topic never lists a session that does not list it (registerSession / handleLeaveRequest /
   evictUser update both sides, or the topic side first). *)
Theorem c14_attached_listed : forall st ow us c, reach st ow us c ->
  forall s i, i_phase (c_inst c i) <> PDead -> mem s (i_sessions (c_inst c i)) = true ->
    lookup (i_name (c_inst c i)) (s_subs (c_sess c s)) = Some i.
Proof. exact attached_listed. Qed.
Print Assumptions c14_attached_listed.

(* FULL, the handler itself: when handleLeaveRequest returns from a {leave} without unsub - or from a session
   dropped by the server: disconnect (unsubAll), slow consumer - the topic does not list the session AND the
   session does not list the topic.  This includes the path on which the name form of the request (grpXXX /
   chnXXX) differs from the form the session attached under (answered 404: `remSession` and `delSub` come BEFORE
   the check `pssd.isChanSub != asChan`, topic.go:721-731) and the path on which a topic without channel
   functionality was addressed as a channel. *)
Theorem c14_leave_detaches_both_sides : forall c i c' r rest,
  step c (TopicUnreg i) c' -> take_first i (c_tunreg c) = Some (r, rest) ->
  inactive (c_inst c i) = false -> (r_init r = false \/ r_kind r <> KLeave true) ->
  mem (r_sid r) (i_sessions (c_inst c' i)) = false /\
  (mem (r_sid r) (i_sessions (c_inst c i)) = true ->
   lookup (i_name (c_inst c i)) (s_subs (c_sess c' (r_sid r))) = None /\ mem (r_sid r) (i_chansub (c_inst c' i)) = false).
Proof. exact leave_detaches_both_sides. Qed.
Print Assumptions c14_leave_detaches_both_sides.

(* ... and the slow-consumer eviction (Topic.broadcastToSessions -> unregisterSession{init:false}) likewise *)
Theorem c14_evict_detaches_both_sides : forall c i s c',
  step c (Evict i s) c' -> inactive (c_inst c i) = false ->
  mem s (i_sessions (c_inst c' i)) = false /\ lookup (i_name (c_inst c i)) (s_subs (c_sess c' s)) = None.
Proof.
  intros c i s c' Hs Hin. unfold step in Hs. simpl in Hs. rewrite Hin in Hs.
  destruct (negb (is_run (i_phase (c_inst c i))) || negb (mem s (i_sessions (c_inst c i)))); [discriminate|].
  inversion Hs; subst; clear Hs. simpl. unfold on_sess, on_inst, upd. simpl. rewrite !Nat.eqb_refl. simpl.
  split; [apply mem_remove_nat_same|apply lookup_remove_key_same].
Qed.
Print Assumptions c14_evict_detaches_both_sides.

(* ================================================================ 4. a terminated session is detached everywhere *)

(* FULL: once cleanUp has completed, at quiescence no running topic lists the session ... *)
Theorem c14_terminated_detached : forall st ow us c, reach st ow us c -> quiescent c ->
  forall s i, s_done (c_sess c s) = true -> i_phase (c_inst c i) = PRun -> mem s (i_sessions (c_inst c i)) = false.
Proof. exact terminated_detached. Qed.
Print Assumptions c14_terminated_detached.

(* ... so the number of attached sessions of each user (what perUser.online counts in the Go code) is what the
   sessions that are still open give. *)
Theorem c14_online_restored : forall st ow us c, reach st ow us c -> quiescent c ->
  forall i u, i_phase (c_inst c i) = PRun ->
    online c i u = length (filter (fun s => Nat.eqb (c_user c s) u && negb (s_done (c_sess c s))) (i_sessions (c_inst c i))).
Proof. exact online_terminated. Qed.
Print Assumptions c14_online_restored.

(* ================================================================ 5. a deleted topic refuses *)

(* FULL: the row never comes back; *)
Theorem c14_deleted_stays_deleted : forall c l c' t, step c l c' -> c_store c t = false -> c_store c' t = false.
Proof. exact store_false_step. Qed.
Print Assumptions c14_deleted_stays_deleted.

(* FULL: the hub answers every later {sub} for the name with "locked" or starts a load; *)
Theorem c14_deleted_refuses : forall st ow us c r rest c',
  reach st ow us c -> c_hjoin c = r :: rest -> c_store c (r_topic r) = false -> step c HubJoin c' ->
  (c' = on_sess (set_hjoin c rest) (r_sid r) (fun x => s_reply (s_donereq x) (rep r CLocked))) \/
  (c_table c (r_topic r) = None /\ c_inits c' = c_inits c ++ [(c_next c, r)] /\
   i_phase (c_inst c' (c_next c)) = PInit /\ i_name (c_inst c' (c_next c)) = r_topic r /\ c_treg c' = c_treg c).
Proof. exact deleted_hub_refuses. Qed.
Print Assumptions c14_deleted_refuses.

(* FULL: that load cannot succeed (it fails: "not found"); *)
Theorem c14_deleted_load_fails : forall c i c',
  c_store c (i_name (c_inst c i)) = false -> step c (InitDone i true) c' -> False.
Proof. exact deleted_load_fails. Qed.
Print Assumptions c14_deleted_load_fails.

(* FULL: and no instance the hub still points to ever runs without its row, so nothing gets attached to it. *)
Theorem c14_deleted_not_running : forall st ow us c t i,
  reach st ow us c -> c_table c t = Some i -> i_phase (c_inst c i) = PRun -> c_store c t = true.
Proof. intros st ow us c t i H. exact (it_row c (inv_tbl_reach st ow us c H) t i). Qed.
Print Assumptions c14_deleted_not_running.

(* (all its sessions told: when the run loop of a deleted topic takes the termination request every attached
   session gets its detach notice, and by 3. no live session lists the dead instance at quiescence) *)
Theorem c14_deleted_sessions_detached : forall st ow us c, reach st ow us c -> quiescent c ->
  forall s t i, s_term (c_sess c s) = false -> lookup t (s_subs (c_sess c s)) = Some i -> i_phase (c_inst c i) = PRun.
Proof.
  intros st ow us c Hr Hq s t i Ht Hl.
  exact (proj1 (proj1 (quiescent_symmetry st ow us c Hr Hq s t i Ht) Hl)).
Qed.
Print Assumptions c14_deleted_sessions_detached.

(* ================================================================ 6. nothing blocks for ever *)

(* `stuck c`: no step of the server itself (hub, topicInit, topic run loop, write loop applying a detach,
   cleanUp after its Wait) is enabled.  `settled c`: all queues empty, no session holds its in-flight
   semaphore, every closing session has completed cleanUp. *)
Definition c14_no_stuck_statement : Prop :=
  forall st ow us c, reach st ow us c -> stuck c -> settled c.

(* REFUTED twice.  (a) the owner deletes the topic; its run loop returns; the session, which still lists the
   topic until its write loop applies the detach, sends {leave} into the unreg channel of the gone loop: the
   request stays queued, the semaphore stays taken (corpus/C14/02, law leave-lost-in-exited-topic). *)
Theorem c14_no_stuck_refuted_lost_leave : ~ c14_no_stuck_statement.
Proof.
  intros H. destruct lost_leave_refutes as (c & Hrun & Hst & Hq & _).
  destruct (H _ _ _ c (run_reach _ _ _ _ _ _ (reach_init _ _ _ _) Hrun) Hst) as ((_ & _ & _ & _ & Hu & _) & _).
  contradiction.
Qed.
Print Assumptions c14_no_stuck_refuted_lost_leave.

(* (b) the stale-unload schedule of 1.: everything is quiet, yet session 1 holds its semaphore for ever: its next
   subscribe/leave blocks in Add, its cleanUp in Wait (corpus/C14/01). *)
Theorem c14_no_stuck_refuted_nil_done : ~ c14_no_stuck_statement.
Proof.
  intros H. destruct stale_unload_refutes as (c & Hrun & Hst & _ & Hi & _).
  destruct (H _ _ _ c (run_reach _ _ _ _ _ _ (reach_init _ _ _ _) Hrun) Hst) as (_ & H0 & _).
  specialize (H0 1). lia.
Qed.
Print Assumptions c14_no_stuck_refuted_nil_done.

(* PARTIAL: without the nil-done step, and as long as no request sits in a queue of an instance whose goroutine
   is gone (`no_dead_items`: exactly what (a) violates), the system can always move until it is settled. *)
Theorem c14_no_stuck_partial : forall st ow us c,
  reach_safe st ow us c -> no_dead_items c -> stuck c -> settled c.
Proof. exact no_stuck_safe. Qed.
Print Assumptions c14_no_stuck_partial.

(* ================================================================ 7. a {del what=topic} whose store call FAILS

   Hub.topicUnreg when store.Topics.Delete returns an error (hub.go:404-422 case 1.1.1, 526-532 case 1.2.1.1): the
   step [HubUnregFail] of Lifecycle.exec.  It is a step of `reach`, so EVERY theorem above (symmetry at quiescence,
   terminated sessions detached, replies, in-flight balance, deleted topics) holds on the executions in which any
   number of deletes fail.  Below: what the failed delete itself leaves behind. *)

(* the status word (Sys/TopicStatusC14d.v: markPaused(true); Delete fails; markPaused(false)): a failed delete gives
   back the word it found - for every value of the word of a topic that is not paused *)
Theorem c14_failed_delete_restores_status : forall st : N,
  is_paused st = false -> unreg_del_status true st = st.
Proof. exact failed_delete_restores_status. Qed.
Print Assumptions c14_failed_delete_restores_status.

(* for EVERY word: `paused` ends clear, `marked deleted` (irrecoverable) is not touched *)
Theorem c14_failed_delete_flags : forall st : N,
  status_flags (unreg_del_status true st) = (false, is_deleted st).
Proof. exact failed_delete_flags. Qed.
Print Assumptions c14_failed_delete_flags.

Theorem c14_failed_delete_keeps_active : forall st : N,
  is_inactive st = false -> is_inactive (unreg_del_status true st) = false.
Proof. exact failed_delete_keeps_active. Qed.
Print Assumptions c14_failed_delete_keeps_active.

(* whereas the successful path leaves the topic inactive for good *)
Theorem c14_successful_delete_inactive : forall st : N, is_inactive (unreg_del_status false st) = true.
Proof. exact successful_delete_inactive. Qed.
Print Assumptions c14_successful_delete_inactive.

(* the instance the request addresses: its status word after the step is what the code's status operations leave,
   i.e. the word before; Lifecycle's [inactive] is isInactive of that word *)
Theorem c14_failed_delete_status_of_instance : forall c c' r rest i,
  step c HubUnregFail c' -> c_hunreg c = HDel r :: rest -> c_table c (r_topic r) = Some i ->
  abs_status (c_inst c' i) = unreg_del_status true (abs_status (c_inst c i)) /\
  inactive (c_inst c' i) = inactive (c_inst c i) /\
  inactive (c_inst c' i) = is_inactive (abs_status (c_inst c' i)).
Proof.
  intros c c' r rest i Hs E Et. destruct (hubunregfail_status c c' Hs r rest i E Et) as [A B].
  repeat split; auto. apply inactive_abs_status.
Qed.
Print Assumptions c14_failed_delete_status_of_instance.

(* topic-usable-after-failed-delete: the hub's table, every instance (sessions, phase, flags), the store rows and every
   queue but Hub.unreg are as before; sessions differ in their outbox only *)
Theorem c14_failed_delete_topic_as_before : forall c c', step c HubUnregFail c' -> same_serving c c'.
Proof. exact hubunregfail_same_serving. Qed.
Print Assumptions c14_failed_delete_topic_as_before.

(* the request is answered (500) unless the owner's session is closing *)
Theorem c14_failed_delete_answered : forall c c', step c HubUnregFail c' ->
  exists r rest, c_hunreg c = HDel r :: rest /\
    (s_term (c_sess c (r_sid r)) = false -> s_out (c_sess c' (r_sid r)) = s_out (c_sess c (r_sid r)) ++ [rep r CInternal]).
Proof. exact hubunregfail_answered. Qed.
Print Assumptions c14_failed_delete_answered.

(* whatever a member could ask for before the failed delete ({sub}, {leave}, closing the connection, applying a detach
   notice) he can ask for after it *)
Theorem c14_failed_delete_members_served : forall c c' l,
  step c HubUnregFail c' ->
  match l with ClientSub _ _ _ | ClientLeave _ _ _ _ | DiscBegin _ | DiscEnd _ | SessDetach _ => True | _ => False end ->
  exec l c <> None -> exec l c' <> None.
Proof. intros c c' l Hs. apply client_enabled_after_failed_delete. exact (hubunregfail_same_serving c c' Hs). Qed.
Print Assumptions c14_failed_delete_members_served.

(* ================================================================ the hypotheses are satisfiable *)

(* a schedule without any excluded step that ends quiescent with session 1 attached to topic 1 on both sides *)
Example c14_example_attached : exists c iss,
  runI [ClientSub 1 1 false; HubJoin; InitDone 0 true; TopicReg 0 true] (init_config ex_stored ex_owner ex_user ex_chan) [] = Some (c, iss) /\
  lookup 1 (s_subs (c_sess c 1)) = Some 0 /\ mem 1 (i_sessions (c_inst c 0)) = true /\
  ans 1 (c_sess c 1) = 1 /\ c_hjoin c = [] /\ c_treg c = [].
Proof. eexists. eexists. split; [vm_compute; reflexivity|]. repeat split. Qed.

Example c14_example_lossy_is_decidable :
  lossy (init_config ex_stored ex_owner ex_user ex_chan) HubJoin = false.
Proof. reflexivity. Qed.

(* a channel subscription (attached as chnXXX) left by the group name: answered 404 once, detached on both sides *)
Example c14_example_channel_left_by_group_name : exists c,
  run chan_leave_by_group_name_trace (init_config ex_stored ex_owner ex_user ex_chan1) = Some c /\
  s_out (c_sess c 1) = [mkRep (Some 1) COk 1; mkRep (Some 2) CNotFound 1] /\
  lookup 1 (s_subs (c_sess c 1)) = None /\ i_sessions (c_inst c 0) = [] /\ i_chansub (c_inst c 0) = [].
Proof. exact chan_leave_by_group_name. Qed.

(* the step excluded by reachI_nd is decidable and not taken by ordinary requests *)
Example c14_example_noisy_is_decidable :
  noisy (init_config ex_stored ex_owner ex_user ex_chan) (TopicUnreg 0) = false.
Proof. reflexivity. Qed.

(* a failed delete, then the member leaves, closes its connection, and the owner deletes for good: the member's
   {leave} is answered 200, both sides are detached, the owner got 500 then 200 *)
Example c14_example_failed_delete_then_leave : exists c,
  run [ClientSub 1 1 false; HubJoin; InitDone 0 true; TopicReg 0 true; ClientDel 2 1; HubUnregFail;
       ClientLeave 1 1 false false; TopicUnreg 0; ClientDel 2 1; HubUnreg true; TopicExit 0]
      (init_config ex_stored ex_owner ex_user ex_chan) = Some c /\
  s_out (c_sess c 1) = [mkRep (Some 1) COk 1; mkRep (Some 3) COk 1] /\
  s_out (c_sess c 2) = [mkRep (Some 2) CInternal 1; mkRep (Some 4) COk 1] /\
  lookup 1 (s_subs (c_sess c 1)) = None /\ i_sessions (c_inst c 0) = [] /\ c_store c 1 = false.
Proof. eexists. split; [vm_compute; reflexivity|]. repeat split. Qed.


(* ================================================================ round s14f: session registry, online counters *)

(* Model Sys/RegistryC14f.v part A = SessionStore (sessionstore.go): NewSession with the loop that expires stale
   long-polling sessions, Get (MoveToFront + lastTouched), Delete as called by the closing connection's
   cleanUp(false), EvictUser; the clock is the `now` argument of the calls and RAge (a session not heard of
   for d more seconds).  After EVERY history of these calls, with any arguments, for any life time:
   the registry holds exactly the sessions that were created and have not been terminated (expired by
   NewSession, evicted, or closed), each once; the LRU list exactly the long-polling ones among them, each once.
   (SessionStore.Shutdown does not touch the registry - "no need to clean up" - and is not a step.) *)
Theorem c14_registry_exact : forall life h, reg_exact_c14f (rrun_c14f (init_c14f life) h).
Proof. exact registry_exact_c14f. Qed.
Print Assumptions c14_registry_exact.

(* every session NewSession expires is out of the registry, out of the LRU list and terminated; the session it
   returns is registered (unless the caller's own clock reading makes it stale at birth) *)
Theorem c14_registry_new_session : forall life h lp uid now st' sid expired,
  new_session_c14f (rrun_c14f (init_c14f life) h) lp uid now = (st', (sid, expired)) ->
  (forall x, In x expired -> ~ In x (r_cache st') /\ ~ In x (r_lru st') /\ In x (r_term st')) /\
  (~ In sid expired -> In sid (r_cache st')).
Proof. exact new_session_registered_c14f. Qed.
Print Assumptions c14_registry_new_session.

(* a stale long-polling session is expired by the next connect of ANY kind; the new websocket session stays *)
Example c14_example_registry_expiry :
  let st := rrun_c14f (init_c14f 70) [RNew true 1 0%Z; RNew false 2 10%Z; RAge 0 100%Z; RNew false 1 20%Z] in
  r_cache st = [2; 1]%N /\ r_lru st = [] /\ r_term st = [0]%N.
Proof. vm_compute. repeat split. Qed.

(* Model part B = the online counters of one loaded topic: attach (addSession + perUser[asUid].online++) and
   handleLeaveRequest for an ordinary session (explicit {leave}, unsubAll of a closing connection, slow-consumer
   eviction): the attachment record carries the user the session is attached AS (a root session acting on behalf
   of somebody: that user, not Session.uid).  After every history, for every user: online = number of sessions
   attached as that user; hence all zero once every session is gone; a perUser entry exists only for a user with
   a subscription row at load time or a user somebody attached as. *)
Theorem c14_online_count_exact : forall members h u,
  oget (o_per (orun_c14f (oinit_c14f members) h)) u = ocount (o_sess (orun_c14f (oinit_c14f members) h)) u.
Proof. exact online_counts_c14f. Qed.
Print Assumptions c14_online_count_exact.

Theorem c14_online_count_restored : forall members h,
  o_sess (orun_c14f (oinit_c14f members) h) = [] ->
  forall u, oget (o_per (orun_c14f (oinit_c14f members) h)) u = 0%Z.
Proof. exact online_restored_c14f. Qed.
Print Assumptions c14_online_count_restored.

Theorem c14_online_no_phantom_entry : forall t o k,
  oinv_c14f t -> In k (map fst (o_per (ostep_c14f t o))) ->
  In k (map fst (o_per t)) \/ (exists s, o = OAttach s k) \/ In k (map snd (o_sess t)).
Proof. intros t o k _. exact (okeys_step t o k). Qed.
Print Assumptions c14_online_no_phantom_entry.

(* root session 9 (uid 7) attaches on behalf of user 1 and is dropped: user 1 is back to 0, no entry for 7 *)
Example c14_example_obo_leave :
  o_per (orun_c14f (oinit_c14f [1; 2]%N) [OAttach 9 1; OAttach 3 1; OLeave 9 7]) = [(1%N, 1%Z); (2%N, 0%Z)].
Proof. reflexivity. Qed.
