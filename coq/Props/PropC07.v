(* C07  Permissions change only through authorised requests; bans and limits stick.
   Theorems only.  Part A is about the group-topic product model Sys/Topic.v (store rows +
   cache + handlers thisUserSub / anotherUserSub / replyDelSub / replyLeaveUnsub /
   replyOfflineTopicSetSub, every fault plan); the vocabulary (projections, "authorised
   request" = given_just / want_just, invariants) is in Sys/TopicAcl.v.  Part B is about the
   other topic kinds (Sys/TopicKinds.v): p2p, me, fnd, sys. *)
From Coq Require Import ZArith NArith List Bool.
From Tinode Require Import Base.Util Pure.Acs Pure.Uid Pure.P2PName Pure.P2PProofs Sys.Topic Sys.TopicAcl Sys.TopicAclProofs
  Sys.TopicAclInv Sys.TopicAclJoin Sys.TopicAclOwn Sys.TopicAclThm Sys.TopicAclWitness Sys.TopicKinds Sys.TopicKindsProofs.
Import ListNotations.
Open Scope Z_scope.

(* ================================================================== *)
(* Part A: group topics                                                *)
Section C07.
Variable dr : Z -> list (Z * Z) -> option (list (Z * Z)).
Variable nr : list (Z * Z) -> list (Z * Z).
Variable sm : sessmap.

(* One request, ANY state in which the owner field names a cached holder of O and attached
   sessions belong to cached subscribers, ANY fault: the stored and the cached want / given
   of every user change only as given_just / want_just allow:
   given: (1) by a cached subscriber with A or O effective acting on ANOTHER user (the O bit
   only by the owner), (2) a sharer's invitation of a user without subscription = default
   grant | J, (3) the user's own first / renewed subscription = topic default or the grant of
   the previous (soft-deleted) row, (4) an administrator raising the own grant by
   mode &~ D with mode lacking O, (5) the holder of O in the grant (owner / accepting
   transferee) raising the own grant, (6) the O-strip of Topic.owner at an accepted transfer;
   want: (1) the user's own request, (2) the default chosen at an invitation (account
   default & grant, or the want of the previous row), (3) the O-strip at a transfer. *)
Theorem c07_request_writers : forall f x o,
  logged_in sm o -> owner_sane (view x) -> sess_members (view x) ->
  step_laws sm x o (fst (step dr nr sm f x o)).
Proof. exact (step_writer_laws dr nr sm). Qed.

(* Histories: from every well-formed state, every history of logged-in requests and every
   fault plan that does not contain a FAILING (crashes are allowed) topics.owner write inside
   an accepted ownership transfer: the law holds at every step. *)
Theorem c07_given_writers : forall x h,
  inv_all x -> hist_ok dr nr sm x h -> all_steps dr nr sm (given_law sm) x h.
Proof. exact (given_writers_run dr nr sm). Qed.

Theorem c07_want_writers : forall x h,
  inv_all x -> hist_ok dr nr sm x h -> all_steps dr nr sm (want_law sm) x h.
Proof. exact (want_writers_run dr nr sm). Qed.

(* well-formedness is kept along these histories (so the hypotheses of c07_request_writers
   hold in every reachable state) *)
Theorem c07_wf_reachable : forall x h, inv_all x -> hist_ok dr nr sm x h -> inv_all (fst (run dr nr sm x h)).
Proof. intros x h. exact (run_inv_all dr nr sm h x). Qed.

(* clause (4) keeps the administrator's grant and adds nothing in O|D *)
Theorem c07_admin_raise_within : forall g mw, is_owner mw = false ->
  N.land g (N.lor g (N.ldiff mw mD)) = g /\ N.land (N.ldiff (N.lor g (N.ldiff mw mD)) g) (N.lor mO mD) = 0%N.
Proof. exact raise_within. Qed.

(* Attached sessions: in every state reached under ANY fault plan without the request
   pattern of finding banned-user-attached, every attached session belongs to a cached
   subscriber whose grant has J. *)
Theorem c07_no_join_no_attach : forall x h,
  inv_sm x -> inv_aj x -> no_stale dr nr sm x h -> inv_aj (fst (run dr nr sm x h)).
Proof. exact (no_join_no_attach_run dr nr sm). Qed.

(* Re-subscribing (own {sub} or own {set sub}) after unsubscribing: the grant of the
   soft-deleted row is kept in the store and is the grant of the new cache entry - never the
   topic default; any fault. *)
Theorem c07_resubscribe_restores_grant : forall f x o r,
  inv_all x -> own_request (actor sm o) o -> actor sm o <> 0%N ->
  find_sub (actor sm o) (subs (st x)) = Some r -> s_deleted r = true -> (s_given r =? ModeUnset)%N = false ->
  let x' := fst (step_f dr nr sm x (f, o)) in
  sgiven (st x') (actor sm o) = Some (s_given r) /\
  (forall c', ca x' = Some c' -> forall g, cgiven c' (actor sm o) = Some g -> g = s_given r).
Proof. exact (resubscribe_restores dr nr sm). Qed.

(* The subscriber limit: live subscription rows never exceed maxSubscriberCount (max_subs, the
   value the driver configures), in every state reached by ANY requests under ANY fault plan. *)
Theorem c07_sub_limit : forall x h, inv_lim x ->
  Z.of_nat (live_count (st (fst (run dr nr sm x h)))) <= max_subs.
Proof. intros x h. exact (sub_limit dr nr sm h x). Qed.
End C07.

(* The full statements are REFUTED by the faithful model; both witnesses are replayed on the
   real code (findings/C07.md). *)
Definition c07_no_join_no_attach_statement : Prop :=
  forall sm x h, inv_all x -> inv_aj x -> inv_aj (fst (run dr0 nr0 sm x h)).
Theorem c07_no_join_no_attach_refuted : ~ c07_no_join_no_attach_statement.
Proof. intros H. exact (w1_attached (H w1_sm w1_x w1_h (proj1 w1_inv) (proj2 w1_inv))). Qed.

Definition c07_given_writers_statement : Prop :=
  forall sm x h, inv_all x -> hist_logged_in dr0 nr0 sm x h -> all_steps dr0 nr0 sm (given_law sm) x h.
Theorem c07_given_writers_refuted : ~ c07_given_writers_statement.
Proof. intros H. exact (w2_rewrites_all (H w2_sm w2_x _ w2_inv w2_logged)). Qed.

Print Assumptions c07_request_writers.
Print Assumptions c07_given_writers.
Print Assumptions c07_want_writers.
Print Assumptions c07_wf_reachable.
Print Assumptions c07_admin_raise_within.
Print Assumptions c07_no_join_no_attach.
Print Assumptions c07_resubscribe_restores_grant.
Print Assumptions c07_sub_limit.
Print Assumptions c07_no_join_no_attach_refuted.
Print Assumptions c07_given_writers_refuted.

Example c07_ex_wf_satisfiable : inv_all w2_x /\ inv_aj w2_x.
Proof. split; [exact w2_inv|exact I]. Qed.
