(* C07  Permissions change only through authorised requests; bans and limits stick.
   Theorems only.  Part A is about the group-topic product model Sys/Topic.v (store rows +
   cache + handlers thisUserSub / anotherUserSub / replyDelSub / replyLeaveUnsub /
   replyOfflineTopicSetSub, every fault plan); the vocabulary (projections, "authorised
   request" = given_just / want_just, invariants) is in Sys/TopicAclC07.v.  Part B is about the
   other topic kinds (Sys/TopicKindsC07.v): p2p, me, fnd, sys. *)
From Coq Require Import ZArith NArith List Bool.
From Tinode Require Import Base.Util Pure.Acs Pure.Uid Pure.P2PName Pure.P2PProofs Sys.Topic Sys.TopicTac Sys.TopicMarks Sys.TopicAclC07 Sys.TopicAclC07Proofs
  Sys.TopicAclC07Inv Sys.TopicAclC07Join Sys.TopicAclC07Own Sys.TopicAclC07Thm Sys.TopicAclC07Witness Sys.TopicAclC07BanF Sys.TopicAclC07LoseJF Sys.TopicKindsC07 Sys.TopicKindsC07Proofs.
Import ListNotations.
Open Scope Z_scope.

(* ================================================================== *)
(* Part A: group topics                                                *)
Section C07.
Variable dr : Z -> list (Z * Z) -> option (list (Z * Z)).
Variable nr : list (Z * Z) -> list (Z * Z).
Variable sm : sessmap.

(* One request, ANY state in which the owner field names a cached holder of O and attached
   sessions belong to cached subscribers, ANY fault: the stored and the cached want / given
   of every user change only as given_just / want_just allow:
   given: (1) by a cached subscriber with A or O effective acting on ANOTHER user (the O bit
   only by the owner), (2) a sharer's invitation of a user without subscription = default
   grant | J, (3) the user's own first / renewed subscription = topic default or the grant of
   the previous (soft-deleted) row, (4) an administrator raising the own grant by
   mode &~ D with mode lacking O, (5) the holder of O in the grant (owner / accepting
   transferee) raising the own grant, (6) the O-strip of Topic.owner at an accepted transfer;
   want: (1) the user's own request, (2) the default chosen at an invitation (account
   default & grant, or the want of the previous row), (3) the O-strip at a transfer. *)
Theorem c07_request_writers : forall f x o,
  logged_in sm o -> owner_sane (view x) -> sess_members (view x) ->
  step_laws sm x o (fst (step dr nr sm f x o)).
Proof. exact (step_writer_laws dr nr sm). Qed.

(* Histories: from every well-formed state, every history of logged-in requests and every
   fault plan that does not contain a FAILING (crashes are allowed) topics.owner write inside
   an accepted ownership transfer: the law holds at every step. *)
Theorem c07_given_writers : forall x h,
  inv_all x -> hist_ok dr nr sm x h -> all_steps dr nr sm (given_law sm) x h.
Proof. exact (given_writers_run dr nr sm). Qed.

Theorem c07_want_writers : forall x h,
  inv_all x -> hist_ok dr nr sm x h -> all_steps dr nr sm (want_law sm) x h.
Proof. exact (want_writers_run dr nr sm). Qed.

(* well-formedness is kept along these histories (so the hypotheses of c07_request_writers
   hold in every reachable state) *)
Theorem c07_wf_reachable : forall x h, inv_all x -> hist_ok dr nr sm x h -> inv_all (fst (run dr nr sm x h)).
Proof. intros x h. exact (run_inv_all dr nr sm h x). Qed.

(* clause (4) keeps the administrator's grant and adds nothing in O|D *)
Theorem c07_admin_raise_within : forall g mw, is_owner mw = false ->
  N.land g (N.lor g (N.ldiff mw mD)) = g /\ N.land (N.ldiff (N.lor g (N.ldiff mw mD)) g) (N.lor mO mD) = 0%N.
Proof. exact raise_within. Qed.

(* Attached sessions: in every state reached under ANY fault plan without the request
   pattern of finding banned-user-attached, every attached session belongs to a cached
   subscriber whose grant has J. *)
Theorem c07_no_join_no_attach : forall x h,
  inv_sm x -> inv_aj x -> no_stale dr nr sm x h -> inv_aj (fst (run dr nr sm x h)).
Proof. exact (no_join_no_attach_run dr nr sm). Qed.

(* Re-subscribing (own {sub} or own {set sub}) after unsubscribing: the grant of the
   soft-deleted row is kept in the store and is the grant of the new cache entry - never the
   topic default; any fault. *)
Theorem c07_resubscribe_restores_grant : forall f x o r,
  inv_all x -> own_request (actor sm o) o -> actor sm o <> 0%N ->
  find_sub (actor sm o) (subs (st x)) = Some r -> s_deleted r = true -> (s_given r =? ModeUnset)%N = false ->
  let x' := fst (step_f dr nr sm x (f, o)) in
  sgiven (st x') (actor sm o) = Some (s_given r) /\
  (forall c', ca x' = Some c' -> forall g, cgiven c' (actor sm o) = Some g -> g = s_given r).
Proof. exact (resubscribe_restores dr nr sm). Qed.

(* The subscriber limit: live subscription rows never exceed maxSubscriberCount (max_subs, the
   value the driver configures), in every state reached by ANY requests under ANY fault plan. *)
Theorem c07_sub_limit : forall x h, inv_lim x ->
  Z.of_nat (live_count (st (fst (run dr nr sm x h)))) <= max_subs.
Proof. intros x h. exact (sub_limit dr nr sm h x). Qed.

(* ---- the attachment table under bans (sessions are attached as sid -> (user, background flag)) ---- *)

(* Bans stick: in every state reached under ANY fault plan by ANY history without the request
   pattern of finding banned-user-attached, a user whose cached grant lacks J (ban by an approver)
   - or who has no cache entry any more ({del sub}, {leave unsub}) - has NO attached session,
   whatever its kind (foreground or background) and however many there were. *)
Theorem c07_ban_detaches_every_session : forall x h,
  inv_sm x -> inv_aj x -> no_stale dr nr sm x h ->
  forall c, ca (fst (run dr nr sm x h)) = Some c ->
  forall u, (forall p, alookup u (c_users c) = Some p -> is_joiner (p_given p) = false) -> no_sess c u.
Proof. exact (ban_detaches_run_c07f dr nr sm). Qed.

(* ONE request {set sub} / {del sub} / {leave unsub}, ANY state (so: every step of every history),
   ANY fault: every session attached before the request is still attached afterwards, or it
   belongs to the request's target (ban_target_c07f: the named user, the requester for a request
   about oneself), NO session of the target is attached any more and the session was sent
   {ctrl 205 evicted} (except the requester's own session at {leave unsub}, which gets the reply;
   the model's "no skipped session" is session id 0). *)
Theorem c07_evicted_session_notified : forall f x c o who unsub skip,
  ca x = Some c -> ban_target_c07f sm c o = Some (who, unsub, skip) ->
  exists c', ca (fst (step dr nr sm f x o)) = Some c' /\
    forall sid v b, In (sid, (v, b)) (c_sess c) ->
      In (sid, (v, b)) (c_sess c') \/
      (v = who /\ no_sess c' who /\ (sid <> skip -> In (sid, Evicted unsub) (snd (step dr nr sm f x o)))).
Proof. exact (ban_step_told_c07f dr nr sm). Qed.

(* Losing J detaches: at EVERY step of EVERY history (any fault plan, from any state whose attached sessions
   belong to cached subscribers), for EVERY request: a user whose effective mode
   (want & given of the cache entry) had J before the request and lacks it afterwards - ban by an approver,
   self-ban through {set sub} or {sub set.sub.mode}, {del sub}, {leave unsub}: entry gone - has NO attached
   session afterwards, foreground or background. *)
Theorem c07_losing_join_detaches_every_session : forall x h f o c c',
  inv_sm x -> ca (fst (run dr nr sm x h)) = Some c ->
  ca (fst (step dr nr sm f (fst (run dr nr sm x h)) o)) = Some c' ->
  forall v, effj_c07f c v = true -> effj_c07f c' v = false -> no_sess c' v.
Proof. exact (run_step_losej_c07f dr nr sm). Qed.
End C07.

(* evictUser itself: every session of the user is detached, of either kind, and each one except the
   skipped one is told; the sessions of the others stay *)
Theorem c07_evict_detaches_every_session : forall c u unsub skip c' o, evict_user c u unsub skip = (c', o) ->
  no_sess c' u /\
  (forall sid b, In (sid, (u, b)) (c_sess c) -> sid <> skip -> In (sid, Evicted unsub) o) /\
  (forall sid v b, v <> u -> In (sid, (v, b)) (c_sess c) -> In (sid, (v, b)) (c_sess c')).
Proof. exact evict_all_c07f. Qed.

(* Self-ban: an ACCEPTED {set sub} about oneself (thisUserSub returns no error), any fault, any state,
   that leaves the own cached want without J leaves no session of the user attached. *)
Theorem c07_selfban_detaches_every_session : forall f s c n sid u t mode ch w,
  (t =? 0)%N || N.eqb t u = true ->
  snd (this_user_sub f s c n sid u mode false) = SubOk ch ->
  let h := set_sub f s c n sid u t mode in
  cwant (h_ca h) u = Some w -> is_joiner w = false -> no_sess (h_ca h) u.
Proof. exact set_sub_selfban_c07f. Qed.

(* The same through {sub set.sub.mode=<no J>} (from an attached or a not yet attached session): accepted with a
   changed mode whose want & given lacks J - the requester is not attached and no other session of the user stays. *)
Theorem c07_selfban_by_sub_detaches_every_session : forall f s c n sid u want bkg w g w',
  snd (this_user_sub f s c n sid u want (match alookup u (c_users c) with Some _ => false | None => true end)) = SubOk (Some (w, g)) ->
  is_joiner (N.land g w) = false ->
  let h := sub_reply f s c n sid u want bkg in
  cwant (h_ca h) u = Some w' -> is_joiner w' = false -> no_sess (h_ca h) u.
Proof. exact sub_reply_selfban_c07f. Qed.

(* non-vacuity: user 2 is attached ONLY through two background sessions (online counter 0); the owner
   sets his grant to RWP: both sessions are detached and both are sent {ctrl 205} *)
Example c07_ex_ban_background_only :
  let x3 := fst (run bf_dr_c07f bf_nr_c07f bf_sm_c07f bf_x_c07f bf_h_c07f) in
  let r := step bf_dr_c07f bf_nr_c07f bf_sm_c07f NoFault x3 bf_ban_c07f in
  (exists c, ca x3 = Some c /\ In (2%N, (2%N, true)) (c_sess c) /\ In (3%N, (2%N, true)) (c_sess c) /\
             (forall sid b, In (sid, (2%N, b)) (c_sess c) -> b = true) /\
             option_map p_online (alookup 2%N (c_users c)) = Some 0 /\
             ban_target_c07f bf_sm_c07f c bf_ban_c07f = Some (2%N, false, 0%N)) /\
  (exists c', ca (fst r) = Some c' /\ cgiven c' 2%N = Some 14%N /\ no_sess c' 2%N /\
              In (2%N, Evicted false) (snd r) /\ In (3%N, Evicted false) (snd r)).
Proof. exact bf_example_c07f. Qed.
Example c07_ex_losing_join :
  let x3 := fst (run bf_dr_c07f bf_nr_c07f bf_sm_c07f bf_x_c07f bf_h_c07f) in
  inv_sm bf_x_c07f /\
  exists c c', ca x3 = Some c /\ ca (fst (step bf_dr_c07f bf_nr_c07f bf_sm_c07f NoFault x3 bf_ban_c07f)) = Some c' /\
    effj_c07f c 2%N = true /\ effj_c07f c' 2%N = false.
Proof. exact bf_losej_example_c07f. Qed.

(* The full statements are REFUTED by the faithful model; both witnesses are replayed on the
   real code (findings/C07.md). *)
Definition c07_no_join_no_attach_statement : Prop :=
  forall sm x h, inv_all x -> inv_aj x -> inv_aj (fst (run dr0 nr0 sm x h)).
Theorem c07_no_join_no_attach_refuted : ~ c07_no_join_no_attach_statement.
Proof. intros H. exact (w1_attached (H w1_sm w1_x w1_h (proj1 w1_inv) (proj2 w1_inv))). Qed.

Definition c07_given_writers_statement : Prop :=
  forall sm x h, inv_all x -> hist_logged_in dr0 nr0 sm x h -> all_steps dr0 nr0 sm (given_law sm) x h.
Theorem c07_given_writers_refuted : ~ c07_given_writers_statement.
Proof. intros H. exact (w2_rewrites_all (H w2_sm w2_x _ w2_inv w2_logged)). Qed.

(* ================================================================== *)
(* Part B: p2p, me, fnd, sys (Sys/TopicKindsC07.v)                         *)
Section C07Kinds.
Variable isroot : N -> bool.   (* the level of a user's sessions: root or not *)
Variable suser : N -> N.       (* the user a session is logged in as *)

(* Routing (Session.expandTopicName): a request reaches the 'me' topic of u only as "me" from
   u himself; the 'fnd' topic of u only as "fnd" from u or by its raw name; a p2p topic only by
   its raw name or as usrX from one of its two users. *)
Theorem c07_route_me : forall uid o u, expand uid o = inl (KMe u) -> o = OMe /\ u = uid.
Proof. exact expand_me. Qed.
Theorem c07_route_fnd : forall uid o u, expand uid o = inl (KFnd u) -> (o = OFnd /\ u = uid) \/ o = ORawFnd u.
Proof. exact expand_fnd. Qed.
Theorem c07_route_p2p : forall uid o a b, expand uid o = inl (KP2P a b) ->
  o = ORawP2P a b \/ (exists v, o = OUsr v /\ v <> 0%N /\ v <> uid /\ ((a = uid /\ b = v) \/ (a = v /\ b = uid))).
Proof. exact expand_p2p. Qed.
(* the model keys a p2p topic by the pair of ids; the real name determines the pair *)
Theorem c07_p2p_name_pair : forall a b c d,
  valid_uid a -> valid_uid b -> valid_uid c -> valid_uid d -> a <> b -> c <> d ->
  p2p_name a b = p2p_name c d -> (a = c /\ b = d) \/ (a = d /\ b = c).
Proof. exact P2PProofs.p2p_injective. Qed.

(* Every history (any requests of sessions logged in as one user each): only sessions of u
   are ever attached to the 'me' topic of u. *)
Theorem c07_me_attach_private : forall acc h, Forall (op_user suser) h ->
  forall u c sid v, kt_cache (tget (KMe u) (w_topics (fst (krun (init_world acc) h)))) = Some c ->
    In (sid, v) (kc_sess c) -> v = u.
Proof. exact (me_sessions_private suser). Qed.

(* me / fnd: in every state reached by a history in which no {set sub} addressed to a me / fnd
   topic names a user other than its owner (op_clean; the pattern of finding
   me-fnd-foreign-subscription-by-invite), every stored subscription, cached entry and attached
   session of the me / fnd topic of u belongs to u. *)
Theorem c07_me_fnd_private : forall acc h,
  Forall (op_static isroot suser sc_mefnd) h -> Forall (op_clean isroot sc_none sc_mefnd) h ->
  forall k u, k = KMe u \/ k = KFnd u ->
  let t := tget k (w_topics (fst (krun (init_world acc) h))) in
  (forall v r, In (v, r) (kt_rows t) -> v = u) /\
  (forall c, kt_cache t = Some c ->
     (forall v r, In (v, r) (kc_users c) -> v = u) /\ (forall sid v, In (sid, v) (kc_sess c) -> v = u)).
Proof. exact (mefnd_private isroot suser). Qed.

(* sys: in every state reached by ANY history of sessions whose level is a function of the
   user, every stored subscription, cached entry and attached session belongs to a root user. *)
Theorem c07_sys_root_only : forall acc h,
  Forall (op_static isroot suser sc_sys) h ->
  let t := tget KSys (w_topics (fst (krun (init_world acc) h))) in
  (forall v r, In (v, r) (kt_rows t) -> isroot v = true) /\
  (forall c, kt_cache t = Some c ->
     (forall v r, In (v, r) (kc_users c) -> isroot v = true) /\ (forall sid v, In (sid, v) (kc_sess c) -> isroot v = true)).
Proof. exact (sys_root_only isroot suser). Qed.

(* p2p: accounts whose default access is within JRWPA and contains A, histories in which a
   {set sub user=X} addressed to a p2p topic names one of its two users and carries an explicit
   mode (op_clean; the patterns of findings p2p-third-participant, p2p-initiator-grant-unmasked,
   p2p-reinvite-grant-lacks-approve): every p2p topic has at most two subscriptions, of the two
   users in its name, every want and grant (stored and cached) is within JRWPA and contains A,
   and only the two users are attached. *)
Theorem c07_p2p_shape : forall acc h,
  NoDup (map fst acc) -> Forall (fun e => okmode (snd e)) acc ->
  Forall (op_static isroot suser sc_p2p) h -> Forall (op_clean isroot sc_p2p sc_p2p) h ->
  forall a b, let t := tget (KP2P a b) (w_topics (fst (krun (init_world acc) h))) in
  (length (kt_rows t) <= 2)%nat /\
  (forall v r, In (v, r) (kt_rows t) -> (v = a \/ v = b) /\ okmode (kr_want r) /\ okmode (kr_given r)) /\
  (forall c, kt_cache t = Some c ->
     (forall v r, In (v, r) (kc_users c) -> (v = a \/ v = b) /\ okmode (kr_want r) /\ okmode (kr_given r)) /\
     (forall sid v, In (sid, v) (kc_sess c) -> v = a \/ v = b)).
Proof. exact (p2p_shape isroot suser). Qed.
End C07Kinds.

(* The unconditional statements are REFUTED by the faithful model (each witness replayed on the
   real code, findings/C07.md): a third user gets a subscription in a p2p topic; with the
   default account access JRWPAS the initiator's grant is JRWPAS; a re-invited peer gets grant
   J; a foreign user gets a subscription on somebody's 'me' topic and attaches to somebody's
   'fnd' topic. *)
Definition c07_p2p_participants_statement : Prop :=
  forall acc h a b v r, In (v, r) (kt_rows (tget (KP2P a b) (w_topics (fst (krun (init_world acc) h))))) -> v = a \/ v = b.
Theorem c07_p2p_participants_refuted : ~ c07_p2p_participants_statement.
Proof.
  intros H. destruct wk_third_row as [r E]. apply alookup_in in E.
  destruct (H wk_acc wk_third _ _ _ _ E) as [X|X]; discriminate X.
Qed.
Definition c07_p2p_modes_statement : Prop :=
  forall acc h a b v r, In (v, r) (kt_rows (tget (KP2P a b) (w_topics (fst (krun (init_world acc) h))))) ->
    okmode (kr_want r) /\ okmode (kr_given r).
Theorem c07_p2p_modes_refuted_unmasked : ~ c07_p2p_modes_statement.
Proof.
  intros H. pose proof wk_unmasked_row as E.
  destruct (alookup 1%N (kt_rows (tget (KP2P 1 2) (w_topics (fst (krun (init_world wk_default_acc) wk_unmasked)))))) as [r|] eqn:EL; [|discriminate].
  apply alookup_in in EL. destruct (H _ _ _ _ _ _ EL) as [_ [G _]]. cbn in E. inv E. rewrite H1 in G. discriminate G.
Qed.
Theorem c07_p2p_modes_refuted_reinvite : ~ c07_p2p_modes_statement.
Proof.
  intros H. pose proof wk_reinvite_row as E.
  destruct (alookup 2%N (kt_rows (tget (KP2P 1 2) (w_topics (fst (krun (init_world wk_acc) wk_reinvite)))))) as [r|] eqn:EL; [|discriminate].
  apply alookup_in in EL. destruct (H _ _ _ _ _ _ EL) as [_ [_ G]]. cbn in E. inv E. rewrite H1 in G. discriminate G.
Qed.
Definition c07_me_fnd_private_statement : Prop :=
  forall acc h u,
    (forall v r, In (v, r) (kt_rows (tget (KMe u) (w_topics (fst (krun (init_world acc) h))))) -> v = u) /\
    (forall c sid v, kt_cache (tget (KFnd u) (w_topics (fst (krun (init_world acc) h)))) = Some c -> In (sid, v) (kc_sess c) -> v = u).
Theorem c07_me_private_refuted : ~ c07_me_fnd_private_statement.
Proof.
  intros H. destruct wk_me_row as [r E]. apply alookup_in in E.
  destruct (H wk_acc wk_me 1%N) as [A _]. specialize (A _ _ E). discriminate A.
Qed.
Theorem c07_fnd_private_refuted : ~ c07_me_fnd_private_statement.
Proof.
  intros H. destruct wk_fnd_sess as [c [E HI]].
  destruct (H wk_acc wk_fnd 1%N) as [_ B]. specialize (B _ _ _ E HI). discriminate B.
Qed.

Print Assumptions c07_request_writers.
Print Assumptions c07_given_writers.
Print Assumptions c07_want_writers.
Print Assumptions c07_wf_reachable.
Print Assumptions c07_admin_raise_within.
Print Assumptions c07_no_join_no_attach.
Print Assumptions c07_resubscribe_restores_grant.
Print Assumptions c07_ban_detaches_every_session.
Print Assumptions c07_evicted_session_notified.
Print Assumptions c07_evict_detaches_every_session.
Print Assumptions c07_selfban_detaches_every_session.
Print Assumptions c07_selfban_by_sub_detaches_every_session.
Print Assumptions c07_losing_join_detaches_every_session.
Print Assumptions c07_sub_limit.
Print Assumptions c07_no_join_no_attach_refuted.
Print Assumptions c07_given_writers_refuted.
Print Assumptions c07_route_me.
Print Assumptions c07_route_fnd.
Print Assumptions c07_route_p2p.
Print Assumptions c07_p2p_name_pair.
Print Assumptions c07_me_attach_private.
Print Assumptions c07_me_fnd_private.
Print Assumptions c07_sys_root_only.
Print Assumptions c07_p2p_shape.
Print Assumptions c07_p2p_participants_refuted.
Print Assumptions c07_p2p_modes_refuted_unmasked.
Print Assumptions c07_p2p_modes_refuted_reinvite.
Print Assumptions c07_me_private_refuted.
Print Assumptions c07_fnd_private_refuted.

Example c07_ex_wf_satisfiable : inv_all w2_x /\ inv_aj w2_x.
Proof. split; [exact w2_inv|exact I]. Qed.
(* the hypotheses of the kinds theorems are satisfiable: accounts within JRWPA with A, a clean history *)
Example c07_ex_kinds_hypotheses :
  Forall (fun e => okmode (snd e)) wk_acc /\
  Forall (op_clean (fun _ => false) sc_p2p sc_p2p) [KSub 1 1 false (OUsr 2) [] []; KSetSub 1 1 false (OUsr 2) 2 m_J].
Proof.
  split; [repeat constructor|]. constructor; [exact I|]. constructor; [|constructor].
  intros k EX _ _ _. cbn in EX. inv EX. split; [intros _; right; reflexivity|discriminate].
Qed.
