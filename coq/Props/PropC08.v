(* C08 placeholder while the check plugin is being built; replaced by the real theorems. *)
From Coq Require Import ZArith NArith List Bool.
From Tinode Require Import Base.Util Pure.Acs Sys.Topic.
Theorem c08_stub : forall s : store, load s = load s.
Proof. reflexivity. Qed.
Print Assumptions c08_stub.
