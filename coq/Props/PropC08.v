(* C08  The live topic state and the stored state never diverge.
   Theorems only, about the group-topic model Sys/Topic.v (store + cache + handlers +
   load path), for EVERY history of requests (any length, users, sessions, unloads,
   restarts, failing/crashing store calls).

   coherent x  :=  while the topic is loaded, the cache equals load (store) on lastID,
                   delID, owner, default access and per-user want/given/read/recv/delID.
   inv x       :=  coherent x in its pointwise form + well-formedness of the store (one row
                   per user, exactly one owner) + "attached sessions act for cached users".

   Main results: c08_step_coherent_partial / c08_run_coherent_partial (the invariant along histories),
   c08_reload_anywhere (a reload inserted anywhere in a history changes no later reply and not the store),
   c08_ack_implies_stored_partial, c08_reject_no_change_partial.

   The faithful model REFUTES the full statement (seven reproduced triggers, findings/C08.md):
   the full statements are kept as Definitions, refuted with concrete witnesses, and proved
   under hypotheses that exclude exactly the triggers (safe_step); each excluded hypothesis is
   shown necessary by a witness that satisfies all the others (c08_trigger_*_needed). *)
From Coq Require Import ZArith NArith List Bool Lia.
From Tinode Require Import Base.Util Pure.Acs Sys.Topic Sys.TopicTac Sys.TopicFrame Sys.TopicNum Sys.TopicNumThm Sys.TopicInst
  Sys.TopicCohC08 Sys.TopicCohC08Proofs Sys.TopicCohC08Step Sys.TopicCohC08Run Sys.TopicCohC08Query Sys.TopicCohC08Wit
  Sys.TopicCohC08Reject Sys.TopicCohC08Ack Sys.TopicCohC08Wit2 Sys.TopicCohC08Keys Sys.TopicCohC08Bisim
  Sys.PermBranchC08c Sys.PermBranchC08cProofs Sys.PermAckFullC08c Sys.PermBranchC08cWit
  Sys.MarksLagC08d Sys.TopicKindsC07 Sys.KindsOfflineC08d Sys.ChanPrivC08d.
From Tinode Require Sys.TopicDesc.
Import ListNotations.
Open Scope Z_scope.

Section C08.
Variable dr : Z -> list (Z * Z) -> option (list (Z * Z)).   (* any range validator *)
Variable nr : list (Z * Z) -> list (Z * Z).                 (* any range normaliser *)
Variable sm : sessmap.                                      (* any assignment of sessions to users *)

(* the initial state (nothing loaded) is coherent; so is a topic straight after the load path ran *)
Theorem c08_coherent_init : forall s n, coherent (mkState s None n).
Proof. intros s n. exact I. Qed.
Theorem c08_coherent_load : forall s n, wf_store s -> inv (mkState s (Some (load s)) n).
Proof. intros s n W. apply good_inv. apply good_load. exact W. Qed.

(* the invariant implies coherence with the model of the load path *)
Theorem c08_inv_coherent : forall x, inv x -> coherent x.
Proof. exact inv_coherent. Qed.

(* ONE STEP, every request kind, every fault plan: the invariant is preserved by every step
   that is free of the known triggers *)
Theorem c08_step_coherent_partial : forall f x o,
  inv x -> inv_num x -> safe_step sm f x o -> inv (fst (step dr nr sm f x o)).
Proof. exact (step_inv dr nr sm). Qed.

(* ARBITRARY HISTORIES from an empty well-formed topic: coherent after every trigger-free history *)
Theorem c08_run_coherent_partial : forall s h,
  wf_store s -> fresh s -> safe_run dr nr sm (mkState s None 0) h ->
  coherent (fst (run dr nr sm (mkState s None 0) h)).
Proof.
  intros s h W F SR. apply inv_coherent. apply run_inv; [split; [exact W|exact I]|apply fresh_inv; exact F|exact SR].
Qed.

(* RELOAD INVISIBLE: after any trigger-free history, every query (get desc / sub / data / del, from
   any session, under any fault plan of the query itself) is answered the same whether the topic
   stayed in memory or its cache was rebuilt by the load path with the same sessions attached *)
Theorem c08_reload_invisible : forall h x0 f q,
  inv x0 -> inv_num x0 -> safe_run dr nr sm x0 h -> is_query q = true ->
  answer dr nr sm f (fst (run dr nr sm x0 h)) q = answer dr nr sm f (reload (fst (run dr nr sm x0 h))) q.
Proof. exact (run_reload_invisible dr nr sm). Qed.

(* RELOAD ANYWHERE: split any trigger-free history in two, h1 ++ h2.  Whether or not the cache is rebuilt
   by the load path (same sessions attached) between h1 and h2, the rest of the history produces exactly
   the same replies - every frame to every session, queries and acknowledgements alike, under the fault
   plans h2 carries - and ends with the same store.  (The proof is a bisimulation: every handler computes
   the same store, replies and session list from two caches that agree on the stored fields; the
   invariant re-establishes the agreement after each step.) *)
Theorem c08_reload_anywhere : forall h1 h2 x0,
  inv x0 -> inv_num x0 -> keys_st x0 -> safe_run dr nr sm x0 h1 ->
  safe_run dr nr sm (fst (run dr nr sm x0 h1)) h2 ->
  snd (run dr nr sm (fst (run dr nr sm x0 h1)) h2) = snd (run dr nr sm (reload (fst (run dr nr sm x0 h1))) h2) /\
  st (fst (run dr nr sm (fst (run dr nr sm x0 h1)) h2)) = st (fst (run dr nr sm (reload (fst (run dr nr sm x0 h1))) h2)).
Proof. exact (reload_anywhere dr nr sm). Qed.

(* two caches that agree on the stored fields (and have the same sessions) answer every query alike *)
Theorem c08_query_agree : forall f s c d n q,
  cache_agree c d -> c_sess c = c_sess d -> is_query q = true ->
  snd (step dr nr sm f (mkState s (Some c) n) q) = snd (step dr nr sm f (mkState s (Some d) n) q).
Proof. exact (query_agree dr nr sm). Qed.

(* the idle unload itself (it happens only when no session is attached) is invisible to every
   query in EVERY state, coherent or not: sessions that are not attached are answered from the store *)
Theorem c08_unload_invisible : forall f x q,
  is_query q = true -> answer dr nr sm f (fst (step dr nr sm NoFault x OUnload)) q = answer dr nr sm f x q.
Proof. exact (unload_invisible dr nr sm). Qed.
(* ACK => STORED, every fault plan: if a mutating request is acknowledged (2xx), the state after it
   satisfies the invariant - the cache (which holds the acknowledged change) is what a restart would
   load from the store.  For publish and delete the acknowledgement itself shows that no store call
   it depends on failed; what remains excluded is the store error messagesMapper.Save ignores
   (3rd call of a publish, finding #6) and a fault during an ownership acceptance (finding #9). *)
Theorem c08_ack_implies_stored_partial : forall f x o,
  inv x -> inv_num x -> known sm o ->
  ~ trig_note_read sm x o -> ~ trig_readless_pub sm x o -> ~ trig_offline_setsub x o ->
  ack_fault_ok sm f x o ->
  ok_reply (snd (step dr nr sm f x o)) (op_sid o) ->
  inv (fst (step dr nr sm f x o)).
Proof. exact (step_ack dr nr sm). Qed.

(* REJECT => NO CHANGE, without store faults: a request answered 4xx/5xx leaves the store as it was and
   the cache as it was (or freshly built by the load path, when the rejected request was the one that
   loaded the topic) - except the banned-subscriber case (finding #4) *)
Theorem c08_reject_no_change_partial : forall x o,
  (match ca x with Some c => forall m, In m (seqs (st x)) -> m <= c_lastid c | None => True end) ->
  ~ trig_banned sm x o ->
  err_reply (snd (step dr nr sm NoFault x o)) (op_sid o) ->
  unchanged x (fst (step dr nr sm NoFault x o)).
Proof. exact (step_reject dr nr sm). Qed.
(* ACKNOWLEDGED ACCESS MODE = STORED ACCESS MODE ("every acknowledged change to permissions is in the store
   by the time it is acknowledged"), every branch of thisUserSub / anotherUserSub / replyOfflineTopicSetSub,
   EVERY fault plan: whenever a {sub} or {set sub} request - own or about another user, attached or not, topic
   loaded or not - is answered {ctrl 200 params.acs = want/given}, the reply goes to the requester and the live
   stored subscription row of the user it is about (the named user, else the requester) holds exactly that want
   and that given.  (An acknowledged request met no store error - step_ack_nofault_c08c - so the fault plan
   does not matter; a fault inside an ownership acceptance, finding #9, produces no reply at all.) *)
Theorem c08_acs_ack_is_stored : forall f x o sid named w g,
  inv x -> known sm o -> is_perm_req_c08c o = true ->
  In (sid, CtrlAcs 200 named w g) (snd (step dr nr sm f x o)) ->
  sid = op_sid o /\ stored_acs_c08c (st (fst (step dr nr sm f x o))) (acs_subject_c08c sm o named) w g.
Proof. exact (step_acs_ack_stored_full_c08c dr nr sm). Qed.

(* SELF-RAISE: an attached approver (A in grant and in the requested mode) or holder of an O grant who asks,
   for himself, beyond his grant - the branches PB_t_raise_admin / PB_t_raise_owner / PB_t_accept_raise of the
   extracted classifier perm_branch_c08c - is acknowledged with a grant DIFFERENT from the old one, and the
   raised grant is in the store. *)
Theorem c08_self_raise_setsub_stored : forall x sd target mode c p0,
  inv x -> sess_uid sm sd <> 0%N -> ca x = Some c -> attached c sd = true ->
  alookup (sess_uid sm sd) (c_users c) = Some p0 ->
  is_raise_c08c (perm_branch_c08c sm x (OSetSub sd target mode)) = true ->
  exists w g,
    In (sd, CtrlAcs 200 0%N w g) (snd (step dr nr sm NoFault x (OSetSub sd target mode))) /\
    g <> p_given p0 /\
    stored_acs_c08c (st (fst (step dr nr sm NoFault x (OSetSub sd target mode)))) (sess_uid sm sd) w g.
Proof. exact (raise_setsub_stored_c08c dr nr sm). Qed.

Theorem c08_self_raise_sub_stored : forall x sd want bkg c p0,
  inv x -> sess_uid sm sd <> 0%N -> ca x = Some c -> attached c sd = false ->
  alookup (sess_uid sm sd) (c_users c) = Some p0 ->
  is_raise_c08c (perm_branch_c08c sm x (OSub sd want bkg)) = true ->
  exists w g,
    In (sd, CtrlAcs 200 0%N w g) (snd (step dr nr sm NoFault x (OSub sd want bkg))) /\
    g <> p_given p0 /\
    stored_acs_c08c (st (fst (step dr nr sm NoFault x (OSub sd want bkg)))) (sess_uid sm sd) w g.
Proof. exact (raise_sub_stored_c08c dr nr sm). Qed.
(* ---- part d, marks.  WHAT THE KNOWN FINDING note-read-recv-cached-only EXCUSES AND WHAT IT DOES NOT.
   After a {note read n} above the received mark the cache is not load(store) any more (c08_trigger_note_read_needed):
   the cached recv is max(stored recv, read).  cache_lag_c08d is that weaker agreement (every stored field but recv,
   and max(recv, read)).  {get desc} reports read and max(recv, read), so: *)
(* two caches within the lag answer {get desc} alike, for every session, attached or not *)
Theorem c08_getdesc_same_modulo_recv_lag : forall f s c d n sid,
  cache_lag_c08d c d -> c_sess c = c_sess d ->
  snd (step dr nr sm f (mkState s (Some c) n) (OGetDesc sid)) = snd (step dr nr sm f (mkState s (Some d) n) (OGetDesc sid)).
Proof. exact (step_getdesc_lag_c08d dr nr sm). Qed.
(* every {note} request (read / recv / kp, any mark, any fault plan, attached or routed by the hub) keeps the
   loaded topic within the lag of what the load path would build *)
Theorem c08_note_keeps_recv_lag : forall f x sid what seq,
  NoDup (map s_user (subs (st x))) -> sess_uid sm sid <> 0%N ->
  lag_state_c08d x -> lag_state_c08d (fst (step dr nr sm f x (ONote sid what seq))).
Proof. exact (step_note_lag_c08d dr nr sm). Qed.
(* REPORTED MARKS ARE RELOAD-INVARIANT: from a coherent state, after any history of {note} and {get desc}
   requests - the finding's trigger included - {get desc} is answered the same with and without a reload.
   The finding excuses the cached recv itself (and the stored recv a later {note recv} writes), never what
   replyGetDesc reports. *)
Theorem c08_reported_marks_reload_invisible : forall h x f sid,
  Forall (marks_op_c08d sm) h -> NoDup (map s_user (subs (st x))) -> coherent x ->
  snd (step dr nr sm f (fst (run dr nr sm x h)) (OGetDesc sid)) =
  snd (step dr nr sm f (reload (fst (run dr nr sm x h))) (OGetDesc sid)).
Proof. exact (run_marks_reload_invisible_c08d dr nr sm). Qed.
End C08.

(* ------------------------------------------------------------------ *)
(* part d, p2p topics (kinds model Sys/TopicKindsC07.v): {set sub mode} for one's own subscription through the live
   topic and through the hub (session not attached / topic not loaded), the topic named usrXXX or p2pXXXYYY *)
(* the hub path of the kinds model, on its own *)
Theorem c08_kinds_offline_path : forall w sid uid root orig target mode k,
  expand uid orig = inl k -> k_attached (tget k (w_topics w)) sid = false ->
  kstep w (KSetSub sid uid root orig target mode) =
  let t := tget k (w_topics w) in
  match off_set_c08d (key_cat k) (kt_rows t) sid uid target mode with
  | (None, o) => (w, o)
  | (Some rows', o) => (mkWorld (w_acc w) (tset k (mkKt (kt_exists t) rows' (kt_cache t)) (w_topics w)), o)
  end.
Proof. exact kstep_offline_c08d. Qed.
(* ACK => STORED on the hub path, every topic kind: a {ctrl 200 acs=want/given} goes to the requester, is about
   the requester, and his live stored row holds exactly that want and that given *)
Theorem c08_kinds_offline_ack_is_stored : forall cat rows sid uid target mode rows' o s' named wt g,
  off_set_c08d cat rows sid uid target mode = (rows', o) -> In (s', KAcs 200 named wt g) o ->
  s' = sid /\ named = 0%N /\
  exists rows1 r, rows' = Some rows1 /\ alookup uid rows1 = Some r /\ kr_want r = wt /\ kr_given r = g /\ kr_del r = false.
Proof. exact offline_ack_stored_c08d. Qed.
(* the FORM of the name (usrXXX / p2pXXXYYY) does not matter: requests naming the same topic do the same *)
Theorem c08_kinds_name_form_irrelevant : forall w sid uid root o1 o2 target mode,
  expand uid o1 = expand uid o2 -> (match o1, o2 with OUsr _, _ | ORawP2P _ _, _ => True | _, _ => o1 = o2 end) ->
  kstep w (KSetSub sid uid root o1 target mode) = kstep w (KSetSub sid uid root o2 target mode).
Proof. exact name_form_c08d. Qed.
(* LIVE = OFFLINE: on a p2p topic whose cached record of the requester is his stored row, thisUserSub (live topic)
   and replyOfflineTopicSetSub (hub) leave the SAME stored rows for every mode string that names a mode: the
   request is clipped to JRWPA and keeps A whether or not the topic is in memory *)
Theorem c08_p2p_offline_set_same_as_live : forall rows c sid uid root mode r,
  mode <> [] ->
  (forall m0, parse_acs mode = Some m0 -> (m0 =? ModeUnset)%N = false) ->
  alookup uid rows = Some r -> kr_del r = false -> alookup uid (kc_users c) = Some r ->
  is_owner (kr_want r) = false -> is_owner (kr_given r) = false ->
  let '(live_rows, _, _, _) := k_this_user_sub CP2P rows c uid root mode false in
  live_rows = match fst (off_set_c08d CP2P rows sid uid 0 mode) with Some r' => r' | None => rows end.
Proof. exact p2p_offline_same_rows_c08d. Qed.
Print Assumptions c08_kinds_offline_path.
Print Assumptions c08_kinds_offline_ack_is_stored.
Print Assumptions c08_kinds_name_form_irrelevant.
Print Assumptions c08_p2p_offline_set_same_as_live.
Example c08_ex_mode_names_a_mode :
  match parse_acs [74; 82; 87; 83; 68]%N with Some m0 => (m0 =? ModeUnset)%N = false | None => True end.
Proof. exact mode_abs_JRWSD_c08d. Qed.

(* ------------------------------------------------------------------ *)
(* part d, channel-enabled group topics (Sys/ChanPrivC08d.v): desc.private of full subscribers (rows under grpXXX)
   and channel readers (rows under chnXXX), the topic named either way *)
(* ACK => STORED when the name used agrees with the kind of the requester: an acknowledged {set desc private} is in
   the requester's OWN row and in the cache *)
Theorem c08_chan_private_ack_is_stored_partial : forall s c u aschan tok ischan cur row,
  alookup u (cc_users c) = Some (ischan, cur) -> cs_own_c08d s ischan u = Some row -> aschan = ischan ->
  let '(s', c', fr) := cstep_c08d s c (CSetPriv u aschan tok) in
  fr = [CCtrl 200] ->
  cs_own_c08d s' ischan u = Some (fst (TopicDesc.merge_val cur tok)) /\
  alookup u (cc_users c') = Some (ischan, fst (TopicDesc.merge_val cur tok)).
Proof. exact chan_set_ack_stored_c08d. Qed.
(* the full statement (whatever name was used) is refuted by the faithful model: replySetDesc picks the row by the
   name (asChan), a missing row is a silent success (finding set-private-under-other-name-not-stored) *)
Definition c08_chan_private_ack_is_stored_statement : Prop := chan_ack_stored_statement_c08d.
Theorem c08_chan_private_ack_is_stored_refuted : ~ c08_chan_private_ack_is_stored_statement.
Proof. exact chan_ack_stored_refuted_c08d. Qed.
(* a channel reader's attach caches the request's private, not the row's (finding chan-reader-private-not-loaded) *)
Theorem c08_chan_reader_attach_reports_null : forall s c u row,
  alookup u (cc_users c) = None -> alookup u (cs_chn s) = Some row ->
  let '(s1, c1, _) := cstep_c08d s c (CAttachReader u 0) in
  snd (cstep_c08d s1 c1 (CGetDesc u)) = [CDesc 0].
Proof. exact chan_reader_attach_null_c08d. Qed.
(* full subscribers under their own name: cached private = stored private is kept by every {set desc private} *)
Theorem c08_chan_member_coherent_step : forall s c u v tok,
  member_coh_c08d s c v ->
  let '(s', c', _) := cstep_c08d s c (CSetPriv u false tok) in member_coh_c08d s' c' v.
Proof. exact member_set_coh_c08d. Qed.
Print Assumptions c08_chan_private_ack_is_stored_partial.
Print Assumptions c08_chan_private_ack_is_stored_refuted.
Print Assumptions c08_chan_reader_attach_reports_null.
Print Assumptions c08_chan_member_coherent_step.

(* ------------------------------------------------------------------ *)
(* the full statements and their refutations *)
Definition c08_step_coherent_statement : Prop :=
  forall dr nr sm f x o, inv x -> inv_num x -> known sm o -> coherent (fst (step dr nr sm f x o)).

Theorem c08_step_coherent_refuted : ~ c08_step_coherent_statement.
Proof.
  intros H. destruct ref_note_read as [A B C _ _ _ _ D]. apply D. apply (H _ _ _ _ _ _ A B C).
Qed.

(* each excluded hypothesis is necessary: a reachable state and a request that satisfy all the
   other hypotheses of c08_step_coherent_partial and end incoherent *)
Theorem c08_trigger_note_read_needed : exists x f o, refutes 1 x f o.
Proof. eexists _, _, _. exact ref_note_read. Qed.
Theorem c08_trigger_readless_publisher_needed : exists x f o, refutes 2 x f o.
Proof. eexists _, _, _. exact ref_readless_pub. Qed.
Theorem c08_trigger_offline_setsub_needed : exists x f o, refutes 3 x f o.
Proof. eexists _, _, _. exact ref_offline_setsub. Qed.
Theorem c08_fault_publish_seqid_needed : exists x o, refutes 4 x (FailAt 2) o.
Proof. eexists _, _. exact ref_pub_fail2. Qed.
Theorem c08_fault_publish_marks_needed : exists x o, refutes 4 x (FailAt 3) o.
Proof. eexists _, _. exact ref_pub_fail3. Qed.
Theorem c08_fault_delete_needed : exists x o, refutes 4 x (FailAt 3) o.
Proof. eexists _, _. exact ref_del_fail3. Qed.
Theorem c08_fault_owner_transfer_needed : exists x o, refutes 4 x (FailAt 2) o.
Proof. eexists _, _. exact ref_transfer_fail2. Qed.

(* reject law, full statement (any fault plan, banned subscribers included) *)
Definition c08_reject_no_change_statement : Prop :=
  forall dr nr sm f x o, inv x -> inv_num x -> known sm o ->
    err_reply (snd (step dr nr sm f x o)) (op_sid o) -> st (fst (step dr nr sm f x o)) = st x.
Theorem c08_reject_no_change_refuted : ~ c08_reject_no_change_statement.
Proof. intros H. destruct rbc_banned as [A B C D E]. apply E. apply (H _ _ _ _ _ _ A B C D). Qed.
Theorem c08_reject_banned_needed : exists x o, rejected_but_changed x NoFault o /\ trig_banned wit_sm x o.
Proof. eexists _, _. split; [exact rbc_banned|exact rbc_banned_is_trigger]. Qed.
Theorem c08_reject_fault_publish_needed : exists x o, rejected_but_changed x (FailAt 2) o.
Proof. eexists _, _. exact rbc_pub_fail2. Qed.
Theorem c08_reject_fault_delete_needed : exists x o, rejected_but_changed x (FailAt 2) o.
Proof. eexists _, _. exact rbc_del_fail2. Qed.

(* ack law, full statement; refuted by the acknowledged publish whose mark update failed (and by #2) *)
Definition c08_ack_implies_stored_statement : Prop :=
  forall dr nr sm f x o, inv x -> inv_num x -> known sm o ->
    ok_reply (snd (step dr nr sm f x o)) (op_sid o) -> coherent (fst (step dr nr sm f x o)).
Theorem c08_ack_implies_stored_refuted : ~ c08_ack_implies_stored_statement.
Proof.
  intros H. destruct ref_pub_fail3 as [A B C _ _ _ _ D]. apply D. apply (H _ _ _ _ _ _ A B C).
  left. exists 202, [(P_seq, 1)]. split; [vm_compute; auto|lia].
Qed.

Print Assumptions c08_coherent_init.
Print Assumptions c08_coherent_load.
Print Assumptions c08_inv_coherent.
Print Assumptions c08_step_coherent_partial.
Print Assumptions c08_run_coherent_partial.
Print Assumptions c08_reload_invisible.
Print Assumptions c08_reload_anywhere.
Print Assumptions c08_query_agree.
Print Assumptions c08_unload_invisible.
Print Assumptions c08_ack_implies_stored_partial.
Print Assumptions c08_reject_no_change_partial.
Print Assumptions c08_acs_ack_is_stored.
Print Assumptions c08_self_raise_setsub_stored.
Print Assumptions c08_self_raise_sub_stored.
Print Assumptions c08_getdesc_same_modulo_recv_lag.
Print Assumptions c08_note_keeps_recv_lag.
Print Assumptions c08_reported_marks_reload_invisible.
Print Assumptions c08_reject_no_change_refuted.
Print Assumptions c08_reject_banned_needed.
Print Assumptions c08_reject_fault_publish_needed.
Print Assumptions c08_reject_fault_delete_needed.
Print Assumptions c08_ack_implies_stored_refuted.
Print Assumptions c08_step_coherent_refuted.
Print Assumptions c08_trigger_note_read_needed.
Print Assumptions c08_trigger_readless_publisher_needed.
Print Assumptions c08_trigger_offline_setsub_needed.
Print Assumptions c08_fault_publish_seqid_needed.
Print Assumptions c08_fault_publish_marks_needed.
Print Assumptions c08_fault_delete_needed.
Print Assumptions c08_fault_owner_transfer_needed.

(* non-vacuity: a trigger-free history with accepted mutations (two attach, a publish by a reader,
   a received note, a soft delete, a permission change by the owner) satisfies safe_run, ends loaded
   and coherent with lastID = 1 *)
(* the hypotheses of c08_reload_anywhere hold for the empty topic of the witnesses *)
Example c08_ex_start : inv (mkState (wit_store 47 47) None 0) /\ inv_num (mkState (wit_store 47 47) None 0) /\ keys_st (mkState (wit_store 47 47) None 0).
Proof. destruct (wit_inv0 47 47 wit_wf_47_47) as [A B]. split; [exact A|]. split; [exact B|exact I]. Qed.

Example c08_ex_safe :
  let h := [(NoFault, OSub 1 [] false); (NoFault, OSub 2 [] false); (NoFault, OPub 1 7 false);
            (NoFault, ONote 2 K_recv 1); (NoFault, ODelMsg 2 [(1, 0)] false); (NoFault, OSetSub 1 2 [74; 82; 87]%N)] in
  safe_run del_ranges_i norm_ranges_i wit_sm (mkState (wit_store 47 47) None 0) h /\
  option_map c_lastid (ca (fst (wit_run 47 47 h))) = Some 1.
Proof. cbv zeta. split; [safe_tac|vm_compute; reflexivity]. Qed.

(* the hypotheses of the self-raise theorems are satisfiable: user 2 (JRWPA/JRWPA) attached through session 2
   asks JRWPAS for himself; the classifier says PB_t_raise_admin, the reply is acs=JRWPAS/JRWPAS, the row holds it *)
Example c08_ex_self_raise :
  perm_branch_c08c wit_sm wit_admin_state_c08c (OSetSub 2 0 m_JRWPAS_c08c) = PB_t_raise_admin /\
  snd (step_i wit_sm NoFault wit_admin_state_c08c (OSetSub 2 0 m_JRWPAS_c08c)) = [(2%N, CtrlAcs 200 0 63 63)] /\
  perm_branch_c08c wit_sm wit_owner_state_c08c (OSetSub 2 0 m_FULL_c08c) = PB_t_accept_raise.
Proof. split; [exact wit_admin_branch_c08c|]. split; [exact (proj1 wit_admin_result_c08c)|exact wit_owner_branch_c08c]. Qed.
