(* C18  Multi-row store updates of the SQL adapters are all-or-nothing.
   Theorems only.  The programs the theorems are applied to are regenerated from
   server/db/{mysql,postgres}/adapter.go on every run (coq/Gen/GenTx.v); the
   premise [wf_prog <f> = true] is discharged per function in coq/Gen/ObC18.v. *)
From Coq Require Import List Bool Arith String.
From Tinode Require Import Sys.TxIR Sys.TxIRProofs.
Import ListNotations.

(* The collecting check is sound for the oracle semantics: every program, every
   oracle (any number of failing statements, any loop counts, any branch). *)
Theorem c18_tx_atomic : forall p, wf_prog p = true -> forall o, atomic_run (exec p o) = true.
Proof. exact tx_atomic. Qed.
Print Assumptions c18_tx_atomic.

(* What an atomic run is, on the events the database driver sees. *)
Theorem c18_atomic_run_meaning : forall r, atomic_run r = true ->
  exists x, r_res r = Some x /\ all_or_nothing (r_trace r) x.
Proof. exact atomic_run_meaning. Qed.
Print Assumptions c18_atomic_run_meaning.

(* The property at full strength: for every well-formed transactional function
   and every oracle - in particular for every position of a single failing
   statement, a failing Begin or Commit, a connection lost from statement k on -
   the transaction is closed exactly once (or never begun); after a fault nothing
   is committed, a begun transaction is rolled back and a non-nil error is
   returned; a successful Commit is the last thing the driver sees and nil is
   returned; no rollback is silent; with no fault and no error raised by the code
   itself the transaction commits. *)
Theorem c18_all_or_nothing : forall p, wf_prog p = true -> forall o,
  exists x, r_res (exec p o) = Some x /\ all_or_nothing (r_trace (exec p o)) x.
Proof. intros p H o. exact (atomic_run_meaning _ (tx_atomic p H o)). Qed.
Print Assumptions c18_all_or_nothing.

(* The simulation behind it (kept as a theorem so that a change of the IR
   semantics which breaks it is reported under C18). *)
Theorem c18_collecting_semantics_sound : forall ctxrb sticky fuel o s nm st,
  In (abs (fst (cexec ctxrb sticky o nm s st)), snd (cexec ctxrb sticky o nm s st))
     (aexec ctxrb sticky fuel nm s (abs st))
  \/ stuck_in (aexec ctxrb sticky fuel nm s (abs st)).
Proof. exact aexec_sound. Qed.
Print Assumptions c18_collecting_semantics_sound.

(* ---------- non-vacuity: the idiom and the shadowing defect, by hand ---------- *)
Open Scope string_scope.

(* tx, err := Begin; if err != nil { return err }; defer rollback-if-err;
   _, err = Exec; if err != nil { return err }; return tx.Commit()   (unnamed result) *)
Definition ex_idiom : prog :=
  {| p_name := "example.idiom"; p_named := None; p_ctxrb := false; p_sticky := false;
     p_defers := [SIf (CNonNil 0) SRollback SSkip];
     p_body := SSeq (SBegin 0) (SSeq (SIf (CNonNil 0) (SReturn (EVar 0)) SSkip) (SSeq (SDefer 0)
              (SSeq (SExec (Some 0)) (SSeq (SIf (CNonNil 0) (SReturn (EVar 0)) SSkip)
              (SSeq (SCommit (Some 1)) (SReturn (EVar 1))))))) |}.

(* the same with the statement's error declared by := in an inner block (variable 2) *)
Definition ex_shadow : prog :=
  {| p_name := "example.shadow"; p_named := None; p_ctxrb := false; p_sticky := false;
     p_defers := [SIf (CNonNil 0) SRollback SSkip];
     p_body := SSeq (SBegin 0) (SSeq (SIf (CNonNil 0) (SReturn (EVar 0)) SSkip) (SSeq (SDefer 0)
              (SSeq (SExec (Some 2)) (SSeq (SIf (CNonNil 2) (SReturn (EVar 2)) SSkip)
              (SSeq (SCommit (Some 1)) (SReturn (EVar 1))))))) |}.

(* ... which a named result would repair: [return err2] assigns the variable the handler reads *)
Definition ex_shadow_named : prog :=
  {| p_name := "example.shadow_named"; p_named := Some 0; p_ctxrb := false; p_sticky := false;
     p_defers := p_defers ex_shadow; p_body := p_body ex_shadow |}.

Example c18_ex_idiom_wf : wf_prog ex_idiom = true.
Proof. vm_compute. reflexivity. Qed.
Example c18_ex_idiom_commit :
  r_trace (exec ex_idiom (oracle_of [])) = [EvBegin; EvExec 0; EvCommit] /\ r_res (exec ex_idiom (oracle_of [])) = Some VNil.
Proof. vm_compute. auto. Qed.
Example c18_ex_idiom_fault :
  r_trace (exec ex_idiom (oracle_of [0; 1])) = [EvBegin; EvExecFail 0; EvRollback] /\
  r_res (exec ex_idiom (oracle_of [0; 1])) = Some VFault.
Proof. vm_compute. auto. Qed.
Example c18_ex_shadow_not_wf : wf_prog ex_shadow = false.
Proof. vm_compute. reflexivity. Qed.
(* the failing statement returns its error, the transaction stays open *)
Example c18_ex_shadow_leak :
  r_trace (exec ex_shadow (oracle_of [0; 1])) = [EvBegin; EvExecFail 0] /\
  r_res (exec ex_shadow (oracle_of [0; 1])) = Some VFault /\
  atomic_run (exec ex_shadow (oracle_of [0; 1])) = false.
Proof. vm_compute. auto. Qed.
Example c18_ex_shadow_named_wf : wf_prog ex_shadow_named = true.
Proof. vm_compute. reflexivity. Qed.
Example c18_ex_unknown_rejected : wf_prog
  {| p_name := "example.unknown"; p_named := None; p_ctxrb := false; p_sticky := false; p_defers := [];
     p_body := SSeq (SReturn ENil) (SUnknown "go f(tx)") |} = false.
Proof. vm_compute. reflexivity. Qed.
