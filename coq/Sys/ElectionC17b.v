(* C17, part D: the partition guard of Session.dispatch and what the health-check
   branch of Cluster.run leaves behind for later vote requests.  Definitions only;
   the election/failover model itself is Sys/Election.v.

   Session.dispatch (server/session.go:464-612), statement by statement up to the
   call of the handler:

     if msg, resp = pluginFireHose(s, msg); ...       no plugin is configured: identity (not modelled)
     if msg.Extra == nil || msg.Extra.AsUser == "" {  use the session's own user
     } else if s.authLvl != auth.LevelRoot {          {ctrl 403}; return
     } else if ParseUserId(AsUser).IsZero() {         {ctrl 400}; return
     } else { ... }
     switch { case msg.Pub != nil: handler = ... ; ... ten cases ...
              default: {ctrl 400}; return }
     if globals.cluster.isPartitioned() {             {ctrl 502}; return      <- the guard
     }
     msg.sess = s; msg.init = true; handler(msg)

   The handler (with its checkVers/checkUser wrappers) is NOT modelled here: the
   outcome [Handler k] says that the guard was passed and the handler of kind k was
   called with msg.init = true. *)
From Coq Require Import List Bool Arith.
From Tinode Require Import Sys.Election.
Import ListNotations.

(* the ten request kinds of the switch, in the order of the source *)
Inductive kind_c17b := KPubD | KSubD | KLeaveD | KHiD | KLoginD | KGetD | KSetD | KDelD | KAccD | KNoteD.

Definition all_kinds_c17b : list kind_c17b :=
  [KPubD; KSubD; KLeaveD; KHiD; KLoginD; KGetD; KSetD; KDelD; KAccD; KNoteD].

(* msg.Extra.AsUser: absent or empty / a string ParseUserId accepts / any other string *)
Inductive obo_c17b := OboNoneD | OboValidD | OboInvalidD.

Record request_c17b := mkReqD {
  rq_kind : option kind_c17b;       (* None: none of the ten fields is set (default case) *)
  rq_obo : obo_c17b
}.

Inductive outcome_c17b :=
| RepliedD (code : nat)             (* exactly one {ctrl code} queued, dispatch returns, no handler called *)
| HandlerD (k : kind_c17b).         (* msg.sess = s; msg.init = true; handler(msg) *)

(* the switch and what follows it *)
Definition dispatch_kind_c17b (partitioned : bool) (r : request_c17b) : outcome_c17b :=
  match rq_kind r with
  | None => RepliedD 400
  | Some k => if partitioned then RepliedD 502 else HandlerD k
  end.

Definition dispatch_c17b (partitioned root : bool) (r : request_c17b) : outcome_c17b :=
  match rq_obo r with
  | OboNoneD => dispatch_kind_c17b partitioned r
  | OboValidD => if root then dispatch_kind_c17b partitioned r else RepliedD 403
  | OboInvalidD => if root then RepliedD 400 else RepliedD 403
  end.

(* a client request dispatched on node n of the cluster in state s *)
Definition client_request_c17b (cfg : config) (s : state) (n : node) (root : bool) (r : request_c17b) : outcome_c17b :=
  dispatch_c17b (is_partitioned cfg s n) root r.

(* does the request get as far as the switch with one of the ten kinds? *)
Definition well_formed_c17b (root : bool) (r : request_c17b) : bool :=
  match rq_kind r with
  | None => false
  | Some _ => match rq_obo r with OboNoneD => true | OboValidD => root | OboInvalidD => false end
  end.

(* the peers whose failCount is below failover.node_fail_after, as seen by node n *)
Definition below_limit_c17b (cfg : config) (l : local) (n : node) : list node :=
  filter (fun p => fail_count l p <? cfg_fail_limit cfg) (peers cfg n).

(* the healthCheck case does not take the stale branch *)
Definition accepts_c17b (l : local) (h : hmsg) : bool := negb (h_term h <? term l).

(* observables printed by the model runner for the correspondence check *)
Definition vote_answer_c17b (s : state) (c : node) (t : nat) (m : node) : option (bool * nat) :=
  match rpcs s c t m with
  | RepFlying (Granted rt) => Some (true, rt)
  | RepFlying (Denied rt) => Some (false, rt)
  | _ => None
  end.
