(* Lemmas about Sys/CallCat.v (C15: a call can be started only in a peer-to-peer topic). *)
From Coq Require Import ZArith NArith List Bool Lia.
From Tinode Require Import Sys.Call Sys.CallProofs Sys.CallCat.
Import ListNotations.
Open Scope Z_scope.

(* ------------------------------------------------------------------ *)
(* for the p2p category the functions with a category parameter are the ones of Sys/Call.v *)
Lemma sab_cat_p2p cfg st ms hid u r w c :
  save_and_broadcast_cat cfg CatP2P st ms hid u r w c = save_and_broadcast cfg st ms hid u r w c.
Proof.
  unfold save_and_broadcast_cat, save_and_broadcast, do_save. cbn [is_sys negb andb].
  destruct (writer st u); reflexivity.
Qed.

Lemma pub_p2p_is_invite cfg st s content w :
  mem s (attached st) = true ->
  step_raw cfg st (OInvite s content w) = pub_broadcast cfg CatP2P false false st s (Some w) None content.
Proof.
  intros Ha. cbn [step_raw]. rewrite Ha. cbn [negb]. unfold pub_broadcast. cbn [is_p2p negb].
  destruct (configured cfg); cbn [negb]; [|reflexivity].
  destruct (current st); [reflexivity|]. rewrite sab_cat_p2p. reflexivity.
Qed.

Lemma pub_p2p_is_pub cfg st s content :
  mem s (attached st) = true ->
  step_raw cfg st (OPub s content) = pub_broadcast cfg CatP2P false false st s None None content.
Proof.
  intros Ha. cbn [step_raw]. rewrite Ha. cbn [negb]. unfold pub_broadcast. rewrite sab_cat_p2p. reflexivity.
Qed.

Lemma note_p2p_is_event cfg st s e q p :
  step_raw cfg st (OEvent s e q p) =
    match session_note_call true q (mem s (attached st)) e with
    | NDrop => (st, [])
    | NAttachFirst => (st, [(s, FCtrl 409 None)])
    | NTopic => note_broadcast_call cfg false st s e q p
    | NHub => if loaded st then note_broadcast_call cfg false st s e q p else (st, [])
    end.
Proof.
  cbn [step_raw]. unfold session_note_call, note_broadcast_call. cbn [negb].
  destruct (q <=? 0); [reflexivity|].
  destruct (mem s (attached st)); cbn [orb]; [reflexivity|].
  destruct (hub_routed e); cbn [andb]; [|reflexivity].
  destruct (loaded st); reflexivity.
Qed.

(* ------------------------------------------------------------------ *)
(* the invitation gate outside p2p topics: from EVERY state, whatever the head says *)
Lemma pub_non_p2p_call_refused cfg c ina ro st s w repl content :
  is_p2p c = false ->
  pub_broadcast cfg c ina ro st s (Some w) repl content = (st, [(s, FCtrl (non_p2p_code cfg ina ro) None)]).
Proof.
  intros Hc. unfold pub_broadcast, non_p2p_code. rewrite Hc.
  destruct ina; [reflexivity|]. destruct ro; [reflexivity|].
  destruct (configured cfg); reflexivity.
Qed.

Lemma non_p2p_code_values cfg ina ro : In (non_p2p_code cfg ina ro) [503; 403; 501].
Proof.
  unfold non_p2p_code. destruct ina; [left; reflexivity|]. destruct ro; [right; left; reflexivity|].
  destruct (configured cfg); cbn [negb]; [right; left; reflexivity|right; right; left; reflexivity].
Qed.

Lemma cat_not_p2p c : c <> CatP2P -> is_p2p c = false.
Proof. destruct c; try reflexivity. intros H. contradiction H. reflexivity. Qed.

(* an ordinary publication (no head.webrtc) never touches the call state, in any category, and what it
   stores carries no head.webrtc *)
Definition plain (m : msg) : Prop := m_webrtc m = None.

Lemma sab_cat_cases cfg c st ms hid u r w ct :
  save_and_broadcast_cat cfg c st ms hid u r w ct = (st, [(ms, FCtrl 403 None)], false) \/
  save_and_broadcast_cat cfg c st ms hid u r w ct =
    (add_msg (new_msg cfg st ms u r w ct) st,
     (if hid then [(ms, FCtrl 202 (Some (lastid st + 1)))] else []) ++
       bcast_data cfg (add_msg (new_msg cfg st ms u r w ct) st) (new_msg cfg st ms u r w ct), true).
Proof.
  unfold save_and_broadcast_cat, do_save. destruct (negb (is_sys c) && negb (writer st u)); [left|right]; reflexivity.
Qed.

Lemma pub_plain_effect cfg c ina ro st s repl content st' os :
  pub_broadcast cfg c ina ro st s None repl content = (st', os) ->
  current st' = current st /\ timer st' = timer st /\ attached st' = attached st /\ users st' = users st /\
  loaded st' = loaded st /\
  (store st' = store st \/ exists m, plain m /\ store st' = m :: store st) /\
  (forall x f, In (x, f) os -> (exists code q, f = FCtrl code q /\ x = s) \/ exists m t, f = FData m t /\ plain m).
Proof.
  unfold pub_broadcast. intros H.
  destruct ina; [inv H; repeat split; auto; intros x f [E|[]]; inv E; left; eauto|].
  destruct ro; [inv H; repeat split; auto; intros x f [E|[]]; inv E; left; eauto|].
  destruct (sab_cat_cases cfg c st s true (user_of cfg s) repl None content) as [E|E]; rewrite E in H; inv H.
  - repeat split; auto. intros x f [E1|[]]; inv E1; left; eauto.
  - repeat split; auto.
    + right. eexists. split; [|reflexivity]. reflexivity.
    + intros x f [E1|Hin]; [inv E1; left; eauto|]. right.
      unfold bcast_data in Hin. apply in_map_iff in Hin. destruct Hin as [y [E1 _]]. inv E1.
      eexists. eexists. split; [reflexivity|reflexivity].
Qed.

(* a call is created by handlePubBroadcast only in a p2p topic (and only through the whole gate) *)
Lemma pub_call_created_only_p2p cfg c ina ro st s w repl content st' os :
  pub_broadcast cfg c ina ro st s w repl content = (st', os) ->
  current st = None -> current st' <> None ->
  is_p2p c = true /\ configured cfg = true /\ ina = false /\ ro = false /\ w <> None.
Proof.
  intros H Hc Hn. destruct w as [wt|].
  - destruct (is_p2p c) eqn:Hp.
    + unfold pub_broadcast in H. rewrite Hp in H.
      destruct ina; [inv H; contradiction|]. destruct ro; [inv H; contradiction|].
      destruct (configured cfg); [|inv H; contradiction].
      repeat split; auto. discriminate.
    + rewrite (pub_non_p2p_call_refused cfg c ina ro st s wt repl content Hp) in H. inv H. contradiction.
  - destruct (pub_plain_effect _ _ _ _ _ _ _ _ _ _ H) as [E _]. rewrite E in Hn. contradiction.
Qed.

(* handleCallEvent has no category test; without a call it does nothing *)
Lemma note_no_call cfg ina st s e q p :
  current st = None -> note_broadcast_call cfg ina st s e q p = (st, []).
Proof.
  intros Hc. unfold note_broadcast_call. destruct ina; [reflexivity|].
  destruct (lastid st <? q); [reflexivity|]. apply hce_stale. left. assumption.
Qed.

Lemma session_note_non_p2p q a e : session_note_call false q a e = NDrop.
Proof. reflexivity. Qed.

(* ------------------------------------------------------------------ *)
(* the world *)
Definition clean (st : state) : Prop := current st = None /\ timer st = false /\ Forall plain (store st).

Definition others_clean (w : world) : Prop :=
  forall k t, In (k, t) (w_others w) -> is_p2p (o_cat t) = false -> clean (o_st t).

Lemma in_update {A} k (f : A -> A) l k' v' :
  In (k', v') (update k f l) -> In (k', v') l \/ (k' = k /\ exists v0, lookup k l = Some v0 /\ v' = f v0).
Proof.
  induction l as [|[k0 v0] l IH]; cbn; [intros []|].
  destruct (N.eqb k k0) eqn:E.
  - apply N.eqb_eq in E. subst k0. intros [H|H].
    + inv H. right. split; [reflexivity|]. exists v0. auto.
    + left. right. assumption.
  - intros [H|H].
    + inv H. left. left. reflexivity.
    + destruct (IH H) as [H1|H1]; [left; right; assumption|right; assumption].
Qed.

Lemma lookup_in {A} k (l : list (N * A)) v : lookup k l = Some v -> In (k, v) l.
Proof.
  induction l as [|[k0 v0] l IH]; cbn; [discriminate|].
  destruct (N.eqb k k0) eqn:E.
  - apply N.eqb_eq in E. subst k0. intros H. inv H. left. reflexivity.
  - intros H. right. apply IH. assumption.
Qed.

Lemma clean_detach s st : clean st -> clean (set_attached (remove s (attached st)) st).
Proof. intros H. exact H. Qed.

Lemma others_clean_detach s w : others_clean w -> others_clean (mkWorld (w_p2p w) (detach_all s (w_others w))).
Proof.
  intros H k t Hin Hp. cbn [w_others] in Hin. unfold detach_all in Hin. apply in_map_iff in Hin.
  destruct Hin as [[k0 t0] [E Hin]]. cbn [fst snd] in E. injection E as E1 E2. subst k t.
  cbn [o_cat o_st] in *. apply clean_detach. exact (H k0 t0 Hin Hp).
Qed.

Lemma set_other_clean k st' w :
  others_clean w ->
  (forall t, lookup k (w_others w) = Some t -> is_p2p (o_cat t) = false -> clean st') ->
  others_clean (set_other k st' w).
Proof.
  intros H Hk k' t' Hin Hp. cbn [set_other w_others] in Hin.
  destruct (in_update _ _ _ _ _ Hin) as [H1|[E1 [t0 [H1 E2]]]]; [exact (H _ _ H1 Hp)|].
  subst k' t'. cbn [o_cat o_st] in *. exact (Hk t0 H1 Hp).
Qed.

(* a request addressed to a topic that is not p2p: answers and effect, from every world whose
   other topics carry no call *)
Definition other_out_ok (s : sid) (so : out) : Prop :=
  (fst so = s /\ exists code q, snd so = FCtrl code q) \/ exists m t, snd so = FData m t /\ plain m.

Lemma undead_incl w os so : In so (undead w os) -> In so os.
Proof. unfold undead. intros H. apply filter_In in H. tauto. Qed.

Lemma undead_single w s f : undead w [(s, f)] = [(s, f)] \/ undead w [(s, f)] = [].
Proof. unfold undead. cbn. destruct (negb (mem s (dead (w_p2p w)))); auto. Qed.

Lemma update_same k (l : list (N * otopic)) t :
  lookup k l = Some t -> update k (fun t0 => mkOT (o_cat t0) (o_owner t0) (o_st t)) l = l.
Proof.
  induction l as [|[k0 t0] l IH]; cbn; [discriminate|].
  destruct (N.eqb k k0) eqn:E.
  - intros H. injection H as H. subst t0. destruct t; reflexivity.
  - intros H. rewrite (IH H). reflexivity.
Qed.

Lemma set_other_same k w t : lookup k (w_others w) = Some t -> set_other k (o_st t) w = w.
Proof. intros H. unfold set_other. rewrite (update_same _ _ _ H). destruct w; reflexivity. Qed.

Local Opaque undead.

Definition xpub_other_statement (cfg : config) (w : world) (s : sid) (k : N) (wt : option N) (w' : world) (os : list out) : Prop :=
  w_p2p w' = w_p2p w /\
  Forall (other_out_ok s) os /\
  (wt <> None -> w' = w) /\
  (wt <> None -> os = [] \/ exists code, os = [(s, FCtrl code None)] /\ In code [409; 503; 403; 501]).

Lemma xpub_other cfg w s k content wt repl w' os t :
  lookup k (w_others w) = Some t -> is_p2p (o_cat t) = false ->
  wstep cfg w (XPub s k content wt repl) = (w', os) ->
  xpub_other_statement cfg w s k wt w' os.
Proof.
  intros Hl Hp H. cbn [wstep] in H. unfold xpub_other_statement.
  destruct (negb (alive cfg w s)).
  { injection H as E1 E2. subst w' os. repeat split; auto. }
  rewrite Hl in H.
  assert (H409 : (w, [(s, FCtrl 409 None)]) = (w', os) -> xpub_other_statement cfg w s k wt w' os).
  { intros E. injection E as E1 E2. subst w' os. repeat split; auto.
    - constructor; [|constructor]. left. cbn. split; [reflexivity|eauto].
    - intros _. right. exists 409. split; [reflexivity|left; reflexivity]. }
  assert (Htopic : (let '(st', os0) := pub_broadcast cfg (o_cat t) false false (o_st t) s wt repl content in
                    (set_other k st' w, undead w os0)) = (w', os) -> xpub_other_statement cfg w s k wt w' os).
  { destruct wt as [wv|].
    - rewrite (pub_non_p2p_call_refused cfg (o_cat t) false false (o_st t) s wv repl content Hp).
      intros E. injection E as E1 E2. subst w' os. rewrite (set_other_same _ _ _ Hl). repeat split; auto.
      + apply Forall_forall. intros so Hin. apply undead_incl in Hin. destruct Hin as [E|[]]. subst so.
        left. cbn. split; [reflexivity|eauto].
      + intros _.
        match goal with |- context [undead w [(s, ?f)]] => destruct (undead_single w s f) as [E|E]; rewrite E end; [|left; reflexivity].
        right. eexists. split; [reflexivity|]. right. pose proof (non_p2p_code_values cfg false false) as X. exact X.
    - destruct (pub_broadcast cfg (o_cat t) false false (o_st t) s None repl content) as [st' os0] eqn:Hpb.
      intros E. injection E as E1 E2. subst w' os.
      destruct (pub_plain_effect _ _ _ _ _ _ _ _ _ _ Hpb) as [_ [_ [_ [_ [_ [_ Hos]]]]]].
      repeat split; auto; try (intros X; contradiction X; reflexivity).
      apply Forall_forall. intros [x f] Hin. apply undead_incl in Hin. destruct (Hos x f Hin) as [[code [q [E1 E2]]]|[m [tt [E1 E2]]]].
      + left. cbn. subst. split; [reflexivity|eauto].
      + right. cbn. eauto. }
  unfold xpub_other_statement in *.
  destruct (publish_route (att_other cfg w t s) (is_sys (o_cat t))); auto.
Qed.

Local Transparent undead.

Lemma xnote_other cfg w s k e q p t :
  lookup k (w_others w) = Some t -> is_p2p (o_cat t) = false ->
  wstep cfg w (XNote s k e q p) = (w, []).
Proof.
  intros Hl Hp. cbn [wstep]. destruct (negb (alive cfg w s)); [reflexivity|].
  rewrite Hl, Hp. reflexivity.
Qed.

Lemma xnote_unknown cfg w s k e q p :
  lookup k (w_others w) = None -> wstep cfg w (XNote s k e q p) = (w, []).
Proof. intros Hl. cbn [wstep]. destruct (negb (alive cfg w s)); [reflexivity|]. rewrite Hl. reflexivity. Qed.

(* requests to the other topics never touch the p2p topic; requests to the p2p topic are Call.step *)
Lemma wstep_old cfg w o :
  w_p2p (fst (wstep cfg w (XOld o))) = fst (step cfg (w_p2p w) o) /\ snd (wstep cfg w (XOld o)) = snd (step cfg (w_p2p w) o).
Proof. cbn [wstep]. destruct (step cfg (w_p2p w) o). split; reflexivity. Qed.

Lemma wstep_x_keeps_p2p cfg w x :
  (forall o, x <> XOld o) -> w_p2p (fst (wstep cfg w x)) = w_p2p w.
Proof.
  intros Hx. destruct x as [o|s k c wt r|s k e q p]; [contradiction (Hx o); reflexivity| |]; cbn [wstep].
  - destruct (negb (alive cfg w s)); [reflexivity|]. destruct (lookup k (w_others w)) as [t|]; [|reflexivity].
    destruct (publish_route (att_other cfg w t s) (is_sys (o_cat t))); try reflexivity;
      destruct (pub_broadcast cfg (o_cat t) false false (o_st t) s wt r c); reflexivity.
  - destruct (negb (alive cfg w s)); [reflexivity|]. destruct (lookup k (w_others w)) as [t|]; [|reflexivity].
    destruct (session_note_call (is_p2p (o_cat t)) q (att_other cfg w t s) e); try reflexivity.
    + destruct (note_broadcast_call cfg false (o_st t) s e q p); reflexivity.
    + destruct (loaded (o_st t)); [|reflexivity]. destruct (note_broadcast_call cfg false (o_st t) s e q p); reflexivity.
Qed.

(* the invariant: no topic other than a p2p topic ever has a call, an armed timer or a stored
   message with head.webrtc *)
Lemma pub_keeps_clean cfg c st s wt r ct st' os :
  is_p2p c = false -> clean st -> pub_broadcast cfg c false false st s wt r ct = (st', os) -> clean st'.
Proof.
  intros Hp Hc H. destruct wt as [wv|].
  - rewrite (pub_non_p2p_call_refused cfg c false false st s wv r ct Hp) in H. inv H. exact Hc.
  - destruct (pub_plain_effect _ _ _ _ _ _ _ _ _ _ H) as [E1 [E2 [_ [_ [_ [E3 _]]]]]].
    destruct Hc as [C1 [C2 C3]]. unfold clean. rewrite E1, E2. repeat split; auto.
    destruct E3 as [E3|[m [Hm E3]]]; rewrite E3; [assumption|constructor; assumption].
Qed.

Lemma wstep_clean cfg w x : others_clean w -> others_clean (fst (wstep cfg w x)).
Proof.
  intros H. destruct x as [o|s k c wt r|s k e q p]; cbn [wstep].
  - destruct (step cfg (w_p2p w) o) as [st' os]. cbn [fst].
    assert (D : others_clean (mkWorld st' (w_others w))) by (intros k t Hin Hp; exact (H k t Hin Hp)).
    destruct o; try exact D.
    destruct (alive cfg w s); [|exact D].
    intros k t Hin Hp. exact (others_clean_detach s w H k t Hin Hp).
  - destruct (negb (alive cfg w s)); [exact H|]. destruct (lookup k (w_others w)) as [t|] eqn:Hl; [|exact H].
    assert (Htopic : others_clean (fst (let '(st', os0) := pub_broadcast cfg (o_cat t) false false (o_st t) s wt r c in
                                        (set_other k st' w, undead w os0)))).
    { destruct (pub_broadcast cfg (o_cat t) false false (o_st t) s wt r c) as [st' os0] eqn:Hpb. cbn [fst].
      apply set_other_clean; [exact H|]. intros t0 Hl0 Hp0. rewrite Hl in Hl0. inv Hl0.
      exact (pub_keeps_clean _ _ _ _ _ _ _ _ _ Hp0 (H k t0 (lookup_in _ _ _ Hl) Hp0) Hpb). }
    destruct (publish_route (att_other cfg w t s) (is_sys (o_cat t))); [exact Htopic|exact Htopic|exact H].
  - destruct (negb (alive cfg w s)); [exact H|]. destruct (lookup k (w_others w)) as [t|] eqn:Hl; [|exact H].
    destruct (is_p2p (o_cat t)) eqn:Hp; [|exact H].
    assert (Htopic : others_clean (fst (let '(st', os0) := note_broadcast_call cfg false (o_st t) s e q p in
                                        (set_other k st' w, undead w os0)))).
    { destruct (note_broadcast_call cfg false (o_st t) s e q p) as [st' os0]. cbn [fst].
      apply set_other_clean; [exact H|]. intros t0 Hl0 Hp0. rewrite Hl in Hl0. inv Hl0. rewrite Hp in Hp0. discriminate. }
    destruct (session_note_call true q (att_other cfg w t s) e); [exact H|exact Htopic| |exact H].
    destruct (loaded (o_st t)); [exact Htopic|exact H].
Qed.

Lemma wrun_clean cfg xs : forall w, others_clean w -> others_clean (wfinal cfg w xs).
Proof.
  unfold wfinal. induction xs as [|x r IH]; intros w H; cbn [wrun]; [exact H|].
  destruct (wstep cfg w x) as [w1 os] eqn:E. specialize (IH w1).
  destruct (wrun cfg w1 r) as [w2 oss]. cbn [fst] in *. apply IH.
  replace w1 with (fst (wstep cfg w x)) by (rewrite E; reflexivity). apply wstep_clean. exact H.
Qed.

(* the initial worlds of the runner are clean *)
Lemma init_other_clean c owner ws atts ld : clean (o_st (init_other c owner ws atts ld)).
Proof. unfold clean. cbn. repeat split; constructor. Qed.
