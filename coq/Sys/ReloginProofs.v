(* Lemmas about Sys/Relogin.v: what the token handed back by {login} is, as a function of
   the secret presented.  Used by Props/PropC12.v. *)
From Coq Require Import NArith ZArith List Bool Lia ZifyBool ZifyNat ZifyN.
From Tinode Require Import Pure.Token Pure.TokenProofs Sys.Relogin.
Import ListNotations.
Open Scope Z_scope.

(* ---------------- feature bits ---------------- *)

Lemma has_feature_lor_l f g bit : has_feature f bit = true -> has_feature (N.lor f g) bit = true.
Proof.
  unfold has_feature. rewrite !negb_true_iff, !N.eqb_neq. intros H E. apply H.
  apply N.bits_inj_iff. intros n. rewrite N.bits_0.
  assert (X : N.testbit (N.land (N.lor f g) bit) n = false) by (rewrite E; apply N.bits_0).
  rewrite N.land_spec, N.lor_spec in X. rewrite N.land_spec.
  destruct (N.testbit f n), (N.testbit bit n); cbn in *; congruence.
Qed.

Lemma has_feature_mod16 f : has_feature (f mod 2 ^ 16) feature_nologin = has_feature f feature_nologin.
Proof.
  unfold has_feature, feature_nologin. f_equal. f_equal.
  apply N.bits_inj_iff. intros n. rewrite !N.land_spec.
  destruct (N.testbit 2 n) eqn:B; [|now rewrite !andb_false_r].
  rewrite !andb_true_r. apply N.mod_pow2_bits_low.
  destruct (N.ltb_spec n 16) as [L|L]; [exact L|].
  exfalso. assert (n = 1)%N.
  { destruct n as [|[p|p|]]; cbn in B; try discriminate B; reflexivity. }
  subst. lia.
Qed.

Lemma nologin_not_validated_bit f :
  has_feature (N.lor f feature_validated) feature_nologin = has_feature f feature_nologin.
Proof.
  unfold has_feature, feature_nologin, feature_validated. f_equal. f_equal.
  apply N.bits_inj_iff. intros n. rewrite !N.land_spec, N.lor_spec.
  destruct n as [|p]; [cbn; now rewrite !andb_false_r|].
  replace (N.testbit 1 (N.pos p)) with false; [now rewrite orb_false_r|].
  symmetry. destruct p; reflexivity.
Qed.

(* ---------------- arithmetic of the re-issued expiry ---------------- *)

(* a whole-second instant plus a delay below a second minus the rounding: same second *)
Lemma same_second E d :
  0 <= E -> 0 <= d < 999500000 -> unix_sec (round_ms (E * second + d)) = E.
Proof.
  intros HE Hd. unfold unix_sec, round_ms, second.
  destruct (2 * ((E * 1000000000 + d) mod 1000000) <? 1000000) eqn:B;
    Z.div_mod_to_equations; lia.
Qed.

(* without the promptness premise: the excess is at most the delay plus the rounding *)
Lemma later_second_bound E d :
  0 <= E -> 0 <= d -> unix_sec (round_ms (E * second + d)) * second <= E * second + d + 500000.
Proof.
  intros HE Hd. pose proof (round_ms_bounds (E * second + d)) as R.
  unfold unix_sec, second in *. Z.div_mod_to_equations; lia.
Qed.

Lemma mod32_le x : 0 <= x -> x mod 2 ^ 32 <= x.
Proof. intros H. apply Z.mod_le; [exact H|reflexivity]. Qed.

(* ---------------- the token GenSecret produced ---------------- *)

Section ReloginThms.
Variable mac : list N -> list N -> list N.

Lemma tok_fields_data tok : tok_fields tok = decode_fields (tok_data tok).
Proof. reflexivity. Qed.

Lemma gen_secret_fields key sn deflt now g tok exp :
  gen_secret mac key sn deflt now g = Some (tok, exp) ->
  exists lt, effective_lifetime deflt g = Some lt /\ exp = round_ms (now + lt) /\
             tok_fields tok = issue_fields sn exp g.
Proof.
  unfold gen_secret. destruct (effective_lifetime deflt g) as [lt|]; [|discriminate].
  intros H. injection H as <- <-. exists lt. repeat split.
  rewrite tok_fields_data, issued_data. apply issue_fields_fix.
Qed.

(* everything known about a record the token authenticator returned *)
Lemma token_rec_inv c clk tok rec :
  token_rec mac c clk tok = ARec rec ->
  let f := tok_fields tok in
  g_uid rec = f_uid f /\ g_level rec = Z.of_N (f_level f) /\ g_features rec = f_features f /\
  g_lifetime rec = tok_expiry tok * second - t_until clk /\
  (f_level f <= 30)%N /\
  t_auth clk + second <= tok_expiry tok * second.
Proof.
  unfold token_rec. destruct (authenticate mac _ _ _ tok) as [r|e] eqn:A; [|discriminate].
  intros H. injection H as <-. apply accept_inv in A. cbv zeta in A.
  destruct A as (_ & _ & L & _ & X & ->). cbn. repeat split; assumption.
Qed.

(* ---------------- one login with a restricted (no-login) secret ---------------- *)

(* the record is restricted: the session is left as it was, whatever the branch *)
Lemma on_login_restricted_session c s now rec missing :
  has_feature (g_features rec) feature_nologin = true ->
  fst (on_login mac c s now rec missing) = s.
Proof.
  intros R. unfold on_login. destruct missing; [reflexivity|]. rewrite R. reflexivity.
Qed.

(* ... and the record handed to GenSecret keeps Uid, AuthLevel, the no-login bit and the Lifetime *)
Lemma on_login_restricted_token c s now rec missing s' code tok exp :
  has_feature (g_features rec) feature_nologin = true ->
  on_login mac c s now rec missing = (s', mkLO code (Some (tok, exp))) ->
  exists feat, has_feature feat feature_nologin = true /\
    gen_secret mac (tc_key c) (tc_serial c) (tc_lifetime c) now
      (mkG (g_uid rec) (g_level rec) feat (g_lifetime rec)) = Some (tok, exp).
Proof.
  intros R. unfold on_login. destruct missing.
  - intros H. injection H as _ _ G. exists (g_features rec). split; assumption.
  - rewrite R. cbn [negb]. intros H. injection H as _ _ G.
    exists (N.lor (g_features rec) feature_validated). split; [|exact G].
    now apply has_feature_lor_l.
Qed.

Lemma login_token_inv c env s clk tok s' code tk :
  login mac c env s clk (SecToken tok) = (s', mkLO code (Some tk)) ->
  exists rec, token_rec mac c clk tok = ARec rec /\ s_uid s = 0%N /\
    on_login mac c s (t_gen clk) rec
      (negb (has_feature (g_features rec) feature_validated) && le_unvalidated env)
    = (s', mkLO code (Some tk)).
Proof.
  unfold login. destruct (s_uid s =? 0)%N eqn:U; cbn [negb]; [|discriminate].
  cbn [authenticate_secret]. destruct (token_rec mac c clk tok) as [rec|] eqn:T; [|discriminate].
  destruct (le_state_ok env); cbn [negb]; [|discriminate].
  intros H. exists rec. repeat split; [now apply N.eqb_eq|exact H].
Qed.

(* presenting a restricted token never authenticates the session: every branch of login *)
Lemma restricted_never_authenticates c env s clk tok :
  tok_restricted tok = true ->
  fst (login mac c env s clk (SecToken tok)) = s.
Proof.
  intros R. unfold login. destruct (s_uid s =? 0)%N; cbn [negb]; [|reflexivity].
  cbn [authenticate_secret]. destruct (token_rec mac c clk tok) as [rec|] eqn:T; [|reflexivity].
  destruct (le_state_ok env); cbn [negb]; [|reflexivity].
  apply on_login_restricted_session.
  apply token_rec_inv in T. cbv zeta in T. destruct T as (_ & _ & F & _). rewrite F. exact R.
Qed.

(* the expiry second of the token handed back, for any clock: never later than the presented
   expiry plus the time the login itself took (plus the rounding) *)
Lemma restricted_step_general c env s clk tok s' code tok' exp :
  tok_restricted tok = true ->
  0 <= t_auth clk -> t_until clk <= t_gen clk -> t_until clk < tok_expiry tok * second ->
  login mac c env s clk (SecToken tok) = (s', mkLO code (Some (tok', exp))) ->
  s' = s /\ tok_restricted tok' = true /\
  f_uid (tok_fields tok') = (f_uid (tok_fields tok) mod 2 ^ 64)%N /\
  f_level (tok_fields tok') = f_level (tok_fields tok) /\
  tok_expiry tok' * second <= tok_expiry tok * second + (t_gen clk - t_until clk) + 500000.
Proof.
  intros R H0 Hug Hlt L.
  pose proof (restricted_never_authenticates c env s clk tok R) as S. rewrite L in S. cbn in S.
  apply login_token_inv in L. destruct L as (rec & T & _ & O).
  apply token_rec_inv in T. cbv zeta in T. destruct T as (Tu & Tl & Tf & Tlt & Tlv & Texp).
  assert (Rr : has_feature (g_features rec) feature_nologin = true) by (rewrite Tf; exact R).
  apply (on_login_restricted_token _ _ _ _ _ _ _ _ _ Rr) in O. destruct O as (feat & Rf & G).
  apply gen_secret_fields in G. destruct G as (lt & EL & -> & F).
  unfold effective_lifetime in EL. cbn [g_lifetime] in EL. rewrite Tlt in EL.
  destruct (_ =? 0) eqn:Z0; [lia|]. destruct (_ <? 0) eqn:Z1; [lia|]. injection EL as <-.
  split; [exact S|]. unfold tok_restricted, tok_expiry. rewrite F.
  unfold issue_fields. cbn [f_uid f_expires f_level f_features g_uid g_level g_features].
  split; [rewrite has_feature_mod16; exact Rf|]. split; [now rewrite Tu|]. split.
  - rewrite Tl. change (2 ^ 16) with 65536. rewrite Z.mod_small by lia. apply N2Z.id.
  - fold (tok_expiry tok). set (E := tok_expiry tok) in *.
    assert (HE : 0 <= E) by (unfold E, tok_expiry; lia).
    replace (t_gen clk + (E * second - t_until clk)) with (E * second + (t_gen clk - t_until clk)) by lia.
    set (d := t_gen clk - t_until clk) in *.
    pose proof (later_second_bound E d HE ltac:(lia)) as B.
    assert (P : 0 <= unix_sec (round_ms (E * second + d))).
    { pose proof (round_ms_bounds (E * second + d)). unfold unix_sec, second in *.
      apply Z.div_pos; lia. }
    pose proof (mod32_le _ P). pose proof (Z.mod_pos_bound (unix_sec (round_ms (E * second + d))) (2 ^ 32) eq_refl).
    rewrite Z2N.id by lia. unfold second in *. lia.
Qed.

(* prompt login: the token handed back for a restricted token is restricted, for the same
   user and level, and expires in the very second the presented token expires (never later) *)
Lemma restricted_step c env s clk tok s' code tok' exp :
  tok_restricted tok = true -> prompt clk ->
  login mac c env s clk (SecToken tok) = (s', mkLO code (Some (tok', exp))) ->
  s' = s /\ tok_restricted tok' = true /\
  f_uid (tok_fields tok') = (f_uid (tok_fields tok) mod 2 ^ 64)%N /\
  f_level (tok_fields tok') = f_level (tok_fields tok) /\
  tok_expiry tok' <= tok_expiry tok /\
  (tok_expiry tok < 2 ^ 32 -> tok_expiry tok' = tok_expiry tok).
Proof.
  intros R (P0 & P1 & P2 & P3) L.
  assert (X : t_auth clk + second <= tok_expiry tok * second).
  { pose proof L as L'. apply login_token_inv in L'. destruct L' as (rec & T & _).
    apply token_rec_inv in T. cbv zeta in T. tauto. }
  assert (Hlt : t_until clk < tok_expiry tok * second) by (unfold second in *; lia).
  pose proof L as L0.
  apply (restricted_step_general _ _ _ _ _ _ _ _ _ R P0 P2 Hlt) in L.
  destruct L as (S & R' & U & Lv & _). repeat split; try assumption.
  - (* exact second *)
    apply login_token_inv in L0. destruct L0 as (rec & T & _ & O).
    apply token_rec_inv in T. cbv zeta in T. destruct T as (Tu & Tl & Tf & Tlt & Tlv & Texp).
    assert (Rr : has_feature (g_features rec) feature_nologin = true) by (rewrite Tf; exact R).
    apply (on_login_restricted_token _ _ _ _ _ _ _ _ _ Rr) in O. destruct O as (feat & Rf & G).
    apply gen_secret_fields in G. destruct G as (lt & EL & -> & F).
    unfold effective_lifetime in EL. cbn [g_lifetime] in EL. rewrite Tlt in EL.
    destruct (_ =? 0) eqn:Z0; [lia|]. destruct (_ <? 0) eqn:Z1; [lia|]. injection EL as <-.
    unfold tok_expiry at 1. rewrite F. unfold issue_fields. cbn [f_expires].
    set (E := tok_expiry tok) in *.
    assert (HE : 0 <= E) by (unfold E, tok_expiry; lia).
    replace (t_gen clk + (E * second - t_until clk)) with (E * second + (t_gen clk - t_until clk)) by lia.
    rewrite same_second by lia.
    pose proof (Z.mod_pos_bound E (2 ^ 32) eq_refl). pose proof (mod32_le E HE).
    rewrite Z2N.id by lia. lia.
  - intros Hr.
    apply login_token_inv in L0. destruct L0 as (rec & T & _ & O).
    apply token_rec_inv in T. cbv zeta in T. destruct T as (Tu & Tl & Tf & Tlt & Tlv & Texp).
    assert (Rr : has_feature (g_features rec) feature_nologin = true) by (rewrite Tf; exact R).
    apply (on_login_restricted_token _ _ _ _ _ _ _ _ _ Rr) in O. destruct O as (feat & Rf & G).
    apply gen_secret_fields in G. destruct G as (lt & EL & -> & F).
    unfold effective_lifetime in EL. cbn [g_lifetime] in EL. rewrite Tlt in EL.
    destruct (_ =? 0) eqn:Z0; [lia|]. destruct (_ <? 0) eqn:Z1; [lia|]. injection EL as <-.
    unfold tok_expiry at 1. rewrite F. unfold issue_fields. cbn [f_expires].
    set (E := tok_expiry tok) in *.
    assert (HE : 0 <= E) by (unfold E, tok_expiry; lia).
    replace (t_gen clk + (E * second - t_until clk)) with (E * second + (t_gen clk - t_until clk)) by lia.
    rewrite same_second by lia.
    rewrite Z.mod_small by lia. apply Z2N.id. lia.
Qed.

(* ---------------- arbitrary chains of logins ---------------- *)

(* [chain tok0 tok]: tok is tok0, or the token handed back by a prompt login (any session,
   any environment, any instant) that presented a token of the chain *)
Inductive chain (c : tcfg) : list N -> list N -> Prop :=
| chain_refl tok : chain c tok tok
| chain_step tok0 tok env s clk s' code tok' exp :
    chain c tok0 tok -> prompt clk ->
    login mac c env s clk (SecToken tok) = (s', mkLO code (Some (tok', exp))) ->
    chain c tok0 tok'.

Lemma chain_restricted c tok0 tok :
  chain c tok0 tok -> tok_restricted tok0 = true ->
  tok_restricted tok = true /\ tok_expiry tok <= tok_expiry tok0 /\
  f_level (tok_fields tok) = f_level (tok_fields tok0) /\
  ((f_uid (tok_fields tok0) < 2 ^ 64)%N -> f_uid (tok_fields tok) = f_uid (tok_fields tok0)).
Proof.
  intros C R0. induction C as [tok|tok0 tok env s clk s' code tok' exp C IH P L].
  - repeat split; [exact R0|lia].
  - destruct (IH R0) as (R & E & Lv & U).
    destruct (restricted_step _ _ _ _ _ _ _ _ _ R P L) as (_ & R' & U' & Lv' & E' & _).
    repeat split; [exact R'|lia|congruence|].
    intros B. rewrite U', (U B). apply N.mod_small. exact B.
Qed.

(* no token of the chain is accepted at or after the expiry instant of its root *)
Lemma chain_never_outlives c tok0 tok key sn now r :
  chain c tok0 tok -> tok_restricted tok0 = true ->
  authenticate mac key sn now tok = TOk r ->
  now + second <= tok_expiry tok0 * second.
Proof.
  intros C R0 A. destruct (chain_restricted _ _ _ C R0) as (_ & E & _).
  apply accept_inv in A. cbv zeta in A. destruct A as (_ & _ & _ & _ & X & _).
  change (Z.of_N (f_expires (decode_fields (tok_data tok)))) with (tok_expiry tok) in X.
  unfold second in *. lia.
Qed.

Lemma chain_trans c a b d : chain c a b -> chain c b d -> chain c a d.
Proof.
  intros A B. induction B as [tok|b tok env s clk s' code tok' exp B IH P L]; [exact A|].
  exact (chain_step c a tok env s clk s' code tok' exp (IH A) P L).
Qed.

(* ---------------- histories ---------------- *)

Lemma hist_nth c reqs : forall done k r,
  nth_error reqs k = Some r ->
  nth_error (hist mac c done reqs) (length done + k) =
  Some (hstep mac c (firstn (length done + k) (hist mac c done reqs)) r)
  /\ firstn (length done) (hist mac c done reqs) = done.
Proof.
  induction reqs as [|r0 rest IH]; intros done k r H; [destruct k; discriminate|].
  cbn [hist]. destruct k as [|k].
  - injection H as ->.
    destruct rest as [|r1 rest'].
    + cbn [hist]. rewrite Nat.add_0_r. split.
      * rewrite nth_error_app2 by lia. rewrite Nat.sub_diag. cbn.
        rewrite firstn_app, Nat.sub_diag, firstn_all. cbn. now rewrite app_nil_r.
      * rewrite firstn_app, Nat.sub_diag, firstn_all. cbn. now rewrite app_nil_r.
    + destruct (IH (done ++ [hstep mac c done r]) 0%nat r1 eq_refl) as [_ F].
      rewrite app_length in F. cbn [length] in F.
      assert (F1 : firstn (length done) (hist mac c (done ++ [hstep mac c done r]) (r1 :: rest')) = done).
      { replace (length done) with (Nat.min (length done) (length done + 1)) by lia.
        rewrite <- firstn_firstn, F, firstn_app, Nat.sub_diag, firstn_all. cbn. now rewrite app_nil_r. }
      assert (F2 : nth_error (hist mac c (done ++ [hstep mac c done r]) (r1 :: rest')) (length done)
                   = Some (hstep mac c done r)).
      { rewrite <- (firstn_skipn (length done + 1) (hist mac c (done ++ [hstep mac c done r]) (r1 :: rest'))), F.
        rewrite nth_error_app1 by (rewrite app_length; cbn; lia).
        rewrite nth_error_app2 by lia. now rewrite Nat.sub_diag. }
      rewrite Nat.add_0_r. split; [|exact F1]. rewrite F1. exact F2.
  - cbn [nth_error] in H.
    destruct (IH (done ++ [hstep mac c done r0]) k r H) as [N F].
    rewrite app_length in N, F. cbn [length] in N, F.
    replace (length done + S k)%nat with (length done + 1 + k)%nat by lia. split; [exact N|].
    replace (length done) with (Nat.min (length done) (length done + 1)) by lia.
    rewrite <- firstn_firstn, F, firstn_app, Nat.sub_diag, firstn_all. cbn. now rewrite app_nil_r.
Qed.

Lemma history_nth c reqs k r :
  nth_error reqs k = Some r ->
  nth_error (history mac c reqs) k = Some (hstep mac c (firstn k (history mac c reqs)) r).
Proof. intros H. exact (proj1 (hist_nth c reqs [] k r H)). Qed.

(* [descends reqs i k]: login k presents the token handed back by login j < k, which presents the
   token handed back by ... login i *)
Inductive descends (reqs : list lreq) : nat -> nat -> Prop :=
| desc_refl i : descends reqs i i
| desc_step i j k r : descends reqs i j -> nth_error reqs k = Some r -> rq_src r = Earlier j ->
    (j < k)%nat -> descends reqs i k.

Lemma nth_firstn_lt {A} (l : list A) j k d : (j < k)%nat -> nth j (firstn k l) d = nth j l d.
Proof.
  revert j k. induction l as [|x l IH]; intros j k H; [now rewrite firstn_nil|].
  destruct k; [lia|]. destruct j; [reflexivity|]. cbn. apply IH. lia.
Qed.

(* in every history whose logins are processed promptly: if login k descends from login i and both
   handed back a token, the two tokens are related by [chain] *)
Lemma history_chain c reqs i k ti tk :
  (forall r, In r reqs -> prompt (rq_clk r)) ->
  descends reqs i k ->
  out_tok (nth i (history mac c reqs) no_out) = Some ti ->
  out_tok (nth k (history mac c reqs) no_out) = Some tk ->
  chain c ti tk.
Proof.
  intros P D. revert ti tk. induction D as [i|i j k r D IH N S L]; intros ti tk Hi Hk.
  - rewrite Hi in Hk. injection Hk as <-. apply chain_refl.
  - pose proof (history_nth c reqs k r N) as E.
    rewrite (nth_error_nth _ _ no_out E) in Hk.
    unfold hstep, presented in Hk. rewrite S, (nth_firstn_lt _ _ _ _ L) in Hk.
    destruct (out_tok (nth j (history mac c reqs) no_out)) as [tj|] eqn:Hj.
    + specialize (IH ti tj Hi eq_refl).
      destruct (login mac c (rq_env r) (rq_sess r) (rq_clk r) (SecToken tj)) as [s' [code [[t e]|]]] eqn:Lg;
        unfold out_tok in Hk; cbn in Hk; [|discriminate]. injection Hk as ->.
      apply (chain_step c ti tj (rq_env r) (rq_sess r) (rq_clk r) s' code tk e IH); [|exact Lg].
      apply P. eapply nth_error_In; exact N.
    + exfalso. unfold out_tok in Hk.
      assert (X : lo_token (snd (login mac c (rq_env r) (rq_sess r) (rq_clk r) (SecToken []))) = None).
      { unfold login. destruct (s_uid (rq_sess r) =? 0)%N; cbn [negb]; [|reflexivity].
        cbn [authenticate_secret]. unfold token_rec, authenticate. cbn. reflexivity. }
      rewrite X in Hk. discriminate.
Qed.

(* (i)+(ii) over histories *)
Lemma history_restricted c reqs i k ti tk :
  (forall r, In r reqs -> prompt (rq_clk r)) ->
  descends reqs i k ->
  out_tok (nth i (history mac c reqs) no_out) = Some ti ->
  out_tok (nth k (history mac c reqs) no_out) = Some tk ->
  tok_restricted ti = true ->
  tok_restricted tk = true /\ tok_expiry tk <= tok_expiry ti.
Proof.
  intros P D Hi Hk R. pose proof (history_chain c reqs i k ti tk P D Hi Hk) as C.
  destruct (chain_restricted c ti tk C R) as (Rk & E & _). split; assumption.
Qed.

(* a login of a history that presents a restricted token handed back earlier leaves its session alone *)
Lemma history_never_authenticates c reqs j k r tj :
  nth_error reqs k = Some r -> rq_src r = Earlier j -> (j < k)%nat ->
  out_tok (nth j (history mac c reqs) no_out) = Some tj -> tok_restricted tj = true ->
  fst (nth k (history mac c reqs) no_out) = rq_sess r.
Proof.
  intros N S L Hj R. pose proof (history_nth c reqs k r N) as E.
  rewrite (nth_error_nth _ _ no_out E). unfold hstep, presented.
  rewrite S, (nth_firstn_lt _ _ _ _ L), Hj. apply restricted_never_authenticates. exact R.
Qed.

(* ---------------- a full login ---------------- *)

(* record without the no-login bit, nothing left to validate: the session is authenticated as
   the record's user and level, and GenSecret is called with Lifetime 0, i.e. the configured
   lifetime, and with the validated bit added *)
Lemma full_login c env s clk sec rec :
  s_uid s = 0%N -> sec <> SecUnknownScheme ->
  authenticate_secret mac c env clk sec = ARec rec ->
  le_state_ok env = true ->
  has_feature (g_features rec) feature_nologin = false ->
  (has_feature (g_features rec) feature_validated = true \/ le_unvalidated env = false) ->
  login mac c env s clk sec =
  (mkSess (g_uid rec) (g_level rec),
   mkLO LOk200 (Some (issue_at mac (tc_key c) (tc_serial c) (round_ms (t_gen clk + tc_lifetime c))
                        (mkG (g_uid rec) (g_level rec) (N.lor (g_features rec) feature_validated) 0),
                      round_ms (t_gen clk + tc_lifetime c)))).
Proof.
  intros U NS A St NL V. unfold login. rewrite U. cbn [N.eqb negb].
  destruct sec; try congruence; rewrite A, St; cbn [negb];
    (replace (negb (has_feature (g_features rec) feature_validated) && le_unvalidated env) with false
       by (destruct V as [-> | ->]; [reflexivity|now rewrite andb_false_r]));
    unfold on_login; rewrite NL; reflexivity.
Qed.

(* ---------------- a login by reset code ---------------- *)

Lemma code_login c env s clk uid :
  s_uid s = 0%N -> le_state_ok env = true -> 0 < le_code_lifetime env ->
  let exp := round_ms (t_gen clk + le_code_lifetime env) in
  login mac c env s clk (SecCode (Some uid)) =
  (s, mkLO (if le_unvalidated env then LValidate300 else LOk200)
           (Some (issue_at mac (tc_key c) (tc_serial c) exp
                    (mkG uid 0 (if le_unvalidated env then feature_nologin
                                else N.lor feature_nologin feature_validated) (le_code_lifetime env)),
                  exp))).
Proof.
  intros U St L. cbv zeta. unfold login. rewrite U. cbn [N.eqb negb authenticate_secret]. rewrite St. cbn [negb].
  unfold code_rec. cbn [g_features]. change (has_feature feature_nologin feature_validated) with false.
  cbn [negb andb]. unfold on_login. cbn [g_features g_uid g_level g_lifetime].
  change (has_feature feature_nologin feature_nologin) with true. cbn [negb].
  unfold gen_secret, effective_lifetime. cbn [g_lifetime].
  destruct (le_code_lifetime env =? 0) eqn:Z0; [lia|]. destruct (le_code_lifetime env <? 0) eqn:Z1; [lia|].
  destruct (le_unvalidated env); reflexivity.
Qed.

(* a token GenSecret made with a positive lifetime [lt] at [now0] is never accepted at or after now0 + lt *)
Lemma issued_accept_bound key sn now0 lt g key' sn' now r :
  0 <= now0 -> 0 <= lt ->
  authenticate mac key' sn' now (issue_at mac key sn (round_ms (now0 + lt)) g) = TOk r ->
  now < now0 + lt.
Proof.
  intros H0 Hl A. apply accept_inv in A. cbv zeta in A. destruct A as (_ & _ & _ & _ & A & _).
  rewrite issued_data, issue_fields_fix in A. unfold issue_fields in A. cbn [f_expires] in A.
  pose proof (expiry_field_range (round_ms (now0 + lt))) as R.
  pose proof (expiry_bound now0 lt lt H0 ltac:(lia) ltac:(lia)) as B. unfold expiry_field in *.
  rewrite Z2N.id in A by lia. lia.
Qed.

(* the token of a full login is not accepted beyond the configured lifetime counted from the login *)
Lemma full_login_bound c env s clk sec rec s' code tok exp key' sn' now r :
  0 <= t_gen clk -> 0 < tc_lifetime c ->
  s_uid s = 0%N -> sec <> SecUnknownScheme ->
  authenticate_secret mac c env clk sec = ARec rec ->
  le_state_ok env = true ->
  has_feature (g_features rec) feature_nologin = false ->
  (has_feature (g_features rec) feature_validated = true \/ le_unvalidated env = false) ->
  login mac c env s clk sec = (s', mkLO code (Some (tok, exp))) ->
  authenticate mac key' sn' now tok = TOk r ->
  now < t_gen clk + tc_lifetime c.
Proof.
  intros H0 HL U NS A St NL V L Acc. rewrite (full_login c env s clk sec rec U NS A St NL V) in L.
  injection L as _ _ <- _. apply issued_accept_bound in Acc; lia.
Qed.

(* the token handed back for a reset code is not accepted beyond the code's lifetime counted from the login *)
Lemma code_login_bound c env s clk uid s' code tok exp key' sn' now r :
  0 <= t_gen clk -> 0 < le_code_lifetime env ->
  login mac c env s clk (SecCode (Some uid)) = (s', mkLO code (Some (tok, exp))) ->
  authenticate mac key' sn' now tok = TOk r ->
  now < t_gen clk + le_code_lifetime env.
Proof.
  intros H0 HL L Acc.
  destruct (s_uid s =? 0)%N eqn:U.
  - apply N.eqb_eq in U. destruct (le_state_ok env) eqn:St.
    + pose proof (code_login c env s clk uid U St HL) as C. cbv zeta in C. rewrite C in L.
      injection L as _ _ <- _. apply issued_accept_bound in Acc; lia.
    + assert (X : login mac c env s clk (SecCode (Some uid)) = (s, mkLO LRefused4xx None)).
      { unfold login. rewrite U. cbn [N.eqb negb authenticate_secret]. rewrite St. reflexivity. }
      rewrite X in L. discriminate L.
  - assert (X : login mac c env s clk (SecCode (Some uid)) = (s, mkLO LAlready409 None)).
    { unfold login. rewrite U. reflexivity. }
    rewrite X in L. discriminate L.
Qed.

(* ---------------- temporary tokens of the credential-validation requests ---------------- *)

Lemma tmp_token_update c now uid tok exp :
  tmp_token mac c now (update_cred_rec uid) = Some (tok, exp) ->
  tok_restricted tok = true /\ f_level (tok_fields tok) = 0%N /\ f_uid (tok_fields tok) = (uid mod 2 ^ 64)%N /\
  forall key' sn' now' r, 0 <= now -> authenticate mac key' sn' now' tok = TOk r -> now' < now + tmp_token_lifetime.
Proof.
  unfold tmp_token. intros G. pose proof G as G0. apply gen_secret_fields in G.
  destruct G as (lt & EL & -> & F). unfold tok_restricted. rewrite F.
  unfold issue_fields, update_cred_rec. cbn [f_features f_level f_uid g_features g_level g_uid].
  repeat split.
  intros key' sn' now' r H0 A. unfold gen_secret in G0. rewrite EL in G0. injection G0 as <-.
  unfold effective_lifetime, update_cred_rec in EL. cbn [g_lifetime] in EL.
  change (tmp_token_lifetime =? 0) with false in EL. change (tmp_token_lifetime <? 0) with false in EL.
  injection EL as <-. apply issued_accept_bound in A; [exact A|exact H0|discriminate].
Qed.

Lemma tmp_token_create c now uid tok exp :
  tmp_token mac c now (create_cred_rec uid) = Some (tok, exp) ->
  tok_restricted tok = false /\ f_level (tok_fields tok) = 20%N /\ f_uid (tok_fields tok) = (uid mod 2 ^ 64)%N /\
  forall key' sn' now' r, 0 <= now -> authenticate mac key' sn' now' tok = TOk r -> now' < now + tmp_token_lifetime.
Proof.
  unfold tmp_token. intros G. pose proof G as G0. apply gen_secret_fields in G.
  destruct G as (lt & EL & -> & F). unfold tok_restricted. rewrite F.
  unfold issue_fields, create_cred_rec. cbn [f_features f_level f_uid g_features g_level g_uid].
  repeat split.
  intros key' sn' now' r H0 A. unfold gen_secret in G0. rewrite EL in G0. injection G0 as <-.
  unfold effective_lifetime, create_cred_rec in EL. cbn [g_lifetime] in EL.
  change (tmp_token_lifetime =? 0) with false in EL. change (tmp_token_lifetime <? 0) with false in EL.
  injection EL as <-. apply issued_accept_bound in A; [exact A|exact H0|discriminate].
Qed.

End ReloginThms.

(* ---------------- statements the faithful model refutes ---------------- *)

Definition wmac (k d : list N) : list N := repeat (le_val d mod 251)%N 32.
Definition wcfg : tcfg := mkTC [7%N] 5 (1209600 * second).
Definition wenv : login_env := mkLE true false (900 * second).
Definition wT : Z := 1790000000 * second.
(* a restricted one hour token *)
Definition wtok : list N := issue_at wmac [7%N] 5 (wT + 3600 * second) (mkG 12345 20 feature_nologin 0).

(* (i) without the promptness premise *)
Definition relogin_never_outlives_statement : Prop :=
  forall (mac : list N -> list N -> list N) c env s clk tok s' code tok' exp,
  tok_restricted tok = true ->
  0 <= t_auth clk /\ t_auth clk <= t_until clk /\ t_until clk <= t_gen clk ->
  login mac c env s clk (SecToken tok) = (s', mkLO code (Some (tok', exp))) ->
  tok_expiry tok' <= tok_expiry tok.

(* a login that takes two seconds between time.Until and GenSecret's time.Now() hands back a
   token that lives two seconds longer *)
Lemma relogin_never_outlives_refuted : ~ relogin_never_outlives_statement.
Proof.
  intros H.
  set (clk := mkClk wT wT (wT + 2 * second)).
  destruct (login wmac wcfg wenv (mkSess 0 0) clk (SecToken wtok)) as [s' [code [[tok' exp]|]]] eqn:L.
  - assert (R : tok_restricted wtok = true) by (vm_compute; reflexivity).
    assert (C : 0 <= t_auth clk /\ t_auth clk <= t_until clk /\ t_until clk <= t_gen clk)
      by (vm_compute; repeat split; discriminate).
    pose proof (H wmac wcfg wenv (mkSess 0 0) clk wtok s' code tok' exp R C L) as X.
    assert (Y : tok_expiry tok' = tok_expiry wtok + 2).
    { vm_compute in L. injection L as _ _ <- _. vm_compute. reflexivity. }
    lia.
  - vm_compute in L. discriminate L.
Qed.

(* the other way the premise matters: if time.Until reads exactly the expiry instant (more than a
   second after the expiry check), the remaining lifetime is 0 and GenSecret takes 0 for
   "use the default": a two-week token for a restricted one *)
Lemma relogin_zero_remaining_gets_default :
  let clk := mkClk wT (wT + 3600 * second) (wT + 3600 * second) in
  match login wmac wcfg wenv (mkSess 0 0) clk (SecToken wtok) with
  | (_, mkLO _ (Some (tok', _))) => tok_expiry tok' = tok_expiry wtok + 1209600 /\ tok_restricted tok' = true
  | _ => False
  end.
Proof. vm_compute. split; reflexivity. Qed.

(* the token handed back for a reset code, measured against the code's own expiry:
   [created] = the instant the code was generated, presented within its life time *)
Definition relogin_code_statement : Prop :=
  forall (mac : list N -> list N -> list N) c env s clk uid created s' code tok exp key sn now r,
  prompt clk -> 0 < le_code_lifetime env ->
  created <= t_auth clk <= created + le_code_lifetime env ->
  login mac c env s clk (SecCode (Some uid)) = (s', mkLO code (Some (tok, exp))) ->
  authenticate mac key sn now tok = TOk r ->
  now < created + le_code_lifetime env.

(* code generated at T, presented 600 s later: the token is still accepted 1200 s after T although
   the code's 900 s ended (Authenticate of the code authenticator reports the full lifetime) *)
Lemma relogin_code_refuted : ~ relogin_code_statement.
Proof.
  intros H.
  set (t := wT + 600 * second). set (clk := mkClk t t t).
  destruct (login wmac wcfg wenv (mkSess 0 0) clk (SecCode (Some 77%N))) as [s' [code [[tok exp]|]]] eqn:L.
  - assert (P : prompt clk) by (vm_compute; repeat split; discriminate).
    assert (A : authenticate wmac [7%N] 5 (wT + 1200 * second) tok = TOk (mkR 77 0 3)).
    { vm_compute in L. injection L as _ _ <- _. vm_compute. reflexivity. }
    pose proof (H wmac wcfg wenv (mkSess 0 0) clk 77%N wT s' code tok exp [7%N] 5 (wT + 1200 * second) _
                  P ltac:(reflexivity) ltac:(vm_compute; split; discriminate) L A) as X.
    vm_compute in X. discriminate X.
  - vm_compute in L. discriminate L.
Qed.
