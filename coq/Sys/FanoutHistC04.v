(* C04 on channel-enabled group topics (and plain groups / p2p topics with sessions attached under either name or
   on behalf of a user): "a user without read permission gets none" whatever NAME the request is addressed to.
   The C04 layer-2 model (Sys/Topic.v) is one NON-channel group; the handlers that depend on the channel
   machinery are modelled over the fan-out slice: Sys/Fanout.v (perUser with isChan, sessions with isChanSub,
   verifyChannelAccess = chan_ok, attach under the grpXXX / chnXXX name) + Sys/FanoutQueryC01.v (stored message
   rows, q_get_data = Topic.replyGetData statement by statement: the permission test is
   `(userData.modeGiven & userData.modeWant).IsReader()` of perUser[asUid] and NOTHING else - asChan, computed by
   verifyChannelAccess from the name the request used, only decides whether From is withheld).

   This file adds, statement by statement from server/topic.go:

     handleMetaGet / replyGetDel(sess, asUid, req, msg): same gate, store.Messages.GetDeleted; in the scope of the
         fan-out slice (no {del msg} requests) the deletion log is empty, so the answer is {ctrl 204}; the
         non-empty branch is kept ({meta del} of the selected rows) so that the handler is total over any store.
     handleSubscription with get.what = "data": asChan, err := verifyChannelAccess(msg.Original) -> 404;
         subscriptionReply (Fanout.attach); when it returned nil: replyGetData(sess, asUid, asChan, sub.get.data).
         Session.subscribe answers 304 to an already attached session without reaching the topic.  The fan-out
         model's attach does not say whether subscriptionReply returned an error when the session was NOT attached
         (403 banned / 303 / eviction with a changed mode all leave the session detached), so the combined request
         is modelled only when the session is attached by it ([None] otherwise: outside the model, not generated).
     the variant of replyGetData's gate that short-circuits on asChan (`asChan || ...IsReader()`, a seeded
         regression) as [q_get_data_aschan_c04] - refuted in Sys/FanoutHistC04Proofs.v.

   Definitions only.  Proofs: Sys/FanoutHistC04Proofs.v. *)
From Coq Require Import ZArith NArith List Bool.
From Tinode Require Import Sys.Fanout Sys.FanoutQueryC01.
From Tinode Require Sys.Topic Sys.TopicImsC01.
Import ListNotations.
Open Scope N_scope.

Inductive hframe_c04 :=
| HF (f : qframe)                                   (* {data}, {meta desc}, {ctrl} of the query model *)
| HMetaDel (delid : Z) (rows : list (Z * Z)).        (* {meta del}: largest transaction number, ranges of the rows *)
Definition hout_c04 := list (sid * hframe_c04).

Definition lift_c04 (o : qout) : hout_c04 := map (fun e => (fst e, HF (snd e))) o.

Inductive hop_c04 :=
| HQ (o : qop)                                                              (* everything of FanoutQueryC01 *)
| HGetDel (s : sid) (u : uid) (name : tname) (since before limit : Z)       (* {get what=del} *)
| HSubGetData (s : sid) (u : uid) (name : tname) (since before limit : Z).  (* {sub get={what=data data={..}}} *)

(* the read gate shared by replyGetData and replyGetDel: perUser[asUid], want & given, bit R *)
Definition read_gate_c04 (st : state) (u : uid) : bool := has (eff (get_pud st u)) bR.

(* replyGetDel behind handleMeta's verifyChannelAccess *)
Definition q_get_del_c04 (x : qstate) (s : sid) (u : uid) (name : tname) (since before limit : Z) : hout_c04 :=
  let st := q_st x in
  if negb (chan_ok st (name_chan_c01q name)) then [(s, HF (QCtrl 404%Z))] else
  if read_gate_c04 st u then
    match Topic.ad_msg_get_deleted (store_of_c01q (q_msgs x)) u since before limit with
    | [] => [(s, HF (QCtrl 204%Z))]
    | rows => [(s, HMetaDel (fold_left (fun a d => Z.max a (Topic.d_delid d)) rows 0%Z)
                            (map (fun d => (Topic.d_low d, Topic.d_hi d)) rows))]
    end
  else [(s, HF (QCtrl 204%Z))].

(* handleSubscription: subscriptionReply, then replyGetData for the same acting user and the same asChan *)
Definition h_sub_get_data_c04 (x : qstate) (s : sid) (u : uid) (name : tname) (since before limit : Z)
  : option qstate * hout_c04 :=
  let st := q_st x in
  if has_key s (st_sess st) then (None, []) else
  if negb (chan_ok st (name_chan_c01q name)) then (Some x, [(s, HF (QCtrl 404%Z))]) else
  match attach st s u (name_chan_c01q name) with
  | None => (None, [])
  | Some st1 =>
    if has_key s (st_sess st1) then
      let x1 := mkQ st1 (q_msgs x) in
      (Some x1, lift_c04 (q_get_data x1 s u name since before limit))
    else (None, [])
  end.

Definition hstep_c04 (x : qstate) (o : hop_c04) : option qstate * hout_c04 :=
  match o with
  | HQ qo => let '(ox, _, out) := qstep x qo in (ox, lift_c04 out)
  | HGetDel s u name since before limit =>
    if has_key s (st_sess (q_st x)) then (Some x, q_get_del_c04 x s u name since before limit) else (None, [])
  | HSubGetData s u name since before limit => h_sub_get_data_c04 x s u name since before limit
  end.

Fixpoint hrun_c04 (x : qstate) (ops : list hop_c04) : qstate * list hout_c04 :=
  match ops with
  | [] => (x, [])
  | o :: r =>
    let '(ox, out) := hstep_c04 x o in
    let '(x2, outs) := hrun_c04 (qnext x ox) r in
    (x2, out :: outs)
  end.

(* is this frame a {data} message / a {meta del}? *)
Definition is_data_c04 (f : hframe_c04) : bool := match f with HF (QData _ _ _ _) => true | _ => false end.
Definition is_metadel_c04 (f : hframe_c04) : bool := match f with HMetaDel _ _ => true | _ => false end.
(* the (number, content) pairs an answer shows *)
Fixpoint shown_c04 (o : hout_c04) : list (Z * N) :=
  match o with
  | [] => []
  | (_, HF (QData _ _ q c)) :: r => (q, c) :: shown_c04 r
  | _ :: r => shown_c04 r
  end.

(* ---- the seeded variant: the gate short-circuited for requests addressed through the channel name ---- *)
Definition q_get_data_aschan_c04 (x : qstate) (s : sid) (u : uid) (name : tname) (since before limit : Z) : qout :=
  let st := q_st x in
  if negb (chan_ok st (name_chan_c01q name)) then [(s, QCtrl 404%Z)] else
  let as_chan := name_chan_c01q name in
  if as_chan || has (eff (get_pud st u)) bR then
    match Topic.ad_msg_get_all (store_of_c01q (q_msgs x)) u since before limit with
    | [] => [(s, QCtrl 204%Z)]
    | ms => map (fun m => (s, QData (original st u) (if as_chan then 0 else Topic.m_from m) (Topic.m_seq m) (Topic.m_content m))) ms
            ++ [(s, QCtrl 208%Z)]
    end
  else [(s, QCtrl 204%Z)].
