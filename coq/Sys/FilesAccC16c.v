(* C16  replyCreateUser (server/user.go:24-220), the part that decides whether the avatar listed in
   extra.attachments of {acc user="new"} is linked: the order of its adapter calls, above the store
   slice of Sys/Files.v, with a fault plan.  Definitions only (lemmas: Sys/FilesAccC16cProofs.v).

     authhdl.IsUnique            AuthGetUniqueRecord      error: refused, nothing was written
     store.Users.Create          UserCreate               error: refused, nothing was written
                                 TopicShare (me, fnd)     error: adp.UserDelete(hard), refused
     authhdl.AddRecord           AuthAddRecord            error: store.Users.Delete(hard), refused
     required credentials / addCreds                      missing or failing: store.Users.Delete(hard), refused
     store.Files.LinkAttachments FileLinkAttachments      ONLY HERE, after everything that can refuse the
                                                          request; its error is logged and ignored
     reply 201

   Hard deletion of the account removes its link rows (filemsglinks.userid ON DELETE CASCADE).
   replyUpdateUser ({acc} on an existing account) changes authentication, credentials and state only:
   it never reads desc.public or extra.attachments, there is no link call to model. *)
From Coq Require Import NArith ZArith List Bool.
From Tinode Require Import Pure.Url Sys.Files.
Import ListNotations.

Inductive acall_c16c :=
| AUniqueC16c | AUserCreateC16c | ATopicShareC16c | AAuthAddC16c | AUserDeleteC16c | AFileLinkC16c.

Record acc_faults_c16c := { af_unique : bool; af_create : bool; af_share : bool; af_auth : bool; af_link : bool }.

Definition no_acc_faults_c16c : acc_faults_c16c :=
  {| af_unique := false; af_create := false; af_share := false; af_auth := false; af_link := false |}.

Record astate_c16c := {
  aa_fs : state;
  aa_calls : list (acall_c16c * bool)     (* ghost: adapter calls made, NEWEST FIRST; true = made to fail *)
}.

(* the reply: [ao_created] = the account exists afterwards (201 with the new user id); [ao_code] = the code
   of the {ctrl} *)
Record acc_outcome_c16c := { ao_created : bool; ao_code : Z }.

Definition acc_refused_out_c16c (code : Z) : acc_outcome_c16c := {| ao_created := false; ao_code := code |}.
Definition acc_created_out_c16c : acc_outcome_c16c := {| ao_created := true; ao_code := 201 |}.

Definition alog_c16c (s : astate_c16c) (c : acall_c16c) (fault : bool) : astate_c16c :=
  {| aa_fs := aa_fs s; aa_calls := (c, fault) :: aa_calls s |}.

Definition awith_fs_c16c (s : astate_c16c) (f : state) : astate_c16c :=
  {| aa_fs := f; aa_calls := aa_calls s |}.

(* adp.UserDelete(uid, hard): the account row and - by cascade - its link rows *)
Definition user_delete_c16c (s : astate_c16c) (uid : N) : astate_c16c :=
  let s1 := alog_c16c s AUserDeleteC16c false in
  awith_fs_c16c s1 (step (aa_fs s1) (ODelUser uid)).

(* store.Files.LinkAttachments(user.Uid().UserId(), ZeroUid, attachments) *)
Definition acc_link_c16c (fault : bool) (handler : bool) (serve : list N) (s : astate_c16c) (uid : N)
    (urls : list (list N)) : astate_c16c :=
  if negb handler then s
  else
    let fids := resolve serve urls in
    if negb (length fids =? 0)%nat then
      let s1 := alog_c16c s AFileLinkC16c fault in
      if fault then s1 else awith_fs_c16c s1 (link_single (aa_fs s1) (TUser uid) fids)
    else s.

(* [uid]: the id store.Users.Create assigns (Store.GetUid(): fresh); [creds_ok]: the required credentials
   are present and addCreds returns no error *)
Definition create_user_c16c (ft : acc_faults_c16c) (handler : bool) (serve : list N) (s : astate_c16c)
    (uid : N) (creds_ok : bool) (urls : list (list N)) : astate_c16c * acc_outcome_c16c :=
  (* if ok, err := authhdl.IsUnique(...); !ok { reply err; return } *)
  let s1 := alog_c16c s AUniqueC16c (af_unique ft) in
  if af_unique ft then (s1, acc_refused_out_c16c 500)          (* decodeStoreError(err) of a store failure *)
  else
    (* store.Users.Create: err := adp.UserCreate(user); if err != nil { return nil, err } *)
    let s2 := alog_c16c s1 AUserCreateC16c (af_create ft) in
    if af_create ft then (s2, acc_refused_out_c16c 500)         (* ErrUnknown *)
    else
      let s3 := awith_fs_c16c s2 (step (aa_fs s2) (OAddUser uid)) in
      (* err = Subs.Create(me, fnd); if err != nil { adp.UserDelete(user.Uid(), true); return nil, err } *)
      let s4 := alog_c16c s3 ATopicShareC16c (af_share ft) in
      if af_share ft then (user_delete_c16c s4 uid, acc_refused_out_c16c 500)
      else
        (* rec, err := authhdl.AddRecord(...); if err != nil { store.Users.Delete(user.Uid(), true); reply err; return } *)
        let s5 := alog_c16c s4 AAuthAddC16c (af_auth ft) in
        (* NB `if err = store.Users.Delete(...); err != nil {log}; reply decodeStoreError(err)`: err is
           OVERWRITTEN by the result of the deletion, so the failed creation is answered 200 (findings/C16.md) *)
        if af_auth ft then (user_delete_c16c s5 uid, acc_refused_out_c16c 200)
        else
          (* if len(creds) < len(required) { Users.Delete; return }; addCreds error { Users.Delete; return } *)
          if negb creds_ok then (user_delete_c16c s5 uid, acc_refused_out_c16c 403)
          else
            (* if msg.Extra != nil && len(msg.Extra.Attachments) > 0 { LinkAttachments; error ignored } *)
            let s6 := if negb (length urls =? 0)%nat then acc_link_c16c (af_link ft) handler serve s5 uid urls else s5 in
            (s6, acc_created_out_c16c).
