(* C03: the states of a topic in which a publish is refused whatever the author's grant, and the
   topics that are not group topics.  A wrapper around the group-topic model Sys/Topic.v:

   * deletion of the group topic by its owner while it is loaded (hub.go topicUnreg, case 1.1.1) is
     TWO steps of the hub goroutine with the topic goroutine running in between:
       EDelBegin  t.markPaused(true); the hub enters store.Topics.Delete
       EDelEnd    the store call returns: on error t.markPaused(false) and {ctrl 500}; otherwise
                  {ctrl 200}, hub.topicDel, t.markDeleted(), t.exit: sessions detached, topic gone.
     Between the two, only requests handled by the topic goroutine alone can be served: the model
     serves {pub} there; every other event first lets the hub finish the delete (the driver does the
     same with the real code);
   * suspension of a user ({acc state} by root -> changeUserState -> hub.userStatus ->
     topicsStateForUser): the loaded group topic owned by that user gets the read-only bit; the bit
     lives in memory only (a reload clears it: modelled as the code is);
   * 'me' and 'fnd' (attachment only; the grant there is ModeCSelf = JPS, no W) and 'sys' (always
     loaded by the hub, no attachment and no write check, messages numbered like everywhere else);
   * the FULL test of hub.topicsStateForUser ([state_pred]) applied to every loaded topic of every
     category: the group topic (the user may be its owner or a plain member), any number of
     peer-to-peer topics (each one a second instance of the topic model with two subscription rows and
     no owner: handlePubBroadcast / saveAndBroadcastMessage / attach / detach / idle unload are the
     same code for both categories; its own read-only bit), 'sys' with its subscribers (root accounts
     that once did {sub sys}: they are in sys.perUser), 'me'/'fnd' (skipped by the first test).

   Definitions only. *)
From Coq Require Import ZArith NArith List Bool.
From Tinode Require Import Base.Util Pure.Acs Sys.Topic.
Import ListNotations.
Open Scope Z_scope.

(* types.TopicCat *)
Inductive tcat := CatMe | CatFnd | CatP2P | CatGrp | CatSys.
Definition cat_is_p2p (c : tcat) : bool := match c with CatP2P => true | _ => false end.

(* hub.topicsStateForUser(uid, suspended), the body of the Range over the loaded topics:
     if topic.cat == TopicCatMe || topic.cat == TopicCatFnd { return true }
     if _, isMember := topic.perUser[uid]; (topic.cat == TopicCatP2P && isMember) || topic.owner == uid {
         topic.markReadOnly(suspended) } *)
Definition state_pred (c : tcat) (is_member : bool) (owner u : N) : bool :=
  match c with
  | CatMe | CatFnd => false
  | _ => (cat_is_p2p c && is_member) || N.eqb owner u
  end.

Definition is_member (c : cache) (u : N) : bool :=
  match alookup u (c_users c) with Some _ => true | None => false end.

(* a peer-to-peer topic: store rows + cache as for the group topic (two rows, no O anywhere: CreateP2P
   masks the modes with ModeCP2P, so the loaded topic has no owner), and its read-only bit *)
Record ptopic := mkPT { pt_b : state; pt_ro : bool }.

(* types.ModeCSys = JRWPD *)
Definition ModeCSys : N := 79%N.

Record xstate := mkX {
  xb : state;                      (* the group topic: store rows + cache *)
  x_del : option (N * fault);      (* Some (sid, f): paused, the hub is inside store.Topics.Delete for session sid;
                                      f = the fault plan of that request *)
  x_ro : bool;                     (* topicStatusReadOnly of the loaded group topic *)
  x_susp : list N;                 (* users.state = suspended (store) *)
  x_me : list N;                   (* sessions attached to their 'me' topic *)
  x_fnd : list N;                  (* sessions attached to their 'fnd' topic *)
  x_sys_seqid : Z;                 (* topics.seqid of 'sys' (store) *)
  x_sys_lastid : Z;                (* Topic.lastID of 'sys' (memory) *)
  x_sys_msgs : list msgrow;        (* messages of 'sys' (store) *)
  x_sys_ro : bool;                 (* topicStatusReadOnly of 'sys' (memory) *)
  x_sys_subs : list N;             (* users with a live subscription row on 'sys' (ModeCSys/ModeCSys): sys.perUser *)
  x_p2p : list ptopic }.           (* the peer-to-peer topics *)

Definition set_b (b : state) (x : xstate) : xstate :=
  mkX b (x_del x) (x_ro x) (x_susp x) (x_me x) (x_fnd x) (x_sys_seqid x) (x_sys_lastid x) (x_sys_msgs x) (x_sys_ro x) (x_sys_subs x) (x_p2p x).
Definition set_del (d : option (N * fault)) (x : xstate) : xstate :=
  mkX (xb x) d (x_ro x) (x_susp x) (x_me x) (x_fnd x) (x_sys_seqid x) (x_sys_lastid x) (x_sys_msgs x) (x_sys_ro x) (x_sys_subs x) (x_p2p x).
Definition set_ro (r : bool) (x : xstate) : xstate :=
  mkX (xb x) (x_del x) r (x_susp x) (x_me x) (x_fnd x) (x_sys_seqid x) (x_sys_lastid x) (x_sys_msgs x) (x_sys_ro x) (x_sys_subs x) (x_p2p x).
Definition set_susp (l : list N) (x : xstate) : xstate :=
  mkX (xb x) (x_del x) (x_ro x) l (x_me x) (x_fnd x) (x_sys_seqid x) (x_sys_lastid x) (x_sys_msgs x) (x_sys_ro x) (x_sys_subs x) (x_p2p x).
Definition set_me (l : list N) (x : xstate) : xstate :=
  mkX (xb x) (x_del x) (x_ro x) (x_susp x) l (x_fnd x) (x_sys_seqid x) (x_sys_lastid x) (x_sys_msgs x) (x_sys_ro x) (x_sys_subs x) (x_p2p x).
Definition set_fnd (l : list N) (x : xstate) : xstate :=
  mkX (xb x) (x_del x) (x_ro x) (x_susp x) (x_me x) l (x_sys_seqid x) (x_sys_lastid x) (x_sys_msgs x) (x_sys_ro x) (x_sys_subs x) (x_p2p x).
Definition set_sys (seqid lastid : Z) (ms : list msgrow) (x : xstate) : xstate :=
  mkX (xb x) (x_del x) (x_ro x) (x_susp x) (x_me x) (x_fnd x) seqid lastid ms (x_sys_ro x) (x_sys_subs x) (x_p2p x).
Definition set_sys_ro (r : bool) (x : xstate) : xstate :=
  mkX (xb x) (x_del x) (x_ro x) (x_susp x) (x_me x) (x_fnd x) (x_sys_seqid x) (x_sys_lastid x) (x_sys_msgs x) r (x_sys_subs x) (x_p2p x).
Definition set_p2p (l : list ptopic) (x : xstate) : xstate :=
  mkX (xb x) (x_del x) (x_ro x) (x_susp x) (x_me x) (x_fnd x) (x_sys_seqid x) (x_sys_lastid x) (x_sys_msgs x) (x_sys_ro x) (x_sys_subs x) l.

Definition memN (k : N) (l : list N) : bool := existsb (N.eqb k) l.

(* the requests issued to a peer-to-peer topic (the topic and both subscriptions exist: initTopicP2P case 4) *)
Inductive p2pop :=
| PSub (sid : N)                                   (* {sub topic=usrX}, no mode *)
| PLeave (sid : N)                                 (* {leave topic=usrX} *)
| PPub (sid : N) (content : N) (noecho : bool)     (* {pub topic=usrX} *)
| PUnload.                                         (* idle timeout of the topic with no sessions *)
Definition p2p_op (o : p2pop) : op :=
  match o with
  | PSub sid => OSub sid [] false
  | PLeave sid => OLeave sid false
  | PPub sid content noecho => OPub sid content noecho
  | PUnload => OUnload
  end.
Definition is_ppub (o : p2pop) : bool := match o with PPub _ _ _ => true | _ => false end.

Inductive xev :=
| EBase (f : fault) (o : op)                       (* a request to the group topic, see Topic.op *)
| EDelBegin (f : fault) (sid : N)                  (* {del what=topic hard} by the owner, loaded topic: first half *)
| EDelEnd                                          (* second half *)
| ESuspend (f : fault) (u : N) (b : bool)          (* root: {acc user=u state=suspended|ok} *)
| ESubMe (sid : N)
| ESubFnd (sid : N)
| EPubMe (sid : N) (content : N)
| EPubFnd (sid : N) (content : N)
| EPubSys (f : fault) (sid : N) (content : N)
| EP2P (k : nat) (f : fault) (o : p2pop).          (* a request to the k-th peer-to-peer topic *)

(* the process died: nothing in memory survives; 'sys' is loaded again from its row *)
Definition mem_reset (x : xstate) : xstate :=
  mkX (mkState (st (xb x)) None (ncalls (xb x))) None false (x_susp x) [] [] (x_sys_seqid x) (x_sys_seqid x) (x_sys_msgs x)
      false (x_sys_subs x) (map (fun p => mkPT (mkState (st (pt_b p)) None (ncalls (pt_b p))) false) (x_p2p x)).
Definition after_crash (f : fault) (x : xstate) : xstate :=
  match f with CrashAt _ => mem_reset x | _ => x end.

(* adapter TopicDelete(hard): subscriptions, messages, deletion log and the topic row are removed *)
Definition wipe (s : store) : store := mkStore false 0 0 0 0 0 [] [] [] (users s).

Section Life.
Variable dr : Z -> list (Z * Z) -> option (list (Z * Z)).
Variable nr : list (Z * Z) -> list (Z * Z).
Variable sm : sessmap.

Definition op_sid (o : op) : N :=
  match o with
  | OSub a _ _ | OLeave a _ | OPub a _ _ | ONote a _ _ | OGetData a _ _ _ | OGetDesc a | OGetSub a
  | OGetDel a _ _ _ | ODelMsg a _ _ | OSetSub a _ _ | ODelSub a _ => a
  | OUnload | ORestart => 0%N
  end.

Definition x_attached (x : xstate) (sid : N) : bool :=
  match ca (xb x) with Some c => attached c sid | None => false end.

(* the second half of the deletion *)
Definition del_finish (x : xstate) : xstate * out :=
  match x_del x with
  | None => (x, [])
  | Some (sid, f) =>
    if fails f 1 then
      (after_crash f (set_del None (set_b (mkState (st (xb x)) (ca (xb x)) 1) x)), [(sid, Ctrl 500 [])])
    else
      (after_crash f (set_ro false (set_del None (set_b (mkState (wipe (st (xb x))) None 1) x))), [(sid, Ctrl 200 [])])
  end.

(* a request to the group topic outside the deletion window *)
Definition base_step (x : xstate) (f : fault) (o : op) : xstate * out :=
  let b := xb x in
  let sid := op_sid o in
  (* read-only (suspended) topic: handlePubBroadcast 403, kp notes dropped, anotherUserSub 403 *)
  let blocked : option Z :=
    if x_ro x && x_attached x sid then
      match o with
      | OPub _ _ _ => Some 403
      | ONote _ what _ => if N.eqb what K_kp then Some 0 else None
      | OSetSub _ target _ => if (target =? 0)%N || N.eqb target (sess_uid sm sid) then None else Some 403
      | _ => None
      end
    else None in
  match blocked with
  | Some code =>
    (after_crash f (set_b (mkState (st b) (match f with CrashAt _ => None | _ => ca b end) 0) x),
     if code =? 0 then [] else [(sid, Ctrl code [])])
  | None =>
    let '(b1, o1) := step_f dr nr sm b (f, o) in
    let x1 := set_b b1 x in
    let x2 := match ca b1 with None => set_ro false x1 | Some _ => x1 end in
    ((match o with ORestart => mem_reset x2 | _ => after_crash f x2 end), o1)
  end.

(* pushForData on 'sys': every subscriber has P and R (ModeCSys), sorted by user id for comparison *)
Definition sys_push (x : xstate) (seq : Z) (from : N) : out :=
  match fold_right insert_n [] (x_sys_subs x) with [] => [] | l => [(0%N, Push seq from l)] end.

(* {pub} to 'sys': hub.routeCli -> Topic('sys').handlePubBroadcast (isReadOnly -> 403) -> saveAndBroadcastMessage
   without the write check; nobody is attached in the model, so the outputs are the reply and the push
   receipt for the subscribers *)
Definition publish_sys (x : xstate) (f : fault) (sid : N) (content : N) : xstate * out :=
  let u := sess_uid sm sid in
  if (u =? 0)%N then (x, []) else
  if x_sys_ro x then (after_crash f x, [(sid, Ctrl 403 [])]) else
  let seq := x_sys_lastid x + 1 in
  let '(ok1, n1) := call f 0 in                        (* TopicUpdateOnMessage *)
  if negb ok1 then (after_crash f x, [(sid, Ctrl 500 [])]) else
  let x1 := set_sys seq (x_sys_lastid x) (x_sys_msgs x) x in
  let '(ok2, n2) := call f n1 in                       (* MessageSave *)
  if negb ok2 then (after_crash f x1, [(sid, Ctrl 500 [])]) else
  if existsb (fun m => m_seq m =? seq) (x_sys_msgs x) then (after_crash f x1, [(sid, Ctrl 500 [])]) else
  (* an author who is a subscriber has R: SubsUpdate(read, recv) of his row, error ignored; the marks of the
     sys rows are not part of the state *)
  (after_crash f (set_sys seq seq (x_sys_msgs x ++ [mkMsg seq u content 0]) x),
   (sid, Ctrl 202 [(P_seq, seq)]) :: sys_push x seq u).

(* hub.topicsStateForUser(u, b) over the loaded topics: the group topic, 'sys' (always loaded, perUser = its
   subscribers, no owner), the loaded peer-to-peer topics; 'me' and 'fnd' topics are skipped by the first test
   of the loop ([state_pred CatMe/CatFnd] = false) and have no read-only bit in this model *)
Definition mark_p2p (u : N) (b : bool) (p : ptopic) : ptopic :=
  match ca (pt_b p) with
  | Some c => if state_pred CatP2P (is_member c u) (c_owner c) u then mkPT (pt_b p) b else p
  | None => p
  end.
Definition mark_topics (x : xstate) (u : N) (b : bool) : xstate :=
  let x1 := match ca (xb x) with
            | Some c => if state_pred CatGrp (is_member c u) (c_owner c) u then set_ro b x else x
            | None => x
            end in
  let x2 := if state_pred CatSys (memN u (x_sys_subs x)) 0%N u then set_sys_ro b x1 else x1 in
  set_p2p (map (mark_p2p u b) (x_p2p x)) x2.

(* root {acc user state}: replyUpdateUser / changeUserState / hub.userStatus -> hub.topicsStateForUser
   (the zero uid is no account: Users.Get finds nothing) *)
Definition suspend (x : xstate) (f : fault) (u : N) (b : bool) : xstate :=
  let '(ok1, n1) := call f 0 in                        (* Users.Get *)
  if negb ok1 then x else
  match (if (u =? 0)%N then None else alookup u (users (st (xb x)))) with
  | None => x
  | Some _ =>
    if Bool.eqb (memN u (x_susp x)) b then x else
    let '(ok2, n2) := call f n1 in                     (* Users.UpdateState *)
    if negb ok2 then x else
    mark_topics (set_susp (if b then u :: x_susp x else filter (fun v => negb (N.eqb v u)) (x_susp x)) x) u b
  end.

(* a request to the k-th peer-to-peer topic outside the deletion window.  Only a party can address the topic
   (for anybody else the name usrX means another topic).  handlePubBroadcast of a read-only topic: 403. *)
Fixpoint upd_nth {A} (k : nat) (v : A) (l : list A) : list A :=
  match l, k with
  | [], _ => []
  | _ :: r, O => v :: r
  | a :: r, S k' => a :: upd_nth k' v r
  end.
Definition p2p_party (p : ptopic) (u : N) : bool :=
  existsb (fun r => N.eqb (s_user r) u && negb (s_deleted r)) (subs (st (pt_b p))).
Definition pt_attached (p : ptopic) (sid : N) : bool :=
  match ca (pt_b p) with Some c => attached c sid | None => false end.
Definition p2p_step (x : xstate) (k : nat) (f : fault) (po : p2pop) : xstate * out :=
  match nth_error (x_p2p x) k with
  | None => (x, [])
  | Some p =>
    let o := p2p_op po in
    let sid := op_sid o in
    let u := sess_uid sm sid in
    if negb (match po with PUnload => true | _ => negb (u =? 0)%N && p2p_party p u end) then (x, []) else
    if pt_ro p && pt_attached p sid && is_ppub po then
      (after_crash f (set_p2p (upd_nth k (mkPT (mkState (st (pt_b p)) (ca (pt_b p)) 0) (pt_ro p)) (x_p2p x)) x),
       [(sid, Ctrl 403 [])])
    else
      let '(b1, o1) := step_f dr nr sm (pt_b p) (f, o) in
      let p1 := mkPT b1 (match ca b1 with None => false | Some _ => pt_ro p end) in
      (after_crash f (set_p2p (upd_nth k p1 (x_p2p x)) x), o1)
  end.

(* events outside the deletion window *)
Definition xcore (x : xstate) (e : xev) : xstate * out :=
  match e with
  | EBase f o => base_step x f o
  | EDelBegin f sid =>
    match ca (xb x) with
    | Some c =>
      let u := sess_uid sm sid in
      if negb (u =? 0)%N && N.eqb (c_owner c) u then (set_del (Some (sid, f)) x, []) else (x, [])
    | None => (x, [])
    end
  | EDelEnd => (x, [])
  | ESuspend f u b =>
    (after_crash f (suspend x f u b), [])
  | ESubMe sid =>
    if (sess_uid sm sid =? 0)%N || memN sid (x_me x) then (x, []) else (set_me (sid :: x_me x) x, [])
  | ESubFnd sid =>
    if (sess_uid sm sid =? 0)%N || memN sid (x_fnd x) then (x, []) else (set_fnd (sid :: x_fnd x) x, [])
  | EPubMe sid _ => (x, [(sid, Ctrl (if memN sid (x_me x) then 403 else 409) [])])
  | EPubFnd sid _ => (x, [(sid, Ctrl (if memN sid (x_fnd x) then 403 else 409) [])])
  | EPubSys f sid content => publish_sys x f sid content
  | EP2P k f o => p2p_step x k f o
  end.

(* one event *)
Definition xstep (x : xstate) (e : xev) : xstate * out :=
  match x_del x with
  | None => xcore x e
  | Some _ =>
    match e with
    | EBase _ (OPub sid _ _) =>
      (* the topic goroutine while the hub is inside the store call: handlePubBroadcast sees isInactive;
         a session that is not attached is answered by Session.publish itself *)
      (set_b (mkState (st (xb x)) (ca (xb x)) 0) x, [(sid, Ctrl (if x_attached x sid then 503 else 409) [])])
    | _ =>
      let '(x1, o1) := del_finish x in
      let '(x2, o2) := xcore x1 e in (x2, o1 ++ o2)
    end
  end.

Fixpoint xrun (x : xstate) (h : list xev) : xstate * list out :=
  match h with
  | [] => (x, [])
  | e :: r => let '(x1, o1) := xstep x e in
              let '(x2, os) := xrun x1 r in (x2, o1 :: os)
  end.

(* the initial state: nothing loaded but 'sys'; [subs] = the subscribers of 'sys', [ps] = the stores of the
   peer-to-peer topics (topic row + the two subscription rows) *)
Definition xinit_pop (s : store) (subs : list N) (ps : list store) : xstate :=
  mkX (mkState s None 0) None false [] [] [] 0 0 [] false subs (map (fun s' => mkPT (mkState s' None 0) false) ps).
Definition xinit (s : store) : xstate := xinit_pop s [] [].
End Life.
