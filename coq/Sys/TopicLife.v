(* C03: the states of a topic in which a publish is refused whatever the author's grant, and the
   topics that are not group topics.  A wrapper around the group-topic model Sys/Topic.v:

   * deletion of the group topic by its owner while it is loaded (hub.go topicUnreg, case 1.1.1) is
     TWO steps of the hub goroutine with the topic goroutine running in between:
       EDelBegin  t.markPaused(true); the hub enters store.Topics.Delete
       EDelEnd    the store call returns: on error t.markPaused(false) and {ctrl 500}; otherwise
                  {ctrl 200}, hub.topicDel, t.markDeleted(), t.exit: sessions detached, topic gone.
     Between the two, only requests handled by the topic goroutine alone can be served: the model
     serves {pub} there; every other event first lets the hub finish the delete (the driver does the
     same with the real code);
   * suspension of a user ({acc state} by root -> changeUserState -> hub.userStatus ->
     topicsStateForUser): the loaded group topic owned by that user gets the read-only bit; the bit
     lives in memory only (a reload clears it: modelled as the code is);
   * 'me' and 'fnd' (attachment only; the grant there is ModeCSelf = JPS, no W) and 'sys' (always
     loaded by the hub, no attachment and no write check, messages numbered like everywhere else).

   Definitions only. *)
From Coq Require Import ZArith NArith List Bool.
From Tinode Require Import Base.Util Pure.Acs Sys.Topic.
Import ListNotations.
Open Scope Z_scope.

Record xstate := mkX {
  xb : state;                      (* the group topic: store rows + cache *)
  x_del : option (N * fault);      (* Some (sid, f): paused, the hub is inside store.Topics.Delete for session sid;
                                      f = the fault plan of that request *)
  x_ro : bool;                     (* topicStatusReadOnly of the loaded group topic *)
  x_susp : list N;                 (* users.state = suspended (store) *)
  x_me : list N;                   (* sessions attached to their 'me' topic *)
  x_fnd : list N;                  (* sessions attached to their 'fnd' topic *)
  x_sys_seqid : Z;                 (* topics.seqid of 'sys' (store) *)
  x_sys_lastid : Z;                (* Topic.lastID of 'sys' (memory) *)
  x_sys_msgs : list msgrow }.      (* messages of 'sys' (store) *)

Definition set_b (b : state) (x : xstate) : xstate :=
  mkX b (x_del x) (x_ro x) (x_susp x) (x_me x) (x_fnd x) (x_sys_seqid x) (x_sys_lastid x) (x_sys_msgs x).
Definition set_del (d : option (N * fault)) (x : xstate) : xstate :=
  mkX (xb x) d (x_ro x) (x_susp x) (x_me x) (x_fnd x) (x_sys_seqid x) (x_sys_lastid x) (x_sys_msgs x).
Definition set_ro (r : bool) (x : xstate) : xstate :=
  mkX (xb x) (x_del x) r (x_susp x) (x_me x) (x_fnd x) (x_sys_seqid x) (x_sys_lastid x) (x_sys_msgs x).
Definition set_susp (l : list N) (x : xstate) : xstate :=
  mkX (xb x) (x_del x) (x_ro x) l (x_me x) (x_fnd x) (x_sys_seqid x) (x_sys_lastid x) (x_sys_msgs x).
Definition set_me (l : list N) (x : xstate) : xstate :=
  mkX (xb x) (x_del x) (x_ro x) (x_susp x) l (x_fnd x) (x_sys_seqid x) (x_sys_lastid x) (x_sys_msgs x).
Definition set_fnd (l : list N) (x : xstate) : xstate :=
  mkX (xb x) (x_del x) (x_ro x) (x_susp x) (x_me x) l (x_sys_seqid x) (x_sys_lastid x) (x_sys_msgs x).
Definition set_sys (seqid lastid : Z) (ms : list msgrow) (x : xstate) : xstate :=
  mkX (xb x) (x_del x) (x_ro x) (x_susp x) (x_me x) (x_fnd x) seqid lastid ms.

Definition memN (k : N) (l : list N) : bool := existsb (N.eqb k) l.

Inductive xev :=
| EBase (f : fault) (o : op)                       (* a request to the group topic, see Topic.op *)
| EDelBegin (f : fault) (sid : N)                  (* {del what=topic hard} by the owner, loaded topic: first half *)
| EDelEnd                                          (* second half *)
| ESuspend (f : fault) (u : N) (b : bool)          (* root: {acc user=u state=suspended|ok} *)
| ESubMe (sid : N)
| ESubFnd (sid : N)
| EPubMe (sid : N) (content : N)
| EPubFnd (sid : N) (content : N)
| EPubSys (f : fault) (sid : N) (content : N).

(* the process died: nothing in memory survives; 'sys' is loaded again from its row *)
Definition mem_reset (x : xstate) : xstate :=
  mkX (mkState (st (xb x)) None (ncalls (xb x))) None false (x_susp x) [] [] (x_sys_seqid x) (x_sys_seqid x) (x_sys_msgs x).
Definition after_crash (f : fault) (x : xstate) : xstate :=
  match f with CrashAt _ => mem_reset x | _ => x end.

(* adapter TopicDelete(hard): subscriptions, messages, deletion log and the topic row are removed *)
Definition wipe (s : store) : store := mkStore false 0 0 0 0 0 [] [] [] (users s).

Section Life.
Variable dr : Z -> list (Z * Z) -> option (list (Z * Z)).
Variable nr : list (Z * Z) -> list (Z * Z).
Variable sm : sessmap.

Definition op_sid (o : op) : N :=
  match o with
  | OSub a _ _ | OLeave a _ | OPub a _ _ | ONote a _ _ | OGetData a _ _ _ | OGetDesc a | OGetSub a
  | OGetDel a _ _ _ | ODelMsg a _ _ | OSetSub a _ _ | ODelSub a _ => a
  | OUnload | ORestart => 0%N
  end.

Definition x_attached (x : xstate) (sid : N) : bool :=
  match ca (xb x) with Some c => attached c sid | None => false end.

(* the second half of the deletion *)
Definition del_finish (x : xstate) : xstate * out :=
  match x_del x with
  | None => (x, [])
  | Some (sid, f) =>
    if fails f 1 then
      (after_crash f (set_del None (set_b (mkState (st (xb x)) (ca (xb x)) 1) x)), [(sid, Ctrl 500 [])])
    else
      (after_crash f (set_ro false (set_del None (set_b (mkState (wipe (st (xb x))) None 1) x))), [(sid, Ctrl 200 [])])
  end.

(* a request to the group topic outside the deletion window *)
Definition base_step (x : xstate) (f : fault) (o : op) : xstate * out :=
  let b := xb x in
  let sid := op_sid o in
  (* read-only (suspended) topic: handlePubBroadcast 403, kp notes dropped, anotherUserSub 403 *)
  let blocked : option Z :=
    if x_ro x && x_attached x sid then
      match o with
      | OPub _ _ _ => Some 403
      | ONote _ what _ => if N.eqb what K_kp then Some 0 else None
      | OSetSub _ target _ => if (target =? 0)%N || N.eqb target (sess_uid sm sid) then None else Some 403
      | _ => None
      end
    else None in
  match blocked with
  | Some code =>
    (after_crash f (set_b (mkState (st b) (match f with CrashAt _ => None | _ => ca b end) 0) x),
     if code =? 0 then [] else [(sid, Ctrl code [])])
  | None =>
    let '(b1, o1) := step_f dr nr sm b (f, o) in
    let x1 := set_b b1 x in
    let x2 := match ca b1 with None => set_ro false x1 | Some _ => x1 end in
    ((match o with ORestart => mem_reset x2 | _ => after_crash f x2 end), o1)
  end.

(* {pub} to 'sys': hub.routeCli -> Topic('sys').handlePubBroadcast -> saveAndBroadcastMessage without
   the write check; nobody is attached or subscribed in the model, so the only output is the reply *)
Definition publish_sys (x : xstate) (f : fault) (sid : N) (content : N) : xstate * out :=
  let u := sess_uid sm sid in
  if (u =? 0)%N then (x, []) else
  let seq := x_sys_lastid x + 1 in
  let '(ok1, n1) := call f 0 in                        (* TopicUpdateOnMessage *)
  if negb ok1 then (after_crash f x, [(sid, Ctrl 500 [])]) else
  let x1 := set_sys seq (x_sys_lastid x) (x_sys_msgs x) x in
  let '(ok2, n2) := call f n1 in                       (* MessageSave *)
  if negb ok2 then (after_crash f x1, [(sid, Ctrl 500 [])]) else
  if existsb (fun m => m_seq m =? seq) (x_sys_msgs x) then (after_crash f x1, [(sid, Ctrl 500 [])]) else
  (after_crash f (set_sys seq seq (x_sys_msgs x ++ [mkMsg seq u content 0]) x), [(sid, Ctrl 202 [(P_seq, seq)])]).

(* root {acc user state}: replyUpdateUser / changeUserState / hub.topicsStateForUser *)
Definition suspend (x : xstate) (f : fault) (u : N) (b : bool) : xstate :=
  let '(ok1, n1) := call f 0 in                        (* Users.Get *)
  if negb ok1 then x else
  match alookup u (users (st (xb x))) with
  | None => x
  | Some _ =>
    if Bool.eqb (memN u (x_susp x)) b then x else
    let '(ok2, n2) := call f n1 in                     (* Users.UpdateState *)
    if negb ok2 then x else
    let x1 := set_susp (if b then u :: x_susp x else filter (fun v => negb (N.eqb v u)) (x_susp x)) x in
    match ca (xb x) with
    | Some c => if N.eqb (c_owner c) u then set_ro b x1 else x1
    | None => x1
    end
  end.

(* events outside the deletion window *)
Definition xcore (x : xstate) (e : xev) : xstate * out :=
  match e with
  | EBase f o => base_step x f o
  | EDelBegin f sid =>
    match ca (xb x) with
    | Some c =>
      let u := sess_uid sm sid in
      if negb (u =? 0)%N && N.eqb (c_owner c) u then (set_del (Some (sid, f)) x, []) else (x, [])
    | None => (x, [])
    end
  | EDelEnd => (x, [])
  | ESuspend f u b =>
    (after_crash f (suspend x f u b), [])
  | ESubMe sid =>
    if (sess_uid sm sid =? 0)%N || memN sid (x_me x) then (x, []) else (set_me (sid :: x_me x) x, [])
  | ESubFnd sid =>
    if (sess_uid sm sid =? 0)%N || memN sid (x_fnd x) then (x, []) else (set_fnd (sid :: x_fnd x) x, [])
  | EPubMe sid _ => (x, [(sid, Ctrl (if memN sid (x_me x) then 403 else 409) [])])
  | EPubFnd sid _ => (x, [(sid, Ctrl (if memN sid (x_fnd x) then 403 else 409) [])])
  | EPubSys f sid content => publish_sys x f sid content
  end.

(* one event *)
Definition xstep (x : xstate) (e : xev) : xstate * out :=
  match x_del x with
  | None => xcore x e
  | Some _ =>
    match e with
    | EBase _ (OPub sid _ _) =>
      (* the topic goroutine while the hub is inside the store call: handlePubBroadcast sees isInactive;
         a session that is not attached is answered by Session.publish itself *)
      (set_b (mkState (st (xb x)) (ca (xb x)) 0) x, [(sid, Ctrl (if x_attached x sid then 503 else 409) [])])
    | _ =>
      let '(x1, o1) := del_finish x in
      let '(x2, o2) := xcore x1 e in (x2, o1 ++ o2)
    end
  end.

Fixpoint xrun (x : xstate) (h : list xev) : xstate * list out :=
  match h with
  | [] => (x, [])
  | e :: r => let '(x1, o1) := xstep x e in
              let '(x2, os) := xrun x1 r in (x2, o1 :: os)
  end.

Definition xinit (s : store) : xstate := mkX (mkState s None 0) None false [] [] [] 0 0 [].
End Life.
