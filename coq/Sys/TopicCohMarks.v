(* C09: the STORED marks never decrease.  Needs the joint invariant that the store is
   never ahead of the loaded topic: every live subscription row has a cache entry whose
   marks are at least the stored ones (proved here for every history), and that there is
   one row per user.  Definitions of the model are in Sys/Topic.v. *)
From Coq Require Import ZArith NArith List Bool Lia.
From Tinode Require Import Base.Util Pure.Acs Sys.Topic Sys.TopicTac Sys.TopicFrame Sys.TopicNum Sys.TopicMarks Sys.TopicMono.
Import ListNotations.
Open Scope Z_scope.

(* ---------- the stored row of one user, as a function: (deleted, read, recv) ---------- *)
Definition rk (r : subrow) : bool * Z * Z := (s_deleted r, s_read r, s_recv r).
Definition sk (s : store) (u : N) : option (bool * Z * Z) := option_map rk (find_sub u (subs s)).

Lemma find_sub_map (f : subrow -> subrow) u0 l : (forall r, s_user (f r) = s_user r) ->
  find_sub u0 (map f l) = option_map f (find_sub u0 l).
Proof.
  intros Hf. unfold find_sub. induction l as [|a l IH]; cbn; [reflexivity|].
  rewrite Hf. destruct (N.eqb (s_user a) u0); [reflexivity|exact IH].
Qed.
Lemma find_sub_upd (f : subrow -> subrow) u u0 l : (forall r, s_user r = u -> s_user (f r) = u) ->
  find_sub u0 (upd_sub u f l) = if N.eqb u0 u then option_map f (find_sub u0 l) else find_sub u0 l.
Proof.
  intros Hf. unfold find_sub, upd_sub. induction l as [|a l IH]; cbn; [destruct (N.eqb u0 u); reflexivity|].
  destruct (N.eqb (s_user a) u) eqn:E1.
  - apply N.eqb_eq in E1. rewrite (Hf a E1). rewrite E1.
    destruct (N.eqb u u0) eqn:E2.
    + apply N.eqb_eq in E2. subst u0. rewrite N.eqb_refl. reflexivity.
    + rewrite IH. rewrite (N.eqb_sym u0 u), E2. reflexivity.
  - destruct (N.eqb (s_user a) u0) eqn:E2.
    + apply N.eqb_eq in E2. subst u0. rewrite E1. reflexivity.
    + exact IH.
Qed.
Lemma find_sub_app u0 l row :
  find_sub u0 (l ++ [row]) = match find_sub u0 l with Some r => Some r | None => if N.eqb (s_user row) u0 then Some row else None end.
Proof.
  unfold find_sub. induction l as [|a l IH]; cbn; [destruct (N.eqb (s_user row) u0); reflexivity|].
  destruct (N.eqb (s_user a) u0); [reflexivity|exact IH].
Qed.
Lemma find_sub_user u l r : find_sub u l = Some r -> s_user r = u.
Proof. unfold find_sub. intros H. apply find_some in H. destruct H as [_ H]. now apply N.eqb_eq in H. Qed.

Lemma sk_owner v s u : sk (st_owner v s) u = sk s u. Proof. reflexivity. Qed.
Lemma sk_dellog f s u : sk (st_dellog f s) u = sk s u. Proof. reflexivity. Qed.
Lemma sk_msgs f s u : sk (st_msgs f s) u = sk s u. Proof. reflexivity. Qed.
Lemma sk_seqid v s u : sk (st_seqid v s) u = sk s u. Proof. reflexivity. Qed.
Lemma sk_delid v s u : sk (st_delid v s) u = sk s u. Proof. reflexivity. Qed.
Lemma sk_delete_list s d fu rs u : sk (ad_msg_delete_list s d fu rs) u = sk s u.
Proof. unfold ad_msg_delete_list. break_match; reflexivity. Qed.
Lemma sk_msg_save s seq from content s2 u : ad_msg_save s seq from content = Some s2 -> sk s2 u = sk s u.
Proof. unfold ad_msg_save. break_match; intros H; inv H. reflexivity. Qed.

(* an update without marks (modes, delid) is invisible *)
Lemma sk_update_nomarks s u w g d u0 : sk (ad_subs_update s u (mkUpd w g None None d)) u0 = sk s u0.
Proof.
  unfold sk, ad_subs_update. break_match; cbn [subs st_subs].
  - rewrite find_sub_map by reflexivity. destruct (find_sub u0 (subs s)); reflexivity.
  - rewrite find_sub_upd by (intros r Hr; exact Hr). destruct (N.eqb u0 u); destruct (find_sub u0 (subs s)); reflexivity.
Qed.
Definition set_marks (rd rc : option Z) (a : bool * Z * Z) : bool * Z * Z :=
  let '(d, r0, c0) := a in (d, match rd with Some v => v | None => r0 end, match rc with Some v => v | None => c0 end).
Lemma sk_update_marks s u rd rc u0 : (u =? 0)%N = false ->
  sk (ad_subs_update s u (mkUpd None None rd rc None)) u0 = if N.eqb u0 u then option_map (set_marks rd rc) (sk s u0) else sk s u0.
Proof.
  intros NZ. unfold sk, ad_subs_update. rewrite NZ. cbn [subs st_subs].
  rewrite find_sub_upd by (intros r Hr; exact Hr). destruct (N.eqb u0 u); destruct (find_sub u0 (subs s)); reflexivity.
Qed.
Lemma sk_sub_create s u w g u0 : sk (ad_sub_create s u w g) u0 = if N.eqb u0 u then Some (false, 0, 0) else sk s u0.
Proof.
  unfold sk, ad_sub_create.
  assert (forall s1, subs (if is_owner (N.land w g) then st_owner u s1 else s1) = subs s1) as E by (intros; break_match; reflexivity).
  rewrite E. destruct (find_sub u (subs s)) eqn:F; cbn [subs st_subs].
  - rewrite find_sub_upd by reflexivity. destruct (N.eqb u0 u) eqn:E0; [|reflexivity].
    apply N.eqb_eq in E0. subst u0. rewrite F. reflexivity.
  - rewrite find_sub_app. cbn [s_user]. destruct (N.eqb u0 u) eqn:E0.
    + apply N.eqb_eq in E0. subst u0. rewrite F, N.eqb_refl. reflexivity.
    + rewrite (N.eqb_sym u u0), E0. destruct (find_sub u0 (subs s)); reflexivity.
Qed.
Definition set_deleted (a : bool * Z * Z) : bool * Z * Z := let '(d, r0, c0) := a in (true, r0, c0).
Lemma sk_subs_delete s u s' u0 : ad_subs_delete s u = Some s' ->
  sk s' u0 = if N.eqb u0 u then option_map set_deleted (sk s u0) else sk s u0.
Proof.
  unfold ad_subs_delete. break_match; intros H; inv H. unfold sk. cbn [subs st_subs st_dellog].
  rewrite find_sub_upd by (intros r Hr; exact Hr). destruct (N.eqb u0 u); destruct (find_sub u0 (subs s)); reflexivity.
Qed.
(* SubscriptionGet as the handlers use it *)
Lemma sk_get_keep s u : sk s u = option_map rk (ad_sub_get s u true).
Proof. unfold sk, ad_sub_get. destruct (find_sub u (subs s)); [rewrite andb_false_r|]; reflexivity. Qed.
Lemma sk_get_live s u : ad_sub_get s u false = None -> match sk s u with Some (false, _, _) => False | _ => True end.
Proof.
  unfold sk, ad_sub_get. destruct (find_sub u (subs s)) as [r|]; cbn; [|auto].
  rewrite andb_true_r. destruct (s_deleted r); [auto|discriminate].
Qed.

Lemma sk_delete_none s u : ad_subs_delete s u = None -> match sk s u with Some (false, _, _) => False | _ => True end.
Proof. unfold ad_subs_delete. intros H. apply sk_get_live. destruct (ad_sub_get s u false); [discriminate|reflexivity]. Qed.
Lemma sk_get_some s u r : ad_sub_get s u true = Some r -> sk s u = Some (s_deleted r, s_read r, s_recv r).
Proof. intros H. rewrite sk_get_keep, H. reflexivity. Qed.
Lemma sk_get_none s u : ad_sub_get s u true = None -> sk s u = None.
Proof. intros H. rewrite sk_get_keep, H. reflexivity. Qed.

(* ---------- one row per user ---------- *)
Definition und (s : store) : Prop := NoDup (map s_user (subs s)).
Lemma users_upd_sub u f l : (forall r, s_user r = u -> s_user (f r) = u) -> map s_user (upd_sub u f l) = map s_user l.
Proof.
  intros Hf. unfold upd_sub. rewrite map_map. apply map_ext_in. intros r _.
  destruct (N.eqb (s_user r) u) eqn:E; [|reflexivity]. apply N.eqb_eq in E. rewrite (Hf r E). now rewrite E.
Qed.
Lemma find_sub_none_notin u l : find_sub u l = None -> ~ In u (map s_user l).
Proof.
  unfold find_sub. intros H Hin. apply in_map_iff in Hin. destruct Hin as [r [E Hr]].
  apply (find_none _ _ H) in Hr. subst u. rewrite N.eqb_refl in Hr. discriminate.
Qed.
Lemma und_subs_update s u up : und s -> und (ad_subs_update s u up).
Proof.
  unfold und, ad_subs_update. intros H. break_match; cbn [subs st_subs].
  - rewrite map_map. cbn [apply_upd s_user]. rewrite <- map_map with (f := fun x => x) (g := s_user). now rewrite map_id.
  - rewrite users_upd_sub; [exact H|]. intros r Hr. exact Hr.
Qed.
Lemma und_sub_create s u w g : und s -> und (ad_sub_create s u w g).
Proof.
  unfold und, ad_sub_create. intros H.
  assert (forall s1, subs (if is_owner (N.land w g) then st_owner u s1 else s1) = subs s1) as E by (intros; break_match; reflexivity).
  rewrite E. destruct (find_sub u (subs s)) eqn:F; cbn [subs st_subs].
  - rewrite users_upd_sub; [exact H|reflexivity].
  - rewrite map_app. cbn [map s_user]. apply NoDup_app_single; [exact H|]. now apply find_sub_none_notin.
Qed.
Lemma und_subs_delete s u s' : ad_subs_delete s u = Some s' -> und s -> und s'.
Proof.
  unfold und, ad_subs_delete. break_match; intros H; inv H. cbn [subs st_subs st_dellog]. intros H.
  rewrite users_upd_sub; [exact H|]. intros r Hr. exact Hr.
Qed.
Lemma und_sframe_msgs s s' : subs s' = subs s -> und s -> und s'.
Proof. unfold und. intros ->. auto. Qed.

(* ---------- load: the cache is the live rows ---------- *)
Lemma load_users_lookup u0 rows : NoDup (map s_user rows) -> forall acc,
  alookup u0 (fold_left (fun acc r =>
    if s_deleted r then acc
    else aset (s_user r) (mkPud (s_want r) (s_given r) (s_read r) (s_recv r) (s_delid r) 0) acc) rows acc) =
  match find_sub u0 rows with
  | Some r => if s_deleted r then alookup u0 acc else Some (mkPud (s_want r) (s_given r) (s_read r) (s_recv r) (s_delid r) 0)
  | None => alookup u0 acc
  end.
Proof.
  induction rows as [|r rows IH]; intros ND acc; cbn [fold_left]; [reflexivity|].
  cbn [map] in ND. inversion ND as [|? ? Hnotin ND']; subst.
  rewrite (IH ND'). unfold find_sub. cbn [find]. fold (find_sub u0 rows).
  destruct (N.eqb (s_user r) u0) eqn:E.
  - apply N.eqb_eq in E. subst u0.
    assert (find_sub (s_user r) rows = None) as FN.
    { destruct (find_sub (s_user r) rows) as [r2|] eqn:F2; [|reflexivity]. exfalso. apply Hnotin.
      apply in_map_iff. exists r2. split; [now apply find_sub_user in F2|]. unfold find_sub in F2. now apply find_some in F2. }
    rewrite FN. destruct (s_deleted r); [reflexivity|]. rewrite alookup_aset, N.eqb_refl. reflexivity.
  - destruct (find_sub u0 rows) as [r2|]; destruct (s_deleted r); try reflexivity;
      rewrite alookup_aset; rewrite (N.eqb_sym u0 (s_user r)), E; reflexivity.
Qed.
Lemma mk_load s u0 : und s ->
  mk (load s) u0 = match sk s u0 with Some (false, rd, rc) => Some (rd, rc) | _ => None end.
Proof.
  intros ND. unfold mk, load, load_users, sk. cbn [c_users]. rewrite (load_users_lookup u0 (subs s) ND []).
  destruct (find_sub u0 (subs s)) as [r|]; cbn; [|reflexivity]. destruct (s_deleted r); reflexivity.
Qed.

(* ---------- store not ahead of the cache; stored marks monotone ---------- *)
Definition cohP (a : option (bool * Z * Z)) (b : option (Z * Z)) : Prop :=
  match a with
  | Some (false, rd, rc) => match b with Some (rd', rc') => rd <= rd' /\ rc <= rc' | None => False end
  | _ => True
  end.
Definition coh (s : store) (c : cache) : Prop := forall u, cohP (sk s u) (mk c u).
Definition smP (a a' : option (bool * Z * Z)) : Prop :=
  match a, a' with
  | Some (false, rd, rc), Some (false, rd', rc') => rd <= rd' /\ rc <= rc'
  | _, _ => True
  end.
Definition smono (s s' : store) : Prop := forall u, smP (sk s u) (sk s' u).
Definition good (s : store) (h : hres) : Prop := coh (h_st h) (h_ca h) /\ smono s (h_st h).

Lemma smP_refl a : smP a a.
Proof. destruct a as [[[[|] rd] rc]|]; cbn; auto. lia. Qed.
Lemma smono_refl s : smono s s. Proof. intros u. apply smP_refl. Qed.

Lemma mk_evict_keep c u k c' o u0 : evict_user c u false k = (c', o) -> mk c' u0 = mk c u0.
Proof.
  unfold evict_user. intros H. inv H. break_match.
  - rewrite mk_aset, mk_sess. destruct (N.eqb u0 u) eqn:E; [|reflexivity].
    apply N.eqb_eq in E. subst u0. unfold mk. cbn [c_users c_set_sess] in Heqo. rewrite Heqo. reflexivity.
  - rewrite mk_sess. reflexivity.
Qed.
Lemma mk_evict_unsub c u k c' o u0 : evict_user c u true k = (c', o) -> mk c' u0 = if N.eqb u0 u then None else mk c u0.
Proof. unfold evict_user. intros H. inv H. rewrite mk_aremove, mk_sess. reflexivity. Qed.

Lemma mk_some c u p : alookup u (c_users c) = Some p -> mk c u = Some (p_read p, p_recv p).
Proof. unfold mk. now intros ->. Qed.
Lemma mk_none c u : alookup u (c_users c) = None -> mk c u = None.
Proof. unfold mk. now intros ->. Qed.
Lemma marks_get_pud c u : mk c u = Some (p_read (get_pud c u), p_recv (get_pud c u)) \/ (mk c u = None /\ p_read (get_pud c u) = 0 /\ p_recv (get_pud c u) = 0).
Proof. unfold mk, get_pud. destruct (alookup u (c_users c)); [left|right]; auto. Qed.

Lemma gp_sess f c u : get_pud (c_set_sess f c) u = get_pud c u. Proof. reflexivity. Qed.
Lemma gp_owner v c u : get_pud (c_set_owner v c) u = get_pud c u. Proof. reflexivity. Qed.
Lemma gp_delid v c u : get_pud (c_set_delid v c) u = get_pud c u. Proof. reflexivity. Qed.
Lemma gp_lastid v c u : get_pud (c_set_lastid v c) u = get_pud c u. Proof. reflexivity. Qed.
Lemma gp_aset k q c u : get_pud (c_set_users (aset k q) c) u = if N.eqb u k then q else get_pud c u.
Proof. unfold get_pud. cbn [c_users c_set_users]. rewrite alookup_aset. destruct (N.eqb u k); reflexivity. Qed.
Ltac gp_rw := repeat first [ rewrite gp_sess | rewrite gp_owner | rewrite gp_delid | rewrite gp_lastid | rewrite gp_aset ].

(* leaf automation *)
Ltac sk_rw :=
  repeat first [ rewrite sk_owner | rewrite sk_dellog | rewrite sk_msgs | rewrite sk_seqid | rewrite sk_delid
               | rewrite sk_delete_list | rewrite sk_update_nomarks | rewrite sk_sub_create
               | match goal with H : ad_subs_delete _ _ = Some ?s' |- context [sk ?s' _] => rewrite (sk_subs_delete _ _ _ _ H) end
               | match goal with H : ad_msg_save _ _ _ _ = Some ?s' |- context [sk ?s' _] => rewrite (sk_msg_save _ _ _ _ _ _ H) end ].
Ltac mkc_rw :=
  repeat first [ rewrite mk_sess | rewrite mk_owner | rewrite mk_delid | rewrite mk_lastid
               | rewrite mk_aset | rewrite mk_aremove | rewrite mk_mapdel
               | match goal with H : evict_user _ _ false _ = (?c', _) |- context [mk ?c' _] => rewrite (mk_evict_keep _ _ _ _ _ _ H) end
               | match goal with H : evict_user _ _ true _ = (?c', _) |- context [mk ?c' _] => rewrite (mk_evict_unsub _ _ _ _ _ _ H) end ].
(* facts about the users mentioned in the goal *)
Ltac facts HC s c :=
  repeat match goal with
         | H : alookup _ (c_users (c_set_sess _ _)) = _ |- _ => cbn [c_users c_set_sess] in H
         end;
  repeat match goal with
         | H : alookup ?k (c_users c) = Some _ |- _ => apply mk_some in H
         | H : alookup ?k (c_users c) = None |- _ => apply mk_none in H
         | H : ad_subs_delete s ?k = None |- _ => apply sk_delete_none in H
         | H : ad_sub_get s ?k true = Some _ |- _ => apply sk_get_some in H
         | H : ad_sub_get s ?k true = None |- _ => apply sk_get_none in H
         end;
  repeat match goal with
         | |- context [get_pud c ?k] =>
           lazymatch goal with
           | _ : mk c k = Some (p_read (get_pud c k), _) |- _ => fail
           | _ : p_read (get_pud c k) = 0 |- _ => fail
           | _ => destruct (marks_get_pud c k) as [?|[? [? ?]]]
           end
         end;
  repeat match goal with
         | |- context [sk s ?k] =>
           lazymatch goal with
           | _ : cohP (sk s k) (mk c k) |- _ => fail
           | _ => pose proof (HC k)
           end
         end;
  repeat match goal with
         | |- context [mk c ?k] =>
           lazymatch goal with
           | _ : cohP (sk s k) (mk c k) |- _ => fail
           | _ => pose proof (HC k)
           end
         end.
(* only the goal and the hypotheses produced by [facts] are touched: the handlers leave huge
   irrelevant equations in the context *)
Ltac crush :=
  unfold cohP, smP, set_deleted, set_marks;
  repeat match goal with
         | H : cohP _ _ |- _ => unfold cohP in H
         end;
  repeat match goal with
         | H : mk _ _ = _ |- _ => rewrite H;
             repeat match goal with H2 : match mk _ _ with _ => _ end |- _ => rewrite H in H2
                                  | H2 : match sk _ _ with _ => _ end |- _ => rewrite H in H2 end;
             revert H
         | H : sk _ _ = _ |- _ => rewrite H;
             repeat match goal with H2 : match sk _ _ with _ => _ end |- _ => rewrite H in H2 end;
             revert H
         end;
  intros;
  repeat match goal with
         | H : s_deleted _ = _ |- _ => rewrite H in *; revert H
         end;
  intros;
  cbn [option_map p_read p_recv p_set_modes p_set_online p_set_delid p_set_marks];
  repeat match goal with
         | H : match ?x with _ => _ end |- _ => destruct x eqn:?
         | |- context [match ?x with _ => _ end] => destruct x eqn:?
         end;
  repeat match goal with H : Some _ = Some _ |- _ => inv H | H : (_, _) = (_, _) |- _ => inv H end;
  cbn [option_map p_read p_recv p_set_modes p_set_online p_set_delid p_set_marks] in *;
  try discriminate; try tauto; try lia.
Ltac leaf HC s c :=
  let u0 := fresh "u0" in
  intros u0; sk_rw; mkc_rw; gp_rw;
  repeat match goal with
         | |- context [N.eqb u0 ?k] =>
           let E := fresh "E" in destruct (N.eqb u0 k) eqn:E; [apply N.eqb_eq in E; subst u0|]
         end;
  rewrite ?N.eqb_refl;
  repeat match goal with
         | |- context [N.eqb ?a ?b] =>
           let E := fresh "E" in destruct (N.eqb a b) eqn:E; [apply N.eqb_eq in E; try subst|]
         end;
  facts HC s c; crush.
Ltac good_solve HC s c :=
  repeat match goal with
         | H : context [better_equal] |- _ => clear H
         | H : context [unmarshal_text] |- _ => clear H
         | H : call _ _ = _ |- _ => clear H
         | H : negb _ = _ |- _ => clear H
         end;
  cbn [fst snd h_st h_ca]; unfold good; cbn [h_st h_ca];
  split; [leaf HC s c | first [apply smono_refl | leaf HC s c]].

Lemma leave_unsub_good f s c n sid u : coh s c -> good s (leave_unsub f s c n sid u).
Proof. intros HC. unfold leave_unsub. repeat break_match; good_solve HC s c. Qed.
Lemma del_sub_good f s c n sid u t : coh s c -> good s (del_sub f s c n sid u t).
Proof.
  intros HC. unfold del_sub. repeat break_match; repeat break_match_hyp;
    repeat match goal with H : (_, _) = (?a, ?b) |- _ => injection H as ? ?; subst a b end; good_solve HC s c.
Qed.
Lemma del_msg_good dr f s c n sid u req hard : coh s c -> good s (del_msg dr f s c n sid u req hard).
Proof. intros HC. unfold del_msg. repeat break_match; good_solve HC s c. Qed.
Lemma leave_coh s c sid u : coh s c -> coh s (fst (leave c sid u)).
Proof. intros HC. unfold leave. repeat break_match; cbn [fst]; leaf HC s c. Qed.
Lemma aus_good f s c n sid u t m : coh s c -> good s (fst (another_user_sub f s c n sid u t m)).
Proof. intros HC. unfold another_user_sub. repeat break_match; good_solve HC s c. Qed.
Lemma tus_good f s c n sid u want nb : coh s c -> good s (fst (this_user_sub f s c n sid u want nb)).
Proof. intros HC. unfold this_user_sub. repeat break_match; good_solve HC s c. Qed.

Lemma sub_reply_good f s c n sid u want bkg : coh s c -> good s (sub_reply f s c n sid u want bkg).
Proof.
  intros HC. unfold sub_reply.
  pose proof (tus_good f s c n sid u want (match alookup u (c_users c) with Some _ => false | None => true end) HC) as [HC' HM].
  destruct (this_user_sub f s c n sid u want _) as [h r]. cbn [fst] in *.
  destruct r as [code|ch]; unfold good; cbn [h_st h_ca]; [split; assumption|].
  split; [|exact HM]. repeat break_match; try exact HC'; leaf HC' (h_st h) (h_ca h).
Qed.
Lemma set_sub_good f s c n sid u t m : coh s c -> good s (set_sub f s c n sid u t m).
Proof.
  intros HC. unfold set_sub.
  pose proof (tus_good f s c n sid u m false HC) as G1. pose proof (aus_good f s c n sid u t m HC) as G2.
  destruct ((t =? 0)%N || (t =? u)%N);
    [destruct (this_user_sub f s c n sid u m false) as [h r]
    |destruct (another_user_sub f s c n sid u t m) as [h r]]; cbn [fst] in *;
    repeat break_match; unfold good in *; cbn [h_st h_ca]; assumption.
Qed.

