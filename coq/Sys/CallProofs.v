(* Lemmas about the call model Sys/Call.v (C15).  The theorems of Props/PropC15.v are
   closed by [exact] of these. *)
From Coq Require Import ZArith NArith List Bool Lia.
From Tinode Require Import Sys.Call.
Import ListNotations.
Open Scope Z_scope.

Ltac dmatch_hyp H :=
  repeat match type of H with
  | context [match ?x with _ => _ end] => destruct x eqn:?
  end.

Ltac inv H := inversion H; subst; clear H.

(* ------------------------------------------------------------------ *)
(* helpers *)
Definition is_some {A} (o : option A) : bool := match o with Some _ => true | None => false end.

(* the connection can issue requests *)
Definition live (cfg : config) (st : state) (s : sid) : Prop := known cfg s = true /\ mem s (dead st) = false.

Lemma step_live cfg st o s : op_sid o = Some s -> live cfg st s ->
  step cfg st o = (fst (step_raw cfg st o), filter (fun so => negb (mem (fst so) (dead (fst (step_raw cfg st o))))) (snd (step_raw cfg st o))).
Proof.
  intros Hs [Hk Hd]. unfold step. rewrite Hs, Hk, Hd. cbn. destruct (step_raw cfg st o); reflexivity.
Qed.

Lemma step_not_live cfg st o s : op_sid o = Some s -> ~ live cfg st s -> step cfg st o = (st, []).
Proof.
  intros Hs Hn. unfold step. rewrite Hs. destruct (known cfg s) eqn:Hk; cbn; [|reflexivity].
  destruct (mem s (dead st)) eqn:Hd; [reflexivity|]. exfalso. apply Hn. split; assumption.
Qed.

Lemma step_fst cfg st o : fst (step cfg st o) = st \/ fst (step cfg st o) = fst (step_raw cfg st o).
Proof.
  unfold step. destruct (op_sid o).
  - destruct (negb (known cfg s) || mem s (dead st)); [left; reflexivity|]. right. destruct (step_raw cfg st o); reflexivity.
  - right. destruct (step_raw cfg st o); reflexivity.
Qed.

Lemma step_out_incl cfg st o x f : In (x, f) (snd (step cfg st o)) -> In (x, f) (snd (step_raw cfg st o)).
Proof.
  unfold step. destruct (op_sid o).
  - destruct (negb (known cfg s) || mem s (dead st)); [intros []|]. destruct (step_raw cfg st o); cbn. intros H. apply filter_In in H. tauto.
  - destruct (step_raw cfg st o); cbn. intros H. apply filter_In in H. tauto.
Qed.

(* saveAndBroadcastMessage *)
Definition new_msg (cfg : config) (st : state) (msess : sid) (u : uid) (repl : option Z) (w : option wstate) (content : N) : msg :=
  mkMsg (lastid st + 1) u repl w (if N.eqb (user_of cfg msess) u then 0%N else user_of cfg msess) content.

Lemma sab_cases cfg st ms hid u r w c :
  (writer st u = false /\ save_and_broadcast cfg st ms hid u r w c = (st, [(ms, FCtrl 403 None)], false)) \/
  (writer st u = true /\
   save_and_broadcast cfg st ms hid u r w c =
     (add_msg (new_msg cfg st ms u r w c) st,
      (if hid then [(ms, FCtrl 202 (Some (lastid st + 1)))] else []) ++ bcast_data cfg (add_msg (new_msg cfg st ms u r w c) st) (new_msg cfg st ms u r w c),
      true)).
Proof.
  unfold save_and_broadcast. destruct (writer st u); cbn; [right|left]; split; reflexivity.
Qed.

(* ------------------------------------------------------------------ *)
(* c15_stale_ignored *)
Lemma hce_stale cfg st s e q p :
  (current st = None \/ exists c, current st = Some c /\ c_seq c <> q) ->
  handle_call_event cfg st s e q p = (st, []).
Proof.
  intros H. unfold handle_call_event, handle_call_event_with. destruct (current st) as [c|]; [|reflexivity].
  destruct H as [H|[c' [H Hq]]]; [discriminate|]. inv H.
  destruct (c_seq c' =? q) eqn:E; [apply Z.eqb_eq in E; contradiction|reflexivity].
Qed.

Lemma stale_raw cfg st s e q p :
  (current st = None \/ exists c, current st = Some c /\ c_seq c <> q) ->
  step_raw cfg st (OEvent s e q p) = (st, []) \/ step_raw cfg st (OEvent s e q p) = (st, [(s, FCtrl 409 None)]).
Proof.
  intros H. cbn [step_raw]. rewrite (hce_stale _ _ _ _ _ _ H).
  destruct (q <=? 0); [left; reflexivity|].
  destruct (mem s (attached st) || hub_routed e && loaded st).
  - destruct (lastid st <? q); left; reflexivity.
  - destruct (hub_routed e); [left|right]; reflexivity.
Qed.

Lemma stale_ignored cfg st s e q p st' os :
  (current st = None \/ exists c, current st = Some c /\ c_seq c <> q) ->
  step cfg st (OEvent s e q p) = (st', os) ->
  st' = st /\ (os = [] \/ os = [(s, FCtrl 409 None)]).
Proof.
  intros H Hs. unfold step in Hs. cbn [op_sid] in Hs.
  destruct (negb (known cfg s) || mem s (dead st)) eqn:Hl; [inv Hs; auto|].
  apply orb_false_iff in Hl. destruct Hl as [_ Hd].
  destruct (stale_raw cfg st s e q p H) as [E|E]; rewrite E in Hs; inv Hs; cbn; [auto|].
  rewrite Hd. cbn. auto.
Qed.

(* ------------------------------------------------------------------ *)
(* c15_gate *)
Definition gate_ok (cfg : config) (st : state) (s : sid) : bool :=
  configured cfg && mem s (attached st) && writer st (user_of cfg s) && negb (is_some (current st)).

Definition invite_state (cfg : config) (st : state) (s : sid) (content w : N) : state :=
  set_timer true (set_current (Some (mkCall (user_of cfg s) s None (lastid st + 1) content))
    (add_msg (new_msg cfg st s (user_of cfg s) None (Some (WClient w)) content) st)).

Definition refusal_code (cfg : config) (st : state) (s : sid) : Z :=
  if negb (mem s (attached st)) then 409 else if negb (configured cfg) then 501
  else if is_some (current st) then 486 else 403.

Lemma gate_raw cfg st s content w :
  (gate_ok cfg st s = true /\
   step_raw cfg st (OInvite s content w) =
     (invite_state cfg st s content w,
      (s, FCtrl 202 (Some (lastid st + 1))) ::
        bcast_data cfg (add_msg (new_msg cfg st s (user_of cfg s) None (Some (WClient w)) content) st)
          (new_msg cfg st s (user_of cfg s) None (Some (WClient w)) content))) \/
  (gate_ok cfg st s = false /\
   step_raw cfg st (OInvite s content w) = (st, [(s, FCtrl (refusal_code cfg st s) None)])).
Proof.
  unfold gate_ok, refusal_code. cbn [step_raw].
  destruct (mem s (attached st)); cbn; [|right; rewrite andb_false_r; auto].
  destruct (configured cfg); cbn; [|right; auto].
  destruct (current st) eqn:Hc; cbn; [right; rewrite andb_false_r; auto|].
  destruct (sab_cases cfg st s true (user_of cfg s) None (Some (WClient w)) content) as [[Hw E]|[Hw E]]; rewrite E, Hw; cbn.
  - right. auto.
  - left. split; [reflexivity|]. unfold invite_state. reflexivity.
Qed.

Lemma dead_add_msg m st : dead (add_msg m st) = dead st. Proof. reflexivity. Qed.

Lemma gate cfg st s content w st' os :
  live cfg st s ->
  step cfg st (OInvite s content w) = (st', os) ->
  (gate_ok cfg st s = true ->
     st' = invite_state cfg st s content w /\ In (s, FCtrl 202 (Some (lastid st + 1))) os) /\
  (gate_ok cfg st s = false ->
     st' = st /\ os = [(s, FCtrl (refusal_code cfg st s) None)]) /\
  (configured cfg = true -> mem s (attached st) = true -> current st <> None ->
     st' = st /\ os = [(s, FCtrl 486 None)]).
Proof.
  intros Hl Hs. rewrite (step_live cfg st (OInvite s content w) s eq_refl Hl) in Hs. destruct Hl as [_ Hd].
  destruct (gate_raw cfg st s content w) as [[Hok E]|[Hok E]]; rewrite E in Hs; cbn [fst snd] in Hs; injection Hs as Hst Hos; subst st' os.
  - split; [|split].
    + intros _. split; [reflexivity|]. cbn. rewrite Hd. cbn. left. reflexivity.
    + rewrite Hok. discriminate.
    + intros Hc Ha Hcur. unfold gate_ok in Hok. destruct (current st); [|contradiction].
      rewrite andb_false_r in Hok. discriminate.
  - split; [|split].
    + rewrite Hok. discriminate.
    + intros _. split; [reflexivity|]. cbn. rewrite Hd. reflexivity.
    + intros Hc Ha Hcur. split; [reflexivity|]. cbn. rewrite Hd. cbn. unfold refusal_code. rewrite Ha, Hc.
      destruct (current st); [reflexivity|contradiction].
Qed.

(* ------------------------------------------------------------------ *)
(* c15_roles *)
Definition quiet (s : sid) (os : list out) : Prop :=
  forall x f, In (x, f) os -> x = s /\ exists code, f = FCtrl code None.

Definition role_ok (cfg : config) (c : call) (s : sid) (e : event) : Prop :=
  match e with
  | EvRinging | EvAccept => accepted c = false /\ s <> c_osid c /\ user_of cfg s <> c_ouid c
  | EvOffer | EvAnswer | EvIce => accepted c = true /\ is_party c s = true
  | EvHangup => if accepted c then is_party c s = true else (s = c_osid c \/ user_of cfg s <> c_ouid c)
  | EvUnknown => False
  end.

Lemma quiet_nil s : quiet s []. Proof. intros x f []. Qed.
Lemma quiet_one s code : quiet s [(s, FCtrl code None)].
Proof. intros x f [H|[]]. inv H. split; [reflexivity|eexists; reflexivity]. Qed.
#[export] Hint Resolve quiet_nil quiet_one : core.

Lemma hce_roles cfg st s e q p :
  (handle_call_event cfg st s e q p = (st, []) \/ handle_call_event cfg st s e q p = (st, [(s, FCtrl 403 None)])) \/
  exists c, current st = Some c /\ c_seq c = q /\ participant st (user_of cfg s) = true /\ role_ok cfg c s e.
Proof.
  unfold handle_call_event, handle_call_event_with.
  destruct (current st) as [c|] eqn:Hc; [|auto].
  destruct (c_seq c =? q) eqn:Hq; cbn; [|auto]. apply Z.eqb_eq in Hq.
  destruct (lookup (user_of cfg s) (users st)) as [pd|] eqn:Hu; [|auto].
  destruct (p_deleted pd) eqn:Hdel; [auto|].
  assert (Hne : participant st (user_of cfg s) = true) by (unfold participant; rewrite Hu, Hdel; reflexivity).
  destruct e.
  - (* ringing *)
    destruct (accepted c) eqn:Ha; [auto|].
    destruct (N.eqb (c_osid c) s) eqn:E1; cbn; [auto|].
    destruct (N.eqb (c_ouid c) (user_of cfg s)) eqn:E2; cbn; [auto|].
    right. exists c. repeat split; auto; try discriminate.
    + intros X. rewrite X, N.eqb_refl in E1. discriminate.
    + intros X. rewrite X, N.eqb_refl in E2. discriminate.
  - (* accept *)
    destruct (accepted c) eqn:Ha; [auto|].
    destruct (N.eqb (c_osid c) s) eqn:E1; cbn; [auto|].
    destruct (N.eqb (c_ouid c) (user_of cfg s)) eqn:E2; cbn; [auto|].
    right. exists c. repeat split; auto; try discriminate.
    + intros X. rewrite X, N.eqb_refl in E1. discriminate.
    + intros X. rewrite X, N.eqb_refl in E2. discriminate.
  - destruct (c_callee c) as [[ks ku]|] eqn:Hk; [|auto].
    destruct (N.eqb s (c_osid c)) eqn:E1.
    + right. exists c. repeat split; auto; try discriminate. unfold accepted; rewrite Hk; auto. unfold is_party. rewrite E1. auto.
    + destruct (N.eqb s ks) eqn:E2; [|auto]. right. exists c. repeat split; auto; try discriminate. unfold accepted; rewrite Hk; auto.
      unfold is_party. rewrite Hk, E2. apply orb_true_r.
  - destruct (c_callee c) as [[ks ku]|] eqn:Hk; [|auto].
    destruct (N.eqb s (c_osid c)) eqn:E1.
    + right. exists c. repeat split; auto; try discriminate. unfold accepted; rewrite Hk; auto. unfold is_party. rewrite E1. auto.
    + destruct (N.eqb s ks) eqn:E2; [|auto]. right. exists c. repeat split; auto; try discriminate. unfold accepted; rewrite Hk; auto.
      unfold is_party. rewrite Hk, E2. apply orb_true_r.
  - destruct (c_callee c) as [[ks ku]|] eqn:Hk; [|auto].
    destruct (N.eqb s (c_osid c)) eqn:E1.
    + right. exists c. repeat split; auto; try discriminate. unfold accepted; rewrite Hk; auto. unfold is_party. rewrite E1. auto.
    + destruct (N.eqb s ks) eqn:E2; [|auto]. right. exists c. repeat split; auto; try discriminate. unfold accepted; rewrite Hk; auto.
      unfold is_party. rewrite Hk, E2. apply orb_true_r.
  - (* hang-up *)
    destruct (accepted c) eqn:Ha.
    + destruct (is_party c s) eqn:Hp; cbn; [|auto]. right. exists c. repeat split; auto; try discriminate. cbn. rewrite Ha. assumption.
    + destruct (N.eqb (user_of cfg s) (c_ouid c)) eqn:E1; cbn.
      * destruct (N.eqb (c_osid c) s) eqn:E2; cbn; [|auto]. right. exists c. repeat split; auto; try discriminate. cbn. rewrite Ha.
        left. apply N.eqb_eq in E2. auto.
      * right. exists c. repeat split; auto; try discriminate. cbn. rewrite Ha. right. intros X. rewrite X, N.eqb_refl in E1. discriminate.
  - auto.
Qed.

Lemma quiet_filter s (P : out -> bool) os : quiet s os -> quiet s (filter P os).
Proof. intros H x f Hin. apply filter_In in Hin. apply H. tauto. Qed.

Lemma event_raw_cases cfg st s e q p :
  step_raw cfg st (OEvent s e q p) = (st, []) \/ step_raw cfg st (OEvent s e q p) = (st, [(s, FCtrl 409 None)]) \/
  (step_raw cfg st (OEvent s e q p) = handle_call_event cfg st s e q p /\ 0 < q <= lastid st /\
   (mem s (attached st) = true \/ (hub_routed e = true /\ loaded st = true))).
Proof.
  cbn [step_raw]. destruct (q <=? 0) eqn:E0; [auto|]. apply Z.leb_gt in E0.
  destruct (mem s (attached st)) eqn:Ha; cbn.
  - destruct (lastid st <? q) eqn:E1; [auto|]. apply Z.ltb_ge in E1. right. right. repeat split; auto; lia.
  - destruct (hub_routed e) eqn:Hh; cbn; [|auto]. destruct (loaded st) eqn:Hl; [|auto].
    destruct (lastid st <? q) eqn:E1; [auto|]. apply Z.ltb_ge in E1. right. right. repeat split; auto; lia.
Qed.

Lemma step_eq cfg st o st' os :
  step cfg st o = (st', os) ->
  (st' = st /\ os = []) \/
  (st' = fst (step_raw cfg st o) /\
   os = filter (fun so => negb (mem (fst so) (dead (fst (step_raw cfg st o))))) (snd (step_raw cfg st o)) /\
   forall s, op_sid o = Some s -> live cfg st s).
Proof.
  unfold step. destruct (op_sid o) as [s|] eqn:Ho.
  - destruct (known cfg s) eqn:Hk; cbn; [|intros H; injection H as <- <-; auto].
    destruct (mem s (dead st)) eqn:Hd; [intros H; injection H as <- <-; auto|].
    destruct (step_raw cfg st o). intros H. injection H as <- <-. right. split; [reflexivity|]. split; [reflexivity|].
    intros s' Hs'. injection Hs' as <-. split; assumption.
  - destruct (step_raw cfg st o). intros H. injection H as <- <-. right. split; [reflexivity|]. split; [reflexivity|]. discriminate.
Qed.

Lemma roles cfg st s e q p st' os :
  step cfg st (OEvent s e q p) = (st', os) ->
  (st' = st /\ quiet s os) \/
  exists c, current st = Some c /\ c_seq c = q /\ participant st (user_of cfg s) = true /\ role_ok cfg c s e.
Proof.
  intros Hs. apply step_eq in Hs. destruct Hs as [[-> ->]|[-> [-> _]]]; [auto|].
  destruct (event_raw_cases cfg st s e q p) as [E|[E|[E _]]]; rewrite E; cbn [fst snd].
  - left. split; [reflexivity|]. apply quiet_filter. auto.
  - left. split; [reflexivity|]. apply quiet_filter. auto.
  - destruct (hce_roles cfg st s e q p) as [[E'|E']|H]; [| |right; exact H]; rewrite E'; cbn [fst snd]; left;
      (split; [reflexivity|apply quiet_filter; auto]).
Qed.

(* ------------------------------------------------------------------ *)
(* c15_relay_target *)
Definition relay_to (c : call) (s : sid) (e : event) : option sid :=
  match e with
  | EvRinging | EvAccept => Some (c_osid c)
  | EvOffer | EvAnswer | EvIce =>
    match c_callee c with
    | Some (ks, _) => if N.eqb s (c_osid c) then Some ks else if N.eqb s ks then Some (c_osid c) else None
    | None => None
    end
  | _ => None
  end.

Definition is_relay (f : frame) : bool := match f with FInfo _ _ _ _ _ => true | _ => false end.

(* what one output of a non-hang-up call event can be *)
Definition event_out_ok (cfg : config) (st : state) (c : call) (s : sid) (e : event) (so : out) : Prop :=
  let (x, f) := so in
  match f with
  | FCtrl code _ => x = s /\ code = 403
  | FData m _ => e = EvAccept /\ mem x (attached st) = true /\
                 m = new_msg cfg st s (c_ouid c) (Some (c_seq c)) (Some WAccepted) (c_content c)
  | FInfoMe ev q' from _ _ => e = EvAccept /\ ev = EvAccept /\ q' = c_seq c /\ from = user_of cfg s /\
                              user_of cfg x = user_of cfg s /\ x <> s /\ mem x (on_me st) = true
  | FInfo ev q' from _ _ => ev = e /\ q' = c_seq c /\ from = user_of cfg s /\ relay_to c s e = Some x
  end.

Lemma in_bcast_data cfg st m x f : In (x, f) (bcast_data cfg st m) ->
  mem x (attached st) = true /\ exists t, f = FData m t.
Proof.
  unfold bcast_data. intros H. apply in_map_iff in H. destruct H as [k [E Hin]]. injection E as <- <-.
  split; [|eexists; reflexivity]. induction (attached st) as [|a l IH]; [destruct Hin|].
  cbn. destruct Hin as [->|Hin]; [rewrite N.eqb_refl; reflexivity|]. rewrite (IH Hin). apply orb_true_r.
Qed.

Lemma mem_In k l : mem k l = true <-> In k l.
Proof.
  induction l as [|a l IH]; cbn; [split; [discriminate|tauto]|].
  rewrite orb_true_iff, IH, N.eqb_eq. split; intros [H|H]; auto.
Qed.

Lemma in_me_info cfg st from target ev q pl skip off x f :
  In (x, f) (me_info cfg st from target ev q pl skip off) ->
  exists src, f = FInfoMe ev q from src pl /\ user_of cfg x = target /\ mem x (on_me st) = true /\
    (forall k, skip = Some k -> x <> k) /\ (off = true -> mem x (attached st) = false).
Proof.
  unfold me_info. destruct (lookup target (users st)) as [pd|]; [|intros []].
  destruct (p_deleted pd); [intros []|]. intros H. apply in_map_iff in H. destruct H as [k [E Hin]].
  injection E as <- <-. apply filter_In in Hin. destruct Hin as [Hin Hc].
  apply andb_true_iff in Hc. destruct Hc as [Hc H3]. apply andb_true_iff in Hc. destruct Hc as [H1 H2].
  exists (p_peer pd). split; [reflexivity|]. split; [apply N.eqb_eq; exact H1|]. split; [apply mem_In; exact Hin|]. split.
  - intros k' ->. intros ->. rewrite N.eqb_refl in H2. discriminate.
  - intros ->. cbn in H3. destruct (mem k (attached st)); [discriminate|reflexivity].
Qed.

Lemma count_relay_app l1 l2 : length (filter (fun so : out => is_relay (snd so)) (l1 ++ l2)) =
  (length (filter (fun so : out => is_relay (snd so)) l1) + length (filter (fun so : out => is_relay (snd so)) l2))%nat.
Proof. rewrite filter_app, app_length. reflexivity. Qed.

Lemma no_relay_in l : (forall x f, In (x, f) l -> is_relay f = false) ->
  length (filter (fun so : out => is_relay (snd so)) l) = 0%nat.
Proof.
  induction l as [|[x f] l IH]; intros H; [reflexivity|]. cbn. rewrite (H x f (or_introl eq_refl)). apply IH.
  intros y g Hin. apply (H y g). right. exact Hin.
Qed.

Lemma hce_outputs cfg st s e q p :
  e <> EvHangup ->
  snd (handle_call_event cfg st s e q p) = [] \/
  exists c, current st = Some c /\ c_seq c = q /\
    Forall (event_out_ok cfg st c s e) (snd (handle_call_event cfg st s e q p)) /\
    (length (filter (fun so : out => is_relay (snd so)) (snd (handle_call_event cfg st s e q p))) <= 1)%nat.
Proof.
  intros Hne. unfold handle_call_event, handle_call_event_with.
  destruct (current st) as [c|] eqn:Hc; [|auto].
  destruct (c_seq c =? q) eqn:Hq; cbn [negb]; [|auto]. apply Z.eqb_eq in Hq.
  destruct (lookup (user_of cfg s) (users st)) as [pd|] eqn:Hu; [|auto].
  destruct (p_deleted pd); [auto|].
  assert (Hfwd : forall ev, (ev = EvRinging \/ ev = EvAccept) -> ev = e ->
            event_out_ok cfg st c s e (c_osid c, FInfo ev (c_seq c) (user_of cfg s) (peer_of st (c_ouid c)) None)).
  { intros ev Hev <-. cbn. repeat split; auto. destruct Hev as [-> | ->]; reflexivity. }
  destruct e; try contradiction.
  - destruct (accepted c); [auto|]. destruct (N.eqb (c_osid c) s || N.eqb (c_ouid c) (user_of cfg s)); [auto|].
    right. exists c. cbn [snd]. repeat split; auto.
  - destruct (accepted c); [auto|]. destruct (N.eqb (c_osid c) s || N.eqb (c_ouid c) (user_of cfg s)) eqn:Hg; [auto|].
    apply orb_false_iff in Hg. destruct Hg as [Hg1 Hg2].
    destruct (sab_cases cfg st s false (c_ouid c) (Some (c_seq c)) (Some WAccepted) (c_content c)) as [[Hw E]|[Hw E]]; rewrite E; cbn [negb snd fst].
    + right. exists c. repeat split; auto. constructor; [|constructor]. cbn. auto.
    + right. exists c. split; [reflexivity|]. split; [assumption|]. cbn [app]. split.
      * apply Forall_forall. intros [x f] Hin. apply in_app_or in Hin. destruct Hin as [Hin|Hin].
        { apply in_bcast_data in Hin. destruct Hin as [Hm [t ->]]. cbn. auto. }
        apply in_app_or in Hin. destruct Hin as [Hin|Hin].
        { apply in_me_info in Hin. destruct Hin as [src [-> [H1 [H2 [H3 _]]]]]. cbn. repeat split; auto. }
        destruct Hin as [Hin|[]]. injection Hin as <- <-. apply Hfwd; auto.
      * rewrite !count_relay_app. rewrite no_relay_in, no_relay_in; [cbn; lia| |].
        { intros x f Hin. apply in_me_info in Hin. destruct Hin as [src [-> _]]. reflexivity. }
        { intros x f Hin. apply in_bcast_data in Hin. destruct Hin as [_ [t ->]]. reflexivity. }
  - destruct (c_callee c) as [[ks ku]|] eqn:Hk; [|auto].
    destruct (N.eqb s (c_osid c)) eqn:E1; [|destruct (N.eqb s ks) eqn:E2; [|auto]];
      right; exists c; cbn [snd]; repeat split; auto; constructor; auto; cbn; rewrite Hk, E1, ?E2; auto.
  - destruct (c_callee c) as [[ks ku]|] eqn:Hk; [|auto].
    destruct (N.eqb s (c_osid c)) eqn:E1; [|destruct (N.eqb s ks) eqn:E2; [|auto]];
      right; exists c; cbn [snd]; repeat split; auto; constructor; auto; cbn; rewrite Hk, E1, ?E2; auto.
  - destruct (c_callee c) as [[ks ku]|] eqn:Hk; [|auto].
    destruct (N.eqb s (c_osid c)) eqn:E1; [|destruct (N.eqb s ks) eqn:E2; [|auto]];
      right; exists c; cbn [snd]; repeat split; auto; constructor; auto; cbn; rewrite Hk, E1, ?E2; auto.
  - auto.
Qed.

Lemma Forall_filter {A} (P : A -> Prop) (f : A -> bool) l : Forall P l -> Forall P (filter f l).
Proof. intros H. apply Forall_forall. intros x Hin. apply filter_In in Hin. rewrite Forall_forall in H. apply H. tauto. Qed.

Lemma filter_filter_le {A} (f g : A -> bool) l : (length (filter f (filter g l)) <= length (filter f l))%nat.
Proof.
  induction l as [|a l IH]; [cbn; lia|]. cbn. destruct (g a); cbn; destruct (f a); cbn; lia.
Qed.

Lemma relay_target cfg st s e q p st' os :
  e <> EvHangup ->
  step cfg st (OEvent s e q p) = (st', os) ->
  os = [] \/ os = [(s, FCtrl 409 None)] \/
  exists c, current st = Some c /\ c_seq c = q /\ Forall (event_out_ok cfg st c s e) os /\
    (length (filter (fun so : out => is_relay (snd so)) os) <= 1)%nat.
Proof.
  intros Hne Hs. apply step_eq in Hs. destruct Hs as [[-> ->]|[-> [-> Hl]]]; [auto|].
  destruct (Hl s eq_refl) as [_ Hd].
  destruct (event_raw_cases cfg st s e q p) as [E|[E|[E _]]]; rewrite E; cbn [fst snd].
  - left. reflexivity.
  - right. left. cbn. rewrite Hd. reflexivity.
  - destruct (hce_outputs cfg st s e q p Hne) as [E'|[c [Hc [Hq [HF Hn]]]]].
    + left. rewrite E'. reflexivity.
    + right. right. exists c. split; [assumption|]. split; [assumption|]. split.
      * apply Forall_filter. exact HF.
      * eapply Nat.le_trans; [apply filter_filter_le|exact Hn].
Qed.

(* ------------------------------------------------------------------ *)
(* how the call slot and lastID move in one step *)
Definition same_call (c c' : call) : Prop :=
  c_seq c' = c_seq c /\ c_ouid c' = c_ouid c /\ c_osid c' = c_osid c /\ c_content c' = c_content c.

Definition slot_step (st st' : state) : Prop :=
  lastid st <= lastid st' /\
  match current st with
  | Some c => current st' = None \/ exists c', current st' = Some c' /\ same_call c c'
  | None => current st' = None \/
            exists c', current st' = Some c' /\ c_seq c' = lastid st' /\ lastid st' = lastid st + 1 /\ c_callee c' = None
  end.

Ltac break_match :=
  match goal with
  | |- context [match ?x with _ => _ end] => destruct x eqn:?
  end.

Lemma same_call_refl c : same_call c c. Proof. repeat split. Qed.
#[export] Hint Resolve same_call_refl : core.

(* the call state written by an ending: maybeEndCallInProgress's replaceWith *)
Definition end_state (c : call) (from : uid) (timeout : bool) : wstate :=
  if negb (N.eqb from 0) && accepted c then WFinished
  else if negb (N.eqb from 0) then (if N.eqb from (c_ouid c) then WMissed else WDeclined)
  else if timeout then WMissed else WDisconnected.

Definition end_msg (cfg : config) (st : state) (c : call) (from : uid) (ms : sid) (timeout : bool) : msg :=
  new_msg cfg st ms (c_ouid c) (Some (c_seq c)) (Some (end_state c from timeout)) (c_content c).

Lemma end_call_shape cfg st c from ms timeout :
  (writer st (c_ouid c) = false /\ fst (end_call cfg st c from ms timeout) = set_current None (set_timer false st)) \/
  (writer st (c_ouid c) = true /\
   fst (end_call cfg st c from ms timeout) = set_current None (add_msg (end_msg cfg st c from ms timeout) (set_timer false st))).
Proof.
  unfold end_call.
  destruct (sab_cases cfg (set_timer false st) ms false (c_ouid c) (Some (c_seq c))
    (Some (end_state c from timeout)) (c_content c)) as [[Hw E]|[Hw E]]; unfold end_state in E; rewrite E; cbn [fst]; auto.
Qed.

Lemma terminate_shape cfg st timeout :
  (current st = None /\ terminate cfg st timeout = (st, [])) \/
  (exists c, current st = Some c /\ terminate cfg st timeout = end_call cfg st c 0%N (c_osid c) timeout).
Proof. unfold terminate. destruct (current st) as [c|]; [right; exists c; auto|left; auto]. Qed.

Lemma unregister_shape cfg st s :
  unregister_call cfg st s = (st, []) \/
  (exists c, current st = Some c /\ is_party c s = true /\ unregister_call cfg st s = end_call cfg st c 0%N (c_osid c) false).
Proof.
  unfold unregister_call, terminate. destruct (current st) as [c|] eqn:Hc; [|auto].
  destruct (is_party c s) eqn:Hp; [|auto]. right. exists c. auto.
Qed.

Lemma slot_step_refl st : slot_step st st.
Proof. unfold slot_step. split; [lia|]. destruct (current st); eauto. Qed.

Lemma slot_step_end cfg st c from ms timeout : current st = Some c ->
  slot_step st (fst (end_call cfg st c from ms timeout)).
Proof.
  intros Hc. unfold slot_step. rewrite Hc.
  destruct (end_call_shape cfg st c from ms timeout) as [[_ E]|[_ E]]; rewrite E; cbn; split; auto; lia.
Qed.

Lemma slot_step_unreg cfg st s : slot_step st (fst (unregister_call cfg st s)).
Proof.
  destruct (unregister_shape cfg st s) as [E|[c [Hc [_ E]]]]; rewrite E; [apply slot_step_refl|apply slot_step_end; assumption].
Qed.

Lemma slot_step_terminate cfg st t : slot_step st (fst (terminate cfg st t)).
Proof.
  destruct (terminate_shape cfg st t) as [[_ E]|[c [Hc E]]]; rewrite E; [apply slot_step_refl|apply slot_step_end; assumption].
Qed.

(* setters that do not touch the slot or lastID *)
Lemma slot_step_ext st st1 st' : slot_step st st1 -> current st' = current st1 -> lastid st' = lastid st1 -> slot_step st st'.
Proof. unfold slot_step. intros H -> ->. exact H. Qed.

Lemma slot_step_hce cfg st s e q p : slot_step st (fst (handle_call_event cfg st s e q p)).
Proof.
  unfold handle_call_event, handle_call_event_with.
  destruct (current st) as [c|] eqn:Hc; [|apply slot_step_refl].
  destruct (negb (c_seq c =? q)); [apply slot_step_refl|].
  destruct (lookup (user_of cfg s) (users st)) as [pd|]; [|apply slot_step_refl].
  destruct (p_deleted pd); [apply slot_step_refl|].
  destruct e; try apply slot_step_refl.
  - destruct (accepted c); [apply slot_step_refl|]. destruct (_ || _); apply slot_step_refl.
  - destruct (accepted c); [apply slot_step_refl|]. destruct (_ || _); [apply slot_step_refl|].
    destruct (sab_cases cfg st s false (c_ouid c) (Some (c_seq c)) (Some WAccepted) (c_content c)) as [[Hw E]|[Hw E]]; rewrite E; cbn [negb fst].
    + apply slot_step_refl.
    + unfold slot_step. rewrite Hc. cbn. split; [lia|]. right. eexists. split; [reflexivity|]. repeat split.
  - destruct (c_callee c) as [[ks ku]|]; [|apply slot_step_refl]. destruct (N.eqb s (c_osid c)); [apply slot_step_refl|].
    destruct (N.eqb s ks); apply slot_step_refl.
  - destruct (c_callee c) as [[ks ku]|]; [|apply slot_step_refl]. destruct (N.eqb s (c_osid c)); [apply slot_step_refl|].
    destruct (N.eqb s ks); apply slot_step_refl.
  - destruct (c_callee c) as [[ks ku]|]; [|apply slot_step_refl]. destruct (N.eqb s (c_osid c)); [apply slot_step_refl|].
    destruct (N.eqb s ks); apply slot_step_refl.
  - match goal with |- context [if ?b then _ else _] => destruct b end; [apply slot_step_refl|apply slot_step_end; assumption].
Qed.

Ltac slot_same :=
  cbn [fst]; first [apply slot_step_refl | eapply slot_step_ext; [apply slot_step_refl|reflexivity|reflexivity]].

Lemma slot_step_raw cfg st o : slot_step st (fst (step_raw cfg st o)).
Proof.
  destruct o; cbn [step_raw].
  - destruct (mem s (attached st)); [slot_same|]. destruct (participant st (user_of cfg s)); slot_same.
  - destruct (mem s (on_me st)); slot_same.
  - destruct (negb (mem s (attached st))); [slot_same|].
    pose proof (slot_step_unreg cfg st s) as H. destruct (unregister_call cfg st s) as [st1 o1]. cbn [fst] in *.
    eapply slot_step_ext; [exact H|reflexivity|reflexivity].
  - destruct (negb (mem s (attached st))); [slot_same|].
    pose proof (slot_step_unreg cfg st s) as H. destruct (unregister_call cfg st s) as [st1 o1]. cbn [fst] in *.
    eapply slot_step_ext; [exact H|reflexivity|reflexivity].
  - destruct (mem s (attached st)).
    + pose proof (slot_step_unreg cfg st s) as H. destruct (unregister_call cfg st s) as [st1 o1]. cbn [fst] in *.
      eapply slot_step_ext; [exact H|reflexivity|reflexivity].
    + cbn [fst]. eapply slot_step_ext; [slot_same|reflexivity|reflexivity].
  - destruct (gate_raw cfg st s content w) as [[Hok E]|[Hok E]]; cbn [step_raw] in E; rewrite E; cbn [fst]; [|slot_same].
    unfold gate_ok in Hok. unfold slot_step. destruct (current st); [rewrite andb_false_r in Hok; discriminate|].
    cbn. split; [lia|]. right. eexists. split; [reflexivity|]. cbn. auto.
  - destruct (negb (mem s (attached st))); [slot_same|].
    destruct (sab_cases cfg st s true (user_of cfg s) None None content) as [[Hw E]|[Hw E]]; rewrite E; cbn [fst]; [slot_same|].
    unfold slot_step. cbn. split; [lia|]. destruct (current st); eauto.
  - destruct (event_raw_cases cfg st s e seq payload) as [E|[E|[E _]]]; cbn [step_raw] in E; rewrite E; try slot_same.
    apply slot_step_hce.
  - destruct (timer st); [|slot_same].
    pose proof (slot_step_terminate cfg (set_timer false st) true) as H.
    unfold slot_step in *. exact H.
  - destruct (negb (mem s (attached st))); [slot_same|].
    destruct (_ || _); cbn [fst]; (eapply slot_step_ext; [slot_same|reflexivity|reflexivity]).
Qed.

Lemma slot_step_step cfg st o st' os : step cfg st o = (st', os) -> slot_step st st'.
Proof.
  intros H. apply step_eq in H. destruct H as [[-> _]|[-> _]]; [apply slot_step_refl|apply slot_step_raw].
Qed.

(* ------------------------------------------------------------------ *)
(* c15_ends_once: ghost log of (invitation seq, number of ending steps) *)
Definition ended (st st' : state) : option Z :=
  match current st with
  | Some c => match current st' with
              | Some c' => if c_seq c =? c_seq c' then None else Some (c_seq c)
              | None => Some (c_seq c)
              end
  | None => None
  end.
Definition started (st st' : state) : option Z :=
  match current st' with
  | Some c' => match current st with
               | Some c => if c_seq c =? c_seq c' then None else Some (c_seq c')
               | None => Some (c_seq c')
               end
  | None => None
  end.

Fixpoint bump (q : Z) (log : list (Z * nat)) : list (Z * nat) :=
  match log with
  | [] => []
  | (k, n) :: r => if k =? q then (k, S n) :: bump q r else (k, n) :: bump q r
  end.

Definition log_step (st st' : state) (log : list (Z * nat)) : list (Z * nat) :=
  let l1 := match ended st st' with Some q => bump q log | None => log end in
  match started st st' with Some q => l1 ++ [(q, 0%nat)] | None => l1 end.

Fixpoint run_log (cfg : config) (st : state) (ops : list op) (log : list (Z * nat)) : state * list (Z * nat) :=
  match ops with
  | [] => (st, log)
  | o :: r => run_log cfg (fst (step cfg st o)) r (log_step st (fst (step cfg st o)) log)
  end.

Definition log_inv (st : state) (log : list (Z * nat)) : Prop :=
  Forall (fun e => fst e <= lastid st) log /\ NoDup (map fst log) /\
  match current st with
  | None => Forall (fun e => snd e = 1%nat) log
  | Some c => exists l0, log = l0 ++ [(c_seq c, 0%nat)] /\ Forall (fun e => snd e = 1%nat) l0
  end.

Lemma bump_notin q l : ~ In q (map fst l) -> bump q l = l.
Proof.
  induction l as [|[k n] l IH]; cbn; [reflexivity|]. intros H.
  destruct (k =? q) eqn:E; [apply Z.eqb_eq in E; exfalso; apply H; auto|]. rewrite IH; auto.
Qed.

Lemma bump_last q n l0 : ~ In q (map fst l0) -> bump q (l0 ++ [(q, n)]) = l0 ++ [(q, S n)].
Proof.
  induction l0 as [|[k m] l IH]; cbn; intros H.
  - rewrite Z.eqb_refl. reflexivity.
  - destruct (k =? q) eqn:E; [apply Z.eqb_eq in E; exfalso; apply H; auto|]. rewrite IH; auto.
Qed.

Lemma Forall_le_mono (l : list (Z * nat)) a b : a <= b -> Forall (fun e => fst e <= a) l -> Forall (fun e => fst e <= b) l.
Proof. intros Hab H. eapply Forall_impl; [|exact H]. cbn. intros. lia. Qed.

Lemma NoDup_snoc {A} (l : list A) a : NoDup l -> ~ In a l -> NoDup (l ++ [a]).
Proof.
  intros Hnd Hn. induction l as [|b l IH]; cbn; [constructor; [intros []|constructor]|].
  inversion Hnd; subst. constructor.
  - intros Hin. apply in_app_or in Hin. destruct Hin as [Hin|[->|[]]]; [contradiction|]. apply Hn. left. reflexivity.
  - apply IH; [assumption|]. intros Hin. apply Hn. right. exact Hin.
Qed.

Lemma log_inv_step st st' log : slot_step st st' -> log_inv st log -> log_inv st' (log_step st st' log).
Proof.
  intros [Hle Hs] [Hb [Hnd Hc]]. unfold log_step, ended, started, log_inv.
  destruct (current st) as [c|] eqn:Ec.
  - destruct Hc as [l0 [-> Hl0]].
    assert (Hq : ~ In (c_seq c) (map fst l0)).
    { rewrite map_app in Hnd. cbn in Hnd. apply NoDup_remove_2 in Hnd. rewrite app_nil_r in Hnd. exact Hnd. }
    destruct Hs as [E|[c' [E [Hsq _]]]]; rewrite E; cbv beta iota.
    + rewrite bump_last by exact Hq. split; [|split].
      * apply Forall_app. apply Forall_app in Hb. destruct Hb as [Hb1 Hb2]. split; [eapply Forall_le_mono; [exact Hle|assumption]|].
        inversion Hb2; subst. constructor; [cbn in *; lia|constructor].
      * rewrite map_app in *. exact Hnd.
      * apply Forall_app. split; [exact Hl0|]. constructor; [reflexivity|constructor].
    + assert (Heq : (c_seq c =? c_seq c') = true) by (apply Z.eqb_eq; auto). rewrite Heq. split; [|split].
      * eapply Forall_le_mono; [exact Hle|assumption].
      * exact Hnd.
      * exists l0. rewrite Hsq. auto.
  - destruct Hs as [E|[c' [E [Hsq [Hl1 _]]]]]; rewrite E; cbv beta iota.
    + split; [|split]; auto. eapply Forall_le_mono; [exact Hle|assumption].
    + split; [|split].
      * apply Forall_app. split; [eapply Forall_le_mono; [exact Hle|assumption]|]. constructor; [cbn; lia|constructor].
      * rewrite map_app. cbn. apply NoDup_snoc; [exact Hnd|].
        intros Hin. apply in_map_iff in Hin. destruct Hin as [[k n] [Hk Hin]]. cbn in Hk. subst k.
        rewrite Forall_forall in Hb. specialize (Hb _ Hin). cbn in Hb. lia.
      * exists log. auto.
Qed.

Lemma log_inv_run cfg ops : forall st log, log_inv st log ->
  log_inv (fst (run_log cfg st ops log)) (snd (run_log cfg st ops log)).
Proof.
  induction ops as [|o r IH]; intros st log H; cbn; [exact H|].
  apply IH. apply log_inv_step; [|exact H]. destruct (step cfg st o) as [st' os] eqn:E. cbn. eapply slot_step_step. exact E.
Qed.

Lemma run_log_final cfg ops : forall st log, fst (run_log cfg st ops log) = final cfg st ops.
Proof.
  unfold final. induction ops as [|o r IH]; intros st log; cbn; [reflexivity|].
  rewrite IH. destruct (step cfg st o) as [st1 os]. cbn. destruct (run cfg st1 r). reflexivity.
Qed.

Lemma log_inv_init a b : log_inv (init2 a b) [].
Proof. unfold log_inv. cbn. repeat split; constructor. Qed.

Lemma ends_once_from cfg st0 log0 ops : log_inv st0 log0 ->
  let st := fst (run_log cfg st0 ops log0) in
  let log := snd (run_log cfg st0 ops log0) in
  NoDup (map fst log) /\
  forall q n, In (q, n) log ->
    (n = 1%nat /\ forall c, current st = Some c -> c_seq c <> q) \/
    (n = 0%nat /\ exists c, current st = Some c /\ c_seq c = q).
Proof.
  intros H0. cbn zeta. pose proof (log_inv_run cfg ops st0 log0 H0) as [Hb [Hnd Hc]].
  split; [exact Hnd|]. intros q n Hin.
  destruct (current (fst (run_log cfg st0 ops log0))) as [c|].
  - destruct Hc as [l0 [E Hl0]]. rewrite E in Hin, Hnd. apply in_app_or in Hin. destruct Hin as [Hin|[Hin|[]]].
    + left. rewrite Forall_forall in Hl0. split; [exact (Hl0 _ Hin)|]. intros c0 Hc0. injection Hc0 as <-.
      intros Heq. rewrite map_app in Hnd. cbn in Hnd. apply NoDup_remove_2 in Hnd. rewrite app_nil_r in Hnd.
      apply Hnd. apply in_map_iff. exists (q, n). split; [symmetry; exact Heq|exact Hin].
    + injection Hin as <- <-. right. split; [reflexivity|]. exists c. auto.
  - left. rewrite Forall_forall in Hc. split; [exact (Hc _ Hin)|]. intros c0 Hc0. discriminate.
Qed.

Lemma ending_clears cfg st o st' os q : step cfg st o = (st', os) -> ended st st' = Some q ->
  current st' = None /\ exists c, current st = Some c /\ c_seq c = q.
Proof.
  intros Hs He. apply slot_step_step in Hs. destruct Hs as [_ Hs]. unfold ended in He.
  destruct (current st) as [c|]; [|discriminate].
  destruct Hs as [E|[c' [E [Hsq _]]]]; rewrite E in He.
  - injection He as <-. split; [assumption|]. exists c. auto.
  - rewrite Hsq, Z.eqb_refl in He. discriminate.
Qed.

(* ------------------------------------------------------------------ *)
(* every way the slot can change, with what is written *)
Definition end_effect (cfg : config) (st st' : state) (c : call) : Prop :=
  current st' = None /\ timer st' = false /\
  ((writer st (c_ouid c) = false /\ store st' = store st /\ lastid st' = lastid st) \/
   (writer st (c_ouid c) = true /\ lastid st' = lastid st + 1 /\
    exists from ms timeout, store st' = end_msg cfg st c from ms timeout :: store st)).

Definition accept_state (cfg : config) (st : state) (c : call) (s : sid) : state :=
  set_timer false (set_current (Some (mkCall (c_ouid c) (c_osid c) (Some (s, user_of cfg s)) (c_seq c) (c_content c)))
    (add_msg (new_msg cfg st s (c_ouid c) (Some (c_seq c)) (Some WAccepted) (c_content c)) st)).

Definition slot_change (cfg : config) (st : state) (o : op) (st' : state) : Prop :=
  (current st' = current st /\ (timer st' = timer st \/ (current st = None /\ timer st' = false))) \/
  (exists c, current st = Some c /\ end_effect cfg st st' c) \/
  (exists s content w, o = OInvite s content w /\ gate_ok cfg st s = true /\ st' = invite_state cfg st s content w) \/
  (exists s p c, o = OEvent s EvAccept (c_seq c) p /\ current st = Some c /\ accepted c = false /\
     writer st (c_ouid c) = true /\ s <> c_osid c /\ user_of cfg s <> c_ouid c /\ st' = accept_state cfg st c s).

Lemma end_effect_end cfg st c from ms timeout : end_effect cfg st (fst (end_call cfg st c from ms timeout)) c.
Proof.
  unfold end_effect.
  destruct (end_call_shape cfg st c from ms timeout) as [[Hw E]|[Hw E]]; rewrite E; cbn; repeat split; auto.
  right. repeat split; auto. exists from, ms, timeout. reflexivity.
Qed.

Lemma end_effect_ext cfg st st1 st' c : end_effect cfg st st1 c ->
  current st' = current st1 -> timer st' = timer st1 -> store st' = store st1 -> lastid st' = lastid st1 -> end_effect cfg st st' c.
Proof. unfold end_effect. intros H -> -> -> ->. exact H. Qed.

Lemma slot_change_same cfg st o st' : current st' = current st -> timer st' = timer st -> slot_change cfg st o st'.
Proof. left. auto. Qed.

Lemma slot_change_unreg cfg st o s st' :
  current st' = current (fst (unregister_call cfg st s)) -> timer st' = timer (fst (unregister_call cfg st s)) ->
  store st' = store (fst (unregister_call cfg st s)) -> lastid st' = lastid (fst (unregister_call cfg st s)) ->
  slot_change cfg st o st'.
Proof.
  destruct (unregister_shape cfg st s) as [E|[c [Hc [_ E]]]]; rewrite E; cbn [fst]; intros H1 H2 H3 H4.
  - left. auto.
  - right. left. exists c. split; [assumption|]. eapply end_effect_ext; [apply end_effect_end|eassumption..].
Qed.

Lemma slot_change_hce cfg st s e q p :
  slot_change cfg st (OEvent s e q p) (fst (handle_call_event cfg st s e q p)).
Proof.
  unfold handle_call_event, handle_call_event_with.
  destruct (current st) as [c|] eqn:Hc; [|left; auto].
  destruct (c_seq c =? q) eqn:Hq; cbn [negb]; [|left; auto]. apply Z.eqb_eq in Hq.
  destruct (lookup (user_of cfg s) (users st)) as [pd|]; [|left; auto].
  destruct (p_deleted pd); [left; auto|].
  destruct e; try (left; cbn; auto; fail).
  - destruct (accepted c); [left; auto|]. destruct (_ || _); left; auto.
  - destruct (accepted c) eqn:Ha; [left; auto|]. destruct (N.eqb (c_osid c) s || N.eqb (c_ouid c) (user_of cfg s)) eqn:Hg; [left; auto|].
    apply orb_false_iff in Hg. destruct Hg as [Hg1 Hg2].
    destruct (sab_cases cfg st s false (c_ouid c) (Some (c_seq c)) (Some WAccepted) (c_content c)) as [[Hw E]|[Hw E]]; rewrite E; cbn [negb fst].
    + left. auto.
    + right. right. right. exists s, p, c. subst q. repeat split; auto.
      * intros X. rewrite X, N.eqb_refl in Hg1. discriminate.
      * intros X. rewrite X, N.eqb_refl in Hg2. discriminate.
  - destruct (c_callee c) as [[ks ku]|]; [|left; auto]. destruct (N.eqb s (c_osid c)); [left; auto|]. destruct (N.eqb s ks); left; auto.
  - destruct (c_callee c) as [[ks ku]|]; [|left; auto]. destruct (N.eqb s (c_osid c)); [left; auto|]. destruct (N.eqb s ks); left; auto.
  - destruct (c_callee c) as [[ks ku]|]; [|left; auto]. destruct (N.eqb s (c_osid c)); [left; auto|]. destruct (N.eqb s ks); left; auto.
  - match goal with |- context [if ?b then _ else _] => destruct b end; [left; auto|].
    right. left. exists c. split; [exact Hc|]. apply end_effect_end.
Qed.

Lemma slot_change_raw cfg st o : slot_change cfg st o (fst (step_raw cfg st o)).
Proof.
  destruct o; cbn [step_raw].
  - destruct (mem s (attached st)); [left; auto|]. destruct (participant st (user_of cfg s)); left; auto.
  - destruct (mem s (on_me st)); left; auto.
  - destruct (negb (mem s (attached st))); [left; auto|].
    pose proof (slot_change_unreg cfg st (OLeave s) s) as H. destruct (unregister_call cfg st s) as [st1 o1]. cbn [fst] in *.
    apply H; reflexivity.
  - destruct (negb (mem s (attached st))); [left; auto|].
    pose proof (slot_change_unreg cfg st (OUnsub s) s) as H. destruct (unregister_call cfg st s) as [st1 o1]. cbn [fst] in *.
    apply H; reflexivity.
  - destruct (mem s (attached st)).
    + pose proof (slot_change_unreg cfg st (ODisc s) s) as H. destruct (unregister_call cfg st s) as [st1 o1]. cbn [fst] in *.
      apply H; reflexivity.
    + left. auto.
  - destruct (gate_raw cfg st s content w) as [[Hok E]|[Hok E]]; cbn [step_raw] in E; rewrite E; cbn [fst]; [|left; auto].
    right. right. left. exists s, content, w. auto.
  - destruct (negb (mem s (attached st))); [left; auto|].
    destruct (sab_cases cfg st s true (user_of cfg s) None None content) as [[Hw E]|[Hw E]]; rewrite E; cbn [fst]; left; auto.
  - destruct (event_raw_cases cfg st s e seq payload) as [E|[E|[E _]]]; cbn [step_raw] in E; rewrite E; try (left; auto; fail).
    apply slot_change_hce.
  - destruct (timer st) eqn:Ht; [|left; auto].
    destruct (terminate_shape cfg (set_timer false st) true) as [[Hc E]|[c [Hc E]]]; rewrite E; cbn [fst].
    + (* armed without a call (not reachable): the slot is unchanged, the timer is now off *)
      left. cbn in Hc. auto.
    + right. left. exists c. split; [exact Hc|]. apply (end_effect_end cfg (set_timer false st) c 0%N (c_osid c) true).
  - destruct (negb (mem s (attached st))); [left; auto|]. destruct (_ || _); left; auto.
Qed.

Lemma slot_change_step cfg st o st' os : step cfg st o = (st', os) -> slot_change cfg st o st'.
Proof.
  intros H. apply step_eq in H. destruct H as [[-> _]|[-> _]]; [left; auto|apply slot_change_raw].
Qed.

(* a call starts only by an invitation that passes the gate *)
Lemma started_only_by_invite cfg st o st' os c' :
  step cfg st o = (st', os) -> current st = None -> current st' = Some c' ->
  exists s content w, o = OInvite s content w /\ gate_ok cfg st s = true /\ st' = invite_state cfg st s content w.
Proof.
  intros Hs Hn Hc. destruct (slot_change_step _ _ _ _ _ Hs) as [[E _]|[[c [E _]]|[H|[s [p [c [_ [E _]]]]]]]].
  - rewrite Hn, Hc in E. discriminate.
  - rewrite Hn in E. discriminate.
  - exact H.
  - rewrite Hn in E. discriminate.
Qed.

(* acceptance is published *)
Lemma acceptance_published cfg st o st' os c c' :
  step cfg st o = (st', os) -> current st = Some c -> accepted c = false -> current st' = Some c' -> accepted c' = true ->
  exists s p, o = OEvent s EvAccept (c_seq c) p /\ s <> c_osid c /\ user_of cfg s <> c_ouid c /\
    writer st (c_ouid c) = true /\ st' = accept_state cfg st c s.
Proof.
  intros Hs Hc Ha Hc' Ha'. destruct (slot_change_step _ _ _ _ _ Hs) as [[E _]|[[c0 [_ [E _]]]|[[s [ct [w [_ [Hok _]]]]]|[s [p [c0 [Ho [E [_ [Hw [H1 [H2 Hst]]]]]]]]]]]].
  - rewrite Hc, Hc' in E. injection E as ->. rewrite Ha in Ha'. discriminate.
  - rewrite Hc' in E. discriminate.
  - unfold gate_ok in Hok. rewrite Hc in Hok. rewrite andb_false_r in Hok. discriminate.
  - rewrite Hc in E. injection E as <-. exists s, p. auto.
Qed.

(* every ending step has the ending effect *)
Lemma ending_effect cfg st o st' os c :
  step cfg st o = (st', os) -> current st = Some c -> current st' = None -> end_effect cfg st st' c.
Proof.
  intros Hs Hc Hn. destruct (slot_change_step _ _ _ _ _ Hs) as [[E _]|[[c0 [E H]]|[[s [ct [w [_ [_ Hst]]]]]|[s [p [c0 [_ [_ [_ [_ [_ [_ Hst]]]]]]]]]]]].
  - rewrite Hc, Hn in E. discriminate.
  - rewrite Hc in E. injection E as <-. exact H.
  - rewrite Hst in Hn. discriminate.
  - rewrite Hst in Hn. discriminate.
Qed.

(* the timer is armed exactly while a call is being established *)
Definition timer_inv (st : state) : Prop :=
  timer st = true <-> exists c, current st = Some c /\ accepted c = false.

Lemma timer_inv_step cfg st o st' os : step cfg st o = (st', os) -> timer_inv st -> timer_inv st'.
Proof.
  intros Hs Hi. unfold timer_inv in *.
  destruct (slot_change_step _ _ _ _ _ Hs) as [[E [Et|[Hn Et]]]|[[c0 [_ [E [Et _]]]]|[[s [ct [w [_ [_ Hst]]]]]|[s [p [c0 [_ [_ [_ [_ [_ [_ Hst]]]]]]]]]]]].
  - rewrite E, Et. exact Hi.
  - rewrite E, Et, Hn. split; [discriminate|]. intros [c [X _]]. discriminate.
  - rewrite E, Et. split; [discriminate|]. intros [c [X _]]. discriminate.
  - subst st'. cbn. split; [|reflexivity]. intros _. eexists. split; reflexivity.
  - subst st'. cbn. split; [discriminate|]. intros [c [X Y]]. injection X as <-. discriminate.
Qed.

Lemma timer_inv_final cfg ops : forall st, timer_inv st -> timer_inv (final cfg st ops).
Proof.
  unfold final. induction ops as [|o r IH]; intros st H; cbn; [exact H|].
  destruct (step cfg st o) as [st1 os] eqn:E. specialize (IH st1 (timer_inv_step _ _ _ _ _ E H)).
  destruct (run cfg st1 r). exact IH.
Qed.

Lemma timer_inv_init a b : timer_inv (init2 a b).
Proof. unfold timer_inv. cbn. split; [discriminate|]. intros [c [X _]]. discriminate. Qed.

(* a party session that leaves / disconnects / unsubscribes ends the call *)
Lemma party_leave_raw cfg st c x o :
  current st = Some c -> is_party c x = true -> mem x (attached st) = true ->
  o = OLeave x \/ o = ODisc x \/ o = OUnsub x ->
  current (fst (step_raw cfg st o)) = None.
Proof.
  intros Hc Hp Ha Ho.
  assert (Hu : current (fst (unregister_call cfg st x)) = None).
  { unfold unregister_call, terminate. rewrite Hc, Hp.
    destruct (end_effect_end cfg st c 0%N (c_osid c) false) as [E _]. exact E. }
  destruct Ho as [->|[->| ->]]; cbn [step_raw]; rewrite Ha; cbn [negb];
    destruct (unregister_call cfg st x) as [st1 o1]; cbn [fst] in *; exact Hu.
Qed.

Lemma party_leave cfg st c x o st' os :
  live cfg st x -> step cfg st o = (st', os) ->
  current st = Some c -> is_party c x = true -> mem x (attached st) = true ->
  o = OLeave x \/ o = ODisc x \/ o = OUnsub x ->
  current st' = None.
Proof.
  intros Hl Hs Hc Hp Ha Ho.
  assert (Hsid : op_sid o = Some x) by (destruct Ho as [->|[->| ->]]; reflexivity).
  rewrite (step_live cfg st o x Hsid Hl) in Hs. injection Hs as <- _.
  eapply party_leave_raw; eassumption.
Qed.

Definition ending_states : list wstate := [WFinished; WDeclined; WMissed; WDisconnected].

Lemma end_state_in c from timeout : In (end_state c from timeout) ending_states.
Proof.
  unfold end_state, ending_states.
  destruct (negb (N.eqb from 0) && accepted c); [cbn; auto|].
  destruct (negb (N.eqb from 0)); [destruct (N.eqb from (c_ouid c)); cbn; auto|]. destruct timeout; cbn; auto.
Qed.

Lemma ending_published cfg st o st' os c :
  step cfg st o = (st', os) -> current st = Some c -> current st' = None -> writer st (c_ouid c) = true ->
  exists w sender, In w ending_states /\
    store st' = mkMsg (lastid st + 1) (c_ouid c) (Some (c_seq c)) (Some w) sender (c_content c) :: store st /\
    lastid st' = lastid st + 1.
Proof.
  intros Hs Hc Hn Hw. destruct (ending_effect _ _ _ _ _ _ Hs Hc Hn) as [_ [_ [[Hw' _]|[_ [Hl [from [ms [t E]]]]]]]].
  - rewrite Hw in Hw'. discriminate.
  - eexists. eexists. split; [apply (end_state_in c from t)|]. split; [exact E|exact Hl].
Qed.

Lemma ending_unpublished cfg st o st' os c :
  step cfg st o = (st', os) -> current st = Some c -> current st' = None -> writer st (c_ouid c) = false ->
  store st' = store st /\ lastid st' = lastid st.
Proof.
  intros Hs Hc Hn Hw. destruct (ending_effect _ _ _ _ _ _ Hs Hc Hn) as [_ [_ [[_ H]|[Hw' _]]]]; [exact H|].
  rewrite Hw in Hw'. discriminate.
Qed.

Lemma roles_subscribed cfg st s e q p st' os :
  step cfg st (OEvent s e q p) = (st', os) -> st' <> st -> participant st (user_of cfg s) = true.
Proof.
  intros Hs Hne. destruct (roles _ _ _ _ _ _ _ _ Hs) as [[E _]|[c [_ [_ [Hu _]]]]]; [contradiction|exact Hu].
Qed.

Lemma new_call_after_end cfg st o st' os c s content w :
  step cfg st o = (st', os) -> current st = Some c -> current st' = None ->
  configured cfg = true -> live cfg st' s -> mem s (attached st') = true -> writer st' (user_of cfg s) = true ->
  exists os', step cfg st' (OInvite s content w) = (invite_state cfg st' s content w, os') /\
    In (s, FCtrl 202 (Some (lastid st' + 1))) os'.
Proof.
  intros _ _ Hn Hcfg Hl Ha Hw.
  destruct (step cfg st' (OInvite s content w)) as [st2 os2] eqn:E.
  destruct (gate cfg st' s content w st2 os2 Hl E) as [H _].
  assert (Hok : gate_ok cfg st' s = true) by (unfold gate_ok; rewrite Hcfg, Ha, Hw, Hn; reflexivity).
  destruct (H Hok) as [-> Hin]. exists os2. auto.
Qed.
