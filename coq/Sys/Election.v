(* Model of the leader election and failover of tinode/chat:
   server/cluster_leader.go (Health, Vote, sendHealthChecks, electLeader, run),
   server/cluster.go isPartitioned, server/session.go:596 (502 when partitioned).
   Definitions only.

   Nodes are numbers; a configuration lists ALL configured nodes.  For a node n
   the Go field c.nodes (the OTHER nodes) is [peers cfg n].
   Per node: the fields of clusterFailover that the run loop reads and writes
   (term, leader, activeNodes), the loop's locals (missed, rehashSkipped), the
   state of a running electLeader call (voteCount, i), the node list the current
   ring was built from (the ring signature is a function of that list as a set:
   PropC17 part A), and failCount of every peer.

   Transport.  Cluster.Vote is an RPC: one request per (candidate, term, peer),
   at most one reply per request.  [rpcs c t m] is the state of that call:
   not made / request in flight / reply in flight / finished (reply consumed by
   the candidate, or the call was lost).  Any in-flight item can be delivered at
   any time in any order, lost, or turned into an RPC error.  Health checks are a
   multiset [hnet] of in-flight messages; any of them can be delivered or
   dropped at any time.  A partition is an arbitrary set of losses.

   electLeader runs INSIDE the run loop: while a node is electing it handles
   neither ticks nor health checks nor vote requests (they wait in the channels);
   the model therefore enables only reply delivery and the election timeout for
   an electing node.

   [votes] is a ghost: votes t m = Some c when m has given its vote of term t to
   c (by answering yes, or by being the candidate itself). *)
From Coq Require Import List Bool Arith.
Import ListNotations.

Definition node := nat.

Record config := mkConfig {
  cfg_nodes : list node;        (* all configured nodes *)
  cfg_vote_timeout : nat;       (* failover.vote_after *)
  cfg_fail_limit : nat          (* failover.node_fail_after *)
}.

Definition mem (n : node) (l : list node) : bool := existsb (Nat.eqb n) l.

(* c.nodes of node n *)
Definition peers (cfg : config) (n : node) : list node :=
  filter (fun m => negb (m =? n)) (cfg_nodes cfg).
Definition node_count (cfg : config) (n : node) : nat := length (peers cfg n).
(* expectVotes := (nodeCount+1)>>1 + 1 *)
Definition expect_votes (cfg : config) (n : node) : nat := Nat.div2 (node_count cfg n + 1) + 1.

Inductive reply := Granted (t : nat) | Denied (t : nat) | RpcError.
Inductive rpc := NoCall | ReqFlying | RepFlying (r : reply) | Finished.

Record local := mkLocal {
  term : nat;
  leader : option node;             (* "" = None *)
  missed : nat;
  electing : option (nat * nat);    (* inside electLeader: (voteCount, i) *)
  rehash_skipped : bool;
  ring_nodes : list node;           (* the list handed to the last rehash *)
  active_nodes : list node;         (* c.fo.activeNodes *)
  fail_count : node -> nat
}.

(* ring signature of a node list: a function of the list as a set (ring_perm);
   canonical form = sorted list *)
Fixpoint ninsert (x : nat) (l : list nat) : list nat :=
  match l with
  | [] => [x]
  | y :: l' => if x <=? y then x :: l else y :: ninsert x l'
  end.
Definition sig_of (l : list node) : list node := fold_right ninsert [] l.
Fixpoint list_eqb (a b : list nat) : bool :=
  match a, b with
  | [], [] => true
  | x :: a', y :: b' => (x =? y) && list_eqb a' b'
  | _, _ => false
  end.

Record hmsg := mkH {
  h_to : node; h_leader : node; h_term : nat; h_sig : list node; h_nodes : list node
}.

Record state := mkState {
  loc : node -> local;
  rpcs : node -> nat -> node -> rpc;
  hnet : list hmsg;
  votes : nat -> node -> option node
}.

Inductive event :=
| Tick (n : node) (delivered ok : list node)  (* heartbeat tick at n; if n is leader: which peers get the check, for which the call returns nil *)
| DeliverReq (c : node) (t : nat) (m : node)  (* m's run loop takes c's vote request of term t *)
| DeliverRep (c : node) (t : nat) (m : node)  (* c's electLeader takes m's reply *)
| LoseRpc (c : node) (t : nat) (m : node)     (* request or reply lost, nothing reported *)
| FailRpc (c : node) (t : nat) (m : node)     (* request or reply lost, the call returns an error *)
| Timeout (c : node)                          (* electLeader's timer fires *)
| DeliverHealth (idx : nat)
| DropHealth (idx : nat).

Definition upd {A} (f : node -> A) (n : node) (v : A) : node -> A :=
  fun m => if m =? n then v else f m.

Definition set_loc (s : state) (n : node) (l : local) : state :=
  mkState (upd (loc s) n l) (rpcs s) (hnet s) (votes s).
Definition set_rpc (s : state) (c : node) (t : nat) (m : node) (r : rpc) : state :=
  mkState (loc s)
          (fun c' t' m' => if (c' =? c) && (t' =? t) && (m' =? m) then r else rpcs s c' t' m')
          (hnet s) (votes s).
Definition set_vote (s : state) (t : nat) (m c : node) : state :=
  mkState (loc s) (rpcs s) (hnet s)
          (fun t' m' => if (t' =? t) && (m' =? m) then Some c else votes s t' m').
Definition set_hnet (s : state) (h : list hmsg) : state :=
  mkState (loc s) (rpcs s) h (votes s).

Definition with_election (l : local) (e : option (nat * nat)) : local :=
  mkLocal (term l) (leader l) (missed l) e (rehash_skipped l) (ring_nodes l) (active_nodes l) (fail_count l).
Definition with_leader (l : local) (ld : option node) : local :=
  mkLocal (term l) ld (missed l) (electing l) (rehash_skipped l) (ring_nodes l) (active_nodes l) (fail_count l).
Definition with_term_leader (l : local) (t : nat) (ld : option node) : local :=
  mkLocal t ld (missed l) (electing l) (rehash_skipped l) (ring_nodes l) (active_nodes l) (fail_count l).
Definition with_missed (l : local) (m : nat) : local :=
  mkLocal (term l) (leader l) m (electing l) (rehash_skipped l) (ring_nodes l) (active_nodes l) (fail_count l).
Definition with_ring (l : local) (sk : bool) (rn : list node) : local :=
  mkLocal (term l) (leader l) (missed l) (electing l) sk rn (active_nodes l) (fail_count l).
Definition with_failover (l : local) (rn an : list node) (fc : node -> nat) : local :=
  mkLocal (term l) (leader l) (missed l) (electing l) (rehash_skipped l) rn an fc.

Definition is_leader (l : local) (n : node) : bool :=
  match leader l with Some x => x =? n | None => false end.

(* failoverInit: activeNodes = the other nodes then this node; ring of all of them *)
Definition init_local (cfg : config) (n : node) : local :=
  mkLocal 0 None 0 None false (peers cfg n ++ [n]) (peers cfg n ++ [n]) (fun _ => 0).
Definition init (cfg : config) : state :=
  mkState (init_local cfg) (fun _ _ _ => NoCall) [] (fun _ _ => None).

(* the loop condition of electLeader and what follows the loop:
     for i < nodeCount && voteCount < expectVotes { ... }
     if voteCount >= expectVotes { c.fo.leader = c.thisNodeName } *)
Definition loop_or_exit (cfg : config) (n : node) (l : local) (vc i : nat) : local :=
  if (i <? node_count cfg n) && (vc <? expect_votes cfg n) then with_election l (Some (vc, i))
  else if expect_votes cfg n <=? vc then with_election (with_leader l (Some n)) None
  else with_election l None.

(* electLeader up to the first wait: term++, leader = "", one async request per peer, voteCount = 1 *)
Definition start_election (cfg : config) (s : state) (n : node) : state :=
  let l := loc s n in
  let t := S (term l) in
  let l1 := with_missed (with_term_leader l t None) 0 in
  let s1 := mkState (loc s)
                    (fun c' t' m' => if (c' =? n) && (t' =? t) && mem m' (peers cfg n) then ReqFlying else rpcs s c' t' m')
                    (hnet s) (votes s) in
  let s2 := set_vote s1 t n n in
  set_loc s2 n (loop_or_exit cfg n l1 1 0).

(* sendHealthChecks: one synchronous call per peer, then the failCount bookkeeping and the rehash *)
Fixpoint health_results (limit : nat) (ok : list node) (ps : list node) (fc : node -> nat) (rehash : bool)
  : (node -> nat) * bool :=
  match ps with
  | [] => (fc, rehash)
  | p :: ps' =>
    if mem p ok then
      health_results limit ok ps' (upd fc p 0) (rehash || (limit <=? fc p))
    else
      health_results limit ok ps' (upd fc p (S (fc p))) (rehash || (S (fc p) =? limit))
  end.

Definition send_health (cfg : config) (s : state) (n : node) (delivered ok : list node) : state :=
  let l := loc s n in
  let ps := peers cfg n in
  let msgs := map (fun p => mkH p n (term l) (sig_of (ring_nodes l)) (active_nodes l))
                  (filter (fun p => mem p delivered) ps) in
  let '(fc, rehash) := health_results (cfg_fail_limit cfg) ok ps (fail_count l) false in
  let l' := if rehash then
              let act := n :: filter (fun p => fc p <? cfg_fail_limit cfg) ps in
              with_failover l act act fc
            else with_failover l (ring_nodes l) (active_nodes l) fc in
  set_loc (set_hnet s (hnet s ++ msgs)) n l'.

(* the ticker case of run *)
Definition tick (cfg : config) (s : state) (n : node) (delivered ok : list node) : state :=
  let l := loc s n in
  if negb (mem n (cfg_nodes cfg)) then s else
  match electing l with
  | Some _ => s
  | None =>
    if is_leader l n then send_health cfg s n delivered ok
    else
      let m' := S (missed l) in
      if cfg_vote_timeout cfg <=? m' then start_election cfg s n
      else set_loc s n (with_missed l m')
  end.

(* the electionVote case of run *)
Definition deliver_req (cfg : config) (s : state) (c : node) (t : nat) (m : node) : state :=
  match rpcs s c t m with
  | ReqFlying =>
    let l := loc s m in
    if negb (mem m (cfg_nodes cfg)) then s else
    match electing l with
    | Some _ => s
    | None =>
      if term l <? t then
        set_rpc (set_vote (set_loc s m (with_term_leader l t None)) t m c) c t m (RepFlying (Granted t))
      else
        set_rpc s c t m (RepFlying (Denied (term l)))
    end
  | _ => s
  end.

(* one iteration of the select in electLeader's loop, case call := <-done *)
Definition deliver_rep (cfg : config) (s : state) (c : node) (t : nat) (m : node) : state :=
  match rpcs s c t m with
  | RepFlying r =>
    let s1 := set_rpc s c t m Finished in
    let l := loc s c in
    match electing l with
    | Some (vc, i) =>
      if term l =? t then
        let '(vc', i') :=
          match r with
          | Granted _ => (S vc, i)
          | Denied rt => if term l <? rt then (0, node_count cfg c) else (vc, i)
          | RpcError => (vc, i)
          end in
        set_loc s1 c (loop_or_exit cfg c l vc' (S i'))
      else s1     (* reply to an election that is over: its done channel is garbage *)
    | None => s1
    end
  | _ => s
  end.

Definition lose_rpc (s : state) (c : node) (t : nat) (m : node) : state :=
  match rpcs s c t m with
  | ReqFlying | RepFlying _ => set_rpc s c t m Finished
  | _ => s
  end.

Definition fail_rpc (s : state) (c : node) (t : nat) (m : node) : state :=
  match rpcs s c t m with
  | ReqFlying | RepFlying _ => set_rpc s c t m (RepFlying RpcError)
  | _ => s
  end.

(* case <-timeout.C: i = nodeCount *)
Definition election_timeout (cfg : config) (s : state) (c : node) : state :=
  let l := loc s c in
  match electing l with
  | Some (vc, _) => set_loc s c (loop_or_exit cfg c l vc (node_count cfg c))
  | None => s
  end.

Fixpoint remove_nth {A} (i : nat) (l : list A) : list A :=
  match l, i with
  | [], _ => []
  | _ :: l', O => l'
  | x :: l', S j => x :: remove_nth j l'
  end.

(* the healthCheck case of run *)
Definition handle_health (l : local) (h : hmsg) : local :=
  if h_term h <? term l then l          (* stale leader: continue *)
  else
    let l1 := if term l <? h_term h then with_term_leader l (h_term h) (Some (h_leader h))
              else if is_leader l (h_leader h) then l
              else with_leader l (Some (h_leader h)) in
    let l2 := with_missed l1 0 in
    if negb (list_eqb (h_sig h) (sig_of (ring_nodes l2))) then
      if rehash_skipped l2 then with_ring l2 false (h_nodes h)
      else with_ring l2 true (ring_nodes l2)
    else l2.

Definition deliver_health (s : state) (idx : nat) : state :=
  match nth_error (hnet s) idx with
  | Some h =>
    let l := loc s (h_to h) in
    match electing l with
    | Some _ => s
    | None => set_loc (set_hnet s (remove_nth idx (hnet s))) (h_to h) (handle_health l h)
    end
  | None => s
  end.

Definition step (cfg : config) (s : state) (e : event) : state :=
  match e with
  | Tick n d ok => tick cfg s n d ok
  | DeliverReq c t m => deliver_req cfg s c t m
  | DeliverRep c t m => deliver_rep cfg s c t m
  | LoseRpc c t m => lose_rpc s c t m
  | FailRpc c t m => fail_rpc s c t m
  | Timeout c => election_timeout cfg s c
  | DeliverHealth i => deliver_health s i
  | DropHealth i => set_hnet s (remove_nth i (hnet s))
  end.

Definition run (cfg : config) (evs : list event) : state := fold_left (step cfg) evs (init cfg).

(* cluster.go isPartitioned: (len(c.nodes)+1)/2 >= len(c.fo.activeNodes) *)
Definition is_partitioned (cfg : config) (s : state) (n : node) : bool :=
  length (active_nodes (loc s n)) <=? Nat.div2 (node_count cfg n + 1).

(* session.go dispatch: a partitioned node answers every client request with 502 *)
Inductive dispatch_result := Served | Err502.
Definition dispatch (cfg : config) (s : state) (n : node) : dispatch_result :=
  if is_partitioned cfg s n then Err502 else Served.

(* PANIC SITE (repaired in /repo by the fix "nil check in gcProxySessionsForNode",
   findings/C17_nilcheck.diff).  The rehash branch of the healthCheck case calls
   c.gcProxySessions(health.Nodes), which computes (this node + c.nodes) minus
   health.Nodes and hands every such name to gcProxySessionsForNode:
       n := c.nodes[name]; [fix: if n == nil { return }]; n.lock.Lock(); ...
   c.nodes holds the OTHER nodes only, so c.nodes[name] is nil exactly for
   name = this node.  Unrepaired, that is a nil dereference which kills the run
   goroutine (and the process); repaired, the call returns.
   [repaired = true] is the code as it is now; [step] (above) is the repaired
   handler, which always completes.  The unrepaired handler is kept as
   [step_unrepaired], whose outcome [None] is the panic. *)

(* gcProxySessionsForNode(p) at node self: true = returns normally *)
Definition gc_for_node (repaired : bool) (self p : node) : bool :=
  if p =? self then repaired else true.

(* gcProxySessions(active) at node self *)
Definition gc_proxy_sessions (repaired : bool) (cfg : config) (self : node) (active : list node) : bool :=
  forallb (gc_for_node repaired self)
          (filter (fun p => negb (mem p active)) (self :: peers cfg self)).

(* does the delivery of the idx-th health check panic? *)
Definition health_panics_gen (repaired : bool) (cfg : config) (s : state) (idx : nat) : bool :=
  match nth_error (hnet s) idx with
  | Some h =>
    let l := loc s (h_to h) in
    match electing l with
    | Some _ => false
    | None =>
      (* the rehash branch is taken ... *)
      negb (h_term h <? term l) && negb (list_eqb (h_sig h) (sig_of (ring_nodes l)))
      && rehash_skipped l
      (* ... and gcProxySessions(health.Nodes) does not return *)
      && negb (gc_proxy_sessions repaired cfg (h_to h) (h_nodes h))
    end
  | None => false
  end.

Definition health_panics (cfg : config) (s : state) (idx : nat) : bool := health_panics_gen true cfg s idx.
Definition health_panics_unrepaired (cfg : config) (s : state) (idx : nat) : bool := health_panics_gen false cfg s idx.

(* sendHealthChecks also calls gcProxySessions, with the leader's own new list *)
Definition leader_gc_panics (repaired : bool) (cfg : config) (n : node) (active : list node) : bool :=
  negb (gc_proxy_sessions repaired cfg n active).

(* the code before the fix: None = the run goroutine of a node died *)
Definition step_unrepaired (cfg : config) (s : state) (e : event) : option state :=
  match e with
  | DeliverHealth idx => if health_panics_unrepaired cfg s idx then None else Some (step cfg s e)
  | _ => Some (step cfg s e)
  end.

Fixpoint run_unrepaired_from (cfg : config) (s : state) (evs : list event) : option state :=
  match evs with
  | [] => Some s
  | e :: evs' =>
    match step_unrepaired cfg s e with
    | Some s' => run_unrepaired_from cfg s' evs'
    | None => None
    end
  end.
Definition run_unrepaired (cfg : config) (evs : list event) : option state :=
  run_unrepaired_from cfg (init cfg) evs.
