(* C13 lemmas about Sys/HeldLoad.v: who is answered, with which id, when a topic load ends with requests queued *)
From Coq Require Import List NArith Arith Bool Lia.
Import ListNotations.
Require Import Tinode.Sys.HeldLoad.
Open Scope N_scope.

Lemma eqs_refl a : eqs a a = true.
Proof. induction a as [|x a IH]; [reflexivity|]. cbn. now rewrite N.eqb_refl. Qed.

Lemma answers_own m code : answers (own m code) m = true.
Proof. unfold answers, own. cbn. now rewrite N.eqb_refl, eqs_refl. Qed.

(* a reply built from request m with m's id *)
Definition from (ms : list cmsg) (r : reply) : Prop := exists m code, In m ms /\ r = own m code.

Lemma from_mono ms ms' r : (forall m, In m ms -> In m ms') -> from ms r -> from ms' r.
Proof. intros H [m [code [Hin ->]]]. exists m, code. auto. Qed.

Lemma from_all_own reqs rs : Forall (from reqs) rs -> all_own reqs rs = true.
Proof.
  intros H. unfold all_own. apply forallb_forall. intros r Hr. rewrite Forall_forall in H.
  destruct (H r Hr) as [m [code [Hin ->]]]. apply existsb_exists. exists m. split; [exact Hin|apply answers_own].
Qed.

(* one routed request: the replies are m's own; the queues grow by m at most; the join is untouched *)
Lemma route_spec ti h m h' rs : route ti h m = (h', rs) ->
  h_join h' = h_join h /\ Forall (from [m]) rs /\
  (forall x, In x (h_client h') -> In x (h_client h) \/ x = m) /\
  (forall x, In x (h_meta h') -> In x (h_meta h) \/ x = m).
Proof.
  assert (Own : forall code, from [m] (own m code)) by (intros code; exists m, code; split; [now left|reflexivity]).
  assert (Cli : forall h1 rs1, hub_route_cli h m = (h1, rs1) ->
            h_join h1 = h_join h /\ Forall (from [m]) rs1 /\ (forall x, In x (h_client h1) -> In x (h_client h) \/ x = m) /\ (forall x, In x (h_meta h1) -> In x (h_meta h) \/ x = m)).
  { intros h1 rs1. unfold hub_route_cli. destruct (h_registered h).
    - destruct (Nat.ltb (length (h_client h)) client_cap); intros H; inversion H; subst; cbn; repeat split; auto.
      intros x Hx. apply in_app_or in Hx as [Hx|[<-|[]]]; auto.
    - destruct (m_kind m); intros H; inversion H; subst; repeat split; auto. }
  unfold route. destruct (m_kind m) as [|w valid|any ds|any tc|owner|known|unsub|].
  - destruct (ti_sys ti); [apply Cli|]. intros H; inversion H; subst. repeat split; auto.
  - destruct (negb valid); [intros H; inversion H; subst; repeat split; auto|].
    destruct w as [ | | | [ | ] | | ]; try apply Cli; intros H; inversion H; subst; repeat split; auto.
  - destruct (negb any); [|destruct ds]; intros H; inversion H; subst; repeat split; auto.
  - destruct (negb any); [|destruct tc]; intros H; inversion H; subst; repeat split; auto.
  - destruct (h_registered h); [destruct (ti_p2p ti)|]; intros H; inversion H; subst; cbn; repeat split; auto.
    intros x Hx. apply in_app_or in Hx as [Hx|[<-|[]]]; auto.
  - destruct known; intros H; inversion H; subst; repeat split; auto.
  - intros H; inversion H; subst; repeat split; auto.
  - destruct (h_registered h); intros H; inversion H; subst; repeat split; auto.
Qed.

Lemma route_all_spec ti : forall ms h h' rs, route_all ti h ms = (h', rs) ->
  h_join h' = h_join h /\ Forall (from ms) rs /\
  (forall x, In x (h_client h') -> In x (h_client h) \/ In x ms) /\
  (forall x, In x (h_meta h') -> In x (h_meta h) \/ In x ms).
Proof.
  induction ms as [|m r IH]; intros h h' rs H; cbn [route_all] in H.
  - inversion H; subst. repeat split; auto.
  - destruct (route ti h m) as [h1 rs1] eqn:R1. destruct (route_all ti h1 r) as [h2 rs2] eqn:R2. inversion H; subst.
    destruct (route_spec _ _ _ _ _ R1) as [J1 [F1 [C1 M1]]]. destruct (IH _ _ _ R2) as [J2 [F2 [C2 M2]]].
    split; [congruence|]. split.
    + apply Forall_app. split.
      * eapply Forall_impl; [|exact F1]. intros a. apply from_mono. intros x [<-|[]]. now left.
      * eapply Forall_impl; [|exact F2]. intros a. apply from_mono. intros x Hx. now right.
    + split; intros x Hx.
      * destruct (C2 x Hx) as [Hc|Hc]; [destruct (C1 x Hc) as [Hd| ->]; [now left|right; now left]|right; now right].
      * destruct (M2 x Hx) as [Hc|Hc]; [destruct (M1 x Hc) as [Hd| ->]; [now left|right; now left]|right; now right].
Qed.

(* ---- every reply carries the id of a request of the session it goes to (code as it is) ---- *)
Lemma run_held_from ti join ms rel : Forall (from (join :: ms)) (run_held true ti join ms rel).
Proof.
  unfold run_held. destruct (route_all ti (init_held join) ms) as [h rs] eqn:R.
  destruct (route_all_spec _ _ _ _ _ R) as [J [F [C M]]]. cbn in J, C, M.
  assert (Cq : forall x, In x (h_client h) -> In x (join :: ms)) by (intros x Hx; destruct (C x Hx) as [[]|Hc]; now right).
  assert (Mq : forall x, In x (h_meta h) -> In x (join :: ms)) by (intros x Hx; destruct (M x Hx) as [[]|Hc]; now right).
  apply Forall_app. split.
  - eapply Forall_impl; [|exact F]. intros a. apply from_mono. intros x Hx. now right.
  - destruct rel as [|e].
    + unfold release_ok. destruct (h_deleted h); [constructor|]. constructor.
      * exists join, code_oracle. rewrite J. split; [now left|reflexivity].
      * apply Forall_app. split.
        -- apply Forall_forall. intros r Hr. apply in_flat_map in Hr as [m [Hm Hr]]. unfold client_reply in Hr.
           destruct (m_kind m); cbn in Hr; try contradiction. destruct (is_empty (m_id m)); cbn in Hr; [contradiction|].
           destruct Hr as [<-|[]]. exists m, code_oracle. split; [now apply Cq|reflexivity].
        -- apply Forall_forall. intros r Hr. apply in_flat_map in Hr as [m [Hm Hr]]. unfold meta_reply in Hr.
           destruct (m_kind m) as [| | | |[|]| | |]; cbn in Hr; try contradiction; destruct Hr as [<-|[]]; exists m, code_oracle; (split; [now apply Mq|reflexivity]).
    + unfold release_fail. constructor.
      * exists join, e. rewrite J. split; [now left|reflexivity].
      * apply Forall_app. split.
        -- apply Forall_forall. intros r Hr. apply in_map_iff in Hr as [m [<- Hm]]. exists m, 503. split; [now apply Cq|reflexivity].
        -- apply Forall_forall. intros r Hr. apply in_map_iff in Hr as [m [<- Hm]]. exists m, 503. split; [now apply Mq|reflexivity].
Qed.

Lemma run_held_all_own ti join ms rel : all_own (join :: ms) (run_held true ti join ms rel) = true.
Proof. apply from_all_own, run_held_from. Qed.

(* the failure branch, exactly: one reply for the join, then one 503 per queued client message IN QUEUE ORDER with that
   message's own session and id, then one per queued {del} *)
Lemma release_fail_exact e h :
  release_fail true e h = own (h_join h) e :: map (fun m => own m 503) (h_client h) ++ map (fun m => own m 503) (h_meta h).
Proof. reflexivity. Qed.

(* the variant that answers the queued client messages with join.Id *)
Lemma variant_foreign_id : all_own [w_join; w_pub] (run_held false ti_sys_topic w_join [w_pub] (RelFail 500)) = false.
Proof. vm_compute. reflexivity. Qed.

Lemma as_is_on_witness : run_held true ti_sys_topic w_join [w_pub] (RelFail 500) = [mkRep 1 500 [115;49]; mkRep 2 503 [112;55]].
Proof. vm_compute. reflexivity. Qed.

(* ---- every request other than a note is answered: REFUTED by the faithful model ---- *)
(* a p2p topic deleted while it is being loaded: topicInit returns at `if t.isDeleted()` without a word *)
Lemma join_lost : answered (run_held true ti_p2p_topic w_join [w_del] RelOk) w_join = false.
Proof. vm_compute. reflexivity. Qed.

Definition is_deltopic (m : cmsg) : bool := match m_kind m with KDelTopic _ => true | _ => false end.
Definition is_owner_del (m : cmsg) : bool := match m_kind m with KDelTopic true => true | _ => false end.

(* the trigger: a load SUCCEEDS after a {del what=topic} arrived for the topic - any for a P2P topic (the topic is
   deleted under the loader), the owner's for a group topic (replyDelTopic does not expect the owner) *)
Definition lost_trigger (ti : tinfo) (ms : list cmsg) (rel : release) : bool :=
  ((ti_p2p ti && existsb is_deltopic ms) || existsb is_owner_del ms) && match rel with RelOk => true | RelFail _ => false end.

(* the owner's {del what=topic} for a group topic that is being loaded is dropped without a reply *)
Lemma owner_del_lost : answered (run_held true ti_grp_topic w_join [w_del_owner] RelOk) w_del_owner = false.
Proof. vm_compute. reflexivity. Qed.

Lemma answered_app_l rs1 rs2 m : answered rs1 m = true -> answered (rs1 ++ rs2) m = true.
Proof. unfold answered. rewrite existsb_app. intros ->. reflexivity. Qed.

Lemma answered_app_r rs1 rs2 m : answered rs2 m = true -> answered (rs1 ++ rs2) m = true.
Proof. unfold answered. rewrite existsb_app. intros ->. apply orb_true_r. Qed.

Lemma answered_in rs m code : In (own m code) rs -> answered rs m = true.
Proof. intros H. unfold answered. apply existsb_exists. exists (own m code). split; [exact H|apply answers_own]. Qed.

(* one routed request other than a note: answered at once, or queued *)
Lemma route_progress ti h m h' rs : route ti h m = (h', rs) -> is_note m = false ->
  (length (h_client h) < client_cap)%nat ->
  answered rs m = true \/ (In m (h_client h') /\ m_kind m = KPub) \/ In m (h_meta h').
Proof.
  intros R Nn Cap. unfold is_note in Nn. unfold route in R.
  assert (One : forall code, answered [own m code] m = true) by (intros code; eapply answered_in; now left).
  destruct (m_kind m) as [|w valid|any ds|any tc|owner|known|unsub|] eqn:K; try discriminate.
  - destruct (ti_sys ti); [|inversion R; subst; left; apply One].
    unfold hub_route_cli in R. rewrite K in R. destruct (h_registered h).
    + apply Nat.ltb_lt in Cap. rewrite Cap in R. inversion R; subst. right; left. cbn. split; [apply in_or_app; right; now left|reflexivity].
    + inversion R; subst. left. apply One.
  - destruct (negb any); [|destruct ds]; inversion R; subst; left; apply One.
  - destruct (negb any); [|destruct tc]; inversion R; subst; left; apply One.
  - destruct (h_registered h); [destruct (ti_p2p ti)|]; inversion R; subst; try (left; apply One).
    right; right. cbn. apply in_or_app; right; now left.
  - destruct known; inversion R; subst; left; apply One.
  - inversion R; subst; left; apply One.
  - destruct (h_registered h); inversion R; subst; left; apply One.
Qed.

(* queues only grow; deletion only by a {del what=topic} on a p2p topic *)
Lemma route_mono ti h m h' rs : route ti h m = (h', rs) ->
  (forall x, In x (h_client h) -> In x (h_client h')) /\ (forall x, In x (h_meta h) -> In x (h_meta h')) /\
  (length (h_client h') <= S (length (h_client h)))%nat /\
  (h_deleted h' = true -> h_deleted h = true \/ (ti_p2p ti = true /\ is_deltopic m = true)).
Proof.
  intros R. unfold route in R. unfold is_deltopic.
  assert (Cli : forall h1 rs1, hub_route_cli h m = (h1, rs1) ->
     (forall x, In x (h_client h) -> In x (h_client h1)) /\ (forall x, In x (h_meta h) -> In x (h_meta h1)) /\
     (length (h_client h1) <= S (length (h_client h)))%nat /\ h_deleted h1 = h_deleted h).
  { intros h1 rs1. unfold hub_route_cli. destruct (h_registered h).
    - destruct (Nat.ltb (length (h_client h)) client_cap); intros H; inversion H; subst; cbn; repeat split; auto.
      + intros x Hx. apply in_or_app. now left.
      + rewrite app_length. cbn. lia.
    - destruct (m_kind m); intros H; inversion H; subst; repeat split; auto. }
  destruct (m_kind m) as [|w valid|any ds|any tc|owner|known|unsub|] eqn:K.
  - destruct (ti_sys ti); [destruct (Cli _ _ R) as [A [B [C D]]]; repeat split; auto; rewrite D; auto|inversion R; subst; repeat split; auto].
  - destruct (negb valid); [inversion R; subst; repeat split; auto|].
    destruct w as [ | | | [ | ] | | ]; try (destruct (Cli _ _ R) as [A [B [C D]]]; repeat split; auto; rewrite D; auto); inversion R; subst; repeat split; auto.
  - destruct (negb any); [|destruct ds]; inversion R; subst; repeat split; auto.
  - destruct (negb any); [|destruct tc]; inversion R; subst; repeat split; auto.
  - destruct (h_registered h); [destruct (ti_p2p ti) eqn:P|]; inversion R; subst; cbn; repeat split; auto.
    intros x Hx. apply in_or_app. now left.
  - destruct known; inversion R; subst; repeat split; auto.
  - inversion R; subst; repeat split; auto.
  - destruct (h_registered h); inversion R; subst; repeat split; auto.
Qed.

Lemma route_all_progress ti : forall ms h h' rs, route_all ti h ms = (h', rs) ->
  (length (h_client h) + length ms <= client_cap)%nat ->
  (forall m, In m ms -> is_note m = false ->
     answered rs m = true \/ (In m (h_client h') /\ m_kind m = KPub) \/ In m (h_meta h')) /\
  (forall x, In x (h_client h) -> In x (h_client h')) /\ (forall x, In x (h_meta h) -> In x (h_meta h')) /\
  (h_deleted h' = true -> h_deleted h = true \/ (ti_p2p ti = true /\ existsb is_deltopic ms = true)).
Proof.
  induction ms as [|m r IH]; intros h h' rs H Cap; cbn [route_all] in H.
  - inversion H; subst. split; [intros m []|repeat split; auto].
  - destruct (route ti h m) as [h1 rs1] eqn:R1. destruct (route_all ti h1 r) as [h2 rs2] eqn:R2. inversion H; subst.
    cbn [length] in Cap.
    destruct (route_mono _ _ _ _ _ R1) as [Mc [Mm [Ml Md]]].
    destruct (IH _ _ _ R2) as [P2 [Kc [Km Kd]]]; [lia|].
    split; [|split; [auto|split; [auto|]]].
    + intros x [<-|Hx] Nn.
      * destruct (route_progress _ _ _ _ _ R1 Nn) as [A|[[A B]|A]]; [lia|left; now apply answered_app_l|right; left; split; auto|right; right; auto].
      * destruct (P2 x Hx Nn) as [A|[A|A]]; [left; now apply answered_app_r|right; now left|right; now right].
    + intros D. cbn [existsb]. destruct (Kd D) as [D1|[D1 D2]].
      * destruct (Md D1) as [D3|[D3 D4]]; [now left|right; split; [exact D3|now rewrite D4]].
      * right. split; [exact D1|rewrite D2; apply orb_true_r].
Qed.

(* PARTIAL: unless a P2P topic is deleted while its load succeeds - and as long as the queue of the paused topic
   (192 slots) is not overrun - every request other than a note, the {sub} included, is answered with its own id *)
Lemma run_held_answered ti join ms rel m :
  lost_trigger ti ms rel = false -> (length ms <= client_cap)%nat ->
  In m (join :: ms) -> is_note m = false -> pub_has_id m = true -> answered (run_held true ti join ms rel) m = true.
Proof.
  intros Tr Cap Hin Nn Pid. unfold run_held. destruct (route_all ti (init_held join) ms) as [h rs] eqn:R.
  destruct (route_all_spec _ _ _ _ _ R) as [J [_ [_ Mm]]]. cbn in J, Mm.
  destruct (route_all_progress _ _ _ _ _ R) as [P [_ [_ Kd]]]; [cbn; lia|]. cbn in Kd.
  assert (Del : rel = RelOk -> h_deleted h = false).
  { intros ->. destruct (h_deleted h) eqn:D; [|reflexivity]. destruct (Kd eq_refl) as [D1|[D1 D2]]; [discriminate|].
    unfold lost_trigger in Tr. rewrite D1, D2 in Tr. discriminate. }
  assert (Own : rel = RelOk -> forall x, In x (h_meta h) -> is_owner_del x = false).
  { intros -> x Hx. destruct (is_owner_del x) eqn:O; [|reflexivity]. exfalso.
    assert (E : existsb is_owner_del ms = true).
    { apply existsb_exists. exists x. split; [|exact O]. destruct (Mm x Hx) as [[]|Hc]. exact Hc. }
    unfold lost_trigger in Tr. rewrite E, orb_true_r in Tr. discriminate. }
  assert (AtEnd : forall x, pub_has_id x = true -> x = join \/ (In x (h_client h) /\ m_kind x = KPub) \/ In x (h_meta h) ->
            answered (match rel with RelOk => release_ok h | RelFail e => release_fail true e h end) x = true).
  { intros x Px Hx. destruct rel as [|e].
    - unfold release_ok. rewrite (Del eq_refl). destruct Hx as [->|[[Hc Hk]|Hm]].
      + eapply answered_in. left. rewrite J. reflexivity.
      + eapply answered_in. right. apply in_or_app. left. apply in_flat_map. exists x. split; [exact Hc|]. unfold client_reply. rewrite Hk.
        unfold pub_has_id in Px. rewrite Hk in Px. destruct (is_empty (m_id x)); [discriminate Px|]. now left.
      + eapply answered_in. right. apply in_or_app. right. apply in_flat_map. exists x. split; [exact Hm|].
        pose proof (Own eq_refl x Hm) as O. unfold is_owner_del in O. unfold meta_reply.
        destruct (m_kind x) as [| | | |[|]| | |]; try discriminate O; now left.
    - unfold release_fail. destruct Hx as [->|[[Hc Hk]|Hm]].
      + eapply answered_in. left. rewrite J. reflexivity.
      + eapply (answered_in _ x 503). right. apply in_or_app. left. apply in_map_iff. exists x. split; [reflexivity|exact Hc].
      + eapply answered_in. right. apply in_or_app. right. apply in_map_iff. exists x. split; [reflexivity|exact Hm]. }
  destruct Hin as [<-|Hin].
  - apply answered_app_r. apply AtEnd; [exact Pid|now left].
  - destruct (P m Hin Nn) as [A|A]; [now apply answered_app_l|]. apply answered_app_r. apply AtEnd; [exact Pid|now right].
Qed.
