(* C15, the clause "a call can be started only in a peer-to-peer topic".

   Sys/Call.v models ONE p2p topic, so the category test of the invitation gate is invisible
   there.  This file adds the topic category as a parameter:

   - [pub_broadcast]: Topic.handlePubBroadcast (server/topic.go 1058-1100) statement by
     statement for a topic of ANY category: isInactive, isReadOnly, the isCall branch
     (len(globals.iceServers) == 0 -> 501; t.cat != TopicCatP2P -> 403; t.currentCall != nil -> 486),
     saveAndBroadcastMessage (963-1054, with its `t.cat != TopicCatSys` exemption from the
     write check), handleCallInvite (calls.go 222-238);
   - [session_note_call]: the what="call" path of Session.note (server/session.go 1239-1306):
     `!strings.HasPrefix(msg.RcptTo, "p2p")` -> dropped, seq <= 0 -> dropped, attached -> the topic,
     ringing/hang-up/accept -> the hub, otherwise 409;
   - [note_broadcast_call]: Topic.handleNoteBroadcast for what="call" (topic.go 1105-1143):
     inactive -> dropped, seq > lastID -> dropped, then handleCallEvent (which has NO category test
     of its own: what keeps it silent outside p2p topics is that no call can exist there);
   - [publish_route]: Session.publish (session.go 685-731): attached -> the topic, RcptTo == "sys" ->
     the hub (no subscription needed), otherwise 409;
   - a world = the p2p topic of Sys/Call.v + any number of other topics (group topic - also
     addressed as a channel -, 'me', 'fnd', 'sys'), each with its own Topic state
     (currentCall, timer, lastID, sessions, perUser, message rows), and [wstep] = one client
     request addressed to the p2p topic ([XOld], exactly Call.step) or to one of the others.

   For the p2p category the new functions ARE the old ones (CallCatProofs: pub_p2p_is_invite,
   pub_p2p_is_pub, note_p2p_is_event), so the theorems of PropC15.v about Call.step are theorems
   about the same gate.

   Over-approximation, outside the C15 projection: the recipients of an ordinary {data} on a
   non-p2p topic are "every attached session" (the real fan-out filters by R permission and
   channel flag: that is C02's business); the correspondence does not compare those frames.

   Definitions only.  Proofs are in Sys/CallCatProofs.v. *)
From Coq Require Import ZArith NArith List Bool.
From Tinode Require Import Sys.Call.
Import ListNotations.
Open Scope Z_scope.

(* types.TopicCat *)
Inductive cat := CatMe | CatFnd | CatP2P | CatGrp | CatSys.
Definition is_p2p (c : cat) : bool := match c with CatP2P => true | _ => false end.
Definition is_sys (c : cat) : bool := match c with CatSys => true | _ => false end.

(* the tail of saveAndBroadcastMessage, after the write check *)
Definition do_save (cfg : config) (st : state) (msess : sid) (has_id : bool) (as_uid : uid)
    (repl : option Z) (w : option wstate) (content : N) : state * list out * bool :=
  let su := user_of cfg msess in
  let sender := if N.eqb su as_uid then 0%N else su in
  let m := mkMsg (lastid st + 1) as_uid repl w sender content in
  let st' := add_msg m st in
  (st', (if has_id then [(msess, FCtrl 202 (Some (m_seq m)))] else []) ++ bcast_data cfg st' m, true).

(* saveAndBroadcastMessage in a topic of category c: "Anyone is allowed to post to 'sys' topic" *)
Definition save_and_broadcast_cat (cfg : config) (c : cat) (st : state) (msess : sid) (has_id : bool) (as_uid : uid)
    (repl : option Z) (w : option wstate) (content : N) : state * list out * bool :=
  if negb (is_sys c) && negb (writer st as_uid) then (st, [(msess, FCtrl 403 None)], false)
  else do_save cfg st msess has_id as_uid repl w content.

(* Topic.handlePubBroadcast(msg): msg.sess = s, msg.AsUser = user_of s, msg.Id != "",
   msg.Pub.Head["webrtc"] = w (None: absent), msg.Pub.Head["replace"] = repl, in a topic of
   category c whose status bits are inactive / readonly *)
Definition pub_broadcast (cfg : config) (c : cat) (inactive readonly : bool) (st : state) (s : sid)
    (w : option N) (repl : option Z) (content : N) : state * list out :=
  if inactive then (st, [(s, FCtrl 503 None)])
  else if readonly then (st, [(s, FCtrl 403 None)])
  else
    match w with
    | Some wt =>
      if negb (configured cfg) then (st, [(s, FCtrl 501 None)])
      else if negb (is_p2p c) then (st, [(s, FCtrl 403 None)])
      else match current st with
      | Some _ => (st, [(s, FCtrl 486 None)])
      | None =>
        let u := user_of cfg s in
        let '(st1, o1, ok) := save_and_broadcast_cat cfg c st s true u repl (Some (WClient wt)) content in
        if negb ok then (st1, o1)
        else (set_timer true (set_current (Some (mkCall u s None (lastid st1) content)) st1), o1)
      end
    | None =>
      let '(st1, o1, _) := save_and_broadcast_cat cfg c st s true (user_of cfg s) repl None content in (st1, o1)
    end.

(* the answer to an invitation outside p2p topics *)
Definition non_p2p_code (cfg : config) (inactive readonly : bool) : Z :=
  if inactive then 503 else if readonly then 403 else if negb (configured cfg) then 501 else 403.

(* Session.publish: where the {pub} goes *)
Inductive pub_route := PTopic | PHub | PAttachFirst.
Definition publish_route (attached_here : bool) (rcpt_is_sys : bool) : pub_route :=
  if attached_here then PTopic else if rcpt_is_sys then PHub else PAttachFirst.

(* Session.note, what="call": where the {note} goes *)
Inductive note_route := NDrop | NTopic | NHub | NAttachFirst.
Definition session_note_call (rcpt_p2p : bool) (seq : Z) (attached_here : bool) (e : event) : note_route :=
  if negb rcpt_p2p then NDrop
  else if seq <=? 0 then NDrop
  else if attached_here then NTopic
  else if hub_routed e then NHub
  else NAttachFirst.

(* Topic.handleNoteBroadcast for what="call" *)
Definition note_broadcast_call (cfg : config) (inactive : bool) (st : state) (s : sid) (e : event) (seq : Z) (payload : N)
    : state * list out :=
  if inactive then (st, [])
  else if lastid st <? seq then (st, [])
  else handle_call_event cfg st s e seq payload.

(* ------------------------------------------------------------------ *)
(* the world: the p2p topic and the other topics *)
Record otopic := mkOT { o_cat : cat; o_owner : uid; o_st : state }.
Record world := mkWorld { w_p2p : state; w_others : list (N * otopic) }.

Inductive xop :=
| XOld (o : op)                                                             (* a request of Sys/Call.v, to the p2p topic *)
| XPub (s : sid) (k : N) (content : N) (w : option N) (repl : option Z)     (* {pub topic=<k> head={webrtc: w, replace: repl}} *)
| XNote (s : sid) (k : N) (e : event) (seq : Z) (payload : N).              (* {note topic=<k> what=call} *)

Arguments XPub s%N k%N content%N w repl.
Arguments XNote s%N k%N e seq%Z payload%N.

(* Session.getSub(RcptTo) != nil.  The sessions of a 'me' topic are the [on_me] of Sys/Call.v *)
Definition att_other (cfg : config) (w : world) (t : otopic) (s : sid) : bool :=
  match o_cat t with
  | CatMe => mem s (on_me (w_p2p w)) && N.eqb (user_of cfg s) (o_owner t)
  | _ => mem s (attached (o_st t))
  end.

Definition set_other (k : N) (st' : state) (w : world) : world :=
  mkWorld (w_p2p w) (update k (fun t => mkOT (o_cat t) (o_owner t) st') (w_others w)).

(* Session.cleanUp: the closed connection leaves every topic *)
Definition detach_all (s : sid) (l : list (N * otopic)) : list (N * otopic) :=
  map (fun kt => (fst kt, mkOT (o_cat (snd kt)) (o_owner (snd kt))
                            (set_attached (remove s (attached (o_st (snd kt)))) (o_st (snd kt))))) l.

Definition alive (cfg : config) (w : world) (s : sid) : bool := known cfg s && negb (mem s (dead (w_p2p w))).

Definition undead (w : world) (os : list out) : list out :=
  filter (fun so => negb (mem (fst so) (dead (w_p2p w)))) os.

Definition wstep (cfg : config) (w : world) (x : xop) : world * list out :=
  match x with
  | XOld o =>
    let '(st', os) := step cfg (w_p2p w) o in
    (mkWorld st' (match o with
                  | ODisc s => if alive cfg w s then detach_all s (w_others w) else w_others w
                  | _ => w_others w
                  end), os)
  | XPub s k content wt repl =>
    if negb (alive cfg w s) then (w, [])
    else match lookup k (w_others w) with
    | None => (w, [(s, FCtrl 409 None)])
    | Some t =>
      match publish_route (att_other cfg w t s) (is_sys (o_cat t)) with
      | PAttachFirst => (w, [(s, FCtrl 409 None)])
      | PTopic | PHub =>          (* 'sys' is always loaded: the hub finds it *)
        let '(st', os) := pub_broadcast cfg (o_cat t) false false (o_st t) s wt repl content in
        (set_other k st' w, undead w os)
      end
    end
  | XNote s k e seq payload =>
    if negb (alive cfg w s) then (w, [])
    else match lookup k (w_others w) with
    | None => (w, [])
    | Some t =>
      match session_note_call (is_p2p (o_cat t)) seq (att_other cfg w t s) e with
      | NDrop => (w, [])
      | NAttachFirst => (w, [(s, FCtrl 409 None)])
      | NTopic =>
        let '(st', os) := note_broadcast_call cfg false (o_st t) s e seq payload in (set_other k st' w, undead w os)
      | NHub =>
        if loaded (o_st t)
        then let '(st', os) := note_broadcast_call cfg false (o_st t) s e seq payload in (set_other k st' w, undead w os)
        else (w, [])
      end
    end
  end.

Fixpoint wrun (cfg : config) (w : world) (xs : list xop) : world * list (list out) :=
  match xs with
  | [] => (w, [])
  | x :: r => let '(w1, os) := wstep cfg w x in
              let '(w2, oss) := wrun cfg w1 r in (w2, os :: oss)
  end.

Definition wfinal (cfg : config) (w : world) (xs : list xop) : world := fst (wrun cfg w xs).

(* a freshly loaded topic of category c: perUser = the given users with their W bit, the given
   sessions attached, no call, no message *)
Definition init_other (c : cat) (owner : uid) (ws : list (uid * bool)) (atts : list sid) (ld : bool) : otopic :=
  mkOT c owner (mkState ld None false 0 atts [] [] (map (fun ub => (fst ub, mkPud (snd ub) (snd ub) false 0%N)) ws) []).

Definition init_world (a b : uid) (others : list (N * otopic)) : world := mkWorld (init2 a b) others.
