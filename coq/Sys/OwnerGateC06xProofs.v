(* C06: a group topic is deleted for everybody by its owner only, whatever the number of subscribers. *)
From Coq Require Import ZArith NArith List Bool.
From Tinode Require Import Sys.OwnerGate Sys.OwnerGateC06x.
Import ListNotations.
Open Scope Z_scope.

Lemma gate_del_group_owner_c06x r code : dx_p2p r = false ->
  gate_del_c06x r = GAll code -> dx_is_owner r = true /\ code = 200.
Proof.
  destruct r as [p l oc cc sb os cs]. cbn. intros ->. unfold gate_del_c06x, dx_is_owner. cbn.
  rewrite orb_false_r.
  destruct l, oc, sb, os, (cs =? 0)%N; cbn; intros H; try discriminate; inversion H; auto.
Qed.

(* on group topics the gate with counts is the gate of OwnerGate.v: the counts are not read *)
Lemma gate_del_group_refines_c06x r : dx_p2p r = false -> (dx_subscribed r = true -> dx_count_s r <> 0%N) ->
  gate_del_c06x r = gate_del (dx_greq r).
Proof.
  destruct r as [p l oc cc sb os cs]. cbn. intros -> NZ. unfold gate_del_c06x, gate_del. cbn.
  rewrite orb_false_r. destruct l; [reflexivity|].
  destruct (cs =? 0)%N eqn:E; [|reflexivity].
  destruct sb; [|reflexivity]. apply N.eqb_eq in E. exfalso. now apply NZ.
Qed.

(* the shortcut is the p2p one: a loaded p2p topic is removed by a request iff fewer than two
   subscribers are left (a p2p topic has no owner) *)
Lemma gate_del_p2p_loaded_c06x r : dx_p2p r = true -> dx_loaded r = true -> dx_owner_c r = false ->
  ((exists code, gate_del_c06x r = GAll code) <-> (dx_count_c r < 2)%N).
Proof.
  destruct r as [p l oc cc sb os cs]. cbn. intros -> -> ->. unfold gate_del_c06x. cbn.
  destruct (cc <? 2)%N eqn:E.
  - apply N.ltb_lt in E. split; [auto|]. intros _. eexists. reflexivity.
  - apply N.ltb_ge in E. split; [|intros H; exfalso; now apply N.lt_nge in H].
    intros [code H]. destruct sb; discriminate H.
Qed.

(* the owner is served, and a subscribed non-owner of a group topic only leaves *)
Lemma gate_del_group_member_c06x r : dx_p2p r = false -> dx_is_owner r = false -> dx_subscribed r = true ->
  dx_count_s r <> 0%N -> gate_del_c06x r = GOwn 200.
Proof.
  destruct r as [p l oc cc sb os cs]. cbn. unfold dx_is_owner, gate_del_c06x. cbn. intros -> O -> NZ.
  apply N.eqb_neq in NZ. rewrite NZ. destruct l; rewrite O; reflexivity.
Qed.
