(* C08: lemmas about association lists, subscription rows, the store primitives and
   the load path, on which the coherence proofs (TopicCohC08Step.v) build. *)
From Coq Require Import ZArith NArith List Bool Lia.
From Tinode Require Import Base.Util Pure.Acs Sys.Topic Sys.TopicTac Sys.TopicFrame Sys.TopicCohC08.
Import ListNotations.
Open Scope Z_scope.

(* ------------------------------------------------------------------ *)
(* association lists *)
Section AssocLemmas.
  Context {A : Type}.
  Lemma alookup_aset (u k : N) (v : A) l :
    alookup u (aset k v l) = if N.eqb u k then Some v else alookup u l.
  Proof.
    induction l as [|[k' v'] l IH]; cbn.
    - destruct (N.eqb_spec u k); reflexivity.
    - destruct (N.eqb_spec k k'); cbn.
      + subst. destruct (N.eqb_spec u k'); reflexivity.
      + destruct (N.eqb_spec u k'); [|exact IH].
        subst. destruct (N.eqb_spec k' k); [congruence|reflexivity].
  Qed.
  Lemma alookup_aremove (u k : N) (l : list (N * A)) :
    alookup u (aremove k l) = if N.eqb u k then None else alookup u l.
  Proof.
    induction l as [|[k' v'] l IH]; cbn.
    - destruct (N.eqb u k); reflexivity.
    - destruct (N.eqb_spec k k'); cbn.
      + subst. rewrite IH. destruct (N.eqb_spec u k'); reflexivity.
      + rewrite IH. destruct (N.eqb_spec u k'); [|reflexivity].
        subst. destruct (N.eqb_spec k' k); [congruence|reflexivity].
  Qed.
  Lemma alookup_map_snd (g : A -> A) (u : N) (l : list (N * A)) :
    alookup u (map (fun e => (fst e, g (snd e))) l) = option_map g (alookup u l).
  Proof.
    induction l as [|[k v] l IH]; cbn; [reflexivity|].
    destruct (N.eqb u k); [reflexivity|exact IH].
  Qed.
End AssocLemmas.

(* ------------------------------------------------------------------ *)
(* subscription rows *)
Lemma find_sub_user u l r : find_sub u l = Some r -> s_user r = u.
Proof.
  unfold find_sub. intros H. apply find_some in H. destruct H as [_ H]. now apply N.eqb_eq in H.
Qed.
Lemma find_sub_In u l r : find_sub u l = Some r -> In r l.
Proof. unfold find_sub. intros H. apply find_some in H. tauto. Qed.
Lemma find_sub_none u l : find_sub u l = None -> ~ In u (map s_user l).
Proof.
  unfold find_sub. intros H Hin. apply in_map_iff in Hin. destruct Hin as [r [E Hr]].
  pose proof (find_none _ _ H r Hr) as F. cbn in F. rewrite E, N.eqb_refl in F. discriminate.
Qed.
Lemma In_find_sub l r : NoDup (map s_user l) -> In r l -> find_sub (s_user r) l = Some r.
Proof.
  induction l as [|x l IH]; cbn; intros ND Hin; [contradiction|].
  inversion ND as [|? ? Hx Hl]; subst.
  destruct Hin as [E|Hin].
  - subst. now rewrite N.eqb_refl.
  - destruct (N.eqb_spec (s_user x) (s_user r)) as [E|NE].
    + exfalso. apply Hx. rewrite E. apply in_map. exact Hin.
    + apply IH; assumption.
Qed.

Lemma find_sub_map (g : subrow -> subrow) u l :
  (forall r, s_user (g r) = s_user r) -> find_sub u (map g l) = option_map g (find_sub u l).
Proof.
  intros Hg. induction l as [|x l IH]; cbn; [reflexivity|].
  rewrite Hg. destruct (N.eqb (s_user x) u); [reflexivity|exact IH].
Qed.
Lemma find_sub_upd_sub (g : subrow -> subrow) v u l :
  (forall r, s_user r = u -> s_user (g r) = s_user r) ->
  find_sub v (upd_sub u g l) = if N.eqb v u then option_map g (find_sub v l) else find_sub v l.
Proof.
  intros Hg. unfold upd_sub, find_sub. induction l as [|x l IH]; cbn.
  - destruct (N.eqb v u); reflexivity.
  - destruct (N.eqb_spec (s_user x) u) as [E|NE].
    + rewrite (Hg x E). destruct (N.eqb_spec (s_user x) v) as [E2|NE2].
      * subst. rewrite N.eqb_refl. reflexivity.
      * exact IH.
    + destruct (N.eqb_spec (s_user x) v) as [E2|NE2].
      * subst. destruct (N.eqb_spec (s_user x) u); [contradiction|reflexivity].
      * exact IH.
Qed.
Lemma find_sub_app v l row :
  find_sub v (l ++ [row]) = match find_sub v l with Some r => Some r | None => if N.eqb (s_user row) v then Some row else None end.
Proof.
  induction l as [|x l IH]; cbn; [reflexivity|].
  destruct (N.eqb (s_user x) v); [reflexivity|exact IH].
Qed.
Lemma users_upd_sub (g : subrow -> subrow) u l :
  (forall r, s_user (g r) = s_user r) -> map s_user (upd_sub u g l) = map s_user l.
Proof.
  intros Hg. unfold upd_sub. rewrite map_map. apply map_ext. intros r. destruct (N.eqb (s_user r) u); [apply Hg|reflexivity].
Qed.
Lemma users_map (g : subrow -> subrow) l :
  (forall r, s_user (g r) = s_user r) -> map s_user (map g l) = map s_user l.
Proof. intros Hg. rewrite map_map. apply map_ext. exact Hg. Qed.

Lemma apply_upd_user up r : s_user (apply_upd up r) = s_user r.
Proof. reflexivity. Qed.

(* ------------------------------------------------------------------ *)
(* the store primitives, seen through find_sub *)
Definition del_row (r : subrow) : subrow := mkSub (s_user r) (s_want r) (s_given r) (s_read r) (s_recv r) (s_delid r) true.

Lemma row_subs_update s u up v :
  find_sub v (subs (ad_subs_update s u up)) =
  if (u =? 0)%N || N.eqb v u then option_map (apply_upd up) (find_sub v (subs s)) else find_sub v (subs s).
Proof.
  unfold ad_subs_update. destruct (u =? 0)%N; cbn [subs st_subs orb].
  - apply find_sub_map. intros; reflexivity.
  - apply find_sub_upd_sub. intros; reflexivity.
Qed.
Lemma row_sub_create s u w g v :
  find_sub v (subs (ad_sub_create s u w g)) = if N.eqb v u then Some (mkSub u w g 0 0 0 false) else find_sub v (subs s).
Proof.
  unfold ad_sub_create.
  assert (forall s', subs (if is_owner (N.land w g) then st_owner u s' else s') = subs s') as E by (intros; destruct (is_owner _); reflexivity).
  rewrite E. destruct (find_sub u (subs s)) eqn:F; cbn [subs st_subs].
  - rewrite find_sub_upd_sub by (intros r E1; cbn; congruence). destruct (N.eqb_spec v u); [|reflexivity]. subst. rewrite F. reflexivity.
  - rewrite find_sub_app. cbn [s_user]. destruct (N.eqb_spec v u).
    + subst. rewrite F, N.eqb_refl. reflexivity.
    + destruct (find_sub v (subs s)); [reflexivity|]. destruct (N.eqb_spec u v); [congruence|reflexivity].
Qed.
Lemma row_subs_delete s u s' v :
  ad_subs_delete s u = Some s' ->
  find_sub v (subs s') = if N.eqb v u then option_map del_row (find_sub v (subs s)) else find_sub v (subs s).
Proof.
  unfold ad_subs_delete. destruct (ad_sub_get s u false); [|discriminate]. intros H. inv H.
  cbn [subs st_subs st_dellog]. apply find_sub_upd_sub. reflexivity.
Qed.
Lemma subs_delete_list s d fu rs : subs (ad_msg_delete_list s d fu rs) = subs s.
Proof. unfold ad_msg_delete_list. destruct (fu =? 0)%N; reflexivity. Qed.

Lemma users_subs_update s u up : map s_user (subs (ad_subs_update s u up)) = map s_user (subs s).
Proof.
  unfold ad_subs_update. destruct (u =? 0)%N; cbn [subs st_subs].
  - apply users_map. reflexivity.
  - apply users_upd_sub. reflexivity.
Qed.
Lemma users_subs_delete s u s' : ad_subs_delete s u = Some s' -> map s_user (subs s') = map s_user (subs s).
Proof.
  unfold ad_subs_delete. destruct (ad_sub_get s u false); [|discriminate]. intros H. inv H.
  cbn [subs st_subs st_dellog]. apply users_upd_sub. reflexivity.
Qed.
Lemma users_sub_create s u w g :
  map s_user (subs (ad_sub_create s u w g)) =
  match find_sub u (subs s) with Some _ => map s_user (subs s) | None => map s_user (subs s) ++ [u] end.
Proof.
  unfold ad_sub_create.
  assert (forall s', subs (if is_owner (N.land w g) then st_owner u s' else s') = subs s') as E by (intros; destruct (is_owner _); reflexivity).
  rewrite E. destruct (find_sub u (subs s)) eqn:F; cbn [subs st_subs].
  - unfold upd_sub. rewrite map_map. apply map_ext_in. intros r Hr.
    destruct (N.eqb_spec (s_user r) u); [cbn; congruence|reflexivity].
  - rewrite map_app. reflexivity.
Qed.

(* scalar columns *)
Lemma scal_subs_update s u up :
  t_seqid (ad_subs_update s u up) = t_seqid s /\ t_delid (ad_subs_update s u up) = t_delid s /\
  t_auth (ad_subs_update s u up) = t_auth s /\ t_anon (ad_subs_update s u up) = t_anon s /\
  users (ad_subs_update s u up) = users s.
Proof. unfold ad_subs_update. destruct (u =? 0)%N; repeat split. Qed.

(* ------------------------------------------------------------------ *)
(* the load path *)
Definition row_pud (r : subrow) : pud := mkPud (s_want r) (s_given r) (s_read r) (s_recv r) (s_delid r) 0.

Lemma load_users_acc rows acc v :
  ~ In v (map s_user rows) ->
  alookup v (fold_left (fun a r => if s_deleted r then a else aset (s_user r) (row_pud r) a) rows acc) = alookup v acc.
Proof.
  revert acc. induction rows as [|x rows IH]; intros acc H; cbn; [reflexivity|].
  cbn in H. rewrite IH by tauto.
  destruct (s_deleted x); [reflexivity|]. rewrite alookup_aset.
  destruct (N.eqb_spec v (s_user x)); [|reflexivity]. subst. tauto.
Qed.

Lemma load_users_lookup_acc rows acc v :
  NoDup (map s_user rows) ->
  alookup v (fold_left (fun a r => if s_deleted r then a else aset (s_user r) (row_pud r) a) rows acc) =
  match find_sub v rows with
  | Some r => if s_deleted r then alookup v acc else Some (row_pud r)
  | None => alookup v acc
  end.
Proof.
  revert acc. induction rows as [|x rows IH]; intros acc ND; cbn; [reflexivity|].
  inversion ND as [|? ? Hx Hl]; subst.
  destruct (N.eqb_spec (s_user x) v) as [E|NE].
  - subst. rewrite load_users_acc by exact Hx.
    destruct (s_deleted x); [reflexivity|]. rewrite alookup_aset, N.eqb_refl. reflexivity.
  - rewrite IH by exact Hl.
    assert (alookup v (if s_deleted x then acc else aset (s_user x) (row_pud x) acc) = alookup v acc) as E.
    { destruct (s_deleted x); [reflexivity|]. rewrite alookup_aset. destruct (N.eqb_spec v (s_user x)); [congruence|reflexivity]. }
    rewrite E. reflexivity.
Qed.

Lemma load_users_lookup rows v :
  NoDup (map s_user rows) ->
  alookup v (load_users rows) =
  match find_sub v rows with
  | Some r => if s_deleted r then None else Some (row_pud r)
  | None => None
  end.
Proof.
  intros ND. unfold load_users.
  change (fun acc r => if s_deleted r then acc else aset (s_user r) (mkPud (s_want r) (s_given r) (s_read r) (s_recv r) (s_delid r) 0) acc)
    with (fun a r => if s_deleted r then a else aset (s_user r) (row_pud r) a).
  rewrite load_users_lookup_acc by exact ND. reflexivity.
Qed.

Lemma load_users_core s v :
  NoDup (map s_user (subs s)) -> option_map core (alookup v (load_users (subs s))) = row_core s v.
Proof.
  intros ND. rewrite load_users_lookup by exact ND. unfold row_core.
  destruct (find_sub v (subs s)) as [r|]; [|reflexivity]. destruct (s_deleted r); reflexivity.
Qed.

Lemma is_owner_land a b : is_owner (N.land a b) = is_owner a && is_owner b.
Proof.
  unfold is_owner, has, mO.
  rewrite <- N.land_assoc, (N.land_comm b 128), N.land_assoc.
  assert (forall x, N.land x 128 = 0%N \/ N.land x 128 = 128%N) as B.
  { intros x. destruct (N.testbit x 7) eqn:T.
    - right. apply N.bits_inj. intros n. rewrite N.land_spec.
      destruct (N.eq_dec n 7) as [->|NE]; [rewrite T; reflexivity|].
      replace (N.testbit 128 n) with false; [apply andb_false_r|].
      symmetry. change 128%N with (2 ^ 7)%N. apply N.pow2_bits_false. congruence.
    - left. apply N.bits_inj. intros n. rewrite N.land_spec, N.bits_0.
      destruct (N.eq_dec n 7) as [->|NE]; [rewrite T; reflexivity|].
      replace (N.testbit 128 n) with false; [apply andb_false_r|].
      symmetry. change 128%N with (2 ^ 7)%N. apply N.pow2_bits_false. congruence. }
  destruct (B a) as [Ea|Ea]; rewrite Ea.
  - rewrite N.land_0_l. reflexivity.
  - destruct (B b) as [Eb|Eb].
    + rewrite (N.land_comm 128 b), Eb. reflexivity.
    + rewrite (N.land_comm 128 b), Eb. reflexivity.
Qed.

Definition eff_owner (r : subrow) : bool := negb (s_deleted r) && is_owner (N.land (s_given r) (s_want r)).

Lemma load_owner_fold l acc o :
  (forall r, In r l -> eff_owner r = true -> s_user r = o) ->
  fold_left (fun o1 r => if negb (s_deleted r) && is_owner (N.land (s_given r) (s_want r)) then s_user r else o1) l acc =
  if existsb eff_owner l then o else acc.
Proof.
  revert acc. induction l as [|x l IH]; intros acc A; cbn; [reflexivity|].
  fold (eff_owner x). destruct (eff_owner x) eqn:E; cbn.
  - rewrite IH by (intros r Hr; apply A; now right).
    assert (s_user x = o) as -> by (apply A; [now left|exact E]). destruct (existsb eff_owner l); reflexivity.
  - apply IH. intros r Hr. apply A. now right.
Qed.

Lemma load_owner_wf s o :
  NoDup (map s_user (subs s)) -> owner_row s o -> load_owner (subs s) = o.
Proof.
  intros ND [NZ [[r0 [F0 O0]] U]]. unfold load_owner.
  rewrite (load_owner_fold _ _ o).
  - assert (existsb eff_owner (subs s) = true) as E.
    { apply existsb_exists. exists r0. split; [eapply find_sub_In; exact F0|].
      destruct (U _ _ F0 O0) as [D0 [G0 _]]. unfold eff_owner. rewrite D0, is_owner_land, G0, O0. reflexivity. }
    rewrite E. reflexivity.
  - intros r Hr E. unfold eff_owner in E. apply andb_true_iff in E. destruct E as [_ E].
    rewrite is_owner_land in E. apply andb_true_iff in E. destruct E as [_ E].
    pose proof (In_find_sub _ _ ND Hr) as F. destruct (U _ _ F E) as [_ [_ X]]. exact X.
Qed.
