(* Proofs about Sys/TopicDesc.v: the coherence invariant cache = load(store) on the
   description fields, reload invisibility, ack => stored, reject => no change.
   Depends on Sys/Topic.v only for the shared definitions (alookup/aset, fault, call). *)
From Coq Require Import ZArith NArith List Bool Lia.
From Coq Require Import ZifyBool ZifyNat ZifyN.
From Tinode Require Import Base.Util Pure.Acs Sys.Topic Sys.TopicDesc.
Import ListNotations.
Open Scope Z_scope.

(* ------------------------------------------------------------------ *)
(* association lists                                                    *)
Section AssocLemmas.
Context {A : Type}.
Implicit Types (l : list (N * A)).

Lemma dl_alookup_aset k k' (v : A) l :
  alookup k (aset k' v l) = if N.eqb k k' then Some v else alookup k l.
Proof.
  induction l as [|[a b] r IH]; cbn [aset alookup].
  - destruct (N.eqb k k'); reflexivity.
  - destruct (N.eqb k' a) eqn:E1; cbn [alookup].
    + apply N.eqb_eq in E1. subst a. destruct (N.eqb k k'); reflexivity.
    + rewrite IH. destruct (N.eqb k a) eqn:E2; [|reflexivity].
      apply N.eqb_eq in E2. subst a. rewrite N.eqb_sym, E1. reflexivity.
Qed.

Lemma dl_alookup_aremove k k' l :
  alookup k (aremove k' l) = if N.eqb k k' then None else alookup k l.
Proof.
  induction l as [|[a b] r IH]; cbn [aremove alookup].
  - destruct (N.eqb k k'); reflexivity.
  - destruct (N.eqb k' a) eqn:E1.
    + apply N.eqb_eq in E1. subst a. rewrite IH. destruct (N.eqb k k'); reflexivity.
    + cbn [alookup]. rewrite IH. destruct (N.eqb k a) eqn:E2; [|reflexivity].
      apply N.eqb_eq in E2. subst a. rewrite N.eqb_sym, E1. reflexivity.
Qed.

Lemma dl_alookup_in k l : alookup k l <> None -> In k (map fst l).
Proof.
  induction l as [|[a b] r IH]; cbn [alookup map fst]; [congruence|].
  destruct (N.eqb k a) eqn:E; intros H.
  - apply N.eqb_eq in E. left. symmetry. exact E.
  - right. apply IH, H.
Qed.

Lemma dl_alookup_notin k l : ~ In k (map fst l) -> alookup k l = None.
Proof.
  intros H. destruct (alookup k l) eqn:E; [|reflexivity].
  exfalso. apply H, dl_alookup_in. congruence.
Qed.

Lemma dl_length_aset k (v : A) l :
  length (aset k v l) = match alookup k l with Some _ => length l | None => S (length l) end.
Proof.
  induction l as [|[a b] r IH]; cbn [aset alookup length]; [reflexivity|].
  rewrite (N.eqb_sym k a).
  destruct (N.eqb a k) eqn:E; cbn [length]; [reflexivity|].
  rewrite IH. destruct (alookup k r); reflexivity.
Qed.

Lemma dl_keys_aset k (v : A) l x : In x (map fst (aset k v l)) <-> x = k \/ In x (map fst l).
Proof.
  induction l as [|[a b] r IH]; cbn [aset map fst In].
  - intuition.
  - destruct (N.eqb k a) eqn:E; cbn [map fst In].
    + apply N.eqb_eq in E. subst a. intuition.
    + rewrite IH. intuition.
Qed.

Lemma dl_nodup_aset k (v : A) l : NoDup (map fst l) -> NoDup (map fst (aset k v l)).
Proof.
  induction l as [|[a b] r IH]; cbn [aset map fst]; intros H.
  - constructor; [intros []|constructor].
  - destruct (N.eqb k a) eqn:E; cbn [map fst].
    + apply N.eqb_eq in E. subst a. exact H.
    + inversion H as [|? ? Hn Hr]; subst. constructor; [|apply IH, Hr].
      rewrite dl_keys_aset. intros [->|Hin]; [rewrite N.eqb_refl in E; discriminate|contradiction].
Qed.

Lemma dl_keys_aremove k l x : In x (map fst (aremove k l)) <-> x <> k /\ In x (map fst l).
Proof.
  induction l as [|[a b] r IH]; cbn [aremove map fst In].
  - intuition.
  - destruct (N.eqb k a) eqn:E.
    + apply N.eqb_eq in E. subst a. rewrite IH. intuition (subst; try contradiction; auto).
    + cbn [map fst In]. rewrite IH. apply N.eqb_neq in E. intuition (subst; try contradiction; auto).
Qed.

Lemma dl_nodup_aremove k l : NoDup (map fst l) -> NoDup (map fst (aremove k l)).
Proof.
  induction l as [|[a b] r IH]; cbn [aremove map fst]; intros H; [constructor|].
  inversion H as [|? ? Hn Hr]; subst.
  destruct (N.eqb k a); [apply IH, Hr|].
  cbn [map fst]. constructor; [|apply IH, Hr].
  rewrite dl_keys_aremove. intros [_ Hin]. contradiction.
Qed.

Lemma dl_aremove_notin k l : ~ In k (map fst l) -> aremove k l = l.
Proof.
  induction l as [|[a b] r IH]; cbn [aremove map fst In]; intros H; [reflexivity|].
  destruct (N.eqb k a) eqn:E.
  - apply N.eqb_eq in E. subst a. exfalso. apply H. left. reflexivity.
  - f_equal. apply IH. intros Hin. apply H. right. exact Hin.
Qed.

Lemma dl_length_aremove k l :
  NoDup (map fst l) ->
  length (aremove k l) = match alookup k l with Some _ => pred (length l) | None => length l end.
Proof.
  induction l as [|[a b] r IH]; cbn [aremove alookup length map fst]; intros H; [reflexivity|].
  inversion H as [|? ? Hn Hr]; subst.
  destruct (N.eqb k a) eqn:E.
  - apply N.eqb_eq in E. subst a. rewrite dl_aremove_notin by exact Hn. reflexivity.
  - cbn [length]. rewrite IH by exact Hr.
    destruct (alookup k r) eqn:E2; [|reflexivity].
    destruct r; [discriminate|reflexivity].
Qed.
End AssocLemmas.

(* ------------------------------------------------------------------ *)
(* rows                                                                 *)
Lemma dfind_some u l r : dfind u l = Some r -> In r l /\ r_user r = u.
Proof.
  unfold dfind. intros H. apply find_some in H. destruct H as [H1 H2].
  apply N.eqb_eq in H2. auto.
Qed.

Lemma dfind_none u l : dfind u l = None -> ~ In u (map r_user l).
Proof.
  unfold dfind. intros H Hin. apply in_map_iff in Hin. destruct Hin as [r [Hr Hin]].
  pose proof (find_none _ _ H r Hin) as Hn. cbn in Hn. rewrite Hr, N.eqb_refl in Hn. discriminate.
Qed.

Lemma dfind_notin u l : ~ In u (map r_user l) -> dfind u l = None.
Proof.
  intros H. destruct (dfind u l) eqn:E; [|reflexivity].
  apply dfind_some in E. destruct E as [E1 E2]. exfalso. apply H. rewrite <- E2. apply in_map, E1.
Qed.

Lemma dupd_users u f l : (forall r, r_user (f r) = r_user r) -> map r_user (dupd u f l) = map r_user l.
Proof.
  intros Hf. unfold dupd. rewrite map_map. apply map_ext. intros r.
  destruct (N.eqb (r_user r) u); [apply Hf|reflexivity].
Qed.

Lemma dupd_notin u f l : ~ In u (map r_user l) -> dupd u f l = l.
Proof.
  induction l as [|r l IH]; cbn [dupd map In]; intros H; [reflexivity|].
  destruct (N.eqb (r_user r) u) eqn:E.
  - apply N.eqb_eq in E. exfalso. apply H. left. exact E.
  - f_equal. apply IH. intros Hin. apply H. right. exact Hin.
Qed.

Lemma dfind_dupd u v f l : (forall r, r_user (f r) = r_user r) ->
  dfind v (dupd u f l) = if N.eqb v u then option_map f (dfind v l) else dfind v l.
Proof.
  intros Hf. induction l as [|r l IH]; cbn [dupd map dfind find option_map].
  - destruct (N.eqb v u); reflexivity.
  - unfold dfind in *. cbn [find map].
    destruct (N.eqb (r_user r) u) eqn:E1.
    + rewrite Hf. destruct (N.eqb (r_user r) v) eqn:E2.
      * apply N.eqb_eq in E1, E2. subst. rewrite N.eqb_refl. reflexivity.
      * exact IH.
    + destruct (N.eqb (r_user r) v) eqn:E2; [|exact IH].
      apply N.eqb_eq in E2. subst v. rewrite E1. reflexivity.
Qed.

(* the cache entries built by the load path *)
Lemma load_users_lookup u rows : NoDup (map r_user rows) ->
  alookup u (dload_users rows) =
  match dfind u rows with Some r => if r_deleted r then None else Some (pud_of_row r) | None => None end.
Proof.
  induction rows as [|r l IH]; cbn [dload_users flat_map map]; intros H; [reflexivity|].
  inversion H as [|? ? Hn Hr]; subst. fold (dload_users l).
  unfold dfind. cbn [find]. fold (dfind u l).
  destruct (N.eqb (r_user r) u) eqn:E.
  - apply N.eqb_eq in E. subst u.
    destruct (r_deleted r); cbn [app alookup].
    + rewrite IH by exact Hr. rewrite dfind_notin by exact Hn. reflexivity.
    + rewrite N.eqb_refl. reflexivity.
  - destruct (r_deleted r); cbn [app alookup]; [apply IH, Hr|].
    rewrite N.eqb_sym, E. apply IH, Hr.
Qed.

Lemma load_users_keys rows x : In x (map fst (dload_users rows)) -> In x (map r_user rows).
Proof.
  induction rows as [|r l IH]; cbn [dload_users flat_map map]; [auto|]. fold (dload_users l).
  rewrite map_app, in_app_iff. intros [H|H].
  - destruct (r_deleted r); cbn in H; [contradiction|]. destruct H as [H|[]]. left. exact H.
  - right. apply IH, H.
Qed.

Lemma load_users_nodup rows : NoDup (map r_user rows) -> NoDup (map fst (dload_users rows)).
Proof.
  induction rows as [|r l IH]; cbn [dload_users flat_map map]; intros H; [constructor|]. fold (dload_users l).
  inversion H as [|? ? Hn Hr]; subst.
  destruct (r_deleted r); cbn [app map fst]; [apply IH, Hr|].
  constructor; [|apply IH, Hr]. intros Hin. apply Hn, load_users_keys, Hin.
Qed.

(* length of the loaded user list under a row update / an appended row *)
Definition live_count (rows : list drow) : nat := length (filter (fun r => negb (r_deleted r)) rows).

Lemma load_users_length rows : length (dload_users rows) = live_count rows.
Proof.
  unfold live_count. induction rows as [|r l IH]; cbn [dload_users flat_map filter]; [reflexivity|].
  fold (dload_users l). rewrite app_length, IH.
  destruct (r_deleted r); reflexivity.
Qed.

Lemma live_count_app a b : live_count (a ++ b) = (live_count a + live_count b)%nat.
Proof. unfold live_count. rewrite filter_app, app_length. reflexivity. Qed.

Lemma live_count_dupd_same u f l :
  (forall r, r_deleted (f r) = r_deleted r) -> live_count (dupd u f l) = live_count l.
Proof.
  intros Hf. unfold live_count. induction l as [|r l IH]; cbn [dupd map filter]; [reflexivity|].
  fold (dupd u f l).
  destruct (N.eqb (r_user r) u); [rewrite Hf|]; destruct (r_deleted r); cbn [negb length]; rewrite IH; reflexivity.
Qed.

Lemma live_count_dupd_flip u f l r0 :
  NoDup (map r_user l) -> dfind u l = Some r0 ->
  (forall r, r_user (f r) = r_user r) ->
  live_count (dupd u f l) =
  (live_count l + (if r_deleted (f r0) then 0 else 1) - (if r_deleted r0 then 0 else 1))%nat.
Proof.
  intros Hnd Hfind Hf. unfold live_count.
  induction l as [|r l IH]; [discriminate|].
  inversion Hnd as [|? ? Hn Hr]; subst.
  cbn [dupd map filter]. fold (dupd u f l).
  unfold dfind in Hfind. cbn [find] in Hfind.
  destruct (N.eqb (r_user r) u) eqn:E.
  - inversion Hfind; subst r0. apply N.eqb_eq in E.
    rewrite dupd_notin by (rewrite <- E; exact Hn).
    destruct (r_deleted (f r)), (r_deleted r); cbn [negb length]; lia.
  - fold (dfind u l) in Hfind. specialize (IH Hr Hfind).
    destruct (r_deleted r); cbn [negb length]; [exact IH|].
    rewrite IH.
    assert (Hpos : ((if r_deleted r0 then 0 else 1) <= length (filter (fun r1 => negb (r_deleted r1)) l))%nat).
    { destruct (r_deleted r0) eqn:Ed; [lia|].
      apply dfind_some in Hfind. destruct Hfind as [Hin _].
      assert (Hin2 : In r0 (filter (fun r1 => negb (r_deleted r1)) l)) by (apply filter_In; rewrite Ed; auto).
      destruct (filter (fun r1 => negb (r_deleted r1)) l); [destruct Hin2|cbn; lia]. }
    lia.
Qed.

(* ------------------------------------------------------------------ *)
(* the owner computed by loadSubscribers: the last live row with O      *)
Lemma last_cons_ne {A} (a : A) l d : l <> [] -> last (a :: l) d = last l d.
Proof. destruct l; [congruence|reflexivity]. Qed.

Lemma last_in_all (u d : N) l : l <> [] -> (forall x, In x l -> x = u) -> last l d = u.
Proof.
  induction l as [|a l IH]; [congruence|]. intros _ H. destruct l as [|b l'].
  - apply H. left. reflexivity.
  - rewrite last_cons_ne by discriminate. apply IH; [discriminate|]. intros x Hx. apply H. right. exact Hx.
Qed.

Lemma last_filter_ne (u d : N) (l : list N) :
  last l d <> u -> last (filter (fun x => negb (N.eqb x u)) l) d = last l d.
Proof.
  induction l as [|a l IH]; [reflexivity|].
  intros H. destruct l as [|b l'].
  - cbn [last filter] in *. destruct (N.eqb a u) eqn:E; [apply N.eqb_eq in E; contradiction|reflexivity].
  - remember (b :: l') as l0 eqn:El0.
    assert (Hl : l0 <> []) by (subst l0; discriminate).
    rewrite last_cons_ne in H by exact Hl. rewrite (last_cons_ne a l0) by exact Hl.
    cbn [filter]. destruct (negb (N.eqb a u)); [|apply IH, H].
    destruct (filter (fun x => negb (N.eqb x u)) l0) as [|c fl] eqn:Ef.
    + exfalso. apply H, last_in_all; [exact Hl|]. intros x Hx.
      destruct (N.eqb x u) eqn:Ex; [apply N.eqb_eq, Ex|].
      assert (Hf : In x (filter (fun x => negb (N.eqb x u)) l0)) by (apply filter_In; rewrite Ex; auto).
      rewrite Ef in Hf. destruct Hf.
    + rewrite last_cons_ne by discriminate. apply IH, H.
Qed.

Lemma downers_dupd_keep u f l :
  (forall r, r_user (f r) = r_user r) ->
  (forall r, In r l -> r_user r = u -> live_owner (f r) = live_owner r) ->
  downers (dupd u f l) = downers l.
Proof.
  intros Hu Hl. unfold downers. induction l as [|r l IH]; [reflexivity|].
  cbn [dupd map filter]. fold (dupd u f l).
  assert (IH' : map r_user (filter live_owner (dupd u f l)) = map r_user (filter live_owner l)).
  { apply IH. intros r' Hin. apply Hl. right. exact Hin. }
  destruct (N.eqb (r_user r) u) eqn:E.
  - rewrite Hl by (try (left; reflexivity); apply N.eqb_eq, E).
    destruct (live_owner r); cbn [map]; [rewrite Hu|]; rewrite IH'; reflexivity.
  - destruct (live_owner r); cbn [map]; rewrite IH'; reflexivity.
Qed.

Lemma downers_in u l : In u (downers l) -> In u (map r_user l).
Proof.
  unfold downers. intros H. apply in_map_iff in H. destruct H as [r [Hr Hin]].
  apply filter_In in Hin. rewrite <- Hr. apply in_map, Hin.
Qed.

Lemma filter_all_id {A} (p : A -> bool) l : (forall x, In x l -> p x = true) -> filter p l = l.
Proof.
  induction l as [|a l IH]; intros H; [reflexivity|]. cbn [filter].
  rewrite (H a) by (left; reflexivity). f_equal. apply IH. intros x Hx. apply H. right. exact Hx.
Qed.

Lemma downers_dupd_drop u f l :
  NoDup (map r_user l) ->
  (forall r, r_user (f r) = r_user r) ->
  (forall r, In r l -> r_user r = u -> live_owner (f r) = false) ->
  downers (dupd u f l) = filter (fun x => negb (N.eqb x u)) (downers l).
Proof.
  intros Hnd Hu Hl. unfold downers. induction l as [|r l IH]; [reflexivity|].
  inversion Hnd as [|? ? Hn Hr]; subst.
  cbn [dupd map filter]. fold (dupd u f l).
  destruct (N.eqb (r_user r) u) eqn:E.
  - rewrite Hl by (try (left; reflexivity); apply N.eqb_eq, E). apply N.eqb_eq in E.
    rewrite dupd_notin by (rewrite <- E; exact Hn).
    assert (Hid : filter (fun x => negb (N.eqb x u)) (map r_user (filter live_owner l)) = map r_user (filter live_owner l)).
    { apply filter_all_id. intros x Hx.
      destruct (N.eqb x u) eqn:Ex; [|reflexivity]. apply N.eqb_eq in Ex. subst x.
      exfalso. apply Hn. rewrite E. apply (downers_in u l Hx). }
    destruct (live_owner r); cbn [map filter].
    + rewrite E, N.eqb_refl. cbn [negb]. symmetry. exact Hid.
    + symmetry. exact Hid.
  - assert (IH' : map r_user (filter live_owner (dupd u f l)) =
                  filter (fun x => negb (N.eqb x u)) (map r_user (filter live_owner l))).
    { apply IH; [exact Hr|]. intros r' Hin. apply Hl. right. exact Hin. }
    destruct (live_owner r); cbn [map filter]; [rewrite E; cbn [negb]|]; rewrite IH'; reflexivity.
Qed.

Lemma nodup_row_unique u l r0 r :
  NoDup (map r_user l) -> dfind u l = Some r0 -> In r l -> r_user r = u -> r = r0.
Proof.
  induction l as [|a l IH]; intros Hnd Hf Hin Hu; [destruct Hin|].
  inversion Hnd as [|? ? Hn Hr]; subst.
  unfold dfind in Hf. cbn [find] in Hf.
  destruct (N.eqb (r_user a) (r_user r)) eqn:E.
  - inversion Hf; subst r0. destruct Hin as [->|Hin]; [reflexivity|].
    exfalso. apply Hn. apply N.eqb_eq in E. rewrite E. apply in_map, Hin.
  - destruct Hin as [->|Hin]; [rewrite N.eqb_refl in E; discriminate|].
    apply IH; auto.
Qed.

Lemma last_in {A} (l : list A) d : l <> [] -> In (last l d) l.
Proof.
  induction l as [|a l IH]; [congruence|]. intros _. destruct l as [|b l'].
  - left. reflexivity.
  - rewrite last_cons_ne by discriminate. right. apply IH. discriminate.
Qed.

(* a non-zero computed owner has a live row with O *)
Lemma load_owner_row u rows : u <> 0%N -> dload_owner rows = u ->
  exists r, In r rows /\ r_user r = u /\ live_owner r = true.
Proof.
  unfold dload_owner. intros Hu H.
  destruct (downers rows) as [|a l] eqn:E; [cbn in H; congruence|].
  assert (Hin : In u (downers rows)) by (rewrite E, <- H; apply last_in; discriminate).
  unfold downers in Hin. apply in_map_iff in Hin. destruct Hin as [r [Hr Hin]].
  apply filter_In in Hin. exists r. tauto.
Qed.

Lemma downers_app_nonowner l r : live_owner r = false -> downers (l ++ [r]) = downers l.
Proof.
  intros H. unfold downers. rewrite filter_app. cbn [filter]. rewrite H, app_nil_r. reflexivity.
Qed.

(* ------------------------------------------------------------------ *)
(* sorted tag lists                                                     *)
Fixpoint ssorted (l : list N) : Prop :=
  match l with [] => True | a :: r => Forall (N.le a) r /\ ssorted r end.

Lemma forall_ninsert (P : N -> Prop) x l : P x -> Forall P l -> Forall P (ninsert x l).
Proof.
  intros Hx H. induction H as [|y r Hy Hr IH]; cbn [ninsert]; [repeat constructor; exact Hx|].
  destruct (N.leb x y); repeat (constructor; auto).
Qed.

Lemma ninsert_ssorted x l : ssorted l -> ssorted (ninsert x l).
Proof.
  induction l as [|y r IH]; cbn [ninsert ssorted]; [auto|].
  intros [Hy Hr]. destruct (N.leb x y) eqn:E; cbn [ssorted].
  - apply N.leb_le in E. repeat split; auto. constructor; [exact E|].
    eapply Forall_impl; [|exact Hy]. intros z Hz. lia.
  - apply N.leb_gt in E. split; [|apply IH, Hr]. apply forall_ninsert; [lia|exact Hy].
Qed.

Lemma nsort_ssorted l : ssorted (nsort l).
Proof. induction l as [|a l IH]; cbn [nsort fold_right ssorted]; [exact I|]. apply ninsert_ssorted, IH. Qed.

Lemma ssorted_nsort_id l : ssorted l -> nsort l = l.
Proof.
  induction l as [|a r IH]; [reflexivity|]. cbn [ssorted]. intros [Ha Hr].
  change (nsort (a :: r)) with (ninsert a (nsort r)). rewrite IH by exact Hr.
  destruct r as [|b r']; [reflexivity|]. cbn [ninsert].
  inversion Ha as [|? ? Hab _]; subst. apply N.leb_le in Hab. rewrite Hab. reflexivity.
Qed.

Lemma ssorted_remove a c b : ssorted (a ++ c :: b) -> ssorted (a ++ b).
Proof.
  induction a as [|x a IH]; cbn [app ssorted].
  - intros [_ H]. exact H.
  - intros [Hf Hs]. split; [|apply IH, Hs].
    apply Forall_app in Hf. destruct Hf as [H1 H2]. inversion H2; subst. apply Forall_app. auto.
Qed.

Lemma norm_loop_ssorted l : forall prev dst, ssorted (dst ++ l) -> ssorted (fst (norm_loop l prev dst)).
Proof.
  induction l as [|c r IH]; intros prev dst H; cbn [norm_loop].
  - rewrite app_nil_r in H. exact H.
  - destruct (c =? 0)%N; [exact I|].
    destruct (negb (tag_valid c) || (c =? prev)%N).
    + apply IH. eapply ssorted_remove, H.
    + apply IH. rewrite <- app_assoc. exact H.
Qed.

Lemma normalize_tags_ssorted src t : normalize_tags src = Some t -> ssorted t.
Proof.
  unfold normalize_tags.
  pose proof (norm_loop_ssorted (nsort (map tag_norm (firstn d_max_tags src))) 0%N [] (nsort_ssorted _)) as H.
  destruct (norm_loop _ 0%N []) as [d b]. cbn [fst] in H.
  destruct b; destruct d; intros E; inversion E; subst; try exact I; exact H.
Qed.

(* ------------------------------------------------------------------ *)
(* the invariant                                                        *)
Definition load_desc : dstore -> dcache := dload.

Definition wf_store (s : dstore) : Prop :=
  NoDup (map r_user (d_subs s)) /\ is_owner (d_auth s) = false /\ ssorted (d_tags s).

Definition users_agree (cu : list (N * dpud)) (rows : list drow) : Prop :=
  (forall u, alookup u cu = alookup u (dload_users rows)) /\
  length cu = length (dload_users rows) /\ NoDup (map fst cu).

(* the cached fields equal what the load path builds from the stored rows *)
Definition coherent_cache (s : dstore) (c : dcache) : Prop :=
  k_auth c = k_auth (load_desc s) /\ k_anon c = k_anon (load_desc s) /\ k_pub c = k_pub (load_desc s) /\
  k_tru c = k_tru (load_desc s) /\ k_tags c = k_tags (load_desc s) /\ k_owner c = k_owner (load_desc s) /\
  users_agree (k_users c) (d_subs s).

Definition coherent_desc (x : dstate) : Prop :=
  wf_store (dst x) /\ match dca x with None => True | Some c => coherent_cache (dst x) c end.

Lemma users_agree_load rows : NoDup (map r_user rows) -> users_agree (dload_users rows) rows.
Proof. intros H. repeat split. apply load_users_nodup, H. Qed.

Lemma coherent_load s : wf_store s -> coherent_cache s (dload s).
Proof. intros [H _]. unfold coherent_cache, load_desc. repeat split. apply load_users_nodup, H. Qed.

Lemma coherent_cache_sess s c g : coherent_cache s c -> coherent_cache s (kc_sess g c).
Proof. exact (fun H => H). Qed.

(* cached entry = stored live row *)
Lemma ua_lookup cu rows u : NoDup (map r_user rows) -> users_agree cu rows ->
  alookup u cu = match dfind u rows with Some r => if r_deleted r then None else Some (pud_of_row r) | None => None end.
Proof. intros Hn [H _]. rewrite H. apply load_users_lookup, Hn. Qed.

(* generic updates of both sides *)
Lemma ua_set cu rows rows' u p :
  users_agree cu rows ->
  (forall v, alookup v (dload_users rows') = if N.eqb v u then Some p else alookup v (dload_users rows)) ->
  length (dload_users rows') = match alookup u (dload_users rows) with Some _ => length (dload_users rows) | None => S (length (dload_users rows)) end ->
  users_agree (aset u p cu) rows'.
Proof.
  intros [H1 [H2 H3]] Hl Hn. repeat split.
  - intros v. rewrite dl_alookup_aset, Hl, H1. reflexivity.
  - rewrite dl_length_aset, Hn, H1, H2. reflexivity.
  - apply dl_nodup_aset, H3.
Qed.

Lemma ua_remove cu rows rows' u :
  users_agree cu rows ->
  (forall v, alookup v (dload_users rows') = if N.eqb v u then None else alookup v (dload_users rows)) ->
  length (dload_users rows') = match alookup u (dload_users rows) with Some _ => pred (length (dload_users rows)) | None => length (dload_users rows) end ->
  users_agree (aremove u cu) rows'.
Proof.
  intros [H1 [H2 H3]] Hl Hn. repeat split.
  - intros v. rewrite dl_alookup_aremove, Hl, H1. reflexivity.
  - rewrite dl_length_aremove by exact H3. rewrite Hn, H1, H2. reflexivity.
  - apply dl_nodup_aremove, H3.
Qed.

Lemma ua_same cu rows rows' :
  users_agree cu rows ->
  (forall v, alookup v (dload_users rows') = alookup v (dload_users rows)) ->
  length (dload_users rows') = length (dload_users rows) ->
  users_agree cu rows'.
Proof. intros [H1 [H2 H3]] Hl Hn. repeat split; [intros v; rewrite Hl; apply H1|congruence|exact H3]. Qed.

(* lookups / length of the loaded list after a row update *)
Lemma load_lookup_dupd u f rows r0 v :
  NoDup (map r_user rows) -> dfind u rows = Some r0 -> (forall r, r_user (f r) = r_user r) ->
  alookup v (dload_users (dupd u f rows)) =
  if N.eqb v u then (if r_deleted (f r0) then None else Some (pud_of_row (f r0))) else alookup v (dload_users rows).
Proof.
  intros Hn Hf Hu.
  rewrite load_users_lookup by (rewrite dupd_users by exact Hu; exact Hn).
  rewrite dfind_dupd by exact Hu.
  destruct (N.eqb v u) eqn:E.
  - apply N.eqb_eq in E. subst v. rewrite Hf. reflexivity.
  - symmetry. apply load_users_lookup, Hn.
Qed.

Lemma load_length_dupd u f rows r0 :
  NoDup (map r_user rows) -> dfind u rows = Some r0 -> (forall r, r_user (f r) = r_user r) ->
  length (dload_users (dupd u f rows)) =
  (length (dload_users rows) + (if r_deleted (f r0) then 0 else 1) - (if r_deleted r0 then 0 else 1))%nat.
Proof. intros Hn Hf Hu. rewrite !load_users_length. apply live_count_dupd_flip; assumption. Qed.

Lemma alookup_app {A} k (a b : list (N * A)) :
  alookup k (a ++ b) = match alookup k a with Some x => Some x | None => alookup k b end.
Proof.
  induction a as [|[x y] a IH]; [reflexivity|]. cbn [app alookup]. destruct (N.eqb k x); [reflexivity|apply IH].
Qed.

Lemma load_users_app a b : dload_users (a ++ b) = dload_users a ++ dload_users b.
Proof. unfold dload_users. apply flat_map_app. Qed.

Lemma load_lookup_append rows r v :
  ~ In (r_user r) (map r_user rows) -> r_deleted r = false ->
  alookup v (dload_users (rows ++ [r])) = if N.eqb v (r_user r) then Some (pud_of_row r) else alookup v (dload_users rows).
Proof.
  intros Hn Hd. rewrite load_users_app, alookup_app.
  cbn [dload_users flat_map app]. rewrite Hd. cbn [app alookup].
  destruct (N.eqb v (r_user r)) eqn:E.
  - apply N.eqb_eq in E. subst v.
    rewrite dl_alookup_notin; [reflexivity|]. intros H. apply Hn, load_users_keys, H.
  - destruct (alookup v (dload_users rows)); reflexivity.
Qed.

Lemma owner_dupd_keep u f rows r0 :
  NoDup (map r_user rows) -> dfind u rows = Some r0 -> (forall r, r_user (f r) = r_user r) ->
  live_owner (f r0) = live_owner r0 -> dload_owner (dupd u f rows) = dload_owner rows.
Proof.
  intros Hn Hf Hu Hl. unfold dload_owner. rewrite downers_dupd_keep; [reflexivity|exact Hu|].
  intros r Hin Hr. rewrite (nodup_row_unique u rows r0 r Hn Hf Hin Hr). exact Hl.
Qed.

Lemma owner_dupd_drop u f rows r0 :
  NoDup (map r_user rows) -> dfind u rows = Some r0 -> (forall r, r_user (f r) = r_user r) ->
  live_owner (f r0) = false -> dload_owner rows <> u -> dload_owner (dupd u f rows) = dload_owner rows.
Proof.
  intros Hn Hf Hu Hl Hne. unfold dload_owner in *. rewrite downers_dupd_drop; [apply last_filter_ne, Hne|exact Hn|exact Hu|].
  intros r Hin Hr. rewrite (nodup_row_unique u rows r0 r Hn Hf Hin Hr). exact Hl.
Qed.

(* ------------------------------------------------------------------ *)
(* attached sessions belong to cached users                             *)
Definition sess_ok (sm : dsessmap) (c : dcache) : Prop :=
  Forall (fun e => snd e = dsess_uid sm (fst e) /\ alookup (snd e) (k_users c) <> None) (k_sess c).

Lemma alookup_In {A} k (v : A) l : alookup k l = Some v -> In (k, v) l.
Proof.
  induction l as [|[a b] r IH]; cbn [alookup]; [discriminate|].
  destruct (N.eqb k a) eqn:E; intros H.
  - apply N.eqb_eq in E. inversion H; subst. left. reflexivity.
  - right. apply IH, H.
Qed.

Lemma forall_aset {A} (P : N * A -> Prop) k v l : P (k, v) -> Forall P l -> Forall P (aset k v l).
Proof.
  intros Hk H. induction H as [|[a b] r Ha Hr IH]; cbn [aset]; [repeat constructor; exact Hk|].
  destruct (N.eqb k a); constructor; auto.
Qed.

Lemma forall_aremove {A} (P : N * A -> Prop) k l : Forall P l -> Forall P (aremove k l).
Proof.
  intros H. induction H as [|[a b] r Ha Hr IH]; cbn [aremove]; [constructor|].
  destruct (N.eqb k a); [exact IH|constructor; auto].
Qed.

Lemma forall_filter {A} (P : A -> Prop) g l : Forall P l -> Forall P (filter g l).
Proof.
  intros H. induction H as [|a r Ha Hr IH]; cbn [filter]; [constructor|].
  destruct (g a); [constructor; auto|exact IH].
Qed.

Lemma sess_ok_attached sm c sid : sess_ok sm c -> dattached c sid = true ->
  alookup (dsess_uid sm sid) (k_users c) <> None.
Proof.
  unfold sess_ok, dattached. intros H Ha.
  destruct (alookup sid (k_sess c)) as [a|] eqn:E; [|discriminate].
  apply alookup_In in E. rewrite Forall_forall in H. specialize (H _ E). cbn [fst snd] in H.
  destruct H as [H1 H2]. rewrite <- H1. exact H2.
Qed.

(* the loaded-state invariant *)
Definition dinv_loaded (sm : dsessmap) (s : dstore) (c : dcache) : Prop := coherent_cache s c /\ sess_ok sm c.
Definition dinv (sm : dsessmap) (x : dstate) : Prop :=
  wf_store (dst x) /\ match dca x with None => True | Some c => dinv_loaded sm (dst x) c end.

Lemma dinv_coherent sm x : dinv sm x -> coherent_desc x.
Proof. intros [H1 H2]. split; [exact H1|]. destruct (dca x); [apply H2|exact I]. Qed.

Lemma dinv_load sm s : wf_store s -> dinv_loaded sm s (dload s).
Proof. intros H. split; [apply coherent_load, H|constructor]. Qed.

(* ------------------------------------------------------------------ *)
(* replySetTags                                                          *)
Lemma kc_tags_id c : kc_tags (k_tags c) c = c.
Proof. destruct c; reflexivity. Qed.

Ltac dsame := cbn [dh_st dh_ca]; first [ split; [assumption | assumption] | split; [assumption | split; assumption] ].

Lemma set_tags_inv sm f s c n sid u tags :
  wf_store s -> dinv_loaded sm s c ->
  let h := d_set_tags f s c n sid u tags in wf_store (dh_st h) /\ dinv_loaded sm (dh_st h) (dh_ca h).
Proof.
  intros Hwf [Hc Hs]. cbv zeta. unfold d_set_tags.
  destruct (negb (N.eqb (k_owner c) u)); [dsame|].
  destruct (normalize_tags tags) as [t|] eqn:Et; [|dsame].
  destruct (negb (restricted_eq (k_tags c) t)); [dsame|].
  assert (Hsort : nsort (k_tags c) = k_tags c).
  { destruct Hc as [_ [_ [_ [_ [Ht _]]]]]. rewrite Ht. apply ssorted_nsort_id. apply Hwf. }
  assert (Hc0 : match k_tags c, t with [], _ | _, [] => c | _, _ => kc_tags (nsort (k_tags c)) c end = c).
  { rewrite Hsort, kc_tags_id. destruct (k_tags c), t; reflexivity. }
  rewrite Hc0.
  destruct (tags_differ (k_tags c) t); [|dsame].
  destruct (call f n) as [ok n1]. destruct ok; cbn [negb]; [|dsame].
  cbn [dh_st dh_ca].
  destruct Hwf as [W1 [W2 W3]]. destruct Hc as [C1 [C2 [C3 [C4 [C5 [C6 C7]]]]]].
  split; [repeat split; try assumption; apply (normalize_tags_ssorted _ _ Et)|].
  split; [repeat split; try assumption; apply C7|exact Hs].
Qed.

(* ------------------------------------------------------------------ *)
(* replySetDesc                                                          *)
Lemma topic_update_none s : dad_topic_update s None None None = s.
Proof. destruct s; reflexivity. Qed.
Lemma kc_core_none c : kc_core None None None c = c.
Proof. destruct c; reflexivity. Qed.

Lemma assign_access_noO c defacs a n :
  is_owner (k_auth c) = false -> assign_access c defacs = Some (Some (a, n)) -> is_owner a = false.
Proof.
  unfold assign_access. intros Hc. destruct defacs as [[x y]|]; [|discriminate].
  destruct (match y with Some _ => acs_arg_invalid y | None => acs_arg_invalid x end); [discriminate|].
  destruct (is_owner (acs_arg_val x) || is_owner (acs_arg_val y)) eqn:E; [discriminate|].
  apply orb_false_elim in E. destruct E as [E1 E2].
  destruct (acs_arg_val x =? ModeUnset)%N;
  match goal with |- (if ?b then _ else _) = _ -> _ => destruct b end; intros H; inversion H; subst; assumption.
Qed.

Lemma sess_ok_users sm c g :
  (forall a, alookup a (k_users c) <> None -> alookup a (g (k_users c)) <> None) ->
  sess_ok sm c -> sess_ok sm (kc_users g c).
Proof.
  unfold sess_ok. cbn [kc_users k_sess k_users]. intros Hg H.
  eapply Forall_impl; [|exact H]. intros e [H1 H2]. split; [exact H1|apply Hg, H2].
Qed.

(* a live row of u is rewritten (user and liveness kept), the cache entry of u is set to its image *)
Lemma row_update_inv sm s c u f r0 :
  wf_store s -> dinv_loaded sm s c ->
  dfind u (d_subs s) = Some r0 -> r_deleted r0 = false ->
  (forall r, r_user (f r) = r_user r) -> r_deleted (f r0) = false ->
  (live_owner (f r0) = live_owner r0 \/ (live_owner (f r0) = false /\ k_owner c <> u)) ->
  wf_store (ds_subs (dupd u f) s) /\ dinv_loaded sm (ds_subs (dupd u f) s) (kc_users (aset u (pud_of_row (f r0))) c).
Proof.
  intros [W1 [W2 W3]] [[C1 [C2 [C3 [C4 [C5 [C6 C7]]]]]] Hs] Ef Ed Hfu Hd Hown.
  cbn [load_desc dload k_auth k_anon k_pub k_tru k_tags k_owner] in *.
  split.
  - repeat split; cbn [ds_subs d_subs d_auth d_tags]; try assumption.
    rewrite dupd_users by exact Hfu. exact W1.
  - split.
    + unfold coherent_cache.
      cbn [load_desc dload ds_subs kc_users k_auth k_anon k_pub k_tru k_tags k_owner k_users d_auth d_anon d_pub d_tru d_tags d_subs].
      split; [exact C1|]. split; [exact C2|]. split; [exact C3|]. split; [exact C4|]. split; [exact C5|].
      split.
      * rewrite C6. symmetry. destruct Hown as [Hk|[Hk Hne]].
        -- apply (owner_dupd_keep u f _ r0 W1 Ef Hfu Hk).
        -- apply (owner_dupd_drop u f _ r0 W1 Ef Hfu Hk). rewrite <- C6. exact Hne.
      * eapply ua_set; [exact C7| |].
        -- intros v. rewrite (load_lookup_dupd u f _ r0 v W1 Ef Hfu), Hd. reflexivity.
        -- rewrite (load_length_dupd u f _ r0 W1 Ef Hfu), Hd, Ed.
           rewrite (load_users_lookup u _ W1), Ef, Ed.
           assert (Hpos : (1 <= length (dload_users (d_subs s)))%nat).
           { destruct (dload_users (d_subs s)) eqn:El; [|cbn; lia].
             pose proof (load_users_lookup u _ W1) as Hx. rewrite El, Ef, Ed in Hx. discriminate. }
           lia.
    + apply sess_ok_users; [|exact Hs].
      intros a Ha. rewrite dl_alookup_aset. destruct (N.eqb a u); [discriminate|exact Ha].
Qed.

(* the state reached when both writes of {set desc} went through (or were not needed) *)
Lemma set_desc_final sm s c u acc upub utru (prch : bool) prv :
  wf_store s -> dinv_loaded sm s c -> alookup u (k_users c) <> None ->
  (forall a n, acc = Some (a, n) -> is_owner a = false) ->
  let s1 := dad_topic_update s acc upub utru in
  let s2 := if prch then dad_subs_update s1 u None (Some prv) else s1 in
  let c1 := kc_core acc upub utru c in
  let c2 := if prch then let p := dget_pud c1 u in kc_users (aset u (mkDPud (q_want p) (q_given p) prv)) c1 else c1 in
  wf_store s2 /\ dinv_loaded sm s2 c2.
Proof.
  intros [W1 [W2 W3]] [[C1 [C2 [C3 [C4 [C5 [C6 C7]]]]]] Hs] Hu Hacc. cbv zeta.
  cbn [load_desc dload k_auth k_anon k_pub k_tru k_tags k_owner] in *.
  assert (Wa : is_owner (d_auth (dad_topic_update s acc upub utru)) = false).
  { destruct acc as [[a n]|]; cbn; [apply (Hacc a n eq_refl)|exact W2]. }
  assert (F1 : coherent_cache (dad_topic_update s acc upub utru) (kc_core acc upub utru c)).
  { unfold coherent_cache. cbn [load_desc dload dad_topic_update kc_core k_auth k_anon k_pub k_tru k_tags k_owner k_users d_auth d_anon d_pub d_tru d_tags d_subs].
    repeat split; try assumption; try apply C7.
    - destruct acc as [[a n]|]; [reflexivity|exact C1].
    - destruct acc as [[a n]|]; [reflexivity|exact C2].
    - destruct upub; [reflexivity|exact C3].
    - destruct utru; [reflexivity|exact C4]. }
  assert (Wf1 : wf_store (dad_topic_update s acc upub utru)) by (repeat split; assumption).
  assert (I1 : dinv_loaded sm (dad_topic_update s acc upub utru) (kc_core acc upub utru c)) by (split; [exact F1|exact Hs]).
  destruct prch; [|split; assumption].
  pose proof (ua_lookup _ _ u W1 C7) as Hl.
  destruct (dfind u (d_subs s)) as [r0|] eqn:Ef; [|congruence].
  destruct (r_deleted r0) eqn:Ed; [congruence|].
  assert (Hp : dget_pud (kc_core acc upub utru c) u = pud_of_row r0).
  { unfold dget_pud. cbn [kc_core k_users]. rewrite Hl. reflexivity. }
  rewrite Hp.
  set (f := fun r => mkDRow (r_user r) (r_want r) (r_given r) prv (r_deleted r)).
  apply (row_update_inv sm _ _ u f r0 Wf1 I1 Ef Ed (fun r => eq_refl) Ed). left. reflexivity.
Qed.

Lemma wf_subs_update s u w p : wf_store s -> wf_store (dad_subs_update s u w p).
Proof.
  intros [W1 [W2 W3]]. repeat split; cbn [dad_subs_update ds_subs d_subs d_auth d_tags]; try assumption.
  rewrite dupd_users by reflexivity. exact W1.
Qed.

Lemma wf_topic_update s acc pub tru :
  wf_store s -> (forall a n, acc = Some (a, n) -> is_owner a = false) -> wf_store (dad_topic_update s acc pub tru).
Proof.
  intros [W1 [W2 W3]] H. repeat split; cbn [dad_topic_update d_subs d_auth d_tags]; try assumption.
  destruct acc as [[a n]|]; [apply (H a n eq_refl)|exact W2].
Qed.

Lemma plan_acc_noO c u root defacs pub tru priv p :
  is_owner (k_auth c) = false -> d_set_desc_plan c u root defacs pub tru priv = inr p ->
  forall a n, pl_acc p = Some (a, n) -> is_owner a = false.
Proof.
  unfold d_set_desc_plan. intros Hc.
  destruct (negb (tru =? 0)%N && negb root); [discriminate|].
  destruct (negb (N.eqb (k_owner c) u) && _); [discriminate|].
  destruct (N.eqb (k_owner c) u).
  - destruct (assign_access c defacs) as [acc|] eqn:Ea; [|discriminate].
    destruct (merge_val (k_pub c) pub) as [pv pch]. destruct (merge_val (k_tru c) tru) as [tv tch].
    destruct (merge_val (q_priv (dget_pud c u)) priv) as [prv prch].
    match goal with |- (if ?b then _ else _) = _ -> _ => destruct b end; [discriminate|].
    intros H a n. inversion H; subst. cbn [pl_acc]. intros ->. eapply assign_access_noO; eassumption.
  - destruct (merge_val (q_priv (dget_pud c u)) priv) as [prv prch].
    match goal with |- (if ?b then _ else _) = _ -> _ => destruct b end; [discriminate|].
    intros H a n. inversion H; subst. cbn [pl_acc]. discriminate.
Qed.

Lemma exec_wf f s c n sid u p :
  wf_store s -> (forall a m, pl_acc p = Some (a, m) -> is_owner a = false) ->
  wf_store (dh_st (d_set_desc_exec f s c n sid u p)).
Proof.
  intros Hwf Hacc. unfold d_set_desc_exec.
  assert (W1 : wf_store (if pl_ncore p then dad_topic_update s (pl_acc p) (pl_pub p) (pl_tru p) else s)).
  { destruct (pl_ncore p); [apply wf_topic_update; assumption|exact Hwf]. }
  destruct (if pl_ncore p then call f n else (true, n)) as [ok1 n1].
  destruct ok1; cbn [negb]; [|exact Hwf].
  destruct (if pl_prch p then call f n1 else (true, n1)) as [ok2 n2].
  destruct ok2; cbn [negb dh_st]; [|exact W1].
  destruct (pl_prch p); [apply wf_subs_update|]; exact W1.
Qed.

Lemma exec_inv sm f s c sid u p :
  wf_store s -> dinv_loaded sm s c -> alookup u (k_users c) <> None ->
  (forall a m, pl_acc p = Some (a, m) -> is_owner a = false) ->
  fails f 2 = false ->
  let h := d_set_desc_exec f s c 0 sid u p in wf_store (dh_st h) /\ dinv_loaded sm (dh_st h) (dh_ca h).
Proof.
  intros Hwf Hinv Hu Hacc Hf. cbv zeta. unfold d_set_desc_exec.
  pose proof (set_desc_final sm s c u (pl_acc p) (pl_pub p) (pl_tru p) (pl_prch p) (pl_prv p) Hwf Hinv Hu Hacc) as Hfin.
  cbv zeta in Hfin.
  destruct (pl_ncore p) eqn:Enc.
  - unfold call. cbv beta iota. rewrite Hf. destruct (fails f 1); cbn [negb]; [dsame|].
    destruct (pl_prch p); cbn [negb]; exact Hfin.
  - (* no core update: acc, pub, tru are all None *)
    assert (Hn : pl_acc p = None /\ pl_pub p = None /\ pl_tru p = None).
    { unfold pl_ncore in Enc. destruct (pl_acc p), (pl_pub p), (pl_tru p); try discriminate. auto. }
    destruct Hn as [H1 [H2 H3]]. rewrite H1, H2, H3 in *. rewrite topic_update_none, kc_core_none in Hfin.
    cbn [negb]. rewrite kc_core_none.
    destruct (pl_prch p).
    + unfold call. cbv beta iota. destruct (fails f 1); cbn [negb]; [dsame|exact Hfin].
    + cbn [negb]. exact Hfin.
Qed.

Lemma set_desc_wf f s c n sid u root defacs pub tru priv :
  wf_store s -> coherent_cache s c -> wf_store (dh_st (d_set_desc f s c n sid u root defacs pub tru priv)).
Proof.
  intros Hwf Hc. unfold d_set_desc.
  destruct (d_set_desc_plan c u root defacs pub tru priv) as [code|p] eqn:Ep; [exact Hwf|].
  apply exec_wf; [exact Hwf|]. eapply plan_acc_noO; [|exact Ep].
  destruct Hc as [C1 _]. rewrite C1. apply Hwf.
Qed.

Lemma set_desc_inv sm f s c sid u root defacs pub tru priv :
  wf_store s -> dinv_loaded sm s c -> alookup u (k_users c) <> None -> fails f 2 = false ->
  let h := d_set_desc f s c 0 sid u root defacs pub tru priv in
  wf_store (dh_st h) /\ dinv_loaded sm (dh_st h) (dh_ca h).
Proof.
  intros Hwf Hinv Hu Hf. cbv zeta. unfold d_set_desc.
  destruct (d_set_desc_plan c u root defacs pub tru priv) as [code|p] eqn:Ep; [dsame|].
  apply exec_inv; try assumption. eapply plan_acc_noO; [|exact Ep].
  destruct Hinv as [[C1 _] _]. rewrite C1. apply Hwf.
Qed.

(* ------------------------------------------------------------------ *)
(* rows deleted / resurrected / appended                                *)
Lemma sess_ok_evict sm c u g :
  (forall a, a <> u -> alookup a (k_users c) <> None -> alookup a (g (k_users c)) <> None) ->
  sess_ok sm c -> sess_ok sm (kc_users g (kc_sess (filter (fun e => negb (N.eqb (snd e) u))) c)).
Proof.
  unfold sess_ok. cbn [kc_users kc_sess k_sess k_users]. intros Hg H.
  rewrite Forall_forall in *. intros e He. apply filter_In in He. destruct He as [He Hne].
  destruct (H e He) as [H1 H2]. split; [exact H1|]. apply Hg; [|exact H2].
  intros Heq. rewrite Heq, N.eqb_refl in Hne. discriminate.
Qed.

Lemma row_delete_inv sm s c u r0 :
  wf_store s -> dinv_loaded sm s c -> dfind u (d_subs s) = Some r0 -> r_deleted r0 = false -> k_owner c <> u ->
  let f := fun r => mkDRow (r_user r) (r_want r) (r_given r) (r_priv r) true in
  wf_store (ds_subs (dupd u f) s) /\
  dinv_loaded sm (ds_subs (dupd u f) s) (kc_users (aremove u) (kc_sess (filter (fun e => negb (N.eqb (snd e) u))) c)).
Proof.
  intros [W1 [W2 W3]] [[C1 [C2 [C3 [C4 [C5 [C6 C7]]]]]] Hs] Ef Ed Hne f.
  assert (Hfu : forall r, r_user (f r) = r_user r) by reflexivity.
  cbn [load_desc dload k_auth k_anon k_pub k_tru k_tags k_owner] in *.
  split.
  - repeat split; cbn [ds_subs d_subs d_auth d_tags]; try assumption.
    rewrite dupd_users by exact Hfu. exact W1.
  - split.
    + unfold coherent_cache.
      cbn [load_desc dload ds_subs kc_users kc_sess k_auth k_anon k_pub k_tru k_tags k_owner k_users d_auth d_anon d_pub d_tru d_tags d_subs].
      split; [exact C1|]. split; [exact C2|]. split; [exact C3|]. split; [exact C4|]. split; [exact C5|].
      split.
      * rewrite C6. symmetry. apply (owner_dupd_drop u f _ r0 W1 Ef Hfu); [reflexivity|]. rewrite <- C6. exact Hne.
      * eapply ua_remove; [exact C7| |].
        -- intros v. rewrite (load_lookup_dupd u f _ r0 v W1 Ef Hfu). reflexivity.
        -- rewrite (load_length_dupd u f _ r0 W1 Ef Hfu), Ed.
           rewrite (load_users_lookup u _ W1), Ef, Ed. cbn [f r_deleted]. lia.
    + apply sess_ok_evict; [|exact Hs].
      intros a Ha Hl. rewrite dl_alookup_aremove. destruct (N.eqb a u) eqn:E; [apply N.eqb_eq in E; contradiction|exact Hl].
Qed.

Lemma row_resurrect_inv sm s c u r0 want given :
  wf_store s -> dinv_loaded sm s c -> dfind u (d_subs s) = Some r0 -> r_deleted r0 = true ->
  is_owner (N.land given want) = false ->
  let f := fun r => mkDRow (r_user r) want given (r_priv r) false in
  wf_store (ds_subs (dupd u f) s) /\
  dinv_loaded sm (ds_subs (dupd u f) s) (kc_users (aset u (mkDPud want given (r_priv r0))) c).
Proof.
  intros [W1 [W2 W3]] [[C1 [C2 [C3 [C4 [C5 [C6 C7]]]]]] Hs] Ef Ed Ho f.
  assert (Hfu : forall r, r_user (f r) = r_user r) by reflexivity.
  cbn [load_desc dload k_auth k_anon k_pub k_tru k_tags k_owner] in *.
  split.
  - repeat split; cbn [ds_subs d_subs d_auth d_tags]; try assumption.
    rewrite dupd_users by exact Hfu. exact W1.
  - split.
    + unfold coherent_cache.
      cbn [load_desc dload ds_subs kc_users k_auth k_anon k_pub k_tru k_tags k_owner k_users d_auth d_anon d_pub d_tru d_tags d_subs].
      split; [exact C1|]. split; [exact C2|]. split; [exact C3|]. split; [exact C4|]. split; [exact C5|].
      split.
      * rewrite C6. symmetry. apply (owner_dupd_keep u f _ r0 W1 Ef Hfu).
        unfold live_owner. cbn [f r_deleted r_given r_want]. rewrite Ed, Ho. reflexivity.
      * eapply ua_set; [exact C7| |].
        -- intros v. rewrite (load_lookup_dupd u f _ r0 v W1 Ef Hfu). reflexivity.
        -- rewrite (load_length_dupd u f _ r0 W1 Ef Hfu), Ed.
           rewrite (load_users_lookup u _ W1), Ef, Ed. cbn [f r_deleted]. lia.
    + apply sess_ok_users; [|exact Hs].
      intros a Ha. rewrite dl_alookup_aset. destruct (N.eqb a u); [discriminate|exact Ha].
Qed.

Lemma nodup_snoc {A} (l : list A) x : NoDup l -> ~ In x l -> NoDup (l ++ [x]).
Proof.
  induction l as [|a l IH]; intros H Hn; cbn [app]; [constructor; [intros []|constructor]|].
  inversion H as [|? ? Ha Hl]; subst. constructor.
  - rewrite in_app_iff. intros [Hin|[->|[]]]; [contradiction|]. apply Hn. left. reflexivity.
  - apply IH; [exact Hl|]. intros Hin. apply Hn. right. exact Hin.
Qed.

Lemma row_append_inv sm s c u want given pv :
  wf_store s -> dinv_loaded sm s c -> dfind u (d_subs s) = None -> is_owner (N.land given want) = false ->
  let r := mkDRow u want given pv false in
  wf_store (ds_subs (fun l => l ++ [r]) s) /\
  dinv_loaded sm (ds_subs (fun l => l ++ [r]) s) (kc_users (aset u (mkDPud want given pv)) c).
Proof.
  intros [W1 [W2 W3]] [[C1 [C2 [C3 [C4 [C5 [C6 C7]]]]]] Hs] Ef Ho r.
  pose proof (dfind_none _ _ Ef) as Hnin.
  cbn [load_desc dload k_auth k_anon k_pub k_tru k_tags k_owner] in *.
  split.
  - repeat split; cbn [ds_subs d_subs d_auth d_tags]; try assumption.
    rewrite map_app. cbn [map r_user r]. apply nodup_snoc; assumption.
  - split.
    + unfold coherent_cache.
      cbn [load_desc dload ds_subs kc_users k_auth k_anon k_pub k_tru k_tags k_owner k_users d_auth d_anon d_pub d_tru d_tags d_subs].
      split; [exact C1|]. split; [exact C2|]. split; [exact C3|]. split; [exact C4|]. split; [exact C5|].
      split.
      * rewrite C6. unfold dload_owner. rewrite downers_app_nonowner; [reflexivity|].
        unfold live_owner. cbn [r r_deleted r_given r_want]. rewrite Ho. reflexivity.
      * eapply ua_set; [exact C7| |].
        -- intros v. rewrite (load_lookup_append _ r v Hnin eq_refl). reflexivity.
        -- rewrite load_users_app, app_length. cbn [dload_users flat_map r r_deleted app length].
           rewrite (load_users_lookup u _ W1), Ef. lia.
    + apply sess_ok_users; [|exact Hs].
      intros a Ha. rewrite dl_alookup_aset. destruct (N.eqb a u); [discriminate|exact Ha].
Qed.

Lemma evict_keep_inv sm s c u skip :
  dinv_loaded sm s c -> dinv_loaded sm s (fst (d_evict c u false skip)).
Proof.
  intros [Hc Hs]. unfold d_evict. cbn [fst]. split; [exact Hc|].
  unfold sess_ok in *. cbn [kc_sess k_sess k_users]. apply forall_filter, Hs.
Qed.

(* ------------------------------------------------------------------ *)
(* the O bit                                                            *)
Lemma land_mO m : N.land m 128 = if N.testbit m 7 then 128%N else 0%N.
Proof.
  apply N.bits_inj. intros i. rewrite N.land_spec. change 128%N with (2 ^ 7)%N.
  rewrite N.pow2_bits_eqb. destruct (N.testbit m 7) eqn:E.
  - rewrite N.pow2_bits_eqb. destruct (N.eqb 7 i) eqn:E2.
    + apply N.eqb_eq in E2. subst i. rewrite E. reflexivity.
    + apply andb_false_r.
  - rewrite N.bits_0. destruct (N.eqb 7 i) eqn:E2.
    + apply N.eqb_eq in E2. subst i. rewrite E. reflexivity.
    + apply andb_false_r.
Qed.

Lemma is_owner_bit m : is_owner m = N.testbit m 7.
Proof. unfold is_owner, has, mO. rewrite land_mO. destruct (N.testbit m 7); reflexivity. Qed.

Lemma is_owner_land a b : is_owner (N.land a b) = is_owner a && is_owner b.
Proof. rewrite !is_owner_bit. apply N.land_spec. Qed.
Lemma is_owner_lor a b : is_owner (N.lor a b) = is_owner a || is_owner b.
Proof. rewrite !is_owner_bit. apply N.lor_spec. Qed.
Lemma is_owner_ldiff a : is_owner (N.ldiff a mO) = false.
Proof. rewrite is_owner_bit, N.ldiff_spec. unfold mO. cbn. apply andb_false_r. Qed.

Lemma access_noO s c root : wf_store s -> coherent_cache s c -> is_owner (access_for c root) = false.
Proof.
  intros [_ [W _]] [C _]. unfold access_for. destruct root; [reflexivity|]. rewrite C. exact W.
Qed.

(* ------------------------------------------------------------------ *)
(* thisUserSub                                                           *)
Definition norm_priv (priv : N) : N := if (priv =? 1)%N then 0%N else priv.
(* the trigger of resubscribe-stale-private: the user's row is soft-deleted and holds another private value *)
Definition resub_trigger (s : dstore) (u priv : N) : bool :=
  match dfind u (d_subs s) with
  | Some r => r_deleted r && negb (r_priv r =? norm_priv priv)%N
  | None => false
  end.

Lemma ua_aset_same cu rows u p : users_agree cu rows -> alookup u cu = Some p -> users_agree (aset u p cu) rows.
Proof.
  intros [H1 [H2 H3]] Hl. repeat split.
  - intros v. rewrite dl_alookup_aset. destruct (N.eqb v u) eqn:E; [|apply H1].
    apply N.eqb_eq in E. subst v. rewrite <- H1. symmetry. exact Hl.
  - rewrite dl_length_aset, Hl. exact H2.
  - apply dl_nodup_aset, H3.
Qed.

Lemma sub_get_keep s u : dad_sub_get s u true = dfind u (d_subs s).
Proof. unfold dad_sub_get. destruct (dfind u (d_subs s)); [rewrite andb_false_r|]; reflexivity. Qed.

Ltac derr := cbn [fst snd dh_st dh_ca]; split; [assumption | split; [assumption | discriminate]].

Lemma this_user_sub_new_inv sm f s c n u root priv :
  wf_store s -> dinv_loaded sm s c -> alookup u (k_users c) = None -> resub_trigger s u priv = false ->
  let hr := d_this_user_sub f s c n u root priv in
  wf_store (dh_st (fst hr)) /\ dinv_loaded sm (dh_st (fst hr)) (dh_ca (fst hr)) /\
  (forall ch, snd hr = DSubOk ch -> alookup u (k_users (dh_ca (fst hr))) <> None).
Proof.
  intros Hwf Hinv El Ht. cbv zeta. unfold d_this_user_sub. rewrite El.
  destruct (max_subs <=? Z.of_nat (length (k_users c))); [derr|].
  destruct (call f n) as [ok1 n1]. destruct ok1; cbn [negb]; [|derr].
  rewrite sub_get_keep.
  pose proof (access_noO s c root Hwf (proj1 Hinv)) as Hacc.
  set (want := access_for c root) in *.
  set (given := if ((match dfind u (d_subs s) with Some r => r_given r | None => ModeUnset end) =? ModeUnset)%N
                then want else match dfind u (d_subs s) with Some r => r_given r | None => ModeUnset end).
  assert (Ho : is_owner (N.land given want) = false) by (rewrite is_owner_land, Hacc; apply andb_false_r).
  destruct (negb (is_joiner given)); [derr|].
  pose proof (ua_lookup _ _ u (proj1 Hwf) (proj2 (proj2 (proj2 (proj2 (proj2 (proj2 (proj1 Hinv)))))))) as Hl.
  rewrite El in Hl.
  assert (Hfin : forall s2 c2,
     wf_store s2 /\ dinv_loaded sm s2 c2 -> alookup u (k_users c2) <> None ->
     let hr := (if negb (is_joiner want)
                then let '(c3, o3) := d_evict c2 u false 0%N in (mkDH s2 c3 n1 o3, DSubOk (Some (want, given)))
                else (mkDH s2 c2 n1 [], DSubOk (Some (want, given)))) in
     wf_store (dh_st (fst hr)) /\ dinv_loaded sm (dh_st (fst hr)) (dh_ca (fst hr)) /\
     (forall ch, snd hr = DSubOk ch -> alookup u (k_users (dh_ca (fst hr))) <> None)).
  { intros s2 c2 [Hw2 Hi2] Hu2. cbv zeta. destruct (negb (is_joiner want)).
    - pose proof (evict_keep_inv sm s2 c2 u 0%N Hi2) as He. unfold d_evict in *. cbn [fst snd dh_st dh_ca] in *.
      split; [exact Hw2|]. split; [exact He|]. intros _ _. exact Hu2.
    - cbn [fst snd dh_st dh_ca]. split; [exact Hw2|]. split; [exact Hi2|]. intros _ _. exact Hu2. }
  destruct (dfind u (d_subs s)) as [r|] eqn:Ef.
  - destruct (r_deleted r) eqn:Ed; [|discriminate].
    destruct (call f n1) as [ok2 n2]. destruct ok2; cbn [negb]; [|derr].
    unfold dad_sub_create. rewrite Ef, Ho.
    assert (Hp : norm_priv priv = r_priv r).
    { unfold resub_trigger in Ht. rewrite Ef, Ed in Ht. cbn [andb] in Ht.
      destruct (r_priv r =? norm_priv priv)%N eqn:E; [|discriminate]. apply N.eqb_eq in E. symmetry. exact E. }
    fold (norm_priv priv). rewrite Hp.
    pose proof (row_resurrect_inv sm s c u r want given Hwf Hinv Ef Ed Ho) as Hr. cbv zeta in Hr.
    match goal with |- context [mkDH ?s2 ?c2 n2 []] => specialize (Hfin s2 c2) end.
    assert (Hu2 : alookup u (k_users (kc_users (aset u (mkDPud want given (r_priv r))) c)) <> None).
    { cbn [kc_users k_users]. rewrite dl_alookup_aset, N.eqb_refl. discriminate. }
    specialize (Hfin Hr Hu2). cbv zeta in Hfin.
    destruct (negb (is_joiner want)); exact Hfin.
  - destruct (call f n1) as [ok2 n2]. destruct ok2; cbn [negb]; [|derr].
    unfold dad_sub_create. rewrite Ef, Ho. fold (norm_priv priv).
    pose proof (row_append_inv sm s c u want given (norm_priv priv) Hwf Hinv Ef Ho) as Hr. cbv zeta in Hr.
    assert (Hu2 : alookup u (k_users (kc_users (aset u (mkDPud want given (norm_priv priv))) c)) <> None).
    { cbn [kc_users k_users]. rewrite dl_alookup_aset, N.eqb_refl. discriminate. }
    specialize (Hfin _ _ Hr Hu2). cbv zeta in Hfin.
    destruct (negb (is_joiner want)); exact Hfin.
Qed.

Lemma this_user_sub_old_inv sm f s c n u root priv p0 :
  wf_store s -> dinv_loaded sm s c -> u <> 0%N -> alookup u (k_users c) = Some p0 ->
  let hr := d_this_user_sub f s c n u root priv in
  wf_store (dh_st (fst hr)) /\ dinv_loaded sm (dh_st (fst hr)) (dh_ca (fst hr)) /\
  (forall ch, snd hr = DSubOk ch -> alookup u (k_users (dh_ca (fst hr))) <> None).
Proof.
  intros Hwf Hinv Hu0 El. cbv zeta. unfold d_this_user_sub. rewrite El.
  pose proof (ua_lookup _ _ u (proj1 Hwf) (proj2 (proj2 (proj2 (proj2 (proj2 (proj2 (proj1 Hinv)))))))) as Hl.
  rewrite El in Hl.
  destruct (dfind u (d_subs s)) as [r0|] eqn:Ef; [|discriminate].
  destruct (r_deleted r0) eqn:Ed; [discriminate|].
  assert (Hp0 : p0 = pud_of_row r0) by congruence. clear Hl.
  pose proof (access_noO s c root Hwf (proj1 Hinv)) as Hacc.
  set (oldw := q_want p0). set (oldg := q_given p0).
  set (w1 := if negb (is_joiner oldw)
             then (if N.eqb (k_owner c) u then N.lor oldg (access_for c root) else N.ldiff (N.lor oldg (access_for c root)) mO)
             else oldw).
  set (upd_priv := if (priv =? 1)%N then Some 0%N else if (priv =? 0)%N then None else Some priv).
  set (upd_want := if (w1 =? oldw)%N then None else Some w1).
  set (p1 := mkDPud w1 oldg (match upd_priv with Some v => v | None => q_priv p0 end)).
  (* the common tail once store s1 / cache c1 are known to satisfy the invariant *)
  assert (Htail : forall s1 c1 n1,
     wf_store s1 /\ dinv_loaded sm s1 c1 -> alookup u (k_users c1) <> None ->
     let hr := (if negb (is_joiner w1)
                then let '(c2, o2) := d_evict c1 u false 0%N in (mkDH s1 c2 n1 o2, DSubOk (if (w1 =? oldw)%N then None else Some (w1, oldg)))
                else if negb (is_joiner oldg) then (mkDH s1 c1 n1 [], DSubErr 403)
                else (mkDH s1 c1 n1 [], DSubOk (if (w1 =? oldw)%N then None else Some (w1, oldg)))) in
     wf_store (dh_st (fst hr)) /\ dinv_loaded sm (dh_st (fst hr)) (dh_ca (fst hr)) /\
     (forall ch, snd hr = DSubOk ch -> alookup u (k_users (dh_ca (fst hr))) <> None)).
  { intros s1 c1 n1 [Hw1 Hi1] Hu1. cbv zeta. destruct (negb (is_joiner w1)).
    - pose proof (evict_keep_inv sm s1 c1 u 0%N Hi1) as He. unfold d_evict in *. cbn [fst snd dh_st dh_ca] in *.
      split; [exact Hw1|]. split; [exact He|]. intros _ _. exact Hu1.
    - destruct (negb (is_joiner oldg)); cbn [fst snd dh_st dh_ca]; (split; [exact Hw1|]; split; [exact Hi1|]; intros _ _; exact Hu1). }
  assert (Hu1 : alookup u (k_users (kc_users (aset u p1) c)) <> None).
  { cbn [kc_users k_users]. rewrite dl_alookup_aset, N.eqb_refl. discriminate. }
  destruct (match upd_priv with Some _ => true | None => match upd_want with Some _ => true | None => false end end) eqn:Eneed.
  - (* a store update is needed *)
    destruct (call f n) as [ok1 n1]. destruct ok1; cbn [negb]; [|derr].
    set (fr := fun r => mkDRow (r_user r) (match upd_want with Some w => w | None => r_want r end) (r_given r)
                               (match upd_priv with Some p => p | None => r_priv r end) (r_deleted r)).
    assert (Hpud : pud_of_row (fr r0) = p1).
    { unfold pud_of_row, fr, p1. cbn [r_want r_given r_priv]. subst p0. cbn [pud_of_row q_priv q_want q_given] in *.
      f_equal. unfold upd_want. destruct (w1 =? oldw)%N eqn:E; [apply N.eqb_eq in E; rewrite E|]; reflexivity. }
    assert (Hown : live_owner (fr r0) = live_owner r0 \/ (live_owner (fr r0) = false /\ k_owner c <> u)).
    { unfold live_owner, fr. cbn [r_deleted r_given r_want]. rewrite Ed. cbn [negb andb].
      unfold upd_want. destruct (w1 =? oldw)%N eqn:E; [left; reflexivity|].
      assert (Hnj : negb (is_joiner oldw) = true).
      { assert (Hcase : negb (is_joiner oldw) = true \/ negb (is_joiner oldw) = false) by (destruct (negb (is_joiner oldw)); auto).
        destruct Hcase as [Hc|Hc]; [exact Hc|]. unfold w1 in E. rewrite Hc, N.eqb_refl in E. discriminate. }
      unfold w1. rewrite Hnj.
      destruct (N.eqb (k_owner c) u) eqn:Eo.
      - left. apply N.eqb_eq in Eo.
        destruct Hinv as [[_ [_ [_ [_ [_ [C6 _]]]]]] _]. cbn [load_desc dload k_owner] in C6.
        destruct (load_owner_row u (d_subs s) Hu0) as [r [Hin [Hru Hlo]]]; [congruence|].
        rewrite (nodup_row_unique u _ r0 r (proj1 Hwf) Ef Hin Hru) in Hlo.
        unfold live_owner in Hlo. rewrite Ed in Hlo. cbn [negb andb] in Hlo.
        rewrite Hlo. rewrite is_owner_land in *. apply andb_prop in Hlo. destruct Hlo as [Hg _].
        rewrite Hg, is_owner_lor. subst p0. cbn [pud_of_row q_given] in oldg. subst oldg. rewrite Hg. reflexivity.
      - right. split; [|apply N.eqb_neq, Eo]. rewrite is_owner_land, is_owner_ldiff. apply andb_false_r. }
    pose proof (row_update_inv sm s c u fr r0 Hwf Hinv Ef Ed (fun r => eq_refl) Ed Hown) as Hr.
    rewrite Hpud in Hr.
    specialize (Htail _ _ n1 Hr Hu1). cbv zeta in Htail.
    change (dad_subs_update s u upd_want upd_priv) with (ds_subs (dupd u fr) s).
    exact Htail.
  - (* nothing to write: the cache entry is rewritten with the same value *)
    assert (Hp1 : p1 = p0).
    { unfold p1, upd_want in *. destruct upd_priv; [discriminate|].
      destruct (w1 =? oldw)%N eqn:E; [|discriminate]. apply N.eqb_eq in E. rewrite E. destruct p0; reflexivity. }
    cbn [negb].
    assert (Hi1 : dinv_loaded sm s (kc_users (aset u p1) c)).
    { rewrite Hp1. destruct Hinv as [[C1 [C2 [C3 [C4 [C5 [C6 C7]]]]]] Hs]. split.
      - unfold coherent_cache. cbn [kc_users k_auth k_anon k_pub k_tru k_tags k_owner k_users].
        repeat split; try assumption; apply (ua_aset_same _ _ u p0 C7 El).
      - apply sess_ok_users; [|exact Hs]. intros a Ha. rewrite dl_alookup_aset. destruct (N.eqb a u); [discriminate|exact Ha]. }
    specialize (Htail s _ n (conj Hwf Hi1) Hu1). cbv zeta in Htail. exact Htail.
Qed.

Lemma this_user_sub_inv sm f s c n u root priv :
  wf_store s -> dinv_loaded sm s c -> u <> 0%N -> resub_trigger s u priv = false ->
  let hr := d_this_user_sub f s c n u root priv in
  wf_store (dh_st (fst hr)) /\ dinv_loaded sm (dh_st (fst hr)) (dh_ca (fst hr)) /\
  (forall ch, snd hr = DSubOk ch -> alookup u (k_users (dh_ca (fst hr))) <> None).
Proof.
  intros Hwf Hinv Hu Ht. destruct (alookup u (k_users c)) as [p0|] eqn:El.
  - eapply this_user_sub_old_inv; eassumption.
  - apply this_user_sub_new_inv; assumption.
Qed.

Lemma sub_reply_inv sm f s c n sid u root priv :
  wf_store s -> dinv_loaded sm s c -> u <> 0%N -> u = dsess_uid sm sid -> resub_trigger s u priv = false ->
  let h := d_sub_reply f s c n sid u root priv in wf_store (dh_st h) /\ dinv_loaded sm (dh_st h) (dh_ca h).
Proof.
  intros Hwf Hinv Hu Hsm Ht. cbv zeta. unfold d_sub_reply.
  pose proof (this_user_sub_inv sm f s c n u root priv Hwf Hinv Hu Ht) as H. cbv zeta in H.
  destruct (d_this_user_sub f s c n u root priv) as [h r]. cbn [fst snd] in H.
  destruct H as [H1 [H2 H3]].
  destruct r as [code|ch]; cbn [dh_st dh_ca]; [split; assumption|].
  split; [exact H1|].
  destruct (match ch with Some (w, g) => is_joiner (N.land g w) | None => true end); [|exact H2].
  destruct H2 as [Hc Hs]. split; [exact Hc|].
  unfold sess_ok in *. cbn [kc_sess k_sess k_users]. apply forall_aset; [|exact Hs].
  cbn [fst snd]. split; [exact Hsm|]. apply (H3 ch eq_refl).
Qed.

(* ------------------------------------------------------------------ *)
(* replyLeaveUnsub                                                       *)
Lemma leave_unsub_inv sm f s c n sid u :
  wf_store s -> dinv_loaded sm s c ->
  let h := d_leave_unsub f s c n sid u in wf_store (dh_st h) /\ dinv_loaded sm (dh_st h) (dh_ca h).
Proof.
  intros Hwf Hinv. cbv zeta. unfold d_leave_unsub.
  destruct (N.eqb (k_owner c) u) eqn:Eo; [dsame|]. apply N.eqb_neq in Eo.
  destruct (call f n) as [ok1 n1]. destruct ok1; cbn [negb]; [|dsame].
  unfold dad_subs_delete, dad_sub_get.
  destruct (dfind u (d_subs s)) as [r0|] eqn:Ef; [|dsame].
  destruct (r_deleted r0) eqn:Ed; cbn [andb negb]; [dsame|].
  pose proof (row_delete_inv sm s c u r0 Hwf Hinv Ef Ed Eo) as Hr. cbv zeta in Hr.
  unfold d_evict. cbn [dh_st dh_ca]. exact Hr.
Qed.

(* replyOfflineTopicSetSub: the store only *)
Lemma offline_set_desc_wf f s sid u priv : wf_store s -> wf_store (do_st (d_offline_set_desc f s sid u priv)).
Proof.
  intros Hwf. unfold d_offline_set_desc.
  destruct (priv =? 0)%N; [exact Hwf|].
  destruct (call f 0) as [ok1 n1]. destruct ok1; cbn [negb]; [|exact Hwf].
  destruct (dad_sub_get s u false); [|exact Hwf].
  destruct (call f n1) as [ok2 n2]. destruct ok2; cbn [negb do_st]; [|exact Hwf].
  apply wf_subs_update, Hwf.
Qed.

Lemma offline_get_desc_st f s sid u : do_st (d_offline_get_desc f s sid u) = s.
Proof.
  unfold d_offline_get_desc.
  destruct (call f 0) as [ok1 n1]. destruct ok1; cbn [negb]; [|reflexivity].
  destruct (call f n1) as [ok2 n2]. destruct ok2; cbn [negb]; [|reflexivity].
  destruct (dad_sub_get s u false); reflexivity.
Qed.

(* ------------------------------------------------------------------ *)
(* the triggers of the three reproduced divergences (findings/C08_desc.md):
   T1 offline-setdesc-stale-cache: {set desc private} from a session that is not attached while the
      topic is loaded and the requester has a live subscription;
   T2 setdesc-partly-stored: the second adapter call of an attached {set desc} fails (FailAt 2);
   T3 resubscribe-stale-private: {sub} of a user whose soft-deleted row holds another private value. *)
Definition dtrigger (sm : dsessmap) (f : fault) (x : dstate) (o : dop) : bool :=
  match o with
  | DSub sid priv =>
    match dca x with
    | Some c => negb (dattached c sid) && resub_trigger (dst x) (dsess_uid sm sid) priv
    | None => resub_trigger (dst x) (dsess_uid sm sid) priv
    end
  | DSetDesc sid _ _ _ priv =>
    match dca x with
    | Some c =>
      if dattached c sid then match f with FailAt 2 => true | _ => false end
      else negb (priv =? 0)%N && match dad_sub_get (dst x) (dsess_uid sm sid) false with Some _ => true | None => false end
    | None => false
    end
  | _ => false
  end.

Lemma try_load_cases f s n : (exists n1, d_try_load f s n = (n1, None)) \/ (exists n1, d_try_load f s n = (n1, Some (dload s))).
Proof.
  unfold d_try_load. destruct (call f n) as [ok1 n1]. destruct ok1; cbn [negb]; [|left; eexists; reflexivity].
  destruct (call f n1) as [ok2 n2]. destruct ok2; cbn [negb]; [right|left]; eexists; reflexivity.
Qed.

Lemma fails_no_second f : f <> FailAt 2 -> (forall k, f <> CrashAt k) -> fails f 2 = false.
Proof.
  intros H1 H2. destruct f as [|k|k]; [reflexivity| |exfalso; apply (H2 k); reflexivity].
  cbn [fails]. destruct (Nat.eqb 2 k) eqn:E; [|reflexivity]. apply Nat.eqb_eq in E. subst k. contradiction.
Qed.

(* the handler-level step: the store stays well-formed whatever the fault plan; the loaded
   invariant is kept unless the fault plan is a crash (then the cache is dropped by dstep_f) *)
Lemma dstep_inv sm f x o :
  dinv sm x -> dtrigger sm f x o = false ->
  wf_store (dst (fst (dstep sm f x o))) /\
  ((forall k, f <> CrashAt k) -> dinv sm (fst (dstep sm f x o))).
Proof.
  intros [Hwf Hca] Ht.
  assert (Hkeep : forall o', wf_store (dst (fst (mkDState (dst x) (dca x) 0, o' : dout))) /\
                             ((forall k, f <> CrashAt k) -> dinv sm (fst (mkDState (dst x) (dca x) 0, o' : dout)))).
  { intros o'. cbn [fst dst dca]. split; [exact Hwf|]. intros _. split; assumption. }
  assert (Hnone : wf_store (dst (fst (mkDState (dst x) None 0, [] : dout))) /\
                  ((forall k, f <> CrashAt k) -> dinv sm (fst (mkDState (dst x) None 0, [] : dout)))).
  { cbn [fst dst dca]. split; [exact Hwf|]. intros _. split; [exact Hwf|exact I]. }
  assert (Hfin : forall h, (wf_store (dh_st h) /\ dinv_loaded sm (dh_st h) (dh_ca h)) ->
     wf_store (dst (fst (mkDState (dh_st h) (Some (dh_ca h)) (dh_n h), dh_out h))) /\
     ((forall k, f <> CrashAt k) -> dinv sm (fst (mkDState (dh_st h) (Some (dh_ca h)) (dh_n h), dh_out h)))).
  { intros h [H1 H2]. cbn [fst dst dca]. split; [exact H1|]. intros _. split; assumption. }
  unfold dstep.
  destruct o as [sid priv|sid unsub|sid defacs pub tru priv|sid tags|sid|sid| |]; cbn [dop_sid].
  - (* DSub *)
    destruct (dsess_uid sm sid =? 0)%N eqn:Eu; [apply Hkeep|]. apply N.eqb_neq in Eu.
    destruct (dca x) as [c|] eqn:Ec.
    + destruct (dattached c sid) eqn:Ea; [apply Hkeep|].
      apply Hfin. unfold dtrigger in Ht. rewrite Ec, Ea in Ht. cbn [negb andb] in Ht.
      apply sub_reply_inv; auto.
    + unfold dtrigger in Ht. rewrite Ec in Ht.
      destruct (try_load_cases f (dst x) 0) as [[n1 E]|[n1 E]]; rewrite E.
      * cbn [fst dst dca]. split; [exact Hwf|]. intros _. split; [exact Hwf|exact I].
      * apply Hfin. apply sub_reply_inv; auto. apply dinv_load, Hwf.
  - (* DLeave *)
    destruct (dsess_uid sm sid =? 0)%N eqn:Eu; [apply Hkeep|].
    destruct (dca x) as [c|] eqn:Ec; [|apply Hkeep].
    destruct (dattached c sid) eqn:Ea; [|apply Hkeep].
    destruct unsub.
    + apply Hfin. apply leave_unsub_inv; assumption.
    + apply Hfin. cbn [dh_st dh_ca]. split; [exact Hwf|]. destruct Hca as [Hc Hs]. split; [exact Hc|].
      unfold sess_ok in *. cbn [kc_sess k_sess k_users]. apply forall_aremove, Hs.
  - (* DSetDesc *)
    destruct (dsess_uid sm sid =? 0)%N eqn:Eu; [apply Hkeep|].
    unfold dtrigger in Ht.
    destruct (dca x) as [c|] eqn:Ec.
    + destruct (dattached c sid) eqn:Ea.
      * cbn [fst dst dca dh_st dh_ca].
        split; [apply set_desc_wf; [exact Hwf|apply Hca]|].
        intros Hnc.
        assert (Hf2 : fails f 2 = false).
        { apply fails_no_second; [|exact Hnc]. intros ->. discriminate. }
        pose proof (set_desc_inv sm f (dst x) c sid (dsess_uid sm sid) (dsess_root sm sid) defacs pub tru priv Hwf Hca
                      (sess_ok_attached sm c sid (proj2 Hca) Ea) Hf2) as Hsd. cbv zeta in Hsd.
        split; cbn [dst dca]; apply Hsd.
      * cbn [fst dst dca]. split; [apply offline_set_desc_wf, Hwf|]. intros _.
        (* the trigger is off: nothing is written *)
        assert (Hst : do_st (d_offline_set_desc f (dst x) sid (dsess_uid sm sid) priv) = dst x).
        { unfold d_offline_set_desc. destruct (priv =? 0)%N eqn:Ep; [reflexivity|].
          cbn [negb andb] in Ht.
          destruct (call f 0) as [ok1 n1]. destruct ok1; cbn [negb]; [|reflexivity].
          destruct (dad_sub_get (dst x) (dsess_uid sm sid) false); [discriminate|reflexivity]. }
        split; cbn [dst dca]; rewrite Hst; assumption.
    + cbn [fst dst dca]. split; [apply offline_set_desc_wf, Hwf|]. intros _.
      split; cbn [dst dca]; [apply offline_set_desc_wf, Hwf|exact I].
  - (* DSetTags *)
    destruct (dsess_uid sm sid =? 0)%N eqn:Eu; [apply Hkeep|].
    destruct (dca x) as [c|] eqn:Ec; [|apply Hkeep].
    destruct (dattached c sid) eqn:Ea; [|apply Hkeep].
    apply Hfin. apply set_tags_inv; assumption.
  - (* DGetDesc *)
    destruct (dsess_uid sm sid =? 0)%N eqn:Eu; [apply Hkeep|].
    destruct (dca x) as [c|] eqn:Ec.
    + destruct (dattached c sid) eqn:Ea.
      * apply Hfin. cbn [dh_st dh_ca]. split; assumption.
      * cbn [fst dst dca]. rewrite offline_get_desc_st. split; [exact Hwf|]. intros _. split; assumption.
    + cbn [fst dst dca]. rewrite offline_get_desc_st. split; [exact Hwf|]. intros _. split; [exact Hwf|exact I].
  - (* DGetTags *)
    destruct (dsess_uid sm sid =? 0)%N eqn:Eu; [apply Hkeep|].
    destruct (dca x) as [c|] eqn:Ec; [|apply Hkeep].
    destruct (dattached c sid) eqn:Ea; [|apply Hkeep].
    apply Hfin. cbn [dh_st dh_ca]. split; assumption.
  - (* DUnload *)
    destruct (dca x) as [c|] eqn:Ec; [|apply Hkeep].
    destruct (k_sess c); [apply Hnone|apply Hkeep].
  - apply Hnone.
Qed.

Theorem dstep_f_inv sm f x o : dinv sm x -> dtrigger sm f x o = false -> dinv sm (fst (dstep_f sm x (f, o))).
Proof.
  intros Hi Ht. destruct (dstep_inv sm f x o Hi Ht) as [H1 H2]. unfold dstep_f. cbn [fst snd].
  destruct (dstep sm f x o) as [x1 o1]. cbn [fst] in *.
  destruct f as [|k|k]; cbn [fst].
  - apply H2. discriminate.
  - apply H2. discriminate.
  - split; [exact H1|exact I].
Qed.

(* ------------------------------------------------------------------ *)
(* histories                                                            *)
Fixpoint dbenign (sm : dsessmap) (x : dstate) (h : list (fault * dop)) : Prop :=
  match h with
  | [] => True
  | fo :: r => dtrigger sm (fst fo) x (snd fo) = false /\ dbenign sm (fst (dstep_f sm x fo)) r
  end.

Theorem drun_inv sm h : forall x, dinv sm x -> dbenign sm x h -> dinv sm (fst (drun sm x h)).
Proof.
  induction h as [|[f o] r IH]; intros x Hi Hb; [exact Hi|].
  cbn [drun]. destruct Hb as [Ht Hb]. cbn [fst snd] in Ht.
  pose proof (dstep_f_inv sm f x o Hi Ht) as H1.
  destruct (dstep_f sm x (f, o)) as [x1 o1] eqn:E. cbn [fst] in *.
  specialize (IH x1 H1 Hb). destruct (drun sm x1 r) as [x2 os]. exact IH.
Qed.

(* ------------------------------------------------------------------ *)
(* reload: the cache rebuilt by the load path, the same sessions attached *)
Definition dreload (x : dstate) : dstate :=
  mkDState (dst x) (match dca x with Some c => Some (kc_sess (fun _ => k_sess c) (dload (dst x))) | None => None end) (dncalls x).

Definition is_query (o : dop) : bool := match o with DGetDesc _ | DGetTags _ => true | _ => false end.

Theorem reload_invisible_query sm f x q :
  coherent_desc x -> is_query q = true -> snd (dstep sm f x q) = snd (dstep sm f (dreload x) q).
Proof.
  intros [Hwf Hc] Hq. destruct q; try discriminate; unfold dstep, dreload; cbn [dop_sid dst dca].
  - destruct (dsess_uid sm sid =? 0)%N; [reflexivity|].
    destruct (dca x) as [c|]; [|reflexivity].
    unfold dattached. cbn [kc_sess k_sess].
    destruct (alookup sid (k_sess c)); [|reflexivity].
    cbn [snd dh_out]. unfold d_get_desc.
    destruct Hc as [C1 [C2 [C3 [C4 [C5 [C6 [C7 _]]]]]]].
    cbn [kc_sess k_users k_pub k_tru k_auth k_anon dload load_desc] in *.
    rewrite C7, C1, C2, C3, C4. reflexivity.
  - destruct (dsess_uid sm sid =? 0)%N; [reflexivity|].
    destruct (dca x) as [c|]; [|reflexivity].
    unfold dattached. cbn [kc_sess k_sess].
    destruct (alookup sid (k_sess c)); [|reflexivity].
    cbn [snd dh_out]. unfold d_get_tags.
    destruct Hc as [C1 [C2 [C3 [C4 [C5 [C6 _]]]]]].
    cbn [kc_sess k_tags k_owner dload load_desc] in *.
    rewrite C5, C6. reflexivity.
Qed.

(* ... after any history without the triggers, from any well-formed store *)
Theorem reload_invisible_after sm h s f q :
  wf_store s -> dbenign sm (mkDState s None 0) h -> is_query q = true ->
  let x := fst (drun sm (mkDState s None 0) h) in
  snd (dstep sm f x q) = snd (dstep sm f (dreload x) q).
Proof.
  intros Hwf Hb Hq x. apply reload_invisible_query; [|exact Hq].
  apply (dinv_coherent sm). apply drun_inv; [|exact Hb]. split; [exact Hwf|exact I].
Qed.

(* ------------------------------------------------------------------ *)
(* ack => stored                                                        *)
Definition val_after (old arg : N) : N := if (arg =? 0)%N then old else if (arg =? 1)%N then 0%N else arg.
Definition acs_after (old : N) (arg : option N) : N :=
  let v := acs_arg_val arg in if (v =? ModeUnset)%N then old else v.

Lemma merge_val_after old arg : (if snd (merge_val old arg) then fst (merge_val old arg) else old) = val_after old arg.
Proof.
  unfold merge_val, val_after. destruct (arg =? 0)%N; [reflexivity|].
  destruct (arg =? 1)%N; cbn [fst snd]; [|reflexivity].
  destruct (old =? 0)%N eqn:E; cbn [negb]; [apply N.eqb_eq in E; exact E|reflexivity].
Qed.

Definition acked (sid : N) (o : dout) : Prop := In (sid, DCtrl 200) o.

Theorem ack_tags_stored sm f x sid tags :
  acked sid (snd (dstep sm f x (DSetTags sid tags))) ->
  normalize_tags tags = Some (d_tags (dst (fst (dstep sm f x (DSetTags sid tags))))).
Proof.
  unfold acked, dstep. cbn [dop_sid].
  destruct (dsess_uid sm sid =? 0)%N; [intros []|].
  destruct (dca x) as [c|]; [|cbn; intros [H|[]]; inversion H].
  destruct (dattached c sid); [|cbn; intros [H|[]]; inversion H].
  cbn [fst snd dst]. unfold d_set_tags.
  destruct (negb (N.eqb (k_owner c) (dsess_uid sm sid))); [cbn; intros [H|[]]; inversion H|].
  destruct (normalize_tags tags) as [t|]; [|cbn; intros [H|[]]; inversion H].
  destruct (negb (restricted_eq (k_tags c) t)); [cbn; intros [H|[]]; inversion H|].
  destruct (tags_differ (k_tags c) t); [|cbn; intros [H|[]]; inversion H].
  destruct (call f 0) as [ok n1]. destruct ok; cbn [negb]; [|cbn; intros [H|[]]; inversion H].
  intros _. reflexivity.
Qed.

(* what an acknowledged {set desc} must have left in the store *)
Definition desc_stored (s s' : dstore) (u : N) (defacs : option (option N * option N)) (pub tru priv : N) : Prop :=
  d_auth s' = acs_after (d_auth s) (match defacs with Some (a, _) => a | None => None end) /\
  d_anon s' = acs_after (d_anon s) (match defacs with Some (_, n) => n | None => None end) /\
  d_pub s' = val_after (d_pub s) pub /\ d_tru s' = val_after (d_tru s) tru /\
  (priv <> 0%N -> forall r, dfind u (d_subs s) = Some r ->
     exists r', dfind u (d_subs s') = Some r' /\ r_priv r' = val_after (r_priv r) priv).

Lemma assign_access_after c defacs acc :
  assign_access c defacs = Some acc ->
  (match acc with Some (a, _) => a | None => k_auth c end) = acs_after (k_auth c) (match defacs with Some (a, _) => a | None => None end) /\
  (match acc with Some (_, n) => n | None => k_anon c end) = acs_after (k_anon c) (match defacs with Some (_, n) => n | None => None end).
Proof.
  unfold assign_access, acs_after. destruct defacs as [[a n]|]; [|intros H; inversion H; subst; cbn; auto].
  destruct (match n with Some _ => acs_arg_invalid n | None => acs_arg_invalid a end); [discriminate|].
  destruct (is_owner (acs_arg_val a) || is_owner (acs_arg_val n)); [discriminate|].
  destruct (acs_arg_val a =? ModeUnset)%N eqn:Ea; destruct (acs_arg_val n =? ModeUnset)%N eqn:En;
    rewrite ?N.eqb_refl; cbn [negb orb].
  - intros H; inversion H; subst; auto.
  - destruct (negb (acs_arg_val n =? k_anon c)%N) eqn:E; intros H; inversion H; subst; split; auto.
    apply negb_false_iff, N.eqb_eq in E. auto.
  - destruct (negb (acs_arg_val a =? k_auth c)%N) eqn:E; cbn [orb]; intros H; inversion H; subst; split; auto.
    apply negb_false_iff, N.eqb_eq in E. auto.
  - destruct (negb (acs_arg_val a =? k_auth c)%N || negb (acs_arg_val n =? k_anon c)%N) eqn:E; intros H; inversion H; subst; split; auto.
    + apply orb_false_elim in E. destruct E as [E _]. apply negb_false_iff, N.eqb_eq in E. auto.
    + apply orb_false_elim in E. destruct E as [_ E]. apply negb_false_iff, N.eqb_eq in E. auto.
Qed.

Lemma plan_fields c u root defacs pub tru priv p :
  d_set_desc_plan c u root defacs pub tru priv = inr p ->
  (match pl_acc p with Some (a, _) => a | None => k_auth c end) = acs_after (k_auth c) (match defacs with Some (a, _) => a | None => None end) /\
  (match pl_acc p with Some (_, n) => n | None => k_anon c end) = acs_after (k_anon c) (match defacs with Some (_, n) => n | None => None end) /\
  (match pl_pub p with Some v => v | None => k_pub c end) = val_after (k_pub c) pub /\
  (match pl_tru p with Some v => v | None => k_tru c end) = val_after (k_tru c) tru /\
  pl_prv p = fst (merge_val (q_priv (dget_pud c u)) priv) /\ pl_prch p = snd (merge_val (q_priv (dget_pud c u)) priv).
Proof.
  unfold d_set_desc_plan.
  destruct (negb (tru =? 0)%N && negb root); [discriminate|].
  destruct (N.eqb (k_owner c) u) eqn:Eo; cbn [negb andb].
  - destruct (assign_access c defacs) as [acc|] eqn:Ea; [|discriminate].
    pose proof (merge_val_after (k_pub c) pub) as Hp. pose proof (merge_val_after (k_tru c) tru) as Htr.
    destruct (merge_val (k_pub c) pub) as [pv pch]. destruct (merge_val (k_tru c) tru) as [tv tch].
    destruct (merge_val (q_priv (dget_pud c u)) priv) as [prv prch]. cbn [fst snd] in *.
    match goal with |- (if ?b then _ else _) = _ -> _ => destruct b end; [discriminate|].
    intros H. inversion H; subst. cbn [pl_acc pl_pub pl_tru pl_prv pl_prch].
    destruct (assign_access_after c defacs acc Ea) as [A1 A2].
    repeat split; try assumption.
    + destruct pch; exact Hp.
    + destruct tch; exact Htr.
  - destruct (match defacs with Some _ => true | None => false end || negb (pub =? 0)%N || negb (tru =? 0)%N) eqn:Ed; [discriminate|].
    apply orb_false_elim in Ed. destruct Ed as [Ed Et]. apply orb_false_elim in Ed. destruct Ed as [Ed Ep].
    destruct defacs; [discriminate|].
    apply negb_false_iff in Ep, Et.
    destruct (merge_val (q_priv (dget_pud c u)) priv) as [prv prch]. cbn [fst snd].
    match goal with |- (if ?b then _ else _) = _ -> _ => destruct b end; [discriminate|].
    intros H. inversion H; subst. cbn [pl_acc pl_pub pl_tru pl_prv pl_prch].
    unfold val_after, acs_after. rewrite Ep, Et. cbn. repeat split.
Qed.

Theorem ack_desc_stored_attached sm f x c sid defacs pub tru priv :
  dinv sm x -> dca x = Some c -> dattached c sid = true -> dsess_uid sm sid <> 0%N ->
  acked sid (snd (dstep sm f x (DSetDesc sid defacs pub tru priv))) ->
  desc_stored (dst x) (dst (fst (dstep sm f x (DSetDesc sid defacs pub tru priv)))) (dsess_uid sm sid) defacs pub tru priv.
Proof.
  intros [Hwf Hinv] Ec Ea Hu. unfold acked, dstep. cbn [dop_sid]. rewrite Ec in *.
  apply N.eqb_neq in Hu. rewrite Hu, Ea. cbn [fst snd dst].
  set (u := dsess_uid sm sid) in *.
  unfold d_set_desc.
  destruct (d_set_desc_plan c u (dsess_root sm sid) defacs pub tru priv) as [code|p] eqn:Ep.
  - (* rejected or not modified: the reply code is not 200 *)
    cbn [dh_out dh_st]. intros [H|[]]. inversion H; subst.
    exfalso. revert Ep. unfold d_set_desc_plan.
    repeat match goal with
           | |- context [if ?b then _ else _] => destruct b
           | |- context [match ?m with Some _ => _ | None => _ end] => destruct m
           | |- context [let '(_, _) := ?m in _] => destruct m
           end; try discriminate.
    all: try (match goal with p : _ * _ |- _ => destruct p end); try discriminate.
    all: repeat match goal with
           | |- context [if ?b then _ else _] => destruct b
           | |- context [let '(_, _) := ?m in _] => destruct m
           end; discriminate.
  - destruct (plan_fields c u _ defacs pub tru priv p Ep) as [P1 [P2 [P3 [P4 [P5 P6]]]]].
    destruct Hinv as [[C1 [C2 [C3 [C4 [C5 [C6 C7]]]]]] Hs].
    cbn [load_desc dload k_auth k_anon k_pub k_tru] in C1, C2, C3, C4.
    unfold d_set_desc_exec.
    assert (Hnc : pl_ncore p = false -> pl_acc p = None /\ pl_pub p = None /\ pl_tru p = None).
    { unfold pl_ncore. destruct (pl_acc p), (pl_pub p), (pl_tru p); try discriminate; auto. }
    destruct (if pl_ncore p then call f 0 else (true, 0%nat)) as [ok1 n1].
    destruct ok1; cbn [negb]; [|cbn; intros [H|[]]; inversion H].
    destruct (if pl_prch p then call f n1 else (true, n1)) as [ok2 n2].
    destruct ok2; cbn [negb]; [|cbn; intros [H|[]]; inversion H].
    intros _. cbn [dh_st].
    set (s1 := if pl_ncore p then dad_topic_update (dst x) (pl_acc p) (pl_pub p) (pl_tru p) else dst x).
    assert (S1 : d_auth s1 = (match pl_acc p with Some (a, _) => a | None => d_auth (dst x) end) /\
                 d_anon s1 = (match pl_acc p with Some (_, n) => n | None => d_anon (dst x) end) /\
                 d_pub s1 = (match pl_pub p with Some v => v | None => d_pub (dst x) end) /\
                 d_tru s1 = (match pl_tru p with Some v => v | None => d_tru (dst x) end) /\
                 d_subs s1 = d_subs (dst x)).
    { unfold s1. destruct (pl_ncore p) eqn:En; [cbn; repeat split; destruct (pl_acc p) as [[? ?]|]; reflexivity|].
      destruct (Hnc eq_refl) as [-> [-> ->]]. repeat split. }
    destruct S1 as [S1 [S2 [S3 [S4 S5]]]].
    assert (Hf : forall s2, d_auth s2 = d_auth s1 -> d_anon s2 = d_anon s1 -> d_pub s2 = d_pub s1 -> d_tru s2 = d_tru s1 ->
       (priv <> 0%N -> forall r, dfind u (d_subs (dst x)) = Some r ->
            exists r', dfind u (d_subs s2) = Some r' /\ r_priv r' = val_after (r_priv r) priv) ->
       desc_stored (dst x) s2 u defacs pub tru priv).
    { intros s2 E1 E2 E3 E4 E5. unfold desc_stored.
      rewrite E1, E2, E3, E4, S1, S2, S3, S4, <- C1, <- C2, <- C3, <- C4. repeat split; assumption. }
    (* the requester's row *)
    pose proof (sess_ok_attached sm c sid Hs Ea) as Hcached. fold u in Hcached.
    pose proof (ua_lookup _ _ u (proj1 Hwf) C7) as Hl.
    pose proof (merge_val_after (q_priv (dget_pud c u)) priv) as Hm. rewrite <- P5, <- P6 in Hm.
    destruct (pl_prch p) eqn:Epr.
    + apply Hf; try reflexivity. intros _ r Hr. rewrite Hr in Hl.
      destruct (r_deleted r); [congruence|].
      cbn [dad_subs_update ds_subs d_subs]. rewrite S5, dfind_dupd by reflexivity. rewrite N.eqb_refl, Hr. cbn [option_map].
      eexists. split; [reflexivity|]. cbn [r_priv]. rewrite Hm.
      unfold dget_pud. rewrite Hl. reflexivity.
    + apply Hf; try reflexivity. intros _ r Hr. rewrite Hr in Hl.
      destruct (r_deleted r); [congruence|].
      rewrite S5. exists r. split; [exact Hr|]. unfold dget_pud in Hm. rewrite Hl in Hm. exact Hm.
Qed.

(* ------------------------------------------------------------------ *)
(* reject => no change                                                  *)
Definition rejected (sid : N) (o : dout) : Prop := exists code, In (sid, DCtrl code) o /\ 400 <= code.
Definition is_set_or_query (o : dop) : bool :=
  match o with DSetDesc _ _ _ _ _ | DSetTags _ _ | DGetDesc _ | DGetTags _ => true | _ => false end.

Lemma rejected_single sid code : rejected sid [(sid, DCtrl code)] -> 400 <= code.
Proof. intros [c [[H|[]] Hc]]. inversion H; subst. exact Hc. Qed.

Theorem reject_no_change sm f x o :
  dinv sm x -> fails f 2 = false -> is_set_or_query o = true ->
  rejected (dop_sid o) (snd (dstep sm f x o)) ->
  dst (fst (dstep sm f x o)) = dst x /\ dca (fst (dstep sm f x o)) = dca x.
Proof.
  intros [Hwf Hinv] Hf Hq. unfold dstep.
  destruct o as [sid priv|sid unsub|sid defacs pub tru priv|sid tags|sid|sid| |]; try discriminate; cbn [dop_sid].
  - (* DSetDesc *)
    destruct (dsess_uid sm sid =? 0)%N; [cbn; auto|].
    destruct (dca x) as [c|] eqn:Ec.
    + destruct (dattached c sid).
      * cbn [fst snd dst dca]. unfold d_set_desc.
        destruct (d_set_desc_plan c _ _ defacs pub tru priv) as [code|p]; [cbn; auto|].
        unfold d_set_desc_exec.
        destruct (pl_ncore p) eqn:En.
        -- unfold call. cbv beta iota. rewrite Hf. destruct (fails f 1); cbn [negb]; [cbn; auto|].
           destruct (pl_prch p); cbn [negb dh_out]; intros Hr; apply rejected_single in Hr; lia.
        -- destruct (pl_prch p); cbn [negb].
           ++ unfold call. cbv beta iota. destruct (fails f 1); cbn [negb]; [cbn; auto|].
              cbn [dh_out]. intros Hr; apply rejected_single in Hr; lia.
           ++ cbn [dh_out]. intros Hr; apply rejected_single in Hr; lia.
      * cbn [fst snd dst dca]. unfold d_offline_set_desc.
        destruct (priv =? 0)%N; [cbn; auto|].
        destruct (call f 0) as [ok1 n1]. destruct ok1; cbn [negb]; [|cbn; auto].
        destruct (dad_sub_get (dst x) _ false); [|cbn; auto].
        destruct (call f n1) as [ok2 n2]. destruct ok2; cbn [negb]; [|cbn; auto].
        cbn [do_out]. intros Hr; apply rejected_single in Hr; lia.
    + cbn [fst snd dst dca]. unfold d_offline_set_desc.
      destruct (priv =? 0)%N; [cbn; auto|].
      destruct (call f 0) as [ok1 n1]. destruct ok1; cbn [negb]; [|cbn; auto].
      destruct (dad_sub_get (dst x) _ false); [|cbn; auto].
      destruct (call f n1) as [ok2 n2]. destruct ok2; cbn [negb]; [|cbn; auto].
      cbn [do_out]. intros Hr; apply rejected_single in Hr; lia.
  - (* DSetTags *)
    destruct (dsess_uid sm sid =? 0)%N; [cbn; auto|].
    destruct (dca x) as [c|] eqn:Ec; [|cbn; auto].
    destruct (dattached c sid); [|cbn; auto].
    cbn [fst snd dst dca]. unfold d_set_tags.
    destruct (negb (N.eqb (k_owner c) _)); [cbn; auto|].
    destruct (normalize_tags tags) as [t|]; [|cbn; auto].
    destruct (negb (restricted_eq (k_tags c) t)); [cbn; auto|].
    assert (Hsort : nsort (k_tags c) = k_tags c).
    { destruct Hinv as [[_ [_ [_ [_ [Ht _]]]]] _]. rewrite Ht. apply ssorted_nsort_id. apply Hwf. }
    assert (Hc0 : match k_tags c, t with [], _ | _, [] => c | _, _ => kc_tags (nsort (k_tags c)) c end = c).
    { rewrite Hsort, kc_tags_id. destruct (k_tags c), t; reflexivity. }
    rewrite Hc0.
    destruct (tags_differ (k_tags c) t); [|cbn; auto].
    destruct (call f 0) as [ok n1]. destruct ok; cbn [negb]; [|cbn; auto].
    cbn [dh_out]. intros Hr; apply rejected_single in Hr; lia.
  - (* DGetDesc *)
    destruct (dsess_uid sm sid =? 0)%N; [cbn; auto|].
    destruct (dca x) as [c|] eqn:Ec.
    + destruct (dattached c sid); [cbn; auto|]. cbn [fst snd dst dca]. rewrite offline_get_desc_st. auto.
    + cbn [fst snd dst dca]. rewrite offline_get_desc_st. auto.
  - (* DGetTags *)
    destruct (dsess_uid sm sid =? 0)%N; [cbn; auto|].
    destruct (dca x) as [c|] eqn:Ec; [|cbn; auto].
    destruct (dattached c sid); cbn; auto.
Qed.

(* queries never change anything, whatever the answer and the fault plan *)
Theorem query_no_change sm f x q : is_query q = true ->
  dst (fst (dstep sm f x q)) = dst x /\ dca (fst (dstep sm f x q)) = dca x.
Proof.
  intros Hq. unfold dstep. destruct q; try discriminate; cbn [dop_sid].
  - destruct (dsess_uid sm sid =? 0)%N; [cbn; auto|].
    destruct (dca x) as [c|] eqn:Ec.
    + destruct (dattached c sid); [cbn; auto|]. cbn [fst snd dst dca]. rewrite offline_get_desc_st. auto.
    + cbn [fst snd dst dca]. rewrite offline_get_desc_st. auto.
  - destruct (dsess_uid sm sid =? 0)%N; [cbn; auto|].
    destruct (dca x) as [c|] eqn:Ec; [|cbn; auto].
    destruct (dattached c sid); cbn; auto.
Qed.

(* the offline path stores a scalar private value as it is *)
Theorem ack_desc_stored_offline sm f x sid defacs pub tru priv :
  (forall c, dca x = Some c -> dattached c sid = false) -> dsess_uid sm sid <> 0%N ->
  defacs = None -> pub = 0%N -> tru = 0%N -> priv <> 1%N ->
  acked sid (snd (dstep sm f x (DSetDesc sid defacs pub tru priv))) ->
  desc_stored (dst x) (dst (fst (dstep sm f x (DSetDesc sid defacs pub tru priv)))) (dsess_uid sm sid) defacs pub tru priv.
Proof.
  intros Hna Hu -> -> -> Hp. unfold acked, dstep. cbn [dop_sid].
  apply N.eqb_neq in Hu. rewrite Hu.
  assert (Hoff : (match dca x with Some c => if dattached c sid then Some c else None | None => None end) = None).
  { destruct (dca x) as [c|]; [rewrite (Hna c eq_refl)|]; reflexivity. }
  rewrite Hoff. cbn [fst snd dst]. unfold d_offline_set_desc.
  destruct (priv =? 0)%N eqn:E0; [cbn; intros [H|[]]; inversion H|].
  destruct (call f 0) as [ok1 n1]. destruct ok1; cbn [negb]; [|cbn; intros [H|[]]; inversion H].
  destruct (dad_sub_get (dst x) (dsess_uid sm sid) false); [|cbn; intros [H|[]]; inversion H].
  destruct (call f n1) as [ok2 n2]. destruct ok2; cbn [negb]; [|cbn; intros [H|[]]; inversion H].
  intros _. cbn [do_st]. unfold desc_stored, acs_after, val_after. cbn [acs_arg_val dad_subs_update ds_subs d_auth d_anon d_pub d_tru d_subs].
  repeat split.
  intros _ r Hr. rewrite dfind_dupd by reflexivity. rewrite N.eqb_refl, Hr. cbn [option_map].
  eexists. split; [reflexivity|]. cbn [r_priv]. rewrite E0.
  destruct (priv =? 1)%N eqn:E1; [apply N.eqb_eq in E1; contradiction|reflexivity].
Qed.

(* ------------------------------------------------------------------ *)
(* full-strength statements, their refutations by the faithful model, witnesses *)
Definition step_coherent_statement : Prop :=
  forall sm f x o, dinv sm x -> coherent_desc (fst (dstep_f sm x (f, o))).
Definition ack_implies_stored_statement : Prop :=
  forall sm f x sid defacs pub tru priv, dinv sm x -> dsess_uid sm sid <> 0%N ->
    acked sid (snd (dstep sm f x (DSetDesc sid defacs pub tru priv))) ->
    desc_stored (dst x) (dst (fst (dstep sm f x (DSetDesc sid defacs pub tru priv)))) (dsess_uid sm sid) defacs pub tru priv.
Definition reject_no_change_statement : Prop :=
  forall sm f x o, dinv sm x -> is_set_or_query o = true ->
    rejected (dop_sid o) (snd (dstep sm f x o)) ->
    dst (fst (dstep sm f x o)) = dst x /\ dca (fst (dstep sm f x o)) = dca x.

(* one group topic: owner 1, subscriber 2 (private 7), user 3 unsubscribed earlier (soft-deleted row, private 23) *)
Definition w_store : dstore :=
  mkDStore 47 0 5 0 [12%N] 1 [mkDRow 1 255 255 20 false; mkDRow 2 47 47 7 false; mkDRow 3 47 47 23 true].
Definition w_sm : dsessmap := [(1%N, (1%N, false)); (2%N, (2%N, false)); (3%N, (3%N, false)); (4%N, (1%N, true))].
Definition w_init : dstate := mkDState w_store None 0.

Lemma w_store_wf : wf_store w_store.
Proof.
  unfold wf_store, w_store. cbn [d_subs d_auth d_tags map r_user]. split; [|split; [reflexivity|cbn; auto]].
  repeat constructor; cbn; intuition discriminate.
Qed.
Lemma w_init_inv : dinv w_sm w_init.
Proof. split; [exact w_store_wf|exact I]. Qed.

Lemma coherent_users_lookup x c u : coherent_desc x -> dca x = Some c ->
  alookup u (k_users c) = alookup u (dload_users (d_subs (dst x))).
Proof. intros [_ H] E. rewrite E in H. apply H. Qed.
Lemma coherent_pub x c : coherent_desc x -> dca x = Some c -> k_pub c = d_pub (dst x).
Proof. intros [_ H] E. rewrite E in H. apply H. Qed.

(* T1: the owner is attached; session 2 (not attached) sets its private value *)
Definition w_h1 : list (fault * dop) := [(NoFault, DSub 1 0)].
Lemma w_x1_inv : dinv w_sm (fst (drun w_sm w_init w_h1)).
Proof. apply drun_inv; [exact w_init_inv|]. cbn. auto. Qed.

Lemma step_coherent_refuted_offline : ~ step_coherent_statement.
Proof.
  intros H. specialize (H w_sm NoFault _ (DSetDesc 2 None 0 0 9) w_x1_inv).
  match type of H with coherent_desc ?x => remember x as y eqn:Ey end.
  vm_compute in Ey.
  match type of Ey with _ = {| dst := _; dca := Some ?c; dncalls := _ |} =>
    pose proof (coherent_users_lookup y c 2%N H ltac:(subst y; reflexivity)) as Hl end.
  subst y. vm_compute in Hl. discriminate.
Qed.

(* T2: the owner sets public and private in one request, the second write fails *)
Lemma step_coherent_refuted_partly_stored : ~ step_coherent_statement.
Proof.
  intros H. specialize (H w_sm (FailAt 2) _ (DSetDesc 1 None 8 0 9) w_x1_inv).
  match type of H with coherent_desc ?x => remember x as y eqn:Ey end.
  vm_compute in Ey.
  match type of Ey with _ = {| dst := _; dca := Some ?c; dncalls := _ |} =>
    pose proof (coherent_pub y c H ltac:(subst y; reflexivity)) as Hl end.
  subst y. vm_compute in Hl. discriminate.
Qed.

(* T3: user 3 subscribes again; the resurrected row keeps private 23, the cache holds null *)
Lemma step_coherent_refuted_resubscribe : ~ step_coherent_statement.
Proof.
  intros H. specialize (H w_sm NoFault _ (DSub 3 0) w_x1_inv).
  match type of H with coherent_desc ?x => remember x as y eqn:Ey end.
  vm_compute in Ey.
  match type of Ey with _ = {| dst := _; dca := Some ?c; dncalls := _ |} =>
    pose proof (coherent_users_lookup y c 3%N H ltac:(subst y; reflexivity)) as Hl end.
  subst y. vm_compute in Hl. discriminate.
Qed.

(* ack => stored: {set desc private=DEL} from a session that is not attached is acknowledged and the
   DEL marker is stored as a value; {set desc public} on that path is acknowledged and dropped *)
Lemma ack_implies_stored_refuted_del : ~ ack_implies_stored_statement.
Proof.
  intros H. specialize (H w_sm NoFault _ 2%N None 0%N 0%N 1%N w_x1_inv ltac:(discriminate)).
  assert (Ha : acked 2 (snd (dstep w_sm NoFault (fst (drun w_sm w_init w_h1)) (DSetDesc 2 None 0 0 1)))) by (vm_compute; auto).
  destruct (H Ha) as [_ [_ [_ [_ Hp]]]].
  destruct (Hp ltac:(discriminate) (mkDRow 2 47 47 7 false) ltac:(reflexivity)) as [r' [Hr' Hv]].
  vm_compute in Hr'. inversion Hr'; subst r'. vm_compute in Hv. discriminate.
Qed.

Lemma ack_implies_stored_refuted_public : ~ ack_implies_stored_statement.
Proof.
  intros H. specialize (H w_sm NoFault w_init 1%N None 8%N 0%N 9%N w_init_inv ltac:(discriminate)).
  assert (Ha : acked 1 (snd (dstep w_sm NoFault w_init (DSetDesc 1 None 8 0 9)))) by (vm_compute; auto).
  destruct (H Ha) as [_ [_ [Hp _]]]. vm_compute in Hp. discriminate.
Qed.

(* reject => no change: the 500 of T2 leaves the topic row changed *)
Lemma reject_no_change_refuted : ~ reject_no_change_statement.
Proof.
  intros H. specialize (H w_sm (FailAt 2) _ (DSetDesc 1 None 8 0 9) w_x1_inv eq_refl).
  assert (Hr : rejected 1 (snd (dstep w_sm (FailAt 2) (fst (drun w_sm w_init w_h1)) (DSetDesc 1 None 8 0 9)))).
  { exists 500. vm_compute. split; [auto|discriminate]. }
  destruct (H Hr) as [Hs _]. vm_compute in Hs. discriminate.
Qed.

(* a non-trivial history outside the triggers: subscribe, change the description, tags, faults, unsubscribe,
   reload; the invariant holds at the end and the stored values are the acknowledged ones *)
Definition w_h2 : list (fault * dop) :=
  [(NoFault, DSub 1 0); (NoFault, DSub 2 0); (NoFault, DSetDesc 1 (Some (Some 15%N, None)) 8 0 9);
   (FailAt 1, DSetDesc 1 None 3 0 0); (NoFault, DSetTags 1 [113%N; 10%N; 13%N; 1%N]); (NoFault, DSetDesc 2 None 0 0 1);
   (NoFault, DSetDesc 4 None 0 6 0); (CrashAt 1, DSetTags 1 [11%N]); (NoFault, DSub 4 0); (NoFault, DGetDesc 4);
   (NoFault, DSub 2 5); (NoFault, DLeave 2 true); (NoFault, DLeave 4 false); (NoFault, DUnload); (NoFault, DSub 3 23)].
Lemma w_h2_benign : dbenign w_sm w_init w_h2.
Proof. vm_compute. repeat split. Qed.
Lemma w_h2_final :
  let x := fst (drun w_sm w_init w_h2) in
  dinv w_sm x /\ d_auth (dst x) = 15%N /\ d_pub (dst x) = 8%N /\ d_tags (dst x) = [10%N; 13%N] /\
  dca x <> None /\ snd (drun w_sm w_init [(NoFault, DSub 1 0); (NoFault, DSetDesc 1 None 8 0 9)]) = [[(1%N, DCtrl 200)]; [(1%N, DCtrl 200)]].
Proof.
  cbv zeta. split; [apply drun_inv; [exact w_init_inv|exact w_h2_benign]|].
  vm_compute. repeat split; try reflexivity; discriminate.
Qed.

(* ------------------------------------------------------------------ *)
(* the store stays well-formed under every request and every fault plan, triggers included *)
Lemma wf_sub_create s u w g p : wf_store s -> wf_store (dad_sub_create s u w g p).
Proof.
  intros [W1 [W2 W3]]. unfold dad_sub_create.
  assert (H : wf_store (match dfind u (d_subs s) with
                        | Some _ => ds_subs (dupd u (fun r => mkDRow (r_user r) w g (r_priv r) false)) s
                        | None => ds_subs (fun l => l ++ [mkDRow u w g p false]) s end)).
  { destruct (dfind u (d_subs s)) eqn:Ef; repeat split; cbn [ds_subs d_subs d_auth d_tags]; try assumption.
    - rewrite dupd_users by reflexivity. exact W1.
    - rewrite map_app. cbn [map r_user]. apply nodup_snoc; [exact W1|apply dfind_none, Ef]. }
  destruct (is_owner (N.land g w)); [|exact H].
  destruct H as [H1 [H2 H3]]. repeat split; assumption.
Qed.

Lemma this_user_sub_wf f s c n u root priv :
  wf_store s -> wf_store (dh_st (fst (d_this_user_sub f s c n u root priv))).
Proof.
  intros Hwf. unfold d_this_user_sub.
  destruct (alookup u (k_users c)) as [p0|].
  - match goal with |- context [if ?need then call f n else (true, n)] => destruct need end.
    + destruct (call f n) as [ok1 n1]. destruct ok1; cbn [negb]; [|exact Hwf].
      repeat match goal with |- context [if ?b then _ else _] => destruct b end;
        try (destruct (d_evict _ _ _ _)); cbn [fst dh_st]; apply wf_subs_update, Hwf.
    + cbn [negb].
      repeat match goal with |- context [if ?b then _ else _] => destruct b end;
        try (destruct (d_evict _ _ _ _)); cbn [fst dh_st]; exact Hwf.
  - destruct (max_subs <=? Z.of_nat (length (k_users c))); [exact Hwf|].
    destruct (call f n) as [ok1 n1]. destruct ok1; cbn [negb]; [|exact Hwf].
    match goal with |- context [if negb (is_joiner ?g) then _ else _] => destruct (negb (is_joiner g)) end; [exact Hwf|].
    match goal with |- context [if ?need then call f n1 else (true, n1)] => destruct need end.
    + destruct (call f n1) as [ok2 n2]. destruct ok2; cbn [negb]; [|exact Hwf].
      match goal with |- context [if ?b then _ else _] => destruct b end;
        try (destruct (d_evict _ _ _ _)); cbn [fst dh_st]; apply wf_sub_create, Hwf.
    + cbn [negb].
      match goal with |- context [if ?b then _ else _] => destruct b end;
        try (destruct (d_evict _ _ _ _)); cbn [fst dh_st]; exact Hwf.
Qed.

Lemma sub_reply_wf f s c n sid u root priv : wf_store s -> wf_store (dh_st (d_sub_reply f s c n sid u root priv)).
Proof.
  intros Hwf. unfold d_sub_reply. pose proof (this_user_sub_wf f s c n u root priv Hwf) as H.
  destruct (d_this_user_sub f s c n u root priv) as [h r]. cbn [fst] in H. destruct r; exact H.
Qed.

Lemma dstep_wf sm f x o : dinv sm x -> wf_store (dst (fst (dstep sm f x o))).
Proof.
  intros [Hwf Hca]. unfold dstep.
  destruct o as [sid priv|sid unsub|sid defacs pub tru priv|sid tags|sid|sid| |]; cbn [dop_sid].
  - destruct (dsess_uid sm sid =? 0)%N; [exact Hwf|].
    destruct (dca x) as [c|].
    + destruct (dattached c sid); [exact Hwf|]. apply sub_reply_wf, Hwf.
    + destruct (try_load_cases f (dst x) 0) as [[n1 E]|[n1 E]]; rewrite E; [exact Hwf|]. apply sub_reply_wf, Hwf.
  - destruct (dsess_uid sm sid =? 0)%N; [exact Hwf|].
    destruct (dca x) as [c|]; [|exact Hwf].
    destruct (dattached c sid); [|exact Hwf].
    destruct unsub; [|exact Hwf]. apply (leave_unsub_inv sm f (dst x) c 0 sid _ Hwf Hca).
  - destruct (dsess_uid sm sid =? 0)%N; [exact Hwf|].
    destruct (dca x) as [c|].
    + destruct (dattached c sid); [apply set_desc_wf; [exact Hwf|apply Hca]|apply offline_set_desc_wf, Hwf].
    + apply offline_set_desc_wf, Hwf.
  - destruct (dsess_uid sm sid =? 0)%N; [exact Hwf|].
    destruct (dca x) as [c|]; [|exact Hwf].
    destruct (dattached c sid); [|exact Hwf]. apply (set_tags_inv sm f (dst x) c 0 sid _ tags Hwf Hca).
  - destruct (dsess_uid sm sid =? 0)%N; [exact Hwf|].
    destruct (dca x) as [c|]; [destruct (dattached c sid); [exact Hwf|]|]; cbn [fst dst]; rewrite offline_get_desc_st; exact Hwf.
  - destruct (dsess_uid sm sid =? 0)%N; [exact Hwf|].
    destruct (dca x) as [c|]; [|exact Hwf]. destruct (dattached c sid); exact Hwf.
  - destruct (dca x) as [c|]; [|exact Hwf]. destruct (k_sess c); exact Hwf.
  - exact Hwf.
Qed.

(* after a crash during ANY request (triggers included) the state is coherent: the cache is gone
   and the next load builds it from the store *)
Theorem crash_coherent sm k x o : dinv sm x -> dinv sm (fst (dstep_f sm x (CrashAt k, o))).
Proof.
  intros Hi. pose proof (dstep_wf sm (CrashAt k) x o Hi) as H. unfold dstep_f. cbn [fst snd].
  destruct (dstep sm (CrashAt k) x o) as [x1 o1]. cbn [fst] in *. split; [exact H|exact I].
Qed.
