(* Laws of the stateful tag layer (TagState.v), for every configuration of
   reserved namespaces and maxTagCount, every world and every sequence of
   requests (no bound on lengths):
     - the cached tags of a loaded topic are always a permutation of the row
       (and equal to it in a world whose rows are normalised);
     - an accepted {set tags} stores exactly the normalised request, and rows
       stay normalised through every sequence of client tag requests;
     - client requests never change the reserved-namespace tags of a row, and a
       holder created by a client has none except those of the authenticator;
     - a rejected request is invisible: same rows, same cached tags, same
       answers to every later sequence of requests. *)
From Coq Require Import NArith List Bool Lia Arith Permutation.
From Coq Require Import ZifyBool ZifyNat ZifyN.
Require Import Tinode.Pure.Query Tinode.Pure.Tags Tinode.Pure.TagsProofs Tinode.Sys.TagState.
Import ListNotations.
Open Scope N_scope.

(* ---------- worlds ---------- *)
Lemma lookup_put_same h v w : lookup h (put h v w) = Some v.
Proof. unfold put. cbn [lookup]. now rewrite N.eqb_refl. Qed.

Lemma lookup_put_other h k v w : k <> h -> lookup k (put h v w) = lookup k w.
Proof.
  intros Hne. unfold put. cbn [lookup]. destruct (h =? k) eqn:E; [|reflexivity].
  apply N.eqb_eq in E. congruence.
Qed.

Lemma lookup_put h k v w : lookup k (put h v w) = if h =? k then Some v else lookup k w.
Proof. reflexivity. Qed.

(* ---------- small list facts ---------- *)
Lemma mem_in x l : mem x l = true <-> In x l.
Proof.
  induction l as [|y l IH]; cbn; [split; [discriminate|intros []]|].
  rewrite orb_true_iff, IH, list_eqb_eq. split; intros [H|H]; auto.
Qed.

Lemma add_missing_in add : forall cur t, In t (add_missing add cur) -> In t cur \/ In t add.
Proof.
  induction add as [|a add IH]; intros cur t H; cbn [add_missing] in H; [now left|].
  apply IH in H as [H|H]; [|right; now right].
  destruct (mem a cur); [now left|]. apply in_app_or in H as [H|[<-|[]]]; [now left|right; now left].
Qed.

Lemma add_missing_present add : forall cur, (forall t, In t add -> In t cur) -> add_missing add cur = cur.
Proof.
  induction add as [|a add IH]; intros cur H; cbn [add_missing]; [reflexivity|].
  assert (E : mem a cur = true) by (apply mem_in, H; now left). rewrite E.
  apply IH. intros t Ht. apply H. now right.
Qed.

Lemma in_update_tags cur add rm t : In t (update_tags cur add rm) -> In t cur \/ In t add.
Proof.
  unfold update_tags. intros H. apply (Permutation_in _ (sort_perm _)) in H.
  apply filter_In in H as [H _]. now apply add_missing_in.
Qed.

Lemma filter_true {A} (f : A -> bool) l : (forall x, In x l -> f x = true) -> filter f l = l.
Proof.
  induction l as [|x l IH]; intros H; cbn; [reflexivity|].
  rewrite (H x (or_introl eq_refl)), IH; [reflexivity|]. intros y Hy. apply H. now right.
Qed.

Lemma update_tags_same cur : ssorted cur -> update_tags cur cur [] = cur.
Proof.
  intros Hs. unfold update_tags. rewrite add_missing_present by auto.
  rewrite filter_true by reflexivity. now apply sort_ssorted_id.
Qed.

Lemma filter_perm {A} (f : A -> bool) a b : Permutation a b -> Permutation (filter f a) (filter f b).
Proof.
  induction 1; cbn.
  - constructor.
  - destruct (f x); [now constructor|assumption].
  - destruct (f x), (f y); try reflexivity. apply perm_swap.
  - etransitivity; eassumption.
Qed.

Lemma delta_args_perm old new :
  Permutation (fst (delta_args_after old new)) old /\ Permutation (snd (delta_args_after old new)) new.
Proof.
  unfold delta_args_after. destruct old as [|o os], new as [|n ns]; cbn [fst snd]; split; try reflexivity; apply sort_perm.
Qed.

Lemma delta_args_ssorted old new :
  (ssorted old -> fst (delta_args_after old new) = old) /\ (ssorted new -> snd (delta_args_after old new) = new).
Proof.
  unfold delta_args_after. destruct old as [|o os], new as [|n ns]; cbn [fst snd]; split; intros H; try reflexivity;
    now apply sort_ssorted_id.
Qed.

Section TagStateLaws.
  Variable lower : N -> N.
  Variable is_letter : N -> bool.
  Variable is_digit : N -> bool.
  Variable is_number : N -> bool.
  Hypothesis lower_idem : forall r, lower (lower r) = lower r.
  Hypothesis lower_space : forall r, is_space (lower r) = is_space r.
  Variable c : cfg.

  Notation normalize := (normalize_tags lower is_letter is_digit (c_max c)).
  Notation requal := (restricted_tags_equal is_letter is_number).
  Notation fr l := (filter_restricted is_letter is_number l (c_ns c)).
  Notation restricted := (restricted is_letter is_number (c_ns c)).
  Notation step := (step lower is_letter is_digit is_number c).
  Notation run := (run lower is_letter is_digit is_number c).
  Notation set_core := (set_core lower is_letter is_digit is_number c).
  Notation set_tags := (set_tags lower is_letter is_digit is_number c).
  Notation new_grp := (new_grp lower is_letter is_digit is_number c).
  Notation new_user := (new_user lower is_letter is_digit is_number c).
  Notation tag_valid := (tag_valid lower is_letter is_digit).

  Lemma fr_perm a b : Permutation a b -> Permutation (fr a) (fr b).
  Proof.
    intros H. unfold filter_restricted. destruct (is_nil (c_ns c)); [constructor|]. now apply filter_perm.
  Qed.

  Lemma requal_nil_no_restricted l : requal l [] (c_ns c) = true -> forall t, In t l -> restricted t = false.
  Proof.
    intros H t Ht. destruct (Tags.restricted is_letter is_number (c_ns c) t) eqn:E; [|reflexivity].
    exfalso. apply restricted_equal_sound in H.
    assert (X : In t (fr l)) by (apply in_filter_restricted; auto).
    apply (Permutation_in _ H) in X. apply in_filter_restricted in X as [[] _].
  Qed.

  (* ---------- "normalised" ---------- *)
  Definition norm_list (l : list tag) : Prop :=
    ssorted l /\ (length l <= c_max c)%nat /\ forall t, In t l -> tag_valid t.

  Lemma norm_list_nil : norm_list [].
  Proof. split; [exact I|]. split; [cbn; lia|intros t []]. Qed.

  Lemma norm_list_normalize tags : norm_list (TagState.content (normalize tags)).
  Proof.
    change (TagState.content (normalize tags)) with (TagsProofs.content (normalize tags)).
    split; [apply norm_sorted|]. split; [apply norm_count|].
    apply norm_each_tag_valid; assumption.
  Qed.

  Lemma norm_list_nodup l : norm_list l -> NoDup l.
  Proof. intros [H _]. now apply ssorted_nodup. Qed.

  (* ---------- the {set tags} handler: the four outcomes ---------- *)
  Lemma set_core_cases grp owner store cache who fail tags s' c' a :
    set_core grp owner store cache who fail tags = (s', c', a) ->
    (a = RCtrl 403 0 0 /\ s' = store /\ c' = cache) \/
    (a = RCtrl 304 0 0 /\ s' = store /\ Permutation c' cache /\ (ssorted cache -> c' = cache)) \/
    (a = RCtrl 500 0 0 /\ fail = true /\ s' = store /\ Permutation c' cache /\ (ssorted cache -> c' = cache)) \/
    (exists added removed, a = RCtrl 200 added removed /\ fail = false /\
       normalize tags = Some s' /\ c' = s' /\ requal cache s' (c_ns c) = true).
  Proof.
    unfold TagState.set_core.
    destruct (grp && negb (owner =? who)); [intros H; inversion H; now left|].
    destruct (normalize tags) as [t|] eqn:En.
    2:{ intros H; inversion H; subst. right; left. repeat split; auto. }
    destruct (negb (requal cache t (c_ns c))) eqn:Er; [intros H; inversion H; now left|].
    destruct (string_slice_delta cache t) as [[added removed] inter].
    destruct (delta_args_after cache t) as [c1 t1] eqn:Ed.
    destruct (delta_args_perm cache t) as [P1 P2]. destruct (delta_args_ssorted cache t) as [S1 S2].
    rewrite Ed in *. cbn [fst snd] in *.
    destruct (is_nil added && is_nil removed).
    { intros H; inversion H; subst. right; left. repeat split; auto. }
    destruct fail.
    { intros H; inversion H; subst. right; right; left. repeat split; auto. }
    intros H; inversion H; subst. right; right; right.
    assert (Hs : ssorted t).
    { pose proof (norm_sorted lower is_letter is_digit (c_max c) tags) as X. rewrite En in X. exact X. }
    rewrite (S2 Hs). exists (length added), (length removed). repeat split; auto.
    now apply negb_false_iff in Er.
  Qed.

  (* ---------- coherence: the loaded topic holds the tags of the row ---------- *)
  Definition hd_coherent (hd : holder) : Prop :=
    match h_cache hd with None => True | Some c0 => Permutation c0 (h_store hd) end.
  Definition w_coherent (w : world) : Prop := forall h hd, lookup h w = Some hd -> hd_coherent hd.

  Lemma eff_coherent hd : hd_coherent hd -> Permutation (eff hd) (h_store hd).
  Proof. unfold hd_coherent, eff. destruct (h_cache hd); auto. Qed.

  Lemma set_tags_coherent hd who fail tags hd' a :
    hd_coherent hd -> set_tags hd who fail tags = (hd', a) -> hd_coherent hd'.
  Proof.
    intros Hc. unfold TagState.set_tags.
    destruct (set_core (is_grp hd) (h_owner hd) (h_store hd) (eff hd) who fail tags) as [[s' c'] a'] eqn:E.
    intros H; inversion H; subst. unfold hd_coherent; cbn.
    pose proof (eff_coherent _ Hc) as P.
    destruct (set_core_cases _ _ _ _ _ _ _ _ _ _ E) as [(_ & -> & ->) | [(_ & -> & P' & _) | [(_ & _ & -> & P' & _) | (ad & rm & _ & _ & _ & -> & _)]]].
    - exact P.
    - now rewrite P'.
    - now rewrite P'.
    - reflexivity.
  Qed.

  Lemma w_coherent_put h hd w : w_coherent w -> hd_coherent hd -> w_coherent (put h hd w).
  Proof.
    intros Hw Hh k x. rewrite lookup_put. destruct (h =? k); [intros E; inversion E; now subst|apply Hw].
  Qed.

  Theorem step_coherent w r : w_coherent w -> w_coherent (fst (step w r)).
  Proof.
    intros Hw. destruct r; cbn [TagState.step].
    - destruct (lookup h w) as [hd|] eqn:E; [|exact Hw].
      destruct (set_tags hd who fail tags) as [hd' a] eqn:Es. cbn [fst].
      apply w_coherent_put; [exact Hw|]. eapply set_tags_coherent; [|exact Es]. eapply Hw; eassumption.
    - destruct (lookup h w) as [hd|] eqn:E; [|exact Hw]. unfold get_tags. cbn [fst].
      apply w_coherent_put; [exact Hw|]. unfold hd_coherent, load, set_cache. cbn.
      apply eff_coherent. eapply Hw; eassumption.
    - destruct (lookup h w) as [hd|] eqn:E; [|exact Hw]. cbn [fst].
      apply w_coherent_put; [exact Hw|exact I].
    - destruct (lookup h w); [exact Hw|]. unfold TagState.new_grp.
      destruct (negb _ && negb _); cbn [fst]; [exact Hw|].
      apply w_coherent_put; [exact Hw|]. unfold hd_coherent. cbn. reflexivity.
    - destruct (lookup h w); [exact Hw|]. unfold TagState.new_user.
      destruct (normalize tags) as [t|].
      + destruct (negb _); cbn [fst]; [exact Hw|]. apply w_coherent_put; [exact Hw|exact I].
      + cbn [fst]. apply w_coherent_put; [exact Hw|exact I].
    - destruct (lookup h w) as [hd|] eqn:E; [|exact Hw].
      destruct (is_grp hd); cbn [fst]; [exact Hw|]. apply w_coherent_put; [exact Hw|exact I].
  Qed.

  Lemma run_cons w r rs :
    run w (r :: rs) = (fst (run (fst (step w r)) rs), snd (step w r) :: snd (run (fst (step w r)) rs)).
  Proof.
    cbn [TagState.run]. destruct (step w r) as [w1 a]. cbn [fst snd].
    destruct (run w1 rs) as [w2 l]. reflexivity.
  Qed.

  Theorem run_coherent rs : forall w, w_coherent w -> w_coherent (fst (run w rs)).
  Proof.
    induction rs as [|r rs IH]; intros w Hw; [exact Hw|].
    rewrite run_cons. cbn [fst]. apply IH. now apply step_coherent.
  Qed.

  (* ---------- reserved namespaces: client requests change nothing ---------- *)
  Definition is_srv (r : req) : bool := match r with SrvTags _ _ _ => true | _ => false end.

  Lemma set_tags_reserved hd who fail tags hd' a :
    hd_coherent hd -> set_tags hd who fail tags = (hd', a) ->
    h_kind hd' = h_kind hd /\ h_owner hd' = h_owner hd /\ Permutation (fr (h_store hd')) (fr (h_store hd)).
  Proof.
    intros Hc. unfold TagState.set_tags.
    destruct (set_core (is_grp hd) (h_owner hd) (h_store hd) (eff hd) who fail tags) as [[s' c'] a'] eqn:E.
    intros H; inversion H; subst. cbn. repeat split.
    pose proof (eff_coherent _ Hc) as P.
    destruct (set_core_cases _ _ _ _ _ _ _ _ _ _ E) as [(_ & -> & _) | [(_ & -> & _) | [(_ & _ & -> & _) | (ad & rm & _ & _ & _ & _ & R)]]];
      try reflexivity.
    apply restricted_equal_sound in R. rewrite <- R. apply fr_perm. now symmetry.
  Qed.

  Theorem step_reserved_unchanged w r h hd :
    w_coherent w -> is_srv r = false -> lookup h w = Some hd ->
    exists hd', lookup h (fst (step w r)) = Some hd' /\ h_kind hd' = h_kind hd /\ h_owner hd' = h_owner hd /\
                Permutation (fr (h_store hd')) (fr (h_store hd)).
  Proof.
    intros Hw Hs Hl.
    assert (Same : exists hd', lookup h w = Some hd' /\ h_kind hd' = h_kind hd /\ h_owner hd' = h_owner hd /\
                               Permutation (fr (h_store hd')) (fr (h_store hd))) by (exists hd; auto).
    destruct r as [h0 who fail tags|h0 who|h0|h0 who tags|h0 tags au|h0 ad rm]; cbn [TagState.step]; try discriminate.
    - destruct (lookup h0 w) as [hd0|] eqn:E; [|exact Same].
      destruct (set_tags hd0 who fail tags) as [hd' a] eqn:Es. cbn [fst]. rewrite lookup_put.
      destruct (h0 =? h) eqn:Eh; [|exact Same]. apply N.eqb_eq in Eh. subst h0.
      rewrite Hl in E. inversion E; subst hd0. exists hd'. split; [reflexivity|].
      eapply set_tags_reserved; [|exact Es]. eapply Hw; eassumption.
    - destruct (lookup h0 w) as [hd0|] eqn:E; [|exact Same]. unfold get_tags. cbn [fst]. rewrite lookup_put.
      destruct (h0 =? h) eqn:Eh; [|exact Same]. apply N.eqb_eq in Eh. subst h0.
      rewrite Hl in E. inversion E; subst hd0. exists (load hd). cbn. auto.
    - destruct (lookup h0 w) as [hd0|] eqn:E; [|exact Same]. cbn [fst]. rewrite lookup_put.
      destruct (h0 =? h) eqn:Eh; [|exact Same]. apply N.eqb_eq in Eh. subst h0.
      rewrite Hl in E. inversion E; subst hd0. eexists. split; [reflexivity|]. cbn. auto.
    - destruct (lookup h0 w) as [hd0|] eqn:E; [exact Same|].
      destruct (new_grp who tags) as [[x|] a]; cbn [fst]; [|exact Same]. rewrite lookup_put.
      destruct (h0 =? h) eqn:Eh; [|exact Same]. apply N.eqb_eq in Eh. subst h0. congruence.
    - destruct (lookup h0 w) as [hd0|] eqn:E; [exact Same|].
      destruct (new_user h0 tags au) as [[x|] a]; cbn [fst]; [|exact Same]. rewrite lookup_put.
      destruct (h0 =? h) eqn:Eh; [|exact Same]. apply N.eqb_eq in Eh. subst h0. congruence.
  Qed.

  Theorem run_reserved_unchanged rs : forall w h hd,
    w_coherent w -> forallb (fun r => negb (is_srv r)) rs = true -> lookup h w = Some hd ->
    exists hd', lookup h (fst (run w rs)) = Some hd' /\ h_kind hd' = h_kind hd /\ h_owner hd' = h_owner hd /\
                Permutation (fr (h_store hd')) (fr (h_store hd)).
  Proof.
    induction rs as [|r rs IH]; intros w h hd Hw Hs Hl.
    - exists hd. auto.
    - cbn [forallb] in Hs. apply andb_prop in Hs as [Hr Hs]. apply negb_true_iff in Hr.
      destruct (step_reserved_unchanged w r h hd Hw Hr Hl) as (hd1 & L1 & K1 & O1 & P1).
      destruct (IH (fst (step w r)) h hd1 (step_coherent w r Hw) Hs L1) as (hd2 & L2 & K2 & O2 & P2).
      rewrite run_cons. cbn [fst]. exists hd2. repeat split; try congruence. now rewrite P2.
  Qed.

  (* a holder created by a client request has no reserved-namespace tag of the
     client's: none for a group topic, only the authenticator's for an account *)
  Theorem step_new_holder_reserved w r h hd' :
    lookup h w = None -> lookup h (fst (step w r)) = Some hd' ->
    forall t, restricted t = true -> In t (h_store hd') ->
      match r with NewUser _ _ au => In t au | _ => False end.
  Proof.
    intros Hn Hl t Hr Ht.
    destruct r as [h0 who fail tags|h0 who|h0|h0 who tags|h0 tags au|h0 ad rm]; cbn [TagState.step] in Hl.
    - destruct (lookup h0 w) as [hd0|] eqn:E; [|cbn in Hl; congruence].
      destruct (set_tags hd0 who fail tags) as [x a]. cbn [fst] in Hl. rewrite lookup_put in Hl.
      destruct (h0 =? h) eqn:Eh; [apply N.eqb_eq in Eh; congruence|congruence].
    - destruct (lookup h0 w) as [hd0|] eqn:E; [|cbn in Hl; congruence].
      unfold get_tags in Hl. cbn [fst] in Hl. rewrite lookup_put in Hl.
      destruct (h0 =? h) eqn:Eh; [apply N.eqb_eq in Eh; congruence|congruence].
    - destruct (lookup h0 w) as [hd0|] eqn:E; [|cbn in Hl; congruence].
      cbn [fst] in Hl. rewrite lookup_put in Hl.
      destruct (h0 =? h) eqn:Eh; [apply N.eqb_eq in Eh; congruence|congruence].
    - destruct (lookup h0 w) as [hd0|] eqn:E; [cbn in Hl; congruence|].
      unfold TagState.new_grp in Hl.
      destruct (negb (is_nil (TagState.content (normalize tags))) && negb (requal (TagState.content (normalize tags)) [] (c_ns c))) eqn:Eg;
        cbn [fst] in Hl; [congruence|].
      rewrite lookup_put in Hl. destruct (h0 =? h); [|congruence]. inversion Hl; subst hd'. cbn in Ht.
      apply andb_false_iff in Eg as [Eg|Eg]; apply negb_false_iff in Eg.
      + destruct (TagState.content (normalize tags)); [contradiction|discriminate].
      + rewrite (requal_nil_no_restricted _ Eg t Ht) in Hr. discriminate.
    - destruct (lookup h0 w) as [hd0|] eqn:E; [cbn in Hl; congruence|].
      unfold TagState.new_user in Hl. destruct (normalize tags) as [l|].
      + destruct (negb (requal l [] (c_ns c))) eqn:Eg; cbn [fst] in Hl; [congruence|].
        apply negb_false_iff in Eg.
        rewrite lookup_put in Hl. destruct (h0 =? h); [|congruence]. inversion Hl; subst hd'. cbn in Ht.
        assert (Hnot : ~ In t l) by (intros X; rewrite (requal_nil_no_restricted _ Eg t X) in Hr; discriminate).
        destruct (l ++ au) eqn:Ea; [contradiction|]. rewrite <- Ea in Ht.
        apply in_update_tags in Ht as [Ht|Ht]; [contradiction|]. apply in_app_or in Ht as [Ht|Ht]; [contradiction|exact Ht].
      + cbn [fst] in Hl. rewrite lookup_put in Hl. destruct (h0 =? h); [|congruence]. inversion Hl; subst hd'. cbn in Ht.
        destruct au as [|x au]; [contradiction|]. apply in_update_tags in Ht as [[]|Ht]. exact Ht.
    - destruct (lookup h0 w) as [hd0|] eqn:E; [|cbn in Hl; congruence].
      destruct (is_grp hd0); cbn [fst] in Hl; [congruence|]. rewrite lookup_put in Hl.
      destruct (h0 =? h) eqn:Eh; [apply N.eqb_eq in Eh; congruence|congruence].
  Qed.

  (* ---------- stored tags are always normalised ---------- *)
  Definition hd_norm (hd : holder) : Prop :=
    norm_list (h_store hd) /\ (h_cache hd = None \/ h_cache hd = Some (h_store hd)).
  Definition w_norm (w : world) : Prop := forall h hd, lookup h w = Some hd -> hd_norm hd.

  (* requests through which clients set tags (an account created with an
     authenticator that adds no tag); SrvTags is the authenticator's side *)
  Definition tag_request (r : req) : bool :=
    match r with SrvTags _ _ _ => false | NewUser _ _ au => is_nil au | _ => true end.

  Lemma eff_norm hd : hd_norm hd -> eff hd = h_store hd.
  Proof. intros [_ [H|H]]; unfold eff; now rewrite H. Qed.

  Lemma w_norm_put h hd w : w_norm w -> hd_norm hd -> w_norm (put h hd w).
  Proof.
    intros Hw Hh k x. rewrite lookup_put. destruct (h =? k); [intros E; inversion E; now subst|apply Hw].
  Qed.

  Lemma set_tags_norm hd who fail tags hd' a :
    hd_norm hd -> set_tags hd who fail tags = (hd', a) -> hd_norm hd'.
  Proof.
    intros Hn. unfold TagState.set_tags. rewrite (eff_norm _ Hn).
    destruct (set_core (is_grp hd) (h_owner hd) (h_store hd) (h_store hd) who fail tags) as [[s' c'] a'] eqn:E.
    intros H; inversion H; subst. unfold hd_norm; cbn. destruct Hn as [Hl _]. pose proof Hl as (Hs & _).
    destruct (set_core_cases _ _ _ _ _ _ _ _ _ _ E) as [(_ & -> & ->) | [(_ & -> & _ & X) | [(_ & _ & -> & _ & X) | (ad & rm & _ & _ & En & -> & _)]]].
    - auto.
    - rewrite (X Hs). auto.
    - rewrite (X Hs). auto.
    - split; [|auto]. pose proof (norm_list_normalize tags) as Y. rewrite En in Y. exact Y.
  Qed.

  Theorem step_norm w r : w_norm w -> tag_request r = true -> w_norm (fst (step w r)).
  Proof.
    intros Hw Hr. destruct r as [h who fail tags|h who|h|h who tags|h tags au|h ad rm]; cbn [TagState.step]; try discriminate.
    - destruct (lookup h w) as [hd|] eqn:E; [|exact Hw].
      destruct (set_tags hd who fail tags) as [hd' a] eqn:Es. cbn [fst].
      apply w_norm_put; [exact Hw|]. eapply set_tags_norm; [|exact Es]. eapply Hw; eassumption.
    - destruct (lookup h w) as [hd|] eqn:E; [|exact Hw]. unfold get_tags. cbn [fst].
      apply w_norm_put; [exact Hw|]. pose proof (Hw _ _ E) as Hn. unfold hd_norm, load, set_cache. cbn.
      rewrite (eff_norm _ Hn). destruct Hn. auto.
    - destruct (lookup h w) as [hd|] eqn:E; [|exact Hw]. cbn [fst].
      apply w_norm_put; [exact Hw|]. destruct (Hw _ _ E). split; cbn; auto.
    - destruct (lookup h w); [exact Hw|]. unfold TagState.new_grp.
      destruct (negb _ && negb _); cbn [fst]; [exact Hw|].
      apply w_norm_put; [exact Hw|]. split; cbn; [apply norm_list_normalize|auto].
    - destruct (lookup h w); [exact Hw|]. cbn in Hr. destruct au; [|discriminate]. unfold TagState.new_user.
      pose proof (norm_list_normalize tags) as Y.
      destruct (normalize tags) as [t|].
      + cbv zeta. rewrite app_nil_r.
        destruct (negb _); cbn [fst]; [exact Hw|]. apply w_norm_put; [exact Hw|]. cbn in Y. split; cbn; [|auto].
        destruct t as [|x t]; [exact Y|]. destruct Y as (Ys & Y2). rewrite (update_tags_same _ Ys). split; assumption.
      + cbn [fst]. apply w_norm_put; [exact Hw|]. split; cbn; [apply norm_list_nil|auto].
  Qed.

  (* ---------- a rejected request is invisible ---------- *)
  (* what later requests can see of a holder: the row and what the loaded topic holds
     (a topic that is not loaded is loaded from the row on demand) *)
  Definition hd_obs (a b : holder) : Prop :=
    h_kind a = h_kind b /\ h_owner a = h_owner b /\ h_store a = h_store b /\ eff a = eff b.
  Definition obs_eq (w1 w2 : world) : Prop :=
    forall h, match lookup h w1, lookup h w2 with
              | Some a, Some b => hd_obs a b
              | None, None => True
              | _, _ => False
              end.

  Lemma hd_obs_refl a : hd_obs a a.
  Proof. repeat split. Qed.
  Lemma hd_obs_sym a b : hd_obs a b -> hd_obs b a.
  Proof. intros (A & B & C & D). repeat split; congruence. Qed.
  Lemma hd_obs_trans a b d : hd_obs a b -> hd_obs b d -> hd_obs a d.
  Proof. intros (A & B & C & D) (A' & B' & C' & D'). repeat split; congruence. Qed.

  Lemma obs_eq_refl w : obs_eq w w.
  Proof. intros h. destruct (lookup h w); [apply hd_obs_refl|exact I]. Qed.
  Lemma obs_eq_sym w1 w2 : obs_eq w1 w2 -> obs_eq w2 w1.
  Proof.
    intros H h. specialize (H h). destruct (lookup h w1), (lookup h w2); try contradiction; [now apply hd_obs_sym|exact I].
  Qed.
  Lemma obs_eq_trans w1 w2 w3 : obs_eq w1 w2 -> obs_eq w2 w3 -> obs_eq w1 w3.
  Proof.
    intros H1 H2 h. specialize (H1 h). specialize (H2 h).
    destruct (lookup h w1), (lookup h w2), (lookup h w3); try contradiction; [eapply hd_obs_trans; eassumption|exact I].
  Qed.

  Lemma obs_put h a b w1 w2 : obs_eq w1 w2 -> hd_obs a b -> obs_eq (put h a w1) (put h b w2).
  Proof. intros H Hab k. rewrite !lookup_put. destruct (h =? k); [exact Hab|apply H]. Qed.

  Lemma obs_put_left h a hd w : lookup h w = Some hd -> hd_obs hd a -> obs_eq w (put h a w).
  Proof.
    intros Hl Ho k. rewrite lookup_put. destruct (h =? k) eqn:E.
    - apply N.eqb_eq in E. subst k. rewrite Hl. exact Ho.
    - destruct (lookup k w); [apply hd_obs_refl|exact I].
  Qed.

  Lemma is_grp_obs a b : hd_obs a b -> is_grp a = is_grp b.
  Proof. intros (K & _). unfold is_grp. now rewrite K. Qed.

  Lemma set_tags_obs a b who fail tags : hd_obs a b -> set_tags a who fail tags = set_tags b who fail tags.
  Proof.
    intros H. pose proof (is_grp_obs _ _ H) as G. destruct H as (K & O & S & E).
    unfold TagState.set_tags. rewrite G, K, O, S, E. reflexivity.
  Qed.

  Lemma load_obs a : hd_obs a (load a).
  Proof. repeat split. Qed.

  (* the answer to a request and everything later requests can see depend only on what can be seen *)
  Theorem step_obs w1 w2 r : obs_eq w1 w2 ->
    snd (step w1 r) = snd (step w2 r) /\ obs_eq (fst (step w1 r)) (fst (step w2 r)).
  Proof.
    intros H. destruct r as [h who fail tags|h who|h|h who tags|h tags au|h ad rm]; cbn [TagState.step];
      pose proof (H h) as Hh; destruct (lookup h w1) as [a|], (lookup h w2) as [b|]; try contradiction;
      try (split; [reflexivity|exact H]).
    - rewrite (set_tags_obs _ _ who fail tags Hh). destruct (set_tags b who fail tags) as [x y]. cbn [fst snd].
      split; [reflexivity|]. apply obs_put; [exact H|apply hd_obs_refl].
    - unfold get_tags. cbn [fst snd]. pose proof (is_grp_obs _ _ Hh) as G. destruct Hh as (K & O & S & E).
      rewrite G, O, E. split; [reflexivity|]. apply obs_put; [exact H|].
      eapply hd_obs_trans; [apply hd_obs_sym, load_obs|]. eapply hd_obs_trans; [|apply load_obs]. repeat split; assumption.
    - cbn [fst snd]. split; [reflexivity|]. apply obs_put; [exact H|]. destruct Hh as (K & O & S & E). repeat split; assumption.
    - destruct (new_grp who tags) as [[x|] y]; cbn [fst snd]; (split; [reflexivity|]); [|exact H].
      apply obs_put; [exact H|apply hd_obs_refl].
    - destruct (new_user h tags au) as [[x|] y]; cbn [fst snd]; (split; [reflexivity|]); [|exact H].
      apply obs_put; [exact H|apply hd_obs_refl].
    - rewrite (is_grp_obs _ _ Hh). destruct Hh as (K & O & S & E). destruct (is_grp b); cbn [fst snd]; (split; [reflexivity|]); [exact H|].
      rewrite O, S. apply obs_put; [exact H|apply hd_obs_refl].
  Qed.

  Theorem run_obs rs : forall w1 w2, obs_eq w1 w2 ->
    snd (run w1 rs) = snd (run w2 rs) /\ obs_eq (fst (run w1 rs)) (fst (run w2 rs)).
  Proof.
    induction rs as [|r rs IH]; intros w1 w2 H; [split; [reflexivity|exact H]|].
    rewrite !run_cons. cbn [fst snd]. destruct (step_obs w1 w2 r H) as [A B]. destruct (IH _ _ B) as [C D].
    split; [now rewrite A, C|exact D].
  Qed.

  (* a request answered 403 (reserved tags touched, or not the owner) leaves every row and every
     loaded topic as it was *)
  Theorem rejected_step_invisible w r a b : snd (step w r) = RCtrl 403 a b -> obs_eq w (fst (step w r)).
  Proof.
    destruct r as [h who fail tags|h who|h|h who tags|h tags au|h ad rm]; cbn [TagState.step].
    - destruct (lookup h w) as [hd|] eqn:E; [|discriminate].
      unfold TagState.set_tags.
      destruct (set_core (is_grp hd) (h_owner hd) (h_store hd) (eff hd) who fail tags) as [[s' c'] a'] eqn:Ec.
      cbn [fst snd]. intros Ha. subst a'.
      destruct (set_core_cases _ _ _ _ _ _ _ _ _ _ Ec) as [(_ & -> & ->) | [(X & _) | [(X & _) | (ad & rm & X & _)]]]; try discriminate.
      eapply obs_put_left; [exact E|]. repeat split.
    - destruct (lookup h w) as [hd|] eqn:E; [|discriminate]. unfold get_tags. cbn [fst snd]. intros _.
      eapply obs_put_left; [exact E|apply load_obs].
    - destruct (lookup h w); discriminate.
    - destruct (lookup h w); [discriminate|]. unfold TagState.new_grp.
      destruct (negb _ && negb _); cbn [fst snd]; [intros _; apply obs_eq_refl|discriminate].
    - destruct (lookup h w); [discriminate|]. unfold TagState.new_user.
      destruct (normalize tags); [destruct (negb _)|]; cbn [fst snd]; try discriminate. intros _; apply obs_eq_refl.
    - destruct (lookup h w) as [hd|]; [destruct (is_grp hd)|]; discriminate.
  Qed.

  (* ... and the answers to every later sequence of requests are those that would have been given
     had the rejected request never been sent *)
  Theorem rejected_request_invisible w r rs a b : snd (step w r) = RCtrl 403 a b ->
    snd (run w (r :: rs)) = RCtrl 403 a b :: snd (run w rs) /\ obs_eq (fst (run w (r :: rs))) (fst (run w rs)).
  Proof.
    intros H. rewrite run_cons. cbn [fst snd]. rewrite H.
    pose proof (rejected_step_invisible w r a b H) as O. apply obs_eq_sym in O.
    destruct (run_obs rs _ _ O) as [A B]. split; [now rewrite A|exact B].
  Qed.

  (* reading never changes anything *)
  Theorem get_step_invisible w h who : obs_eq w (fst (step w (GetTags h who))).
  Proof.
    cbn [TagState.step]. destruct (lookup h w) as [hd|] eqn:E; [|apply obs_eq_refl].
    unfold get_tags. cbn [fst]. eapply obs_put_left; [exact E|apply load_obs].
  Qed.

  (* in a world whose rows are normalised, every request that is not accepted (403, 304 not
     modified, 500 store failure, 204) leaves everything as it was *)
  Theorem unaccepted_step_invisible w r code a b :
    w_norm w -> snd (step w r) = RCtrl code a b -> code <> 200 -> code <> 201 -> obs_eq w (fst (step w r)).
  Proof.
    intros Hw. destruct r as [h who fail tags|h who|h|h who tags|h tags au|h ad rm]; cbn [TagState.step].
    - destruct (lookup h w) as [hd|] eqn:E; [|discriminate].
      pose proof (Hw _ _ E) as Hn. pose proof (eff_norm _ Hn) as Ee. destruct Hn as [(Hs & _) _].
      unfold TagState.set_tags.
      destruct (set_core (is_grp hd) (h_owner hd) (h_store hd) (eff hd) who fail tags) as [[s' c'] a'] eqn:Ec.
      cbn [fst snd]. intros Ha N1 N2. subst a'. rewrite Ee in Ec.
      destruct (set_core_cases _ _ _ _ _ _ _ _ _ _ Ec) as [(_ & -> & ->) | [(_ & -> & _ & X) | [(_ & _ & -> & _ & X) | (ad & rm & X & _)]]].
      + eapply obs_put_left; [exact E|]. repeat split. cbn. now rewrite Ee.
      + rewrite (X Hs). eapply obs_put_left; [exact E|]. repeat split. cbn. now rewrite Ee.
      + rewrite (X Hs). eapply obs_put_left; [exact E|]. repeat split. cbn. now rewrite Ee.
      + inversion X. congruence.
    - intros _ _ _. apply get_step_invisible.
    - destruct (lookup h w); discriminate.
    - destruct (lookup h w); [discriminate|]. unfold TagState.new_grp.
      destruct (negb _ && negb _); cbn [fst snd]; [intros; apply obs_eq_refl|]. intros X; inversion X; congruence.
    - destruct (lookup h w); [discriminate|]. unfold TagState.new_user.
      destruct (normalize tags); [destruct (negb _)|]; cbn [fst snd]; try (intros X; inversion X; congruence).
      intros; apply obs_eq_refl.
    - destruct (lookup h w) as [hd|]; [destruct (is_grp hd)|]; discriminate.
  Qed.

  (* ---------- an accepted update stores exactly the normalised request ---------- *)
  Theorem set_accepted_normalised w h who fail tags a b :
    snd (step w (SetTags h who fail tags)) = RCtrl 200 a b ->
    exists hd', lookup h (fst (step w (SetTags h who fail tags))) = Some hd' /\
                normalize tags = Some (h_store hd') /\ h_cache hd' = Some (h_store hd') /\ norm_list (h_store hd').
  Proof.
    cbn [TagState.step]. destruct (lookup h w) as [hd|] eqn:E; [|discriminate].
    unfold TagState.set_tags.
    destruct (set_core (is_grp hd) (h_owner hd) (h_store hd) (eff hd) who fail tags) as [[s' c'] a'] eqn:Ec.
    cbn [fst snd]. intros Ha. subst a'.
    destruct (set_core_cases _ _ _ _ _ _ _ _ _ _ Ec) as [(X & _) | [(X & _) | [(X & _) | (ad & rm & _ & _ & En & -> & _)]]]; try discriminate.
    pose proof (norm_list_normalize tags) as Y. rewrite En in Y. cbn [TagState.content] in Y.
    eexists. rewrite lookup_put_same. split; [reflexivity|]. cbn [h_store h_cache].
    split; [exact En|]. split; [reflexivity|exact Y].
  Qed.

  Theorem run_norm rs : forall w, w_norm w -> forallb tag_request rs = true -> w_norm (fst (run w rs)).
  Proof.
    induction rs as [|r rs IH]; intros w Hw Hr; [exact Hw|].
    cbn [forallb] in Hr. apply andb_prop in Hr as [H1 H2].
    rewrite run_cons. cbn [fst]. apply IH; [now apply step_norm|exact H2].
  Qed.

  (* in a normalised world the loaded topic holds exactly the row *)
  Theorem norm_cache_is_store w h hd c0 : w_norm w -> lookup h w = Some hd -> h_cache hd = Some c0 -> c0 = h_store hd.
  Proof. intros Hw Hl Hc. destruct (Hw _ _ Hl) as [_ [X|X]]; congruence. Qed.

  (* "normalised" spelled out: no duplicates, within the count limit, every tag trimmed,
     lower-cased, 2..96 runes, starting with a letter or a digit *)
  Theorem norm_list_spelled l : norm_list l ->
    NoDup l /\ (length l <= c_max c)%nat /\
    forall t, In t l -> (2 <= length t <= 96)%nat /\ (is_letter (hd 0 t) = true \/ is_digit (hd 0 t) = true) /\
                        map lower t = t /\ trim_space t = t.
  Proof. intros H. split; [now apply norm_list_nodup|]. destruct H as (_ & H1 & H2). split; [exact H1|exact H2]. Qed.
End TagStateLaws.
