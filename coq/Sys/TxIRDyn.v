(* C18  Projection table used by the dynamic validation of the txir translator:
   for one generated program, the set of (projection of the driver trace to
   Begin / Commit / Rollback order, error-ness of the result, number of
   statements that reached the driver) over all enumerated runs.  The check
   plugin compares what the real MySQL adapter does on the fake driver with
   this table.  Definitions only. *)
From Coq Require Import List Bool Arith String.
From Tinode Require Import Sys.TxIR.
Import ListNotations.
Open Scope string_scope.

Definition proj_ev (e : event) : string :=
  match e with
  | EvBegin => "B" | EvBeginFail => "b" | EvCommit => "C" | EvCommitFail => "c" | EvRollback => "R"
  | _ => ""
  end.
Definition proj (tr : list event) : string := fold_right (fun e s => proj_ev e ++ s) "" tr.
Definition nstmts (tr : list event) : nat :=
  List.length (filter (fun e => match e with EvExec _ | EvExecFail _ | EvExecCode _ => true | _ => false end) tr).

Definition tri := (string * bool * nat)%type.
Definition tri_eqb (a b : tri) : bool :=
  String.eqb (fst (fst a)) (fst (fst b)) && Bool.eqb (snd (fst a)) (snd (fst b)) && Nat.eqb (snd a) (snd b).
Definition tri_of (r : outcome) : tri :=
  (proj (r_trace r), match r_res r with Some VNil => false | _ => true end, nstmts (r_trace r)).
Definition add_tri (x : tri) (l : list tri) : list tri := if existsb (tri_eqb x) l then l else x :: l.

(* same depth-first enumeration as TxIR.explore, not stopping at a bad run *)
Fixpoint collect (p : prog) (budget : nat) (work : list (list nat)) (acc : list tri) : list tri :=
  match work with
  | [] => acc
  | ds :: rest =>
      match budget with
      | 0 => acc
      | S budget' =>
          let r := exec p (oracle_of ds) in
          collect p budget' (children ds r ++ rest) (add_tri (tri_of r) acc)
      end
  end.
Definition dyn_table (budget : nat) (p : prog) : list tri := collect p budget [[]] [].
