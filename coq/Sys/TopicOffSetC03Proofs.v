(* C03, strengthening s03c: lemmas about Sys/TopicOffSetC03.v (the complete not-attached {set}; evictUser's
   loop over the sessions by the user they are attached as). *)
From Coq Require Import ZArith NArith List Bool Lia.
From Tinode Require Import Base.Util Pure.Acs Sys.Topic Sys.TopicTac Sys.TopicCoh Sys.TopicPub Sys.TopicLife Sys.TopicOboC04 Sys.TopicOffSetC03.
Import ListNotations.
Open Scope Z_scope.

(* ---------- replyOfflineTopicSetSub ---------- *)

(* exactly one reply, to the sender *)
Lemma off_one_reply f p2p s pv sid u q : exists fr, of_out (offline_set_c03 f p2p s pv sid u q) = [(sid, fr)].
Proof. unfold offline_set_c03. repeat break_match; cbn [of_out]; eexists; reflexivity. Qed.

Lemma off_decide_err p2p r pv q code : off_decide_c03 p2p r pv q = inl code -> code = 500 \/ code = 403.
Proof.
  unfold off_decide_c03. destruct (or_mode q); [discriminate|]. unfold off_want_c03.
  destruct (unmarshal_text 0%N (n :: l)) as [m ok]. destruct (negb ok); [intros H; inv H; now left|].
  destruct (negb (Bool.eqb (is_owner m) (is_owner (s_want r)))); intros H; inv H. now right.
Qed.

(* either nothing is written, or the row exists, the request passes [off_decide_c03] and exactly its update map is applied *)
Lemma off_cases f p2p s pv sid u q :
  (of_st (offline_set_c03 f p2p s pv sid u q) = s /\ of_priv (offline_set_c03 f p2p s pv sid u q) = pv /\
   (off_acked_c03 (offline_set_c03 f p2p s pv sid u q) = false \/
    (or_mode q = [] /\ or_priv q = PrNil) \/
    exists r0 up, ad_sub_get s u false = Some r0 /\ off_decide_c03 p2p r0 pv q = inr up /\ offupd_empty_c03 up = true)) \/
  (off_acked_c03 (offline_set_c03 f p2p s pv sid u q) = true /\
   exists r0 up, ad_sub_get s u false = Some r0 /\ off_decide_c03 p2p r0 pv q = inr up /\ offupd_empty_c03 up = false /\
     of_st (offline_set_c03 f p2p s pv sid u q) =
       match ou_want up with Some mw => ad_subs_update s u (mkUpd (Some mw) None None None None) | None => s end /\
     of_priv (offline_set_c03 f p2p s pv sid u q) = match ou_priv up with Some v => v | None => pv end).
Proof.
  unfold offline_set_c03.
  destruct (or_priv q) eqn:EP; destruct (or_mode q) eqn:EM; cbn [andb];
  try (left; repeat split; right; left; split; reflexivity);
  (destruct (negb (or_target q =? 0)%N && negb (N.eqb (or_target q) u));
   [left; repeat split; left; reflexivity|]);
  (destruct (call f 0) as [ok1 n1]; destruct (negb ok1);
   [left; repeat split; left; reflexivity|]);
  (destruct (ad_sub_get s u false) as [r0|] eqn:G;
   [|left; repeat split; left; reflexivity]);
  (destruct (off_decide_c03 p2p r0 pv q) as [code|up] eqn:D;
   [left; repeat split; left; destruct (off_decide_err _ _ _ _ _ D) as [->| ->]; reflexivity|]);
  (destruct (offupd_empty_c03 up) eqn:E;
   [left; repeat split; right; right; exists r0, up; repeat split; assumption|]);
  (destruct (call f n1) as [ok2 n2]; destruct (negb ok2);
   [left; repeat split; left; reflexivity|]);
  (right; split;
   [cbn [of_out off_acked_c03]; unfold off_acked_c03; cbn [of_out]; destruct (ou_want up); reflexivity
   |exists r0, up; repeat split; assumption]).
Qed.

Lemma sub_get_smodes s u r : ad_sub_get s u false = Some r -> smodes s u = Some (s_want r, s_given r).
Proof.
  unfold ad_sub_get, smodes. destruct (find_sub u (subs s)) as [r1|]; [|discriminate].
  destruct (s_deleted r1) eqn:E; cbn [negb andb]; intros H; inv H. reflexivity.
Qed.

(* the mode part of the update map: Some mw only when mw differs from the stored want; in both cases the want that
   the row ends up with is the sanitised request *)
Lemma off_decide_want p2p r pv q up c l : or_mode q = c :: l -> off_decide_c03 p2p r pv q = inr up ->
  exists mw, off_want_c03 p2p (s_want r) (c :: l) = inr mw /\
    (match ou_want up with Some v => v | None => s_want r end) = mw /\ ou_priv up = off_private_c03 pv (or_priv q).
Proof.
  intros EM D. unfold off_decide_c03 in D. rewrite EM in D.
  destruct (off_want_c03 p2p (s_want r) (c :: l)) as [code|mw]; [discriminate|]. inv D. exists mw. cbn [ou_want ou_priv].
  repeat split. destruct (mw =? s_want r)%N eqn:E; [apply N.eqb_eq in E; now subst|reflexivity].
Qed.

(* THE CLAUSE: an acknowledged not-attached {set} carrying sub.mode stores exactly the sanitised mode as the user's
   requested mode and leaves his granted mode alone - whatever desc.private the same request carries, whatever the
   fault plan *)
Lemma off_ack_stores_want f p2p s pv sid u q c l : u <> 0%N -> or_mode q = c :: l ->
  off_acked_c03 (offline_set_c03 f p2p s pv sid u q) = true ->
  exists r0 mw, ad_sub_get s u false = Some r0 /\ off_want_c03 p2p (s_want r0) (c :: l) = inr mw /\
    smodes (of_st (offline_set_c03 f p2p s pv sid u q)) u = Some (mw, s_given r0).
Proof.
  intros Hu EM A. destruct (off_cases f p2p s pv sid u q) as [[Hs [Hp [H|[[H _]|[r0 [up [G [D E]]]]]]]]|[_ [r0 [up [G [D [E [Hs Hp]]]]]]]].
  - rewrite H in A. discriminate.
  - rewrite EM in H. discriminate.
  - destruct (off_decide_want _ _ _ _ _ _ _ EM D) as [mw [W [M _]]]. exists r0, mw. repeat split; [assumption..|].
    rewrite Hs. rewrite (sub_get_smodes _ _ _ G). unfold offupd_empty_c03 in E.
    destruct (ou_want up); [destruct (ou_priv up); discriminate|]. now subst.
  - destruct (off_decide_want _ _ _ _ _ _ _ EM D) as [mw [W [M _]]]. exists r0, mw. repeat split; [assumption..|].
    rewrite Hs. destruct (ou_want up) as [v|].
    + subst v. rewrite smodes_subs_update by assumption. rewrite N.eqb_refl. rewrite (sub_get_smodes _ _ _ G). reflexivity.
    + rewrite (sub_get_smodes _ _ _ G). now subst.
Qed.

(* a request that is refused changes nothing *)
Lemma off_refused_no_effect f p2p s pv sid u q : off_acked_c03 (offline_set_c03 f p2p s pv sid u q) = false ->
  of_st (offline_set_c03 f p2p s pv sid u q) = s /\ of_priv (offline_set_c03 f p2p s pv sid u q) = pv.
Proof.
  intros A. destruct (off_cases f p2p s pv sid u q) as [[Hs [Hp _]]|[A2 _]]; [now split|]. rewrite A in A2. discriminate.
Qed.

(* nobody else's modes are touched, and the store stays well-formed *)
Lemma off_others_untouched f p2p s pv sid u q v : u <> 0%N -> v <> u ->
  smodes (of_st (offline_set_c03 f p2p s pv sid u q)) v = smodes s v.
Proof.
  intros Hu Hv. destruct (off_cases f p2p s pv sid u q) as [[Hs _]|[_ [r0 [up [_ [_ [_ [Hs _]]]]]]]]; rewrite Hs; [reflexivity|].
  destruct (ou_want up); [|reflexivity]. rewrite smodes_subs_update by assumption.
  destruct (N.eqb_spec v u); [contradiction|reflexivity].
Qed.
Lemma off_wf f p2p s pv sid u q : wf_store s -> wf_store (of_st (offline_set_c03 f p2p s pv sid u q)).
Proof.
  intros W. destruct (off_cases f p2p s pv sid u q) as [[Hs _]|[_ [r0 [up [_ [_ [_ [Hs _]]]]]]]]; rewrite Hs; [assumption|].
  destruct (ou_want up); [apply wf_subs_update|]; assumption.
Qed.

Lemma has_w_testbit m : has m mW = N.testbit m 2.
Proof.
  unfold has, mW. destruct (N.testbit m 2) eqn:T.
  - destruct (N.eqb_spec (N.land m 4) 0) as [E|E]; [|reflexivity]. exfalso.
    assert (X : N.testbit (N.land m 4) 2 = true) by (rewrite N.land_spec, T; reflexivity).
    rewrite E in X. rewrite N.bits_0 in X. discriminate.
  - replace (N.land m 4) with 0%N; [reflexivity|]. symmetry. apply N.bits_inj. intros n. rewrite N.land_spec, N.bits_0.
    destruct (N.eqb_spec n 2); [subst; rewrite T; reflexivity|].
    change 4%N with (2 ^ 2)%N. rewrite N.pow2_bits_false by congruence. apply andb_false_r.
Qed.
Lemma is_writer_land g w : is_writer (N.land g w) = is_writer g && is_writer w.
Proof. unfold is_writer. rewrite !has_w_testbit. apply N.land_spec. Qed.

(* ... hence the publish decision of the topic loaded afterwards follows the acknowledged mode: the cache built by
   loadSubscribers has the sanitised mode as the user's want, so W is required in it and in the granted mode *)
Lemma off_then_load_decides f p2p s pv sid u q c l : u <> 0%N -> wf_store s -> or_mode q = c :: l ->
  off_acked_c03 (offline_set_c03 f p2p s pv sid u q) = true ->
  exists r0 mw, ad_sub_get s u false = Some r0 /\ off_want_c03 p2p (s_want r0) (c :: l) = inr mw /\
    is_writer (pud_mode (get_pud (load (of_st (offline_set_c03 f p2p s pv sid u q))) u)) =
      is_writer mw && is_writer (s_given r0).
Proof.
  intros Hu W EM A. destruct (off_ack_stores_want f p2p s pv sid u q c l Hu EM A) as [r0 [mw [G [Wt S]]]].
  exists r0, mw. repeat split; [assumption..|].
  destruct (load_coh _ (off_wf f p2p s pv sid u q W)) as [_ [C _]].
  rewrite (coh_writer _ _ u C). unfold stored_writer. rewrite S. rewrite andb_comm. apply is_writer_land.
Qed.

(* the desc.private of the request does not influence the modes that end up stored (no fault) *)
Lemma off_private_irrelevant p2p s pv sid u t c l p1 p2 : u <> 0%N ->
  forall v, smodes (of_st (offline_set_c03 NoFault p2p s pv sid u (mkOffReq t (c :: l) p1))) v =
            smodes (of_st (offline_set_c03 NoFault p2p s pv sid u (mkOffReq t (c :: l) p2))) v.
Proof.
  intros Hu v. unfold offline_set_c03. cbn [or_mode or_priv or_target andb].
  replace ((match p1 with PrNil => true | _ => false end) && false) with false by (destruct p1; reflexivity).
  replace ((match p2 with PrNil => true | _ => false end) && false) with false by (destruct p2; reflexivity).
  destruct (negb (t =? 0)%N && negb (N.eqb t u)); [reflexivity|]. cbn [call fails negb].
  destruct (ad_sub_get s u false) as [r0|] eqn:G; [|reflexivity].
  unfold off_decide_c03. cbn [or_mode or_priv].
  destruct (off_want_c03 p2p (s_want r0) (c :: l)) as [code|mw]; [reflexivity|].
  unfold offupd_empty_c03. cbn [ou_priv ou_want].
  destruct (mw =? s_want r0)%N eqn:E.
  - destruct (off_private_c03 pv p1), (off_private_c03 pv p2); reflexivity.
  - destruct (off_private_c03 pv p1), (off_private_c03 pv p2); reflexivity.
Qed.

(* the p2p mask: whatever is asked, the stored requested mode of a peer-to-peer subscription stays within JRWPA and
   keeps A; a group subscription stores the parsed mode as it is; the O bit never changes *)
Lemma off_want_shape p2p w mode mw : off_want_c03 p2p w mode = inr mw ->
  is_owner mw = (if p2p then false else is_owner w) /\
  (p2p = true -> N.land mw (N.lxor 255 ModeCP2P_c03) = 0%N /\ has mw mA = true) /\
  (p2p = false -> mw = fst (unmarshal_text 0%N mode)).
Proof.
  unfold off_want_c03. destruct (unmarshal_text 0%N mode) as [m ok]. destruct ok; cbn [negb]; [|discriminate].
  destruct (Bool.eqb (is_owner m) (is_owner w)) eqn:E; cbn [negb]; [|discriminate]. intros H. inv H.
  apply eqb_prop in E. destruct p2p.
  - repeat split; try discriminate.
    + unfold is_owner, has, mO, ModeCP2P_c03, mA. rewrite N.land_lor_distr_l. rewrite <- N.land_assoc.
      replace (N.land 31 128) with 0%N by reflexivity. replace (N.land 16 128) with 0%N by reflexivity.
      rewrite N.land_0_r. reflexivity.
    + unfold ModeCP2P_c03, mA. change (N.lxor 255 31) with 224%N. rewrite N.land_lor_distr_l. rewrite <- N.land_assoc.
      replace (N.land 31 224) with 0%N by reflexivity. replace (N.land 16 224) with 0%N by reflexivity.
      rewrite N.land_0_r. reflexivity.
    + unfold has, mA. rewrite N.land_lor_distr_l. replace (N.land 16 16) with 16%N by reflexivity.
      destruct (N.eqb_spec (N.lor (N.land (N.land m ModeCP2P_c03) 16) 16) 0) as [Z|Z]; [|reflexivity].
      apply N.lor_eq_0_iff in Z. destruct Z; discriminate.
  - repeat split; try assumption; try discriminate; try reflexivity.
Qed.

(* ---------- evictUser: the loop over the attached sessions ---------- *)

Lemma forallb_filter_neg {A} (p : A -> bool) (l : list A) : forallb (fun e => negb (p e)) (filter (fun e => negb (p e)) l) = true.
Proof. induction l as [|a l IH]; cbn; [reflexivity|]. destruct (p a) eqn:E; cbn; [exact IH|]. rewrite E. exact IH. Qed.

Lemma evict_user_sess c u unsub skip :
  c_sess (fst (evict_user c u unsub skip)) = filter (fun e => negb (N.eqb (fst (snd e)) u)) (c_sess c).
Proof. unfold evict_user. cbn [fst]. destruct unsub; [reflexivity|]. break_match; reflexivity. Qed.

(* after evictUser(u) no session attached AS u remains - the test reads perSessionData.uid, not the session's owner *)
Lemma evict_none_attached c u unsub skip : none_attached_as_c03 (fst (evict_user c u unsub skip)) u = true.
Proof. unfold none_attached_as_c03. rewrite evict_user_sess. apply (forallb_filter_neg (fun e => N.eqb (fst (snd e)) u)). Qed.

(* ... and nobody else's attachment is touched *)
Lemma evict_keeps_others c u unsub skip e : In e (c_sess c) -> fst (snd e) <> u ->
  In e (c_sess (fst (evict_user c u unsub skip))).
Proof.
  intros Hin Hne. rewrite evict_user_sess. apply filter_In. split; [assumption|].
  destruct (N.eqb_spec (fst (snd e)) u); [contradiction|reflexivity].
Qed.

Lemma none_attached_spec c u : none_attached_as_c03 c u = true <-> forall sid a b, In (sid, (a, b)) (c_sess c) -> a <> u.
Proof.
  unfold none_attached_as_c03. rewrite forallb_forall. split.
  - intros H sid a b Hin. specialize (H _ Hin). cbn in H. destruct (N.eqb_spec a u); [discriminate|assumption].
  - intros H [sid [a b]] Hin. cbn. destruct (N.eqb_spec a u); [exfalso; eapply H; eauto|reflexivity].
Qed.

Lemma alookup_filter_nodup {A} (p : N * A -> bool) (l : list (N * A)) k v : NoDup (map fst l) ->
  alookup k l = Some v -> alookup k (filter p l) = if p (k, v) then Some v else None.
Proof.
  induction l as [|[k0 v0] l IH]; cbn; [discriminate|]. intros ND H. inversion ND as [|? ? Hn Hr]; subst.
  destruct (N.eqb k k0) eqn:E.
  - apply N.eqb_eq in E. subst k0. inv H. destruct (p (k, v)) eqn:P; cbn; [now rewrite N.eqb_refl|].
    destruct (alookup k (filter p l)) eqn:L; [|reflexivity]. exfalso. apply Hn.
    apply alookup_in in L. apply filter_In in L. destruct L as [L _]. now apply (in_map fst) in L.
  - destruct (p (k0, v0)); cbn; [rewrite E|]; apply IH; assumption.
Qed.

(* a session that was attached on behalf of the evicted user is not attached afterwards, whoever owns it: a later
   {pub} from it - on behalf of anybody - is refused by Session.publish (409) *)
Lemma evicted_not_attached c u unsub skip sid b : NoDup (map fst (c_sess c)) -> alookup sid (c_sess c) = Some (u, b) ->
  attached (fst (evict_user c u unsub skip)) sid = false.
Proof.
  intros ND L. unfold attached. rewrite evict_user_sess.
  rewrite (alookup_filter_nodup _ _ _ _ ND L). cbn. now rewrite N.eqb_refl.
Qed.

(* the loop as written (for s := range t.sessions { remSession(s, uid) ... }) is that filter *)
Lemma rem_session_spec l sid u : u <> 0%N ->
  snd (rem_session_c03 l sid u) =
    match alookup sid l with Some pssd => if N.eqb (fst pssd) u then aremove sid l else l | None => l end.
Proof.
  intros Hu. unfold rem_session_c03. destruct (alookup sid l) as [pssd|]; [|reflexivity].
  destruct (N.eqb_spec u 0); [contradiction|]. rewrite orb_false_r. destruct (N.eqb (fst pssd) u); reflexivity.
Qed.

Lemma aremove_notin {A} k (l : list (N * A)) : ~ In k (map fst l) -> aremove k l = l.
Proof.
  induction l as [|[k0 v0] l IH]; cbn; [reflexivity|]. intros H. destruct (N.eqb_spec k k0); [exfalso; apply H; now left|].
  f_equal. apply IH. tauto.
Qed.

Lemma evict_loop_spec u skip unsub : u <> 0%N -> forall keys done l,
  NoDup (map fst (done ++ l)) -> keys = map fst l ->
  Forall (fun e => fst (snd e) <> u) done ->
  fst (evict_loop_c03 keys (done ++ l) u skip unsub) = done ++ filter (fun e => negb (N.eqb (fst (snd e)) u)) l.
Proof.
  intros Hu keys. induction keys as [|sid keys IH]; intros done l ND K FD.
  - destruct l; [|discriminate]. reflexivity.
  - destruct l as [|[k0 [a b]] l]; [discriminate|]. cbn in K. inv K.
    cbn [evict_loop_c03]. unfold rem_session_c03.
    assert (L : alookup k0 (done ++ (k0, (a, b)) :: l) = Some (a, b)).
    { clear - ND. induction done as [|[k1 v1] done IH]; cbn; [now rewrite N.eqb_refl|].
      cbn in ND. inversion ND as [|? ? Hn Hr]; subst. destruct (N.eqb_spec k0 k1).
      - subst. exfalso. apply Hn. rewrite map_app. apply in_or_app. right. now left.
      - apply IH. assumption. }
    rewrite L. cbn [fst]. destruct (N.eqb_spec u 0); [contradiction|]. rewrite orb_false_r.
    cbn [filter snd fst]. destruct (N.eqb_spec a u) as [Ea|Ea]; cbn [negb].
    + assert (R : aremove k0 (done ++ (k0, (a, b)) :: l) = done ++ l).
      { clear - ND. induction done as [|[k1 v1] done IH]; cbn.
        - rewrite N.eqb_refl. cbn in ND. inversion ND; subst. now apply aremove_notin.
        - cbn in ND. inversion ND as [|? ? Hn Hr]; subst. destruct (N.eqb_spec k0 k1).
          + subst. exfalso. apply Hn. rewrite map_app. apply in_or_app. right. now left.
          + f_equal. now apply IH. }
      rewrite R. destruct (evict_loop_c03 (map fst l) (done ++ l) u skip unsub) as [l2 o2] eqn:EL. cbn [fst].
      change l2 with (fst (l2, o2)). rewrite <- EL. apply IH; [|reflexivity|assumption].
      rewrite map_app in *. cbn in ND. apply NoDup_remove_1 in ND. assumption.
    + replace (done ++ (k0, (a, b)) :: l) with ((done ++ [(k0, (a, b))]) ++ l) by (rewrite <- app_assoc; reflexivity).
      rewrite IH; [rewrite <- app_assoc; reflexivity| |reflexivity|].
      * rewrite <- app_assoc. assumption.
      * apply Forall_app. split; [assumption|]. constructor; [assumption|constructor].
Qed.

Lemma evict_sessions_is_filter l u skip unsub : u <> 0%N -> NoDup (map fst l) ->
  fst (evict_sessions_c03 l u skip unsub) = filter (fun e => negb (N.eqb (fst (snd e)) u)) l.
Proof. intros Hu ND. unfold evict_sessions_c03. apply (evict_loop_spec u skip unsub Hu (map fst l) [] l); [assumption|reflexivity|constructor]. Qed.

(* ---------- the requests that evict ---------- *)

(* anotherUserSub: an accepted change of the target's granted mode to one without J detaches every session attached on
   the target's behalf *)
Lemma ban_detaches f s c n sid u target mode h w g :
  another_user_sub f s c n sid u target mode = (h, SubOk (Some (w, g))) -> is_joiner g = false ->
  none_attached_as_c03 (h_ca h) target = true.
Proof.
  unfold another_user_sub. intros H J.
  repeat (break_match_hyp; try discriminate);
  inv H; cbn [h_ca];
  try (match goal with E : evict_user ?c0 target ?b ?k = (?c4, _) |- none_attached_as_c03 ?c4 target = true =>
         change c4 with (fst (c4, o)) end);
  try (match goal with E : evict_user ?c0 target ?b ?k = (?c4, ?o4) |- none_attached_as_c03 ?c4 target = true =>
         replace c4 with (fst (evict_user c0 target b k)) by (rewrite E; reflexivity); apply evict_none_attached end);
  try (match goal with E : negb (is_joiner ?g0) = false |- _ => rewrite J in E; discriminate E end).
Qed.

(* replyDelSub: an acknowledged removal of a cached subscriber detaches every session attached on his behalf *)
Lemma del_sub_detaches f s c n sid u target code pt :
  In (sid, Ctrl code []) (h_out (del_sub f s c n sid u target)) -> code = 200 \/ code = 304 ->
  alookup target (c_users c) = Some pt ->
  none_attached_as_c03 (h_ca (del_sub f s c n sid u target)) target = true.
Proof.
  intros Hin Hc L. unfold del_sub in *. rewrite L in *.
  assert (D : forall n0 code0, In (sid, Ctrl code [])  (h_out (mkH s c n0 [(sid, Ctrl code0 [])])) -> code0 <> 200 -> code0 <> 304 -> False).
  { intros n0 code0 [H|[]] H2 H3. inv H. destruct Hc; contradiction. }
  destruct (negb (is_admin (user_mode c u))); [exfalso; eapply D; [exact Hin|discriminate|discriminate]|].
  destruct ((target =? 0)%N || N.eqb target u); [exfalso; eapply D; [exact Hin|discriminate|discriminate]|].
  destruct (is_owner (pud_mode pt)); [exfalso; eapply D; [exact Hin|discriminate|discriminate]|].
  destruct (negb (is_joiner (p_want pt))); [exfalso; eapply D; [exact Hin|discriminate|discriminate]|].
  destruct (call f n) as [ok1 n1]. destruct (negb ok1); [exfalso; eapply D; [exact Hin|discriminate|discriminate]|].
  destruct (ad_subs_delete s target) as [s'|]; destruct (evict_user c target true 0%N) as [c1 o1] eqn:E; cbn [h_ca];
  replace c1 with (fst (evict_user c target true 0%N)) by (rewrite E; reflexivity); apply evict_none_attached.
Qed.

(* replyLeaveUnsub: an acknowledged {leave unsub} on behalf of u detaches every session attached on his behalf *)
Lemma leave_unsub_detaches f s c n sid u :
  In (sid, Ctrl 200 []) (h_out (leave_unsub f s c n sid u)) ->
  none_attached_as_c03 (h_ca (leave_unsub f s c n sid u)) u = true.
Proof.
  intros Hin. unfold leave_unsub in *.
  destruct (N.eqb (c_owner c) u); [destruct Hin as [H|[]]; inv H|].
  destruct (call f n) as [ok1 n1]. destruct (negb ok1); [destruct Hin as [H|[]]; inv H|].
  destruct (ad_subs_delete s u) as [s1|]; [|destruct Hin as [H|[]]; inv H].
  destruct (evict_user c u true sid) as [c1 o1] eqn:E; cbn [h_ca].
  replace c1 with (fst (evict_user c u true sid)) by (rewrite E; reflexivity). apply evict_none_attached.
Qed.

(* ---------- the wrapper ---------- *)
Section Wrapper.
Variable dr : Z -> list (Z * Z) -> option (list (Z * Z)).
Variable nr : list (Z * Z) -> list (Z * Z).
Variable sm : sessmap.
Variable roots : list N.

(* a {set} from a session that is not attached is replyOfflineTopicSetSub on the stored row, whatever state the
   topic is in (loaded or not, read-only or not); nothing in memory changes *)
Lemma zset_not_attached z f sid q : x_del (oz_x z) = None -> x_attached (oz_x z) sid = false ->
  let x := oz_x z in
  let u := sess_uid sm sid in
  let r := offline_set_c03 f false (st (xb x)) (get_priv_c03 (oz_gpriv z) u) sid u q in
  ozstep_c03 dr nr sm roots z (ZSet f sid q) =
    Some (mkOZ (after_crash f (set_b (mkState (of_st r) (ca (xb x)) (of_n r)) x)) (aset u (of_priv r) (oz_gpriv z)) (oz_ppriv z),
          of_out r).
Proof.
  intros D A x u r. subst x u r. unfold ozstep_c03, del_finish. rewrite D. rewrite A. reflexivity.
Qed.

(* {pub} of a ROOT session on behalf of user u: the request is the topic's ordinary publish with u as the author *)
Lemma obo_pub_is_publish_as x f sid u content noecho : is_root_c04 roots sid = true -> u <> 0%N ->
  obo_step_c03 dr nr sm roots x (OboUser u) f (OPub sid content noecho) =
    Some (xstep dr nr (sm_as_c04 sm sid u) x (EBase f (OPub sid content noecho))).
Proof.
  intros R Hu. unfold obo_step_c03. cbn [TopicLife.op_sid]. unfold dispatch_as_c04. rewrite R. cbn [negb].
  destruct (N.eqb_spec u 0); [contradiction|].
  assert (L : forall y, root_leave_other_c03 y sid u (OPub sid content noecho) = false) by (intros y; unfold root_leave_other_c03; reflexivity).
  rewrite L. rewrite !andb_false_r. cbn [root_req_ok_c04 negb andb]. reflexivity.
Qed.

(* an ordinary session cannot act on behalf of anybody: 403 from the dispatcher, nothing happens *)
Lemma obo_needs_root x ob f sid content noecho : is_root_c04 roots sid = false -> has_obo_c04 ob = true -> x_del x = None ->
  obo_step_c03 dr nr sm roots x ob f (OPub sid content noecho) =
    Some (set_b (mkState (st (xb x)) (ca (xb x)) 0) x, [(sid, Ctrl 403 [])]).
Proof.
  intros R H D. unfold obo_step_c03. cbn [TopicLife.op_sid]. unfold dispatch_as_c04. rewrite R, D. unfold del_finish. rewrite D.
  destruct ob; [discriminate| |]; reflexivity.
Qed.
End Wrapper.
