(* C03: acceptance of a publish. *)
From Coq Require Import ZArith NArith List Bool Lia.
From Tinode Require Import Base.Util Pure.Acs Sys.Topic Sys.TopicTac Sys.TopicFrame Sys.TopicNum Sys.TopicOut Sys.TopicNumThm.
Import ListNotations.
Open Scope Z_scope.

Lemma publish_nofault s c n sid u content noecho :
  is_writer (pud_mode (get_pud c u)) = true -> ~ In (c_lastid c + 1) (seqs s) ->
  h_out (publish NoFault s c n sid u content noecho) =
    (sid, Ctrl 202 [(P_seq, c_lastid c + 1)]) ::
    fanout_data (h_ca (publish NoFault s c n sid u content noecho)) (if noecho then sid else 0%N) (Data (c_lastid c + 1) u content)
    ++ push_out (h_ca (publish NoFault s c n sid u content noecho)) (c_lastid c + 1) u.
Proof.
  intros W ND.
  destruct (publish_cases NoFault s c n sid u content noecho) as [[_ [_ [_ [_ [_ [code [E _]]]]]]]|[_ [_ [_ [_ E]]]]]; [|exact E].
  exfalso. revert E. unfold publish. rewrite W. cbn [negb call fails].
  destruct (ad_msg_save (st_seqid (c_lastid c + 1) s) (c_lastid c + 1) u content) eqn:SV.
  - repeat break_match; cbn [h_out]; discriminate.
  - unfold ad_msg_save in SV. break_match_hyp; [|discriminate].
    apply existsb_exists in Heqb. destruct Heqb as [m [Hm1 Hm2]]. cbn [msgs st_seqid] in Hm1.
    apply Z.eqb_eq in Hm2. exfalso. apply ND. unfold seqs. rewrite <- Hm2. apply in_map. exact Hm1.
Qed.

Lemma publish_rejected f s c n sid u content noecho :
  is_writer (pud_mode (get_pud c u)) = false ->
  publish f s c n sid u content noecho = mkH s c n [(sid, Ctrl 403 [])].
Proof. intros W. unfold publish. rewrite W. reflexivity. Qed.

Section Accept.
Variable dr : Z -> list (Z * Z) -> option (list (Z * Z)).
Variable nr : list (Z * Z) -> list (Z * Z).
Variable sm : sessmap.

Definition accepts (x : state) (sid : N) : bool :=
  match ca x with
  | Some c => attached c sid && is_writer (pud_mode (get_pud c (sess_uid sm sid)))
  | None => false
  end.

Definition first_reply (o : out) (sid : N) : option frame :=
  match o with (s0, fr) :: _ => if N.eqb s0 sid then Some fr else None | [] => None end.

(* accepted <-> the conditions hold (no store fault; reachable states satisfy inv_num) *)
Lemma accept_iff x sid content noecho : inv_num x ->
  ((exists n, first_reply (snd (step dr nr sm NoFault x (OPub sid content noecho))) sid = Some (Ctrl 202 [(P_seq, n)]))
   <-> accepts x sid = true).
Proof.
  intros I. destruct x as [s [c|] n0]; unfold accepts, step; cbn [st ca negb].
  2:{ cbn. rewrite N.eqb_refl. split; [intros [o H]; discriminate|discriminate]. }
  destruct (attached c sid) eqn:AT; cbn [negb andb fst snd].
  2:{ cbn. rewrite N.eqb_refl. split; [intros [o H]; discriminate|discriminate]. }
  destruct (is_writer (pud_mode (get_pud c (sess_uid sm sid)))) eqn:W.
  - split; [reflexivity|intros _]. rewrite publish_nofault; auto.
    + cbn. rewrite N.eqb_refl. eexists. reflexivity.
    + destruct I as [_ [_ [_ [_ C2]]]]. cbn [st ca] in C2. intros Hin. specialize (C2 _ Hin). lia.
  - rewrite publish_rejected by exact W. cbn. rewrite N.eqb_refl. split; [intros [o H]; discriminate|discriminate].
Qed.

(* rejected: exactly one error reply to the sender and NO effect at all, for any fault plan *)
Lemma reject_no_effect f x sid content noecho : accepts x sid = false ->
  exists code, 400 <= code /\
    step dr nr sm f x (OPub sid content noecho) = (mkState (st x) (ca x) 0, [(sid, Ctrl code [])]).
Proof.
  intros A. destruct x as [s [c|] n0]; unfold accepts in A; unfold step; cbn [st ca negb] in *.
  2:{ exists 409. split; [lia|reflexivity]. }
  destruct (attached c sid) eqn:AT; cbn [negb andb] in *.
  2:{ exists 409. split; [lia|reflexivity]. }
  rewrite publish_rejected by exact A. exists 403. split; [lia|reflexivity].
Qed.
End Accept.
