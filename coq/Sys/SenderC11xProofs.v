(** * Proofs about [SenderC11x]: the sender header is the server's own on every route. *)
From Coq Require Import NArith List Bool Lia.
From Tinode Require Import Sys.SessionAuth Sys.SessionAuthProofs Sys.SenderC11x.
Import ListNotations.
Local Open Scope N_scope.

Lemma hget_hdel_same_c11x k l : hget k (hdel k l) = None.
Proof.
  induction l as [|[k' v] r IH]; simpl; auto.
  destruct (k' =? k) eqn:E; simpl; auto. rewrite E. exact IH.
Qed.

Lemma hget_hdel_other_c11x k k' l : k' <> k -> hget k' (hdel k l) = hget k' l.
Proof.
  intro Hn. induction l as [|[k2 v] r IH]; simpl; auto.
  destruct (k2 =? k) eqn:E; simpl.
  - apply N.eqb_eq in E. subst k2.
    destruct (k =? k') eqn:E2; auto. apply N.eqb_eq in E2. congruence.
  - rewrite IH. reflexivity.
Qed.

Lemma hget_hset_same_c11x k v l : hget k (hset k v l) = Some v.
Proof. unfold hset. simpl. rewrite N.eqb_refl. reflexivity. Qed.

Lemma hget_hset_other_c11x k k' v l : k' <> k -> hget k' (hset k v l) = hget k' l.
Proof.
  intro Hn. unfold hset. simpl. destruct (k =? k') eqn:E.
  - apply N.eqb_eq in E. congruence.
  - apply hget_hdel_other_c11x. exact Hn.
Qed.

Lemma site1_sender_c11x suid au h : head_get KSender (site1_c11x suid au h) = servers_own_c11x suid au.
Proof.
  unfold site1_c11x, servers_own_c11x. destruct (au =? suid); simpl.
  - destruct h as [l|]; simpl; auto.
    destruct (hdel KSender l) eqn:E; cbn [head_get]; auto.
    rewrite <- E. apply hget_hdel_same_c11x.
  - first [reflexivity | apply hget_hset_same_c11x].
Qed.

Lemma site2_sender_c11x suid au h : head_get KSender (site2_c11x suid au h) = servers_own_c11x suid au.
Proof.
  unfold site2_c11x, servers_own_c11x. destruct (au =? suid); simpl.
  - destruct h as [l|]; simpl; auto. apply hget_hdel_same_c11x.
  - first [reflexivity | apply hget_hset_same_c11x].
Qed.

Lemma site1_other_c11x suid au h k : k <> KSender -> head_get k (site1_c11x suid au h) = head_get k h.
Proof.
  intro Hn. unfold site1_c11x. destruct (au =? suid); cbn [negb].
  - destruct h as [l|]; cbn [head_get]; auto.
    destruct (hdel KSender l) eqn:E; cbn [head_get].
    + rewrite <- (hget_hdel_other_c11x KSender k l Hn). rewrite E. reflexivity.
    + rewrite <- E. apply hget_hdel_other_c11x. exact Hn.
  - cbn [head_get]. rewrite hget_hset_other_c11x by exact Hn. destruct h; reflexivity.
Qed.

Lemma site2_other_c11x suid au h k : k <> KSender -> head_get k (site2_c11x suid au h) = head_get k h.
Proof.
  intro Hn. unfold site2_c11x. destruct (au =? suid); cbn [negb].
  - destruct h as [l|]; cbn [head_get]; auto. apply hget_hdel_other_c11x. exact Hn.
  - cbn [head_get]. rewrite hget_hset_other_c11x by exact Hn. destruct h; reflexivity.
Qed.

Lemma flow_cfg_head_c11x suid au q : pub_flow_cfg_c11x sites_head_c11x suid au q = pub_flow_c11x suid au q.
Proof. reflexivity. Qed.

(** The flow stores [From = acting user]; the header is the one [site2] leaves. *)
Lemma flow_stored_c11x suid au q f h : pub_flow_c11x suid au q = OStored f h ->
  f = au /\ (q_attached q = true \/ q_sys q = true) /\ q_name_ok q = true /\ q_gates q = true /\
  h = site2_c11x suid au (site1_c11x suid au (q_head q)).
Proof.
  unfold pub_flow_c11x, topic_pub_c11x.
  destruct (q_name_ok q); simpl; [|discriminate].
  destruct (q_attached q); simpl.
  - destruct (q_gates q); simpl; [|discriminate]. intro H. inversion H. auto.
  - destruct (q_sys q); simpl; [|discriminate].
    destruct (q_gates q); simpl; [|discriminate]. intro H. inversion H. auto.
Qed.

Lemma flow_sender_c11x suid au q f h : pub_flow_c11x suid au q = OStored f h ->
  f = au /\ head_get KSender h = servers_own_c11x suid au /\
  (forall k, k <> KSender -> head_get k h = head_get k (q_head q)).
Proof.
  intro H. destruct (flow_stored_c11x _ _ _ _ _ H) as (A & _ & _ & _ & E). subst h.
  split; [exact A|]. split.
  - apply site2_sender_c11x.
  - intros k Hk. rewrite site2_other_c11x by exact Hk. apply site1_other_c11x. exact Hk.
Qed.

(** Which configurations of the two sites keep the header server-owned: exactly those in
    which every route is covered by at least one site. *)
Definition covered_c11x (cfg : sites) : bool :=
  (s1_attached cfg || s2 cfg) && (s1_sys cfg || s2 cfg).

Lemma covered_sender_ok_c11x cfg : covered_c11x cfg = true -> sender_ok_c11x cfg.
Proof.
  intros Hc suid au q f h. unfold pub_flow_cfg_c11x, topic_pub_cfg_c11x.
  destruct (q_name_ok q); simpl; [|discriminate].
  unfold covered_c11x in Hc. apply andb_true_iff in Hc. destruct Hc as [Ha Hs].
  destruct (q_attached q); simpl.
  - destruct (q_gates q); simpl; [|discriminate]. intro H. inversion H. subst. split; auto.
    destruct (s2 cfg); [apply site2_sender_c11x|].
    rewrite orb_false_r in Ha. rewrite Ha. apply site1_sender_c11x.
  - destruct (q_sys q); simpl; [|discriminate].
    destruct (q_gates q); simpl; [|discriminate]. intro H. inversion H. subst. split; auto.
    destruct (s2 cfg); [apply site2_sender_c11x|].
    rewrite orb_false_r in Hs. rewrite Hs. apply site1_sender_c11x.
Qed.

(** Witnesses: an own message (acting user = session user = 1) whose client-supplied head
    is {"sender": 5}, on the attached route and on the unattached 'sys' route. *)
Definition w_forged_c11x : head := Some [(KSender, 5)].
Definition w_attached_c11x : pubq :=
  {| q_name_ok := true; q_attached := true; q_sys := false; q_gates := true; q_head := w_forged_c11x |}.
Definition w_sys_c11x : pubq :=
  {| q_name_ok := true; q_attached := false; q_sys := true; q_gates := true; q_head := w_forged_c11x |}.

Lemma sender_ok_covered_c11x cfg : sender_ok_c11x cfg -> covered_c11x cfg = true.
Proof.
  intro H. destruct cfg as [a s b]. destruct b; [destruct a, s; reflexivity|].
  destruct a.
  - destruct s; [reflexivity|]. exfalso.
    assert (X : Some 5 = None) by exact (proj2 (H 1 1 w_sys_c11x 1 w_forged_c11x eq_refl)).
    discriminate X.
  - exfalso.
    assert (X : Some 5 = None) by exact (proj2 (H 1 1 w_attached_c11x 1 w_forged_c11x eq_refl)).
    discriminate X.
Qed.

(** Link with dispatch: the acting user of a non-root session is its own user. *)
Lemma call_user_nonroot_c11x t st m c : r_call (dispatch t st m) = Some c -> lvl st <> LRoot ->
  c_user c = uid st.
Proof.
  intros H Hn. destruct (acts_as t st m c H) as (_ & [(_ & A & _)|(B & _)]); [exact A|contradiction].
Qed.

Lemma pub_sender_c11x : forall t st e q f h,
  pub_c11x t st e q = inr (OStored f h) ->
  (exists c, r_call (dispatch t st (pub_msg_c11x e q)) = Some c /\ f = c_user c) /\
  head_get KSender h = servers_own_c11x (uid st) f /\
  (head_get KSender h = None \/ (head_get KSender h = Some (uid st) /\ f <> uid st)) /\
  (lvl st <> LRoot -> f = uid st /\ head_get KSender h = None) /\
  (forall k, k <> KSender -> head_get k h = head_get k (q_head q)).
Proof.
  intros t st e q f h H. unfold pub_c11x in H.
  destruct (r_call (dispatch t st _)) as [c|] eqn:Hc; [|discriminate].
  inversion H as [H1]. destruct (flow_sender_c11x _ _ _ _ _ H1) as (A & B & C). subst f.
  split; [exists c; auto|]. split; [exact B|]. split; [|split; [|exact C]].
  - rewrite B. unfold servers_own_c11x. destruct (c_user c =? uid st) eqn:E; auto.
    right. split; auto. intro X. rewrite X, N.eqb_refl in E. discriminate.
  - intro Hn. pose proof (call_user_nonroot_c11x _ _ _ _ Hc Hn) as U. split; [exact U|].
    rewrite B, U. unfold servers_own_c11x. rewrite N.eqb_refl. reflexivity.
Qed.

Lemma attached_only_partial_c11x : forall suid au q f h, q_attached q = true ->
  pub_flow_cfg_c11x {| s1_attached := true; s1_sys := false; s2 := false |} suid au q = OStored f h ->
  f = au /\ head_get KSender h = servers_own_c11x suid au.
Proof.
  intros suid au q f h Ha. unfold pub_flow_cfg_c11x, topic_pub_cfg_c11x. rewrite Ha.
  destruct (q_name_ok q); simpl; [|discriminate].
  destruct (q_gates q); simpl; [|discriminate]. intro H. inversion H. split; auto.
  apply site1_sender_c11x.
Qed.
