(* C16  Lemmas about replyCreateUser above the store slice (Sys/FilesAccC16c.v). *)
From Coq Require Import NArith ZArith List Bool.
From Tinode Require Import Pure.Url Sys.Files Sys.FilesStoreProofs Sys.FilesAccC16c.
Import ListNotations.

(* creating an account with a fresh id and deleting it again leaves the slice as it was *)
Lemma add_del_user_id : forall s u,
  inv s -> memN u (users s) = false -> step (step s (OAddUser u)) (ODelUser u) = s.
Proof.
  intros s u [_ [_ [_ [HL HA]]]] Hu.
  cbn [step]. rewrite Hu. cbn [step files links msgs next_mid topics users disk att].
  assert (Hl : drop_target (fun tg => match tg with TUser x => (x =? u)%N | _ => false end) (links s) = links s).
  { unfold drop_target. apply filter_all. intros [f t] Hin. cbn [snd].
    destruct t as [m|t|x]; try reflexivity.
    destruct (x =? u)%N eqn:E; [|reflexivity]. apply N.eqb_eq in E. subst x.
    destruct (HL f (TUser u) Hin) as [_ Hlive]. cbn [target_live] in Hlive. congruence. }
  assert (Ha : drop_target (fun tg => match tg with TUser x => (x =? u)%N | _ => false end) (att s) = att s).
  { unfold drop_target. apply filter_all. intros [f t] Hin. cbn [snd].
    destruct t as [m|t|x]; try reflexivity.
    destruct (x =? u)%N eqn:E; [|reflexivity]. apply N.eqb_eq in E. subst x.
    destruct (HA f (TUser u) Hin) as [Hin' _].
    destruct (HL f (TUser u) Hin') as [_ Hlive]. cbn [target_live] in Hlive. congruence. }
  assert (Hus : filter (fun x => negb (x =? u)%N) (u :: users s) = users s).
  { cbn [filter]. rewrite N.eqb_refl. cbn [negb]. apply filter_all. intros x Hx.
    destruct (x =? u)%N eqn:E; [|reflexivity]. apply N.eqb_eq in E. subst x.
    apply memN_false in Hu. contradiction. }
  rewrite Hl, Ha, Hus. destruct s; reflexivity.
Qed.

(* ---- closed form ---- *)
(* the request is refused *)
Definition acc_refused_c16c (ft : acc_faults_c16c) (creds_ok : bool) : bool :=
  af_unique ft || af_create ft || af_share ft || af_auth ft || negb creds_ok.

(* the code of the reply *)
Definition acc_code_c16c (ft : acc_faults_c16c) (creds_ok : bool) : Z :=
  if af_unique ft || af_create ft || af_share ft then 500%Z
  else if af_auth ft then 200%Z
  else if negb creds_ok then 403%Z else 201%Z.

(* the link call is made *)
Definition acc_link_due_c16c (handler : bool) (serve : list N) (urls : list (list N)) : bool :=
  negb (length urls =? 0)%nat && handler && negb (length (resolve serve urls) =? 0)%nat.

(* the adapter calls of the request in the order they are made *)
Definition acc_calls_c16c (ft : acc_faults_c16c) (handler : bool) (serve : list N) (creds_ok : bool)
    (urls : list (list N)) : list (acall_c16c * bool) :=
  (AUniqueC16c, af_unique ft) ::
  if af_unique ft then []
  else (AUserCreateC16c, af_create ft) ::
    if af_create ft then []
    else (ATopicShareC16c, af_share ft) ::
      if af_share ft then [(AUserDeleteC16c, false)]
      else (AAuthAddC16c, af_auth ft) ::
        if af_auth ft then [(AUserDeleteC16c, false)]
        else if negb creds_ok then [(AUserDeleteC16c, false)]
        else if acc_link_due_c16c handler serve urls then [(AFileLinkC16c, af_link ft)] else [].

Ltac fin_c16c :=
  cbn [fst snd aa_calls aa_fs rev orb negb ao_created ao_code]; rewrite <- ?app_assoc; cbn [app]; repeat split; try reflexivity; try discriminate.

Lemma create_user_char : forall ft handler serve s uid creds_ok urls,
  let r := create_user_c16c ft handler serve s uid creds_ok urls in
  (ao_created (snd r) = false <-> acc_refused_c16c ft creds_ok = true) /\
  ao_code (snd r) = acc_code_c16c ft creds_ok /\
  rev (aa_calls (fst r)) = rev (aa_calls s) ++ acc_calls_c16c ft handler serve creds_ok urls /\
  aa_fs (fst r) =
    (if af_unique ft || af_create ft then aa_fs s
     else if af_share ft || af_auth ft || negb creds_ok then step (step (aa_fs s) (OAddUser uid)) (ODelUser uid)
     else if acc_link_due_c16c handler serve urls && negb (af_link ft)
          then step (step (aa_fs s) (OAddUser uid)) (OUserAvatar uid (resolve serve urls))
          else step (aa_fs s) (OAddUser uid)).
Proof.
  intros ft handler serve s uid creds_ok urls.
  unfold create_user_c16c, acc_refused_c16c, acc_code_c16c, acc_refused_out_c16c, acc_created_out_c16c, acc_calls_c16c, acc_link_due_c16c, user_delete_c16c, acc_link_c16c,
    alog_c16c, awith_fs_c16c.
  destruct ft as [f1 f2 f3 f4 f5]. cbn [af_unique af_create af_share af_auth af_link].
  destruct f1; [fin_c16c|].
  destruct f2; [fin_c16c|].
  destruct f3; [fin_c16c|].
  destruct f4; [fin_c16c|].
  destruct creds_ok; cbn [negb orb];
    [|fin_c16c].
  destruct (length urls =? 0)%nat; cbn [negb andb];
    [fin_c16c|].
  destruct handler; cbn [negb andb];
    [|fin_c16c].
  destruct (length (resolve serve urls) =? 0)%nat; cbn [negb andb];
    [fin_c16c|].
  destruct f5.
  - fin_c16c.
  - fin_c16c.
Qed.

(* a refused {acc user="new"} leaves the slice of a reachable state exactly as it was; the link call was not made *)
Lemma create_user_refused : forall h ft handler serve cl uid creds_ok urls,
  let s := {| aa_fs := run h; aa_calls := cl |} in
  memN uid (users (run h)) = false ->
  ao_created (snd (create_user_c16c ft handler serve s uid creds_ok urls)) = false ->
  aa_fs (fst (create_user_c16c ft handler serve s uid creds_ok urls)) = run h /\
  forall b, ~ In (AFileLinkC16c, b) (acc_calls_c16c ft handler serve creds_ok urls).
Proof.
  intros h ft handler serve cl uid creds_ok urls s Hu Hr.
  destruct (create_user_char ft handler serve s uid creds_ok urls) as [O [_ [_ F]]]. cbv zeta in O, F.
  apply O in Hr. rewrite F. unfold acc_refused_c16c in Hr. cbn [aa_fs s].
  split.
  - destruct (af_unique ft); [reflexivity|]. destruct (af_create ft); [reflexivity|]. cbn [orb] in Hr |- *.
    rewrite Hr. apply add_del_user_id; [apply inv_run|exact Hu].
  - intros b. unfold acc_calls_c16c.
    destruct (af_unique ft); [intros [X|[]]; discriminate|].
    destruct (af_create ft); [intros [X|[X|[]]]; discriminate|].
    destruct (af_share ft); [intros [X|[X|[X|[X|[]]]]]; discriminate|].
    destruct (af_auth ft); [intros [X|[X|[X|[X|[X|[]]]]]]; discriminate|].
    cbn [orb] in Hr. rewrite Hr. intros [X|[X|[X|[X|[X|[]]]]]]; discriminate.
Qed.

(* a created account whose avatar list resolves has the first id linked (when it names an upload record
   and the link call does not fail), and that is the account creation + avatar operation of the history model *)
Lemma create_user_created : forall ft handler serve s uid creds_ok urls,
  ao_created (snd (create_user_c16c ft handler serve s uid creds_ok urls)) = true ->
  aa_fs (fst (create_user_c16c ft handler serve s uid creds_ok urls)) =
    (if acc_link_due_c16c handler serve urls && negb (af_link ft)
     then step (step (aa_fs s) (OAddUser uid)) (OUserAvatar uid (resolve serve urls))
     else step (aa_fs s) (OAddUser uid)).
Proof.
  intros ft handler serve s uid creds_ok urls Hc.
  destruct (create_user_char ft handler serve s uid creds_ok urls) as [O [_ [_ F]]]. cbv zeta in O, F.
  rewrite F. unfold acc_refused_c16c in O.
  destruct (af_unique ft); [destruct O as [_ O]; rewrite O in Hc by reflexivity; discriminate|].
  destruct (af_create ft); [destruct O as [_ O]; rewrite O in Hc by reflexivity; discriminate|].
  destruct (af_share ft); [destruct O as [_ O]; rewrite O in Hc by reflexivity; discriminate|].
  destruct (af_auth ft); [destruct O as [_ O]; rewrite O in Hc by reflexivity; discriminate|].
  destruct creds_ok; [reflexivity|destruct O as [_ O]; rewrite O in Hc by reflexivity; discriminate].
Qed.
