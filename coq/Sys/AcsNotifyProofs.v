(* Proofs about Sys/AcsNotify.v: the parameters of a change notification applied to
   the old modes give the new modes (all modes a topic can hold), and every tracker of
   the notification system (sessions of the target in the topic and on 'me', the
   requester, a proxy of the topic) holds the authoritative modes after every history. *)
From Coq Require Import NArith List Bool Lia.
From Tinode Require Import Base.Util Pure.Acs Pure.AcsProofs Sys.AcsNotify.
Import ListNotations.
Open Scope N_scope.

(* ---------- association lists ---------- *)
Section AssocLemmas.
  Context {A : Type}.
  Implicit Types l : list (N * A).

  Lemma lk_put k k' v l : lk k (put k' v l) = if k =? k' then Some v else lk k l.
  Proof.
    induction l as [|[k0 v0] r IH]; cbn [put lk].
    - destruct (k =? k'); reflexivity.
    - destruct (k' =? k0) eqn:E.
      + apply N.eqb_eq in E. subst. cbn [lk]. destruct (k =? k0); reflexivity.
      + cbn [lk]. destruct (k =? k0) eqn:E2.
        * apply N.eqb_eq in E2. subst. rewrite N.eqb_sym, E. reflexivity.
        * exact IH.
  Qed.

  Lemma lk_drop k k' l : lk k (drop k' l) = if k =? k' then None else lk k l.
  Proof.
    unfold drop. induction l as [|[k0 v0] r IH]; cbn [filter lk fst].
    - destruct (k =? k'); reflexivity.
    - destruct (k0 =? k') eqn:E; cbn [negb].
      + apply N.eqb_eq in E. subst. rewrite IH. destruct (k =? k'); reflexivity.
      + cbn [lk]. destruct (k =? k0) eqn:E2.
        * apply N.eqb_eq in E2. subst. rewrite E. reflexivity.
        * exact IH.
  Qed.

  Lemma lk_none_notin k l : ~ In k (map fst l) -> lk k l = None.
  Proof.
    induction l as [|[k0 v0] r IH]; cbn [map fst lk In]; [reflexivity|].
    intros H. destruct (k =? k0) eqn:E.
    - apply N.eqb_eq in E. subst. exfalso. apply H. now left.
    - apply IH. intros X. apply H. now right.
  Qed.

  Lemma keys_filter p l x : In x (map fst (filter p l)) -> In x (map fst l).
  Proof.
    induction l as [|e r IH]; cbn [filter map]; [exact (fun H => H)|].
    destruct (p e); cbn [map In]; intuition.
  Qed.

  Lemma nodup_filter p l : NoDup (map fst l) -> NoDup (map fst (filter p l)).
  Proof.
    induction l as [|e r IH]; cbn [filter map]; [exact (fun H => H)|].
    intros H. inversion H as [|? ? Hn Hr]; subst.
    destruct (p e); [|auto]. cbn [map]. constructor; [|auto].
    intros X. apply Hn. eapply keys_filter; eauto.
  Qed.

  Lemma keys_put k v l x : In x (map fst (put k v l)) -> x = k \/ In x (map fst l).
  Proof.
    induction l as [|[k0 v0] r IH]; cbn [put map fst In].
    - intros [H|[]]. now left.
    - destruct (k =? k0) eqn:E; cbn [map fst In].
      + apply N.eqb_eq in E. subst. intros [H|H]; [now left|now right; right].
      + intros [H|H]; [right; now left|]. destruct (IH H); [now left|right; now right].
  Qed.

  Lemma nodup_put k v l : NoDup (map fst l) -> NoDup (map fst (put k v l)).
  Proof.
    induction l as [|[k0 v0] r IH]; cbn [put map fst].
    - intros _. constructor; [exact (fun H => H)|constructor].
    - intros H. inversion H as [|? ? Hn Hr]; subst.
      destruct (k =? k0) eqn:E; cbn [map fst].
      + apply N.eqb_eq in E. subst. constructor; assumption.
      + constructor; [|auto]. intros X. destruct (keys_put _ _ _ _ X) as [X1|X1].
        * subst. rewrite N.eqb_refl in E. discriminate.
        * auto.
  Qed.

  (* filtering on the whole entry, keys without duplicates *)
  Lemma lk_filter p k l : NoDup (map fst l) ->
    lk k (filter p l) = match lk k l with Some v => if p (k, v) then Some v else None | None => None end.
  Proof.
    induction l as [|[k0 v0] r IH]; cbn [filter lk map fst]; [reflexivity|].
    intros H. inversion H as [|? ? Hn Hr]; subst.
    destruct (k =? k0) eqn:E.
    - apply N.eqb_eq in E. subst. destruct (p (k0, v0)) eqn:P; cbn [lk].
      + now rewrite N.eqb_refl.
      + apply lk_none_notin. intros X. apply Hn. eapply keys_filter; eauto.
    - destruct (p (k0, v0)); cbn [lk]; [rewrite E|]; auto.
  Qed.

  Lemma mem_filter p k l : NoDup (map fst l) ->
    mem k (map fst (filter p l)) = match lk k l with Some v => p (k, v) | None => false end.
  Proof.
    unfold mem.
    induction l as [|[k0 v0] r IH]; cbn [filter lk map fst existsb]; [reflexivity|].
    intros H. inversion H as [|? ? Hn Hr]; subst.
    destruct (k =? k0) eqn:E.
    - apply N.eqb_eq in E. subst. destruct (p (k0, v0)) eqn:P; cbn [map fst existsb].
      + now rewrite N.eqb_refl.
      + destruct (existsb (N.eqb k0) (map fst (filter p r))) eqn:X; [|reflexivity].
        apply existsb_exists in X. destruct X as [x [X1 X2]]. apply N.eqb_eq in X2. subst.
        exfalso. apply Hn. eapply keys_filter; eauto.
    - destruct (p (k0, v0)); cbn [map fst existsb]; [rewrite E; cbn [orb]|]; auto.
  Qed.

  Lemma lk_map (f : N * A -> A) k l :
    lk k (map (fun e => (fst e, f e)) l) = match lk k l with Some v => Some (f (k, v)) | None => None end.
  Proof.
    induction l as [|[k0 v0] r IH]; cbn [map lk fst]; [reflexivity|].
    destruct (k =? k0) eqn:E; [|exact IH]. apply N.eqb_eq in E. now subst.
  Qed.
End AssocLemmas.

Lemma lk_mapv {A B} (f : A -> B) k (l : list (N * A)) :
  lk k (map (fun e => (fst e, f (snd e))) l) = match lk k l with Some v => Some (f v) | None => None end.
Proof.
  induction l as [|[k0 v0] r IH]; cbn [map lk fst snd]; [reflexivity|].
  destruct (k =? k0); [reflexivity|exact IH].
Qed.

(* ---------- one notification ---------- *)

Lemma nmode_norm m : nmode m = norm m.
Proof. reflexivity. Qed.

(* the notification string of (old, new) applied to the normalised old value gives the
   normalised new value, without error: every pair of the 258 x 258 modes a topic can hold *)
Definition track2_ok (o n : N) : bool :=
  let r := apply_mutation (nmode o) (notify_string o n) in snd r && (fst r =? nmode n).
Lemma track2_sweep : forallb (fun o => forallb (track2_ok o) mode_domain) mode_domain = true.
Proof. vm_compute. reflexivity. Qed.

Lemma notify_apply o n : In o mode_domain -> In n mode_domain ->
  apply_mutation (nmode o) (notify_string o n) = (nmode n, true).
Proof.
  intros Ho Hn.
  pose proof (sweep_list _ _ track2_sweep o Ho) as R. cbv beta in R.
  pose proof (sweep_list _ _ R n Hn) as R2. unfold track2_ok in R2.
  apply andb_true_iff in R2. destruct R2 as [R1 R2]. apply N.eqb_eq in R2.
  destruct (apply_mutation (nmode o) (notify_string o n)); cbn in *. congruence.
Qed.

Lemma follow_opt_notify ow og nw ng :
  In ow mode_domain -> In og mode_domain -> In nw mode_domain -> In ng mode_domain ->
  follow_opt (nmodes (ow, og)) (notify_params ow og nw ng) = Some (nmodes (nw, ng)).
Proof.
  intros H1 H2 H3 H4. unfold follow_opt, notify_params, nmodes. cbn [fst snd].
  rewrite (notify_apply ow nw H1 H3). cbn [negb].
  rewrite (notify_apply og ng H2 H4). reflexivity.
Qed.

Lemma follow_opt_empty cur : follow_opt cur ([], []) = Some cur.
Proof. destruct cur. reflexivity. Qed.

Lemma pack_acs_none d : pack_acs d = None -> d = ([], []).
Proof. destruct d as [[|a x] [|b y]]; cbn; congruence. Qed.

Lemma pack_acs_some d d' : pack_acs d = Some d' -> d' = d.
Proof. destruct d as [[|a x] [|b y]]; cbn; congruence. Qed.

(* a client that applies the (possibly absent) payload *)
Lemma follow_notify ow og nw ng :
  In ow mode_domain -> In og mode_domain -> In nw mode_domain -> In ng mode_domain ->
  follow (nmodes (ow, og)) (pack_acs (notify_params ow og nw ng)) = nmodes (nw, ng).
Proof.
  intros H1 H2 H3 H4. pose proof (follow_opt_notify ow og nw ng H1 H2 H3 H4) as F.
  unfold follow. destruct (pack_acs _) as [d|] eqn:P.
  - apply pack_acs_some in P. subst. now rewrite F.
  - apply pack_acs_none in P. rewrite P, follow_opt_empty in F. congruence.
Qed.

(* the proxy table *)
Lemma proxy_pres_zero t a : proxy_pres t 0 a = t.
Proof. unfold proxy_pres. destruct a; reflexivity. Qed.

Lemma tget_put t u v u' : tget (put u v t) u' = if u' =? u then v else tget t u'.
Proof. unfold tget. rewrite lk_put. destruct (u' =? u); reflexivity. Qed.

Lemma proxy_pres_notify t target ow og nw ng :
  target <> 0 ->
  In ow mode_domain -> In og mode_domain -> In nw mode_domain -> In ng mode_domain ->
  tget t target = nmodes (ow, og) ->
  forall u, tget (proxy_pres t target (pack_acs (notify_params ow og nw ng))) u =
            if u =? target then nmodes (nw, ng) else tget t u.
Proof.
  intros Hz H1 H2 H3 H4 Hc u. pose proof (follow_opt_notify ow og nw ng H1 H2 H3 H4) as F.
  unfold proxy_pres. destruct (pack_acs _) as [d|] eqn:P.
  - apply pack_acs_some in P. subst.
    destruct (target =? 0) eqn:Z; [apply N.eqb_eq in Z; contradiction|].
    rewrite Hc, F. apply tget_put.
  - apply pack_acs_none in P. rewrite P, follow_opt_empty in F.
    destruct (u =? target) eqn:E; [|reflexivity]. apply N.eqb_eq in E. subst. congruence.
Qed.

(* reading the full modes *)
Definition small_ok (m : N) : bool := nmode m =? m.
Lemma small_sweep : forallb small_ok (nrange 256) = true.
Proof. vm_compute. reflexivity. Qed.
Lemma nmode_small m : m < 256 -> nmode m = m.
Proof. intros H. pose proof (sweep1 _ 256 small_sweep m H) as R. now apply N.eqb_eq. Qed.

Lemma snap_small cur w g : w < 256 -> g < 256 -> snap cur w g = nmodes (w, g).
Proof.
  intros Hw Hg. unfold snap, nmodes. cbn [fst snd].
  rewrite (parse_marshal w (fst cur) Hw), (parse_marshal g (snd cur) Hg). cbn [fst].
  now rewrite (nmode_small w Hw), (nmode_small g Hg).
Qed.

Definition snapb_ok (m : N) : bool := fst (unmarshal_text 0 (mode_string m)) =? nmode m.
Lemma snapb_sweep : forallb snapb_ok mode_domain = true.
Proof. vm_compute. reflexivity. Qed.
Lemma snap_blank w g : In w mode_domain -> In g mode_domain -> snap blank w g = nmodes (w, g).
Proof.
  intros Hw Hg. unfold snap, nmodes, blank. cbn [fst snd].
  pose proof (sweep_list _ _ snapb_sweep w Hw) as R1. pose proof (sweep_list _ _ snapb_sweep g Hg) as R2.
  unfold snapb_ok in *. apply N.eqb_eq in R1. apply N.eqb_eq in R2. now rewrite R1, R2.
Qed.

Lemma small_in_domain m : m < 256 -> In m mode_domain.
Proof. intros H. unfold mode_domain. apply in_or_app. left. apply in_nrange. cbn. lia. Qed.
Lemma unset_in_domain : In ModeUnset mode_domain.
Proof. unfold mode_domain. apply in_or_app. left. apply in_nrange. cbn. unfold ModeUnset. lia. Qed.

(* ---------- histories ---------- *)

(* what the callers of notifySubChange pass and what session.go lets through *)
Definition wf_op (s : nsys) (o : nop) : Prop :=
  match o with
  | NAttach _ _ _ | NDetach _ => True
  | NChange skip target nw ng =>
    target <> 0 /\
    ((nw < 256 /\ ng < 256) \/
     (* unsubscribe: both modes unset; the requester's session is attached to the topic *)
     (nw = ModeUnset /\ ng = ModeUnset /\ lk skip (sess s) <> Some (target, false)))
  end.

Fixpoint wf_run (s : nsys) (h : list nop) : Prop :=
  match h with
  | [] => True
  | o :: r => wf_op s o /\ wf_run (nstep s o) r
  end.

Definition tbl_ok (t : tbl) : Prop :=
  forall u m, lk u t = Some m -> In (fst m) mode_domain /\ In (snd m) mode_domain.

Record ninv (s : nsys) : Prop := mkInv {
  inv_fol : forall sid u it, lk sid (sess s) = Some (u, it) -> lk sid (fol s) = Some (nmodes (aget (auth s) u));
  inv_prox : forall u, tget (prox s) u = nmodes (aget (auth s) u);
  inv_dom : tbl_ok (auth s);
  inv_nodup : NoDup (map fst (sess s)) }.

Lemma aget_dom t u : tbl_ok t -> In (fst (aget t u)) mode_domain /\ In (snd (aget t u)) mode_domain.
Proof.
  intros H. unfold aget. destruct (lk u t) eqn:L; [eauto|]. cbn [fst snd]. split; apply unset_in_domain.
Qed.

Lemma aget_put t u v u' : aget (put u v t) u' = if u' =? u then v else aget t u'.
Proof. unfold aget. rewrite lk_put. destruct (u' =? u); reflexivity. Qed.

Lemma aget_drop t u u' : aget (drop u t) u' = if u' =? u then (ModeUnset, ModeUnset) else aget t u'.
Proof. unfold aget. rewrite lk_drop. destruct (u' =? u); reflexivity. Qed.

Lemma ninv_init a : tbl_ok a -> ninv (ninit a).
Proof.
  intros H. constructor; cbn [ninit sess fol prox auth].
  - intros sid u it X. discriminate.
  - intros u. unfold tget, aget. rewrite (lk_mapv nmodes). destruct (lk u a); reflexivity.
  - exact H.
  - constructor.
Qed.

Lemma ninv_step s o : ninv s -> wf_op s o -> ninv (nstep s o).
Proof.
  intros [If Ip Id In_] W. destruct o as [sid uid it|sid|skip target nw ng].
  - (* attach *)
    cbn [nstep]. destruct (aget (auth s) uid) as [w g] eqn:A.
    constructor; cbn [sess fol prox auth]; auto.
    + intros sid' u it' L. rewrite lk_put in L. rewrite lk_put.
      destruct (sid' =? sid) eqn:E.
      * inversion L; subst. rewrite A. f_equal. apply snap_blank.
        -- pose proof (aget_dom (auth s) u Id) as D. rewrite A in D. apply D.
        -- pose proof (aget_dom (auth s) u Id) as D. rewrite A in D. apply D.
      * eauto.
    + now apply nodup_put.
  - (* detach *)
    constructor; cbn [nstep sess fol prox auth]; auto.
    + intros sid' u it' L. rewrite lk_drop in L. destruct (sid' =? sid); [discriminate|eauto].
    + now apply nodup_filter.
  - (* change *)
    destruct W as [Hz W]. cbn [nstep].
    destruct (aget (auth s) target) as [ow og] eqn:A.
    pose proof (aget_dom (auth s) target Id) as D. rewrite A in D. cbn [fst snd] in D. destruct D as [Dw Dg].
    pose proof (Ip target) as Pt. rewrite A in Pt.
    destruct W as [[Hw Hg]|[Hw [Hg Hs]]].
    + (* modes changed *)
      assert (U : ns_unsub nw ng = false).
      { unfold ns_unsub, ModeUnset. apply orb_false_iff. split; apply N.eqb_neq; lia. }
      rewrite U. rewrite proxy_pres_zero.
      pose proof (small_in_domain nw Hw) as Dnw. pose proof (small_in_domain ng Hg) as Dng.
      constructor; cbn [sess fol prox auth]; auto.
      * intros sid u it L. rewrite lk_map. rewrite (If sid u it L). f_equal. cbn [fst snd].
        unfold direct_rcpt, me_rcpt. rewrite !mem_filter by assumption. rewrite L. cbn [fst snd].
        unfold user_of. rewrite L. rewrite aget_put.
        destruct (u =? target) eqn:E.
        -- apply N.eqb_eq in E. subst u. rewrite A.
           destruct (sid =? skip) eqn:E2; cbn [negb andb orb].
           ++ rewrite !andb_false_r. cbn [orb]. apply snap_small; assumption.
           ++ rewrite !andb_true_r. destruct it; cbn [negb orb]; apply follow_notify; assumption.
        -- destruct it, (sid =? skip); reflexivity.
      * intros u. rewrite (proxy_pres_notify (prox s) target ow og nw ng Hz Dw Dg Dnw Dng Pt u).
        rewrite aget_put. destruct (u =? target); [reflexivity|apply Ip].
      * intros u m L. rewrite lk_put in L. destruct (u =? target); [|eauto].
        inversion L; subst. cbn [fst snd]. split; assumption.
    + (* unsubscribe *)
      subst nw ng. change (ns_unsub ModeUnset ModeUnset) with true. cbv iota.
      constructor; cbn [sess fol prox auth].
      * intros sid u it L. rewrite lk_filter in L by assumption.
        destruct (lk sid (sess s)) as [[u0 it0]|] eqn:L0; [|discriminate].
        cbn [fst snd] in L.
        destruct (it0 && (u0 =? target)) eqn:C; cbn [negb] in L; [discriminate|].
        inversion L; subst u0 it0. clear L.
        rewrite lk_map. rewrite (If sid u it L0). f_equal. cbn [fst snd]. rewrite L0.
        rewrite aget_drop.
        destruct (u =? target) eqn:E.
        -- apply N.eqb_eq in E. subst u. rewrite andb_true_r in C. subst it. cbn [negb andb].
           destruct (sid =? skip) eqn:E2.
           ++ apply N.eqb_eq in E2. subst sid. contradiction.
           ++ reflexivity.
        -- reflexivity.
      * intros u.
        rewrite (proxy_pres_notify (prox s) target ow og ModeUnset ModeUnset Hz Dw Dg unset_in_domain unset_in_domain Pt u).
        rewrite aget_drop. destruct (u =? target); [reflexivity|apply Ip].
      * intros u m L. rewrite lk_drop in L. destruct (u =? target); [discriminate|eauto].
      * now apply nodup_filter.
Qed.

Lemma ninv_run h : forall s, ninv s -> wf_run s h -> ninv (nrun s h).
Proof.
  induction h as [|o r IH]; intros s I W; [exact I|].
  destruct W as [W1 W2]. cbn [nrun fold_left]. apply IH; [now apply ninv_step|exact W2].
Qed.

Lemma wf_run_firstn k : forall h s, wf_run s h -> wf_run s (firstn k h).
Proof.
  induction k as [|k IH]; intros h s W; [exact I|].
  destruct h as [|o r]; [exact I|]. destruct W as [W1 W2]. cbn [firstn wf_run]. split; auto.
Qed.

(* the statement of the property's second sentence, for every history and after every step *)
Lemma trackers_hold_authoritative a h k :
  tbl_ok a -> wf_run (ninit a) h ->
  let s := nrun (ninit a) (firstn k h) in
  (forall sid u it, lk sid (sess s) = Some (u, it) -> lk sid (fol s) = Some (nmodes (aget (auth s) u))) /\
  (forall u, tget (prox s) u = nmodes (aget (auth s) u)).
Proof.
  intros Ha W s.
  assert (I : ninv s) by (apply ninv_run; [now apply ninv_init|now apply wf_run_firstn]).
  destruct I. split; assumption.
Qed.

(* who is told, on duplicate-free session tables *)
Lemma direct_rcpt_spec ss target skip sid : NoDup (map fst ss) ->
  mem sid (direct_rcpt ss target skip false) =
  match lk sid ss with Some (u, it) => it && (u =? target) && negb (sid =? skip) | None => false end.
Proof. intros H. unfold direct_rcpt. rewrite mem_filter by assumption. destruct (lk sid ss) as [[u it]|]; reflexivity. Qed.

Lemma me_rcpt_spec ss target skip sid : NoDup (map fst ss) ->
  mem sid (me_rcpt ss target skip false) =
  match lk sid ss with Some (u, it) => negb it && (u =? target) && negb (sid =? skip) | None => false end.
Proof. intros H. unfold me_rcpt. rewrite mem_filter by assumption. destruct (lk sid ss) as [[u it]|]; reflexivity. Qed.
