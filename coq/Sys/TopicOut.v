(* Which kinds of frames each handler of the topic model can emit. *)
From Coq Require Import ZArith NArith List Bool Lia.
From Tinode Require Import Base.Util Pure.Acs Sys.Topic Sys.TopicTac Sys.TopicFrame.
Import ListNotations.
Open Scope Z_scope.

(* frame classes *)
Definition is_ack (fr : frame) : bool := match fr with Ctrl 202 _ => true | _ => false end.
Definition is_data (fr : frame) : bool := match fr with Data _ _ _ => true | _ => false end.
Definition is_info (fr : frame) : bool := match fr with Info _ _ _ => true | _ => false end.
Definition is_desc (fr : frame) : bool := match fr with MetaDesc _ _ _ _ _ _ _ => true | _ => false end.
(* a frame that shows no message number and carries no message, receipt or presence *)
Definition plain (fr : frame) : bool :=
  match fr with
  | Ctrl code ps => negb (code =? 202) && forallb (fun p => negb (N.eqb (fst p) P_seq)) ps
  | CtrlAcs _ _ _ _ => true
  | Evicted _ => true
  | MetaSub _ => true
  | MetaDel _ _ => true
  | _ => false
  end.

Definition all_out (P : frame -> bool) (o : out) : Prop := forall e, In e o -> P (snd e) = true.

Lemma all_out_nil P : all_out P []. Proof. intros e []. Qed.
Lemma all_out_cons P sid fr o : P fr = true -> all_out P o -> all_out P ((sid, fr) :: o).
Proof. intros H1 H2 e [<-|He]; auto. Qed.
Lemma all_out_app P a b : all_out P a -> all_out P b -> all_out P (a ++ b).
Proof. intros H1 H2 e He. apply in_app_or in He. destruct He; auto. Qed.

Lemma evict_out_plain c u b k c' o : evict_user c u b k = (c', o) -> all_out plain o.
Proof.
  unfold evict_user. intros H. inv H. intros e He. apply in_flat_map in He.
  destruct He as [x [_ Hx]]. break_match_hyp; [destruct Hx|]. destruct Hx as [<-|[]]. reflexivity.
Qed.

Lemma fanout_info_info c skip what from seq : all_out is_info (fanout_info c skip what from seq).
Proof.
  intros e He. unfold fanout_info in He. apply in_flat_map in He. destruct He as [[s0 [u0 b0]] [_ H]].
  repeat break_match_hyp; cbn in H; intuition; subst; reflexivity.
Qed.

Ltac out_post :=
  repeat match goal with
         | H : evict_user _ _ _ _ = (_, _) |- _ => apply evict_out_plain in H
         end.
Ltac out_solve :=
  cbn [fst snd h_out o_out]; out_post;
  repeat first [ apply all_out_nil | assumption
               | apply all_out_cons; [reflexivity|]
               | apply all_out_app ].

Lemma tus_out f s c n sid u want nb : all_out plain (h_out (fst (this_user_sub f s c n sid u want nb))).
Proof. unfold this_user_sub. repeat break_match; out_solve. Qed.
Lemma aus_out f s c n sid u t m : all_out plain (h_out (fst (another_user_sub f s c n sid u t m))).
Proof. unfold another_user_sub. repeat break_match; out_solve. Qed.

Definition err_code_ok (r : sub_res) : Prop := match r with SubErr code => code <> 202 | SubOk _ => True end.
Lemma tus_codes f s c n sid u want nb : err_code_ok (snd (this_user_sub f s c n sid u want nb)).
Proof. unfold this_user_sub. repeat break_match; cbn; try exact I; lia. Qed.
Lemma aus_codes f s c n sid u t m : err_code_ok (snd (another_user_sub f s c n sid u t m)).
Proof.
  unfold another_user_sub. repeat break_match; cbn; try exact I; try lia.
  all: repeat break_match_hyp; repeat match goal with H : (_, _) = (_, _) |- _ => inv H end; try discriminate; lia.
Qed.

Lemma code_plain sid code : code <> 202 -> all_out plain [(sid, Ctrl code [])].
Proof. intros H e [<-|[]]. cbn. destruct (code =? 202) eqn:E; [lia|reflexivity]. Qed.

Lemma sub_reply_out f s c n sid u want bkg : all_out plain (h_out (sub_reply f s c n sid u want bkg)).
Proof.
  unfold sub_reply.
  pose proof (tus_out f s c n sid u want (match alookup u (c_users c) with Some _ => false | None => true end)) as T.
  pose proof (tus_codes f s c n sid u want (match alookup u (c_users c) with Some _ => false | None => true end)) as TC.
  destruct (this_user_sub f s c n sid u want _) as [h r]. cbn [fst snd] in *.
  repeat break_match; out_solve; try (apply code_plain; exact TC).
Qed.

Lemma set_sub_out f s c n sid u t m : all_out plain (h_out (set_sub f s c n sid u t m)).
Proof.
  unfold set_sub.
  pose proof (tus_out f s c n sid u m false) as T1. pose proof (tus_codes f s c n sid u m false) as TC1.
  pose proof (aus_out f s c n sid u t m) as T2. pose proof (aus_codes f s c n sid u t m) as TC2.
  destruct ((t =? 0)%N || (t =? u)%N);
    [destruct (this_user_sub f s c n sid u m false) as [h r]
    |destruct (another_user_sub f s c n sid u t m) as [h r]]; cbn [fst snd] in *;
    repeat break_match; out_solve; try (apply code_plain; assumption).
Qed.

Lemma note_out f s c n sid u what seq : all_out is_info (h_out (note f s c n sid u what seq)).
Proof. unfold note. repeat break_match; cbn [h_out]; try apply all_out_nil; apply fanout_info_info. Qed.

Lemma del_sub_out f s c n sid u t : all_out plain (h_out (del_sub f s c n sid u t)).
Proof. unfold del_sub. repeat break_match; repeat break_match_hyp;
  repeat match goal with H : (_, _) = (_, _) |- _ => inv H end; out_solve. Qed.
Lemma leave_unsub_out f s c n sid u : all_out plain (h_out (leave_unsub f s c n sid u)).
Proof. unfold leave_unsub. repeat break_match; out_solve. Qed.
Lemma leave_out c sid u : all_out plain (snd (leave c sid u)).
Proof. unfold leave. repeat break_match; out_solve. Qed.
Lemma del_msg_out dr f s c n sid u req hard : all_out plain (h_out (del_msg dr f s c n sid u req hard)).
Proof. unfold del_msg. repeat break_match; out_solve. Qed.
Lemma get_sub_out f s c n sid u : all_out plain (h_out (get_sub f s c n sid u)).
Proof. unfold get_sub. repeat break_match; out_solve. Qed.
Lemma get_del_out nr f s c n sid u a b l : all_out plain (h_out (get_del nr f s c n sid u a b l)).
Proof. unfold get_del. repeat break_match; out_solve. Qed.
Lemma offline_get_sub_out f s sid u : all_out plain (o_out (offline_get_sub f s sid u)).
Proof. unfold offline_get_sub. repeat break_match; out_solve. Qed.
Lemma offline_set_sub_out f s sid u t m : all_out plain (o_out (offline_set_sub f s sid u t m)).
Proof. unfold offline_set_sub. repeat break_match; out_solve. Qed.

(* ------------------------------------------------------------------ *)
(* message numbers a frame shows to a client *)
Definition frame_seqs (fr : frame) : list Z :=
  match fr with
  | Ctrl _ ps => map snd (filter (fun p => N.eqb (fst p) P_seq) ps)
  | Data seq _ _ => [seq]
  | MetaDesc _ _ seq _ _ _ _ => [seq]
  | Info _ _ seq => [seq]
  | Push seq _ _ => [seq]
  | _ => []
  end.
Definition out_seqs (o : out) : list Z := flat_map (fun e => frame_seqs (snd e)) o.
Definition shown_le (bound : Z) (o : out) : Prop := forall n, In n (out_seqs o) -> n <= bound.

Lemma plain_no_seqs fr : plain fr = true -> frame_seqs fr = [].
Proof.
  destruct fr; cbn; try discriminate; auto. intros H. apply andb_true_iff in H. destruct H as [_ H].
  induction params as [|p ps IH]; cbn in *; [reflexivity|]. apply andb_true_iff in H. destruct H as [H1 H2].
  apply negb_true_iff in H1. rewrite H1. auto.
Qed.

Lemma all_plain_shown b o : all_out plain o -> shown_le b o.
Proof.
  intros H n Hn. unfold out_seqs in Hn. apply in_flat_map in Hn. destruct Hn as [e [He Hn]].
  rewrite (plain_no_seqs _ (H e He)) in Hn. destruct Hn.
Qed.

Lemma shown_le_app b a c : shown_le b a -> shown_le b c -> shown_le b (a ++ c).
Proof. intros H1 H2 n Hn. unfold out_seqs in Hn. rewrite flat_map_app in Hn. apply in_app_or in Hn. destruct Hn; auto. Qed.
Lemma shown_le_mono b b' o : b <= b' -> shown_le b o -> shown_le b' o.
Proof. intros H1 H2 n Hn. specialize (H2 n Hn). lia. Qed.

Lemma fanout_info_shown c skip what from seq b : seq <= b -> shown_le b (fanout_info c skip what from seq).
Proof.
  intros H n Hn. unfold out_seqs in Hn. apply in_flat_map in Hn. destruct Hn as [e [He Hn]].
  unfold fanout_info in He. apply in_flat_map in He. destruct He as [[s0 [u0 b0]] [_ He]].
  repeat break_match_hyp; cbn in He; intuition; subst; cbn in Hn; intuition; subst; lia.
Qed.

Lemma fanout_data_shown c skip seq u content b : seq <= b -> shown_le b (fanout_data c skip (Data seq u content)).
Proof.
  intros H n Hn. unfold out_seqs in Hn. apply in_flat_map in Hn. destruct Hn as [e [He Hn]].
  unfold fanout_data in He. apply in_flat_map in He. destruct He as [[s0 [u0 b0]] [_ He]].
  repeat break_match_hyp; cbn in He; intuition; subst; cbn in Hn; intuition; subst; lia.
Qed.

Lemma note_shown f s c n sid u what seq : 0 <= c_lastid c -> shown_le (c_lastid c) (h_out (note f s c n sid u what seq)).
Proof.
  intros H0. unfold note. destruct (c_lastid c <? seq) eqn:E; [intros m []|]. apply Z.ltb_ge in E.
  repeat break_match; cbn [h_out]; try (intros m []); apply fanout_info_shown; assumption.
Qed.

Lemma get_all_in s u a b l m : In m (ad_msg_get_all s u a b l) -> In m (msgs s).
Proof.
  unfold ad_msg_get_all. intros H. apply firstn_In in H.
  assert (forall l0 x, In x (sort_desc l0) -> In x l0) as SD.
  { induction l0 as [|y l0 IH]; cbn; [auto|]. intros x Hx.
    assert (forall z l1, In x (insert_desc z l1) -> x = z \/ In x l1) as INS.
    { intros z l1. induction l1 as [|w l1 IH1]; cbn; [intuition|]. break_match; cbn; intuition. }
    apply INS in Hx. destruct Hx; [now left|right; auto]. }
  apply SD in H. apply filter_In in H. tauto.
Qed.

Lemma get_data_shown f s c n sid u a b l bound :
  (forall k, In k (map m_seq (msgs s)) -> k <= bound) ->
  shown_le bound (h_out (get_data f s c n sid u a b l)).
Proof.
  intros H. unfold get_data. repeat break_match; cbn [h_out]; try solve [apply all_plain_shown; out_solve].
  rewrite <- Heql0. apply (shown_le_app bound).
  - intros k Hk. unfold out_seqs in Hk. apply in_flat_map in Hk. destruct Hk as [e [He Hk]].
    apply in_map_iff in He. destruct He as [m0 [<- Hm]]. cbn in Hk. destruct Hk as [<-|[]].
    apply H. apply in_map. eapply get_all_in. exact Hm.
  - apply all_plain_shown. out_solve.
Qed.

Lemma get_desc_shown s c n sid u : 0 <= c_lastid c -> shown_le (c_lastid c) (h_out (get_desc s c n sid u)).
Proof.
  intros H0. unfold get_desc. repeat break_match; cbn [h_out]; intros k Hk; cbn in Hk; intuition; subst; lia.
Qed.

Lemma offline_get_desc_shown f s sid u b : 0 <= b -> shown_le b (o_out (offline_get_desc f s sid u)).
Proof.
  intros H0. unfold offline_get_desc. repeat break_match; cbn [o_out]; intros k Hk; cbn in Hk; intuition; subst; lia.
Qed.
