(* C13  The session store (server/sessionstore.go) and the stop notice of a session: "all other sessions keep
   being served ... every request is answered" for the requests that terminate the sessions of a user.

   Session.stop is `make(chan any, 1)` (sessionstore.go:110).  Session.stopSession(data) is the plain send
   `s.stop <- data` (session.go:394): it BLOCKS when a notice is already queued and the connection's write loop has
   not taken it.  For a websocket / gRPC connection the write loop is a goroutine that selects on s.stop all the
   time; for a LONG POLLING session (hdl_longpoll.go) s.stop is read only inside writeOnce, i.e. only while a poll
   request of that client is outstanding: between polls (an idle or vanished client) NOBODY reads it.

   SessionStore.EvictUser (sessionstore.go:223-242) sends the notice to every session of the user WHILE HOLDING
   SessionStore.lock, the mutex that Get (every long-poll request), NewSession (every new connection), Delete (every
   disconnect) and Range need: if one of these sends blocks, the requester (a root session's {acc status=susp} /
   {del what=user}) is never answered and nobody is served any more.  It does not block because the session is
   removed from sessCache in the same critical section: a cached session has an empty stop channel.

   This file models, statement by statement, every place that sends to / receives from Session.stop or changes
   sessCache / lru membership:

     SessionStore.NewSession   sessionstore.go:76-155   duplicate sid = logs.Err.Fatalln (process exit); the new session is
                                                        cached (LPOLL: pushed on lru); stale LPOLL sessions at the back of lru
                                                        are removed from lru and sessCache, then cleanUp(true) outside the lock
     SessionStore.Get          sessionstore.go:158-172
     SessionStore.Delete       sessionstore.go:175-185
     SessionStore.EvictUser    sessionstore.go:223-242  [keep] selects the code: false = as it is (delete(ss.sessCache, s.sid);
                                                        lru.Remove), true = the variant that leaves evicted sessions in the cache
     Session.stopSession       session.go:394-397
     Session.cleanUp           session.go:412-433       purgeChannels (label LPurge) | Delete; unsubAll; stopSession(nil) (label
                                                        LCleanStop), so that other goroutines interleave; cleanUp(true) is
                                                        called by NewSession's expiry only and is part of that label
     write loops               hdl_websock.go:125, hdl_grpc.go:126, hdl_longpoll.go:63 (writeOnce: globals.sessionStore.Delete(sess))
     changeUserState           user.go:553-584          {acc user=U status=S} of a root session
     replyDelUser              user.go:593-690          {del what=user [user=U]}; the requester is skipped by EvictUser and gets its
                                                        own notice at the end: s.stopSession(data) on a session that is STILL CACHED

   Outcomes: Ok | Blocks site sid (a send on a full stop channel: the goroutine executing this label waits; for site
   BEvict it waits holding SessionStore.lock) | Fatal (duplicate session id).

   Abstractions (said in the manifest): which LPOLL sessions are stale is a label parameter [expired] (the model accepts
   only sessions at the back of lru); store errors of Users.UpdateState / Users.Delete are label parameters; whether the
   requester's own connection takes its notice at once is the label parameter [taken] (false = a long-polling session with
   no poll outstanding, or any stalled connection); SessionStore.Shutdown (server exit only) and NodeRestarted (cluster)
   are not client-reachable and not modelled.  Session ids are N (0 = the empty skipSid), user ids N (0 = not logged in).
   Definitions only. *)
From Coq Require Import List NArith Bool.
Import ListNotations.

Inductive proto := WEBSOCK | LPOLL | GRPC | MULTIPLEX.

Definition is_mux (p : proto) : bool := match p with MULTIPLEX => true | _ => false end.
Definition is_lp (p : proto) : bool := match p with LPOLL => true | _ => false end.

Record sess := mkSess {
  s_sid : N;
  s_uid : N;             (* Session.uid; 0 = not logged in *)
  s_root : bool;         (* Session.authLvl == auth.LevelRoot *)
  s_proto : proto;
  s_cached : bool;       (* ss.sessCache[s.sid] == s *)
  s_lru : bool;          (* s.lpTracker is an element of ss.lru *)
  s_stopfull : bool }.   (* len(s.stop) == 1 == cap(s.stop) *)

(* types.ObjState *)
Inductive ustate := StateOK | StateSuspended | StateDeleted | StateUndefined.
Definition ustate_eqb (a b : ustate) : bool :=
  match a, b with
  | StateOK, StateOK | StateSuspended, StateSuspended | StateDeleted, StateDeleted | StateUndefined, StateUndefined => true
  | _, _ => false
  end.

Record store := mkStore {
  sessions : list sess;          (* every session object created so far *)
  lru : list N;                  (* ss.lru, front first *)
  users : list (N * ustate) }.   (* the users table: uid -> state *)

Inductive bsite := BEvict | BStopSelf | BCleanUp.
Inductive outcome := Ok (st : store) | Blocks (site : bsite) (sid : N) | Fatal (sid : N).

(* what {acc status=...} carries after types.NewObjState: a state or a parse error *)
Inductive accstate := AState (u : ustate) | ABad.

Inductive label :=
| LNew (sid : N) (p : proto) (expired : list N)      (* SessionStore.NewSession *)
| LLogin (sid uid : N) (root : bool)                 (* a successful {login}: s.uid, s.authLvl *)
| LGet (sid : N)                                     (* SessionStore.Get *)
| LDelete (sid : N)                                  (* SessionStore.Delete *)
| LEvict (uid skip : N)                              (* SessionStore.EvictUser *)
| LTake (sid : N)                                    (* the write loop / an outstanding poll takes the notice *)
| LStopSelf (sid : N) (taken : bool)                 (* s.stopSession(data) by the session's own request handler *)
| LPurge (sid : N)                                   (* cleanUp: purgeChannels *)
| LCleanStop (sid : N)                               (* cleanUp(false): Delete ... stopSession(nil) *)
| LAccState (rsid target : N) (st : accstate) (store_ok : bool)    (* {acc user=target status=st} sent by rsid *)
| LDelUser (rsid target : N) (store_ok taken : bool).              (* {del what=user user=target} sent by rsid *)

(* ---------- small library ---------- *)
Fixpoint find_sess (sid : N) (l : list sess) : option sess :=
  match l with
  | [] => None
  | s :: r => if N.eqb (s_sid s) sid then Some s else find_sess sid r
  end.

(* apply f to the session object with this id *)
Fixpoint upd (sid : N) (f : sess -> sess) (l : list sess) : list sess :=
  match l with
  | [] => []
  | s :: r => if N.eqb (s_sid s) sid then f s :: r else s :: upd sid f r
  end.

Fixpoint remove_n (x : N) (l : list N) : list N :=
  match l with
  | [] => []
  | y :: r => if N.eqb x y then remove_n x r else y :: remove_n x r
  end.

Fixpoint lookup_user (u : N) (l : list (N * ustate)) : option ustate :=
  match l with
  | [] => None
  | (k, v) :: r => if N.eqb k u then Some v else lookup_user u r
  end.

(* store.Users.Get: the adapters do not return a user whose state is deleted (db/mysql/adapter.go UserGet:
   `WHERE id=? AND state!=?`) *)
Definition get_user (u : N) (l : list (N * ustate)) : option ustate :=
  match lookup_user u l with
  | Some StateDeleted => None
  | x => x
  end.

Fixpoint set_user (u : N) (v : ustate) (l : list (N * ustate)) : list (N * ustate) :=
  match l with
  | [] => [(u, v)]
  | (k, w) :: r => if N.eqb k u then (k, v) :: r else (k, w) :: set_user u v r
  end.

Fixpoint del_user (u : N) (l : list (N * ustate)) : list (N * ustate) :=
  match l with
  | [] => []
  | (k, w) :: r => if N.eqb k u then del_user u r else (k, w) :: del_user u r
  end.

Definition set_stop (b : bool) (s : sess) : sess :=
  mkSess (s_sid s) (s_uid s) (s_root s) (s_proto s) (s_cached s) (s_lru s) b.
Definition set_uncached (s : sess) : sess :=
  mkSess (s_sid s) (s_uid s) (s_root s) (s_proto s) false false (s_stopfull s).
Definition set_login (uid : N) (root : bool) (s : sess) : sess :=
  mkSess (s_sid s) uid root (s_proto s) (s_cached s) (s_lru s) (s_stopfull s).

Definition with_sessions (st : store) (l : list sess) : store := mkStore l (lru st) (users st).

(* ---------- SessionStore.Delete ----------
     delete(ss.sessCache, s.sid); if s.proto == LPOLL { ss.lru.Remove(s.lpTracker) }
   (list.Remove of an element that is not in the list is a no-op) *)
Definition store_delete (sid : N) (st : store) : store :=
  mkStore (upd sid set_uncached (sessions st)) (remove_n sid (lru st)) (users st).

(* ---------- Session.stopSession: s.stop <- data, capacity 1 ---------- *)
Definition stop_session (s : sess) : option sess :=
  if s_stopfull s then None else Some (set_stop true s).

(* ---------- SessionStore.EvictUser ----------
     for _, s := range ss.sessCache {
       if s.uid == uid && !s.isMultiplex() && s.sid != skipSid {
         s.stopSession(data)
         delete(ss.sessCache, s.sid); if s.proto == LPOLL { ss.lru.Remove(s.lpTracker) }      <- absent when [keep]
   The range is over the CACHED sessions.  Go ranges over the map in an unspecified order: the sessions are independent
   of each other, so the result (and whether some send blocks) does not depend on it; the model reports the first one in
   its own list order. *)
Definition evict_match (uid skip : N) (s : sess) : bool :=
  s_cached s && N.eqb (s_uid s) uid && negb (is_mux (s_proto s)) && negb (N.eqb (s_sid s) skip).

Fixpoint evict_loop (keep : bool) (uid skip : N) (l : list sess) : N + list sess :=
  match l with
  | [] => inr []
  | s :: r =>
    if evict_match uid skip s then
      match stop_session s with
      | None => inl (s_sid s)
      | Some s1 =>
        match evict_loop keep uid skip r with
        | inl b => inl b
        | inr r1 => inr ((if keep then s1 else set_uncached s1) :: r1)
        end
      end
    else
      match evict_loop keep uid skip r with
      | inl b => inl b
      | inr r1 => inr (s :: r1)
      end
  end.

(* the sids EvictUser removes from lru *)
Fixpoint evicted_sids (uid skip : N) (l : list sess) : list N :=
  match l with
  | [] => []
  | s :: r => if evict_match uid skip s then s_sid s :: evicted_sids uid skip r else evicted_sids uid skip r
  end.

Fixpoint remove_all (xs : list N) (l : list N) : list N :=
  match xs with
  | [] => l
  | x :: r => remove_all r (remove_n x l)
  end.

Definition evict_user (keep : bool) (uid skip : N) (st : store) : outcome :=
  match evict_loop keep uid skip (sessions st) with
  | inl sid => Blocks BEvict sid
  | inr l => Ok (mkStore l (if keep then lru st else remove_all (evicted_sids uid skip (sessions st)) (lru st)) (users st))
  end.

(* ---------- SessionStore.NewSession ---------- *)
(* the expiry loop: `for elem := ss.lru.Back(); ...` removes stale sessions from the BACK of lru only *)
Fixpoint is_suffix_rev (xs l : list N) : bool :=
  (* xs, in order of removal, are the last elements of l from the back *)
  match xs with
  | [] => true
  | x :: r =>
    match rev l with
    | [] => false
    | y :: rl => N.eqb x y && is_suffix_rev r (rev rl)
    end
  end.

(* cleanUp(true) of an expired session, run after the lock is released:
   purgeChannels; (no Delete); stopSession(nil) *)
Definition cleanup_expired (sid : N) (l : list sess) : N + list sess :=
  match find_sess sid l with
  | None => inr l
  | Some s =>
    match stop_session (set_stop false s) with
    | None => inl sid
    | Some _ => inr (upd sid (fun s => set_stop true (set_stop false s)) l)
    end
  end.

Fixpoint cleanup_all (xs : list N) (l : list sess) : N + list sess :=
  match xs with
  | [] => inr l
  | x :: r => match cleanup_expired x l with inl b => inl b | inr l1 => cleanup_all r l1 end
  end.

Fixpoint uncache_all (xs : list N) (l : list sess) : list sess :=
  match xs with
  | [] => l
  | x :: r => uncache_all r (upd x set_uncached l)
  end.

Definition new_session (sid : N) (p : proto) (expired : list N) (st : store) : outcome :=
  match find_sess sid (sessions st) with
  | Some _ => Fatal sid                 (* logs.Err.Fatalln("ERROR! duplicate session ID") *)
  | None =>
    if negb (is_suffix_rev expired (lru st)) then Ok st      (* not a possible result of the expiry loop: label refused *)
    else
      let s := mkSess sid 0 false p true (is_lp p) false in
      let l1 := uncache_all expired (s :: sessions st) in
      let lru1 := remove_all expired (if is_lp p then sid :: lru st else lru st) in
      (* the new session itself is never stale *)
      match cleanup_all expired l1 with
      | inl b => Blocks BCleanUp b
      | inr l2 => Ok (mkStore l2 lru1 (users st))
      end
  end.

(* ---------- SessionStore.Get: LPOLL sessions move to the front of lru ---------- *)
Definition store_get (sid : N) (st : store) : store :=
  match find_sess sid (sessions st) with
  | Some s => if s_cached s && is_lp (s_proto s) then mkStore (sessions st) (sid :: remove_n sid (lru st)) (users st) else st
  | None => st
  end.

(* ---------- the write loop takes the notice ----------
   websocket / gRPC: `case msg := <-sess.stop: ... return`; long polling (writeOnce): additionally
   globals.sessionStore.Delete(sess) *)
Definition take_stop (sid : N) (st : store) : store :=
  match find_sess sid (sessions st) with
  | Some s =>
    if s_stopfull s then
      let st1 := with_sessions st (upd sid (set_stop false) (sessions st)) in
      if is_lp (s_proto s) then store_delete sid st1 else st1
    else st
  | None => st
  end.

(* ---------- s.stopSession(data) by the session's own handler; taken: its write loop takes the notice at once ---------- *)
Definition stop_self (sid : N) (taken : bool) (st : store) : outcome :=
  match find_sess sid (sessions st) with
  | None => Ok st
  | Some s =>
    match stop_session s with
    | None => Blocks BStopSelf sid
    | Some _ =>
      let st1 := with_sessions st (upd sid (set_stop true) (sessions st)) in
      Ok (if taken then take_stop sid st1 else st1)
    end
  end.

(* ---------- changeUserState (user.go:553) behind replyUpdateUser's checks (user.go:222-283) ---------- *)
Definition acc_state (keep : bool) (rsid target : N) (a : accstate) (store_ok : bool) (st : store) : outcome :=
  match find_sess rsid (sessions st) with
  | None => Ok st
  | Some r =>
    if N.eqb (s_uid r) 0 then Ok st                          (* not authenticated: ErrPermissionDenied *)
    else
      let uid := if N.eqb target 0 then s_uid r else target in
      if negb (N.eqb uid (s_uid r)) && negb (s_root r) then Ok st     (* another's account by non-root *)
      else if negb (s_root r) then Ok st                               (* only root can change the state *)
      else
        match get_user uid (users st) with
        | None => Ok st                                                (* ErrNotFound *)
        | Some cur =>
          match a with
          | ABad => Ok st                                              (* ErrMalformed *)
          | AState StateUndefined => Ok st                             (* ErrMalformed *)
          | AState ns =>
            if ustate_eqb cur ns then Ok st                            (* InfoNotModified *)
            else
              match (if ustate_eqb ns StateOK then Ok st else evict_user keep uid 0 st) with
              | Ok st1 =>
                if store_ok then Ok (mkStore (sessions st1) (lru st1) (set_user uid ns (users st1)))
                else Ok st1                                            (* UpdateState failed: the sessions are gone already *)
              | o => o
              end
          end
        end
  end.

(* ---------- replyDelUser (user.go:593) ---------- *)
Definition del_user_req (keep : bool) (rsid target : N) (store_ok taken : bool) (st : store) : outcome :=
  match find_sess rsid (sessions st) with
  | None => Ok st
  | Some r =>
    if N.eqb (s_uid r) 0 then Ok st                          (* dispatch: {del} needs a logged-in session *)
    else
      let self := N.eqb target 0 || N.eqb target (s_uid r) in
      if negb self && negb (s_root r) then Ok st             (* ErrPermissionDenied *)
      else
        let uid := if self then s_uid r else target in
        (* Terminate all sessions. Skip the current session so the requester gets a response. *)
        match evict_user keep uid rsid st with
        | Ok st1 =>
          if negb store_ok then Ok st1                       (* store.Users.Delete failed: error reply, return *)
          else
            let st2 := mkStore (sessions st1) (lru st1) (del_user uid (users st1)) in
            (* if s.uid == uid && s.multi == nil { s.stopSession(data) } *)
            if N.eqb (s_uid r) uid then stop_self rsid taken st2 else Ok st2
        | o => o
        end
  end.

(* ---------- one label ---------- *)
Definition step (keep : bool) (l : label) (st : store) : outcome :=
  match l with
  | LNew sid p expired => new_session sid p expired st
  | LLogin sid uid root => Ok (with_sessions st (upd sid (set_login uid root) (sessions st)))
  | LGet sid => Ok (store_get sid st)
  | LDelete sid => Ok (store_delete sid st)
  | LEvict uid skip => evict_user keep uid skip st
  | LTake sid => Ok (take_stop sid st)
  | LStopSelf sid taken => stop_self sid taken st
  | LPurge sid => Ok (with_sessions st (upd sid (set_stop false) (sessions st)))
  | LCleanStop sid =>
    (* cleanUp(false) from `globals.sessionStore.Delete(s)` on: Delete; unsubAll; stopSession(nil) *)
    let st1 := store_delete sid st in
    match find_sess sid (sessions st1) with
    | None => Ok st
    | Some s =>
      match stop_session s with
      | None => Blocks BCleanUp sid
      | Some _ => Ok (with_sessions st1 (upd sid (set_stop true) (sessions st1)))
      end
    end
  | LAccState rsid target a store_ok => acc_state keep rsid target a store_ok st
  | LDelUser rsid target store_ok taken => del_user_req keep rsid target store_ok taken st
  end.

Fixpoint run (keep : bool) (ls : list label) (st : store) : outcome :=
  match ls with
  | [] => Ok st
  | l :: r => match step keep l st with Ok st1 => run keep r st1 | o => o end
  end.

Definition init_store (us : list (N * ustate)) : store := mkStore [] [] us.

(* the run with the state after every label (for the correspondence check); stops at the first Blocks / Fatal *)
Fixpoint trace (keep : bool) (ls : list label) (st : store) : list outcome :=
  match ls with
  | [] => []
  | l :: r => match step keep l st with Ok st1 => Ok st1 :: trace keep r st1 | o => [o] end
  end.

(* ---------- predicates of the theorems ---------- *)
Definition blocks_evict (o : outcome) : bool := match o with Blocks BEvict _ => true | _ => false end.
Definition blocks_any (o : outcome) : bool := match o with Blocks _ _ => true | _ => false end.

(* the label does not leave a notice of the requester's own handler in a channel nobody is reading *)
Definition prompt_label (l : label) : bool :=
  match l with
  | LStopSelf _ taken => taken
  | LDelUser _ _ _ taken => taken
  | _ => true
  end.

(* the invariant: a cached session has an empty stop channel *)
Definition sess_ok (s : sess) : bool := negb (s_cached s) || negb (s_stopfull s).
Definition store_inv (st : store) : bool := forallb sess_ok (sessions st).
