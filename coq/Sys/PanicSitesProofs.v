(* C13 lemmas about Sys/PanicSites.v *)
From Coq Require Import List NArith ZArith Bool Lia.
Import ListNotations.
Require Import Tinode.Sys.PanicSites.
Open Scope N_scope.

Lemma eqs_eq a : forall b, eqs a b = true -> a = b.
Proof.
  induction a as [|x a IH]; destruct b as [|y b]; simpl; try discriminate; auto.
  intros H. apply andb_prop in H as [H1 H2]. apply N.eqb_eq in H1. f_equal; auto.
Qed.

Lemma eqs_refl a : eqs a a = true.
Proof. induction a; simpl; auto. rewrite N.eqb_refl. auto. Qed.

(* ---- GetTopicCat is defined exactly on the valid names ---- *)
Lemma valid_cat_ok n : topic_name_valid n = true -> exists c, get_topic_cat n = CatOk c.
Proof.
  unfold topic_name_valid, get_topic_cat.
  destruct n as [|a [|b [|c r]]]; try discriminate.
  intros H.
  destruct (eqs [a; b; c] s_usr); [eauto|].
  destruct (eqs [a; b; c] s_p2p); [eauto|].
  destruct (eqs [a; b; c] s_grp); [simpl; eauto|].
  destruct (eqs [a; b; c] s_chn); [simpl; eauto|].
  destruct (eqs [a; b; c] s_fnd); [simpl; eauto|].
  destruct (eqs [a; b; c] s_sys); [simpl; eauto|].
  discriminate.
Qed.

Lemma cat_ok_valid n c : get_topic_cat n = CatOk c -> topic_name_valid n = true.
Proof.
  unfold topic_name_valid, get_topic_cat.
  destruct n as [|a [|b [|c' r]]]; try discriminate.
  destruct (eqs [a; b; c'] s_usr); [auto|].
  destruct (eqs [a; b; c'] s_p2p); [auto|].
  destruct (eqs [a; b; c'] s_grp); [auto|].
  destruct (eqs [a; b; c'] s_chn); [auto|].
  destruct (eqs [a; b; c'] s_fnd); [auto|].
  destruct (eqs [a; b; c'] s_sys); [auto|].
  discriminate.
Qed.

Lemma valid_not_panics n : topic_name_valid n = true -> cat_panics n = false.
Proof. intros H. destruct (valid_cat_ok n H) as [c Hc]. unfold cat_panics. now rewrite Hc. Qed.

Lemma cat_panics_iff n : cat_panics n = negb (topic_name_valid n).
Proof.
  destruct (topic_name_valid n) eqn:E.
  - now apply valid_not_panics.
  - unfold cat_panics. destruct (get_topic_cat n) eqn:G; auto.
    apply cat_ok_valid in G. congruence.
Qed.

Lemma has_prefix_app p : forall s, has_prefix p s = true -> exists r, s = p ++ r.
Proof.
  induction p as [|x p IH]; intros s; cbn [has_prefix app]; [eauto|].
  destruct s as [|y s]; [discriminate|].
  intros H. apply andb_prop in H as [H1 H2]. apply N.eqb_eq in H1. subst y.
  destruct (IH s H2) as [r ->]. eauto.
Qed.

Lemma has_prefix_chn n : has_prefix s_chn n = true -> exists r, n = 99 :: 104 :: 110 :: r.
Proof. intros H. apply has_prefix_app in H as [r ->]. exists r. reflexivity. Qed.

Lemma is_channel_valid n : is_channel n = true -> topic_name_valid n = true.
Proof. intros H. apply has_prefix_chn in H as [r ->]. reflexivity. Qed.

Lemma expand_channel u m n :
  is_channel (m_topic m) = true -> expand u m = ExpOk n -> topic_name_valid n = true.
Proof.
  intros H. apply has_prefix_chn in H as [r Hr]. unfold expand. rewrite Hr. simpl.
  intros E. injection E as <-. reflexivity.
Qed.

Lemma has_row_valid rows : forall name u,
  forallb (fun r => topic_name_valid (fst r)) rows = true -> has_row name u rows = true -> topic_name_valid name = true.
Proof.
  induction rows as [|[n v] rows IH]; simpl; intros name u Hall H; [discriminate|].
  apply andb_prop in Hall as [Hv Hall].
  apply orb_prop in H as [H|H].
  - apply andb_prop in H as [H _]. apply eqs_eq in H. now subst.
  - eauto.
Qed.

Lemma wf_rows st : state_wf st = true -> forallb (fun r => topic_name_valid (fst r)) (w_rows st) = true.
Proof. unfold state_wf. intros H. apply andb_prop in H as [H _]. apply andb_prop in H as [H _]. exact H. Qed.

(* the name handed to GetTopicCat after a subscription row was found is valid *)
Lemma row_found_valid st u m name :
  state_wf st = true -> expand u m = ExpOk name ->
  has_row (row_name m name) u (w_rows st) = true -> topic_name_valid name = true.
Proof.
  intros Hwf He Hr. unfold row_name in Hr.
  destruct (is_channel (m_topic m)) eqn:Hc.
  - eapply expand_channel; eauto.
  - eapply has_row_valid; eauto using wf_rows.
Qed.

Lemma row_name_valid m name : topic_name_valid name = true -> topic_name_valid (row_name m name) = true.
Proof. unfold row_name. destruct (is_channel (m_topic m)) eqn:Hc; auto using is_channel_valid. Qed.

(* ---- exploration of the decision trees ---- *)
Ltac split_if :=
  match goal with
  | |- context [if ?c then _ else _] => let E := fresh "E" in destruct c eqn:E
  end.

Ltac split_ifs := repeat (simpl; try split_if); simpl; try reflexivity; try discriminate.

Lemma rep_not_panic code id : is_panic (rep code id) = false.
Proof. reflexivity. Qed.

(* ---- handlers of the repaired code never reach a modelled panic site ---- *)
Lemma offline_get_sub_safe st u m name :
  state_wf st = true -> expand u m = ExpOk name -> is_panic (offline_get_sub st u name m) = false.
Proof.
  intros Hwf He. unfold offline_get_sub.
  destruct (o_reject st); [reflexivity|]. destruct (o_store_err st); [reflexivity|].
  destruct (has_row (row_name m name) u (w_rows st)) eqn:Hr; [|reflexivity]. simpl.
  destruct (valid_cat_ok name (row_found_valid st u m name Hwf He Hr)) as [c ->]. reflexivity.
Qed.

Lemma offline_set_sub_safe st u m name :
  state_wf st = true -> expand u m = ExpOk name -> is_panic (offline_set_sub st u name m) = false.
Proof.
  intros Hwf He. unfold offline_set_sub.
  destruct (negb (m_set_private m) && negb (m_set_mode m)); [reflexivity|].
  destruct (o_reject st); [reflexivity|]. destruct (o_store_err st); [reflexivity|].
  destruct (has_row (row_name m name) u (w_rows st)) eqn:Hr; [|reflexivity]. simpl.
  destruct (m_set_mode m); [|reflexivity].
  destruct (valid_cat_ok name (row_found_valid st u m name Hwf He Hr)) as [c ->]. reflexivity.
Qed.

Lemma topic_unreg_safe st u m name : is_panic (topic_unreg all_repairs st u name m) = false.
Proof.
  unfold topic_unreg. destruct (find_topic name (w_loaded st)).
  - split_ifs.
  - simpl. destruct (topic_name_valid name) eqn:Hv; simpl; [|reflexivity].
    destruct (o_store_err st); [reflexivity|].
    destruct (valid_cat_ok _ (row_name_valid m name Hv)) as [c ->]. reflexivity.
Qed.

Lemma topic_pub_safe c st ti u m : is_panic (topic_pub all_repairs c st ti u m) = false.
Proof. unfold topic_pub. split_ifs. rewrite andb_false_r in *. discriminate. Qed.

Lemma topic_get_safe st ti u m : is_panic (topic_get all_repairs st ti u m) = false.
Proof. unfold topic_get, original_panics. simpl. rewrite !andb_false_r. reflexivity. Qed.

(* the default-access table of the code as it is has a case for each of the five categories *)
Lemma access_for_repaired c : exists x, access_for all_repairs c = Some x.
Proof. destruct c; vm_compute; eexists; reflexivity. Qed.

Lemma after_access_for_repaired c k : after_access_for all_repairs c k = k.
Proof. unfold after_access_for. destruct (access_for_repaired c) as [x ->]. reflexivity. Qed.

Lemma this_user_sub_safe st ti u m : is_panic (this_user_sub all_repairs st ti u m) = false.
Proof.
  unfold this_user_sub. rewrite !after_access_for_repaired.
  destruct (o_reject st); [reflexivity|]. destruct (o_store_err st); [reflexivity|].
  destruct (find_pud u (t_peruser ti)) as [p|]; [destruct (pu_deleted p)|]; simpl.
  - destruct (t_cat ti); try reflexivity; destruct (is_channel (m_topic m)); reflexivity.
  - destruct (m_set_mode m); [reflexivity|]. destruct (negb (pu_want_joiner p)); reflexivity.
  - destruct (t_cat ti); try reflexivity; destruct (is_channel (m_topic m)); reflexivity.
Qed.

Lemma another_user_sub_safe st ti u tg m : is_panic (another_user_sub all_repairs st ti u tg m) = false.
Proof.
  unfold another_user_sub. rewrite !after_access_for_repaired.
  destruct (find_pud u (t_peruser ti)) as [h|]; [|reflexivity].
  destruct (negb (pu_sharer h)); [reflexivity|]. destruct (is_channel (m_topic m)); [reflexivity|].
  destruct (o_reject st); [reflexivity|].
  match goal with |- context [if ?c then _ else _] => destruct c end; destruct (o_store_err st); reflexivity.
Qed.

Lemma reply_set_sub_safe st ti u m : is_panic (reply_set_sub all_repairs st ti u m) = false.
Proof.
  unfold reply_set_sub. destruct (negb (is_empty (m_set_user m)) && (m_set_user_uid m =? 0)); [reflexivity|].
  match goal with |- context [if ?c then _ else _] => destruct c end; [apply this_user_sub_safe|apply another_user_sub_safe].
Qed.

Lemma topic_set_safe c st ti u m : is_panic (topic_set all_repairs c st ti u m) = false.
Proof.
  unfold topic_set. simpl. rewrite !andb_false_r. destruct (m_set_sub m); [|reflexivity].
  pose proof (reply_set_sub_safe st ti u m) as H. destruct (reply_set_sub all_repairs st ti u m); [| |discriminate H];
    destruct (m_set_desc m); reflexivity.
Qed.

Lemma topic_reg_safe st ti u m : is_panic (topic_reg all_repairs st ti u m) = false.
Proof. apply this_user_sub_safe. Qed.

Lemma topic_init_safe c st m : is_panic (topic_init all_repairs c st m) = false.
Proof. unfold topic_init. simpl. rewrite !andb_false_r. split_ifs. Qed.

Lemma hub_join_safe c st u name m : is_panic (hub_join all_repairs c st u name m) = false.
Proof.
  unfold hub_join. destruct (find_topic name (w_loaded st)); [|apply topic_init_safe].
  destruct (t_inactive t); [reflexivity|]. destruct (o_queue_full st); [reflexivity|apply topic_reg_safe].
Qed.

Lemma h_acc_safe c st m : is_panic (h_acc all_repairs c st m) = false.
Proof. unfold h_acc. simpl. rewrite !andb_false_r. split_ifs. Qed.

Lemma h_note_safe st u m : is_panic (h_note all_repairs st u m) = false.
Proof. unfold h_note. destruct (expand u m); split_ifs. Qed.

Lemma h_publish_safe c st u m : is_panic (h_publish all_repairs c st u m) = false.
Proof.
  unfold h_publish. destruct (expand u m); [reflexivity|].
  destruct (attached st name); [destruct (o_queue_full st); [reflexivity|]; destruct (find_topic name (w_loaded st)); [apply topic_pub_safe|reflexivity]|].
  destruct (eqs name s_sys); [|reflexivity].
  destruct (o_queue_full st); [reflexivity|]. destruct (find_topic name (w_loaded st)); [apply topic_pub_safe|reflexivity].
Qed.

Lemma h_get_safe st u m : state_wf st = true -> is_panic (h_get all_repairs st u m) = false.
Proof.
  intros Hwf. unfold h_get. destruct (expand u m) eqn:He; [reflexivity|].
  destruct (negb (m_get_desc m || m_get_sub m || m_get_data m || m_get_rest m)); [reflexivity|].
  destruct (attached st name).
  - destruct (o_queue_full st); [reflexivity|]. destruct (find_topic name (w_loaded st)); [apply topic_get_safe|reflexivity].
  - destruct (m_get_desc m || m_get_sub m); [|reflexivity].
    destruct (o_queue_full st); [reflexivity|].
    destruct (m_get_desc m && negb (m_get_sub m || m_get_data m || m_get_rest m)).
    + unfold offline_get_desc. split_ifs.
    + now apply offline_get_sub_safe.
Qed.

Lemma h_set_safe c st u m : state_wf st = true -> is_panic (h_set all_repairs c st u m) = false.
Proof.
  intros Hwf. unfold h_set. destruct (expand u m) eqn:He; [reflexivity|].
  destruct (negb (m_set_desc m || m_set_sub m || m_set_tags m || m_set_cred m)); [reflexivity|].
  destruct (attached st name).
  - destruct (o_queue_full st); [reflexivity|]. destruct (find_topic name (w_loaded st)); [apply topic_set_safe|reflexivity].
  - destruct (m_set_tags m || m_set_cred m); [reflexivity|]. destruct (o_queue_full st); [reflexivity|].
    now apply offline_set_sub_safe.
Qed.

Lemma h_del_safe st u m : is_panic (h_del all_repairs st u m) = false.
Proof.
  unfold h_del. destruct (eqs (m_what m) s_user); [reflexivity|].
  destruct (expand u m); [reflexivity|].
  destruct (negb (del_what_known (m_what m))); [reflexivity|].
  destruct (attached st name && negb (eqs (m_what m) s_topic)); [destruct (o_queue_full st); reflexivity|].
  destruct (eqs (m_what m) s_topic); [|reflexivity].
  destruct (o_queue_full st); [reflexivity|apply topic_unreg_safe].
Qed.

Lemma h_subscribe_safe c st u m : is_panic (h_subscribe all_repairs c st u m) = false.
Proof.
  unfold h_subscribe.
  destruct (if has_prefix s_new (m_topic m) || has_prefix s_nch (m_topic m) then ExpOk (s_grp ++ [o_fresh st]) else expand u m); [reflexivity|].
  destruct (attached st name); [reflexivity|]. destruct (o_queue_full st); [reflexivity|apply hub_join_safe].
Qed.

Lemma dispatch_safe c st m : state_wf st = true -> is_panic (dispatch all_repairs c st m) = false.
Proof.
  intros Hwf. unfold dispatch.
  destruct (obo_check st (m_obo m) (m_obo_uid m)); [reflexivity|].
  destruct (w_partitioned st); [reflexivity|].
  destruct (m_kind m) eqn:K;
    try (destruct (s_ver st =? 0); [reflexivity|]; simpl;
         match goal with |- context [if ?c then _ else _] => destruct c; [reflexivity|] | _ => idtac end).
  - unfold h_hello. split_ifs.
  - apply h_acc_safe.
  - unfold h_login. split_ifs.
  - apply h_subscribe_safe.
  - unfold h_leave. destruct (expand _ m); split_ifs.
  - apply h_publish_safe.
  - now apply h_get_safe.
  - now apply h_set_safe.
  - apply h_del_safe.
  - apply h_note_safe.
Qed.

Lemma handle_safe c st f : state_wf st = true -> is_panic (handle all_repairs c st f) = false.
Proof.
  intros Hwf. destruct f; simpl.
  - destruct (s_terminating st); reflexivity.
  - destruct (s_terminating st); reflexivity.
  - destruct (s_terminating st); [reflexivity|]. destruct (obo_check st obo obo_uid); reflexivity.
  - destruct (s_terminating st); [reflexivity|]. now apply dispatch_safe.
  - rewrite andb_false_r. now apply dispatch_safe.
Qed.

(* ---- the unrepaired code: every modelled panic is one of the listed triggers ---- *)
Ltac atoms := repeat match goal with
  | H : _ && _ = true |- _ => apply andb_prop in H as [? ?]
  | H : negb _ = true |- _ => apply negb_true_iff in H
  | H : negb _ = false |- _ => apply negb_false_iff in H
  | H : _ || _ = false |- _ => apply orb_false_elim in H as [? ?]
  end.

Ltac rw := repeat match goal with H : ?x = true |- context [?x] => rewrite H | H : ?x = false |- context [?x] => rewrite H
  | H : ?x = None |- context [?x] => rewrite H | H : ?x = Some _ |- context [?x] => rewrite H
  | H : ?x = ExpOk _ |- context [?x] => rewrite H | H : ?x = ExpErr _ |- context [?x] => rewrite H end.

Arguments has_prefix : simpl never.
Arguments eqs : simpl never.
Arguments mem_str : simpl never.
Arguments mem_n : simpl never.
Arguments N.eqb : simpl never.
Arguments N.ltb : simpl never.
Arguments Z.eqb : simpl never.
Arguments Z.leb : simpl never.
Arguments find_topic : simpl never.
Arguments has_row : simpl never.
Arguments get_topic_cat : simpl never.
Arguments topic_name_valid : simpl never.
Arguments expand : simpl never.

Ltac fin2 := atoms; simpl in *; rw; simpl; rw; simpl; rewrite ?orb_true_r; try reflexivity.

Ltac explore H :=
  repeat (simpl in H;
    match type of H with
    | is_panic (if ?c then _ else _) = true => let E := fresh "E" in destruct c eqn:E
    | is_panic (match (if ?c then _ else _) with _ => _ end) = true => let E := fresh "E" in destruct c eqn:E
    | is_panic (match ?x with _ => _ end) = true => let E := fresh "E" in destruct x eqn:E
    end); simpl in H; try discriminate H.

Lemma cat_panics_of n s : get_topic_cat n = CatPanic s -> cat_panics n = true.
Proof. unfold cat_panics. now intros ->. Qed.

Lemma acc_trigger c st m :
  is_panic (h_acc no_repairs c st m) = true ->
  (negb (has_prefix s_new (m_user m)) && negb (is_empty (m_tmpscheme m)) && (s_uid st =? 0) && negb (mem_str (m_tmpscheme m) (auth_schemes c)))
  || (m_attachments m && negb (media_configured c) && has_prefix s_new (m_user m) && negb (o_reject st)) = true.
Proof.
  unfold h_acc. intros H. explore H; fin2.
Qed.

Lemma note_trigger st u m :
  is_panic (h_note no_repairs st u m) = true ->
  negb (s_ver st =? 0) && negb (u =? 0) && eqs (m_what m) s_call
  && match expand u m with ExpOk n => cat_panics n | ExpErr _ => false end = true.
Proof.
  unfold h_note. intros H. explore H.
  all: atoms; rw; simpl; try (erewrite cat_panics_of by eauto); reflexivity.
Qed.

Ltac fin := atoms; rw; simpl; rw; simpl; rewrite ?orb_true_r; try (erewrite cat_panics_of by eauto); try reflexivity.

Lemma del_trigger st u m :
  is_panic (h_del no_repairs st u m) = true ->
  eqs (m_what m) s_topic && negb (o_queue_full st) && negb (o_store_err st)
  && match expand u m with
     | ExpOk n => match find_topic n (w_loaded st) with Some _ => false | None => cat_panics (row_name m n) end
     | ExpErr _ => false
     end = true.
Proof. unfold h_del, topic_unreg. intros H. explore H. all: fin. Qed.

(* the default-access site of the code before /repo f52b053 *)
Lemma after_access_for_panics c k : is_panic k = false ->
  is_panic (after_access_for no_repairs c k) = defacs_missing c.
Proof. intros Hk. unfold after_access_for, defacs_missing. destruct (access_for no_repairs c); [exact Hk|reflexivity]. Qed.

Lemma this_trigger st ti u m :
  is_panic (this_user_sub no_repairs st ti u m) = true -> this_reaches st ti u m = true.
Proof.
  unfold this_user_sub, this_reaches. intros H.
  destruct (o_reject st); [discriminate H|]. destruct (o_store_err st); [discriminate H|].
  destruct (find_pud u (t_peruser ti)) as [p|].
  - destruct (pu_deleted p).
    + destruct (t_cat ti); simpl in H; try discriminate H; destruct (is_channel (m_topic m)); discriminate H.
    + simpl in H |- *. destruct (m_set_mode m); [discriminate H|]. simpl.
      destruct (negb (pu_want_joiner p)); [|discriminate H]. simpl.
      rewrite after_access_for_panics in H by reflexivity. exact H.
  - destruct (t_cat ti); simpl in H; try discriminate H; destruct (is_channel (m_topic m)); discriminate H.
Qed.

Lemma another_trigger st ti u tg m :
  is_panic (another_user_sub no_repairs st ti u tg m) = true -> another_reaches st ti u tg m = true.
Proof.
  unfold another_user_sub, another_reaches. intros H.
  destruct (find_pud u (t_peruser ti)) as [h|]; [|discriminate H].
  destruct (pu_sharer h); [|discriminate H]. simpl in H |- *.
  destruct (is_channel (m_topic m)); [discriminate H|]. destruct (o_reject st); [discriminate H|]. simpl.
  destruct (match find_pud tg (t_peruser ti) with Some p => pu_deleted p | None => true end); simpl in H |- *.
  - destruct (m_set_mode m); simpl in H |- *.
    + destruct (o_store_err st); discriminate H.
    + rewrite after_access_for_panics in H by (destruct (o_store_err st); reflexivity). exact H.
  - destruct (o_store_err st); discriminate H.
Qed.

Lemma set_sub_trigger st ti u m :
  is_panic (reply_set_sub no_repairs st ti u m) = true -> set_sub_reaches st ti u m = true.
Proof.
  unfold reply_set_sub, set_sub_reaches. intros H.
  destruct (negb (is_empty (m_set_user m)) && (m_set_user_uid m =? 0)); [discriminate H|]. simpl.
  destruct ((if m_set_user_uid m =? 0 then u else m_set_user_uid m) =? u) eqn:E.
  - now apply this_trigger.
  - destruct (m_set_user_uid m =? 0) eqn:Z; [rewrite N.eqb_refl in E; discriminate E|]. now apply another_trigger.
Qed.

Definition sub_name_of (st : state) (u : N) (m : msg) : option str :=
  if has_prefix s_new (m_topic m) || has_prefix s_nch (m_topic m) then Some (s_grp ++ [o_fresh st])
  else match expand u m with ExpOk n => Some n | ExpErr _ => None end.

Lemma sub_trigger c st u m :
  is_panic (h_subscribe no_repairs c st u m) = true ->
  (m_attachments m && negb (media_configured c) && (has_prefix s_new (m_topic m) || has_prefix s_nch (m_topic m))
   && negb (o_reject st) && negb (o_queue_full st) && negb (attached st (s_grp ++ [o_fresh st]))
   && match find_topic (s_grp ++ [o_fresh st]) (w_loaded st) with Some _ => false | None => true end)
  || (negb (o_queue_full st)
      && match sub_name_of st u m with
         | Some n => negb (attached st n)
                     && match find_topic n (w_loaded st) with
                        | Some ti => negb (t_inactive ti) && this_reaches st ti u m
                        | None => false
                        end
         | None => false
         end) = true.
Proof.
  unfold h_subscribe, sub_name_of. intros H.
  set (r := if has_prefix s_new (m_topic m) || has_prefix s_nch (m_topic m) then ExpOk (s_grp ++ [o_fresh st]) else expand u m) in *.
  assert (R : match r with ExpOk n => Some n | ExpErr _ => None end =
              (if has_prefix s_new (m_topic m) || has_prefix s_nch (m_topic m) then Some (s_grp ++ [o_fresh st])
               else match expand u m with ExpOk n => Some n | ExpErr _ => None end)).
  { unfold r. destruct (has_prefix s_new (m_topic m) || has_prefix s_nch (m_topic m)); reflexivity. }
  rewrite <- R. destruct r as [code|name] eqn:Er; [discriminate H|].
  destruct (attached st name) eqn:A; [discriminate H|]. destruct (o_queue_full st) eqn:Q; [discriminate H|].
  unfold hub_join in H. destruct (find_topic name (w_loaded st)) as [ti|] eqn:F.
  - apply orb_true_iff. right. simpl.
    destruct (t_inactive ti); [discriminate H|]. rewrite Q in H. unfold topic_reg in H. apply this_trigger in H. rewrite H. reflexivity.
  - apply orb_true_iff. left. unfold topic_init in H.
    destruct (has_prefix s_new (m_topic m) || has_prefix s_nch (m_topic m)) eqn:P.
    + assert (Hn : name = s_grp ++ [o_fresh st]) by (unfold r in Er; congruence). subst name. rewrite F. explore H. all: fin. all: try congruence.
    + explore H. all: atoms; congruence.
Qed.

Lemma set_trigger c st u m :
  state_wf st = true ->
  is_panic (h_set no_repairs c st u m) = true ->
  negb (o_queue_full st)
  && match expand u m with
     | ExpOk n => attached st n
                  && match find_topic n (w_loaded st) with
                     | Some ti => (m_attachments m && negb (media_configured c) && m_set_desc m && negb (o_reject st))
                                  || (m_set_sub m && set_sub_reaches st ti u m)
                     | None => false
                     end
     | ExpErr _ => false
     end = true.
Proof.
  intros Hwf. unfold h_set. intros H.
  destruct (expand u m) eqn:He; [discriminate H|].
  destruct (negb (m_set_desc m || m_set_sub m || m_set_tags m || m_set_cred m)); [discriminate H|].
  destruct (attached st name) eqn:A.
  - destruct (o_queue_full st); [discriminate H|]. destruct (find_topic name (w_loaded st)) as [ti|]; [|discriminate H].
    simpl. unfold topic_set in H.
    destruct (m_set_desc m && negb (o_reject st) && m_attachments m && negb (media_configured c) && negb (fix_media no_repairs)) eqn:M.
    + simpl in M. rewrite andb_true_r in M. atoms. rw. reflexivity.
    + destruct (m_set_sub m); [|discriminate H]. simpl.
      destruct (reply_set_sub no_repairs st ti u m) eqn:R; try (destruct (m_set_desc m); discriminate H).
      rewrite (set_sub_trigger st ti u m) by (rewrite R; reflexivity). apply orb_true_r.
  - destruct (m_set_tags m || m_set_cred m); [discriminate H|]. destruct (o_queue_full st); [discriminate H|].
    rewrite offline_set_sub_safe in H by auto. discriminate H.
Qed.

Lemma pub_trigger c st u m :
  is_panic (h_publish no_repairs c st u m) = true ->
  negb (o_queue_full st) &&
  match expand u m with
  | ExpOk n =>
    (attached st n || eqs n s_sys) &&
    match find_topic n (w_loaded st) with
    | Some ti =>
      (t_p2p ti && negb (mem_n u (t_members ti)))
      || (negb (t_p2p ti && negb (mem_n u (t_members ti))) && m_attachments m && negb (media_configured c) && negb (o_reject st))
    | None => false
    end
  | ExpErr _ => false
  end = true.
Proof. unfold h_publish, topic_pub. intros H. explore H. all: fin. Qed.

Lemma get_trigger st u m :
  state_wf st = true ->
  is_panic (h_get no_repairs st u m) = true ->
  negb (o_queue_full st) &&
  match expand u m with
  | ExpOk n =>
    match find_topic n (w_loaded st) with
    | Some ti => t_p2p ti && negb (mem_n u (t_members ti)) && attached st n && m_get_data m
    | None => false
    end
  | ExpErr _ => false
  end = true.
Proof.
  intros Hwf. unfold h_get, topic_get, original_panics. intros H.
  destruct (expand u m) eqn:He; [discriminate H|].
  destruct (negb (m_get_desc m || m_get_sub m || m_get_data m || m_get_rest m)); [discriminate H|].
  destruct (attached st name) eqn:A.
  - explore H. fin.
  - destruct (m_get_desc m || m_get_sub m); [|discriminate H]. destruct (o_queue_full st); [discriminate H|].
    destruct (m_get_desc m && negb (m_get_sub m || m_get_data m || m_get_rest m)).
    + unfold offline_get_desc in H. explore H.
    + rewrite offline_get_sub_safe in H by auto. discriminate H.
Qed.

Lemma dispatch_trigger c st m :
  state_wf st = true -> is_panic (dispatch no_repairs c st m) = true ->
  dtrigger c st m = true.
Proof.
  intros Hwf. unfold dtrigger, dispatch.
  destruct (obo_check st (m_obo m) (m_obo_uid m)) eqn:O; [discriminate|].
  destruct (w_partitioned st) eqn:Pt; [discriminate|].
  fold (acting_user st m). set (u := acting_user st m).
  destruct (m_kind m) eqn:K; intros H.
  - unfold h_hello in H. explore H.
  - destruct (s_ver st =? 0) eqn:V; [discriminate H|]. simpl in H.
    apply acc_trigger in H. unfold trig_acc, trig_media, passes_checks, passes_front. rewrite K, O, Pt, V. simpl.
    apply orb_prop in H as [H|H]; fin2.
  - destruct (s_ver st =? 0) eqn:V; [discriminate H|]. simpl in H. unfold h_login in H. explore H.
  - destruct (s_ver st =? 0) eqn:V; [discriminate H|]. simpl in H.
    destruct (u =? 0) eqn:U; [discriminate H|].
    apply sub_trigger in H. apply orb_prop in H as [H|H].
    + unfold trig_media, passes_checks, passes_front. fold u. rewrite K, O, Pt, V, U. simpl. fin2.
    + unfold trig_defacs, passes_checks, passes_front, sub_name, expanded. unfold sub_name_of in H. fold u. rewrite K, O, Pt, V, U. simpl.
      simpl in H. rewrite H. rewrite ?orb_true_r. reflexivity.
  - destruct (s_ver st =? 0) eqn:V; [discriminate H|]. simpl in H.
    destruct (u =? 0) eqn:U; [discriminate H|]. unfold h_leave in H. explore H.
  - destruct (s_ver st =? 0) eqn:V; [discriminate H|]. simpl in H.
    destruct (u =? 0) eqn:U; [discriminate H|].
    apply pub_trigger in H. unfold trig_media, trig_original, passes_checks, passes_front, expanded. fold u. rewrite K, O, Pt, V, U. simpl.
    atoms. destruct (expand u m); [discriminate|]. atoms. destruct (find_topic name (w_loaded st)); [|discriminate].
    rw. simpl.
    match goal with H : _ || _ = true |- _ => apply orb_prop in H as [H|H] end; fin2.
  - destruct (s_ver st =? 0) eqn:V; [discriminate H|]. simpl in H.
    destruct (u =? 0) eqn:U; [discriminate H|].
    apply get_trigger in H; auto. unfold trig_original, passes_checks, passes_front, expanded. fold u. rewrite K, O, Pt, V, U. simpl.
    atoms. destruct (expand u m); [discriminate|]. destruct (find_topic name (w_loaded st)); [|discriminate].
    fin2.
  - destruct (s_ver st =? 0) eqn:V; [discriminate H|]. simpl in H.
    destruct (u =? 0) eqn:U; [discriminate H|].
    apply set_trigger in H; auto. unfold trig_media, trig_defacs, passes_checks, passes_front, expanded. fold u. rewrite K, O, Pt, V, U. simpl.
    atoms. rw. simpl. destruct (expand u m); [discriminate|]. atoms. rw. simpl.
    destruct (find_topic name (w_loaded st)); [|discriminate].
    match goal with H : _ || _ = true |- _ => apply orb_prop in H as [H|H] end; atoms; rw; simpl; rewrite ?orb_true_r; reflexivity.
  - destruct (s_ver st =? 0) eqn:V; [discriminate H|]. simpl in H.
    destruct (u =? 0) eqn:U; [discriminate H|].
    apply del_trigger in H. unfold trig_unreg, passes_checks, passes_front, expanded. fold u. rewrite K, O, Pt, V, U. simpl.
    atoms. rw. simpl. destruct (expand u m); [discriminate|]. rw. rewrite ?orb_true_r; reflexivity.
  - apply note_trigger in H. unfold trig_note, passes_front, expanded. fold u. rewrite K, O, Pt. simpl.
    atoms. rw. simpl. destruct (expand u m); [discriminate|]. rw. rewrite ?orb_true_r; reflexivity.
Qed.

Lemma handle_trigger c st f :
  state_wf st = true -> is_panic (handle no_repairs c st f) = true -> trigger c st f = true.
Proof.
  intros Hwf. destruct f; simpl.
  - destruct (s_terminating st); discriminate.
  - destruct (s_terminating st); discriminate.
  - destruct (s_terminating st); [discriminate|]. destruct (obo_check st obo obo_uid); discriminate.
  - destruct (s_terminating st); [discriminate|]. simpl. now apply dispatch_trigger.
  - rewrite andb_true_r. destruct (query_present && query_empty); [reflexivity|]. simpl. now apply dispatch_trigger.
Qed.

(* ---- reply totality, id echo, error-not-silence (repaired code) ---- *)
Definition is_answered (o : outcome) : bool := match o with Replies (_ :: _) => true | _ => false end.
Definition all_ids (id : str) (o : outcome) : bool :=
  match o with Replies l => forallb (fun r => eqs (r_id r) id) l | _ => true end.
Definition code_ge (n : N) (o : outcome) : bool :=
  match first_code o with Some c => n <=? c | None => false end.

Ltac split_goal :=
  repeat (simpl;
    match goal with
    | |- context [if ?c then _ else _] => let E := fresh "E" in destruct c eqn:E
    | |- context [match ?x with _ => _ end] => let E := fresh "E" in destruct x eqn:E
    end); simpl; rewrite ?eqs_refl; try reflexivity; try discriminate; try congruence.

(* Q : the property of outcomes being established for every leaf [rep code (m_id m)] *)
Section Leaves.
  Variable Q : outcome -> bool.
  Variable id : str.
  Hypothesis Qrep : forall code, Q (rep code id) = true.

  Lemma leaves_offline_get_sub st u m name :
    m_id m = id -> state_wf st = true -> expand u m = ExpOk name -> Q (offline_get_sub st u name m) = true.
  Proof.
    intros <- Hwf He. unfold offline_get_sub.
    destruct (o_reject st); [apply Qrep|]. destruct (o_store_err st); [apply Qrep|].
    destruct (has_row (row_name m name) u (w_rows st)) eqn:Hr; [|apply Qrep]. simpl.
    destruct (valid_cat_ok name (row_found_valid st u m name Hwf He Hr)) as [c ->]. apply Qrep.
  Qed.

  Lemma leaves_offline_set_sub st u m name :
    m_id m = id -> state_wf st = true -> expand u m = ExpOk name -> Q (offline_set_sub st u name m) = true.
  Proof.
    intros <- Hwf He. unfold offline_set_sub.
    destruct (negb (m_set_private m) && negb (m_set_mode m)); [apply Qrep|].
    destruct (o_reject st); [apply Qrep|]. destruct (o_store_err st); [apply Qrep|].
    destruct (has_row (row_name m name) u (w_rows st)) eqn:Hr; [|apply Qrep]. simpl.
    destruct (m_set_mode m); [|apply Qrep].
    destruct (valid_cat_ok name (row_found_valid st u m name Hwf He Hr)) as [c ->]. apply Qrep.
  Qed.

  Lemma leaves_topic_unreg st u m name : m_id m = id -> Q (topic_unreg all_repairs st u name m) = true.
  Proof.
    intros <-. unfold topic_unreg. destruct (find_topic name (w_loaded st)).
    - repeat match goal with |- context [if ?c then _ else _] => destruct c end; apply Qrep.
    - simpl. destruct (topic_name_valid name) eqn:Hv; simpl; [|apply Qrep].
      destruct (o_store_err st); [apply Qrep|].
      destruct (valid_cat_ok _ (row_name_valid m name Hv)) as [c ->]. apply Qrep.
  Qed.

  Lemma leaves_this_user_sub st ti u m : m_id m = id -> Q (this_user_sub all_repairs st ti u m) = true.
  Proof.
    intros <-. unfold this_user_sub. rewrite !after_access_for_repaired.
    destruct (o_reject st); [apply Qrep|]. destruct (o_store_err st); [apply Qrep|].
    destruct (find_pud u (t_peruser ti)) as [p|]; [destruct (pu_deleted p)|]; simpl.
    - destruct (t_cat ti); try apply Qrep; destruct (is_channel (m_topic m)); apply Qrep.
    - destruct (m_set_mode m); [apply Qrep|]. destruct (negb (pu_want_joiner p)); apply Qrep.
    - destruct (t_cat ti); try apply Qrep; destruct (is_channel (m_topic m)); apply Qrep.
  Qed.

  Lemma leaves_another_user_sub st ti u tg m : m_id m = id -> Q (another_user_sub all_repairs st ti u tg m) = true.
  Proof.
    intros <-. unfold another_user_sub. rewrite !after_access_for_repaired.
    destruct (find_pud u (t_peruser ti)) as [h|]; [|apply Qrep].
    destruct (negb (pu_sharer h)); [apply Qrep|]. destruct (is_channel (m_topic m)); [apply Qrep|].
    destruct (o_reject st); [apply Qrep|].
    match goal with |- context [if ?c then _ else _] => destruct c end; destruct (o_store_err st); apply Qrep.
  Qed.

  Lemma leaves_reply_set_sub st ti u m : m_id m = id -> Q (reply_set_sub all_repairs st ti u m) = true.
  Proof.
    intros Hid. unfold reply_set_sub.
    destruct (negb (is_empty (m_set_user m)) && (m_set_user_uid m =? 0)); [rewrite Hid; apply Qrep|].
    match goal with |- context [if ?c then _ else _] => destruct c end; [now apply leaves_this_user_sub|now apply leaves_another_user_sub].
  Qed.

  Lemma leaves_topic_set c st ti u m : m_id m = id -> Q (topic_set all_repairs c st ti u m) = true.
  Proof.
    intros Hid. unfold topic_set. simpl. rewrite ?andb_false_r. destruct (m_set_sub m); [|rewrite Hid; apply Qrep].
    pose proof (leaves_reply_set_sub st ti u m Hid) as HQ. pose proof (reply_set_sub_safe st ti u m) as HS.
    destruct (reply_set_sub all_repairs st ti u m); [| |discriminate HS]; destruct (m_set_desc m); try exact HQ; rewrite Hid; apply Qrep.
  Qed.

  Ltac leaves := repeat (simpl; rewrite ?andb_false_r;
                         match goal with
                         | |- context [if ?c then _ else _] => destruct c
                         | |- context [match ?x with _ => _ end] => destruct x
                         end); simpl; try apply Qrep.

  (* every handler except {pub} (silent on an accepted id-less message), {hi}... and {note} ends in [rep _ id] *)
  Lemma leaves_dispatch c st m :
    m_id m = id -> state_wf st = true ->
    obo_check st (m_obo m) (m_obo_uid m) = None ->
    m_kind m <> KNote -> (m_kind m = KPub -> is_empty (m_id m) = false) ->
    Q (dispatch all_repairs c st m) = true.
  Proof.
    intros Hid Hwf O Hn Hp. unfold dispatch. rewrite O. rewrite Hid.
    destruct (w_partitioned st); [apply Qrep|].
    set (u := if is_empty (m_obo m) then s_uid st else m_obo_uid m).
    destruct (m_kind m) eqn:K; try congruence;
      try (destruct (s_ver st =? 0); [apply Qrep|]; simpl;
           match goal with |- context [if (?a =? 0) then _ else _] => destruct (a =? 0); [apply Qrep|] | _ => idtac end).
    - unfold h_hello. rewrite Hid. leaves.
    - unfold h_acc. rewrite Hid. simpl. rewrite ?andb_false_r. leaves.
    - unfold h_login. rewrite Hid. leaves.
    - unfold h_subscribe. rewrite Hid.
      destruct (if has_prefix s_new (m_topic m) || has_prefix s_nch (m_topic m) then ExpOk (s_grp ++ [o_fresh st]) else expand u m); [apply Qrep|].
      destruct (attached st name); [apply Qrep|]. destruct (o_queue_full st) eqn:Qf; [apply Qrep|].
      unfold hub_join. destruct (find_topic name (w_loaded st)) as [ti|].
      + destruct (t_inactive ti); [rewrite Hid; apply Qrep|]. rewrite Qf. now apply leaves_this_user_sub.
      + unfold topic_init. rewrite Hid. simpl. rewrite ?andb_false_r. leaves.
    - unfold h_leave. rewrite Hid. leaves.
    - pose proof (Hp eq_refl) as Hp'. rewrite Hid in Hp'. unfold h_publish, topic_pub. rewrite ?Hid. rewrite Hp'. simpl. rewrite ?andb_false_r. leaves.
    - unfold h_get. destruct (expand u m) eqn:He; rewrite ?Hid; [apply Qrep|].
      destruct (negb (m_get_desc m || m_get_sub m || m_get_data m || m_get_rest m)); [apply Qrep|].
      destruct (attached st name).
      + destruct (o_queue_full st); [apply Qrep|]. destruct (find_topic name (w_loaded st)); [|apply Qrep].
        unfold topic_get, original_panics. simpl. rewrite ?andb_false_r. rewrite Hid. apply Qrep.
      + destruct (m_get_desc m || m_get_sub m); [|apply Qrep]. destruct (o_queue_full st); [apply Qrep|].
        destruct (m_get_desc m && negb (m_get_sub m || m_get_data m || m_get_rest m)).
        * unfold offline_get_desc. rewrite Hid. leaves.
        * now apply leaves_offline_get_sub.
    - unfold h_set. destruct (expand u m) eqn:He; rewrite ?Hid; [apply Qrep|].
      destruct (negb (m_set_desc m || m_set_sub m || m_set_tags m || m_set_cred m)); [apply Qrep|].
      destruct (attached st name).
      + destruct (o_queue_full st); [apply Qrep|]. destruct (find_topic name (w_loaded st)); [|apply Qrep].
        now apply leaves_topic_set.
      + destruct (m_set_tags m || m_set_cred m); [apply Qrep|]. destruct (o_queue_full st); [apply Qrep|].
        now apply leaves_offline_set_sub.
    - unfold h_del. rewrite Hid. destruct (eqs (m_what m) s_user); [apply Qrep|].
      destruct (expand u m); [apply Qrep|].
      destruct (negb (del_what_known (m_what m))); [apply Qrep|].
      destruct (attached st name && negb (eqs (m_what m) s_topic)); [destruct (o_queue_full st); apply Qrep|].
      destruct (eqs (m_what m) s_topic); [|apply Qrep].
      destruct (o_queue_full st); [apply Qrep|now apply leaves_topic_unreg].
  Qed.
End Leaves.

Lemma answered c st m :
  s_terminating st = false -> state_wf st = true -> m_kind m <> KNote ->
  (m_kind m = KPub -> is_empty (m_id m) = false) ->
  is_answered (handle all_repairs c st (Decoded m)) = true.
Proof.
  intros Ht Hwf Hn Hp. simpl. rewrite Ht.
  destruct (obo_check st (m_obo m) (m_obo_uid m)) eqn:O.
  - unfold dispatch. rewrite O. reflexivity.
  - apply (leaves_dispatch is_answered (m_id m)); auto.
Qed.

Lemma id_echo_partial c st m :
  state_wf st = true -> m_kind m <> KNote -> (m_kind m = KPub -> is_empty (m_id m) = false) ->
  obo_check st (m_obo m) (m_obo_uid m) = None ->
  all_ids (m_id m) (handle all_repairs c st (Decoded m)) = true.
Proof.
  intros Hwf Hn Hp O. simpl. destruct (s_terminating st); [reflexivity|].
  apply (leaves_dispatch (all_ids (m_id m)) (m_id m)); auto.
  intros code. simpl. now rewrite eqs_refl.
Qed.

Lemma obo_check_code st obo u code : obo_check st obo u = Some code -> code = 403 \/ code = 400.
Proof. unfold obo_check. destruct (is_empty obo); [discriminate|]. destruct (negb (s_root st)); [intros [= <-]; auto|].
  destruct (u =? 0); [intros [= <-]; auto|discriminate]. Qed.

Lemma error_not_silence c st m :
  s_terminating st = false -> bad_request st m = true ->
  code_ge 400 (handle all_repairs c st (Decoded m)) = true.
Proof.
  intros Ht Hb. simpl. rewrite Ht. unfold dispatch.
  destruct (obo_check st (m_obo m) (m_obo_uid m)) eqn:O.
  { apply obo_check_code in O as [-> | ->]; reflexivity. }
  destruct (w_partitioned st); [reflexivity|].
  unfold bad_request, acting_user, takes_topic in Hb.
  set (u := if is_empty (m_obo m) then s_uid st else m_obo_uid m) in *.
  destruct (m_kind m) eqn:K; try discriminate Hb;
    (destruct (s_ver st =? 0); [reflexivity|]); simpl in Hb |- *;
    try (destruct (u =? 0); [reflexivity|]; simpl in Hb |- * ); try discriminate Hb.
  - unfold h_subscribe. unfold expand. rewrite Hb.
    destruct (m_topic m); [|discriminate Hb]. reflexivity.
  - unfold h_leave, expand. rewrite Hb. reflexivity.
  - unfold h_publish, expand. rewrite Hb. reflexivity.
  - unfold h_get, expand. rewrite Hb. reflexivity.
  - unfold h_set, expand. rewrite Hb. reflexivity.
  - unfold h_del, expand. apply andb_prop in Hb as [Hb1 Hb2]. apply negb_true_iff in Hb1. rewrite Hb1, Hb2. reflexivity.
Qed.

(* ---- histories: the state changes tracked for the default-access site keep the state well-formed ---- *)
Lemma find_topic_valid name l ti :
  forallb (fun t => topic_name_valid (t_name t)) l = true -> find_topic name l = Some ti -> topic_name_valid name = true.
Proof.
  unfold find_topic. induction l as [|t r IH]; intros Hl Hf; [discriminate Hf|]. fold find_topic in *.
  cbn [forallb] in Hl. apply andb_prop in Hl as [Ht Hr].
  destruct (eqs name (t_name t)) eqn:E.
  - apply eqs_eq in E. subst name. exact Ht.
  - apply IH; assumption.
Qed.

Lemma update_topic_valid name f l :
  (forall t, t_name (f t) = t_name t) ->
  forallb (fun t => topic_name_valid (t_name t)) l = true -> forallb (fun t => topic_name_valid (t_name t)) (update_topic name f l) = true.
Proof.
  intros Hf. induction l as [|t r IH]; intros Hl; [reflexivity|]. cbn [update_topic].
  cbn [forallb] in Hl. apply andb_prop in Hl as [Ht Hr].
  destruct (eqs name (t_name t)); cbn [forallb]; [rewrite Hf, Ht; exact Hr|rewrite Ht; exact (IH Hr)].
Qed.

Lemma remove_str_valid x l : forallb topic_name_valid l = true -> forallb topic_name_valid (remove_str x l) = true.
Proof.
  induction l as [|y r IH]; intros Hl; [reflexivity|]. cbn [remove_str]. cbn [forallb] in Hl. apply andb_prop in Hl as [Hy Hr].
  destruct (eqs x y); [exact (IH Hr)|]. cbn [forallb]. rewrite Hy. exact (IH Hr).
Qed.

Lemma after_wf st m : state_wf st = true -> state_wf (after st m) = true.
Proof.
  intros Hwf. unfold after. destruct (expanded st m) as [n|]; [|exact Hwf].
  destruct (find_topic n (w_loaded st)) as [ti|] eqn:F; [|exact Hwf].
  pose proof Hwf as Hwf0. unfold state_wf in Hwf. apply andb_prop in Hwf as [Hwf Hs]. apply andb_prop in Hwf as [Hr Hl].
  pose proof (find_topic_valid n _ ti Hl F) as Hn.
  assert (Hupd : forall f, (forall t, t_name (f t) = t_name t) ->
                 forallb (fun t => topic_name_valid (t_name t)) (update_topic n f (w_loaded st)) = true)
    by (intros f Hf; apply update_topic_valid; assumption).
  destruct (m_kind m); try exact Hwf0.
  - destruct (attached st n); [exact Hwf0|]. unfold state_wf, with_subs_loaded. cbn [w_rows w_loaded s_subs].
    rewrite Hr, Hupd by reflexivity. cbn [andb].
    match goal with |- context [if ?c then _ else _] => destruct c end; [cbn [forallb]; rewrite Hn|]; exact Hs.
  - destruct (attached st n); [|exact Hwf0]. cbn [andb]. destruct (m_unsub m);
      unfold state_wf, with_subs_loaded; cbn [w_rows w_loaded s_subs]; rewrite Hr, ?Hl, ?Hupd by reflexivity; cbn [andb]; apply remove_str_valid; exact Hs.
  - match goal with |- context [if ?c then _ else _] => destruct c end; [|exact Hwf0].
    unfold state_wf, with_subs_loaded. cbn [w_rows w_loaded s_subs]. rewrite Hr, Hupd by reflexivity. cbn [andb].
    destruct (m_set_joiner m); [exact Hs|apply remove_str_valid; exact Hs].
Qed.

Lemma run_safe c : forall ms st, state_wf st = true -> Forall (fun o => is_panic o = false) (run all_repairs c st ms).
Proof.
  induction ms as [|m r IH]; intros st Hwf; cbn [run]; constructor.
  - apply handle_safe. exact Hwf.
  - apply IH. apply after_wf. exact Hwf.
Qed.

(* getDefaultAccess as it is: total on the five categories; before /repo f52b053: the sys topic alone is missing *)
Lemma default_access_total c a ch : exists x, get_default_access all_repairs c a ch = Some x.
Proof. destruct c, a, ch; vm_compute; eexists; reflexivity. Qed.

Lemma default_access_unrepaired c a ch : get_default_access no_repairs c a ch = None <-> (c = CatSys /\ a = true).
Proof. destruct c, a, ch; vm_compute; split; try discriminate; try (intros [? ?]; discriminate); auto. Qed.
