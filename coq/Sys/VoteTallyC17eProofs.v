(* Proofs about Sys/VoteTallyC17e.v (one run of electLeader over the replies that
   arrive): for every node count, every reply list in every order. *)
From Coq Require Import List Bool Arith Lia Permutation.
From Tinode Require Import Sys.Election Sys.ElectionProofs Sys.VoteTallyC17e.
Import ListNotations.

Lemma count_yes_cons_c17e r arr :
  count_yes_c17e (r :: arr) = (if is_yes_c17e r then 1 else 0) + count_yes_c17e arr.
Proof. unfold count_yes_c17e. cbn [filter]. destruct (is_yes_c17e r); reflexivity. Qed.

Lemma count_yes_app_c17e a b : count_yes_c17e (a ++ b) = count_yes_c17e a + count_yes_c17e b.
Proof. unfold count_yes_c17e. rewrite filter_app, app_length. reflexivity. Qed.

Lemma count_yes_perm_c17e a b : Permutation a b -> count_yes_c17e a = count_yes_c17e b.
Proof.
  intros H. induction H.
  - reflexivity.
  - rewrite !count_yes_cons_c17e. lia.
  - rewrite !count_yes_cons_c17e. lia.
  - lia.
Qed.

Lemma count_yes_le_length_c17e arr : count_yes_c17e arr <= length arr.
Proof. unfold count_yes_c17e. apply (count_le_length is_yes_c17e arr). Qed.

(* NO and error replies never add a vote, whatever the order: the final voteCount
   is at most the initial one plus the YES replies in the list *)
Lemma loop_votes_le_c17e nc ev term arr : forall i vc k,
  tl_votes (loop_c17e nc ev term arr i vc k) <= vc + count_yes_c17e arr.
Proof.
  induction arr as [|r arr IH]; intros i vc k; cbn [loop_c17e].
  - destruct ((i <? nc) && (vc <? ev)); cbn [tl_votes]; lia.
  - destruct ((i <? nc) && (vc <? ev)); [|cbn [tl_votes]; lia].
    rewrite count_yes_cons_c17e. destruct r as [t|rt|]; cbn [is_yes_c17e].
    + specialize (IH (S i) (S vc) (S k)). lia.
    + destruct (term <? rt).
      * specialize (IH (S nc) 0 (S k)). lia.
      * specialize (IH (S i) vc (S k)). lia.
    + specialize (IH (S i) vc (S k)). lia.
Qed.

(* exact: when no NO reply carries a term above the candidate's (the abandon branch)
   and there is at most one reply per request, the threshold is reached iff the YES
   replies given reach it *)
Lemma loop_elected_iff_c17e nc ev term arr :
  (forall rt, In (RNo rt) arr -> rt <= term) ->
  forall i vc k, i + length arr <= nc ->
  (ev <= tl_votes (loop_c17e nc ev term arr i vc k) <-> ev <= vc + count_yes_c17e arr).
Proof.
  induction arr as [|r arr IH]; intros Hno i vc k Hlen; cbn [loop_c17e].
  - unfold count_yes_c17e. cbn [filter length]. destruct ((i <? nc) && (vc <? ev)); cbn [tl_votes]; lia.
  - cbn [length] in Hlen.
    destruct (Nat.ltb_spec i nc) as [Hi|Hi]; [|lia]. cbn [andb].
    destruct (Nat.ltb_spec vc ev) as [Hv|Hv]; [|cbn [tl_votes]; lia].
    assert (Hno' : forall rt, In (RNo rt) arr -> rt <= term) by (intros rt H; apply Hno; now right).
    rewrite count_yes_cons_c17e. destruct r as [t|rt|]; cbn [is_yes_c17e].
    + rewrite (IH Hno' (S i) (S vc) (S k)) by lia. lia.
    + assert (rt <= term) by (apply Hno; now left).
      destruct (Nat.ltb_spec term rt) as [Hlt|_]; [lia|].
      rewrite (IH Hno' (S i) vc (S k)) by lia. lia.
    + rewrite (IH Hno' (S i) vc (S k)) by lia. lia.
Qed.

(* a NO reply with a term above the candidate's, taken before the threshold is
   reached, ends the election without a leader *)
Lemma loop_abandon_c17e nc ev term pre rt post :
  term < rt -> 0 < ev ->
  (forall rt', In (RNo rt') pre -> rt' <= term) ->
  forall i vc k, i + length pre < nc -> vc + count_yes_c17e pre < ev ->
  tl_votes (loop_c17e nc ev term (pre ++ RNo rt :: post) i vc k) = 0.
Proof.
  intros Hrt Hev. induction pre as [|r pre IH]; intros Hno i vc k Hlen Hv; cbn [app loop_c17e].
  - cbn [length] in Hlen. unfold count_yes_c17e in Hv. cbn [filter length] in Hv.
    destruct (Nat.ltb_spec i nc) as [_|]; [|lia]. destruct (Nat.ltb_spec vc ev) as [_|]; [|lia]. cbn [andb].
    destruct (Nat.ltb_spec term rt) as [_|]; [|lia].
    destruct post; cbn [loop_c17e]; destruct (Nat.ltb_spec (S nc) nc); try lia; reflexivity.
  - cbn [length] in Hlen. rewrite count_yes_cons_c17e in Hv.
    destruct (Nat.ltb_spec i nc) as [_|]; [|lia]. destruct (Nat.ltb_spec vc ev) as [_|]; [|lia]. cbn [andb].
    assert (Hno' : forall rt', In (RNo rt') pre -> rt' <= term) by (intros x H; apply Hno; now right).
    destruct r as [t|rt'|]; cbn [is_yes_c17e] in Hv.
    + apply IH; auto; lia.
    + assert (rt' <= term) by (apply Hno; now left).
      destruct (Nat.ltb_spec term rt'); [lia|]. apply IH; auto; lia.
    + apply IH; auto; lia.
Qed.

(* ------------------------------------------------------------------ *)
(* electLeader as a whole *)

Lemma tally_eq_c17e c arr :
  oc_tally (elect_c17e c arr) =
  loop_c17e (length (cd_peers c)) (expect_c17e (length (cd_peers c))) (S (cd_term c))
            (unconnected_c17e (cd_peers c) ++ arr) 0 1 0.
Proof. reflexivity. Qed.

Lemma term_eq_c17e c arr : oc_term (elect_c17e c arr) = S (cd_term c).
Proof. reflexivity. Qed.

Lemma leader_cases_c17e c arr :
  oc_leader (elect_c17e c arr) = Some (cd_self c) \/ oc_leader (elect_c17e c arr) = None.
Proof. unfold elect_c17e. cbn [oc_leader]. destruct (_ <=? _); auto. Qed.

Lemma leader_iff_votes_c17e c arr :
  oc_leader (elect_c17e c arr) = Some (cd_self c) <->
  expect_c17e (length (cd_peers c)) <= tl_votes (oc_tally (elect_c17e c arr)).
Proof.
  rewrite tally_eq_c17e. unfold elect_c17e. cbn [oc_leader].
  destruct (Nat.leb_spec (expect_c17e (length (cd_peers c)))
     (tl_votes (loop_c17e (length (cd_peers c)) (expect_c17e (length (cd_peers c))) (S (cd_term c))
                          (unconnected_c17e (cd_peers c) ++ arr) 0 1 0))); split; intros; try lia; try discriminate; auto.
Qed.

Lemma unconnected_in_c17e ps r : In r (unconnected_c17e ps) -> r = RErr.
Proof. unfold unconnected_c17e. rewrite in_map_iff. intros (x & E & _). now symmetry. Qed.

Lemma unconnected_no_yes_c17e ps : count_yes_c17e (unconnected_c17e ps) = 0.
Proof.
  unfold unconnected_c17e, count_yes_c17e. induction (filter (fun p => negb (snd p)) ps) as [|x l IH]; [reflexivity|].
  cbn [map filter is_yes_c17e]. exact IH.
Qed.

Lemma expect_majority_c17e nc : S nc < 2 * expect_c17e nc /\ 2 * (expect_c17e nc - 1) <= S nc.
Proof.
  unfold expect_c17e. pose proof (Nat.div2_odd (nc + 1)). destruct (Nat.odd (nc + 1)); cbn [Nat.b2n] in *; lia.
Qed.

Lemma expect_is_election_c17e cfg n : expect_c17e (node_count cfg n) = expect_votes cfg n.
Proof. reflexivity. Qed.

(* safety, no hypothesis on the replies at all *)
Lemma leader_real_majority_c17e c arr :
  oc_leader (elect_c17e c arr) = Some (cd_self c) ->
  expect_c17e (length (cd_peers c)) <= 1 + count_yes_c17e arr /\
  S (length (cd_peers c)) < 2 * (1 + count_yes_c17e arr).
Proof.
  intros H. apply leader_iff_votes_c17e in H. rewrite tally_eq_c17e in H.
  pose proof (loop_votes_le_c17e (length (cd_peers c)) (expect_c17e (length (cd_peers c))) (S (cd_term c))
                (unconnected_c17e (cd_peers c) ++ arr) 0 1 0) as L.
  rewrite count_yes_app_c17e, unconnected_no_yes_c17e in L.
  pose proof (expect_majority_c17e (length (cd_peers c))). lia.
Qed.

Lemma leader_any_order_c17e c arr arr' :
  Permutation arr arr' ->
  oc_leader (elect_c17e c arr') = Some (cd_self c) ->
  S (length (cd_peers c)) < 2 * (1 + count_yes_c17e arr).
Proof.
  intros P H. apply leader_real_majority_c17e in H. rewrite (count_yes_perm_c17e _ _ P). tauto.
Qed.

(* exact condition *)
Lemma leader_iff_real_majority_c17e c arr :
  length (unconnected_c17e (cd_peers c) ++ arr) <= length (cd_peers c) ->
  (forall rt, In (RNo rt) arr -> rt <= S (cd_term c)) ->
  (oc_leader (elect_c17e c arr) = Some (cd_self c) <->
   expect_c17e (length (cd_peers c)) <= 1 + count_yes_c17e arr).
Proof.
  intros Hlen Hno. rewrite leader_iff_votes_c17e, tally_eq_c17e.
  rewrite loop_elected_iff_c17e.
  - rewrite count_yes_app_c17e, unconnected_no_yes_c17e. reflexivity.
  - intros rt H. apply in_app_or in H as [H|H]; [apply unconnected_in_c17e in H; discriminate|auto].
  - cbn [plus]. exact Hlen.
Qed.

Lemma leader_order_independent_c17e c arr arr' :
  Permutation arr arr' ->
  length (unconnected_c17e (cd_peers c) ++ arr) <= length (cd_peers c) ->
  (forall rt, In (RNo rt) arr -> rt <= S (cd_term c)) ->
  (oc_leader (elect_c17e c arr) = Some (cd_self c) <-> oc_leader (elect_c17e c arr') = Some (cd_self c)).
Proof.
  intros P Hlen Hno.
  rewrite (leader_iff_real_majority_c17e c arr Hlen Hno).
  rewrite (leader_iff_real_majority_c17e c arr').
  - rewrite (count_yes_perm_c17e _ _ P). reflexivity.
  - rewrite app_length in *. rewrite <- (Permutation_length P). exact Hlen.
  - intros rt H. apply Hno. apply (Permutation_in _ (Permutation_sym P) H).
Qed.

(* a NO with a later term taken before the threshold: no leader *)
Lemma leader_abandon_c17e c pre rt post :
  S (cd_term c) < rt ->
  (forall rt', In (RNo rt') pre -> rt' <= S (cd_term c)) ->
  length (unconnected_c17e (cd_peers c) ++ pre) < length (cd_peers c) ->
  1 + count_yes_c17e pre < expect_c17e (length (cd_peers c)) ->
  oc_leader (elect_c17e c (pre ++ RNo rt :: post)) = None.
Proof.
  intros Hrt Hno Hlen Hv.
  destruct (leader_cases_c17e c (pre ++ RNo rt :: post)) as [H|H]; [exfalso|exact H].
  apply leader_iff_votes_c17e in H. rewrite tally_eq_c17e, app_assoc in H.
  rewrite loop_abandon_c17e in H.
  - unfold expect_c17e in H. lia.
  - exact Hrt.
  - unfold expect_c17e. lia.
  - intros x Hx. apply in_app_or in Hx as [Hx|Hx]; [apply unconnected_in_c17e in Hx; discriminate|auto].
  - cbn [plus]. exact Hlen.
  - rewrite count_yes_app_c17e, unconnected_no_yes_c17e. exact Hv.
Qed.

(* the request side *)
Lemma requests_ok_c17e c arr p nm t :
  In (p, (nm, t)) (oc_requests (elect_c17e c arr)) ->
  nm = cd_self c /\ t = oc_term (elect_c17e c arr) /\ t = S (cd_term c) /\ In (p, true) (cd_peers c).
Proof.
  unfold elect_c17e. cbn [oc_requests oc_term]. rewrite in_map_iff. intros ([a b] & E & Hin).
  apply filter_In in Hin as [Hin Hb]. cbn [fst snd] in *. subst b. inversion E; subst. auto.
Qed.

Lemma requests_all_c17e c arr p :
  In (p, true) (cd_peers c) -> In (p, (cd_self c, S (cd_term c))) (oc_requests (elect_c17e c arr)).
Proof.
  intros H. unfold elect_c17e. cbn [oc_requests]. apply in_map_iff. exists (p, true). split; [reflexivity|].
  apply filter_In. auto.
Qed.

Lemma requests_receivers_c17e c arr :
  map fst (oc_requests (elect_c17e c arr)) = map fst (filter snd (cd_peers c)).
Proof. unfold elect_c17e. cbn [oc_requests]. rewrite map_map. reflexivity. Qed.

(* ------------------------------------------------------------------ *)
(* two candidates whose YES replies come from voters that vote once *)

Lemma filter_map_length_c17e {A B} (f : B -> bool) (g : A -> B) l :
  length (filter f (map g l)) = length (filter (fun x => f (g x)) l).
Proof. induction l as [|x l IH]; [reflexivity|]. cbn [map filter]. destruct (f (g x)); cbn [length]; lia. Qed.

Lemma yes_le_supporters_c17e nodes ballot c ord rep :
  view_ok_c17e nodes ballot c ord rep ->
  1 + count_yes_c17e (map rep ord) <= count (supports_c17e ballot (cd_self c)) nodes.
Proof.
  intros V.
  set (L := cd_self c :: filter (fun m => is_yes_c17e (rep m)) ord).
  assert (ND : NoDup L).
  { constructor.
    - intros Hin. apply filter_In in Hin as [Hin _]. apply (vo_peers _ _ _ _ _ V) in Hin. tauto.
    - apply NoDup_filter. exact (vo_nodup _ _ _ _ _ V). }
  assert (I : incl L (filter (supports_c17e ballot (cd_self c)) nodes)).
  { intros m [<-|Hm]; apply filter_In.
    - split; [exact (vo_in _ _ _ _ _ V)|]. unfold supports_c17e. rewrite (vo_self _ _ _ _ _ V). apply Nat.eqb_refl.
    - apply filter_In in Hm as [Hin Hy]. destruct (rep m) as [t| |] eqn:E; try discriminate.
      split; [apply (vo_peers _ _ _ _ _ V), Hin|]. unfold supports_c17e.
      rewrite (vo_yes _ _ _ _ _ V m t Hin E). apply Nat.eqb_refl. }
  pose proof (NoDup_incl_length ND I) as Len. unfold L in Len. cbn [length] in Len.
  unfold count, count_yes_c17e. rewrite filter_map_length_c17e. lia.
Qed.

Lemma no_two_leaders_c17e nodes ballot c1 c2 ord1 ord2 rep1 rep2 :
  view_ok_c17e nodes ballot c1 ord1 rep1 -> view_ok_c17e nodes ballot c2 ord2 rep2 ->
  oc_leader (elect_c17e c1 (map rep1 ord1)) = Some (cd_self c1) ->
  oc_leader (elect_c17e c2 (map rep2 ord2)) = Some (cd_self c2) ->
  cd_self c1 = cd_self c2.
Proof.
  intros V1 V2 L1 L2. destruct (Nat.eq_dec (cd_self c1) (cd_self c2)) as [|Ne]; [assumption|exfalso].
  apply leader_real_majority_c17e in L1 as [_ M1]. apply leader_real_majority_c17e in L2 as [_ M2].
  rewrite (vo_nc _ _ _ _ _ V1) in M1. rewrite (vo_nc _ _ _ _ _ V2) in M2.
  pose proof (yes_le_supporters_c17e _ _ _ _ _ V1) as S1. pose proof (yes_le_supporters_c17e _ _ _ _ _ V2) as S2.
  assert (D : count (supports_c17e ballot (cd_self c1)) nodes + count (supports_c17e ballot (cd_self c2)) nodes <= length nodes).
  { apply count_disjoint. intros x. unfold supports_c17e. destruct (ballot x); [|discriminate].
    rewrite !Nat.eqb_eq. congruence. }
  lia.
Qed.

Lemma view_el_ok_c17e cfg s T c ord rep :
  NoDup (cfg_nodes cfg) -> view_el_c17e cfg s T c ord rep -> view_ok_c17e (cfg_nodes cfg) (votes s T) c ord rep.
Proof.
  intros ND V. constructor.
  - exact (ve_in _ _ _ _ _ _ V).
  - rewrite <- (map_length fst), (ve_peers _ _ _ _ _ _ V). apply (peers_length cfg (cd_self c) ND (ve_in _ _ _ _ _ _ V)).
  - exact (ve_nodup _ _ _ _ _ _ V).
  - intros m H. apply (ve_ord _ _ _ _ _ _ V) in H. apply peers_In in H. exact H.
  - exact (ve_self _ _ _ _ _ _ V).
  - exact (ve_yes _ _ _ _ _ _ V).
Qed.

Lemma no_two_leaders_election_c17e cfg evs T c1 c2 ord1 ord2 rep1 rep2 :
  NoDup (cfg_nodes cfg) ->
  view_el_c17e cfg (run cfg evs) T c1 ord1 rep1 -> view_el_c17e cfg (run cfg evs) T c2 ord2 rep2 ->
  oc_leader (elect_c17e c1 (map rep1 ord1)) = Some (cd_self c1) ->
  oc_leader (elect_c17e c2 (map rep2 ord2)) = Some (cd_self c2) ->
  cd_self c1 = cd_self c2 /\ oc_term (elect_c17e c1 (map rep1 ord1)) = oc_term (elect_c17e c2 (map rep2 ord2)).
Proof.
  intros ND V1 V2 L1 L2. split.
  - eapply no_two_leaders_c17e; eauto using view_el_ok_c17e.
  - rewrite !term_eq_c17e, (ve_term _ _ _ _ _ _ V1), (ve_term _ _ _ _ _ _ V2). reflexivity.
Qed.

(* the demonstration of the shared-response regression, in the model: 5 nodes, candidate 0 of
   term 1; node 1 says YES, nodes 2, 3, 4 (which voted for somebody else in term 1) say NO *)
Definition demo_cand_c17e : cand_c17e := mkCandC17e 0 0 None [(1, true); (2, true); (3, true); (4, true)].
Lemma demo_split_c17e :
  oc_leader (elect_c17e demo_cand_c17e [RYes 1; RNo 1; RNo 1; RNo 1]) = None /\
  oc_leader (elect_c17e demo_cand_c17e [RNo 1; RNo 1; RNo 1; RYes 1]) = None /\
  oc_leader (elect_c17e demo_cand_c17e [RYes 1; RNo 1; RYes 1]) = Some 0 /\
  tl_taken (oc_tally (elect_c17e demo_cand_c17e [RYes 1; RNo 1; RYes 1; RNo 1])) = 3.
Proof. vm_compute. auto. Qed.
