(* C04, "for the requester only when soft": a delete request that is not hard-effective (asked
   soft, or asked hard by a requester without D and silently made soft) - whatever its outcome
   and under ANY faults - leaves the cached record of every OTHER user as it was (in particular
   their deletion mark p_delid, which is what makes the topic tell a user "something was deleted
   for you"), and sends frames to the requesting session only. *)
From Coq Require Import ZArith NArith List Bool Lia.
From Tinode Require Import Base.Util Pure.Acs Sys.Topic Sys.TopicMarks.
Import ListNotations.

Section SoftPriv.
Variable dr : Z -> list (Z * Z) -> option (list (Z * Z)).

Lemma del_msg_soft_private f s c n sid u req hard0 v :
  hard0 && is_deleter (user_mode c u) = false -> v <> u ->
  let h := del_msg dr f s c n sid u req hard0 in
  alookup v (c_users (h_ca h)) = alookup v (c_users c) /\
  forall fr, In fr (h_out h) -> fst fr = sid.
Proof.
  intros HS NE. unfold del_msg. rewrite HS. cbn [negb andb].
  destruct (negb (is_reader (user_mode c u))).
  { cbn. split; [reflexivity|]. intros fr [<-|[]]. reflexivity. }
  destruct (dr (c_lastid c) req) as [ranges|].
  2:{ cbn. split; [reflexivity|]. intros fr [<-|[]]. reflexivity. }
  unfold call.
  destruct (negb (fails f (S n))); cbn [negb].
  2:{ cbn. split; [reflexivity|]. intros fr [<-|[]]. reflexivity. }
  destruct (negb (fails f (S (S n)))); cbn [negb].
  2:{ cbn. split; [reflexivity|]. intros fr [<-|[]]. reflexivity. }
  destruct (negb (fails f (S (S (S n))))); cbn [negb].
  2:{ cbn. split; [reflexivity|]. intros fr [<-|[]]. reflexivity. }
  cbn [h_ca h_out c_set_users c_users c_set_delid]. split.
  - rewrite alookup_aset. destruct (N.eqb v u) eqn:E; [apply N.eqb_eq in E; contradiction|reflexivity].
  - intros fr [<-|[]]. reflexivity.
Qed.

(* and the hard-effective case really is different: every cached record gets the new mark *)
Lemma del_msg_hard_marks_everyone s c sid u req ranges v p :
  is_deleter (user_mode c u) = true -> dr (c_lastid c) req = Some ranges ->
  alookup v (c_users c) = Some p ->
  let h := del_msg dr NoFault s c 0 sid u req true in
  exists p', alookup v (c_users (h_ca h)) = Some p' /\ p_delid p' = c_delid c + 1.
Proof.
  intros HD HR HV. cbv zeta. unfold del_msg, call. rewrite HD, HR. cbn [andb negb fails].
  cbn [h_ca c_set_users c_users c_set_delid].
  exists (p_set_delid (c_delid c + 1) p). split; [|reflexivity].
  clear HR HD. set (d := (c_delid c + 1)%Z). clearbody d. revert HV.
  generalize (c_users c) as l. intro l. induction l as [|[k q] l IH]; cbn; intro HV; [discriminate|].
  destruct (N.eqb v k); [inversion HV; reflexivity|apply IH, HV].
Qed.
End SoftPriv.
