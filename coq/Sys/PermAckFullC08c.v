(* C08 (strengthening s08c): an acknowledged {sub}/{set sub} took no store error - so the fault plan is irrelevant to it *)
From Coq Require Import ZArith NArith List Bool Lia.
From Tinode Require Import Base.Util Pure.Acs Sys.Topic Sys.TopicTac Sys.TopicFrame Sys.TopicNum Sys.TopicNumThm
  Sys.TopicCohC08 Sys.TopicCohC08Proofs Sys.TopicCohC08Step Sys.TopicCohC08Run Sys.PermBranchC08c Sys.PermBranchC08cProofs.
Import ListNotations.
Open Scope Z_scope.

Lemma call_nofault_c08c n : call NoFault n = (true, S n).
Proof. reflexivity. Qed.

Lemma call_cases_c08c f n : call f n = (true, S n) \/ call f n = (false, S n).
Proof. unfold call. destruct (fails f (S n)); auto. Qed.

Lemma tus_ok_nofault_c08c f s c n sid u want nb ch :
  snd (this_user_sub f s c n sid u want nb) = SubOk ch ->
  this_user_sub f s c n sid u want nb = this_user_sub NoFault s c n sid u want nb.
Proof.
  rewrite !tus_unfold.
  destruct (match want with [] => (ModeUnset, true) | _ => unmarshal_text ModeUnset want end) as [mw okw].
  destruct (negb okw); [reflexivity|].
  destruct (alookup u (c_users c)) as [p0|].
  - unfold tus_existing. destruct (tus_chk c u mw p0) as [[[mw1 g1] oc]|]; [|reflexivity].
    rewrite !call_nofault_c08c.
    destruct (negb ((tus_w1 c u mw1 g1 p0 =? p_want p0)%N && (g1 =? p_given p0)%N)).
    + destruct (call_cases_c08c f n) as [E|E]; rewrite E; cbn [negb]; [|discriminate].
      destruct oc; [|reflexivity].
      destruct (call_cases_c08c f (S n)) as [E2|E2]; rewrite E2; cbn [negb]; [|discriminate].
      destruct (call_cases_c08c f (S (S n))) as [E3|E3]; rewrite E3; cbn [negb]; [|discriminate]. reflexivity.
    + cbn [negb]. destruct oc; [|reflexivity].
      destruct (call_cases_c08c f n) as [E2|E2]; rewrite E2; cbn [negb]; [|discriminate].
      destruct (call_cases_c08c f (S n)) as [E3|E3]; rewrite E3; cbn [negb]; [|discriminate]. reflexivity.
  - unfold tus_new. destruct (max_subs <=? Z.of_nat (length (c_users c))); [reflexivity|].
    rewrite !call_nofault_c08c.
    destruct (call_cases_c08c f n) as [E|E]; rewrite E; cbn [negb]; [|discriminate].
    match goal with |- context [if negb (is_joiner ?g) then _ else _] => destruct (negb (is_joiner g)); [reflexivity|] end.
    destruct (match ad_sub_get s u true with Some r => s_deleted r | None => true end).
    + destruct (call_cases_c08c f (S n)) as [E2|E2]; rewrite E2; cbn [negb]; [|discriminate]. reflexivity.
    + reflexivity.
Qed.

Lemma aus_ok_nofault_c08c f s c n sid u target mode ch :
  snd (another_user_sub f s c n sid u target mode) = SubOk ch ->
  another_user_sub f s c n sid u target mode = another_user_sub NoFault s c n sid u target mode.
Proof.
  unfold another_user_sub.
  destruct (alookup u (c_users c)); [|reflexivity].
  destruct (negb (is_sharer _)); [reflexivity|].
  destruct (match mode with [] => (ModeUnset, true) | _ => unmarshal_text ModeUnset mode end) as [mg okg].
  destruct (negb okg); [reflexivity|].
  destruct (negb (mg =? ModeUnset)%N && negb (is_admin _)); [reflexivity|].
  destruct (is_owner mg && negb (N.eqb (c_owner c) u)); [reflexivity|].
  rewrite !call_nofault_c08c.
  destruct (alookup target (c_users c)) as [pt|].
  - destruct ((mg =? ModeUnset)%N || (mg =? p_given pt)%N); [reflexivity|].
    destruct (N.eqb (c_owner c) target && _); [reflexivity|].
    destruct (call_cases_c08c f n) as [E|E]; rewrite E; cbn [negb]; [reflexivity|discriminate].
  - destruct (max_subs <=? Z.of_nat (length (c_users c))); [reflexivity|].
    destruct (call_cases_c08c f n) as [E|E]; rewrite E; cbn [negb]; [|discriminate].
    destruct (ad_sub_get s target true) as [r|].
    + destruct (negb (is_joiner (s_want r))); [reflexivity|].
      destruct (call_cases_c08c f (S n)) as [E3|E3]; rewrite E3; cbn [negb]; [reflexivity|discriminate].
    + rewrite ?call_nofault_c08c.
      destruct (call_cases_c08c f (S n)) as [E2|E2]; rewrite E2; cbn [negb]; [|discriminate].
      destruct (alookup target (users s)) as [acc|]; [|reflexivity].
      destruct (negb (is_joiner _)); [reflexivity|].
      destruct (call_cases_c08c f (S (S n))) as [E3|E3]; rewrite E3; cbn [negb]; [reflexivity|discriminate].
Qed.

Lemma sub_reply_ack_nofault_c08c f s c n sid u want bkg sid' named w g :
  In (sid', CtrlAcs 200 named w g) (h_out (sub_reply f s c n sid u want bkg)) ->
  sub_reply f s c n sid u want bkg = sub_reply NoFault s c n sid u want bkg.
Proof.
  unfold sub_reply.
  pose proof (tus_ok_nofault_c08c f s c n sid u want (match alookup u (c_users c) with Some _ => false | None => true end)) as NF.
  destruct (tus_ack_c08c f s c n sid u want (match alookup u (c_users c) with Some _ => false | None => true end)) as [OE _].
  destruct (this_user_sub f s c n sid u want _) as [h r] eqn:E. cbn [fst snd] in *.
  destruct r as [code|ch]; cbn [h_out]; intros I.
  - exfalso. apply in_app_or in I. destruct I as [I|I]; [destruct (OE _ I) as [b E0]; discriminate E0|].
    destruct (code =? 0); [destruct I|]. destruct I as [I|[]]. discriminate I.
  - rewrite <- (NF ch eq_refl). reflexivity.
Qed.

Lemma set_sub_ack_nofault_c08c f s c n sid u target mode sid' named w g :
  In (sid', CtrlAcs 200 named w g) (h_out (set_sub f s c n sid u target mode)) ->
  set_sub f s c n sid u target mode = set_sub NoFault s c n sid u target mode.
Proof.
  unfold set_sub. destruct ((target =? 0)%N || (target =? u)%N).
  - pose proof (tus_ok_nofault_c08c f s c n sid u mode false) as NF.
    destruct (tus_ack_c08c f s c n sid u mode false) as [OE _].
    destruct (this_user_sub f s c n sid u mode false) as [h r] eqn:E. cbn [fst snd] in *.
    destruct r as [code|ch]; cbn [h_out]; intros I.
    + exfalso. apply in_app_or in I. destruct I as [I|I]; [destruct (OE _ I) as [b E0]; discriminate E0|].
      destruct (code =? 0); [destruct I|]. destruct I as [I|[]]. discriminate I.
    + rewrite <- (NF ch eq_refl). reflexivity.
  - pose proof (aus_ok_nofault_c08c f s c n sid u target mode) as NF.
    destruct (aus_ack_c08c f s c n sid u target mode) as [OE _].
    destruct (another_user_sub f s c n sid u target mode) as [h r] eqn:E. cbn [fst snd] in *.
    destruct r as [code|ch]; cbn [h_out]; intros I.
    + exfalso. apply in_app_or in I. destruct I as [I|I]; [destruct (OE _ I) as [b E0]; discriminate E0|].
      destruct (code =? 0); [destruct I|]. destruct I as [I|[]]. discriminate I.
    + rewrite <- (NF ch eq_refl). reflexivity.
Qed.

Lemma offline_set_sub_ack_nofault_c08c f s sid u target mode sid' named w g :
  In (sid', CtrlAcs 200 named w g) (o_out (offline_set_sub f s sid u target mode)) ->
  offline_set_sub f s sid u target mode = offline_set_sub NoFault s sid u target mode.
Proof.
  unfold offline_set_sub. destruct mode as [|m0 ml]; [reflexivity|].
  destruct (negb (target =? 0)%N && negb (target =? u)%N); [reflexivity|].
  rewrite !call_nofault_c08c.
  destruct (call_cases_c08c f 0) as [E|E]; rewrite E; cbn [negb]; [|intros [I|[]]; discriminate I].
  destruct (ad_sub_get s u false) as [r0|]; [|reflexivity].
  destruct (unmarshal_text 0%N (m0 :: ml)) as [mw okw]. destruct (negb okw); [reflexivity|].
  destruct (negb (Bool.eqb (is_owner mw) (is_owner (s_want r0)))); [reflexivity|].
  destruct (mw =? s_want r0)%N; [reflexivity|].
  destruct (call_cases_c08c f 1) as [E2|E2]; rewrite E2; cbn [negb]; [reflexivity|intros [I|[]]; discriminate I].
Qed.

Section StepAckFull.
Variable dr : Z -> list (Z * Z) -> option (list (Z * Z)).
Variable nr : list (Z * Z) -> list (Z * Z).
Variable sm : sessmap.

(* a {sub}/{set sub} that is acknowledged with an access mode ran exactly as it runs without store faults *)
Lemma step_ack_nofault_c08c f x o sid named w g :
  is_perm_req_c08c o = true ->
  In (sid, CtrlAcs 200 named w g) (snd (step dr nr sm f x o)) ->
  step dr nr sm f x o = step dr nr sm NoFault x o.
Proof.
  intros PR.
  destruct o as [sd want bkg|sd unsub|sd content noecho|sd what seq|sd a b l|sd|sd|sd a b l|sd req hard|sd target mode|sd target| |];
    try discriminate PR; clear PR.
  - (* OSub *)
    unfold step. destruct (ca x) as [c|].
    + destruct (attached c sd); [reflexivity|]. cbn [snd]. intros I.
      rewrite (sub_reply_ack_nofault_c08c _ _ _ _ _ _ _ _ _ _ _ _ I). reflexivity.
    + unfold try_load. rewrite !call_nofault_c08c.
      destruct (call_cases_c08c f 0) as [E|E]; rewrite E; cbn [negb]; [|intros [I|[]]; discriminate I].
      destruct (negb (t_exists (st x))); [reflexivity|].
      destruct (call_cases_c08c f 1) as [E2|E2]; rewrite E2; cbn [negb]; [|intros [I|[]]; discriminate I].
      cbn [snd]. intros I. rewrite (sub_reply_ack_nofault_c08c _ _ _ _ _ _ _ _ _ _ _ _ I). reflexivity.
  - (* OSetSub *)
    unfold step. destruct (ca x) as [c|]; cbn -[set_sub offline_set_sub].
    + destruct (attached c sd); cbn -[set_sub offline_set_sub]; intros I.
      * rewrite (set_sub_ack_nofault_c08c _ _ _ _ _ _ _ _ _ _ _ _ I). reflexivity.
      * rewrite (offline_set_sub_ack_nofault_c08c _ _ _ _ _ _ _ _ _ _ I). reflexivity.
    + intros I. rewrite (offline_set_sub_ack_nofault_c08c _ _ _ _ _ _ _ _ _ _ I). reflexivity.
Qed.

(* FULL STRENGTH: every fault plan *)
Theorem step_acs_ack_stored_full_c08c f x o sid named w g :
  inv x -> known sm o -> is_perm_req_c08c o = true ->
  In (sid, CtrlAcs 200 named w g) (snd (step dr nr sm f x o)) ->
  sid = op_sid o /\
  stored_acs_c08c (st (fst (step dr nr sm f x o))) (acs_subject_c08c sm o named) w g.
Proof.
  intros IV KN PR I. pose proof (step_ack_nofault_c08c f x o sid named w g PR I) as E. rewrite E in I |- *.
  apply (step_acs_ack_stored_c08c dr nr sm NoFault x o sid named w g IV KN); [|exact PR|exact I].
  destruct o; try discriminate PR; left; reflexivity.
Qed.
End StepAckFull.
