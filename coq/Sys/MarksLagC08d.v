(* C08 (part d): what the known finding note-read-recv-cached-only excuses, and what it does not.

   handleNoteBroadcast raises the CACHED received mark to n when a {note read n} overtakes it but
   writes only ReadSeqId to the store, so after such a note the cache is no longer load(store): the
   cached recv is max(stored recv, read).  [cache_lag c d] is exactly that weaker agreement: the two
   caches agree on every stored field except recv, and agree on max(recv, read).

   - getdesc_lag_c08d: replyGetDesc reports read and max(recv, read): two caches related by
     cache_lag answer {get desc} alike.  So the finding excuses the cached recv ITSELF (and the
     stored recv a later {note recv} writes), never what {get desc} reports.
   - note_lag_c08d: every {note} (read, recv, kp; any fault plan; the trigger of the finding
     included) keeps cache_lag between the cache and load(store).
   Together: along histories of notes and {get desc}, a reload changes no reported mark. *)
From Coq Require Import ZArith NArith List Bool Lia.
From Tinode Require Import Base.Util Pure.Acs Sys.Topic Sys.TopicCohC08 Sys.TopicCohC08Proofs.
Import ListNotations.
Open Scope Z_scope.

Definition lag_pud_c08d (p q : pud) : Prop :=
  p_want p = p_want q /\ p_given p = p_given q /\ p_read p = p_read q /\ p_delid p = p_delid q /\
  Z.max (p_recv p) (p_read p) = Z.max (p_recv q) (p_read q).

Definition lag_opt_c08d (a b : option pud) : Prop :=
  match a, b with
  | Some p, Some q => lag_pud_c08d p q
  | None, None => True
  | _, _ => False
  end.

Definition cache_lag_c08d (c d : cache) : Prop :=
  c_lastid c = c_lastid d /\ c_delid c = c_delid d /\
  forall u, lag_opt_c08d (alookup u (c_users c)) (alookup u (c_users d)).

(* agreement on the stored fields (coherence) is the special case *)
Lemma agree_lag_c08d c d : cache_agree c d -> cache_lag_c08d c d.
Proof.
  intros [E1 [E2 [_ [_ [_ P]]]]]. split; [exact E1|]. split; [exact E2|]. intros u. specialize (P u).
  unfold lag_opt_c08d. destruct (alookup u (c_users c)) as [p|], (alookup u (c_users d)) as [q|]; cbn in P; try discriminate; [|exact I].
  unfold core in P. injection P as Hw Hg Hr Hc Hd. unfold lag_pud_c08d. rewrite Hw, Hg, Hr, Hc, Hd. repeat split; reflexivity.
Qed.

(* replyGetDesc *)
Lemma getdesc_lag_c08d s s' c d n n' sid u :
  cache_lag_c08d c d -> h_out (get_desc s c n sid u) = h_out (get_desc s' d n' sid u).
Proof.
  intros [E1 [E2 P]]. specialize (P u). unfold get_desc, lag_opt_c08d in *.
  destruct (alookup u (c_users c)) as [p|], (alookup u (c_users d)) as [q|]; try contradiction; [|reflexivity].
  destruct P as [Hw [Hg [Hr [Hd Hm]]]]. unfold pud_mode. rewrite Hm, Hw, Hg, Hr, Hd, E1, E2.
  destruct (is_reader _); reflexivity.
Qed.

(* handleNoteBroadcast keeps the relation between the cache and what the load path builds *)
Lemma note_lag_c08d f s c n sid u what seq :
  NoDup (map s_user (subs s)) -> u <> 0%N ->
  cache_lag_c08d c (load s) ->
  cache_lag_c08d (h_ca (note f s c n sid u what seq)) (load (h_st (note f s c n sid u what seq))).
Proof.
  intros ND NZ L. unfold note.
  destruct (c_lastid c <? seq); [exact L|].
  destruct (N.eqb what K_kp).
  { destruct (negb (is_writer _)); exact L. }
  destruct (N.eqb what K_read || N.eqb what K_recv) eqn:RW; [|exact L].
  destruct (negb (is_reader (pud_mode (get_pud c u)))) eqn:RD; [exact L|].
  set (p := get_pud c u) in *.
  destruct (N.eqb what K_read) eqn:IR; cbn [andb negb].
  - (* read *)
    destruct (seq <=? p_read p) eqn:LE; [exact L|].
    destruct (call f n) as [ok1 n1]. destruct ok1; cbn [negb]; [|exact L].
    cbn [h_ca h_st]. destruct L as [E1 [E2 P]].
    pose proof (scal_subs_update s u (mkUpd None None (Some seq) None None)) as [S1 [S2 _]].
    split; [cbn; rewrite S1; exact E1|]. split; [cbn; rewrite S2; exact E2|].
    intros v. cbn [c_users c_set_users load].
    rewrite alookup_aset.
    rewrite load_users_lookup by (rewrite users_subs_update; exact ND).
    rewrite row_subs_update. apply N.eqb_neq in NZ. rewrite NZ. cbn [orb].
    specialize (P v). cbn [load c_users] in P. rewrite load_users_lookup in P by exact ND.
    destruct (N.eqb_spec v u) as [E|NE]; [|exact P].
    subst v. unfold p, get_pud in *. unfold lag_opt_c08d in *.
    destruct (alookup u (c_users c)) as [p0|] eqn:LK.
    + destruct (find_sub u (subs s)) as [r|]; [|contradiction]. cbn [option_map apply_upd u_want u_given u_read u_recv u_delid s_deleted].
      destruct (s_deleted r) eqn:DL; [contradiction|].
      destruct P as [Hw [Hg [Hr [Hd Hm]]]]. unfold lag_pud_c08d, p_set_marks, row_pud in *. cbn in *.
      repeat split; try assumption.
      apply Z.leb_gt in LE.
      destruct (p_recv p0 <? seq) eqn:LT; [apply Z.ltb_lt in LT|apply Z.ltb_ge in LT]; lia.
    + (* not cached: blank record has no R *)
      exfalso. assert (negb (is_reader (pud_mode blank_pud)) = true) as B by (vm_compute; reflexivity). congruence.
  - (* recv (or neither: excluded above) *)
    clear RW.
    cbn [negb andb]. destruct (seq <=? p_recv p) eqn:LE; [exact L|].
    destruct (call f n) as [ok1 n1]. destruct ok1; cbn [negb]; [|exact L].
    cbn [h_ca h_st]. destruct L as [E1 [E2 P]].
    set (rc := if seq <? p_read p then p_read p else seq).
    pose proof (scal_subs_update s u (mkUpd None None None (Some rc) None)) as [S1 [S2 _]].
    split; [cbn; rewrite S1; exact E1|]. split; [cbn; rewrite S2; exact E2|].
    intros v. cbn [c_users c_set_users load].
    rewrite alookup_aset.
    rewrite load_users_lookup by (rewrite users_subs_update; exact ND).
    rewrite row_subs_update. apply N.eqb_neq in NZ. rewrite NZ. cbn [orb].
    specialize (P v). cbn [load c_users] in P. rewrite load_users_lookup in P by exact ND.
    destruct (N.eqb_spec v u) as [E|NE]; [|exact P].
    subst v. unfold p, get_pud in *. unfold lag_opt_c08d in *.
    destruct (alookup u (c_users c)) as [p0|] eqn:LK.
    + destruct (find_sub u (subs s)) as [r|]; [|contradiction]. cbn [option_map apply_upd u_want u_given u_read u_recv u_delid s_deleted].
      destruct (s_deleted r) eqn:DL; [contradiction|].
      destruct P as [Hw [Hg [Hr [Hd Hm]]]]. unfold lag_pud_c08d, p_set_marks, row_pud in *. cbn in *.
      repeat split; try assumption. rewrite Hr. reflexivity.
    + exfalso. assert (negb (is_reader (pud_mode blank_pud)) = true) as B by (vm_compute; reflexivity). congruence.
Qed.

(* boolean form, for witnesses *)
Definition lag_optb_c08d (a b : option pud) : bool :=
  match a, b with
  | Some p, Some q => N.eqb (p_want p) (p_want q) && N.eqb (p_given p) (p_given q) && (p_read p =? p_read q) && (p_delid p =? p_delid q)
                      && (Z.max (p_recv p) (p_read p) =? Z.max (p_recv q) (p_read q))
  | None, None => true
  | _, _ => false
  end.
Lemma lag_optb_ok_c08d a b : lag_optb_c08d a b = true -> lag_opt_c08d a b.
Proof.
  unfold lag_optb_c08d, lag_opt_c08d. destruct a as [p|], b as [q|]; try discriminate; [|trivial].
  intros H. repeat (apply andb_prop in H; destruct H as [H ?]).
  unfold lag_pud_c08d. repeat split; try (apply N.eqb_eq; assumption); apply Z.eqb_eq; assumption.
Qed.

(* ------------------------------------------------------------------ *)
(* at the level of requests *)
Definition lag_state_c08d (x : state) : Prop :=
  match ca x with Some c => cache_lag_c08d c (load (st x)) | None => True end.

Section StepLag.
Variable dr : Z -> list (Z * Z) -> option (list (Z * Z)).
Variable nr : list (Z * Z) -> list (Z * Z).
Variable sm : sessmap.

(* {get desc} from any session, attached or not: the same frames from two caches related by cache_lag *)
Lemma step_getdesc_lag_c08d f s c d n sid :
  cache_lag_c08d c d -> c_sess c = c_sess d ->
  snd (step dr nr sm f (mkState s (Some c) n) (OGetDesc sid)) = snd (step dr nr sm f (mkState s (Some d) n) (OGetDesc sid)).
Proof.
  intros L ES.
  assert (attached c sid = attached d sid) as EA by (unfold attached; rewrite ES; reflexivity).
  unfold step; cbn [st ca]; rewrite <- EA.
  destruct (attached c sid); cbn -[get_desc offline_get_desc]; [|reflexivity].
  apply getdesc_lag_c08d. exact L.
Qed.

(* hence: in a state that lags only by the cached recv, a reload changes no {get desc} answer *)
Lemma reload_getdesc_lag_c08d f x sid :
  lag_state_c08d x ->
  snd (step dr nr sm f x (OGetDesc sid)) = snd (step dr nr sm f (reload x) (OGetDesc sid)).
Proof.
  intros L. unfold reload, lag_state_c08d in *. destruct x as [s [c|] n]; cbn [ca st ncalls] in *; [|reflexivity].
  apply step_getdesc_lag_c08d; [|reflexivity].
  destruct L as [E1 [E2 P]]. split; [exact E1|]. split; [exact E2|]. exact P.
Qed.

(* every {note} request keeps the state within the lag *)
Lemma step_note_lag_c08d f x sid what seq :
  NoDup (map s_user (subs (st x))) -> sess_uid sm sid <> 0%N ->
  lag_state_c08d x -> lag_state_c08d (fst (step dr nr sm f x (ONote sid what seq))).
Proof.
  intros ND NZ L. unfold step. cbn zeta.
  destruct x as [s [c|] n]; cbn [ca st] in *.
  - unfold lag_state_c08d in L. cbn [ca st] in L.
    destruct (attached c sid); cbn [negb].
    + destruct (N.eqb what K_kp).
      { destruct (seq =? 0); cbn [fst]; unfold lag_state_c08d; cbn [ca st]; [|exact L]. apply note_lag_c08d; assumption. }
      destruct (N.eqb what K_read || N.eqb what K_recv); [|cbn [fst]; exact L].
      destruct (seq <=? 0); cbn [fst]; unfold lag_state_c08d; cbn [ca st]; [exact L|]. apply note_lag_c08d; assumption.
    + destruct (N.eqb what K_kp).
      { destruct (seq =? 0); cbn [fst]; exact L. }
      destruct (N.eqb what K_read || N.eqb what K_recv); [|cbn [fst]; exact L].
      destruct (seq <=? 0); [cbn [fst]; exact L|].
      destruct (N.eqb what K_recv); cbn [fst]; unfold lag_state_c08d; cbn [ca st]; [|exact L].
      apply note_lag_c08d; assumption.
  - cbn [negb].
    destruct (N.eqb what K_kp).
    { destruct (seq =? 0); cbn [fst]; exact I. }
    destruct (N.eqb what K_read || N.eqb what K_recv); [|cbn [fst]; exact I].
    destruct (seq <=? 0); [cbn [fst]; exact I|].
    destruct (N.eqb what K_recv); cbn [fst]; exact I.
Qed.

(* the store keeps one row per user through a {note} *)
Lemma step_note_nodup_c08d f x sid what seq :
  NoDup (map s_user (subs (st x))) -> NoDup (map s_user (subs (st (fst (step dr nr sm f x (ONote sid what seq)))))).
Proof.
  intros ND. unfold step. cbn zeta.
  assert (forall c n, NoDup (map s_user (subs (h_st (note f (st x) c n sid (sess_uid sm sid) what seq))))) as HN.
  { intros c n. unfold note. repeat match goal with |- context [if ?b then _ else _] => destruct b end;
      try (destruct (call f n) as [ok1 n1]; destruct ok1); cbn [h_st negb]; try exact ND; rewrite users_subs_update; exact ND. }
  destruct x as [s [c|] n]; cbn [ca st] in *;
    repeat match goal with |- context [if ?b then _ else _] => destruct b end; cbn [fst st h_st]; try exact ND; apply HN.
Qed.
End StepLag.

(* ------------------------------------------------------------------ *)
(* histories of {note} and {get desc} requests (any sessions, any marks, any fault plans) *)
Definition marks_op_c08d (sm : sessmap) (fo : fault * op) : Prop :=
  match snd fo with
  | ONote sid _ _ => sess_uid sm sid <> 0%N
  | OGetDesc _ => True
  | _ => False
  end.

Section RunLag.
Variable dr : Z -> list (Z * Z) -> option (list (Z * Z)).
Variable nr : list (Z * Z) -> list (Z * Z).
Variable sm : sessmap.

Lemma step_getdesc_same_c08d f x sid :
  st (fst (step dr nr sm f x (OGetDesc sid))) = st x /\ ca (fst (step dr nr sm f x (OGetDesc sid))) = ca x.
Proof.
  unfold step. cbn zeta. destruct x as [s [c|] n]; cbn [ca st].
  - destruct (attached c sid); cbn [negb fst st ca].
    + unfold get_desc. repeat match goal with |- context [match ?b with _ => _ end] => destruct b end; cbn; split; reflexivity.
    + unfold offline_get_desc. repeat match goal with |- context [match ?b with _ => _ end] => destruct b end; cbn; split; reflexivity.
  - cbn [negb fst st ca]. unfold offline_get_desc.
    repeat match goal with |- context [match ?b with _ => _ end] => destruct b end; cbn; split; reflexivity.
Qed.

Lemma run_marks_lag_c08d h : forall x,
  Forall (marks_op_c08d sm) h -> NoDup (map s_user (subs (st x))) -> lag_state_c08d x ->
  lag_state_c08d (fst (run dr nr sm x h)) /\ NoDup (map s_user (subs (st (fst (run dr nr sm x h))))).
Proof.
  induction h as [|[f o] h IH]; intros x F ND L; cbn [run]; [split; assumption|].
  inversion F as [|? ? Ho Fh]; subst.
  unfold step_f. cbn [fst snd].
  destruct (step dr nr sm f x o) as [x1 o1] eqn:ES.
  assert (lag_state_c08d x1 /\ NoDup (map s_user (subs (st x1)))) as [L1 ND1].
  { unfold marks_op_c08d in Ho. cbn [snd] in Ho. destruct o; try contradiction.
    - pose proof (step_note_lag_c08d dr nr sm f x sid what seq ND Ho L) as A.
      pose proof (step_note_nodup_c08d dr nr sm f x sid what seq ND) as B. rewrite ES in A, B. split; assumption.
    - pose proof (step_getdesc_same_c08d f x sid) as [A B]. rewrite ES in A, B. cbn [fst] in A, B.
      unfold lag_state_c08d in *. rewrite A, B. split; assumption. }
  assert (lag_state_c08d (match f with CrashAt _ => mkState (st x1) None (ncalls x1) | _ => x1 end) /\
          NoDup (map s_user (subs (st (match f with CrashAt _ => mkState (st x1) None (ncalls x1) | _ => x1 end))))) as [L2 ND2].
  { destruct f; try (split; assumption). split; [exact I|exact ND1]. }
  destruct f; cbn [fst]; 
    match goal with |- context [run dr nr sm ?y h] => specialize (IH y Fh); destruct (run dr nr sm y h) as [x2 os] eqn:ER end;
    cbn [fst] in *; apply IH; assumption.
Qed.

(* MARKS REPORTED BY {get desc} ARE RELOAD-INVARIANT: from a coherent state, after ANY history of {note}
   (read / recv / kp, any sequence numbers - the read-above-recv trigger of the known finding included - any
   fault plan) and {get desc} requests, {get desc} of any session is answered the same whether the topic
   stayed in memory or was rebuilt by the load path *)
Theorem run_marks_reload_invisible_c08d h x f sid :
  Forall (marks_op_c08d sm) h -> NoDup (map s_user (subs (st x))) -> coherent x ->
  snd (step dr nr sm f (fst (run dr nr sm x h)) (OGetDesc sid)) =
  snd (step dr nr sm f (reload (fst (run dr nr sm x h))) (OGetDesc sid)).
Proof.
  intros F ND CO. apply reload_getdesc_lag_c08d.
  apply run_marks_lag_c08d; [exact F|exact ND|].
  unfold coherent, lag_state_c08d in *. destruct (ca x); [|exact I]. apply agree_lag_c08d. exact CO.
Qed.
End RunLag.
