(* C02, part c: the fan-out of one topic with BACKGROUND sessions and STORE FAULTS.

   Sys/Fanout.v models the fan-out itself (publish, bcast_loop, prepare, push_rcpt: total functions,
   stated for every state) and, as the environment, the requests that change what the fan-out reads -
   without background sessions and with a store that never fails.  This file re-translates the
   environment with both, statement by statement, from
     server/topic.go   subscriptionReply 1341-1443 (addSession; online++ only `if !msg.sess.background`),
                       thisUserSub 1466-1836 (store.Subs.Get / Create / Update BEFORE `t.perUser[asUid] =
                       userData`; every store error returns before the cache is written),
                       anotherUserSub 1986-2041 (store.Subs.Update before `t.perUser[target] = userData`),
                       handleLeaveRequest 688-827 (online-- only `if !sess.background`),
                       sessToForeground 831-852 (online++ for a session that is attached and not a channel
                       subscription), replyLeaveUnsub 3228-3308 and replyDelSub 3137-3225 (store.Subs.Delete
                       before evictUser), evictUser 3311-3365 (EVERY session of the user is detached, whatever
                       the online counter says), broadcastToSessions 1326-1337 (dropped sessions)
     server/session.go cleanUp 412-428 (`s.background = false` BEFORE unsubAll), onBackgroundTimer 1373-1384
     server/hdl_websock.go 119-122 (the bkgTimer case: background = false; onBackgroundTimer())
   and reuses the fan-out functions of Sys/Fanout.v unchanged: broadcastToSessions never looks at
   Session.background, so a background session is an eligible recipient exactly like a foreground one.

   Session.background is a field of the CONNECTION ([x_bkg]: the connections on which it is set).  In
   this code base no statement sets it for an ordinary connection ({hi bkg:true} only arms the timer,
   session.go:790-792; the only writer is the cluster proxy path); the harness sets the field when the
   connection object is created.  It is cleared by the timer ([XFg]) and by cleanUp ([XDisc]).

   The store: [x_rows] are the live subscription rows under the topic's own name (grpXXX / p2pXXX):
   the AUTHORITATIVE grants; the rows under chnXXX are [st_chanrows] of Fanout.v, the soft-deleted
   ones [st_gone].  Every request carries a fault plan [f]: 0 = no fault, k = the k-th adapter call
   made while the request is handled fails without effect (memverif.SetFault(k, false)).  Each request
   returns the list of adapter calls it made (name, failed).

   Scope (requests outside give [None], [xrun] skips them): the scope of Fanout.v, and: a background
   connection never attaches as a channel subscription, a cached channel reader does not attach under
   the grpXXX name (that is the recorded finding 1 of findings/C02.md, exercised by the base flow),
   publishes carry no fault (C01).

   Definitions only.  Proofs are in Sys/FanoutBkgC02Proofs.v. *)
From Coq Require Import ZArith NArith List Bool.
From Tinode Require Import Sys.Fanout.
Import ListNotations.
Open Scope N_scope.

(* adapter calls: SubscriptionGet, TopicShare, SubsUpdate, SubsDelete *)
Inductive acall := CGet | CShare | CUpd | CDel.
Definition calls := list (acall * bool).          (* (call, failed) in call order *)

Record xstate := mkX {
  x_st : state;                          (* the topic as Sys/Fanout.v has it (perUser, sessions, lastID, ...) *)
  x_bkg : list sid;                      (* connections whose Session.background is set *)
  x_rows : list (uid * (mode * mode)) }. (* live stored rows under the topic's own name: user -> (modeWant, modeGiven) *)

Definition set_xst (v : state) (x : xstate) : xstate := mkX v (x_bkg x) (x_rows x).
Definition set_xbkg (v : list sid) (x : xstate) : xstate := mkX (x_st x) v (x_rows x).
Definition set_xrows (v : list (uid * (mode * mode))) (x : xstate) : xstate := mkX (x_st x) (x_bkg x) v.

Definition is_bkg (x : xstate) (s : sid) : bool := mem s (x_bkg x).

(* the k-th adapter call of this request (n calls were made before it) fails *)
Definition fails (f n : nat) : bool := Nat.eqb f (S n).

(* adapter SubsUpdate(topic, user, {ModeWant, ModeGiven}) on the live row; TopicShare creates the row *)
Definition row_set (u : uid) (wg : mode * mode) (l : list (uid * (mode * mode))) : list (uid * (mode * mode)) :=
  if has_key u l then update u (fun _ => wg) l else l ++ [(u, wg)].
Definition row_upd (u : uid) (wg : mode * mode) (l : list (uid * (mode * mode))) : list (uid * (mode * mode)) :=
  update u (fun _ => wg) l.

(* ------------------------------------------------------------------ *)
(* subscriptionReply 1392-1408: addSession; `if !msg.sess.background { userData.online++ }` *)
Definition xadd_session (st : state) (bkg : bool) (s : sid) (u : uid) (chan : bool) : state :=
  let st1 := if has_key s (st_sess st) then st else set_sess (st_sess st ++ [(s, mkPsd u chan)]) st in
  if bkg then st1 else set_users (upsert u (fun p => set_pud_online (pu_online p + 1)%Z p) (st_users st1)) st1.

(* thisUserSub on an existing subscription, 1655-1719: the requested (want, given), a refusal, or outside the scope *)
Inductive own_change := OwnRefused | OwnOos | OwnModes (want given : mode).
Definition own_modes (st : state) (u : uid) (p : pud) (mw : option mode) : own_change :=
  match mw with
  | Some m =>
    if (st_owner st =? u) && (negb (has m bO) || negb (has m bJ)) then OwnRefused             (* 403 *)
    else if has (pu_given p) bO && has m bO && negb (has (pu_want p) bO) then OwnOos           (* ownership transfer *)
    else if negb (has (pu_given p) bO) && has m bO then OwnRefused                             (* 403 *)
    else
      let given :=
        if has (pu_given p) bO then
          (if has m bO && negb (better_equal (pu_given p) m) then N.lor (pu_given p) m else pu_given p)
        else match st_kind st with
             | KP2P => pu_given p
             | _ => if has (pu_given p) bA && has m bA && negb (better_equal (pu_given p) (N.ldiff m bD))
                    then N.lor (pu_given p) (N.ldiff m bD) else pu_given p
             end in
      let want := match st_kind st with KP2P => N.lor (N.land m mode_cp2p) bA | _ => m end in
      OwnModes want given
  | None =>
    (* no mode requested: un-self-ban if the user had banned himself *)
    let want := if has (pu_want p) bJ then pu_want p
                else let w := N.lor (pu_given p) (st_defacs st) in
                     if st_owner st =? u then w else N.ldiff w bO in
    OwnModes want (pu_given p)
  end.

(* 1727-1753 and 1792: `store.Subs.Update(t.name, asUid, update)` when something changed - on error the
   handler returns before `t.perUser[asUid] = userData`.  None = the store call failed. *)
Definition own_apply (x : xstate) (f : nat) (u : uid) (p : pud) (want given : mode) : option xstate * calls :=
  if (want =? pu_want p) && (given =? pu_given p) then (Some x, [])
  else if fails f 0 then (None, [(CUpd, true)])
  else (Some (set_xrows (row_upd u (want, given) (x_rows x))
                (set_xst (set_users (update u (set_pud_modes want given) (st_users (x_st x))) (x_st x)) x)),
        [(CUpd, false)]).

(* {sub} of a cached, not deleted subscriber (thisUserSub 1646-1836, subscriptionReply 1385-1408) *)
Definition xattach_existing (x : xstate) (f : nat) (s : sid) (u : uid) (chan : bool) (mw : option mode) (p : pud) : option xstate * calls :=
  let bkg := is_bkg x s in
  match own_modes (x_st x) u p mw with
  | OwnOos => (None, [])
  | OwnRefused => (Some x, [])
  | OwnModes want given =>
    match own_apply x f u p want given with
    | (None, cl) => (Some x, cl)                                          (* 500: nothing written *)
    | (Some x1, cl) =>
      let st1 := x_st x1 in
      if negb (has want bJ) then
        (* evictUser; subscriptionReply attaches the session all the same when nothing changed
           (modeChanged == nil leaves hasJoined = true) *)
        (if (want =? pu_want p) && (given =? pu_given p)
         then (Some (set_xst (xadd_session (evict_user st1 u false) bkg s u chan) x1), cl)
         else (Some (set_xst (evict_user st1 u false) x1), cl))
      else if negb (has given bJ) then (Some x1, cl)                      (* 403 banned *)
      else (Some (set_xst (xadd_session st1 bkg s u chan) x1), cl)
    end
  end.

(* first connection of a channel reader: store.Subs.Get(chnXXX); given = JRP (thisUserSub 1522-1553, 1606-1631) *)
Definition xattach_new_chan (x : xstate) (f : nat) (s : sid) (u : uid) (mw : option mode) : option xstate * calls :=
  let st := x_st x in
  if fails f 0 then (Some x, [(CGet, true)])
  else
    let oldwant := match lookup u (st_chanrows st) with Some w => w | None => mode_chnreader end in
    let want := match mw with Some m => N.lor (N.lor (N.land m mode_chnreader) bR) bJ | None => oldwant end in
    let cl1 := [(CGet, false)] in
    let wr := if has_key u (st_chanrows st) then (if want =? oldwant then [] else [CUpd]) else [CShare] in
    (* `t.perUser[asUid] = userData`; a want without J: evictUser, hasJoined = false *)
    let join st1 := if has want bJ then xadd_session st1 false s u true else evict_user st1 u false in
    match wr with
    | c :: _ => if fails f 1 then (Some x, cl1 ++ [(c, true)]) else
        let rows := if has_key u (st_chanrows st) then update u (fun _ => want) (st_chanrows st) else st_chanrows st ++ [(u, want)] in
        let st1 := set_chanrows rows (set_users (st_users st ++ [(u, mkPud want mode_chnreader false true 0 0%Z)]) st) in
        (Some (set_xst (join st1) x), cl1 ++ [(c, false)])
    | [] =>
        let st1 := set_users (st_users st ++ [(u, mkPud want mode_chnreader false true 0 0%Z)]) st in
        (Some (set_xst (join st1) x), cl1)
    end.

(* new subscriber: store.Subs.Get(t.name, keepDeleted); default access; store.Subs.Create (thisUserSub 1557-1620) *)
Definition xattach_new_sub (x : xstate) (f : nat) (s : sid) (u : uid) (mw : option mode) : option xstate * calls :=
  let st := x_st x in
  let bkg := is_bkg x s in
  if fails f 0 then (Some x, [(CGet, true)])
  else
    let given := st_defacs st in
    let want := match mw with Some m => N.ldiff m bO | None => st_defacs st end in
    if negb (has given bJ) then (Some x, [(CGet, false)])             (* 403 *)
    else if fails f 1 then (Some x, [(CGet, false); (CShare, true)])
    else
      let st1 := set_users (st_users st ++ [(u, mkPud want given false false 0 0%Z)]) st in
      let x1 := set_xrows (row_set u (want, given) (x_rows x)) x in
      let cl := [(CGet, false); (CShare, false)] in
      if negb (has want bJ) then (Some (set_xst (evict_user st1 u false) x1), cl)
      else (Some (set_xst (xadd_session st1 bkg s u false) x1), cl).

(* {sub} by connection s acting for u, spelled chnXXX iff chan, with set.sub.mode = mw *)
Definition xattach (x : xstate) (f : nat) (s : sid) (u : uid) (chan : bool) (mw : option mode) : option xstate * calls :=
  let st := x_st x in
  if has_key s (st_sess st) then (Some x, [])                               (* 304 already subscribed *)
  else if negb (chan_ok st chan) then (Some x, [])                          (* 404 *)
  else if is_bkg x s && chan then (None, [])
  else match lookup u (st_users st) with
  | Some p =>
    if pu_deleted p then (None, [])
    else if negb (pu_ischan p) && chan then (Some x, [])                    (* 303 use the other name *)
    else if pu_ischan p && negb chan then (None, [])                        (* finding 1: base flow *)
    else if pu_ischan p && (match mw with Some _ => true | None => negb (has (pu_want p) bJ) end) then (None, [])
    else xattach_existing x f s u chan mw p
  | None =>
    match st_kind st with
    | KP2P => (Some x, [])                                                  (* 403: given = N *)
    | _ =>
      if chan then xattach_new_chan x f s u mw
      else if mem u (st_gone st) then (None, [])
      else xattach_new_sub x f s u mw
    end
  end.

(* {leave} by connection s acting for u: handleLeaveRequest 721-826 *)
Definition xdetach (x : xstate) (s : sid) (u : uid) (chan : bool) : option xstate :=
  let st := x_st x in
  match lookup s (st_sess st) with
  | None => Some x
  | Some d =>
    if negb (ss_uid d =? u) then Some x                                  (* remSession: not this user's *)
    else
      let asChan := chan && chan_ok st chan in
      let st1 := set_sess (remove_key s (st_sess st)) st in
      if negb (Bool.eqb (ss_chan d) asChan) then Some (set_xst st1 x)
      else
        let p := get_pud st1 u in
        (* `if !sess.background { pud.online--; t.perUser[uid] = pud }` *)
        let n := if is_bkg x s then pu_online p else (pu_online p - 1)%Z in
        let st2 := if is_bkg x s then st1 else set_users (upsert u (set_pud_online n) (st_users st1)) st1 in
        match st_kind st with
        | KP2P => Some (set_xst st2 x)
        | _ => if (n =? 0)%Z && asChan then Some (set_xst (set_users (remove_key u (st_users st2)) st2) x)
               else Some (set_xst st2 x)
        end
  end.

(* unregisterSession of a dropped session (init = false: asUid zero, asChan false).  [bkg]: the value
   of Session.background when the topic handles it. *)
Definition xdrop_session (bkg : list sid) (st : state) (s : sid) : state :=
  match lookup s (st_sess st) with
  | None => st
  | Some d =>
    let st1 := set_sess (remove_key s (st_sess st)) st in
    if ss_chan d then st1
    else if mem s bkg then st1
    else set_users (upsert (ss_uid d) (fun p => set_pud_online (pu_online p - 1)%Z p) (st_users st1)) st1
  end.

(* the publish of Sys/Fanout.v; the sessions whose queue was full are dropped by the background-aware
   unregisterSession *)
Definition xpublish (x : xstate) (px : pubctx) : pub_result * xstate :=
  let st := x_st x in
  match fst (publish st px) with
  | PAccepted seq ack copies push =>
    (PAccepted seq ack copies push,
     set_xst (fold_left (xdrop_session (x_bkg x)) (overflowed copies) (set_lastid seq st)) x)
  | r => (r, x)
  end.

(* the connection's background timer fires: hdl_websock.go 119-122, onBackgroundTimer, sessToForeground *)
Definition xforeground (x : xstate) (s : sid) : xstate :=
  if negb (is_bkg x s) then x
  else
    let x1 := set_xbkg (rm s (x_bkg x)) x in
    let st := x_st x in
    match st_kind st with
    | KP2P => x1            (* Topic.supd exists for 'me' and 'grp' only (init_topic.go:174,661): a p2p topic is not told *)
    | _ =>
      match lookup s (st_sess st) with
      | None => x1
      | Some d =>
        if ss_chan d then x1
        else set_xst (set_users (upsert (ss_uid d) (fun p => set_pud_online (pu_online p + 1)%Z p) (st_users st)) st) x1
      end
    end.

(* connection closed: cleanUp clears the flag first, then unsubAll *)
Definition xdisc (x : xstate) (s : sid) : xstate :=
  let bkg := rm s (x_bkg x) in
  mkX (set_full (rm s (st_full (x_st x))) (xdrop_session bkg (x_st x) s)) bkg (x_rows x).

(* {set sub mode=m} by u on his own subscription (replySetSub -> thisUserSub) *)
Definition xset_want (x : xstate) (f : nat) (u : uid) (m : mode) : option xstate * calls :=
  let st := x_st x in
  match lookup u (st_users st) with
  | None => (None, [])
  | Some p =>
    if pu_deleted p || pu_ischan p then (None, [])
    else match own_modes st u p (Some m) with
    | OwnOos => (None, [])
    | OwnRefused => (Some x, [])
    | OwnModes want given =>
      match own_apply x f u p want given with
      | (None, cl) => (Some x, cl)
      | (Some x1, cl) =>
        if negb (has want bJ) then (Some (set_xst (evict_user (x_st x1) u false) x1), cl) else (Some x1, cl)
      end
    end
  end.

(* {set sub user=u mode=m} by host h (replySetSub -> anotherUserSub, existing subscription) *)
Definition xset_given (x : xstate) (f : nat) (h u : uid) (m : mode) : option xstate * calls :=
  let st := x_st x in
  if h =? u then (None, [])
  else match lookup h (st_users st) with
  | None => (Some x, [])                                                  (* 403 *)
  | Some hp =>
    let hm := eff hp in
    if negb (has hm bO || has hm bA) then (Some x, [])                    (* 403: not an admin *)
    else
      let m := match st_kind st with KP2P => N.lor (N.land m mode_cp2p) bA | _ => m end in
      if has m bO then (if st_owner st =? h then (None, []) else (Some x, []))
      else match lookup u (st_users st) with
      | None => (None, [])
      | Some p =>
        if pu_deleted p || pu_ischan p then (None, [])
        else if m =? pu_given p then
          (* nothing to store; `if !userData.modeGiven.IsJoiner() { t.evictUser }` all the same *)
          (if negb (has m bJ) then (Some (set_xst (evict_user st u false) x), []) else (Some x, []))
        else if st_owner st =? u then (Some x, [])                        (* 403: cannot strip the owner *)
        else if fails f 0 then (Some x, [(CUpd, true)])                   (* `return nil, err` before the cache write *)
        else
          let st1 := set_users (update u (set_pud_modes (pu_want p) m) (st_users st)) st in
          let x1 := set_xrows (row_upd u (pu_want p, m) (x_rows x)) (set_xst st1 x) in
          if negb (has m bJ) then (Some (set_xst (evict_user st1 u false) x1), [(CUpd, false)])
          else (Some x1, [(CUpd, false)])
      end
  end.

(* {leave unsub} by an attached connection acting for u: store.Subs.Delete, then evictUser(u, true) *)
Definition xunsub (x : xstate) (f : nat) (s : sid) (u : uid) (chan : bool) : option xstate * calls :=
  let st := x_st x in
  if negb (has_key s (st_sess st)) then (Some x, [])                       (* 409 *)
  else if st_owner st =? u then (Some x, [])                               (* 403 *)
  else if negb (chan_ok st chan) then (Some x, [])                         (* 404 *)
  else match lookup u (st_users st) with
  | None => (None, [])
  | Some p =>
    if pu_deleted p then (None, [])
    else match st_kind st with
    | KP2P =>
      if existsb (fun up => negb (fst up =? u) && pu_deleted (snd up)) (st_users st) then (None, [])
      else if fails f 0 then (Some x, [(CDel, true)])
      else (Some (set_xrows (remove_key u (x_rows x)) (set_xst (set_gone (u :: st_gone st) (evict_user st u true)) x)), [(CDel, false)])
    | _ =>
      if fails f 0 then (Some x, [(CDel, true)])
      else if pu_ischan p then (Some (set_xst (set_chanrows (remove_key u (st_chanrows st)) (evict_user st u true)) x), [(CDel, false)])
      else (Some (set_xrows (remove_key u (x_rows x)) (set_xst (set_gone (u :: st_gone st) (evict_user st u true)) x)), [(CDel, false)])
    end
  end.

(* {del sub user=u} by host h *)
Definition xevict (x : xstate) (f : nat) (h u : uid) : option xstate * calls :=
  let st := x_st x in
  let hm := eff (get_pud st h) in
  if negb (has hm bO || has hm bA) then (Some x, [])
  else if (u =? 0) || (u =? h) then (Some x, [])
  else match st_kind st with
  | KP2P => (Some x, [])
  | _ =>
    match lookup u (st_users st) with
    | None => (Some x, [])
    | Some p =>
      if pu_ischan p then (None, [])
      else if has (eff p) bO then (Some x, [])
      else if negb (has (pu_want p) bJ) then (Some x, [])
      else if fails f 0 then (Some x, [(CDel, true)])
      else (Some (set_xrows (remove_key u (x_rows x)) (set_xst (set_gone (u :: st_gone st) (evict_user st u true)) x)), [(CDel, false)])
    end
  end.

Inductive xop :=
| XAttach (f : nat) (s : sid) (u : uid) (chan : bool) (mw : option mode)
| XDetach (s : sid) (u : uid) (chan : bool)
| XDisc (s : sid)
| XFg (s : sid)
| XUnsub (f : nat) (s : sid) (u : uid) (chan : bool)
| XSetWant (f : nat) (u : uid) (m : mode)
| XSetGiven (f : nat) (h u : uid) (m : mode)
| XEvict (f : nat) (h u : uid)
| XClog (s : sid)
| XUnclog (s : sid)
| XPub (px : pubctx).

Record xresult := mkXR { xr_state : option xstate; xr_calls : calls; xr_pub : option pub_result }.

Definition xstep (x : xstate) (o : xop) : xresult :=
  match o with
  | XAttach f s u c mw => let (r, cl) := xattach x f s u c mw in mkXR r cl None
  | XDetach s u c => mkXR (xdetach x s u c) [] None
  | XDisc s => mkXR (Some (xdisc x s)) [] None
  | XFg s => mkXR (Some (xforeground x s)) [] None
  | XUnsub f s u c => let (r, cl) := xunsub x f s u c in mkXR r cl None
  | XSetWant f u m => let (r, cl) := xset_want x f u m in mkXR r cl None
  | XSetGiven f h u m => let (r, cl) := xset_given x f h u m in mkXR r cl None
  | XEvict f h u => let (r, cl) := xevict x f h u in mkXR r cl None
  | XClog s => mkXR (Some (if is_full (x_st x) s then x else set_xst (set_full (s :: st_full (x_st x)) (x_st x)) x)) [] None
  | XUnclog s => mkXR (Some (set_xst (set_full (rm s (st_full (x_st x))) (x_st x)) x)) [] None
  | XPub px => let (r, x') := xpublish x px in mkXR (Some x') [] (Some r)
  end.

Definition xnext (x : xstate) (r : xresult) : xstate := match xr_state r with Some x1 => x1 | None => x end.

Fixpoint xrun (x : xstate) (ops : list xop) : xstate * list (sid * frame) :=
  match ops with
  | [] => (x, [])
  | o :: r =>
    let res := xstep x o in
    let (x2, tr) := xrun (xnext x res) r in
    (x2, emitted (xr_pub res) ++ tr)
  end.

(* an unattended loaded topic: the cache as loadSubscribers builds it from the live rows *)
Definition xinit (k : kind) (owner : uid) (defacs : mode) (users : list (uid * pud)) (crows : list (uid * mode))
                 (bkg : list sid) : xstate :=
  mkX (init k owner defacs users crows) bkg (map (fun up => (fst up, (pu_want (snd up), pu_given (snd up)))) users).

(* ------------------------------------------------------------------ *)
(* the grants according to the store / according to the cache: (0, 0) = no grant *)
Definition stored_modes (x : xstate) (u : uid) : mode * mode :=
  match lookup u (x_rows x) with Some wg => wg | None => (0, 0) end.
Definition cached_modes (st : state) (u : uid) : mode * mode :=
  match lookup u (st_users st) with
  | Some p => if pu_deleted p || pu_ischan p then (0, 0) else (pu_want p, pu_given p)
  | None => (0, 0)
  end.
Definition seff (x : xstate) (u : uid) : mode := N.land (fst (stored_modes x u)) (snd (stored_modes x u)).

(* the request that attaches a banned user (recorded finding, C07 banned-user-attached): a {sub} that
   leaves a want without J exactly as it was *)
Definition ban_bypass (x : xstate) (o : xop) : bool :=
  match o with
  | XAttach f s u chan mw =>
    match lookup u (st_users (x_st x)) with
    | Some p =>
      match own_modes (x_st x) u p mw with
      | OwnModes want given => negb (has want bJ) && (want =? pu_want p) && (given =? pu_given p)
      | _ => false
      end
    | None => false
    end
  | _ => false
  end.

Fixpoint no_bypass (x : xstate) (ops : list xop) : bool :=
  match ops with
  | [] => true
  | o :: r => negb (ban_bypass x o) && no_bypass (xnext x (xstep x o)) r
  end.
