(* C01 on topics with channel subscriptions / two participants / sessions acting on behalf of a user:
   "the number acknowledged to the publisher is the number ... every later history or description query shows".
   Wrapper over the fan-out model Sys/Fanout.v (group, channel-enabled group, p2p; sessions attached under the
   grpXXX, chnXXX, usrXXX or p2pXXX name; root sessions acting for a user) adding the stored message rows and
   the two queries of an ATTACHED session, statement by statement from server/topic.go:

     handleMeta: asChan, err := t.verifyChannelAccess(msg.Original); err != nil -> 404
     replyGetDesc(sess, asUid, asChan, opts, msg): pud, full := t.perUser[asUid];
         desc.Acs when full; desc.SeqId = t.lastID when (given & want).IsReader() - channel readers are entries
         of perUser (isChan) - whatever the If-Modified-Since option says (three-valued [ims] of Sys/TopicImsC01.v)
     replyGetData(sess, asUid, asChan, req, msg): reader -> store.Messages.GetAll (since <= seq < before, newest
         first, limit; store contract of Sys/Topic.v ad_msg_get_all), one {data} per row with Topic =
         t.original(asUid), From withheld when asChan, SeqId / Content of the row; then {ctrl 208} (204 when empty
         or not a reader)
     saveAndBroadcastMessage / messagesMapper.Save: an accepted publish stores the row (lastID+1, AsUser, content).

   Scope as in Sys/Fanout.v (store never fails, no deletions of messages, topic stays loaded); a query of a
   session that is not attached is outside this model ([None]; see Sys/TopicImsC01.v for the group topic).

   Definitions only.  Proofs are in Sys/FanoutQueryC01Proofs.v. *)
From Coq Require Import ZArith NArith List Bool.
From Tinode Require Import Sys.Fanout.
From Tinode Require Sys.Topic Sys.TopicImsC01.
Import ListNotations.
Open Scope N_scope.

Record qstate := mkQ {
  q_st : state;                      (* the fan-out model's state *)
  q_msgs : list Topic.msgrow }.      (* stored message rows of the topic, in save order *)

Inductive qframe :=
| QData (topic : tname) (from : uid) (seq : Z) (content : N)
| QDesc (full : bool) (reader : bool) (seq : Z)      (* {meta desc}: acs present, numbers present, desc.seq *)
| QCtrl (code : Z).
Definition qout := list (sid * qframe).

Inductive qop :=
| QBase (o : op)
| QGetDesc (s : sid) (u : uid) (name : tname) (i : TopicImsC01.ims)
| QGetData (s : sid) (u : uid) (name : tname) (since before limit : Z).

Definition name_chan_c01q (n : tname) : bool := match n with TChn => true | _ => false end.

(* the rows as the store contract of Sys/Topic.v sees them (no soft deletions in this model) *)
Definition store_of_c01q (ms : list Topic.msgrow) : Topic.store :=
  Topic.mkStore true 0%Z 0%Z 0 0 0 [] ms [] [].

Definition q_get_desc (st : state) (s : sid) (u : uid) (name : tname) (i : TopicImsC01.ims) : qout :=
  if negb (chan_ok st (name_chan_c01q name)) then [(s, QCtrl 404%Z)] else
  match lookup u (st_users st) with
  | None => [(s, QDesc false false 0%Z)]
  | Some p =>
    (* Don't report message IDs to users without Read access; ifUpdated guards public / private only *)
    if has (eff p) bR then [(s, QDesc true true (st_lastid st))] else [(s, QDesc true false 0%Z)]
  end.

Definition q_get_data (x : qstate) (s : sid) (u : uid) (name : tname) (since before limit : Z) : qout :=
  let st := q_st x in
  if negb (chan_ok st (name_chan_c01q name)) then [(s, QCtrl 404%Z)] else
  let as_chan := name_chan_c01q name in
  if has (eff (get_pud st u)) bR then
    match Topic.ad_msg_get_all (store_of_c01q (q_msgs x)) u since before limit with
    | [] => [(s, QCtrl 204%Z)]
    | ms => map (fun m => (s, QData (original st u) (if as_chan then 0 else Topic.m_from m) (Topic.m_seq m) (Topic.m_content m))) ms
            ++ [(s, QCtrl 208%Z)]
    end
  else [(s, QCtrl 204%Z)].

(* messagesMapper.Save of an accepted publish *)
Definition stored_c01q (ms : list Topic.msgrow) (o : op) (res : option pub_result) : list Topic.msgrow :=
  match o, res with
  | OPub px, Some (PAccepted q _ _ _) => ms ++ [Topic.mkMsg q (px_author px) (px_content px) 0%Z]
  | _, _ => ms
  end.

(* one request: new state (None = outside the modelled scope), the outcome of a publish, the answer of a query *)
Definition qstep (x : qstate) (o : qop) : option qstate * option pub_result * qout :=
  match o with
  | QBase bo =>
    let '(ost, res) := step (q_st x) bo in
    (option_map (fun st' => mkQ st' (stored_c01q (q_msgs x) bo res)) ost, res, [])
  | QGetDesc s u name i =>
    if has_key s (st_sess (q_st x)) then (Some x, None, q_get_desc (q_st x) s u name i) else (None, None, [])
  | QGetData s u name since before limit =>
    if has_key s (st_sess (q_st x)) then (Some x, None, q_get_data x s u name since before limit) else (None, None, [])
  end.

Definition qnext (x : qstate) (ox : option qstate) : qstate := match ox with Some x1 => x1 | None => x end.

Fixpoint qrun (x : qstate) (ops : list qop) : qstate * list qout :=
  match ops with
  | [] => (x, [])
  | o :: r =>
    let '(ox, _, out) := qstep x o in
    let '(x2, outs) := qrun (qnext x ox) r in
    (x2, out :: outs)
  end.

Definition qinit (st : state) : qstate := mkQ st [].
