(* C03 (s03f): lemmas about Sys/P2PCreateC03f.v - the mode granted to the creator of a p2p topic
   follows the peer's defaults for the ACTING level; publishes are accepted iff the acting user is
   a stored writer; the session-level variant is refuted. *)
From Coq Require Import ZArith NArith List Bool Lia.
From Tinode Require Import Base.Util Sys.Topic Sys.TopicOffSetC03Proofs Sys.P2PCreateC03f.
Import ListNotations.
Open Scope Z_scope.

Ltac inv_c03f H := inversion H; subst; clear H.

Section P.
Variable ua ub : N.
Hypothesis Hne : ua <> ub.

Lemma neq_ba : (ub =? ua)%N = false.
Proof. apply N.eqb_neq. congruence. Qed.

Lemma party_cases u : party_c03f ua ub u = true -> u = ua \/ u = ub.
Proof.
  unfold party_c03f. intros H. apply orb_true_iff in H. destruct H as [H|H]; apply N.eqb_eq in H; auto.
Qed.

(* the granted mode of a requester whose subscription is being created *)
Lemma init_creator_grant l s u1 s' c nb : party_c03f ua ub u1 = true ->
  init_p2p_c03f ua ub l s u1 = IOk s' c nb ->
  (if t_ex s then srow_of ua s u1 else None) = None ->
  nb = true /\
  r_given (crow_of ua c u1) =
    select_mode_c03f l (d_anon (acct_of ua s (peer_c03f ua ub u1))) (d_auth (acct_of ua s (peer_c03f ua ub u1))) ModeCP2P_c03f /\
  srow_of ua s' u1 = Some (crow_of ua c u1).
Proof.
  intros Hp. pose proof neq_ba as Hba.
  destruct (party_cases _ Hp) as [E|E]; subst u1; unfold init_p2p_c03f, peer_c03f, srow_of, acct_of, crow_of, mk_cache, set_srow;
    rewrite ?N.eqb_refl, ?Hba; destruct s as [aa ab ex sq ra rb ms k]; cbn [t_ex s_a s_b t_seq acc_a acc_b s_msgs ca];
    destruct ex, ra as [ra|], rb as [rb|]; cbn; rewrite ?N.eqb_refl, ?Hba; cbn; intros H N0; try discriminate; inv_c03f H; cbn;
    repeat split; reflexivity.
Qed.

(* an existing subscription of the requester is taken as stored *)
Lemma init_existing_kept l s u1 s' c nb r : party_c03f ua ub u1 = true ->
  init_p2p_c03f ua ub l s u1 = IOk s' c nb ->
  t_ex s = true -> srow_of ua s u1 = Some r ->
  nb = false /\ crow_of ua c u1 = r /\ srow_of ua s' u1 = Some r.
Proof.
  intros Hp. pose proof neq_ba as Hba.
  destruct (party_cases _ Hp) as [E|E]; subst u1; unfold init_p2p_c03f, peer_c03f, srow_of, acct_of, crow_of, mk_cache, set_srow;
    rewrite ?N.eqb_refl, ?Hba; destruct s as [aa ab ex sq ra rb ms k]; cbn [t_ex s_a s_b t_seq acc_a acc_b s_msgs ca];
    destruct ex, ra as [ra|], rb as [rb|]; cbn; rewrite ?N.eqb_refl, ?Hba; cbn; intros H X Y; try discriminate; inv_c03f H; inv_c03f Y; cbn;
    repeat split; reflexivity.
Qed.

(* a load leaves cache and store in agreement *)
Lemma init_coh l s u1 s' c nb : party_c03f ua ub u1 = true ->
  init_p2p_c03f ua ub l s u1 = IOk s' c nb ->
  t_ex s' = true /\ s_a s' = Some (k_a c) /\ s_b s' = Some (k_b c) /\ t_seq s' = k_lastid c /\ k_sess c = [] /\
  s_msgs s' = s_msgs s /\ acc_a s' = acc_a s /\ acc_b s' = acc_b s /\ ca s' = ca s.
Proof.
  intros Hp. pose proof neq_ba as Hba.
  destruct (party_cases _ Hp) as [E|E]; subst u1; unfold init_p2p_c03f, peer_c03f, srow_of, acct_of, crow_of, mk_cache, set_srow;
    rewrite ?N.eqb_refl, ?Hba; destruct s as [aa ab ex sq ra rb ms k]; cbn [t_ex s_a s_b t_seq acc_a acc_b s_msgs ca];
    destruct ex, ra as [ra|], rb as [rb|]; cbn; rewrite ?N.eqb_refl, ?Hba; cbn; intros H; try discriminate; inv_c03f H; cbn;
    repeat split; reflexivity.
Qed.

Definition coh_with (s : state_c03f) (c : cache_c03f) : Prop :=
  t_ex s = true /\ s_a s = Some (k_a c) /\ s_b s = Some (k_b c) /\ t_seq s = k_lastid c.

Lemma sub_coh l s c sid u nb : coh_with s c -> coh_c03f (fst (sub_c03f ua l s c sid u nb)).
Proof.
  intros [H1 [H2 [H3 H4]]]. unfold sub_c03f.
  set (w := if negb (is_joiner (r_want (crow_of ua c u))) then _ else _).
  assert (X : (if negb (w =? r_want (crow_of ua c u))%N then set_srow ua s u (mkRow w (r_given (crow_of ua c u))) else s)
              = set_srow ua s u (mkRow w (r_given (crow_of ua c u)))).
  { destruct (N.eqb_spec w (r_want (crow_of ua c u))) as [E|E]; cbn [negb]; [|reflexivity].
    rewrite E. unfold set_srow, crow_of. destruct s as [aa ab ex sq ra rb ms k]; cbn in *. subst.
    destruct (u =? ua)%N; [destruct (k_a c)|destruct (k_b c)]; reflexivity. }
  rewrite X. clearbody w.
  unfold coh_c03f, set_ca, set_srow, set_crow, attach_c03f, evict_c03f, crow_of.
  destruct s as [aa ab ex sq ra rb ms k]; destruct c as [ka kb li ks]; cbn in *. subst.
  destruct (u =? ua)%N; cbn;
  repeat match goal with |- context [if ?b then _ else _] => destruct b; cbn end; repeat split; try assumption; try reflexivity.
Qed.

Lemma pub_coh s c u : ca s = Some c -> coh_with s c -> coh_c03f (fst (pub_c03f ua s c u)).
Proof.
  intros Hc [H1 [H2 [H3 H4]]]. unfold pub_c03f.
  destruct (negb (is_writer (row_mode_c03f (crow_of ua c u)))); cbn [fst].
  - unfold coh_c03f. rewrite Hc. repeat split; assumption.
  - unfold coh_c03f. cbn. repeat split; assumption.
Qed.

(* every request keeps cache and store in agreement *)
Lemma step_coh sm s q s' r : coh_c03f s -> step_c03f ua ub sm s q = Some (s', r) -> coh_c03f s'.
Proof.
  intros C. unfold step_c03f, step_gen_c03f.
  destruct (alookup (q_sid q) sm) as [[suid slvl]|]; [|discriminate].
  destruct (dispatch_c03f suid slvl (q_obo q) (q_xl q)) as [u l|code]; [|intros H; inv_c03f H; assumption].
  destruct (party_c03f ua ub u) eqn:Hp; cbn [negb]; [|discriminate].
  destruct (q_kind q).
  - destruct (ca s) as [c|] eqn:Hc.
    + destruct (attached_c03f c (q_sid q)); intros H; inv_c03f H; [assumption|].
      pose proof (sub_coh l s c (q_sid q) u false) as X. unfold coh_c03f in C. rewrite Hc in C.
      specialize (X C). match goal with HH : _ = (s', r) |- _ => rewrite HH in X end; exact X.
    + destruct (init_p2p_c03f ua ub l s u) as [code|s1 c nb] eqn:Hi; intros H; inv_c03f H; [assumption|].
      destruct (init_coh _ _ _ _ _ _ Hp Hi) as [A1 [A2 [A3 [A4 _]]]].
      pose proof (sub_coh l s1 c (q_sid q) u nb (conj A1 (conj A2 (conj A3 A4)))) as X.
      match goal with HH : _ = (s', r) |- _ => rewrite HH in X end; exact X.
  - destruct (ca s) as [c|] eqn:Hc; [|intros H; inv_c03f H; assumption].
    destruct (attached_c03f c (q_sid q)); intros H; inv_c03f H; [|assumption].
    pose proof (pub_coh s c u Hc) as X. unfold coh_c03f in C. rewrite Hc in C. specialize (X C).
    match goal with HH : _ = (s', r) |- _ => rewrite HH in X end; exact X.
Qed.

Lemma run_coh sm h : forall s s', coh_c03f s -> run_c03f ua ub sm s h = Some s' -> coh_c03f s'.
Proof.
  induction h as [|q h IH]; intros s s' C; cbn.
  - intros H; inv_c03f H; assumption.
  - destruct (step_c03f ua ub sm s q) as [[s1 r]|] eqn:E; [|discriminate]. apply IH. eapply step_coh; eassumption.
Qed.

(* under agreement the cache's decision is the stored rows' *)
Lemma coh_writer s c u : party_c03f ua ub u = true -> ca s = Some c -> coh_c03f s ->
  is_writer (row_mode_c03f (crow_of ua c u)) = stored_writer_c03f ua s u.
Proof.
  intros Hp Hc C. unfold coh_c03f in C. rewrite Hc in C. destruct C as [_ [A [B _]]].
  unfold stored_writer_c03f, srow_of, crow_of, row_mode_c03f. pose proof neq_ba as Hba.
  destruct (party_cases _ Hp) as [E|E]; subst u; rewrite ?N.eqb_refl, ?Hba; rewrite ?A, ?B; rewrite is_writer_land; apply andb_comm.
Qed.

(* the publish decision *)
Lemma pub_iff sm s q suid slvl u l s' code seq : coh_c03f s ->
  alookup (q_sid q) sm = Some (suid, slvl) -> dispatch_c03f suid slvl (q_obo q) (q_xl q) = DRun u l -> q_kind q = KPub ->
  step_c03f ua ub sm s q = Some (s', (code, seq)) ->
  (code = 202 <-> attached_now_c03f s (q_sid q) = true /\ stored_writer_c03f ua s u = true).
Proof.
  intros C Hs Hd Hk. unfold step_c03f, step_gen_c03f. rewrite Hs, Hd, Hk.
  destruct (party_c03f ua ub u) eqn:Hp; cbn [negb]; [|discriminate].
  unfold attached_now_c03f. destruct (ca s) as [c|] eqn:Hc.
  - destruct (attached_c03f c (q_sid q)).
    + rewrite <- (coh_writer s c u Hp Hc C). unfold pub_c03f.
      destruct (is_writer (row_mode_c03f (crow_of ua c u))); cbn [negb]; intros H; inv_c03f H; split; try tauto; try discriminate.
      intros [_ X]; discriminate.
    + intros H; inv_c03f H. split; [discriminate|intros [X _]; discriminate].
  - intros H; inv_c03f H. split; [discriminate|intros [X _]; discriminate].
Qed.

(* a refused publish changes nothing; an accepted one takes the next number *)
Lemma pub_effect sm s q suid slvl u l s' code seq :
  alookup (q_sid q) sm = Some (suid, slvl) -> dispatch_c03f suid slvl (q_obo q) (q_xl q) = DRun u l -> q_kind q = KPub ->
  step_c03f ua ub sm s q = Some (s', (code, seq)) ->
  (code <> 202 -> s' = s /\ seq = None) /\
  (code = 202 -> exists c, ca s = Some c /\ seq = Some (k_lastid c + 1) /\ t_seq s' = k_lastid c + 1 /\
                 s_msgs s' = s_msgs s ++ [(k_lastid c + 1, u)] /\ s_a s' = s_a s /\ s_b s' = s_b s).
Proof.
  intros Hs Hd Hk. unfold step_c03f, step_gen_c03f. rewrite Hs, Hd, Hk.
  destruct (party_c03f ua ub u); cbn [negb]; [|discriminate].
  destruct (ca s) as [c|] eqn:Hc.
  - destruct (attached_c03f c (q_sid q)).
    + unfold pub_c03f. destruct (is_writer (row_mode_c03f (crow_of ua c u))); cbn [negb]; intros H; inv_c03f H.
      * split; [congruence|]. intros _. exists c. cbn. repeat split; reflexivity.
      * split; [auto|discriminate].
    + intros H; inv_c03f H. split; [auto|discriminate].
  - intros H; inv_c03f H. split; [auto|discriminate].
Qed.

(* a request of a root session on behalf of u at level l is the request of u's own session of level l *)
Lemma obo_same_as_own sm1 sm2 s q1 q2 r u x l :
  alookup (q_sid q1) sm1 = Some (r, LvRoot) -> q_obo q1 = ObUser u -> q_xl q1 = x ->
  l = (match parse_level_c03f x with LvNone => LvAuth | l0 => l0 end) ->
  alookup (q_sid q2) sm2 = Some (u, l) -> q_obo q2 = ObNone ->
  q_sid q2 = q_sid q1 -> q_kind q2 = q_kind q1 ->
  step_c03f ua ub sm1 s q1 = step_c03f ua ub sm2 s q2.
Proof.
  intros A1 A2 A3 A4 B1 B2 B3 B4. unfold step_c03f, step_gen_c03f. rewrite A1, B1, A2, B2, A3, B3, B4. cbn. subst l. reflexivity.
Qed.

End P.

(* the variant that hands the SESSION's level to selectAccessMode: a root session acting for an
   authenticated user A whose peer grants JRPA to authenticated strangers creates A's subscription
   with W (the root default JRWPA), and A's publish is accepted *)
Definition w_sessions_c03f : sessions_c03f := [(0%N, (1%N, LvAuth)); (1%N, (3%N, LvRoot)); (2%N, (2%N, LvAuth))].
Definition w_state_c03f : state_c03f := mkSt (mkAcct 31%N 0%N) (mkAcct 27%N 0%N) false 0 None None [] None.
Definition w_sub_c03f : req_c03f := mkReq 1%N (ObUser 1%N) XAuth KSub.
Definition w_pub_c03f : req_c03f := mkReq 1%N (ObUser 1%N) XAuth KPub.

Lemma sessvar_witness :
  match step_sessvar_c03f 1%N 2%N w_sessions_c03f w_state_c03f w_sub_c03f with
  | Some (s1, _) =>
    option_map r_given (s_a s1) = Some 31%N /\
    match step_sessvar_c03f 1%N 2%N w_sessions_c03f s1 w_pub_c03f with Some (_, (code, _)) => code = 202 | None => False end
  | None => False
  end.
Proof. vm_compute. split; reflexivity. Qed.
Lemma faithful_witness :
  match step_c03f 1%N 2%N w_sessions_c03f w_state_c03f w_sub_c03f with
  | Some (s1, _) =>
    option_map r_given (s_a s1) = Some 27%N /\
    match step_c03f 1%N 2%N w_sessions_c03f s1 w_pub_c03f with Some (_, (code, _)) => code = 403 | None => False end
  | None => False
  end.
Proof. vm_compute. split; reflexivity. Qed.
