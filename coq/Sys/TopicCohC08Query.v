(* C08: query answers read only what coherence covers: two caches that agree (and have the
   same sessions attached) give the same answers; hence a reload is invisible. *)
From Coq Require Import ZArith NArith List Bool Lia.
From Tinode Require Import Base.Util Pure.Acs Sys.Topic Sys.TopicTac Sys.TopicFrame Sys.TopicNum Sys.TopicNumThm
  Sys.TopicCohC08 Sys.TopicCohC08Proofs Sys.TopicCohC08Step Sys.TopicCohC08Run.
Import ListNotations.
Open Scope Z_scope.

Lemma agree_mode c d u : cache_agree c d -> user_mode c u = user_mode d u.
Proof.
  intros [_ [_ [_ [_ [_ P]]]]]. specialize (P u). unfold user_mode, get_pud, pud_mode.
  destruct (alookup u (c_users c)) as [p|], (alookup u (c_users d)) as [q|]; cbn in P; try discriminate; [|reflexivity].
  unfold core in P. inv P. congruence.
Qed.

Section Query.
Variable dr : Z -> list (Z * Z) -> option (list (Z * Z)).
Variable nr : list (Z * Z) -> list (Z * Z).
Variable sm : sessmap.

Lemma query_agree f s c d n q :
  cache_agree c d -> c_sess c = c_sess d -> is_query q = true ->
  snd (step dr nr sm f (mkState s (Some c) n) q) = snd (step dr nr sm f (mkState s (Some d) n) q).
Proof.
  intros A ES Q. pose proof A as [E1 [E2 [E3 [E4 [E5 P]]]]].
  assert (forall sid, attached c sid = attached d sid) as EA by (intros sid; unfold attached; rewrite ES; reflexivity).
  destruct q; try discriminate Q; unfold step; cbn [st ca]; rewrite <- (EA sid).
  - (* get data *)
    destruct (attached c sid); cbn -[get_data]; [|reflexivity].
    unfold get_data. rewrite <- (agree_mode c d _ A). repeat break_match; reflexivity.
  - (* get desc *)
    destruct (attached c sid); cbn -[get_desc offline_get_desc]; [|reflexivity].
    unfold get_desc. specialize (P (sess_uid sm sid)).
    destruct (alookup (sess_uid sm sid) (c_users c)) as [p|], (alookup (sess_uid sm sid) (c_users d)) as [q|]; cbn in P; try discriminate; [|reflexivity].
    unfold core in P. injection P as Hw Hg Hr Hc Hd. unfold pud_mode.
    rewrite Hw, Hg, Hr, Hc, Hd, E1, E2. destruct (is_reader _); reflexivity.
  - (* get sub *)
    destruct (attached c sid); cbn -[get_sub offline_get_sub]; [|reflexivity].
    unfold get_sub. rewrite <- (agree_mode c d _ A). repeat break_match; reflexivity.
  - (* get del *)
    destruct (attached c sid); cbn -[get_del]; [|reflexivity].
    unfold get_del. rewrite <- (agree_mode c d _ A). repeat break_match; reflexivity.
Qed.

(* an unloaded topic: the answers never depended on a cache *)
Lemma reload_invisible f x q :
  inv x -> is_query q = true -> answer dr nr sm f x q = answer dr nr sm f (reload x) q.
Proof.
  intros IV Q. unfold answer, reload. destruct x as [s [c|] n]; cbn [ca st ncalls]; [|reflexivity].
  apply query_agree; [|reflexivity|exact Q].
  pose proof (inv_coherent _ IV) as CO. unfold coherent in CO. cbn [ca st] in CO.
  destruct CO as [E1 [E2 [E3 [E4 [E5 P]]]]]. unfold cache_agree, reload_cache, load in *.
  cbn [c_lastid c_delid c_owner c_auth c_anon c_users] in *. repeat split; assumption.
Qed.

Theorem run_reload_invisible h x0 f q :
  inv x0 -> inv_num x0 -> safe_run dr nr sm x0 h -> is_query q = true ->
  answer dr nr sm f (fst (run dr nr sm x0 h)) q = answer dr nr sm f (reload (fst (run dr nr sm x0 h))) q.
Proof.
  intros IV IN SR Q. apply reload_invisible; [|exact Q]. apply run_inv; assumption.
Qed.

(* the real unload request is invisible to every query unconditionally (it only happens
   when no session is attached, and queries of sessions that are not attached are answered
   from the store) *)
Lemma unload_invisible f x q :
  is_query q = true -> answer dr nr sm f (fst (step dr nr sm NoFault x OUnload)) q = answer dr nr sm f x q.
Proof.
  intros Q. unfold answer. destruct x as [s [c|] n]; unfold step at 2; cbn [ca st]; [|reflexivity].
  destruct (c_sess c) as [|e l] eqn:ES; cbn [fst]; [|reflexivity].
  assert (forall sid, attached c sid = false) as NA by (intros sid; unfold attached; rewrite ES; reflexivity).
  destruct q; try discriminate Q; unfold step; cbn [st ca]; rewrite NA; reflexivity.
Qed.
End Query.
