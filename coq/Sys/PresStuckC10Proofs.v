(* Lemmas about Sys/PresStuckC10.v: the slow-consumer drop inside broadcastToSessions and the online counters. *)
From Coq Require Import List NArith ZArith Bool Lia.
From Coq Require Import ZifyBool ZifyNat ZifyN.
From Tinode Require Import Sys.Pres Sys.PresProofs Sys.PresStuckC10.
Import ListNotations.
Open Scope N_scope.

(* ------------------------------------------------------------------ the invariant *)

(* a session is attached to a topic at most once (t.sessions is a map keyed by the session) *)
Definition sess_nodup_c10x (s : state) : Prop :=
  (forall u m, get_me s u = Some m -> NoDup (me_sess m)) /\
  (forall t x, get_top s t = Some x -> NoDup (map fst (t_sess x))).

(* online(u, t) = number of attached foreground sessions of u in t, for every topic and user *)
Definition xinv_c10x (s : state) : Prop := online_ok s /\ sess_nodup_c10x s.

(* ------------------------------------------------------------------ counting *)

Lemma adel_notin {V} k (l : list (N * V)) : ~ In k (map fst l) -> adel N.eqb k l = l.
Proof.
  induction l as [|[k' v'] r IH]; simpl; [reflexivity|]. intros H.
  destruct (k =? k') eqn:E; [apply N.eqb_eq in E; subst; exfalso; apply H; now left|].
  f_equal. apply IH. intros X. apply H. now right.
Qed.

Lemma adel_keys_subset {V} k (l : list (N * V)) a : In a (map fst (adel N.eqb k l)) -> In a (map fst l).
Proof.
  induction l as [|[k' v'] r IH]; simpl; [tauto|].
  destruct (k =? k'); simpl; intros H; [right; auto|]. destruct H; [now left | right; auto].
Qed.

Lemma adel_nodup {V} k (l : list (N * V)) : NoDup (map fst l) -> NoDup (map fst (adel N.eqb k l)).
Proof.
  induction l as [|[k' v'] r IH]; simpl; intros H; [constructor|]. inversion H; subst.
  destruct (k =? k'); simpl; [auto|]. constructor; [|auto]. intros X. apply H2. eapply adel_keys_subset; eauto.
Qed.

Lemma count_adel (g : N * N -> bool) sid l uid :
  NoDup (map fst l) -> aget N.eqb sid l = Some uid ->
  Z.of_nat (length (filter g (adel N.eqb sid l))) = (Z.of_nat (length (filter g l)) - b2z (g (sid, uid)))%Z.
Proof.
  induction l as [|[k' v'] r IH]; simpl; [discriminate|]. intros ND HG. inversion ND; subst.
  destruct (sid =? k') eqn:E.
  - apply N.eqb_eq in E. subst k'. injection HG as ->. rewrite (adel_notin _ _ H1).
    destruct (g (sid, uid)); cbn [length b2z]; clear IH; generalize (length (filter g r)); intros n; lia.
  - specialize (IH H2 HG). cbn [filter]. destruct (g (k', v')); cbn [length]; revert IH;
      generalize (length (filter g r)) (length (filter g (adel N.eqb sid r))) (b2z (g (sid, uid))); intros; lia.
Qed.

Lemma count_filter_sid (f : N -> bool) sid l :
  NoDup l -> In sid l ->
  Z.of_nat (length (filter f (filter (fun k => negb (k =? sid)) l))) = (Z.of_nat (length (filter f l)) - b2z (f sid))%Z.
Proof.
  induction l as [|a r IH]; simpl; [tauto|]. intros ND HI. inversion ND; subst.
  destruct (a =? sid) eqn:E; simpl.
  - apply N.eqb_eq in E. subst a.
    assert (R : filter (fun k => negb (k =? sid)) r = r).
    { clear - H1. induction r as [|b r IH]; simpl; [reflexivity|].
      destruct (b =? sid) eqn:E; [apply N.eqb_eq in E; subst; exfalso; apply H1; now left|].
      simpl. f_equal. apply IH. intros X. apply H1. now right. }
    rewrite R. destruct (f sid); cbn [length b2z]; generalize (length (filter f r)); intros n; lia.
  - destruct HI as [->|HI]; [rewrite N.eqb_refl in E; discriminate|].
    specialize (IH H2 HI). destruct (f a); cbn [length]; revert IH;
      generalize (length (filter f r)) (length (filter f (filter (fun k => negb (k =? sid)) r))) (b2z (f sid)); intros; lia.
Qed.

(* ------------------------------------------------------------------ access *)

Lemma get_pud_set_pud u p x u' : get_pud (set_pud u p x) u' = if u' =? u then p else get_pud x u'.
Proof.
  unfold get_pud, set_pud. cbn [t_users]. destruct (u' =? u) eqn:E.
  - apply N.eqb_eq in E. subst. now rewrite (aget_aset_same N.eqb Neqb_eq).
  - now rewrite (aget_aset_other N.eqb Neqb_eq).
Qed.

Lemma get_top_put_top t x s t' : get_top (put_top t x s) t' = if tname_eqb t' t then Some x else get_top s t'.
Proof.
  unfold get_top, put_top, set_top. cbn [s_top]. destruct (tname_eqb t' t) eqn:E.
  - apply tname_eqb_eq in E. subst. now rewrite (aget_aset_same tname_eqb tname_eqb_eq).
  - now rewrite (aget_aset_other tname_eqb tname_eqb_eq).
Qed.

Lemma get_me_put_me u m s u' : get_me (put_me u m s) u' = if u' =? u then Some m else get_me s u'.
Proof.
  unfold get_me, put_me, set_me. cbn [s_me]. destruct (u' =? u) eqn:E.
  - apply N.eqb_eq in E. subst. now rewrite (aget_aset_same N.eqb Neqb_eq).
  - now rewrite (aget_aset_other N.eqb Neqb_eq).
Qed.

(* ------------------------------------------------------------------ states with the same accounting *)

(* s' has the session table of s, and every topic of s' is a topic of s with the same attached sessions and
   the same online counters (anything else may differ: marks, modes' are NOT covered - see acct_same_c10x uses) *)
Definition acct_same_c10x (s s' : state) : Prop :=
  s_sess s' = s_sess s /\
  (forall u m', get_me s' u = Some m' -> exists m, get_me s u = Some m /\ me_online m' = me_online m /\ me_sess m' = me_sess m) /\
  (forall t x', get_top s' t = Some x' -> exists x, get_top s t = Some x /\ t_sess x' = t_sess x /\
                                                 forall u, p_online (get_pud x' u) = p_online (get_pud x u)).

Lemma acct_refl s : acct_same_c10x s s.
Proof. split; [reflexivity|]. split; intros; eexists; repeat split; eauto. Qed.

Lemma acct_trans a b c : acct_same_c10x a b -> acct_same_c10x b c -> acct_same_c10x a c.
Proof.
  intros [A1 [A2 A3]] [B1 [B2 B3]]. split; [congruence|]. split.
  - intros u m' H. destruct (B2 _ _ H) as [m [G [E1 E2]]]. destruct (A2 _ _ G) as [m0 [G0 [F1 F2]]].
    exists m0. repeat split; congruence.
  - intros t x' H. destruct (B3 _ _ H) as [x [G [E1 E2]]]. destruct (A3 _ _ G) as [x0 [G0 [F1 F2]]].
    exists x0. split; [exact G0|]. split; [congruence|]. intros u. rewrite E2. apply F2.
Qed.

Lemma sess_bkg_same s s' sid : s_sess s' = s_sess s -> sess_bkg s' sid = sess_bkg s sid.
Proof. unfold sess_bkg, get_sess. now intros ->. Qed.

Lemma xinv_acct s s' : acct_same_c10x s s' -> xinv_c10x s -> xinv_c10x s'.
Proof.
  intros [A1 [A2 A3]] [[O1 O2] [N1 N2]]. split; split.
  - intros u m' H. destruct (A2 _ _ H) as [m [G [E1 E2]]]. rewrite E1, (O1 _ _ G). unfold fg_count_me. rewrite E2.
    f_equal. f_equal. apply filter_ext. intros a. now rewrite (sess_bkg_same _ _ _ A1).
  - intros t x' u H. destruct (A3 _ _ H) as [x [G [E1 E2]]]. rewrite E2, (O2 _ _ u G). unfold fg_count_top. rewrite E1.
    f_equal. f_equal. apply filter_ext. intros a. now rewrite (sess_bkg_same _ _ _ A1).
  - intros u m' H. destruct (A2 _ _ H) as [m [G [E1 E2]]]. rewrite E2. eauto.
  - intros t x' H. destruct (A3 _ _ H) as [x [G [E1 E2]]]. rewrite E1. eauto.
Qed.

Lemma acct_send ms s : acct_same_c10x s (send ms s).
Proof. exact (acct_refl s). Qed.

Lemma acct_set_net f s : acct_same_c10x s (set_net f s).
Proof. exact (acct_refl s). Qed.

Lemma acct_put_top t x x' s :
  get_top s t = Some x -> t_sess x' = t_sess x -> (forall u, p_online (get_pud x' u) = p_online (get_pud x u)) ->
  acct_same_c10x s (put_top t x' s).
Proof.
  intros G E1 E2. split; [reflexivity|]. split.
  - intros u m' H. exists m'. auto.
  - intros t' y H. rewrite get_top_put_top in H. destruct (tname_eqb t' t) eqn:E.
    + apply tname_eqb_eq in E. subst t'. injection H as <-. exists x. auto.
    + exists y. auto.
Qed.

Lemma acct_put_me u m m' s :
  get_me s u = Some m -> me_online m' = me_online m -> me_sess m' = me_sess m -> acct_same_c10x s (put_me u m' s).
Proof.
  intros G E1 E2. split; [reflexivity|]. split.
  - intros u' y H. rewrite get_me_put_me in H. destruct (u' =? u) eqn:E.
    + apply N.eqb_eq in E. subst u'. injection H as <-. exists m. auto.
    + exists y. auto.
  - intros t x' H. exists x'. auto.
Qed.

(* ------------------------------------------------------------------ the drop preserves the invariant *)

Lemma existsb_in_me sid l : existsb (N.eqb sid) l = true -> In sid l.
Proof. rewrite existsb_exists. intros [x [H E]]. apply N.eqb_eq in E. now subst. Qed.

Lemma leave_me_xinv s sid u : xinv_c10x s -> xinv_c10x (leave_me s sid u (sess_bkg s sid)).
Proof.
  intros I. unfold leave_me. destruct (get_me s u) as [m|] eqn:G; [|exact I].
  destruct (existsb (N.eqb sid) (me_sess m)) eqn:EX; simpl; [|exact I].
  apply existsb_in_me in EX. destruct I as [[O1 O2] [N1 N2]]. split; split.
  - intros u' y H. rewrite get_me_put_me in H. destruct (u' =? u) eqn:E.
    + injection H as <-. unfold fg_count_me. cbn [me_online me_sess].
      rewrite (filter_ext _ (fun k => negb (sess_bkg s k))) by reflexivity.
      rewrite (count_filter_sid (fun k => negb (sess_bkg s k)) sid _ (N1 _ _ G) EX).
      rewrite (O1 _ _ G). unfold fg_count_me. reflexivity.
    + apply (O1 _ _ H).
  - intros t x u' H. apply (O2 _ _ u' H).
  - intros u' y H. rewrite get_me_put_me in H. destruct (u' =? u) eqn:E.
    + injection H as <-. cbn [me_sess]. apply NoDup_filter. eauto.
    + eauto.
  - intros t x H. apply (N2 _ _ H).
Qed.

Lemma leave_top_xinv s sid t : xinv_c10x s -> xinv_c10x (leave_top s sid t (sess_bkg s sid)).
Proof.
  intros I. unfold leave_top. destruct (get_top s t) as [x|] eqn:G; [|exact I].
  destruct (aget N.eqb sid (t_sess x)) as [uid|] eqn:A; [|exact I].
  apply (xinv_acct _ _ (acct_send _ _)).
  destruct I as [[O1 O2] [N1 N2]]. split; split.
  - intros u' y H. apply (O1 _ _ H).
  - intros t' y u' H. rewrite get_top_put_top in H. destruct (tname_eqb t' t) eqn:E; [|apply (O2 _ _ u' H)].
    injection H as <-. rewrite get_pud_set_pud. unfold fg_count_top. cbn [t_sess set_pud set_tsess].
    rewrite (filter_ext _ (fun e : N * N => (snd e =? u') && negb (sess_bkg s (fst e)))) by reflexivity.
    rewrite (count_adel _ sid _ uid (N2 _ _ G) A). cbn [fst snd].
    pose proof (O2 _ _ u' G) as OU. unfold fg_count_top in OU.
    destruct (u' =? uid) eqn:EU.
    + apply N.eqb_eq in EU. subst u'. cbn [p_online p_set_online]. rewrite N.eqb_refl, <- OU. reflexivity.
    + rewrite N.eqb_sym in EU. rewrite EU, <- OU. cbn [andb b2z]. now rewrite Z.sub_0_r.
  - intros u' y H. apply (N1 _ _ H).
  - intros t' y H. rewrite get_top_put_top in H. destruct (tname_eqb t' t) eqn:E; [|apply (N2 _ _ H)].
    injection H as <-. cbn [t_sess set_pud set_tsess]. apply adel_nodup. eauto.
Qed.

Lemma drop_xinv s sid u t : xinv_c10x s -> xinv_c10x (drop_c10x s sid u t).
Proof.
  intros I. unfold drop_c10x. destruct (sess_on s sid t); [|exact I].
  unfold leave. destruct t; [apply leave_me_xinv | apply leave_top_xinv | apply leave_top_xinv]; exact I.
Qed.

Lemma drops_xinv k outs : forall s, xinv_c10x s -> xinv_c10x (drops_c10x k s outs).
Proof.
  unfold drops_c10x. induction outs as [|o r IH]; simpl; intros s I; [exact I|].
  apply IH. destruct o; try exact I. destruct (stuck_c10x k sid); [apply drop_xinv|]; exact I.
Qed.

(* ------------------------------------------------------------------ the handlers that fan out keep the accounting *)

Lemma acct_deliver s g : acct_same_c10x s (fst (deliver_msg s g)).
Proof.
  unfold deliver_msg. destruct (m_dst g) as [u|a b|gg].
  - destruct (get_me s u) as [m|] eqn:G; [|apply acct_refl].
    destruct (is_info (m_what g)); [apply acct_refl|]. cbn [fst].
    set (r := proc_pres_req _ _ _ _ _ _ _).
    assert (A : acct_same_c10x s (put_me u (mkMe (me_marked m) (me_online m) (me_sess m) (r_subs r)) s))
      by (apply (acct_put_me _ m); auto).
    destruct (r_reply r); [eapply acct_trans; [exact A | apply acct_send] | exact A].
  - destruct (get_top s (TP2P a b)) as [x|]; [|apply acct_refl].
    destruct (negb (t_loaded x)); [apply acct_refl|]. destruct (is_info (m_what g)); [apply acct_refl|]. cbn [fst].
    destruct (r_reply _); [apply acct_send | apply acct_refl].
  - destruct (get_top s (TGrp gg)) as [x|]; [|apply acct_refl].
    destruct (negb (t_loaded x)); [apply acct_refl|]. destruct (is_info (m_what g)); [apply acct_refl|]. cbn [fst].
    destruct (r_reply _); [apply acct_send | apply acct_refl].
Qed.

Lemma acct_note s sid u t w seq : acct_same_c10x s (fst (note_op s sid u t w seq)).
Proof.
  unfold note_op. cbv zeta.
  repeat match goal with
  | |- acct_same_c10x _ (fst (if ?c then (s, _) else _)) => destruct c; [apply acct_refl|]
  end.
  destruct (get_top s t) as [x|] eqn:G; [|apply acct_refl].
  destruct (found t x u) eqn:F.
  - repeat match goal with
    | |- acct_same_c10x _ (fst (if ?c then (s, _) else _)) => destruct c; [apply acct_refl|]
    end.
    cbn [fst]. eapply acct_trans; [|apply acct_send].
    destruct w; try (apply (acct_put_top _ x); auto; intros u'; rewrite get_pud_set_pud; destruct (u' =? u) eqn:E; auto;
                     apply N.eqb_eq in E; subst u'; reflexivity);
      apply (acct_put_top _ x); auto.
  - (* no perUser entry: the mode is empty, nothing is relayed *)
    destruct w;
      repeat first [ exact (acct_refl s)
                   | match goal with
                     | |- acct_same_c10x _ (fst (if ?c then (s, _) else _)) => destruct c; [apply acct_refl|]
                     end ].
Qed.

Lemma acct_pub s sid u t : acct_same_c10x s (fst (pub_op s sid u t)).
Proof.
  unfold pub_op. destruct (get_top s t) as [x|] eqn:G; [|apply acct_refl].
  destruct (negb (sess_on s sid t)); [apply acct_refl|].
  destruct (negb (is_writer _)); [apply acct_refl|]. cbn [fst].
  eapply acct_trans; [|apply acct_send].
  apply (acct_put_top _ x); auto.
  - destruct (found t x u); reflexivity.
  - intros u'. destruct (found t x u); [|reflexivity].
    rewrite get_pud_set_pud. destruct (u' =? u) eqn:E; [|reflexivity].
    apply N.eqb_eq in E. subst u'. destruct (is_reader _); reflexivity.
Qed.

(* the operations whose handler calls broadcastToSessions *)
Definition fanout_op_c10x (o : op) : Prop :=
  match o with Note _ _ _ _ _ | Pub _ _ | Deliver _ => True | _ => False end.

Lemma acct_step_fanout s o : fanout_op_c10x o -> acct_same_c10x s (fst (step s o)).
Proof.
  destruct o; simpl; try tauto; intros _; unfold step, step_gen.
  - destruct (sess_user s sid); [|apply acct_refl]. destruct r; [apply acct_refl | apply acct_pub | apply acct_pub].
  - destruct (match sess_user s sid with Some u' => negb (u' =? u) | None => false end); [apply acct_refl|].
    destruct r; [apply acct_refl | apply acct_note | apply acct_note].
  - destruct (take_nth i [] (s_net s)) as [[g rest]|]; [|apply acct_refl].
    eapply acct_trans; [apply (acct_set_net (fun _ => rest)) | apply acct_deliver].
Qed.

Definition fanout_xop_c10x (o : xop_c10x) : Prop :=
  match o with XClog _ | XUnclog _ => True | XOp o => fanout_op_c10x o end.

Lemma xstep_fanout_xinv xs o : fanout_xop_c10x o -> xinv_c10x (fst xs) -> xinv_c10x (fst (fst (xstep_c10x xs o))).
Proof.
  destruct xs as [s k]. cbn [fst]. intros F I. destruct o as [sid|sid|o]; simpl.
  - destruct (_ || _); exact I.
  - destruct (stuck_c10x k sid); exact I.
  - pose proof (acct_step_fanout s o F) as A.
    destruct o; simpl in F; try tauto;
      (destruct (match actor_c10x _ with Some _ => _ | None => _ end); [exact I|]);
      destruct (step s _) as [s1 outs] eqn:ST; cbn [fst] in *; apply drops_xinv; eapply xinv_acct; eauto.
Qed.

(* all histories made of fan-out handlers, clogging and unclogging, from ANY state that satisfies the invariant *)
Lemma xrun_fanout_xinv h : forall xs, Forall fanout_xop_c10x h -> xinv_c10x (fst xs) -> xinv_c10x (fst (fst (xrun_c10x xs h))).
Proof.
  induction h as [|o r IH]; simpl; intros xs F I; [exact I|]. inversion F; subst.
  destruct (xstep_c10x xs o) as [x1 o1] eqn:E1. destruct (xrun_c10x x1 r) as [x2 o2] eqn:E2. cbn [fst].
  specialize (IH x1 H2). rewrite E2 in IH. apply IH.
  pose proof (xstep_fanout_xinv xs o H1 I) as X. rewrite E1 in X. exact X.
Qed.

(* ------------------------------------------------------------------ without stuck sessions nothing changes *)

Lemma filter_nostuck outs : filter (fun f => negb (frame_stuck_c10x [] f)) outs = outs.
Proof. induction outs as [|o r IH]; simpl; [reflexivity|]. destruct o; simpl; now rewrite IH. Qed.

Lemma drops_nostuck outs : forall s, drops_c10x [] s outs = s.
Proof. unfold drops_c10x. induction outs as [|o r IH]; simpl; intros s; [reflexivity|]. destruct o; apply IH. Qed.

Lemma xstep_conservative s o : xstep_c10x (s, []) (XOp o) = ((fst (step s o), []), snd (step s o)).
Proof.
  unfold xstep_c10x. destruct o;
    try (destruct (step s _) as [s1 outs]; cbn [fst snd]; simpl; rewrite ?drops_nostuck, ?filter_nostuck; reflexivity).
Qed.

(* ------------------------------------------------------------------ the stale write-back breaks the invariant *)

(* user 1 has two foreground sessions (1: will be stuck, 2) on group 1 owned by user 2 (session 3); user 2
   publishes; session 1 clogs; session 2 reads message 1: the {info} cannot be queued on session 1, which is
   dropped (online 2 -> 1). *)
Definition h_stuck_c10x : list xop_c10x :=
  [XOp (New 3 2 1 false); XOp (Deliver 0); XOp (Given 3 (RGrp 1) 1 47); XOp (Deliver 0); XOp (Deliver 0);
   XOp (Att 1 1 (RGrp 1) false); XOp (Deliver 0); XOp (Att 2 1 (RGrp 1) false); XOp (Pub 3 (RGrp 1));
   XOp (Deliver 0); XOp (Deliver 0); XClog 1].

Definition online_of_c10x (s : state) (t : tname) (u : N) : Z :=
  match get_top s t with Some x => p_online (get_pud x u) | None => (-1)%Z end.
Definition attached_of_c10x (s : state) (t : tname) (u : N) : Z :=
  match get_top s t with Some x => fg_count_top s x u | None => (-1)%Z end.

Lemma stuck_drop_example :
  let xs := fst (xrun_c10x xinit_c10x h_stuck_c10x) in
  let xs1 := fst (xstep_c10x xs (XOp (Note 2 1 (RGrp 1) WIRead 1))) in
  (online_of_c10x (fst xs) (TGrp 1) 1 = 2 /\ attached_of_c10x (fst xs) (TGrp 1) 1 = 2)%Z /\
  (online_of_c10x (fst xs1) (TGrp 1) 1 = 1 /\ attached_of_c10x (fst xs1) (TGrp 1) 1 = 1)%Z.
Proof. vm_compute. repeat split; reflexivity. Qed.

(* the same handler with the write-back moved behind the fan-out: 2 sessions counted, 1 attached *)
Lemma stale_writeback_example :
  let xs := fst (xrun_c10x xinit_c10x h_stuck_c10x) in
  let xs1 := fst (xstep_late_c10x xs (XOp (Note 2 1 (RGrp 1) WIRead 1))) in
  (online_of_c10x (fst xs1) (TGrp 1) 1 = 2 /\ attached_of_c10x (fst xs1) (TGrp 1) 1 = 1)%Z.
Proof. vm_compute. split; reflexivity. Qed.

Definition xreach_c10x (xs : xstate_c10x) : Prop := exists h, xs = fst (xrun_c10x xinit_c10x h).

(* "the handlers that fan out establish online_ok" - for the variant with the late write-back *)
Definition late_writeback_statement_c10x : Prop :=
  forall xs o, xreach_c10x xs -> fanout_xop_c10x o -> online_ok (fst (fst (xstep_late_c10x xs o))).

Lemma stale_writeback_breaks_online_count : ~ late_writeback_statement_c10x.
Proof.
  intros ST.
  specialize (ST _ (XOp (Note 2 1 (RGrp 1) WIRead 1)) (ex_intro _ h_stuck_c10x eq_refl) I).
  destruct ST as [_ O2]. specialize (O2 (TGrp 1)). revert O2. vm_compute. intros O2.
  specialize (O2 _ 1 eq_refl). discriminate O2.
Qed.
