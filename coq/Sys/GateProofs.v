(* Lemmas about Sys/Gate.v: the signature gate of the inter-node entry points,
   for every state (whatever multiplexing sessions exist), every request and
   every history of rehashes, sends, forged messages, deliveries and drops. *)
From Coq Require Import NArith ZArith List Bool Permutation Lia.
From Tinode Require Import Pure.Ring Pure.RingProofs Sys.Gate.
Import ListNotations.

Ltac break_step :=
  match goal with
  | |- context [if ?c then _ else _] => destruct c eqn:?
  | |- context [match ?c with Some _ => _ | None => _ end] => destruct c eqn:?
  | H : context [if ?c then _ else _] |- _ => destruct c eqn:?
  | H : context [match ?c with Some _ => _ | None => _ end] |- _ => destruct c eqn:?
  end.

Section GateProofs.
  Variable sigf : list str -> str.
  Variable getf : list str -> str -> str.

  Notation cur_sig := (cur_sig sigf).
  Notation topic_master := (topic_master sigf).
  Notation route := (route sigf).
  Notation step := (gstep sigf getf).
  Notation run := (grun sigf getf).

  (* ---------------- Cluster.TopicMaster ---------------- *)

  (* a request that is not a tear-down, from a configured node, whose signature is not the
     receiver's current one: rejected, and the state is exactly what it was - whether or
     not the multiplexing session of (topic, node) exists *)
  Lemma topic_master_refuses s m full :
    q_gone m = false -> smem (q_node m) (n_peers s) = true -> q_sig m <> cur_sig s ->
    topic_master s m full = (s, ORejectedSig).
  Proof.
    intros Hg Hn Hs. unfold Gate.topic_master. rewrite Hn, Hg. cbn [negb].
    apply seqb_neq in Hs. rewrite Hs. reflexivity.
  Qed.

  (* whatever lies behind the gate was reached with the receiver's current signature *)
  Lemma topic_master_passed_sig s m full s' o :
    topic_master s m full = (s', o) -> passed_gate o = true -> q_sig m = cur_sig s.
  Proof.
    unfold Gate.topic_master. intros H Hp.
    destruct (smem (q_node m) (n_peers s)); cbn [negb] in H; [|inversion H; subst; discriminate].
    destruct (q_gone m); [inversion H; subst; discriminate|].
    destruct (seqb (q_sig m) (cur_sig s)) eqn:E; cbn [negb] in H.
    - apply seqb_eq in E. exact E.
    - inversion H; subst; discriminate.
  Qed.

  Lemma topic_master_rejected_sig_iff s m full :
    snd (topic_master s m full) = ORejectedSig <->
    (smem (q_node m) (n_peers s) = true /\ q_gone m = false /\ q_sig m <> cur_sig s).
  Proof.
    split.
    - unfold Gate.topic_master.
      destruct (smem (q_node m) (n_peers s)); cbn [negb]; [|cbn; discriminate].
      destruct (q_gone m); [cbn; discriminate|].
      destruct (seqb (q_sig m) (cur_sig s)) eqn:E; cbn [negb].
      + intros H. exfalso. revert H. repeat break_step; cbn; discriminate.
      + intros _. apply seqb_neq in E. auto.
    - intros (Hn & Hg & Hs). rewrite (topic_master_refuses s m full Hg Hn Hs). reflexivity.
  Qed.

  (* the same signature is never turned away by the gate *)
  Lemma topic_master_accepts s m full :
    q_sig m = cur_sig s -> snd (topic_master s m full) <> ORejectedSig.
  Proof.
    intros E H. apply topic_master_rejected_sig_iff in H. destruct H as (_ & _ & H). auto.
  Qed.

  (* a refusal leaves no trace: no session is created, nothing is stopped *)
  Lemma topic_master_rejected_unchanged s m full s' o :
    topic_master s m full = (s', o) -> (o = ORejectedSig \/ o = OUnknownNode) -> s' = s.
  Proof.
    unfold Gate.topic_master. intros H Ho.
    destruct (smem (q_node m) (n_peers s)); cbn [negb] in H; [|inversion H; auto].
    destruct (q_gone m); [inversion H; subst; destruct Ho; discriminate|].
    destruct (seqb (q_sig m) (cur_sig s)); cbn [negb] in H; [|inversion H; auto].
    exfalso. revert H Ho. repeat break_step; intros H Ho; inversion H; subst; destruct Ho; discriminate.
  Qed.

  (* the decision of the gate does not read the session store, the per-node session sets
     or the hub: two states with the same ring and the same configured nodes decide alike *)
  Lemma topic_master_gate_ignores_sessions s1 s2 m full :
    n_peers s1 = n_peers s2 -> n_ring s1 = n_ring s2 ->
    (snd (topic_master s1 m full) = ORejectedSig <-> snd (topic_master s2 m full) = ORejectedSig).
  Proof.
    intros Hp Hr. rewrite !topic_master_rejected_sig_iff. unfold Gate.cur_sig. rewrite Hp, Hr. tauto.
  Qed.

  (* TopicMaster never touches the ring, the name or the configured nodes *)
  Lemma stop_msess_frame s p i : n_this (stop_msess s p i) = n_this s /\ n_peers (stop_msess s p i) = n_peers s
    /\ n_ring (stop_msess s p i) = n_ring s /\ n_topics (stop_msess s p i) = n_topics s.
  Proof. unfold stop_msess. destruct (smem i (n_store s)); cbn; auto. Qed.

  Lemma topic_master_frame s m full s' o :
    topic_master s m full = (s', o) ->
    n_this s' = n_this s /\ n_peers s' = n_peers s /\ n_ring s' = n_ring s /\ n_topics s' = n_topics s.
  Proof.
    unfold Gate.topic_master. intros H.
    destruct (smem (q_node m) (n_peers s)); cbn [negb] in H; [|inversion H; auto].
    destruct (q_gone m).
    - inversion H; subst. clear H.
      pose proof (stop_msess_frame s (q_node m) (msid_of m)) as (A & B & C & D).
      destruct (tlookup (q_rcpt m) (n_topics s)) as [ti|]; [destruct (t_chan ti)|]; auto.
      pose proof (stop_msess_frame (stop_msess s (q_node m) (msid_of m)) (q_node m)
                    (grp_to_chn (q_rcpt m) ++ dash :: q_node m)) as (A' & B' & C' & D').
      rewrite A', B', C', D'. auto.
    - destruct (seqb (q_sig m) (cur_sig s)); cbn [negb] in H; [|inversion H; auto].
      assert (F : forall s1, s1 = (if smem (msid_of m) (n_store s) then s else add_msess s (q_node m) (msid_of m)) ->
                  n_this s1 = n_this s /\ n_peers s1 = n_peers s /\ n_ring s1 = n_ring s /\ n_topics s1 = n_topics s).
      { intros s1 ->. destruct (smem (msid_of m) (n_store s)); cbn; auto. }
      specialize (F _ eq_refl).
      revert H. repeat break_step; intros H; inversion H; subst; exact F.
  Qed.

  (* ---------------- Cluster.Route ---------------- *)
  Lemma route_rejected_sig_iff s r full : route s r full = ORejectedSig <-> r_sig r <> cur_sig s.
  Proof.
    unfold Gate.route. destruct (seqb (r_sig r) (cur_sig s)) eqn:E; cbn [negb].
    - apply seqb_eq in E. split; [|tauto]. repeat break_step; discriminate.
    - apply seqb_neq in E. tauto.
  Qed.

  Lemma route_passed_sig s r full : passed_gate (route s r full) = true -> r_sig r = cur_sig s.
  Proof.
    unfold Gate.route. destruct (seqb (r_sig r) (cur_sig s)) eqn:E; cbn [negb].
    - intros _. apply seqb_eq in E. exact E.
    - discriminate.
  Qed.

  (* ---------------- nodes of the cluster ---------------- *)
  Lemma find_node_name i l s : find_node i l = Some s -> n_this s = i.
  Proof.
    induction l as [|a l IH]; cbn; [discriminate|].
    destruct (seqb i (n_this a)) eqn:E; [|exact IH].
    intros H; inversion H; subst. apply seqb_eq in E. auto.
  Qed.

  Lemma find_set_same s' l s : find_node (n_this s') l = Some s -> find_node (n_this s') (set_node s' l) = Some s'.
  Proof.
    induction l as [|a l IH]; cbn; [discriminate|].
    destruct (seqb (n_this s') (n_this a)) eqn:E.
    - intros _. cbn. rewrite (proj2 (seqb_eq _ _) eq_refl). reflexivity.
    - intros H. cbn. rewrite E. auto.
  Qed.

  Lemma find_set_other j s' l : j <> n_this s' -> find_node j (set_node s' l) = find_node j l.
  Proof.
    intros Hne. induction l as [|a l IH]; cbn; [reflexivity|].
    destruct (seqb (n_this s') (n_this a)) eqn:E.
    - apply seqb_eq in E. cbn. apply seqb_neq in Hne. rewrite Hne, <- E, Hne. reflexivity.
    - cbn. rewrite IH. reflexivity.
  Qed.

  (* writing back a state with the same name and ring does not change anybody's ring *)
  Lemma find_set_ring j s0 s' l s1 s2 :
    find_node (n_this s') l = Some s0 -> n_ring s' = n_ring s0 ->
    find_node j l = Some s1 -> find_node j (set_node s' l) = Some s2 -> n_ring s2 = n_ring s1.
  Proof.
    intros H0 Hr H1 H2.
    destruct (seqb j (n_this s')) eqn:E.
    - apply seqb_eq in E. subst j. rewrite (find_set_same _ _ _ H0) in H2.
      rewrite H0 in H1. inversion H1; inversion H2; subst. auto.
    - apply seqb_neq in E. rewrite (find_set_other _ _ _ E) in H2. rewrite H1 in H2. inversion H2; auto.
  Qed.

  (* ---------------- histories ---------------- *)

  (* THE GATE, for the state reached by any history: a message that carries a signature and
     got past the gate of its receiver carries the receiver's signature of that moment *)
  Lemma deliver_gate n k full f s o b sg :
    nth_error (flight n) k = Some f -> find_node (msg_to (f_msg f)) (nodes n) = Some s ->
    snd (step n (EDeliver k full)) = ObDelivered o b -> passed_gate o = true ->
    msg_sig (f_msg f) = Some sg -> sg = cur_sig s.
  Proof.
    intros Hk Hs Hst Hp Hsg. cbn [Gate.gstep] in Hst. rewrite Hk, Hs in Hst.
    destruct (f_msg f) as [to q|to r|to p]; cbn in Hsg; inversion Hsg; subst; clear Hsg.
    - destruct (topic_master s q full) as [s' o'] eqn:E. cbn in Hst. inversion Hst; subst.
      exact (topic_master_passed_sig _ _ _ _ _ E Hp).
    - cbn in Hst. inversion Hst; subst. exact (route_passed_sig _ _ _ Hp).
  Qed.

  (* ... and conversely: with another signature a request (not a tear-down, from a configured
     node) or a route message is rejected and the receiver's state is untouched *)
  Lemma deliver_refused n k full f s :
    nth_error (flight n) k = Some f -> find_node (msg_to (f_msg f)) (nodes n) = Some s ->
    match f_msg f with
    | MReq _ q => q_gone q = false /\ smem (q_node q) (n_peers s) = true /\ q_sig q <> cur_sig s
    | MRoute _ r => r_sig r <> cur_sig s
    | MResp _ _ => False
    end ->
    exists b, snd (step n (EDeliver k full)) = ObDelivered ORejectedSig b /\
              find_node (msg_to (f_msg f)) (nodes (fst (step n (EDeliver k full)))) = Some s.
  Proof.
    intros Hk Hs Hm. cbn [Gate.gstep]. rewrite Hk, Hs.
    destruct (f_msg f) as [to q|to r|to p] eqn:Em; cbn [msg_to] in *.
    - destruct Hm as (Hg & Hn & Hne). rewrite (topic_master_refuses s q full Hg Hn Hne). cbn.
      eexists; split; [reflexivity|].
      pose proof (find_node_name _ _ _ Hs) as Hnm. rewrite <- Hnm. apply find_set_same with (s := s).
      rewrite Hnm. exact Hs.
    - apply (route_rejected_sig_iff s r full) in Hm. rewrite Hm. cbn. eexists; split; [reflexivity|exact Hs].
    - contradiction.
  Qed.

  (* honest messages carry the signature of the ring their sender had when it made them *)
  Definition honest_msg (f : flying) : Prop :=
    forall L, f_origin f = Some L -> msg_sig (f_msg f) = Some (sigf L).
  Definition honest (n : net) : Prop := Forall honest_msg (flight n).

  Lemma remove_nth_Forall {A} (P : A -> Prop) k : forall l, Forall P l -> Forall P (gremove_nth k l).
  Proof.
    induction k as [|k IH]; intros [|a l] H; cbn; auto; inversion H; subst; auto.
  Qed.

  Lemma send_honest n s m : honest n -> msg_sig m = Some (cur_sig s) -> honest (send n s m).
  Proof.
    intros H Hm. unfold honest, send. cbn. apply Forall_app. split; [exact H|].
    constructor; [|constructor]. intros L HL. cbn in HL. inversion HL; subst. exact Hm.
  Qed.

  Lemma step_honest n e : honest n -> honest (fst (step n e)).
  Proof.
    intros H. destruct e; cbn [Gate.gstep].
    - destruct (find_node i (nodes n)); cbn; exact H.
    - destruct (find_node i (nodes n)); cbn; exact H.
    - destruct (find_node i (nodes n)); cbn; exact H.
    - destruct (find_node i (nodes n)) as [s|]; [|exact H].
      destruct (node_for getf s topic); [|exact H]. cbn [fst]. apply send_honest; auto.
    - destruct (find_node i (nodes n)) as [s|]; [|exact H].
      destruct (node_for getf s topic); [|exact H]. cbn [fst]. apply send_honest; auto.
    - destruct (find_node i (nodes n)) as [s|]; [|exact H].
      destruct (node_for getf s topic); [|exact H]. cbn [fst]. apply send_honest; auto.
    - cbn. unfold honest. cbn. apply Forall_app. split; [exact H|].
      constructor; [|constructor]. intros L HL. cbn in HL. discriminate.
    - destruct (nth_error (flight n) k); [|exact H].
      assert (Hr : honest (mkNet (nodes n) (gremove_nth k (flight n)))) by (apply remove_nth_Forall; exact H).
      destruct (find_node (msg_to (f_msg f)) (nodes n)); [|exact Hr].
      destruct (f_msg f); [destruct (Gate.topic_master sigf n0 q full)| |]; cbn; apply remove_nth_Forall; exact H.
    - cbn. apply remove_nth_Forall. exact H.
  Qed.

  Lemma run_fst_app n evs : forall evs', fst (run n (evs ++ evs')) = fst (run (fst (run n evs)) evs').
  Proof.
    revert n. induction evs as [|e evs IH]; intros n evs'; cbn [Gate.grun app].
    - reflexivity.
    - destruct (Gate.gstep sigf getf n e) as [n1 o] eqn:E1. specialize (IH n1 evs').
      destruct (Gate.grun sigf getf n1 (evs ++ evs')) as [n2 os] eqn:E2.
      destruct (Gate.grun sigf getf n1 evs) as [n3 os3] eqn:E3. cbn [fst] in *. exact IH.
  Qed.

  Lemma run_honest n evs : honest n -> honest (fst (run n evs)).
  Proof.
    revert n. induction evs as [|e evs IH]; intros n H; cbn [Gate.grun]; [exact H|].
    destruct (Gate.gstep sigf getf n e) as [n1 o] eqn:E1.
    specialize (IH n1). destruct (Gate.grun sigf getf n1 evs) as [n2 os] eqn:E2. cbn [fst] in *.
    apply IH. pose proof (step_honest n e H) as H1. rewrite E1 in H1. exact H1.
  Qed.

  Lemma init_honest names : honest (init_net names).
  Proof. constructor. Qed.

  (* END TO END, every history: a message an honest sender made under the ring L, delivered
     at any later time to a receiver whose ring is then R, gets past the gate only if
     Signature(L) = Signature(R) *)
  Lemma history_gate n0 evs k full f s o b L :
    honest n0 ->
    let n := fst (run n0 evs) in
    nth_error (flight n) k = Some f -> find_node (msg_to (f_msg f)) (nodes n) = Some s ->
    snd (step n (EDeliver k full)) = ObDelivered o b -> passed_gate o = true ->
    f_origin f = Some L -> sigf L = sigf (n_ring s).
  Proof.
    intros H0 n Hk Hs Hst Hp HL.
    pose proof (run_honest n0 evs H0) as Hh. fold n in Hh.
    unfold honest in Hh. rewrite Forall_forall in Hh.
    pose proof (Hh f (nth_error_In _ _ Hk) L HL) as Hsg.
    exact (deliver_gate n k full f s o b _ Hk Hs Hst Hp Hsg).
  Qed.

  (* the ring of a node is the node list of its last rehash: a rehash installs its list ... *)
  Lemma rehash_installs n i l s s' :
    find_node i (nodes n) = Some s ->
    find_node i (nodes (fst (step n (ERehash i (Some l))))) = Some s' -> n_ring s' = l.
  Proof.
    intros Hs. cbn [Gate.gstep]. rewrite Hs. cbn [fst nodes].
    pose proof (find_node_name _ _ _ Hs) as Hn.
    assert (E : n_this (rehash s (Some l)) = i) by (cbn; exact Hn).
    rewrite <- E at 1. rewrite (find_set_same (rehash s (Some l)) (nodes n) s) by (rewrite E; exact Hs).
    intros H; inversion H; subst. reflexivity.
  Qed.

  (* ... and no other event changes it (deliveries, sends, forged messages, hub changes, and
     rehashes of other nodes leave it alone) *)
  Lemma ring_changes_only_by_rehash n e j s s' :
    find_node j (nodes n) = Some s -> find_node j (nodes (fst (step n e))) = Some s' ->
    (forall ns, e <> ERehash j ns) -> n_ring s' = n_ring s.
  Proof.
    intros Hs Hs' Hne.
    assert (Same : nodes (fst (step n e)) = nodes n -> n_ring s' = n_ring s).
    { intros E. rewrite E, Hs in Hs'. inversion Hs'; auto. }
    destruct e; cbn [Gate.gstep] in *.
    - destruct (find_node i (nodes n)) as [si|] eqn:Ei; [|apply Same; reflexivity].
      cbn [fst nodes] in Hs'. pose proof (find_node_name _ _ _ Ei) as Hn.
      destruct (seqb j i) eqn:Eji.
      + apply seqb_eq in Eji. subst j. exfalso. exact (Hne ns eq_refl).
      + apply seqb_neq in Eji. rewrite find_set_other in Hs' by (destruct ns; cbn; congruence).
        rewrite Hs in Hs'. inversion Hs'; auto.
    - destruct (find_node i (nodes n)) as [si|] eqn:Ei; [|apply Same; reflexivity].
      cbn [fst nodes] in Hs'. pose proof (find_node_name _ _ _ Ei) as Hn.
      eapply find_set_ring with (s0 := si); [| |exact Hs|exact Hs']; cbn; [rewrite Hn; exact Ei|reflexivity].
    - destruct (find_node i (nodes n)) as [si|] eqn:Ei; [|apply Same; reflexivity].
      cbn [fst nodes] in Hs'. pose proof (find_node_name _ _ _ Ei) as Hn.
      eapply find_set_ring with (s0 := si); [| |exact Hs|exact Hs']; cbn; [rewrite Hn; exact Ei|reflexivity].
    - apply Same. destruct (find_node i (nodes n)); [destruct (node_for getf n0 topic)|]; reflexivity.
    - apply Same. destruct (find_node i (nodes n)); [destruct (node_for getf n0 topic)|]; reflexivity.
    - apply Same. destruct (find_node i (nodes n)); [destruct (node_for getf n0 topic)|]; reflexivity.
    - apply Same. reflexivity.
    - destruct (nth_error (flight n) k) as [f|]; [|apply Same; reflexivity].
      destruct (find_node (msg_to (f_msg f)) (nodes n)) as [sr|] eqn:Er; [|apply Same; reflexivity].
      destruct (f_msg f) as [to q|to r|to p]; [|apply Same; reflexivity|apply Same; reflexivity].
      destruct (Gate.topic_master sigf sr q full) as [sr' o] eqn:Et. cbn [fst nodes] in Hs'.
      pose proof (topic_master_frame _ _ _ _ _ Et) as (A & _ & C & _).
      pose proof (find_node_name _ _ _ Er) as Hn.
      eapply find_set_ring with (s0 := sr); [| |exact Hs|exact Hs']; [rewrite A, Hn; exact Er|exact C].
    - apply Same. reflexivity.
  Qed.
End GateProofs.

(* ---------------- "every entry point is gated" is false as stated ---------------- *)

(* full statement: whatever is handed to a hub or a topic by an inter-node entry point was
   stamped with the receiver's current signature *)
Definition all_entry_points_gated_statement : Prop :=
  forall (sigf : list str -> str) (getf : list str -> str -> str) n k full f s d b,
    nth_error (flight n) k = Some f -> find_node (msg_to (f_msg f)) (nodes n) = Some s ->
    snd (gstep sigf getf n (EDeliver k full)) = ObDelivered (ODelivered d) b ->
    msg_sig (f_msg f) = Some (cur_sig sigf s).

(* witness: node "b" (ring [b]) receives a master response for its proxy topic "t" from a
   node with any other ring: Cluster.TopicProxy has no signature to look at *)
Definition w_b : str := [98]%N.
Definition w_t : str := [116]%N.
Definition w_node : nstate := mkN w_b [[97]%N] [w_b] [] [] [(w_t, mkT false false true)].
Definition w_net : net := mkNet [w_node] [mkF (MResp w_b (mkResp w_t true)) None].

Lemma all_entry_points_gated_refuted : ~ all_entry_points_gated_statement.
Proof.
  intros H.
  specialize (H (fun l => concat l) (fun _ _ => []) w_net 0 false
                (mkF (MResp w_b (mkResp w_t true)) None) w_node DProxy false eq_refl eq_refl eq_refl).
  cbn in H. discriminate.
Qed.

(* what holds: every entry point whose message has a Signature field (TopicMaster, Route) *)
Lemma all_entry_points_gated_partial :
  forall (sigf : list str -> str) (getf : list str -> str -> str) n k full f s d b,
    msg_sig (f_msg f) <> None ->
    nth_error (flight n) k = Some f -> find_node (msg_to (f_msg f)) (nodes n) = Some s ->
    snd (gstep sigf getf n (EDeliver k full)) = ObDelivered (ODelivered d) b ->
    msg_sig (f_msg f) = Some (cur_sig sigf s).
Proof.
  intros sigf getf n k full f s d b Hsome Hk Hs Hst.
  destruct (msg_sig (f_msg f)) as [sg|] eqn:E; [|congruence].
  f_equal. exact (deliver_gate sigf getf n k full f s (ODelivered d) b sg Hk Hs Hst eq_refl E).
Qed.

(* "every request with another signature is rejected" is false as stated too: the proxy's
   tear-down notice (Gone, sent by topicProxyGone) is honoured before the signature is looked at *)
Definition every_mismatch_rejected_statement : Prop :=
  forall (sigf : list str -> str) s m full,
    smem (q_node m) (n_peers s) = true -> q_sig m <> cur_sig sigf s ->
    snd (topic_master sigf s m full) = ORejectedSig.

Lemma every_mismatch_rejected_refuted : ~ every_mismatch_rejected_statement.
Proof.
  intros H.
  specialize (H (fun l => concat l) w_node (mkReq [97]%N [] ProxyReqLeave w_t None false true) false eq_refl).
  cbn in H. assert (E : OGone = ORejectedSig) by (apply H; discriminate). discriminate.
Qed.

(* ---------------- the ring of Pure/Ring.v as [sigf] ---------------- *)
Section WithRing.
  Variable hash : str -> N.
  Variable digest : str -> str.
  Variable reps : Z.

  Definition ring_sigf (ns : list str) : str := ring_signature (ring_of hash digest reps ns).
  Definition ring_getf (ns : list str) (key : str) : str := ring_get hash (ring_of hash digest reps ns) key.
  Definition ring_pre (ns : list str) : str := sig_preimage (rkeys (ring_of hash digest reps ns)).

  Lemma ring_sigf_digest ns : ring_sigf ns = digest (ring_pre ns).
  Proof. unfold ring_sigf, ring_pre, ring_of. apply ring_add_signature. Qed.

  (* nodes whose rings differ refuse each other: an honest message made under ring L gets
     past the gate of a receiver with ring R only if the two rings have the same signature
     pre-image (as far as the digest tells these two pre-images apart) *)
  Lemma history_gate_rings n0 evs k full f s o b L :
    honest ring_sigf n0 ->
    let n := fst (grun ring_sigf ring_getf n0 evs) in
    nth_error (flight n) k = Some f -> find_node (msg_to (f_msg f)) (nodes n) = Some s ->
    snd (gstep ring_sigf ring_getf n (EDeliver k full)) = ObDelivered o b -> passed_gate o = true ->
    f_origin f = Some L ->
    (digest (ring_pre L) = digest (ring_pre (n_ring s)) -> ring_pre L = ring_pre (n_ring s)) ->
    ring_pre L = ring_pre (n_ring s).
  Proof.
    intros H0 n Hk Hs Hst Hp HL Hinj. apply Hinj. rewrite <- !ring_sigf_digest.
    exact (history_gate ring_sigf ring_getf n0 evs k full f s o b L H0 Hk Hs Hst Hp HL).
  Qed.

  (* the refusal itself, in any state (any set of multiplexing sessions): rings with different
     pre-images, no digest collision on them -> the request is rejected and nothing changes *)
  Lemma rings_differ_refused s m full L :
    q_gone m = false -> smem (q_node m) (n_peers s) = true ->
    q_sig m = ring_sigf L ->
    ring_pre L <> ring_pre (n_ring s) ->
    (digest (ring_pre L) = digest (ring_pre (n_ring s)) -> ring_pre L = ring_pre (n_ring s)) ->
    topic_master ring_sigf s m full = (s, ORejectedSig).
  Proof.
    intros Hg Hn Hq Hne Hinj. apply topic_master_refuses; auto.
    rewrite Hq. unfold cur_sig. rewrite !ring_sigf_digest. intros E. exact (Hne (Hinj E)).
  Qed.

  Lemma rings_differ_route_refused s r full L :
    r_sig r = ring_sigf L ->
    ring_pre L <> ring_pre (n_ring s) ->
    (digest (ring_pre L) = digest (ring_pre (n_ring s)) -> ring_pre L = ring_pre (n_ring s)) ->
    route ring_sigf s r full = ORejectedSig.
  Proof.
    intros Hq Hne Hinj. apply route_rejected_sig_iff.
    rewrite Hq. unfold cur_sig. rewrite !ring_sigf_digest. intros E. exact (Hne (Hinj E)).
  Qed.

  (* the same live nodes, listed in any order on the two sides: never refused *)
  Lemma same_nodes_accepted s m full L :
    Permutation L (n_ring s) -> q_sig m = ring_sigf L ->
    snd (topic_master ring_sigf s m full) <> ORejectedSig.
  Proof.
    intros HP Hq. apply topic_master_accepts. rewrite Hq. unfold cur_sig, ring_sigf.
    rewrite (ring_perm hash digest reps _ _ HP). reflexivity.
  Qed.
End WithRing.

(* ---------------- the model computes: the stale-signature scenario ---------------- *)
(* nodes a, b, c; b's proxy sends a request for topic "grpT" to its master a (first contact,
   equal rings: delivered, multiplexing session created); a rehashes without c; b's next
   request, made under the old ring, is rejected although the session exists; b rehashes to
   the same two nodes in the other order; its next request is delivered *)
Definition x_a : str := [97]%N.
Definition x_b : str := [98]%N.
Definition x_c : str := [99]%N.
Definition x_t : str := [103; 114; 112; 84]%N.
Definition x_sigf (l : list str) : str := [N.of_nat (length l)].
Definition x_getf (_ : list str) (_ : str) : str := x_a.
Definition x_meta : gevent := ESendMaster x_b ProxyReqMeta x_t (Some x_t) true.
Definition x_evs : list gevent :=
  [ETopicPut x_a x_t (mkT false true false);
   x_meta; EDeliver 0 false;
   ERehash x_a (Some [x_a; x_b]);
   x_meta; EDeliver 0 false;
   ERehash x_b (Some [x_b; x_a]);
   x_meta; EDeliver 0 false].

Lemma stale_signature_example :
  snd (grun x_sigf x_getf (init_net [x_a; x_b; x_c]) x_evs) =
  [ObNone;
   ObSent x_a [3%N]; ObDelivered (ODelivered DMeta) true;
   ObRehashed [2%N];
   ObSent x_a [3%N]; ObDelivered ORejectedSig true;
   ObRehashed [2%N];
   ObSent x_a [2%N]; ObDelivered (ODelivered DMeta) true].
Proof. vm_compute. reflexivity. Qed.
