(* Executable model of one group topic (non-channel) of tinode/chat: the store
   rows it owns (store contract taken from db/mysql/adapter.go through the
   store mappers of store/store.go), the in-memory cache of server/topic.go
   (perUser, lastID, delID, owner, attached sessions) and the session-level
   routing of server/session.go for requests addressed to that topic.

   One [step] = one client request handled to quiescence.  Every store-mapper
   call is a sequence of adapter calls; a fault plan makes the k-th adapter
   call of the request fail (FailAt) or that call and all later ones (CrashAt).

   Definitions only.  Proofs are in Sys/Topic*Proofs.v. *)
From Coq Require Import ZArith NArith List Bool.
From Tinode Require Import Base.Util Pure.Acs.
Import ListNotations.
Open Scope Z_scope.

(* ------------------------------------------------------------------ *)
(* association lists keyed by N                                         *)
Section Assoc.
  Context {A : Type}.
  Fixpoint alookup (k : N) (l : list (N * A)) : option A :=
    match l with
    | [] => None
    | (k', v) :: r => if N.eqb k k' then Some v else alookup k r
    end.
  Fixpoint aset (k : N) (v : A) (l : list (N * A)) : list (N * A) :=
    match l with
    | [] => [(k, v)]
    | (k', v') :: r => if N.eqb k k' then (k, v) :: r else (k', v') :: aset k v r
    end.
  Fixpoint aremove (k : N) (l : list (N * A)) : list (N * A) :=
    match l with
    | [] => []
    | (k', v') :: r => if N.eqb k k' then aremove k r else (k', v') :: aremove k r
    end.
End Assoc.

(* mode bit tests (types.AccessMode.IsXxx) *)
Definition mJ := 1%N. Definition mR := 2%N. Definition mW := 4%N. Definition mP := 8%N.
Definition mA := 16%N. Definition mS := 32%N. Definition mD := 64%N. Definition mO := 128%N.
Definition has (m bit : N) : bool := negb (N.land m bit =? 0)%N.
Definition is_joiner m := has m mJ.   Definition is_reader m := has m mR.
Definition is_writer m := has m mW.   Definition is_presencer m := has m mP.
Definition is_owner m := has m mO.    Definition is_deleter m := has m mD.
Definition is_admin m := has m mO || has m mA.
Definition is_sharer m := is_admin m || has m mS.
Definition ModeCFull : N := 255%N.
Definition ModeCAuth : N := 63%N.   (* JRWPAS *)

(* ------------------------------------------------------------------ *)
(* store rows                                                           *)
Record subrow := mkSub {
  s_user : N; s_want : N; s_given : N; s_read : Z; s_recv : Z; s_delid : Z; s_deleted : bool }.
Record msgrow := mkMsg { m_seq : Z; m_from : N; m_content : N; m_delid : Z }.
Record delrow := mkDel { d_delid : Z; d_for : N; d_low : Z; d_hi : Z }.   (* one row per range, hi exclusive *)
Record store := mkStore {
  t_exists : bool; t_seqid : Z; t_delid : Z; t_owner : N; t_auth : N; t_anon : N;
  subs : list subrow; msgs : list msgrow; dellog : list delrow;
  users : list (N * N)   (* known accounts: uid -> default auth access (user.Access.Auth) *) }.

Definition st_subs (f : list subrow -> list subrow) (s : store) : store :=
  mkStore (t_exists s) (t_seqid s) (t_delid s) (t_owner s) (t_auth s) (t_anon s) (f (subs s)) (msgs s) (dellog s) (users s).
Definition st_msgs (f : list msgrow -> list msgrow) (s : store) : store :=
  mkStore (t_exists s) (t_seqid s) (t_delid s) (t_owner s) (t_auth s) (t_anon s) (subs s) (f (msgs s)) (dellog s) (users s).
Definition st_dellog (f : list delrow -> list delrow) (s : store) : store :=
  mkStore (t_exists s) (t_seqid s) (t_delid s) (t_owner s) (t_auth s) (t_anon s) (subs s) (msgs s) (f (dellog s)) (users s).
Definition st_seqid (v : Z) (s : store) : store :=
  mkStore (t_exists s) v (t_delid s) (t_owner s) (t_auth s) (t_anon s) (subs s) (msgs s) (dellog s) (users s).
Definition st_delid (v : Z) (s : store) : store :=
  mkStore (t_exists s) (t_seqid s) v (t_owner s) (t_auth s) (t_anon s) (subs s) (msgs s) (dellog s) (users s).
Definition st_owner (v : N) (s : store) : store :=
  mkStore (t_exists s) (t_seqid s) (t_delid s) v (t_auth s) (t_anon s) (subs s) (msgs s) (dellog s) (users s).

Definition find_sub (u : N) (l : list subrow) : option subrow :=
  find (fun r => N.eqb (s_user r) u) l.
Definition upd_sub (u : N) (f : subrow -> subrow) (l : list subrow) : list subrow :=
  map (fun r => if N.eqb (s_user r) u then f r else r) l.

(* ------------------------------------------------------------------ *)
(* adapter primitives (the store contract)                              *)

(* SubscriptionGet(topic, user, keepDeleted) *)
Definition ad_sub_get (s : store) (u : N) (keep_deleted : bool) : option subrow :=
  match find_sub u (subs s) with
  | Some r => if s_deleted r && negb keep_deleted then None else Some r
  | None => None
  end.

(* TopicShare -> createSubscription(undelete=true): insert, or on duplicate key
   resurrect the row with the new modes and delid=recv=read=0; if the effective
   mode has O the topic's owner column is overwritten. *)
Definition ad_sub_create (s : store) (u want given : N) : store :=
  let row := mkSub u want given 0 0 0 false in
  let s1 := match find_sub u (subs s) with
            | Some _ => st_subs (upd_sub u (fun _ => row)) s
            | None => st_subs (fun l => l ++ [row]) s
            end in
  if is_owner (N.land want given) then st_owner u s1 else s1.

(* SubsUpdate(topic, user, map): user = 0 means every subscription of the topic;
   soft-deleted rows are not excluded. *)
Record subupd := mkUpd { u_want : option N; u_given : option N; u_read : option Z; u_recv : option Z; u_delid : option Z }.
Definition no_upd := mkUpd None None None None None.
Definition apply_upd (up : subupd) (r : subrow) : subrow :=
  mkSub (s_user r)
        (match u_want up with Some v => v | None => s_want r end)
        (match u_given up with Some v => v | None => s_given r end)
        (match u_read up with Some v => v | None => s_read r end)
        (match u_recv up with Some v => v | None => s_recv r end)
        (match u_delid up with Some v => v | None => s_delid r end)
        (s_deleted r).
Definition ad_subs_update (s : store) (u : N) (up : subupd) : store :=
  if (u =? 0)%N then st_subs (map (apply_upd up)) s
  else st_subs (upd_sub u (apply_upd up)) s.

(* SubsDelete: soft delete; ErrNotFound (None) when missing or already deleted;
   the user's soft-deletion log rows are removed. *)
Definition ad_subs_delete (s : store) (u : N) : option store :=
  match ad_sub_get s u false with
  | None => None
  | Some _ =>
    Some (st_dellog (filter (fun d => negb (N.eqb (d_for d) u)))
           (st_subs (upd_sub u (fun r => mkSub (s_user r) (s_want r) (s_given r) (s_read r) (s_recv r) (s_delid r) true)) s))
  end.

(* MessageSave: unique (topic, seqid) *)
Definition ad_msg_save (s : store) (seq : Z) (from content : N) : option store :=
  if existsb (fun m => m_seq m =? seq) (msgs s) then None
  else Some (st_msgs (fun l => l ++ [mkMsg seq from content 0]) s).

Definition in_range (x lo hi : Z) : bool := (lo <=? x) && (x <? hi).

(* MessageGetAll(topic, forUser, since, before, limit): live rows not soft-deleted
   for the user, since <= seq < before (0 = open), newest first, at most limit
   (0 or above the maximum = the adapter's maximum). *)
Definition max_results : Z := 1024.         (* adapter maxResults *)
Definition max_msg_results : Z := 100.      (* adapter maxMessageResults *)
Fixpoint insert_desc (m : msgrow) (l : list msgrow) : list msgrow :=
  match l with
  | [] => [m]
  | x :: r => if m_seq x <? m_seq m then m :: l else x :: insert_desc m r
  end.
Definition sort_desc (l : list msgrow) : list msgrow := fold_right insert_desc [] l.
Definition eff_limit (mx limit : Z) : Z :=
  if (0 <? limit) && (limit <? mx) then limit else mx.
Definition ad_msg_get_all (s : store) (u : N) (since before limit : Z) : list msgrow :=
  let lower := if 0 <? since then since else 0 in
  let visible m :=
      (m_delid m =? 0) && (lower <=? m_seq m) &&
      (if 0 <? before then m_seq m <=? before - 1 else true) &&
      negb (existsb (fun d => N.eqb (d_for d) u && in_range (m_seq m) (d_low d) (d_hi d)) (dellog s)) in
  firstn (Z.to_nat (eff_limit max_msg_results limit)) (sort_desc (filter visible (msgs s))).

(* MessageDeleteList(topic, toDel): one dellog row per range (hi = 0 stored as
   low+1); hard (for = 0): live rows in the ranges get delid and lose content. *)
Definition norm_hi (lo hi : Z) : Z := if hi =? 0 then lo + 1 else hi.
Definition ad_msg_delete_list (s : store) (delid : Z) (for_user : N) (ranges : list (Z * Z)) : store :=
  let rows := map (fun r => mkDel delid for_user (fst r) (norm_hi (fst r) (snd r))) ranges in
  let s1 := st_dellog (fun l => l ++ rows) s in
  if (for_user =? 0)%N then
    st_msgs (map (fun m =>
      if (m_delid m =? 0) && existsb (fun r => in_range (m_seq m) (fst r) (norm_hi (fst r) (snd r))) ranges
      then mkMsg (m_seq m) (m_from m) 0%N delid else m)) s1
  else s1.

(* MessageGetDeleted(topic, forUser, since, before, limit): dellog rows for 0 or
   the user with since <= delid <= before-1 (before <= 1 = open), ordered by delid,
   at most limit rows; a row with hi <= low+1 is reported as a single id (hi=0). *)
Fixpoint insert_del (d : delrow) (l : list delrow) : list delrow :=
  match l with
  | [] => [d]
  | x :: r => if d_delid d <? d_delid x then d :: l else x :: insert_del d r
  end.
Definition sort_del (l : list delrow) : list delrow := fold_left (fun acc d => insert_del d acc) l [].
Definition ad_msg_get_deleted (s : store) (u : N) (since before limit : Z) : list delrow :=
  let lower := if 0 <? since then since else 0 in
  let sel d := ((d_for d =? 0)%N || N.eqb (d_for d) u) && (lower <=? d_delid d) &&
               (if 1 <? before then d_delid d <=? before - 1 else true) in
  firstn (Z.to_nat (eff_limit max_results limit)) (sort_del (filter sel (dellog s))).

(* ------------------------------------------------------------------ *)
(* fault plan                                                           *)
Inductive fault := NoFault | FailAt (k : nat) | CrashAt (k : nat).
(* does the n-th adapter call (1-based) of this request fail? *)
Definition fails (f : fault) (n : nat) : bool :=
  match f with
  | NoFault => false
  | FailAt k => Nat.eqb n k
  | CrashAt k => Nat.leb k n
  end.

(* ------------------------------------------------------------------ *)
(* cache (Topic struct)                                                 *)
Record pud := mkPud {
  p_want : N; p_given : N; p_read : Z; p_recv : Z; p_delid : Z; p_online : Z }.
Record cache := mkCache {
  c_lastid : Z; c_delid : Z; c_owner : N; c_auth : N; c_anon : N;
  c_users : list (N * pud);
  c_sess : list (N * (N * bool))     (* attached sessions: sid -> (acting uid, background) *) }.
Definition c_set_users (f : list (N * pud) -> list (N * pud)) (c : cache) : cache :=
  mkCache (c_lastid c) (c_delid c) (c_owner c) (c_auth c) (c_anon c) (f (c_users c)) (c_sess c).
Definition c_set_sess (f : list (N * (N * bool)) -> list (N * (N * bool))) (c : cache) : cache :=
  mkCache (c_lastid c) (c_delid c) (c_owner c) (c_auth c) (c_anon c) (c_users c) (f (c_sess c)).
Definition c_set_lastid (v : Z) (c : cache) : cache :=
  mkCache v (c_delid c) (c_owner c) (c_auth c) (c_anon c) (c_users c) (c_sess c).
Definition c_set_delid (v : Z) (c : cache) : cache :=
  mkCache (c_lastid c) v (c_owner c) (c_auth c) (c_anon c) (c_users c) (c_sess c).
Definition c_set_owner (v : N) (c : cache) : cache :=
  mkCache (c_lastid c) (c_delid c) v (c_auth c) (c_anon c) (c_users c) (c_sess c).

Definition blank_pud := mkPud 0 0 0 0 0 0.
Definition get_pud (c : cache) (u : N) : pud :=
  match alookup u (c_users c) with Some p => p | None => blank_pud end.
Definition pud_mode (p : pud) : N := N.land (p_given p) (p_want p).
Definition user_mode (c : cache) (u : N) : N := pud_mode (get_pud c u).

Definition p_set_online (v : Z) (p : pud) := mkPud (p_want p) (p_given p) (p_read p) (p_recv p) (p_delid p) v.
Definition p_set_modes (w g : N) (p : pud) := mkPud w g (p_read p) (p_recv p) (p_delid p) (p_online p).
Definition p_set_marks (rd rc : Z) (p : pud) := mkPud (p_want p) (p_given p) rd rc (p_delid p) (p_online p).
Definition p_set_delid (v : Z) (p : pud) := mkPud (p_want p) (p_given p) (p_read p) (p_recv p) v (p_online p).

(* loadSubscribers + initTopicGrp: the cache built from the store.  The owner is
   the (last) subscriber whose effective mode has O. *)
Definition load_users (rows : list subrow) : list (N * pud) :=
  fold_left (fun acc r =>
    if s_deleted r then acc
    else aset (s_user r) (mkPud (s_want r) (s_given r) (s_read r) (s_recv r) (s_delid r) 0) acc) rows [].
Definition load_owner (rows : list subrow) : N :=
  fold_left (fun o r => if negb (s_deleted r) && is_owner (N.land (s_given r) (s_want r)) then s_user r else o) rows 0%N.
Definition load (s : store) : cache :=
  mkCache (t_seqid s) (t_delid s) (load_owner (subs s)) (t_auth s) (t_anon s) (load_users (subs s)) [].

(* ------------------------------------------------------------------ *)
(* frames (projected observables)                                       *)
Inductive frame :=
| Ctrl (code : Z) (params : list (N * Z))           (* params: small keyed ints, see P_* *)
| CtrlAcs (code : Z) (user want given : N)          (* 200 with params.acs (+ user) *)
| Data (seq : Z) (from : N) (content : N)
| MetaDesc (want given : N) (seq read recv del : Z) (reader : bool)
| MetaSub (rows : list (N * (N * N) * (Z * Z * Z)))  (* user, (want, given), (read, recv, del) ; acs 0/0 when hidden *)
| MetaDel (delid : Z) (ranges : list (Z * Z))
| Info (what : N) (from : N) (seq : Z)
| Evicted (unsub : bool)
| Push (seq : Z) (from : N) (rcpt : list N).   (* push receipt handed to the user cache; "session" 0 *)
Definition P_seq := 1%N. Definition P_del := 2%N. Definition P_count := 3%N. Definition P_what := 4%N.
Definition out := list (N * frame).   (* (session id, frame) in emission order *)

(* note kinds *)
Definition K_read := 1%N. Definition K_recv := 2%N. Definition K_kp := 3%N. Definition K_other := 9%N.

Definition max_subs : Z := 4.   (* globals.maxSubscriberCount as set by the driver *)
Definition max_delete_count : Z := 1024. (* defaultMaxDeleteCount *)

(* ------------------------------------------------------------------ *)
(* state and requests                                                   *)
Record state := mkState {
  st : store;
  ca : option cache;           (* None = topic not loaded *)
  ncalls : nat                 (* adapter calls made so far by the current request *) }.

Inductive op :=
| OSub (sid : N) (want : list N) (bkg : bool)
| OLeave (sid : N) (unsub : bool)
| OPub (sid : N) (content : N) (noecho : bool)
| ONote (sid : N) (what : N) (seq : Z)
| OGetData (sid : N) (since before limit : Z)
| OGetDesc (sid : N)
| OGetSub (sid : N)
| OGetDel (sid : N) (since before limit : Z)
| ODelMsg (sid : N) (ranges : list (Z * Z)) (hard : bool)
| OSetSub (sid : N) (target : N) (mode : list N)     (* target 0 = self *)
| ODelSub (sid : N) (target : N)
| OUnload                                            (* idle timeout of a topic with no sessions *)
| ORestart.                                          (* process restart: cache and attachments gone *)

(* sessions are logged in with a fixed user: sid -> uid *)
Definition sessmap := list (N * N).
Definition sess_uid (sm : sessmap) (sid : N) : N := match alookup sid sm with Some u => u | None => 0%N end.

(* an adapter call: returns whether it goes through, and counts it *)
Definition call (f : fault) (n : nat) : bool * nat := (negb (fails f (S n)), S n).

(* ------------------------------------------------------------------ *)
(* evictUser (group): detach all sessions of uid; with unsub the cache entry goes *)
Definition evict_user (c : cache) (u : N) (unsub : bool) (skip : N) : cache * out :=
  let mine := filter (fun e => N.eqb (fst (snd e)) u) (c_sess c) in
  let c1 := c_set_sess (filter (fun e => negb (N.eqb (fst (snd e)) u))) c in
  let c2 := if unsub then c_set_users (aremove u) c1
            else match alookup u (c_users c1) with
                 | Some p => c_set_users (aset u (p_set_online 0 p)) c1
                 | None => c1
                 end in
  (c2, flat_map (fun e => if N.eqb (fst e) skip then [] else [(fst e, Evicted unsub)]) mine).

(* outcome of thisUserSub / anotherUserSub *)
Inductive sub_res :=
| SubErr (code : Z)                      (* error reply already decided; [code]=0: no reply at all *)
| SubOk (changed : option (N * N)).      (* Some (want, given) when modeChanged != nil *)

Record hres := mkH { h_st : store; h_ca : cache; h_n : nat; h_out : out }.

(* thisUserSub for a group topic addressed as grp (asChan = false), LevelAuth *)
Definition this_user_sub (f : fault) (s : store) (c : cache) (n : nat) (sid u : N) (want : list N)
           (newsub_pkt : bool) : hres * sub_res :=
  let mk s c n o r := (mkH s c n o, r) in
  let '(mw, okw) := match want with [] => (ModeUnset, true) | _ => unmarshal_text ModeUnset want end in
  if negb okw then mk s c n [] (SubErr 400) else
  match alookup u (c_users c) with
  | None =>
    (* new subscription *)
    if max_subs <=? Z.of_nat (length (c_users c)) then mk s c n [] (SubErr 422) else
    let '(ok1, n1) := call f n in                      (* store.Subs.Get(topic, uid, true) *)
    if negb ok1 then mk s c n1 [] (SubErr 500) else
    let prev := ad_sub_get s u true in
    let given0 := match prev with Some r => s_given r | None => ModeUnset end in
    let given := if (given0 =? ModeUnset)%N then c_auth c else given0 in
    (* repaired: ownership cannot be requested by a new subscriber (modeWant &^ ModeOwner) *)
    let wantm := if (mw =? ModeUnset)%N then c_auth c else N.ldiff mw mO in
    if negb (is_joiner given) then mk s c n1 [] (SubErr 403) else
    (* add subscription to database if missing or soft-deleted *)
    let need_create := match prev with Some r => s_deleted r | None => true end in
    let '(ok2, n2) := if need_create then call f n1 else (true, n1) in
    if negb ok2 then mk s c n2 [] (SubErr 500) else
    let s2 := if need_create then ad_sub_create s u wantm given else s in
    let p := mkPud wantm given 0 0 0 0 in
    let c2 := c_set_users (aset u p) c in
    (* oldWant = oldGiven = None: modes differ unless both are 0 *)
    let changed := newsub_pkt || negb ((wantm =? 0)%N && (given =? 0)%N) in
    if negb (is_joiner wantm) then
      let '(c3, o3) := evict_user c2 u false 0%N in
      mk s2 c3 n2 o3 (SubOk (if changed then Some (wantm, given) else None))
    else mk s2 c2 n2 [] (SubOk (if changed then Some (wantm, given) else None))
  | Some p0 =>
    let oldw := p_want p0 in let oldg := p_given p0 in
    (* sanity checks on an explicit want *)
    let chk : option (N * N * bool) :=   (* Some (modeWant, modeGiven', ownerChange) or None = 403 *)
      if (mw =? ModeUnset)%N then Some (mw, oldg, false) else
      if N.eqb (c_owner c) u && (negb (is_owner mw) || negb (is_joiner mw)) then None else
      if is_owner oldg then
        let oc := is_owner mw && negb (is_owner oldw) in
        let g' := if is_owner mw && negb (better_equal oldg mw) then N.lor oldg mw else oldg in
        Some (mw, g', oc)
      else if is_owner mw then None
      else if is_admin oldg && is_admin mw then
        let mwd := N.land mw (N.lxor 255 mD) in
        (* userData.modeGiven |= (modeWant & ^ModeDelete): ^ModeDelete keeps the Unset bit of nothing: mw < 256 here *)
        let g' := if negb (better_equal oldg (N.ldiff mw mD)) then N.lor oldg (N.ldiff mw mD) else oldg in
        Some (mw, g', false)
      else Some (mw, oldg, false) in
    match chk with
    | None => mk s c n [] (SubErr 403)
    | Some (mw1, g1, owner_change) =>
      (* repaired: un-self-ban gives given|default without O unless the user is the owner *)
      let w1 := if (mw1 =? ModeUnset)%N then
                  (if negb (is_joiner oldw) then
                     (if N.eqb (c_owner c) u then N.lor g1 (c_auth c) else N.ldiff (N.lor g1 (c_auth c)) mO)
                   else oldw)
                else mw1 in
      let upd := mkUpd (if (w1 =? oldw)%N then None else Some w1) (if (g1 =? oldg)%N then None else Some g1) None None None in
      let need_upd := negb ((w1 =? oldw)%N && (g1 =? oldg)%N) in
      let '(ok1, n1) := if need_upd then call f n else (true, n) in
      if negb ok1 then mk s c n1 [] (SubErr 500) else
      let s1 := if need_upd then ad_subs_update s u upd else s in
      let finish (s3 : store) (c3 : cache) (n3 : nat) :=
        let p1 := p_set_modes w1 g1 (get_pud c3 u) in
        let c4 := c_set_users (aset u p1) c3 in
        let changed := newsub_pkt || negb ((w1 =? oldw)%N && (g1 =? oldg)%N) in
        let ch := if changed then Some (w1, g1) else None in
        if negb (is_joiner w1) then
          let '(c5, o5) := evict_user c4 u false 0%N in mk s3 c5 n3 o5 (SubOk ch)
        else if negb (is_joiner g1) then mk s3 c4 n3 [] (SubErr 403)
        else mk s3 c4 n3 [] (SubOk ch) in
      if owner_change then
        (* ownership transfer: strip O from the previous owner, record the new owner.
           A store failure here returns an error WITHOUT any reply and WITHOUT applying the
           new modes to the cache; the writes already made stay in the store. *)
        let prev := c_owner c in
        let pp := get_pud c prev in
        let pw := N.ldiff (p_want pp) mO in let pg := N.ldiff (p_given pp) mO in
        let '(ok2, n2) := call f n1 in                 (* Subs.Update(previous owner) *)
        if negb ok2 then mk s1 c n2 [] (SubErr 0) else
        let s2 := ad_subs_update s1 prev (mkUpd (Some pw) (Some pg) None None None) in
        let '(ok3, n3) := call f n2 in                 (* Topics.OwnerChange *)
        if negb ok3 then mk s2 c n3 [] (SubErr 0) else
        let s3 := st_owner u s2 in
        finish s3 (c_set_owner u (c_set_users (aset prev (p_set_modes pw pg pp)) c)) n3
      else finish s1 c n1
    end
  end.

(* anotherUserSub for a group topic: [u] acts on [target] with an explicit or empty mode *)
Definition another_user_sub (f : fault) (s : store) (c : cache) (n : nat) (sid u target : N) (mode : list N)
  : hres * sub_res :=
  let mk s c n o r := (mkH s c n o, r) in
  let host := alookup u (c_users c) in
  let hmode := match host with Some p => pud_mode p | None => 0%N end in
  match host with
  | None => mk s c n [] (SubErr 403)
  | Some _ =>
  if negb (is_sharer hmode) then mk s c n [] (SubErr 403) else
  let '(mg, okg) := match mode with [] => (ModeUnset, true) | _ => unmarshal_text ModeUnset mode end in
  if negb okg then mk s c n [] (SubErr 400) else
  if negb (mg =? ModeUnset)%N && negb (is_admin hmode) then mk s c n [] (SubErr 403) else
  if is_owner mg && negb (N.eqb (c_owner c) u) then mk s c n [] (SubErr 403) else
  match alookup target (c_users c) with
  | None =>
    if max_subs <=? Z.of_nat (length (c_users c)) then mk s c n [] (SubErr 422) else
    let given := if (mg =? ModeUnset)%N then N.lor (c_auth c) mJ else mg in
    let '(ok1, n1) := call f n in                      (* Subs.Get(topic, target, true) *)
    if negb ok1 then mk s c n1 [] (SubErr 500) else
    let prev := ad_sub_get s target true in
    let wres : (nat * option (Z + N)) :=               (* inl code = error, inr want *)
      match prev with
      | Some r => (n1, Some (inr (s_want r)))
      | None =>
        let '(ok2, n2) := call f n1 in                 (* Users.Get(target) *)
        if negb ok2 then (n2, Some (inl 500)) else
        match alookup target (users s) with
        | None => (n2, Some (inl 404))
        | Some acc => (n2, Some (inr (N.land acc given)))
        end
      end in
    match wres with
    | (n2, Some (inl code)) => mk s c n2 [] (SubErr code)
    | (n2, None) => mk s c n2 [] (SubErr 500)
    | (n2, Some (inr wantm)) =>
      if negb (is_joiner wantm) then mk s c n2 [] (SubErr 403) else
      let '(ok3, n3) := call f n2 in                   (* Subs.Create *)
      if negb ok3 then mk s c n3 [] (SubErr 500) else
      let s3 := ad_sub_create s target wantm given in
      let c3 := c_set_users (aset target (mkPud wantm given 0 0 0 0)) c in
      (* oldGiven = Unset <> given: always changed *)
      let ch := Some (wantm, given) in
      if negb (is_joiner given) then
        let '(c4, o4) := evict_user c3 target false 0%N in mk s3 c4 n3 o4 (SubOk ch)
      else mk s3 c3 n3 [] (SubOk ch)
    end
  | Some pt =>
    let oldg := p_given pt in
    if (mg =? ModeUnset)%N || (mg =? oldg)%N then
      (* re-invite without change *)
      if negb (is_joiner oldg) then
        let '(c4, o4) := evict_user c target false 0%N in mk s c4 n o4 (SubOk None)
      else mk s c n [] (SubOk None)
    else
      if N.eqb (c_owner c) target && (negb (is_owner mg) || negb (is_joiner mg)) then mk s c n [] (SubErr 403) else
      let '(ok1, n1) := call f n in                    (* Subs.Update(target, ModeGiven) *)
      if negb ok1 then mk s c n1 [] (SubErr 0) else    (* error returned without a reply *)
      let s1 := ad_subs_update s target (mkUpd None (Some mg) None None None) in
      let c1 := c_set_users (aset target (p_set_modes (p_want pt) mg pt)) c in
      let ch := Some (p_want pt, mg) in
      if negb (is_joiner mg) then
        let '(c4, o4) := evict_user c1 target false 0%N in mk s1 c4 n1 o4 (SubOk ch)
      else mk s1 c1 n1 [] (SubOk ch)
  end
  end.

(* ------------------------------------------------------------------ *)
(* data fan-out: attached sessions of users whose effective mode has R, minus skip *)
Definition fanout_data (c : cache) (skip : N) (fr : frame) : out :=
  flat_map (fun e =>
    let '(sid, (u, _)) := e in
    if N.eqb sid skip then [] else
    if is_reader (user_mode c u) then [(sid, fr)] else []) (c_sess c).

(* info fan-out: readers, not the origin session; kp never to the typist's own sessions *)
Definition fanout_info (c : cache) (skip : N) (what from : N) (seq : Z) : out :=
  flat_map (fun e =>
    let '(sid, (u, _)) := e in
    if N.eqb sid skip then [] else
    if negb (is_reader (user_mode c u)) then [] else
    if N.eqb what K_kp && N.eqb u from then [] else [(sid, Info what from seq)]) (c_sess c).

(* pushForData: subscribers whose effective mode has both P and R (sorted by user id for comparison) *)
Fixpoint insert_n (x : N) (l : list N) : list N :=
  match l with
  | [] => [x]
  | y :: r => if (x <=? y)%N then x :: l else y :: insert_n x r
  end.
Definition push_rcpt (c : cache) : list N :=
  fold_right insert_n []
    (map fst (filter (fun e => is_presencer (pud_mode (snd e)) && is_reader (pud_mode (snd e))) (c_users c))).
Definition push_out (c : cache) (seq : Z) (from : N) : out :=
  match push_rcpt c with [] => [] | l => [(0%N, Push seq from l)] end.

(* saveAndBroadcastMessage + messagesMapper.Save (no attachments) *)
Definition publish (f : fault) (s : store) (c : cache) (n : nat) (sid u : N) (content : N) (noecho : bool) : hres :=
  let p := get_pud c u in
  let found := match alookup u (c_users c) with Some _ => true | None => false end in
  if negb (is_writer (pud_mode p)) then mkH s c n [(sid, Ctrl 403 [])] else
  let seq := c_lastid c + 1 in
  let fail s n := mkH s c n [(sid, Ctrl 500 [])] in
  let '(ok1, n1) := call f n in                        (* TopicUpdateOnMessage *)
  if negb ok1 then fail s n1 else
  let s1 := st_seqid seq s in
  let '(ok2, n2) := call f n1 in                       (* MessageSave *)
  if negb ok2 then fail s1 n2 else
  match ad_msg_save s1 seq u content with
  | None => fail s1 n2                                 (* duplicate (topic, seqid) *)
  | Some s2 =>
    let reader := is_reader (pud_mode p) in
    let '(ok3, n3) := if reader then call f n2 else (true, n2) in   (* SubsUpdate(from, recv, read): error ignored *)
    let s3 := if reader && ok3 then ad_subs_update s2 u (mkUpd None None (Some seq) (Some seq) None) else s2 in
    let c1 := c_set_lastid seq c in
    let c2 := if found then c_set_users (aset u (p_set_marks seq seq p)) c1 else c1 in
    mkH s3 c2 n3 ((sid, Ctrl 202 [(P_seq, seq)]) :: fanout_data c2 (if noecho then sid else 0%N) (Data seq u content)
                  ++ push_out c2 seq u)
  end.

(* handleNoteBroadcast (read / recv / kp) *)
Definition note (f : fault) (s : store) (c : cache) (n : nat) (sid u : N) (what : N) (seq : Z) : hres :=
  let quiet := mkH s c n [] in
  if c_lastid c <? seq then quiet else
  let p := get_pud c u in
  let mode := pud_mode p in
  if N.eqb what K_kp then
    if negb (is_writer mode) then quiet else mkH s c n (fanout_info c sid what u seq)
  else if N.eqb what K_read || N.eqb what K_recv then
    if negb (is_reader mode) then quiet else
    let is_read := N.eqb what K_read in
    if is_read && (seq <=? p_read p) then quiet else
    if negb is_read && (seq <=? p_recv p) then quiet else
    let rd := if is_read then seq else p_read p in
    let rc := if is_read then (if p_recv p <? seq then seq else p_recv p)
              else (if seq <? p_read p then p_read p else seq) in
    (* store update carries only the mark named by the note *)
    let upd := if is_read then mkUpd None None (Some rd) None None else mkUpd None None None (Some rc) None in
    let '(ok1, n1) := call f n in                      (* Subs.Update *)
    if negb ok1 then mkH s c n1 [] else
    let s1 := ad_subs_update s u upd in
    let c1 := c_set_users (aset u (p_set_marks rd rc p)) c in
    mkH s1 c1 n1 (fanout_info c1 sid what u seq)
  else quiet.

(* replyGetData *)
Definition get_data (f : fault) (s : store) (c : cache) (n : nat) (sid u : N) (since before limit : Z) : hres :=
  if is_reader (user_mode c u) then
    let '(ok1, n1) := call f n in
    if negb ok1 then mkH s c n1 [(sid, Ctrl 500 [])] else
    let ms := ad_msg_get_all s u since before limit in
    match ms with
    | [] => mkH s c n1 [(sid, Ctrl 204 [(P_what, 1)])]
    | _ => mkH s c n1 (map (fun m => (sid, Data (m_seq m) (m_from m) (m_content m))) ms
                        ++ [(sid, Ctrl 208 [(P_what, 1); (P_count, Z.of_nat (length ms))])])
    end
  else mkH s c n [(sid, Ctrl 204 [(P_what, 1)])].

(* replyGetDesc (subscriber or stranger) *)
Definition get_desc (s : store) (c : cache) (n : nat) (sid u : N) : hres :=
  match alookup u (c_users c) with
  | None => mkH s c n [(sid, MetaDesc ModeInvalid ModeInvalid 0 0 0 0 false)]
  | Some p =>
    if is_reader (pud_mode p) then
      mkH s c n [(sid, MetaDesc (p_want p) (p_given p) (c_lastid c) (p_read p) (Z.max (p_recv p) (p_read p))
                                (Z.max (p_delid p) (c_delid c)) true)]
    else mkH s c n [(sid, MetaDesc (p_want p) (p_given p) 0 0 0 0 false)]
  end.

(* replyGetSub for a group: rows come from the store (UsersForTopic, not deleted) *)
Definition get_sub (f : fault) (s : store) (c : cache) (n : nat) (sid u : N) : hres :=
  let '(ok1, n1) := call f n in
  if negb ok1 then mkH s c n1 [(sid, Ctrl 500 [])] else
  let me := user_mode c u in
  let rows := filter (fun r => negb (s_deleted r) && (if alookup (s_user r) (users s) then true else false)) (subs s) in
  match rows with
  | [] => mkH s c n1 [(sid, Ctrl 204 [(P_what, 2)])]
  | _ =>
    mkH s c n1 [(sid, MetaSub (map (fun r =>
      let sm := N.land (s_given r) (s_want r) in
      let vis := is_reader sm && is_joiner sm in
      let showacs := is_sharer me || N.eqb (s_user r) u || is_admin sm in
      (s_user r,
       (if showacs then (s_want r, s_given r) else (ModeInvalid, ModeInvalid)),
       ((if vis then s_read r else 0), (if vis then s_recv r else 0),
        (if vis && N.eqb (s_user r) u then s_delid r else 0)))) rows))]
  end.

(* Normalize as repaired (merge of sorted half-open ranges); the range algebra
   and its proofs live in Pure/Ranges*.v: here it is a parameter of the
   handlers so that the two developments stay independent. *)
Section WithRanges.
Variable del_ranges : Z -> list (Z * Z) -> option (list (Z * Z)).   (* replyDelMsg's validation + sort + Normalize *)
Variable norm_ranges : list (Z * Z) -> list (Z * Z).                (* sort + Normalize of stored rows *)

(* replyGetDel *)
Definition get_del (f : fault) (s : store) (c : cache) (n : nat) (sid u : N) (since before limit : Z) : hres :=
  if is_reader (user_mode c u) then
    let '(ok1, n1) := call f n in
    if negb ok1 then mkH s c n1 [(sid, Ctrl 500 [])] else
    let rows := ad_msg_get_deleted s u since before limit in
    match rows with
    | [] => mkH s c n1 [(sid, Ctrl 204 [(P_what, 3)])]
    | _ =>
      let maxid := fold_left (fun a d => Z.max a (d_delid d)) rows 0 in
      let rs := map (fun d => (d_low d, if d_hi d <=? d_low d + 1 then 0 else d_hi d)) rows in
      mkH s c n1 [(sid, MetaDel maxid (norm_ranges rs))]
    end
  else mkH s c n [(sid, Ctrl 204 [(P_what, 3)])].

(* replyDelMsg + messagesMapper.DeleteList *)
Definition del_msg (f : fault) (s : store) (c : cache) (n : nat) (sid u : N) (req : list (Z * Z)) (hard0 : bool) : hres :=
  let mode := user_mode c u in
  (* the hard flag is decided first (it needs D, otherwise the request silently becomes soft);
     every soft deletion needs R *)
  let hard := hard0 && is_deleter mode in
  if negb hard && negb (is_reader mode) then mkH s c n [(sid, Ctrl 403 [])] else
  match del_ranges (c_lastid c) req with
  | None => mkH s c n [(sid, Ctrl 400 [])]
  | Some ranges =>
    let delid := c_delid c + 1 in
    let for_user := if hard then 0%N else u in
    let fail s n := mkH s c n [(sid, Ctrl 500 [])] in
    let '(ok1, n1) := call f n in                      (* MessageDeleteList *)
    if negb ok1 then fail s n1 else
    let s1 := ad_msg_delete_list s delid for_user ranges in
    let '(ok2, n2) := call f n1 in                     (* TopicUpdate(DelId) *)
    if negb ok2 then fail s1 n2 else
    let s2 := st_delid delid s1 in
    let '(ok3, n3) := call f n2 in                     (* SubsUpdate(forUser, DelId) *)
    if negb ok3 then fail s2 n3 else
    let s3 := ad_subs_update s2 for_user (mkUpd None None None None (Some delid)) in
    let c1 := c_set_delid delid c in
    let c2 := if hard then c_set_users (map (fun e => (fst e, p_set_delid delid (snd e)))) c1
              else c_set_users (aset u (p_set_delid delid (get_pud c1 u))) c1 in
    mkH s3 c2 n3 [(sid, Ctrl 200 [(P_del, delid)])]
  end.
End WithRanges.

(* replyDelSub *)
Definition del_sub (f : fault) (s : store) (c : cache) (n : nat) (sid u target : N) : hres :=
  let deny := mkH s c n [(sid, Ctrl 403 [])] in
  if negb (is_admin (user_mode c u)) then deny else
  if (target =? 0)%N || N.eqb target u then deny else
  match alookup target (c_users c) with
  | None => mkH s c n [(sid, Ctrl 304 [])]
  | Some pt =>
    if is_owner (pud_mode pt) then deny else
    if negb (is_joiner (p_want pt)) then deny else
    let '(ok1, n1) := call f n in                      (* Subs.Delete *)
    if negb ok1 then mkH s c n1 [(sid, Ctrl 500 [])] else
    let '(s1, reply) := match ad_subs_delete s target with
                        | Some s' => (s', Ctrl 200 [])
                        | None => (s, Ctrl 304 [])
                        end in
    let '(c1, o1) := evict_user c target true 0%N in
    mkH s1 c1 n1 ((sid, reply) :: o1)
  end.

(* replyLeaveUnsub *)
Definition leave_unsub (f : fault) (s : store) (c : cache) (n : nat) (sid u : N) : hres :=
  if N.eqb (c_owner c) u then mkH s c n [(sid, Ctrl 403 [])] else
  let '(ok1, n1) := call f n in                        (* Subs.Delete *)
  if negb ok1 then mkH s c n1 [(sid, Ctrl 500 [])] else
  match ad_subs_delete s u with
  | None => mkH s c n1 [(sid, Ctrl 304 [])]
  | Some s1 =>
    let '(c1, o1) := evict_user c u true sid in
    mkH s1 c1 n1 ((sid, Ctrl 200 []) :: o1)
  end.

(* handleLeaveRequest without unsub *)
Definition leave (c : cache) (sid u : N) : cache * out :=
  match alookup sid (c_sess c) with
  | None => (c, [])
  | Some (su, bkg) =>
    let c1 := c_set_sess (aremove sid) c in
    let c2 := match alookup su (c_users c1) with
              | Some p => if bkg then c1 else c_set_users (aset su (p_set_online (p_online p - 1) p)) c1
              | None => if bkg then c1 else c_set_users (aset su (p_set_online (-1) blank_pud)) c1
              end in
    (c2, [(sid, Ctrl 200 [])])
  end.

(* ------------------------------------------------------------------ *)
(* requests from a session that is not attached: answered by the hub from the
   store (replyOfflineTopicGetDesc / GetSub / SetSub); the cache of a loaded
   topic is neither read nor updated. *)
Record ores := mkO { o_st : store; o_n : nat; o_out : out }.

Definition offline_get_desc (f : fault) (s : store) (sid u : N) : ores :=
  let '(ok1, n1) := call f 0 in                        (* Topics.Get *)
  if negb ok1 then mkO s n1 [(sid, Ctrl 500 [])] else
  if negb (t_exists s) then mkO s n1 [(sid, Ctrl 404 [])] else
  let '(ok2, n2) := call f n1 in                       (* Subs.Get(topic, uid, false) *)
  if negb ok2 then mkO s n2 [(sid, Ctrl 500 [])] else
  match ad_sub_get s u false with
  | Some r => mkO s n2 [(sid, MetaDesc (s_want r) (s_given r) 0 0 0 0 false)]
  | None => mkO s n2 [(sid, MetaDesc ModeInvalid ModeInvalid 0 0 0 0 false)]
  end.

Definition offline_get_sub (f : fault) (s : store) (sid u : N) : ores :=
  let '(ok1, n1) := call f 0 in                        (* Subs.Get(topic, uid, true) *)
  if negb ok1 then mkO s n1 [(sid, Ctrl 500 [])] else
  match ad_sub_get s u true with
  | None => mkO s n1 [(sid, Ctrl 404 [])]
  | Some r =>
    if s_deleted r then mkO s n1 [(sid, MetaSub [(0%N, (ModeInvalid, ModeInvalid), (0, 0, 0))])]
    else
      let sm := N.land (s_given r) (s_want r) in
      let vis := is_reader sm && is_joiner sm in
      (* the row's user field is not compared: the SQL adapters return the raw numeric column there *)
      mkO s n1 [(sid, MetaSub [(0%N, (s_want r, s_given r),
                                ((if vis then s_read r else 0), (if vis then s_recv r else 0), (if vis then s_delid r else 0)))])]
  end.

Definition offline_set_sub (f : fault) (s : store) (sid u target : N) (mode : list N) : ores :=
  match mode with
  | [] => mkO s 0 [(sid, Ctrl 304 [])]
  | _ =>
    if negb (target =? 0)%N && negb (N.eqb target u) then mkO s 0 [(sid, Ctrl 403 [])] else
    let '(ok1, n1) := call f 0 in                      (* Subs.Get(topic, uid, false) *)
    if negb ok1 then mkO s n1 [(sid, Ctrl 500 [])] else
    match ad_sub_get s u false with
    | None => mkO s n1 [(sid, Ctrl 404 [])]
    | Some r =>
      let '(mw, okw) := unmarshal_text 0%N mode in
      if negb okw then mkO s n1 [(sid, Ctrl 500 [])] else
      if negb (Bool.eqb (is_owner mw) (is_owner (s_want r))) then mkO s n1 [(sid, Ctrl 403 [])] else
      if (mw =? s_want r)%N then mkO s n1 [(sid, Ctrl 304 [])] else
      let '(ok2, n2) := call f n1 in                   (* Subs.Update *)
      if negb ok2 then mkO s n2 [(sid, Ctrl 500 [])] else
      mkO (ad_subs_update s u (mkUpd (Some mw) None None None None)) n2 [(sid, CtrlAcs 200 0%N mw (s_given r))]
    end
  end.

(* ------------------------------------------------------------------ *)
(* one request, handled to quiescence                                   *)
Section Step.
Variable del_ranges : Z -> list (Z * Z) -> option (list (Z * Z)).
Variable norm_ranges : list (Z * Z) -> list (Z * Z).
Variable sm : sessmap.

Definition attached (c : cache) (sid : N) : bool :=
  match alookup sid (c_sess c) with Some _ => true | None => false end.

(* hub.join on a topic that is not loaded: initTopicGrp *)
Definition try_load (f : fault) (s : store) (n : nat) : nat * (cache + Z) :=
  let '(ok1, n1) := call f n in                        (* Topics.Get *)
  if negb ok1 then (n1, inr 500) else
  if negb (t_exists s) then (n1, inr 404) else
  let '(ok2, n2) := call f n1 in                       (* Topics.GetSubs *)
  if negb ok2 then (n2, inr 500) else (n2, inl (load s)).

Definition sub_reply (f : fault) (s : store) (c : cache) (n : nat) (sid u : N) (want : list N) (bkg : bool) : hres :=
  let newsub := match alookup u (c_users c) with Some _ => false | None => true end in
  let '(h, r) := this_user_sub f s c n sid u want newsub in
  match r with
  | SubErr code => mkH (h_st h) (h_ca h) (h_n h) (h_out h ++ (if code =? 0 then [] else [(sid, Ctrl code [])]))
  | SubOk ch =>
    let joined := match ch with Some (w, g) => is_joiner (N.land g w) | None => true end in
    let c1 := h_ca h in
    let c2 := if joined then
                let c' := c_set_sess (aset sid (u, bkg)) c1 in
                if bkg then c' else
                  let p := get_pud c' u in c_set_users (aset u (p_set_online (p_online p + 1) p)) c'
              else c1 in
    let reply := match ch with Some (w, g) => CtrlAcs 200 0%N w g | None => Ctrl 200 [] end in
    mkH (h_st h) c2 (h_n h) (h_out h ++ [(sid, reply)])
  end.

Definition set_sub (f : fault) (s : store) (c : cache) (n : nat) (sid u target : N) (mode : list N) : hres :=
  let self := (target =? 0)%N || N.eqb target u in
  let '(h, r) := if self then this_user_sub f s c n sid u mode false
                 else another_user_sub f s c n sid u target mode in
  match r with
  | SubErr code => mkH (h_st h) (h_ca h) (h_n h) (h_out h ++ (if code =? 0 then [] else [(sid, Ctrl code [])]))
  | SubOk ch =>
    let reply := match ch with
                 | Some (w, g) => CtrlAcs 200 (if self then 0%N else target) w g
                 | None => Ctrl 304 []
                 end in
    mkH (h_st h) (h_ca h) (h_n h) (h_out h ++ [(sid, reply)])
  end.

Definition step (f : fault) (x : state) (o : op) : state * out :=
  let s := st x in
  let keep o' := (mkState s (ca x) 0, o') in
  let fin (h : hres) := (mkState (h_st h) (Some (h_ca h)) (h_n h), h_out h) in
  match o with
  | OUnload =>
    match ca x with
    | Some c => match c_sess c with [] => (mkState s None 0, []) | _ => keep [] end
    | None => keep []
    end
  | ORestart => (mkState s None 0, [])
  | OSub sid want bkg =>
    let u := sess_uid sm sid in
    match ca x with
    | Some c => if attached c sid then keep [(sid, Ctrl 304 [])] else fin (sub_reply f s c 0 sid u want bkg)
    | None =>
      match try_load f s 0 with
      | (n1, inr code) => (mkState s None n1, [(sid, Ctrl code [])])
      | (n1, inl c) => fin (sub_reply f s c n1 sid u want bkg)
      end
    end
  | _ =>
    let sid := match o with
               | OLeave a _ | OPub a _ _ | ONote a _ _ | OGetData a _ _ _ | OGetDesc a | OGetSub a
               | OGetDel a _ _ _ | ODelMsg a _ _ | OSetSub a _ _ | ODelSub a _ | OSub a _ _ => a
               | _ => 0%N end in
    let u := sess_uid sm sid in
    let att := match ca x with Some c => attached c sid | None => false end in
    if negb att then
      (* session.go: the session is not attached to the topic *)
      match o with
      | OLeave _ unsub => keep [(sid, Ctrl (if unsub then 409 else 304) [])]
      | OPub _ _ _ => keep [(sid, Ctrl 409 [])]
      | ONote _ what seq =>
        if N.eqb what K_kp then (if seq =? 0 then keep [(sid, Ctrl 409 [])] else keep [])
        else if N.eqb what K_read || N.eqb what K_recv then
          if seq <=? 0 then keep [] else
          if N.eqb what K_recv then
            (* routed through the hub to the topic, if it is loaded *)
            match ca x with
            | Some c => fin (note f s c 0 sid u what seq)
            | None => keep []
            end
          else keep [(sid, Ctrl 409 [])]
        else keep []
      | OGetData _ _ _ _ | OGetDel _ _ _ _ => keep [(sid, Ctrl 403 [])]
      | ODelMsg _ _ _ | ODelSub _ _ => keep [(sid, Ctrl 409 [])]
      | OGetDesc _ => let r := offline_get_desc f s sid u in (mkState (o_st r) (ca x) (o_n r), o_out r)
      | OGetSub _ => let r := offline_get_sub f s sid u in (mkState (o_st r) (ca x) (o_n r), o_out r)
      | OSetSub _ target mode => let r := offline_set_sub f s sid u target mode in (mkState (o_st r) (ca x) (o_n r), o_out r)
      | _ => keep []
      end
    else
      match ca x with
      | None => keep []
      | Some c =>
        let acting := match alookup sid (c_sess c) with Some (a, _) => a | None => u end in
        match o with
        | OLeave _ unsub =>
          if unsub then fin (leave_unsub f s c 0 sid acting)
          else let '(c1, o1) := leave c sid acting in fin (mkH s c1 0 o1)
        | OPub _ content noecho => fin (publish f s c 0 sid u content noecho)
        | ONote _ what seq =>
          if N.eqb what K_kp then (if seq =? 0 then fin (note f s c 0 sid u what seq) else keep [])
          else if N.eqb what K_read || N.eqb what K_recv then
            (if seq <=? 0 then keep [] else fin (note f s c 0 sid u what seq))
          else keep []
        | OGetData _ since before limit => fin (get_data f s c 0 sid u since before limit)
        | OGetDesc _ => fin (get_desc s c 0 sid u)
        | OGetSub _ => fin (get_sub f s c 0 sid u)
        | OGetDel _ since before limit => fin (get_del norm_ranges f s c 0 sid u since before limit)
        | ODelMsg _ req hard => fin (del_msg del_ranges f s c 0 sid u req hard)
        | OSetSub _ target mode => fin (set_sub f s c 0 sid u target mode)
        | ODelSub _ target => fin (del_sub f s c 0 sid u target)
        | _ => keep []
        end
      end
  end.

(* a crash discards the in-memory state after the faulty request *)
Definition step_f (x : state) (fo : fault * op) : state * out :=
  let '(x1, o1) := step (fst fo) x (snd fo) in
  match fst fo with
  | CrashAt _ => (mkState (st x1) None (ncalls x1), o1)
  | _ => (x1, o1)
  end.

Fixpoint run (x : state) (h : list (fault * op)) : state * list out :=
  match h with
  | [] => (x, [])
  | fo :: r => let '(x1, o1) := step_f x fo in
               let '(x2, os) := run x1 r in (x2, o1 :: os)
  end.
End Step.
