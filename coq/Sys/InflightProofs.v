(* C13 lemmas about Sys/Inflight.v: the request slot is balanced on every path, so Done() is never reached
   without a matching Add(); the variant without the test of msg.init differs only when a broadcast meets a
   full send queue. *)
From Coq Require Import List NArith Arith Bool Lia.
Import ListNotations.
Require Import Tinode.Sys.Inflight.

(* ---------- counting ---------- *)
Lemma count_nil s : count s [] = 0.
Proof. reflexivity. Qed.

Lemma count_cons s q l : count s (q :: l) = (if holds s q then 1 else 0) + count s l.
Proof. unfold count. cbn [filter]. destruct (holds s q); reflexivity. Qed.

Lemma count_app s l1 l2 : count s (l1 ++ l2) = count s l1 + count s l2.
Proof. unfold count. rewrite filter_app, app_length. reflexivity. Qed.

Lemma count_one s q : count s [q] = if holds s q then 1 else 0.
Proof. rewrite count_cons, count_nil. lia. Qed.

Lemma take_first_count t s : forall l q r, take_first t l = Some (q, r) -> count s l = count s [q] + count s r.
Proof.
  induction l as [|a l IH]; intros q r H; cbn [take_first] in H; [discriminate|].
  destruct (N.eqb (q_topic a) t).
  - inversion H; subst. rewrite !count_cons, count_nil. lia.
  - destruct (take_first t l) as [[q' r']|] eqn:E; [|discriminate]. inversion H; subst.
    rewrite !count_cons, count_nil. rewrite (IH _ _ eq_refl), count_cons, count_nil. lia.
Qed.

Lemma take_first_in t : forall l q r, take_first t l = Some (q, r) -> In q l /\ (forall x, In x r -> In x l).
Proof.
  induction l as [|a l IH]; intros q r H; cbn [take_first] in H; [discriminate|].
  destruct (N.eqb (q_topic a) t).
  - inversion H; subst. split; [now left|]. intros x Hx. now right.
  - destruct (take_first t l) as [[q' r']|] eqn:E; [|discriminate]. inversion H; subst.
    destruct (IH _ _ eq_refl) as [H1 H2]. split; [now right|].
    intros x [->|Hx]; [now left|right; auto].
Qed.

Lemma count_split t s l : count s l = count s (filter (for_topic t) l) + count s (filter (not_for_topic t) l).
Proof.
  induction l as [|a l IH]; [reflexivity|]. cbn [filter]. unfold for_topic at 1, not_for_topic at 1.
  destruct (N.eqb (q_topic a) t); cbn [negb]; rewrite !count_cons; lia.
Qed.

Lemma count_dead s l : (forall q, In q l -> q_init q = false) -> count s l = 0.
Proof.
  induction l as [|a l IH]; intros H; [reflexivity|]. rewrite count_cons, IH by (intros; apply H; now right).
  unfold holds. rewrite (H a (or_introl eq_refl)), andb_false_r. reflexivity.
Qed.

Lemma holds_other s s' q : holds s q = true -> s' <> s -> holds s' q = false.
Proof.
  unfold holds. intros H Hn. apply andb_prop in H as [H _]. apply N.eqb_eq in H.
  destruct (N.eqb (q_sess q) s') eqn:E; [|reflexivity]. apply N.eqb_eq in E. congruence.
Qed.

Lemma holds_self q : q_init q = true -> holds (q_sess q) q = true.
Proof. intros H. unfold holds. now rewrite N.eqb_refl, H. Qed.

Lemma upd_same {A} (f : N -> A) k v : upd f k v k = v.
Proof. unfold upd. now rewrite N.eqb_refl. Qed.

Lemma upd_other {A} (f : N -> A) k v x : x <> k -> upd f k v x = f x.
Proof. unfold upd. intros H. destruct (N.eqb x k) eqn:E; [apply N.eqb_eq in E; congruence|reflexivity]. Qed.

Arguments count : simpl never.

(* ---------- the balance, on the session table alone ---------- *)
(* [p s]: the number of queued requests that hold the slot of s *)
Definition bal (f : sid -> sess) (p : sid -> nat) : Prop :=
  forall s, match s_inflight (f s) with Some n => n = p s | None => p s = 0 end.

Lemma bal_ext f p p' : bal f p -> (forall s, p' s = p s) -> bal f p'.
Proof. intros H E s. specialize (H s). rewrite E. exact H. Qed.

Lemma bal_same_inflight f g p : bal f p -> (forall s, s_inflight (g s) = s_inflight (f s)) -> bal g p.
Proof. intros H E s. rewrite E. apply H. Qed.

(* Done() for a request that is counted: no panic, and the balance holds for the count without it *)
Lemma bal_done (f : sid -> sess) p p' s :
  bal f p -> p s = S (p' s) -> (forall s', s' <> s -> p' s' = p s') ->
  exists x, done_if_live (f s) = Some x /\ bwg_done (f s) = Some x /\ bal (upd f s x) p' /\
            s_term x = s_term (f s) /\ s_full x = s_full (f s) /\ s_subs x = s_subs (f s) /\ s_detachq x = s_detachq (f s).
Proof.
  intros B E O. pose proof (B s) as Bs. unfold done_if_live, bwg_done.
  destruct (s_inflight (f s)) as [n|] eqn:I; [|lia].
  destruct n as [|n]; [lia|].
  eexists. repeat split; try reflexivity.
  intros s'. destruct (N.eq_dec s' s) as [->|Hn].
  - rewrite upd_same. cbn. lia.
  - rewrite upd_other by exact Hn. rewrite (O s' Hn). apply B.
Qed.

(* `if inflightReqs != nil { Done() }` for a request that is NOT counted and whose session is gone *)
Lemma bal_done_dead (f : sid -> sess) s : s_inflight (f s) = None -> done_if_live (f s) = Some (f s).
Proof. intros H. unfold done_if_live. now rewrite H. Qed.

Lemma bal_add (f : sid -> sess) p s n :
  bal f p -> s_inflight (f s) = Some n ->
  bal (upd f s (set_inflight (f s) (Some (S n)))) (fun s' => if N.eqb s' s then S (p s') else p s').
Proof.
  intros B I s'. destruct (N.eq_dec s' s) as [->|Hn].
  - rewrite upd_same, N.eqb_refl. cbn. pose proof (B s) as Bs. rewrite I in Bs. lia.
  - rewrite upd_other by exact Hn. destruct (N.eqb s' s) eqn:E; [apply N.eqb_eq in E; congruence|]. apply B.
Qed.

(* ---------- the invariant ---------- *)
Record Inv (c : config) : Prop := mkInv {
  inv_bal : bal (c_sess c) (pending c);
  inv_init : forall q, In q (c_join c ++ c_inits c ++ c_reg c) -> q_init q = true;
  inv_dead : forall q, In q (c_unreg c) -> q_init q = false -> s_inflight (c_sess c (q_sess q)) = None }.

Lemma inv_init_cfg : Inv init_cfg.
Proof. split; [intros s; reflexivity|intros q []|intros q []]. Qed.

(* the drain loop of the failure branch of topicInit: safe although it does not test msg.init *)
Lemma drain_safe : forall l f base,
  bal f (fun s => base s + count s l) ->
  (forall q, In q l -> q_init q = false -> s_inflight (f (q_sess q)) = None) ->
  exists f', drain_unreg f l = Some f' /\ bal f' base /\
             (forall s, s_inflight (f s) = None -> s_inflight (f' s) = None) /\
             (forall s, s_term (f' s) = s_term (f s) /\ s_full (f' s) = s_full (f s) /\ s_subs (f' s) = s_subs (f s) /\ s_detachq (f' s) = s_detachq (f s)).
Proof.
  induction l as [|q l IH]; intros f base B D.
  - exists f. cbn. repeat split; auto. eapply bal_ext; [exact B|]. intros s. cbv beta. rewrite count_nil. lia.
  - cbn [drain_unreg]. destruct (q_init q) eqn:Qi.
    + destruct (bal_done f (fun s => base s + count s (q :: l)) (fun s => base s + count s l) (q_sess q) B) as [x [Hx [_ [Bx [T [Fu [Su De]]]]]]].
      * cbv beta. rewrite count_cons, (holds_self q Qi). lia.
      * intros s' Hn. cbv beta. rewrite count_cons. destruct (holds s' q) eqn:Hh; [|lia].
        unfold holds in Hh. apply andb_prop in Hh as [Hh _]. apply N.eqb_eq in Hh. congruence.
      * rewrite Hx. destruct (IH (upd f (q_sess q) x) base Bx) as [f' [Hd [Bf [Nn Same]]]].
        { intros q' Hin Hi. destruct (N.eq_dec (q_sess q') (q_sess q)) as [E|Hn].
          - rewrite E, upd_same. pose proof (D q' (or_intror Hin) Hi) as Hq. rewrite E in Hq.
            unfold done_if_live in Hx. rewrite Hq in Hx. inversion Hx; subst. exact Hq.
          - rewrite upd_other by exact Hn. apply D; [now right|exact Hi]. }
        exists f'. split; [exact Hd|]. split; [exact Bf|]. split.
        { intros s Hs. apply Nn. destruct (N.eq_dec s (q_sess q)) as [->|Hn].
          - rewrite upd_same. unfold done_if_live in Hx. rewrite Hs in Hx. inversion Hx; subst. exact Hs.
          - now rewrite upd_other. }
        { intros s. destruct (Same s) as [S1 [S2 [S3 S4]]]. destruct (N.eq_dec s (q_sess q)) as [->|Hn].
          - rewrite upd_same in S1, S2, S3, S4. rewrite S1, S2, S3, S4. auto.
          - rewrite upd_other in S1, S2, S3, S4 by exact Hn. auto. }
    + pose proof (D q (or_introl eq_refl) Qi) as Hq. rewrite (bal_done_dead f _ Hq).
      assert (E : upd f (q_sess q) (f (q_sess q)) = fun s => upd f (q_sess q) (f (q_sess q)) s) by reflexivity.
      destruct (IH (upd f (q_sess q) (f (q_sess q))) base) as [f' [Hd [Bf [Nn Same]]]].
      * intros s. destruct (N.eq_dec s (q_sess q)) as [->|Hn].
        -- rewrite upd_same. pose proof (B (q_sess q)) as Bs. cbv beta in Bs. rewrite Hq in *. rewrite count_cons in Bs. lia.
        -- rewrite upd_other by exact Hn. pose proof (B s) as Bs. cbv beta in Bs. rewrite count_cons in Bs.
           assert (Hh : holds s q = false) by (unfold holds; rewrite Qi; apply andb_false_r). rewrite Hh in Bs. exact Bs.
      * intros q' Hin Hi. destruct (N.eq_dec (q_sess q') (q_sess q)) as [E'|Hn].
        -- rewrite E', upd_same. exact Hq.
        -- rewrite upd_other by exact Hn. apply D; [now right|exact Hi].
      * exists f'. split; [exact Hd|]. split; [exact Bf|]. split.
        -- intros s Hs. apply Nn. destruct (N.eq_dec s (q_sess q)) as [->|Hn]; [now rewrite upd_same|now rewrite upd_other].
        -- intros s. destruct (Same s) as [S1 [S2 [S3 S4]]]. destruct (N.eq_dec s (q_sess q)) as [->|Hn].
           ++ rewrite upd_same in S1, S2, S3, S4. auto.
           ++ rewrite upd_other in S1, S2, S3, S4 by exact Hn. auto.
Qed.

(* ---------- every step keeps the invariant and never panics (code as it is) ---------- *)
Definition good (o : outcome) : Prop := match o with Ok c => Inv c | Skip => True | Panic _ => False end.

Lemma pending_put_sess c s x s' : pending (put_sess c s x) s' = pending c s'.
Proof. reflexivity. Qed.

(* Done() (with or without the nil test) for a request of s that has just been taken out of a queue *)
Lemma done_good c s P :
  bal (c_sess c) P -> P s = S (pending c s) -> (forall s', s' <> s -> pending c s' = P s') ->
  (forall q, In q (c_join c ++ c_inits c ++ c_reg c) -> q_init q = true) ->
  (forall q, In q (c_unreg c) -> q_init q = false -> s_inflight (c_sess c (q_sess q)) = None) ->
  good (sess_done_if_live c s) /\ good (sess_done c s).
Proof.
  intros B E O I D.
  destruct (bal_done (c_sess c) P (pending c) s B E O) as [x [Hx [Hy [Bx _]]]].
  assert (G : Inv (put_sess c s x)).
  { split; [exact Bx|exact I|].
    intros q Hq Hi. cbn. destruct (N.eq_dec (q_sess q) s) as [Es|Hn].
    - exfalso. pose proof (D q Hq Hi) as Hd. rewrite Es in Hd. pose proof (B s) as Bs. rewrite Hd in Bs. lia.
    - rewrite upd_other by exact Hn. apply D; assumption. }
  unfold sess_done_if_live, sess_done. rewrite Hx, Hy. split; exact G.
Qed.

(* the same when the session is gone (inflightReqs == nil) and the request was not counted *)
Lemma done_dead_good c s : Inv c -> s_inflight (c_sess c s) = None -> good (sess_done_if_live c s).
Proof.
  intros [B I D] H. unfold sess_done_if_live. rewrite (bal_done_dead _ _ H). cbn.
  split; cbn.
  - intros s'. destruct (N.eq_dec s' s) as [->|Hn]; [rewrite upd_same|rewrite upd_other by exact Hn]; apply B.
  - exact I.
  - intros q Hq Hi. destruct (N.eq_dec (q_sess q) s) as [->|Hn]; [now rewrite upd_same|rewrite upd_other by exact Hn; now apply D].
Qed.

(* a change of the session table that leaves every inflight counter alone *)
Lemma inv_same_inflight c c' :
  Inv c -> (forall s, s_inflight (c_sess c' s) = s_inflight (c_sess c s)) ->
  c_join c' = c_join c -> c_inits c' = c_inits c -> c_reg c' = c_reg c -> c_unreg c' = c_unreg c -> Inv c'.
Proof.
  intros [B I D] E J N R U. split.
  - intros s. rewrite E. unfold pending. rewrite J, N, R, U. apply B.
  - rewrite J, N, R. exact I.
  - rewrite U. intros q Hq Hi. rewrite E. now apply D.
Qed.

Lemma detach_now_same c t s :
  (forall s', s_inflight (c_sess (detach_now c t s) s') = s_inflight (c_sess c s')) /\
  c_join (detach_now c t s) = c_join c /\ c_inits (detach_now c t s) = c_inits c /\
  c_reg (detach_now c t s) = c_reg c /\ c_unreg (detach_now c t s) = c_unreg c.
Proof.
  unfold detach_now. destruct (mem s (t_sessions (c_topic c t))); [|repeat split; reflexivity].
  repeat split; try reflexivity. intros s'. cbn. destruct (N.eq_dec s' s) as [->|Hn]; [now rewrite upd_same|now rewrite upd_other].
Qed.

Lemma evict_all_same t : forall ss c,
  (forall s', s_inflight (c_sess (evict_all c t ss) s') = s_inflight (c_sess c s')) /\
  c_join (evict_all c t ss) = c_join c /\ c_inits (evict_all c t ss) = c_inits c /\
  c_reg (evict_all c t ss) = c_reg c /\ c_unreg (evict_all c t ss) = c_unreg c.
Proof.
  induction ss as [|s r IH]; intros c; cbn [evict_all]; [repeat split; reflexivity|].
  destruct (mem s (t_sessions (c_topic c t))); [|apply IH].
  destruct (IH (put_sess (put_topic c t (mkTopic (t_phase (c_topic c t)) (remove_n s (t_sessions (c_topic c t))))) s
                 (if s_term (c_sess c s) then c_sess c s else set_detachq (c_sess c s) (s_detachq (c_sess c s) ++ [t]))))
    as [H1 [H2 [H3 [H4 H5]]]].
  repeat split; [|exact H2|exact H3|exact H4|exact H5].
  intros s'. rewrite H1. cbn. destruct (N.eq_dec s' s) as [->|Hn]; [rewrite upd_same|now rewrite upd_other].
  destruct (s_term (c_sess c s)); reflexivity.
Qed.

Lemma inv_detach_now c t s : Inv c -> Inv (detach_now c t s).
Proof. intros H. destruct (detach_now_same c t s) as [A [B [C [D E]]]]. eapply inv_same_inflight; eauto. Qed.

Lemma inv_evict_all c t ss : Inv c -> Inv (evict_all c t ss).
Proof. intros H. destruct (evict_all_same t ss c) as [A [B [C [D E]]]]. eapply inv_same_inflight; eauto. Qed.

Lemma subscribe_good c s t jfull : Inv c -> good (do_subscribe c s t jfull).
Proof.
  intros [B I D]. unfold do_subscribe.
  destruct (s_term (c_sess c s)); [exact Logic.I|].
  destruct (s_inflight (c_sess c s)) as [n|] eqn:In; [|exact Logic.I].
  destruct (capacity <=? n); [exact Logic.I|].
  set (c1 := put_sess c s (set_inflight (c_sess c s) (Some (S n)))).
  assert (Imm : good (sess_done c1 s)).
  { unfold sess_done, bwg_done, c1. cbn. rewrite upd_same. cbn. split; cbn.
    - intros s'. destruct (N.eq_dec s' s) as [->|Hn].
      + rewrite upd_same. cbn. pose proof (B s) as Bs. now rewrite In in Bs.
      + rewrite !upd_other by exact Hn. apply B.
    - exact I.
    - intros q Hq Hi. destruct (N.eq_dec (q_sess q) s) as [E|Hn].
      + pose proof (D q Hq Hi) as Hd. rewrite E in Hd. congruence.
      + rewrite !upd_other by exact Hn. now apply D. }
  destruct (mem t (s_subs (c_sess c s))); [exact Imm|]. destruct jfull; [exact Imm|].
  clear Imm. subst c1. cbn. split; cbn.
  - intros s'. unfold pending. cbn. rewrite count_app, count_one. unfold holds. cbn.
    destruct (N.eq_dec s' s) as [->|Hn].
    + rewrite upd_same, N.eqb_refl. cbn. pose proof (B s) as Bs. rewrite In in Bs. unfold pending in Bs. lia.
    + rewrite upd_other by exact Hn. assert (E : N.eqb s s' = false) by (apply N.eqb_neq; congruence). rewrite E. cbn.
      pose proof (B s') as Bs. unfold pending in Bs. destruct (s_inflight (c_sess c s')); lia.
  - intros q Hq. rewrite <- app_assoc in Hq. apply in_app_or in Hq as [Hq|Hq].
    + apply I. apply in_or_app. now left.
    + apply in_app_or in Hq as [Hq|Hq]; [destruct Hq as [<-|[]]; reflexivity|]. apply I. apply in_or_app. now right.
  - intros q Hq Hi. destruct (N.eq_dec (q_sess q) s) as [E|Hn].
    + pose proof (D q Hq Hi) as Hd. rewrite E in Hd. congruence.
    + rewrite upd_other by exact Hn. now apply D.
Qed.

Lemma leave_good c s t unsub mefnd : Inv c -> good (do_leave c s t unsub mefnd).
Proof.
  intros [B I D]. unfold do_leave.
  destruct (s_term (c_sess c s)); [exact Logic.I|].
  destruct (s_inflight (c_sess c s)) as [n|] eqn:Hin; [|exact Logic.I].
  destruct (capacity <=? n); [exact Logic.I|].
  set (c1 := put_sess c s (set_inflight (c_sess c s) (Some (S n)))).
  assert (Imm : good (sess_done c1 s)).
  { unfold sess_done, bwg_done, c1. cbn. rewrite upd_same. cbn. split; cbn.
    - intros s'. destruct (N.eq_dec s' s) as [->|Hn].
      + rewrite upd_same. cbn. pose proof (B s) as Bs. now rewrite Hin in Bs.
      + rewrite !upd_other by exact Hn. apply B.
    - exact I.
    - intros q Hq Hi. destruct (N.eq_dec (q_sess q) s) as [E|Hn].
      + pose proof (D q Hq Hi) as Hd. rewrite E in Hd. congruence.
      + rewrite !upd_other by exact Hn. now apply D. }
  destruct (mem t (s_subs (c_sess c s))); [|exact Imm]. destruct (mefnd && unsub); [exact Imm|].
  clear Imm. subst c1. cbn. split; cbn.
  - intros s'. unfold pending. cbn. rewrite count_app, count_one. unfold holds. cbn.
    destruct (N.eq_dec s' s) as [->|Hn].
    + rewrite upd_same, N.eqb_refl. cbn. pose proof (B s) as Bs. rewrite Hin in Bs. unfold pending in Bs. lia.
    + rewrite upd_other by exact Hn. assert (E : N.eqb s s' = false) by (apply N.eqb_neq; congruence). rewrite E. cbn.
      pose proof (B s') as Bs. unfold pending in Bs. destruct (s_inflight (c_sess c s')); lia.
  - exact I.
  - intros q Hq Hi. apply in_app_or in Hq as [Hq|[<-|[]]]; [|discriminate Hi].
    destruct (N.eq_dec (q_sess q) s) as [E|Hn].
    + pose proof (D q Hq Hi) as Hd. rewrite E in Hd. congruence.
    + rewrite upd_other by exact Hn. now apply D.
Qed.

Lemma hub_join_good c rfull : Inv c -> good (do_hub_join c rfull).
Proof.
  intros [B I D]. unfold do_hub_join. destruct (c_join c) as [|q rest] eqn:J; [exact Logic.I|].
  assert (Qi : q_init q = true) by (apply I; now left).
  assert (I' : forall q0, In q0 (rest ++ c_inits c ++ c_reg c) -> q_init q0 = true).
  { intros q0 H. apply I. now right. }
  assert (Done : good (sess_done_if_live (set_join c rest) (q_sess q))).
  { apply (done_good (set_join c rest) (q_sess q) (pending c)); [exact B| | |exact I'|exact D].
    - unfold pending. cbn. rewrite J, count_cons, (holds_self q Qi). lia.
    - intros s' Hn. unfold pending. cbn. rewrite J, count_cons.
      destruct (holds s' q) eqn:Hh; [|lia]. unfold holds in Hh. apply andb_prop in Hh as [Hh _]. apply N.eqb_eq in Hh. congruence. }
  destruct (t_phase (c_topic c (q_topic q))).
  - cbn. split; cbn.
    + intros s. pose proof (B s) as Bs. unfold pending in *. cbn. rewrite J in Bs. rewrite count_app, count_one. rewrite count_cons in Bs.
      destruct (s_inflight (c_sess c s)); lia.
    + intros q0 H. apply in_app_or in H as [H|H]; [apply I'; apply in_or_app; now left|].
      rewrite <- app_assoc in H. apply in_app_or in H as [H|H]; [apply I'; apply in_or_app; right; apply in_or_app; now left|].
      apply in_app_or in H as [[<-|[]]|H]; [exact Qi|]. apply I'. apply in_or_app; right; apply in_or_app; now right.
    + exact D.
  - exact Done.
  - destruct rfull; [exact Done|]. cbn. split; cbn.
    + intros s. pose proof (B s) as Bs. unfold pending in *. cbn. rewrite J in Bs. rewrite count_app, count_one. rewrite count_cons in Bs.
      destruct (s_inflight (c_sess c s)); lia.
    + intros q0 H. apply in_app_or in H as [H|H]; [apply I'; apply in_or_app; now left|].
      apply in_app_or in H as [H|H]; [apply I'; apply in_or_app; right; apply in_or_app; now left|].
      apply in_app_or in H as [H|[<-|[]]]; [|exact Qi]. apply I'. apply in_or_app; right; apply in_or_app; now right.
    + exact D.
Qed.

Lemma filter_in_init (P : req -> bool) l : (forall q, In q l -> q_init q = true) -> forall q, In q (filter P l) -> q_init q = true.
Proof. intros H q Hq. apply filter_In in Hq as [Hq _]. now apply H. Qed.

Lemma init_done_good c t ok : Inv c -> good (do_init_done c t ok).
Proof.
  intros [B I D]. unfold do_init_done. destruct (take_first t (c_inits c)) as [[q rest]|] eqn:T; [|exact Logic.I].
  destruct (take_first_in _ _ _ _ T) as [Hq Hrest].
  assert (Qi : q_init q = true) by (apply I; apply in_or_app; right; apply in_or_app; now left).
  assert (Cnt : forall s, count s (c_inits c) = count s [q] + count s rest) by (intros s; apply (take_first_count _ _ _ _ _ T)).
  destruct ok.
  - cbn. split; cbn.
    + intros s. pose proof (B s) as Bs. unfold pending in *. cbn. rewrite Cnt in Bs. rewrite count_app.
      destruct (s_inflight (c_sess c s)); lia.
    + intros q0 H. apply in_app_or in H as [H|H]; [apply I; apply in_or_app; now left|].
      apply in_app_or in H as [H|H]; [apply I; apply in_or_app; right; apply in_or_app; left; now apply Hrest|].
      apply in_app_or in H as [H|[<-|[]]]; [|exact Qi]. apply I. apply in_or_app; right; apply in_or_app; now right.
    + exact D.
  - cbn.
    (* the drain of t.unreg *)
    set (dr := filter (for_topic t) (c_unreg c)). set (keep := filter (not_for_topic t) (c_unreg c)).
    destruct (drain_safe dr (c_sess c)
                (fun s => count s (c_join c ++ filter (for_topic t) (c_reg c)) + count s rest + count s (filter (not_for_topic t) (c_reg c)) + count s keep + count s [q]))
      as [f' [Hd [Bf [Nn Same]]]].
    + intros s. pose proof (B s) as Bs. unfold pending in Bs. rewrite Cnt in Bs. rewrite (count_split t s (c_reg c)), (count_split t s (c_unreg c)) in Bs.
      rewrite count_app. fold dr keep in Bs. destruct (s_inflight (c_sess c s)); lia.
    + intros q0 H0 Hi. apply D; [|exact Hi]. unfold dr in H0. now apply filter_In in H0 as [H0 _].
    + rewrite Hd.
      apply (done_good _ (q_sess q)
               (fun s => count s (c_join c ++ filter (for_topic t) (c_reg c)) + count s rest + count s (filter (not_for_topic t) (c_reg c)) + count s keep + count s [q])).
      * exact Bf.
      * cbv beta. unfold pending. cbn. rewrite count_one, (holds_self q Qi). lia.
      * intros s' Hn. cbv beta. unfold pending. cbn. rewrite count_one.
        destruct (holds s' q) eqn:Hh; [|lia]. unfold holds in Hh. apply andb_prop in Hh as [Hh _]. apply N.eqb_eq in Hh. congruence.
      * cbn. intros q0 H. apply in_app_or in H as [H|H].
        -- apply in_app_or in H as [H|H]; [apply I; apply in_or_app; now left|].
           apply filter_In in H as [H _]. apply I. apply in_or_app; right; apply in_or_app; now right.
        -- apply in_app_or in H as [H|H]; [apply I; apply in_or_app; right; apply in_or_app; left; now apply Hrest|].
           apply filter_In in H as [H _]. apply I. apply in_or_app; right; apply in_or_app; now right.
      * cbn. intros q0 H Hi. apply Nn. unfold keep in H. apply filter_In in H as [H _]. now apply D.
Qed.

Lemma reg_good c t ok : Inv c -> good (do_reg c t ok).
Proof.
  intros Hinv. pose proof Hinv as [B I D]. unfold do_reg. destruct (t_phase (c_topic c t)); try exact Logic.I.
  destruct (take_first t (c_reg c)) as [[q rest]|] eqn:T; [|exact Logic.I].
  destruct (take_first_in _ _ _ _ T) as [Hq Hrest].
  assert (Qi : q_init q = true) by (apply I; apply in_or_app; right; apply in_or_app; now right).
  assert (Cnt : forall s, count s (c_reg c) = count s [q] + count s rest) by (intros s; apply (take_first_count _ _ _ _ _ T)).
  cbv zeta.
  match goal with |- good (sess_done_if_live ?c2 _) => set (c2' := c2) end.
  assert (E : (forall s, s_inflight (c_sess c2' s) = s_inflight (c_sess c s)) /\ c_join c2' = c_join c /\ c_inits c2' = c_inits c /\ c_reg c2' = rest /\ c_unreg c2' = c_unreg c).
  { unfold c2'. destruct (mem t (s_subs (c_sess (set_reg c rest) (q_sess q)))); [repeat split; reflexivity|].
    destruct ok; [|repeat split; reflexivity]. repeat split; try reflexivity.
    intros s. cbn. destruct (N.eq_dec s (q_sess q)) as [->|Hn]; [now rewrite upd_same|now rewrite upd_other]. }
  destruct E as [E1 [E2 [E3 [E4 E5]]]].
  apply (done_good c2' (q_sess q) (pending c)).
  - intros s. rewrite E1. apply B.
  - unfold pending. rewrite E2, E3, E4, E5, Cnt, count_one, (holds_self q Qi). lia.
  - intros s' Hn. unfold pending. rewrite E2, E3, E4, E5, Cnt, count_one.
    destruct (holds s' q) eqn:Hh; [|lia]. unfold holds in Hh. apply andb_prop in Hh as [Hh _]. apply N.eqb_eq in Hh. congruence.
  - rewrite E2, E3, E4. intros q0 H. apply I. apply in_app_or in H as [H|H]; [apply in_or_app; now left|].
    apply in_app_or in H as [H|H]; apply in_or_app; right; apply in_or_app; [now left|right; now apply Hrest].
  - rewrite E5. intros q0 H Hi. rewrite E1. now apply D.
Qed.

(* unregisterSession with the test of msg.init: a request that holds the slot releases it, any other leaves it alone *)
Lemma unregister_good c t q evict P :
  bal (c_sess c) P ->
  (forall q0, In q0 (c_join c ++ c_inits c ++ c_reg c) -> q_init q0 = true) ->
  (forall q0, In q0 (c_unreg c) -> q_init q0 = false -> s_inflight (c_sess c (q_sess q0)) = None) ->
  (forall s, P s = pending c s + count s [q]) ->
  good (unregister_session true c t q evict).
Proof.
  intros B I D E. unfold unregister_session.
  match goal with |- good (if _ then sess_done_if_live ?c1 _ else _) => set (c1' := c1) end.
  assert (S : (forall s, s_inflight (c_sess c1' s) = s_inflight (c_sess c s)) /\ c_join c1' = c_join c /\ c_inits c1' = c_inits c /\ c_reg c1' = c_reg c /\ c_unreg c1' = c_unreg c).
  { unfold c1'. destruct (q_kind q) as [|[|]]; try apply detach_now_same. destruct (q_init q); [apply evict_all_same|apply detach_now_same]. }
  destruct S as [S1 [S2 [S3 [S4 S5]]]].
  destruct (q_init q) eqn:Qi.
  - apply (done_good c1' (q_sess q) P).
    + intros s. rewrite S1. apply B.
    + rewrite E. unfold pending. rewrite S2, S3, S4, S5, count_one, (holds_self q Qi). lia.
    + intros s' Hn. rewrite E. unfold pending. rewrite S2, S3, S4, S5, count_one.
      destruct (holds s' q) eqn:Hh; [|lia]. unfold holds in Hh. apply andb_prop in Hh as [Hh _]. apply N.eqb_eq in Hh. congruence.
    + rewrite S2, S3, S4. exact I.
    + rewrite S5. intros q0 H Hi. rewrite S1. now apply D.
  - cbn. split.
    + intros s. rewrite S1. unfold pending. rewrite S2, S3, S4, S5. pose proof (B s) as Bs. rewrite E in Bs.
      rewrite count_one in Bs. assert (Hh : holds s q = false) by (unfold holds; rewrite Qi; apply andb_false_r). rewrite Hh in Bs.
      unfold pending in Bs. destruct (s_inflight (c_sess c s)); lia.
    + rewrite S2, S3, S4. exact I.
    + rewrite S5. intros q0 H Hi. rewrite S1. now apply D.
Qed.

Lemma unreg_good c t evict : Inv c -> good (do_unreg true c t evict).
Proof.
  intros [B I D]. unfold do_unreg. destruct (t_phase (c_topic c t)); try exact Logic.I.
  destruct (take_first t (c_unreg c)) as [[q rest]|] eqn:T; [|exact Logic.I].
  destruct (take_first_in _ _ _ _ T) as [Hq Hrest].
  apply (unregister_good (set_unreg c rest) t q evict (pending c)).
  - exact B.
  - exact I.
  - cbn. intros q0 H Hi. apply D; [now apply Hrest|exact Hi].
  - intros s. unfold pending. cbn. rewrite (take_first_count _ s _ _ _ T). lia.
Qed.

(* a session dropped by a broadcast: the pseudo-request {sess, init:false} holds no slot *)
Lemma drop_sessions_good t : forall l c, Inv c -> good (drop_sessions true c t l).
Proof.
  induction l as [|s r IH]; intros c Hinv; cbn [drop_sessions]; [exact Hinv|].
  pose proof Hinv as [B I D].
  pose proof (unregister_good c t (mkReq s t (RLeave false) false) [] (pending c) B I D) as G.
  destruct (unregister_session true c t (mkReq s t (RLeave false) false) []) as [c1| |].
  - apply IH. apply G. intros s0. rewrite count_one. unfold holds. cbn. rewrite andb_false_r. lia.
  - apply G. intros s0. rewrite count_one. unfold holds. cbn. rewrite andb_false_r. lia.
  - exact Logic.I.
Qed.

Lemma broadcast_good c t rcpts : Inv c -> good (do_broadcast true c t rcpts).
Proof. intros H. unfold do_broadcast. destruct (t_phase (c_topic c t)); try exact Logic.I. now apply drop_sessions_good. Qed.

Lemma disc_end_good c s : Inv c -> good (do_disc_end c s).
Proof.
  intros [B I D]. unfold do_disc_end. destruct (s_term (c_sess c s)); [|exact Logic.I].
  destruct (s_inflight (c_sess c s)) as [[|n]|] eqn:Hin; try exact Logic.I.
  cbn. split; cbn.
  - intros s'. unfold pending. cbn. rewrite count_app.
    rewrite (count_dead s' (map _ _)) by (intros q Hq; apply in_map_iff in Hq as [t [<- _]]; reflexivity).
    destruct (N.eq_dec s' s) as [->|Hn].
    + rewrite upd_same. cbn. pose proof (B s) as Bs. rewrite Hin in Bs. unfold pending in Bs. lia.
    + rewrite upd_other by exact Hn. pose proof (B s') as Bs. unfold pending in Bs. destruct (s_inflight (c_sess c s')); lia.
  - exact I.
  - intros q Hq Hi. apply in_app_or in Hq as [Hq|Hq].
    + destruct (N.eq_dec (q_sess q) s) as [->|Hn]; [now rewrite upd_same|]. rewrite upd_other by exact Hn. now apply D.
    + apply in_map_iff in Hq as [t [<- _]]. cbn. now rewrite upd_same.
Qed.

Lemma exec_good l c : Inv c -> good (exec true l c).
Proof.
  intros Hinv. destruct l; cbn [exec].
  - now apply subscribe_good.
  - now apply leave_good.
  - now apply hub_join_good.
  - now apply init_done_good.
  - now apply reg_good.
  - now apply unreg_good.
  - now apply broadcast_good.
  - cbn. eapply inv_same_inflight; [exact Hinv| |reflexivity..]. intros s0. cbn.
    destruct (N.eq_dec s0 s) as [->|Hn]; [now rewrite upd_same|now rewrite upd_other].
  - unfold do_disc_begin. destruct (s_term (c_sess c s)); [exact Logic.I|]. cbn.
    eapply inv_same_inflight; [exact Hinv| |reflexivity..]. intros s0. cbn.
    destruct (N.eq_dec s0 s) as [->|Hn]; [now rewrite upd_same|now rewrite upd_other].
  - now apply disc_end_good.
  - destruct (t_phase (c_topic c t)); try exact Logic.I. cbn. now apply inv_evict_all.
  - unfold do_sess_detach. destruct (s_detachq (c_sess c s)) as [|t r]; [exact Logic.I|]. cbn.
    eapply inv_same_inflight; [exact Hinv| |reflexivity..]. intros s0. cbn.
    destruct (N.eq_dec s0 s) as [->|Hn]; [now rewrite upd_same|now rewrite upd_other].
Qed.

Lemma run_good : forall ls c, Inv c -> good (run true c ls).
Proof.
  induction ls as [|l r IH]; intros c H; cbn [run]; [exact H|].
  pose proof (exec_good l c H) as G. destruct (exec true l c) as [c1| |]; [now apply IH|destruct G|now apply IH].
Qed.

(* ---------- the statements used by Props/PropC13.v ---------- *)
Lemma run_no_panic ls : is_panic (run true init_cfg ls) = false.
Proof. pose proof (run_good ls init_cfg inv_init_cfg) as G. destruct (run true init_cfg ls); [reflexivity|destruct G|reflexivity]. Qed.

(* at every reachable state the slot of a session holds exactly its queued {sub}/{leave} requests *)
Lemma run_balanced ls c s : run true init_cfg ls = Ok c ->
  match s_inflight (c_sess c s) with Some n => n = pending c s | None => pending c s = 0 end.
Proof. intros H. pose proof (run_good ls init_cfg inv_init_cfg) as G. rewrite H in G. apply G. Qed.

Lemma quiescent_pending c s : quiescent c = true -> pending c s = 0.
Proof.
  unfold quiescent, pending. destruct (c_join c); [|discriminate]. destruct (c_inits c); [|discriminate].
  destruct (c_reg c); [|discriminate]. destruct (c_unreg c); [|discriminate]. reflexivity.
Qed.

Lemma run_quiescent_free ls c s : run true init_cfg ls = Ok c -> quiescent c = true ->
  s_inflight (c_sess c s) = Some 0 \/ s_inflight (c_sess c s) = None.
Proof.
  intros H Q. pose proof (run_balanced ls c s H) as Bs. rewrite (quiescent_pending c s Q) in Bs.
  destruct (s_inflight (c_sess c s)); [left; now subst|now right].
Qed.

Lemma variant_panics : run false init_cfg w_slow_consumer = Panic site_done_before_add.
Proof. vm_compute. reflexivity. Qed.

Lemma witness_safe_as_is : is_panic (run true init_cfg w_slow_consumer) = false.
Proof. apply run_no_panic. Qed.

(* ---------- the variant without the test of msg.init: safe as long as no send queue is ever full ---------- *)
Definition nofull (c : config) : Prop := forall s, s_full (c_sess c s) = false.
Definition fulls_same (c c' : config) : Prop := forall s, s_full (c_sess c' s) = s_full (c_sess c s).

Definition no_clog (ls : list label) : bool :=
  forallb (fun l => match l with LClog _ true => false | _ => true end) ls.

Lemma fulls_same_refl c : fulls_same c c.
Proof. intros s. reflexivity. Qed.

Lemma fulls_same_trans c1 c2 c3 : fulls_same c1 c2 -> fulls_same c2 c3 -> fulls_same c1 c3.
Proof. intros A B s. now rewrite B, A. Qed.

Lemma fulls_put c s x : s_full x = s_full (c_sess c s) -> fulls_same c (put_sess c s x).
Proof. intros H s'. cbn. destruct (N.eq_dec s' s) as [->|Hn]; [now rewrite upd_same|now rewrite upd_other]. Qed.

Lemma fulls_done c s c' : sess_done c s = Ok c' -> fulls_same c c'.
Proof.
  unfold sess_done, bwg_done. destruct (s_inflight (c_sess c s)) as [[|n]|]; try discriminate.
  intros H. inversion H; subst. now apply fulls_put.
Qed.

Lemma fulls_done_if_live c s c' : sess_done_if_live c s = Ok c' -> fulls_same c c'.
Proof.
  unfold sess_done_if_live, done_if_live, bwg_done. destruct (s_inflight (c_sess c s)) as [[|n]|]; try discriminate;
  intros H; inversion H; subst; now apply fulls_put.
Qed.

Lemma fulls_detach_now c t s : fulls_same c (detach_now c t s).
Proof.
  unfold detach_now. destruct (mem s (t_sessions (c_topic c t))); [|apply fulls_same_refl].
  intros s'. cbn. destruct (N.eq_dec s' s) as [->|Hn]; [now rewrite upd_same|now rewrite upd_other].
Qed.

Lemma fulls_evict_all t : forall ss c, fulls_same c (evict_all c t ss).
Proof.
  induction ss as [|s r IH]; intros c; cbn [evict_all]; [apply fulls_same_refl|].
  destruct (mem s (t_sessions (c_topic c t))); [|apply IH].
  eapply fulls_same_trans; [|apply IH].
  intros s'. cbn. destruct (N.eq_dec s' s) as [->|Hn]; [rewrite upd_same|now rewrite upd_other].
  destruct (s_term (c_sess c s)); reflexivity.
Qed.

Lemma fulls_unregister it c t q ev c' : unregister_session it c t q ev = Ok c' -> fulls_same c c'.
Proof.
  unfold unregister_session.
  match goal with |- (if _ then sess_done_if_live ?c1 _ else _) = _ -> _ => set (c1' := c1) end.
  assert (F : fulls_same c c1').
  { unfold c1'. destruct (q_kind q) as [|[|]]; try apply fulls_detach_now. destruct (q_init q); [apply fulls_evict_all|apply fulls_detach_now]. }
  destruct (if it then q_init q else true).
  - intros H. eapply fulls_same_trans; [exact F|]. now apply fulls_done_if_live in H.
  - intros H. inversion H; subst. exact F.
Qed.

Lemma fulls_exec it l c c' : exec it l c = Ok c' -> (match l with LClog _ _ => False | LBroadcast _ _ => False | _ => True end) -> fulls_same c c'.
Proof.
  destruct l; cbn [exec]; intros H NC; try destruct NC.
  - unfold do_subscribe in H. destruct (s_term (c_sess c s)); [discriminate|]. destruct (s_inflight (c_sess c s)) as [n|]; [|discriminate].
    destruct (capacity <=? n); [discriminate|].
    assert (F1 : fulls_same c (put_sess c s (set_inflight (c_sess c s) (Some (S n))))) by now apply fulls_put.
    destruct (mem t (s_subs (c_sess c s))); [eapply fulls_same_trans; [exact F1|now apply fulls_done in H]|].
    destruct jfull; [eapply fulls_same_trans; [exact F1|now apply fulls_done in H]|]. inversion H; subst. exact F1.
  - unfold do_leave in H. destruct (s_term (c_sess c s)); [discriminate|]. destruct (s_inflight (c_sess c s)) as [n|]; [|discriminate].
    destruct (capacity <=? n); [discriminate|].
    assert (F1 : fulls_same c (put_sess c s (set_inflight (c_sess c s) (Some (S n))))) by now apply fulls_put.
    destruct (mem t (s_subs (c_sess c s))).
    + destruct (mefnd && unsub); [eapply fulls_same_trans; [exact F1|now apply fulls_done in H]|]. inversion H; subst. exact F1.
    + eapply fulls_same_trans; [exact F1|now apply fulls_done in H].
  - unfold do_hub_join in H. destruct (c_join c) as [|q rest]; [discriminate|].
    destruct (t_phase (c_topic c (q_topic q))).
    + inversion H; subst. intros s. reflexivity.
    + apply fulls_done_if_live in H. exact H.
    + destruct rfull; [apply fulls_done_if_live in H; exact H|]. inversion H; subst. intros s. reflexivity.
  - unfold do_init_done in H. destruct (take_first t (c_inits c)) as [[q rest]|]; [|discriminate].
    destruct ok; [inversion H; subst; intros s; reflexivity|].
    cbn in H.
    match type of H with match drain_unreg ?f ?l with _ => _ end = _ => destruct (drain_unreg f l) as [f'|] eqn:Dr; [|discriminate] end.
    apply fulls_done_if_live in H. intros s. rewrite H. cbn.
    (* drain_unreg keeps s_full *)
    clear H. revert f' Dr.
    match goal with |- forall f', drain_unreg ?f ?l = _ -> _ => generalize l; generalize f end.
    intros f l. revert f. induction l as [|a l IH]; intros f f' Dr; cbn [drain_unreg] in Dr; [inversion Dr; reflexivity|].
    unfold done_if_live, bwg_done in Dr. destruct (s_inflight (f (q_sess a))) as [[|n]|] eqn:E; try discriminate;
      rewrite (IH _ _ Dr); destruct (N.eq_dec s (q_sess a)) as [->|Hn]; try (rewrite upd_same; reflexivity); now rewrite upd_other.
  - unfold do_reg in H. destruct (t_phase (c_topic c t)); try discriminate.
    destruct (take_first t (c_reg c)) as [[q rest]|]; [|discriminate]. cbv zeta in H.
    apply fulls_done_if_live in H. eapply fulls_same_trans; [|exact H].
    destruct (mem t (s_subs (c_sess (set_reg c rest) (q_sess q)))); [intros s; reflexivity|].
    destruct ok; [|intros s; reflexivity]. intros s. cbn. destruct (N.eq_dec s (q_sess q)) as [->|Hn]; [now rewrite upd_same|now rewrite upd_other].
  - unfold do_unreg in H. destruct (t_phase (c_topic c t)); try discriminate.
    destruct (take_first t (c_unreg c)) as [[q rest]|]; [|discriminate].
    apply fulls_unregister in H. intros s. rewrite H. reflexivity.
  - unfold do_disc_begin in H. destruct (s_term (c_sess c s)); [discriminate|]. inversion H; subst. now apply fulls_put.
  - unfold do_disc_end in H. destruct (s_term (c_sess c s)); [|discriminate]. destruct (s_inflight (c_sess c s)) as [[|n]|]; try discriminate.
    inversion H; subst. intros s'. cbn. destruct (N.eq_dec s' s) as [->|Hn]; [now rewrite upd_same|now rewrite upd_other].
  - destruct (t_phase (c_topic c t)); try discriminate. inversion H; subst. apply fulls_evict_all.
  - unfold do_sess_detach in H. destruct (s_detachq (c_sess c s)) as [|t r]; [discriminate|]. inversion H; subst. now apply fulls_put.
Qed.

Lemma drop_list_nofull c t rcpts : nofull c -> drop_list c t rcpts = [].
Proof.
  intros N. unfold drop_list. induction (t_sessions (c_topic c t)) as [|s r IH]; [reflexivity|]. cbn [filter].
  unfold queue_out_fails at 1. rewrite (N s), andb_false_r, andb_false_r. exact IH.
Qed.

Lemma unregister_false_good c t q evict P :
  bal (c_sess c) P ->
  (forall q0, In q0 (c_join c ++ c_inits c ++ c_reg c) -> q_init q0 = true) ->
  (forall q0, In q0 (c_unreg c) -> q_init q0 = false -> s_inflight (c_sess c (q_sess q0)) = None) ->
  (forall s, P s = pending c s + count s [q]) ->
  (q_init q = false -> s_inflight (c_sess c (q_sess q)) = None) ->
  good (unregister_session false c t q evict).
Proof.
  intros B I D E Dq. unfold unregister_session.
  cbv iota.
  match goal with |- good (sess_done_if_live ?c1 _) => set (c1' := c1) end.
  assert (S : (forall s, s_inflight (c_sess c1' s) = s_inflight (c_sess c s)) /\ c_join c1' = c_join c /\ c_inits c1' = c_inits c /\ c_reg c1' = c_reg c /\ c_unreg c1' = c_unreg c).
  { unfold c1'. destruct (q_kind q) as [|[|]]; try apply detach_now_same. destruct (q_init q); [apply evict_all_same|apply detach_now_same]. }
  destruct S as [S1 [S2 [S3 [S4 S5]]]].
  destruct (q_init q) eqn:Qi.
  - apply (done_good c1' (q_sess q) P).
    + intros s. rewrite S1. apply B.
    + rewrite E. unfold pending. rewrite S2, S3, S4, S5, count_one, (holds_self q Qi). lia.
    + intros s' Hn. rewrite E. unfold pending. rewrite S2, S3, S4, S5, count_one.
      destruct (holds s' q) eqn:Hh; [|lia]. unfold holds in Hh. apply andb_prop in Hh as [Hh _]. apply N.eqb_eq in Hh. congruence.
    + rewrite S2, S3, S4. exact I.
    + rewrite S5. intros q0 H Hi. rewrite S1. now apply D.
  - apply done_dead_good; [|rewrite S1; now apply Dq]. split.
    + intros s. rewrite S1. unfold pending. rewrite S2, S3, S4, S5. pose proof (B s) as Bs. rewrite E in Bs.
      rewrite count_one in Bs. assert (Hh : holds s q = false) by (unfold holds; rewrite Qi; apply andb_false_r). rewrite Hh in Bs.
      unfold pending in Bs. destruct (s_inflight (c_sess c s)); lia.
    + rewrite S2, S3, S4. exact I.
    + rewrite S5. intros q0 H Hi. rewrite S1. now apply D.
Qed.

Lemma unreg_false_good c t evict : Inv c -> good (do_unreg false c t evict).
Proof.
  intros [B I D]. unfold do_unreg. destruct (t_phase (c_topic c t)); try exact Logic.I.
  destruct (take_first t (c_unreg c)) as [[q rest]|] eqn:T; [|exact Logic.I].
  destruct (take_first_in _ _ _ _ T) as [Hq Hrest].
  apply (unregister_false_good (set_unreg c rest) t q evict (pending c)).
  - exact B.
  - exact I.
  - cbn. intros q0 H Hi. apply D; [now apply Hrest|exact Hi].
  - intros s. unfold pending. cbn. rewrite (take_first_count _ s _ _ _ T). lia.
  - cbn. intros Hi. now apply D.
Qed.

Definition not_clog_true (l : label) : bool := match l with LClog _ true => false | _ => true end.

Lemma exec_false_good l c : Inv c -> nofull c -> not_clog_true l = true ->
  good (exec false l c) /\ (forall c', exec false l c = Ok c' -> nofull c').
Proof.
  intros Hinv Nf NC.
  assert (Keep : forall c', exec false l c = Ok c' -> (match l with LClog _ _ => False | LBroadcast _ _ => False | _ => True end) -> nofull c').
  { intros c' H K s. rewrite (fulls_exec false l c c' H K s). apply Nf. }
  destruct l as [| | | | |t ev|t rcpts|s full| | | |]; try (match goal with |- good (exec false ?l0 c) /\ _ => split; [exact (exec_good l0 c Hinv)|intros c' H; now apply Keep] end).
  - split; [exact (unreg_false_good c t ev Hinv)|intros c' H; now apply Keep].
  - cbn [exec]. unfold do_broadcast. destruct (t_phase (c_topic c t)); try (split; [exact Logic.I|discriminate]).
    rewrite (drop_list_nofull c t rcpts Nf). cbn. split; [exact Hinv|]. intros c' H. inversion H; subst. exact Nf.
  - destruct full; [discriminate NC|]. split; [exact (exec_good (LClog s false) c Hinv)|].
    cbn. intros c' H. inversion H; subst. intros s'. cbn. destruct (N.eq_dec s' s) as [->|Hn]; [now rewrite upd_same|rewrite upd_other by exact Hn; apply Nf].
Qed.

Lemma run_false_good : forall ls c, Inv c -> nofull c -> no_clog ls = true -> good (run false c ls).
Proof.
  induction ls as [|l r IH]; intros c Hinv Nf NC; cbn [run]; [exact Hinv|].
  cbn in NC. apply andb_prop in NC as [N1 N2]. fold (not_clog_true l) in N1.
  destruct (exec_false_good l c Hinv Nf N1) as [G K].
  destruct (exec false l c) as [c1| |]; [apply IH; [exact G|now apply K|exact N2]|destruct G|now apply IH].
Qed.

Lemma run_variant_partial ls : no_clog ls = true -> is_panic (run false init_cfg ls) = false.
Proof.
  intros H. pose proof (run_false_good ls init_cfg inv_init_cfg (fun _ => eq_refl) H) as G.
  destruct (run false init_cfg ls); [reflexivity|destruct G|reflexivity].
Qed.
