(* Lemmas about Sys/FanoutBkgC02.v (fan-out with background sessions and store faults).
   Part 1: the primitives (attach a session, evict a user, change a grant, new subscriber, drop a
   session) keep the invariants.  Part 2: every request keeps them, for every fault plan; a request
   whose store call failed changes nothing.  Part 3: histories. *)
From Coq Require Import ZArith NArith List Bool Lia Permutation.
From Coq Require Import ZifyBool ZifyNat ZifyN.
From Tinode Require Import Sys.Fanout Sys.FanoutProofs Sys.FanoutBkgC02.
Import ListNotations.
Open Scope N_scope.

(* ------------------------------------------------------------------ *)
(* the invariants *)

(* every attached session acts for a cached, not deleted user, who is a channel reader iff the session
   is a channel subscription *)
Definition att_x (st : state) : Prop :=
  forall s d, In (s, d) (st_sess st) ->
    exists p, lookup (ss_uid d) (st_users st) = Some p /\ pu_deleted p = false /\ pu_ischan p = ss_chan d.
(* the online counter of a channel reader is at least the number of his attached sessions (what the
   `delete(t.perUser, uid)` of handleLeaveRequest relies on); nothing of the kind holds for ordinary
   subscribers once background sessions exist *)
Definition online_chan (st : state) : Prop :=
  forall u p, lookup u (st_users st) = Some p -> pu_ischan p = true -> (Z.of_nat (cnt u (st_sess st)) <= pu_online p)%Z.
Definition bkg_ok (bkg : list sid) (st : state) : Prop :=
  forall s d, In (s, d) (st_sess st) -> mem s bkg = true -> ss_chan d = false.

(* the live grants according to the cache *)
Definition live_modes (st : state) (u : uid) : option (mode * mode) :=
  match lookup u (st_users st) with
  | Some p => if pu_deleted p || pu_ischan p then None else Some (pu_want p, pu_given p)
  | None => None
  end.
(* cached grants = stored grants: a live row exists exactly for the cached ordinary subscribers, with the same modes *)
Definition coh (x : xstate) : Prop := forall u, lookup u (x_rows x) = live_modes (x_st x) u.

Definition xinv (x : xstate) : Prop :=
  wf_sess (x_st x) /\ att_x (x_st x) /\ online_chan (x_st x) /\ bkg_ok (x_bkg x) (x_st x) /\ coh x.

(* no session of a banned / self-banned ordinary subscriber is attached *)
Definition joined (st : state) : Prop :=
  forall s d p, In (s, d) (st_sess st) -> lookup (ss_uid d) (st_users st) = Some p -> pu_ischan p = false ->
    has (pu_want p) bJ = true /\ has (pu_given p) bJ = true.

(* ------------------------------------------------------------------ *)
(* user lists that differ in the online counters only *)
Definition core (p : pud) := (pu_want p, pu_given p, pu_deleted p, pu_ischan p).
Definition same_core (us us' : list (uid * pud)) : Prop :=
  forall u, option_map core (lookup u us') = option_map core (lookup u us).

Lemma same_core_refl us : same_core us us. Proof. intros u. reflexivity. Qed.

Lemma same_core_update u f us : (forall p, core (f p) = core p) -> same_core us (update u f us).
Proof.
  intros Hf u2. destruct (N.eq_dec u2 u) as [->|E].
  - destruct (lookup u us) as [p|] eqn:Ep.
    + rewrite (lookup_update_same _ _ _ _ Ep). cbn. now rewrite Hf.
    + assert (En : lookup u (update u f us) = None) by (apply lookup_none; rewrite keys_update; now apply lookup_none).
      now rewrite En.
  - now rewrite lookup_update_other.
Qed.

Lemma same_core_upsert u f us p : lookup u us = Some p -> (forall q, core (f q) = core q) -> same_core us (upsert u f us).
Proof.
  intros Hp Hf u2. destruct (N.eq_dec u2 u) as [->|E].
  - rewrite lookup_upsert_same, Hp. cbn. now rewrite Hf.
  - now rewrite lookup_upsert_other.
Qed.

Lemma same_core_lookup us us' u p : same_core us us' -> lookup u us = Some p ->
  exists p', lookup u us' = Some p' /\ core p' = core p.
Proof.
  intros H Hp. specialize (H u). rewrite Hp in H. destruct (lookup u us') as [p'|]; cbn in H; [|discriminate].
  exists p'. split; [reflexivity|]. congruence.
Qed.

Lemma same_core_sym us us' : same_core us us' -> same_core us' us.
Proof. intros H u. now rewrite H. Qed.

Lemma core_fields p q : core p = core q ->
  pu_want p = pu_want q /\ pu_given p = pu_given q /\ pu_deleted p = pu_deleted q /\ pu_ischan p = pu_ischan q.
Proof. unfold core. intros H. inversion H. auto. Qed.

Lemma att_x_core st st' : st_sess st' = st_sess st -> same_core (st_users st) (st_users st') -> att_x st -> att_x st'.
Proof.
  intros Hs Hc H s d Hin. rewrite Hs in Hin. destruct (H s d Hin) as [p [Hp [Hd Hch]]].
  destruct (same_core_lookup _ _ _ _ Hc Hp) as [p' [Hp' Hcore]]. apply core_fields in Hcore.
  exists p'. split; [exact Hp'|]. destruct Hcore as [_ [_ [E1 E2]]]. split; congruence.
Qed.

Lemma joined_core st st' : st_sess st' = st_sess st -> same_core (st_users st) (st_users st') -> joined st -> joined st'.
Proof.
  intros Hs Hc H s d p' Hin Hp' Hch. rewrite Hs in Hin.
  destruct (same_core_lookup _ _ _ _ (same_core_sym _ _ Hc) Hp') as [p [Hp Hcore]]. apply core_fields in Hcore.
  destruct Hcore as [E1 [E2 [_ E4]]]. rewrite <- E1, <- E2. apply (H s d p Hin Hp). congruence.
Qed.

Lemma live_modes_core st st' : same_core (st_users st) (st_users st') -> forall u, live_modes st' u = live_modes st u.
Proof.
  intros Hc u. unfold live_modes. specialize (Hc u).
  destruct (lookup u (st_users st)) as [p|], (lookup u (st_users st')) as [p'|]; cbn in Hc; try discriminate; [|reflexivity].
  assert (E : core p' = core p) by congruence. apply core_fields in E. destruct E as [-> [-> [-> ->]]]. reflexivity.
Qed.

Lemma core_online n p : core (set_pud_online n p) = core p. Proof. reflexivity. Qed.

Lemma cnt_pos_in u (l : list (sid * psd)) : cnt u l <> 0%nat -> exists s d, In (s, d) l /\ ss_uid d = u.
Proof.
  unfold cnt. induction l as [|[s d] r IH]; cbn; [congruence|]. destruct (ss_uid d =? u) eqn:E.
  - intros _. exists s, d. split; [now left|now apply N.eqb_eq].
  - intros H. destruct (IH H) as [s' [d' [Hin Hu]]]. exists s', d'. split; [now right|exact Hu].
Qed.

Lemma has_key_evict st u b s : has_key s (st_sess st) = false -> has_key s (st_sess (evict_user st u b)) = false.
Proof.
  rewrite !has_key_false. intros H Hin. apply H. destruct (evict_user_sess st u b) as [E _]. rewrite E in Hin.
  apply in_map_iff in Hin. destruct Hin as [x [Hx Hin]]. apply filter_In in Hin. apply in_map_iff. exists x. tauto.
Qed.

(* a user who is not cached has no attached session *)
Lemma att_x_absent st u : att_x st -> lookup u (st_users st) = None -> cnt u (st_sess st) = 0%nat.
Proof.
  intros H Hn. apply cnt_zero. intros s d Hin Hu. destruct (H s d Hin) as [p [Hp _]]. rewrite Hu in Hp. congruence.
Qed.

(* ------------------------------------------------------------------ *)
(* evictUser *)
Lemma evict_other st u b u2 : u2 <> u -> lookup u2 (st_users (evict_user st u b)) = lookup u2 (st_users st).
Proof.
  intros Hne. unfold evict_user. cbn [st_users set_sess set_users]. destruct b.
  - destruct (st_kind st); [now apply lookup_remove_key_other|now apply lookup_remove_key_other|now apply lookup_upsert_other].
  - destruct (lookup u (st_users st)) as [p|]; [|reflexivity].
    destruct (pu_ischan p); [now apply lookup_remove_key_other|now apply lookup_update_other].
Qed.

Lemma evict_sess_in st u b s d : In (s, d) (st_sess (evict_user st u b)) <-> In (s, d) (st_sess st) /\ ss_uid d <> u.
Proof.
  destruct (evict_user_sess st u b) as [-> _]. rewrite filter_In. cbn. rewrite negb_true_iff, N.eqb_neq. tauto.
Qed.

(* the heart of the eviction paths: whatever the online counter says, no session of the user stays *)
Lemma evict_detaches_all st u b s d : In (s, d) (st_sess (evict_user st u b)) -> ss_uid d <> u.
Proof. intros H. now apply evict_sess_in in H. Qed.

Lemma att_x_evict st u b : att_x st -> att_x (evict_user st u b).
Proof.
  intros H s d Hin. apply evict_sess_in in Hin. destruct Hin as [Hin Hne]. rewrite evict_other by assumption. exact (H s d Hin).
Qed.

Lemma joined_evict st u b : joined st -> joined (evict_user st u b).
Proof.
  intros H s d p Hin. apply evict_sess_in in Hin. destruct Hin as [Hin Hne]. rewrite evict_other by assumption. exact (H s d p Hin).
Qed.

Lemma bkg_ok_evict bkg st u b : bkg_ok bkg st -> bkg_ok bkg (evict_user st u b).
Proof. intros H s d Hin. apply evict_sess_in in Hin. exact (H s d (proj1 Hin)). Qed.

Lemma online_chan_evict st u b : online_chan st -> online_chan (evict_user st u b).
Proof.
  intros H u2 p Hp Hch. destruct (evict_user_sess st u b) as [Hs _]. rewrite Hs.
  destruct (N.eq_dec u2 u) as [->|E].
  - rewrite cnt_filter_uid. revert Hp. unfold evict_user. cbn [st_users set_sess set_users]. destruct b.
    + destruct (st_kind st); try (rewrite lookup_remove_key_same; discriminate).
      rewrite lookup_upsert_same. intros Hp. inv Hp. cbn. lia.
    + destruct (lookup u (st_users st)) as [q|] eqn:Eq; [|rewrite Eq; discriminate].
      destruct (pu_ischan q) eqn:Eqc; [rewrite lookup_remove_key_same; discriminate|].
      rewrite (lookup_update_same _ _ _ _ Eq). intros Hp. inv Hp. cbn in Hch. congruence.
  - rewrite evict_other in Hp by assumption. specialize (H u2 p Hp Hch).
    pose proof (cnt_filter_le u2 (fun sd => negb (ss_uid (snd sd) =? u)) (st_sess st)). lia.
Qed.

Lemma live_modes_evict_false st u u2 : live_modes (evict_user st u false) u2 = live_modes st u2.
Proof.
  unfold live_modes. destruct (N.eq_dec u2 u) as [->|E]; [|now rewrite evict_other].
  unfold evict_user. cbn [st_users set_sess set_users]. destruct (lookup u (st_users st)) as [q|] eqn:Eq; [|now rewrite Eq].
  destruct (pu_ischan q) eqn:Ec.
  - rewrite lookup_remove_key_same. now rewrite orb_true_r.
  - rewrite (lookup_update_same _ _ _ _ Eq). cbn. now rewrite Ec.
Qed.

Lemma live_modes_evict_true st u u2 :
  live_modes (evict_user st u true) u2 = if u2 =? u then None else live_modes st u2.
Proof.
  unfold live_modes. destruct (N.eqb_spec u2 u) as [->|E]; [|now rewrite evict_other].
  unfold evict_user. cbn [st_users set_sess set_users].
  destruct (st_kind st); try (now rewrite lookup_remove_key_same). rewrite lookup_upsert_same. reflexivity.
Qed.

(* ------------------------------------------------------------------ *)
(* fields that the invariants do not read *)
Lemma att_x_same st st' : st_sess st' = st_sess st -> st_users st' = st_users st -> att_x st -> att_x st'.
Proof. unfold att_x. intros -> ->. auto. Qed.
Lemma online_chan_same st st' : st_sess st' = st_sess st -> st_users st' = st_users st -> online_chan st -> online_chan st'.
Proof. unfold online_chan. intros -> ->. auto. Qed.
Lemma joined_same st st' : st_sess st' = st_sess st -> st_users st' = st_users st -> joined st -> joined st'.
Proof. unfold joined. intros -> ->. auto. Qed.
Lemma bkg_ok_same bkg st st' : st_sess st' = st_sess st -> bkg_ok bkg st -> bkg_ok bkg st'.
Proof. unfold bkg_ok. intros ->. auto. Qed.
Lemma live_modes_same st st' : st_users st' = st_users st -> forall u, live_modes st' u = live_modes st u.
Proof. unfold live_modes. intros ->. reflexivity. Qed.

(* ------------------------------------------------------------------ *)
(* a grant changes: `t.perUser[uid] = userData` with new want / given *)
Section Modes.
  Variables (st : state) (u : uid) (p : pud) (w g : mode).
  Hypothesis Hp : lookup u (st_users st) = Some p.
  Let st1 := set_users (update u (set_pud_modes w g) (st_users st)) st.

  Lemma modes_lookup_same : lookup u (st_users st1) = Some (set_pud_modes w g p).
  Proof. unfold st1. cbn [st_users set_users]. now apply lookup_update_same. Qed.
  Lemma modes_lookup_other u2 : u2 <> u -> lookup u2 (st_users st1) = lookup u2 (st_users st).
  Proof. intros. unfold st1. cbn [st_users set_users]. now apply lookup_update_other. Qed.

  Lemma att_x_modes : att_x st -> att_x st1.
  Proof.
    intros H s d Hin. destruct (H s d Hin) as [q [Hq [Hd Hc]]]. destruct (N.eq_dec (ss_uid d) u) as [E|E].
    - rewrite E in *. rewrite modes_lookup_same. rewrite Hp in Hq. inv Hq. eexists. split; [reflexivity|]. cbn. auto.
    - rewrite modes_lookup_other by assumption. eauto.
  Qed.

  Lemma online_chan_modes : online_chan st -> online_chan st1.
  Proof.
    intros H u2 q Hq Hc. destruct (N.eq_dec u2 u) as [->|E].
    - rewrite modes_lookup_same in Hq. inv Hq. cbn in *. exact (H u p Hp Hc).
    - rewrite modes_lookup_other in Hq by assumption. exact (H u2 q Hq Hc).
  Qed.

  Lemma joined_modes : joined st ->
    (pu_ischan p = false -> cnt u (st_sess st) <> 0%nat -> has w bJ = true /\ has g bJ = true) -> joined st1.
  Proof.
    intros H Hwg s d q Hin Hq Hc. destruct (N.eq_dec (ss_uid d) u) as [E|E].
    - rewrite E, modes_lookup_same in Hq. injection Hq as Hq. subst q. cbn in *. apply (Hwg Hc).
      intros Hz. exact (cnt_zero_inv u _ s d Hz Hin E).
    - rewrite modes_lookup_other in Hq by assumption. exact (H s d q Hin Hq Hc).
  Qed.

  Lemma joined_modes_evict b : joined st -> joined (evict_user st1 u b).
  Proof.
    intros H s d q Hin. apply evict_sess_in in Hin. destruct Hin as [Hin Hne].
    rewrite evict_other, modes_lookup_other by assumption. exact (H s d q Hin).
  Qed.

  Lemma live_modes_modes u2 : pu_deleted p = false -> pu_ischan p = false ->
    live_modes st1 u2 = if u2 =? u then Some (w, g) else live_modes st u2.
  Proof.
    intros Hd Hc. unfold live_modes. destruct (N.eqb_spec u2 u) as [->|E].
    - rewrite modes_lookup_same. cbn. now rewrite Hd, Hc.
    - now rewrite modes_lookup_other.
  Qed.
End Modes.

(* ------------------------------------------------------------------ *)
(* a new cached user *)
Section NewUser.
  Variables (st : state) (u : uid) (p : pud).
  Hypothesis Hn : lookup u (st_users st) = None.
  Let st1 := set_users (st_users st ++ [(u, p)]) st.

  Lemma new_lookup_same : lookup u (st_users st1) = Some p.
  Proof. unfold st1. cbn [st_users set_users]. rewrite lookup_app, Hn. cbn. now rewrite N.eqb_refl. Qed.
  Lemma new_lookup_other u2 : u2 <> u -> lookup u2 (st_users st1) = lookup u2 (st_users st).
  Proof.
    intros E. unfold st1. cbn [st_users set_users]. rewrite lookup_app. destruct (lookup u2 (st_users st)); [reflexivity|].
    cbn. destruct (u2 =? u) eqn:E2; [apply N.eqb_eq in E2; congruence|reflexivity].
  Qed.

  Lemma att_x_new : att_x st -> att_x st1.
  Proof.
    intros H s d Hin. destruct (H s d Hin) as [q [Hq Hr]]. destruct (N.eq_dec (ss_uid d) u) as [E|E].
    - rewrite E in Hq. congruence.
    - rewrite new_lookup_other by assumption. eauto.
  Qed.

  Lemma online_chan_new : att_x st -> online_chan st -> (0 <= pu_online p)%Z -> online_chan st1.
  Proof.
    intros Ha H Ho u2 q Hq Hc. destruct (N.eq_dec u2 u) as [->|E].
    - rewrite new_lookup_same in Hq. inv Hq. cbn [st_sess st1 set_users]. rewrite (att_x_absent st u Ha Hn). cbn. lia.
    - rewrite new_lookup_other in Hq by assumption. exact (H u2 q Hq Hc).
  Qed.

  Lemma joined_new : att_x st -> joined st -> joined st1.
  Proof.
    intros Ha H s d q Hin Hq Hc. destruct (N.eq_dec (ss_uid d) u) as [E|E].
    - destruct (Ha s d Hin) as [q' [Hq' _]]. rewrite E in Hq'. congruence.
    - rewrite new_lookup_other in Hq by assumption. exact (H s d q Hin Hq Hc).
  Qed.

  Lemma live_modes_new u2 :
    live_modes st1 u2 = if u2 =? u then (if pu_deleted p || pu_ischan p then None else Some (pu_want p, pu_given p)) else live_modes st u2.
  Proof.
    unfold live_modes. destruct (N.eqb_spec u2 u) as [->|E]; [now rewrite new_lookup_same|now rewrite new_lookup_other].
  Qed.
End NewUser.

(* ------------------------------------------------------------------ *)
(* subscriptionReply: addSession, online++ unless the connection is a background one *)
Lemma xadd_sess st bkg s u c : has_key s (st_sess st) = false ->
  st_sess (xadd_session st bkg s u c) = st_sess st ++ [(s, mkPsd u c)].
Proof. intros H. unfold xadd_session. rewrite H. destruct bkg; reflexivity. Qed.

Lemma xadd_users_core st bkg s u c p : lookup u (st_users st) = Some p ->
  same_core (st_users st) (st_users (xadd_session st bkg s u c)).
Proof.
  intros Hp. unfold xadd_session. destruct bkg; destruct (has_key s (st_sess st)); cbn [st_users set_users set_sess];
    try apply same_core_refl; apply (same_core_upsert _ _ _ p Hp); reflexivity.
Qed.

Section Add.
  Variables (st : state) (bkg : bool) (s : sid) (u : uid) (c : bool) (p : pud).
  Hypothesis Hk : has_key s (st_sess st) = false.
  Hypothesis Hp : lookup u (st_users st) = Some p.
  Hypothesis Hd : pu_deleted p = false.
  Hypothesis Hc : pu_ischan p = c.
  Let st1 := xadd_session st bkg s u c.

  Lemma wf_xadd : wf_sess st -> wf_sess st1.
  Proof. intros H. unfold wf_sess, st1. rewrite xadd_sess by assumption. apply NoDup_keys_app_new; [assumption|]. now apply has_key_false. Qed.

  Lemma xadd_in s' d : In (s', d) (st_sess st1) <-> In (s', d) (st_sess st) \/ (s', d) = (s, mkPsd u c).
  Proof.
    unfold st1. rewrite xadd_sess by assumption. rewrite in_app_iff. cbn. split.
    - intros [H|[H|[]]]; [now left|right; now symmetry].
    - intros [H|H]; [now left|right; left; now symmetry].
  Qed.

  Lemma att_x_xadd : att_x st -> att_x st1.
  Proof.
    intros H s' d Hin. apply xadd_in in Hin.
    assert (Hcore := xadd_users_core st bkg s u c p Hp). fold st1 in Hcore.
    destruct Hin as [Hin|Hin].
    - destruct (H s' d Hin) as [q [Hq [Hdq Hcq]]]. destruct (same_core_lookup _ _ _ _ Hcore Hq) as [q' [Hq' E]].
      apply core_fields in E. destruct E as [_ [_ [E1 E2]]]. exists q'. split; [exact Hq'|]. split; congruence.
    - inv Hin. cbn. destruct (same_core_lookup _ _ _ _ Hcore Hp) as [q' [Hq' E]].
      apply core_fields in E. destruct E as [_ [_ [E1 E2]]]. exists q'. split; [exact Hq'|]. split; congruence.
  Qed.

  Lemma joined_xadd : joined st -> (c = false -> has (pu_want p) bJ = true /\ has (pu_given p) bJ = true) -> joined st1.
  Proof.
    intros H HJ s' d q Hin Hq Hcq.
    assert (Hcore := xadd_users_core st bkg s u c p Hp). fold st1 in Hcore.
    destruct (same_core_lookup _ _ _ _ (same_core_sym _ _ Hcore) Hq) as [q0 [Hq0 E]]. apply core_fields in E.
    destruct E as [E1 [E2 [_ E4]]]. rewrite <- E1, <- E2. apply xadd_in in Hin. destruct Hin as [Hin|Hin].
    - apply (H s' d q0 Hin Hq0). congruence.
    - inv Hin. cbn in Hq0. rewrite Hp in Hq0. inv Hq0. apply HJ. congruence.
  Qed.

  Lemma bkg_ok_xadd l : bkg_ok l st -> (mem s l = true -> c = false) -> bkg_ok l st1.
  Proof.
    intros H Hb s' d Hin Hm. apply xadd_in in Hin. destruct Hin as [Hin|Hin]; [exact (H s' d Hin Hm)|]. inv Hin. cbn. auto.
  Qed.

  Lemma online_chan_xadd : online_chan st -> (c = true -> bkg = false) -> online_chan st1.
  Proof.
    intros H Hb u2 q Hq Hcq. unfold st1 in *. rewrite xadd_sess by assumption. rewrite cnt_app.
    unfold xadd_session in Hq. rewrite Hk in Hq. destruct (N.eq_dec u2 u) as [->|E].
    - rewrite N.eqb_refl. destruct bkg; cbn [st_users set_users set_sess] in Hq.
      + rewrite Hp in Hq. inv Hq. specialize (Hb Hcq). discriminate.
      + rewrite lookup_upsert_same, Hp in Hq. inv Hq. cbn in *. specialize (H u p Hp Hcq). lia.
    - destruct (u =? u2) eqn:E2; [apply N.eqb_eq in E2; congruence|].
      destruct bkg; cbn [st_users set_users set_sess] in Hq; [|rewrite lookup_upsert_other in Hq by assumption];
        specialize (H u2 q Hq Hcq); lia.
  Qed.

  Lemma live_modes_xadd u2 : live_modes st1 u2 = live_modes st u2.
  Proof. apply live_modes_core. exact (xadd_users_core st bkg s u c p Hp). Qed.
End Add.

(* ------------------------------------------------------------------ *)
(* a session leaves the table *)
Lemma att_x_remove_sess st s : att_x st -> att_x (set_sess (remove_key s (st_sess st)) st).
Proof. intros H s' d Hin. cbn [st_sess st_users set_sess] in *. apply in_remove_key in Hin. exact (H s' d (proj1 Hin)). Qed.
Lemma joined_remove_sess st s : joined st -> joined (set_sess (remove_key s (st_sess st)) st).
Proof. intros H s' d p Hin. cbn [st_sess st_users set_sess] in *. apply in_remove_key in Hin. exact (H s' d p (proj1 Hin)). Qed.
Lemma bkg_ok_remove_sess bkg st s : bkg_ok bkg st -> bkg_ok bkg (set_sess (remove_key s (st_sess st)) st).
Proof. intros H s' d Hin. cbn [st_sess set_sess] in *. apply in_remove_key in Hin. exact (H s' d (proj1 Hin)). Qed.
Lemma online_chan_remove_sess st s : online_chan st -> online_chan (set_sess (remove_key s (st_sess st)) st).
Proof.
  intros H u p Hp Hc. cbn [st_sess st_users set_sess] in *. specialize (H u p Hp Hc). pose proof (cnt_remove_le u s (st_sess st)). lia.
Qed.

(* `delete(t.perUser, uid)` of a user without attached sessions *)
Section RemoveUser.
  Variables (st : state) (u : uid).
  Hypothesis Hz : cnt u (st_sess st) = 0%nat.
  Let st1 := set_users (remove_key u (st_users st)) st.

  Lemma att_x_remove_user : att_x st -> att_x st1.
  Proof.
    intros H s d Hin. cbn [st_sess st_users st1 set_users] in *. pose proof (cnt_zero_inv u _ s d Hz Hin) as Hne.
    rewrite lookup_remove_key_other by assumption. exact (H s d Hin).
  Qed.
  Lemma joined_remove_user : joined st -> joined st1.
  Proof.
    intros H s d p Hin. cbn [st_sess st_users st1 set_users] in *. pose proof (cnt_zero_inv u _ s d Hz Hin) as Hne.
    rewrite lookup_remove_key_other by assumption. exact (H s d p Hin).
  Qed.
  Lemma online_chan_remove_user : online_chan st -> online_chan st1.
  Proof.
    intros H u2 p Hp Hc. cbn [st_sess st_users st1 set_users] in *. destruct (N.eq_dec u2 u) as [->|E].
    - rewrite lookup_remove_key_same in Hp. discriminate.
    - rewrite lookup_remove_key_other in Hp by assumption. exact (H u2 p Hp Hc).
  Qed.
  Lemma live_modes_remove_user u2 : live_modes st u = None -> live_modes st1 u2 = live_modes st u2.
  Proof.
    intros Hl. unfold live_modes in *. cbn [st_users st1 set_users]. destruct (N.eq_dec u2 u) as [->|E].
    - rewrite lookup_remove_key_same. now rewrite Hl.
    - now rewrite lookup_remove_key_other.
  Qed.
End RemoveUser.

Lemma mem_rm s k l : mem s (rm k l) = true -> mem s l = true.
Proof.
  unfold rm. induction l as [|y r IH]; cbn; [auto|]. destruct (negb (y =? k)); cbn.
  - rewrite !orb_true_iff. intros [H|H]; auto.
  - intros H. rewrite orb_true_iff. auto.
Qed.
Lemma mem_rm_same s l : mem s (rm s l) = false.
Proof.
  unfold rm. induction l as [|y r IH]; cbn; [reflexivity|]. destruct (y =? s) eqn:E; cbn; [exact IH|].
  rewrite IH, orb_false_r. rewrite N.eqb_sym. exact E.
Qed.

(* the online counter of one cached user changes *)
Section Online.
  Variables (st : state) (u : uid) (p : pud) (f : pud -> pud).
  Hypothesis Hp : lookup u (st_users st) = Some p.
  Hypothesis Hf : forall q, core (f q) = core q.
  Let st1 := set_users (upsert u f (st_users st)) st.

  Lemma online_core : same_core (st_users st) (st_users st1).
  Proof. unfold st1. cbn [st_users set_users]. now apply (same_core_upsert _ _ _ p). Qed.
  Lemma att_x_online : att_x st -> att_x st1.
  Proof. apply att_x_core; [reflexivity|exact online_core]. Qed.
  Lemma joined_online : joined st -> joined st1.
  Proof. apply joined_core; [reflexivity|exact online_core]. Qed.
  Lemma live_modes_online u2 : live_modes st1 u2 = live_modes st u2.
  Proof. apply live_modes_core. exact online_core. Qed.
  Lemma online_chan_online : online_chan st -> (pu_ischan p = true -> (Z.of_nat (cnt u (st_sess st)) <= pu_online (f p))%Z) -> online_chan st1.
  Proof.
    intros H Hn u2 q Hq Hc. unfold st1 in *. cbn [st_users st_sess set_users] in *. destruct (N.eq_dec u2 u) as [->|E].
    - rewrite lookup_upsert_same, Hp in Hq. inv Hq. apply Hn. pose proof (Hf p) as E. apply core_fields in E. destruct E as [_ [_ [_ E]]]. congruence.
    - rewrite lookup_upsert_other in Hq by assumption. exact (H u2 q Hq Hc).
  Qed.
End Online.

(* unregisterSession of a dropped session *)
Lemma xdrop_sess bkg st s : st_sess (xdrop_session bkg st s) = remove_key s (st_sess st).
Proof.
  unfold xdrop_session. destruct (lookup s (st_sess st)) as [d|] eqn:E.
  - destruct (ss_chan d); [reflexivity|]. destruct (mem s bkg); reflexivity.
  - symmetry. unfold remove_key. apply filter_all_true. intros [k v] Hin. cbn.
    apply negb_true_iff, N.eqb_neq. intros ->. apply lookup_none in E. apply E. change s with (fst (s, v)). now apply in_map.
Qed.
Lemma xdrop_fields bkg st s : st_lastid (xdrop_session bkg st s) = st_lastid st /\ st_kind (xdrop_session bkg st s) = st_kind st.
Proof. unfold xdrop_session. destruct (lookup s (st_sess st)) as [d|]; [|auto]. destruct (ss_chan d); [auto|]. destruct (mem s bkg); auto. Qed.

Lemma xdrop_keeps bkg st s :
  wf_sess st -> att_x st -> online_chan st ->
  wf_sess (xdrop_session bkg st s) /\ att_x (xdrop_session bkg st s) /\ online_chan (xdrop_session bkg st s) /\
  (forall l, bkg_ok l st -> bkg_ok l (xdrop_session bkg st s)) /\
  (joined st -> joined (xdrop_session bkg st s)) /\
  (forall u, live_modes (xdrop_session bkg st s) u = live_modes st u).
Proof.
  intros Hw Ha Ho. unfold xdrop_session. destruct (lookup s (st_sess st)) as [d|] eqn:E.
  2:{ split; [exact Hw|]. split; [exact Ha|]. split; [exact Ho|]. split; [auto|]. split; [auto|]. reflexivity. }
  pose proof (lookup_in _ _ _ E) as Hin. destruct (Ha s d Hin) as [p [Hp [Hd Hc]]].
  set (st0 := set_sess (remove_key s (st_sess st)) st).
  assert (B0 : wf_sess st0 /\ att_x st0 /\ online_chan st0 /\ (forall l, bkg_ok l st -> bkg_ok l st0) /\ (joined st -> joined st0) /\
               (forall u, live_modes st0 u = live_modes st u)).
  { split; [now apply wf_remove_key|]. split; [now apply att_x_remove_sess|]. split; [now apply online_chan_remove_sess|].
    split; [intros l; apply bkg_ok_remove_sess|]. split; [apply joined_remove_sess|]. intros u. reflexivity. }
  destruct (ss_chan d) eqn:Ec; [exact B0|]. destruct (mem s bkg); [exact B0|].
  destruct B0 as [B1 [B2 [B3 [B4 [B5 B6]]]]].
  assert (Hp0 : lookup (ss_uid d) (st_users st0) = Some p) by exact Hp.
  split; [exact B1|]. split; [apply (att_x_online st0 (ss_uid d) p); auto|].
  split; [apply (online_chan_online st0 (ss_uid d) p); auto; intros; congruence|].
  split; [intros l Hl; apply (bkg_ok_same l st0); auto|].
  split; [intros Hj; apply (joined_online st0 (ss_uid d) p); auto|].
  intros u. rewrite (live_modes_online st0 (ss_uid d) p); auto.
Qed.

Lemma xdrop_fold bkg l : forall st,
  wf_sess st -> att_x st -> online_chan st ->
  let st' := fold_left (xdrop_session bkg) l st in
  wf_sess st' /\ att_x st' /\ online_chan st' /\ (forall b, bkg_ok b st -> bkg_ok b st') /\ (joined st -> joined st') /\
  (forall u, live_modes st' u = live_modes st u) /\ st_lastid st' = st_lastid st.
Proof.
  induction l as [|s r IH]; intros st Hw Ha Ho; cbn [fold_left].
  - cbv zeta. split; [exact Hw|]. split; [exact Ha|]. split; [exact Ho|]. split; [auto|]. split; [auto|]. split; reflexivity.
  - cbv zeta. destruct (xdrop_keeps bkg st s Hw Ha Ho) as [A1 [A2 [A3 [A4 [A5 A6]]]]].
    destruct (IH _ A1 A2 A3) as [C1 [C2 [C3 [C4 [C5 [C6 C7]]]]]].
    split; [exact C1|]. split; [exact C2|]. split; [exact C3|]. split; [intros b Hb; apply C4, A4, Hb|].
    split; [intros Hj; apply C5, A5, Hj|]. split; [intros u; now rewrite C6, A6|].
    rewrite C7. apply xdrop_fields.
Qed.
