(* C08: two caches that agree on the stored fields (same sessions, same table size, same push
   recipients) are indistinguishable: every handler produces the same store, the same replies and
   the same attached sessions from either.  With the invariant this makes a reload invisible
   wherever it is inserted in a history. *)
From Coq Require Import ZArith NArith List Bool Lia Permutation.
From Tinode Require Import Base.Util Pure.Acs Sys.Topic Sys.TopicTac Sys.TopicFrame Sys.TopicNum Sys.TopicNumThm
  Sys.TopicCohC08 Sys.TopicCohC08Proofs Sys.TopicCohC08Step Sys.TopicCohC08Run Sys.TopicCohC08Query Sys.TopicCohC08Keys.
Import ListNotations.
Open Scope Z_scope.

Definition sim (c d : cache) : Prop :=
  cache_agree c d /\ c_sess c = c_sess d /\ length (c_users c) = length (c_users d) /\ push_rcpt c = push_rcpt d.

(* what a handler result shows to the outside *)
Definition obs (h : hres) : store * nat * out * list (N * (N * bool)) := (h_st h, h_n h, h_out h, c_sess (h_ca h)).

Lemma sim_scal c d : sim c d ->
  c_lastid c = c_lastid d /\ c_delid c = c_delid d /\ c_owner c = c_owner d /\ c_auth c = c_auth d /\ c_anon c = c_anon d.
Proof. intros [[E1 [E2 [E3 [E4 [E5 _]]]]] _]. repeat split; assumption. Qed.

Lemma sim_lookup c d u : sim c d ->
  match alookup u (c_users c), alookup u (c_users d) with
  | Some p, Some q => core p = core q
  | None, None => True
  | _, _ => False
  end.
Proof.
  intros [[_ [_ [_ [_ [_ P]]]]] _]. specialize (P u).
  destruct (alookup u (c_users c)), (alookup u (c_users d)); cbn in P; try discriminate; [unfold core in *; congruence|exact I].
Qed.

Lemma sim_mode c d u : sim c d -> user_mode c u = user_mode d u.
Proof. intros [A _]. apply agree_mode. exact A. Qed.

Lemma sim_pud c d u : sim c d -> core (get_pud c u) = core (get_pud d u).
Proof.
  intros S. pose proof (sim_lookup c d u S) as L. unfold get_pud.
  destruct (alookup u (c_users c)), (alookup u (c_users d)); try contradiction; [exact L|reflexivity].
Qed.

Lemma sim_fanout_data c d skip fr : sim c d -> fanout_data c skip fr = fanout_data d skip fr.
Proof.
  intros S. unfold fanout_data. destruct S as [A [ES _]]. rewrite ES.
  apply flat_map_ext. intros [sid [u b]]. rewrite (agree_mode c d u A). reflexivity.
Qed.
Lemma sim_fanout_info c d skip what from seq : sim c d -> fanout_info c skip what from seq = fanout_info d skip what from seq.
Proof.
  intros S. unfold fanout_info. destruct S as [A [ES _]]. rewrite ES.
  apply flat_map_ext. intros [sid [u b]]. rewrite (agree_mode c d u A). reflexivity.
Qed.
Lemma sim_push c d seq u : sim c d -> push_out c seq u = push_out d seq u.
Proof. intros [_ [_ [_ EP]]]. unfold push_out. rewrite EP. reflexivity. Qed.

(* eviction: replies and remaining sessions depend on the session list only *)
Lemma evict_obs c d u b k :
  c_sess c = c_sess d ->
  snd (evict_user c u b k) = snd (evict_user d u b k) /\ c_sess (fst (evict_user c u b k)) = c_sess (fst (evict_user d u b k)).
Proof.
  intros ES. unfold evict_user. cbn [fst snd]. split; [rewrite ES; reflexivity|].
  destruct b; cbn [c_sess c_set_users c_set_sess c_users]; [rewrite ES; reflexivity|].
  destruct (alookup u (c_users c)), (alookup u (c_users d)); cbn [c_sess c_set_users c_set_sess]; rewrite ES; reflexivity.
Qed.

(* destruct the two records of one user into the same stored fields *)
Ltac same_pud c d u S :=
  let L := fresh "L" in
  pose proof (sim_lookup c d u S) as L;
  destruct (alookup u (c_users c)) as [[? ? ? ? ? ?]|] eqn:?, (alookup u (c_users d)) as [[? ? ? ? ? ?]|] eqn:?;
  try contradiction; [unfold core in L; cbn in L; inv L|].

Lemma get_data_sim f s c d n sid u a b l : sim c d -> obs (get_data f s c n sid u a b l) = obs (get_data f s d n sid u a b l).
Proof.
  intros S. unfold get_data, obs. rewrite <- (sim_mode c d u S). destruct S as [_ [ES _]].
  repeat break_match; cbn [h_st h_n h_out h_ca]; rewrite ES; reflexivity.
Qed.
Lemma get_sub_sim f s c d n sid u : sim c d -> obs (get_sub f s c n sid u) = obs (get_sub f s d n sid u).
Proof.
  intros S. unfold get_sub, obs. rewrite <- (sim_mode c d u S). destruct S as [_ [ES _]].
  repeat break_match; cbn [h_st h_n h_out h_ca]; rewrite ES; reflexivity.
Qed.
Lemma get_del_sim nr f s c d n sid u a b l : sim c d -> obs (get_del nr f s c n sid u a b l) = obs (get_del nr f s d n sid u a b l).
Proof.
  intros S. unfold get_del, obs. rewrite <- (sim_mode c d u S). destruct S as [_ [ES _]].
  repeat break_match; cbn [h_st h_n h_out h_ca]; rewrite ES; reflexivity.
Qed.
Lemma get_desc_sim s c d n sid u : sim c d -> obs (get_desc s c n sid u) = obs (get_desc s d n sid u).
Proof.
  intros S. destruct (sim_scal c d S) as [E1 [E2 _]]. unfold get_desc, obs.
  same_pud c d u S; destruct S as [_ [ES _]]; unfold pud_mode; cbn [p_want p_given p_read p_recv p_delid];
    rewrite ?E1, ?E2; repeat break_match; cbn [h_st h_n h_out h_ca]; rewrite ES; reflexivity.
Qed.

(* the weak form: pointwise agreement + same sessions; enough for fan-out *)
Definition wsim (c d : cache) : Prop := cache_agree c d /\ c_sess c = c_sess d.
Lemma sim_wsim c d : sim c d -> wsim c d.
Proof. intros [A [E _]]. split; assumption. Qed.
Lemma wsim_aset c d u p q : wsim c d -> core p = core q -> wsim (c_set_users (aset u p) c) (c_set_users (aset u q) d).
Proof.
  intros [[E1 [E2 [E3 [E4 [E5 P]]]]] ES] EC. split; [|exact ES]. repeat split; try assumption.
  intros v. cbn [c_users c_set_users]. rewrite !alookup_aset. destruct (N.eqb v u); [cbn; congruence|apply P].
Qed.
Lemma wsim_lastid c d v : wsim c d -> wsim (c_set_lastid v c) (c_set_lastid v d).
Proof. intros [[E1 [E2 [E3 [E4 [E5 P]]]]] ES]. split; [|exact ES]. repeat split; assumption. Qed.
Lemma wsim_fanout_data c d skip fr : wsim c d -> fanout_data c skip fr = fanout_data d skip fr.
Proof.
  intros [A ES]. unfold fanout_data. rewrite ES.
  apply flat_map_ext. intros [sid [u b]]. rewrite (agree_mode c d u A). reflexivity.
Qed.
Lemma wsim_fanout_info c d skip what from seq : wsim c d -> fanout_info c skip what from seq = fanout_info d skip what from seq.
Proof.
  intros [A ES]. unfold fanout_info. rewrite ES.
  apply flat_map_ext. intros [sid [u b]]. rewrite (agree_mode c d u A). reflexivity.
Qed.

Lemma keys_filter_aset (P : N * pud -> bool) u p p' l :
  alookup u l = Some p -> (forall k, P (k, p') = P (k, p)) ->
  map fst (filter P (aset u p' l)) = map fst (filter P l).
Proof.
  intros L HP. induction l as [|[k0 v0] l IH]; cbn in *; [discriminate|].
  destruct (N.eqb_spec u k0) as [->|NE]; cbn.
  - inv L. rewrite HP. destruct (P (k0, p)); reflexivity.
  - destruct (P (k0, v0)); cbn; rewrite IH by exact L; reflexivity.
Qed.
Lemma push_rcpt_aset c u p p' :
  alookup u (c_users c) = Some p -> pud_mode p' = pud_mode p -> push_rcpt (c_set_users (aset u p') c) = push_rcpt c.
Proof.
  intros L M. unfold push_rcpt. cbn [c_users c_set_users]. f_equal. apply (keys_filter_aset _ u p p'); [exact L|].
  intros k. cbn [snd]. rewrite M. reflexivity.
Qed.

Lemma note_sim f s c d n sid u what seq : sim c d -> obs (note f s c n sid u what seq) = obs (note f s d n sid u what seq).
Proof.
  intros S. destruct (sim_scal c d S) as [E1 _]. pose proof (sim_pud c d u S) as EP. pose proof (sim_wsim c d S) as W.
  unfold note, obs. rewrite <- E1. unfold pud_mode.
  destruct (get_pud c u) as [w g r rc dl on], (get_pud d u) as [w' g' r' rc' dl' on']. unfold core in EP. cbn in EP. inv EP.
  cbn [p_want p_given p_read p_recv p_delid].
  repeat break_match; cbn [h_st h_n h_out h_ca c_sess c_set_users]; rewrite ?(proj2 W); try reflexivity.
  all: erewrite wsim_fanout_info; [reflexivity|first [exact W|apply wsim_aset; [exact W|reflexivity]]].
Qed.

Lemma push_out_aset_sim c d u p q p' q' x y :
  push_rcpt c = push_rcpt d -> alookup u (c_users c) = Some p -> alookup u (c_users d) = Some q ->
  pud_mode p' = pud_mode p -> pud_mode q' = pud_mode q ->
  push_out (c_set_users (aset u p') (c_set_lastid x c)) y u = push_out (c_set_users (aset u q') (c_set_lastid x d)) y u.
Proof.
  intros PR Lc Ld Mp Mq. unfold push_out.
  rewrite (push_rcpt_aset (c_set_lastid x c) u p p' Lc Mp), (push_rcpt_aset (c_set_lastid x d) u q q' Ld Mq).
  unfold push_rcpt in *. cbn [c_users c_set_lastid]. rewrite PR. reflexivity.
Qed.

Lemma publish_sim f s c d n sid u content noecho :
  sim c d -> obs (publish f s c n sid u content noecho) = obs (publish f s d n sid u content noecho).
Proof.
  intros S. destruct (sim_scal c d S) as [E1 _]. pose proof (sim_wsim c d S) as W.
  assert (push_rcpt c = push_rcpt d) as PR by apply S.
  unfold publish, obs. unfold get_pud. rewrite <- E1.
  pose proof (sim_lookup c d u S) as L.
  destruct (alookup u (c_users c)) as [p|] eqn:Lc, (alookup u (c_users d)) as [q|] eqn:Ld; try contradiction.
  - assert (pud_mode q = pud_mode p) as EM by (unfold pud_mode, core in *; inv L; congruence). rewrite EM.
    repeat break_match; cbn [h_st h_n h_out h_ca c_sess c_set_users c_set_lastid]; rewrite ?(proj2 W); try reflexivity.
    all: erewrite push_out_aset_sim;
      [erewrite wsim_fanout_data; [reflexivity|apply wsim_aset; [apply wsim_lastid; exact W|unfold core in *; cbn; inv L; reflexivity]]
      |exact PR|exact Lc|exact Ld|reflexivity|reflexivity].
  - unfold pud_mode, blank_pud. cbn. rewrite ?(proj2 W). reflexivity.
Qed.

Lemma del_msg_sim dr f s c d n sid u req hard :
  sim c d -> obs (del_msg dr f s c n sid u req hard) = obs (del_msg dr f s d n sid u req hard).
Proof.
  intros S. destruct (sim_scal c d S) as [E1 [E2 _]]. pose proof (sim_wsim c d S) as W.
  unfold del_msg, obs. rewrite <- (sim_mode c d u S), <- E1, <- E2.
  repeat break_match; cbn [h_st h_n h_out h_ca c_sess c_set_users c_set_delid]; rewrite ?(proj2 W); reflexivity.
Qed.

Lemma del_sub_sim f s c d n sid u t :
  sim c d -> obs (del_sub f s c n sid u t) = obs (del_sub f s d n sid u t).
Proof.
  intros S. pose proof (sim_wsim c d S) as W. unfold del_sub, obs. rewrite <- (sim_mode c d u S).
  pose proof (sim_lookup c d t S) as L.
  destruct (alookup t (c_users c)) as [p|] eqn:Lc, (alookup t (c_users d)) as [q|] eqn:Ld; try contradiction.
  - assert (pud_mode q = pud_mode p /\ p_want q = p_want p) as [EM EW] by (unfold pud_mode, core in *; inv L; split; congruence).
    rewrite EM, EW.
    destruct (evict_obs c d t true 0 (proj2 W)) as [EO ESS].
    destruct (evict_user c t true 0) as [c1 o1], (evict_user d t true 0) as [d1 o2]. cbn [fst snd] in EO, ESS. subst o2.
    repeat break_match; cbn [h_st h_n h_out h_ca]; rewrite ?(proj2 W), ?ESS; try reflexivity;
      repeat match goal with H : (_, _) = (_, _) |- _ => inv H end; rewrite ?ESS; reflexivity.
  - repeat break_match; cbn [h_st h_n h_out h_ca]; rewrite ?(proj2 W); reflexivity.
Qed.

Lemma leave_unsub_sim f s c d n sid u :
  sim c d -> obs (leave_unsub f s c n sid u) = obs (leave_unsub f s d n sid u).
Proof.
  intros S. pose proof (sim_wsim c d S) as W. destruct (sim_scal c d S) as [_ [_ [E3 _]]].
  unfold leave_unsub, obs. rewrite <- E3.
  destruct (evict_obs c d u true sid (proj2 W)) as [EO ESS].
  destruct (evict_user c u true sid) as [c1 o1], (evict_user d u true sid) as [d1 o2]. cbn [fst snd] in EO, ESS. subst o2.
  repeat break_match; cbn [h_st h_n h_out h_ca]; rewrite ?(proj2 W), ?ESS; reflexivity.
Qed.

Lemma leave_sim c d sid u :
  sim c d -> snd (leave c sid u) = snd (leave d sid u) /\ c_sess (fst (leave c sid u)) = c_sess (fst (leave d sid u)).
Proof.
  intros S. pose proof (sim_wsim c d S) as [_ ES]. unfold leave. rewrite ES.
  destruct (alookup sid (c_sess d)) as [[su bkg]|]; cbn [fst snd]; [|split; [reflexivity|exact ES]].
  cbn [c_users c_set_sess].
  destruct (alookup su (c_users c)), (alookup su (c_users d)); destruct bkg; cbn [fst snd c_sess c_set_sess c_set_users]; rewrite ES; split; reflexivity.
Qed.

(* evictUser split into the new cache and the replies (which depend on the session list only) *)
Definition evict_cache (c : cache) (u : N) (unsub : bool) : cache := fst (evict_user c u unsub 0%N).
Definition evict_out (ss : list (N * (N * bool))) (u : N) (unsub : bool) (skip : N) : out :=
  flat_map (fun e => if N.eqb (fst e) skip then [] else [(fst e, Evicted unsub)]) (filter (fun e => N.eqb (fst (snd e)) u) ss).
Lemma evict_user_eq c u b k : evict_user c u b k = (evict_cache c u b, evict_out (c_sess c) u b k).
Proof. reflexivity. Qed.
Lemma evict_cache_sess c u b : c_sess (evict_cache c u b) = filter (fun e => negb (N.eqb (fst (snd e)) u)) (c_sess c).
Proof.
  unfold evict_cache, evict_user. cbn [fst]. destruct b; cbn [c_sess c_set_users c_set_sess c_users]; [reflexivity|].
  destruct (alookup u (c_users c)); reflexivity.
Qed.
Global Opaque evict_cache.

Ltac evict_norm := repeat match goal with H : evict_user _ _ _ _ = (_, _) |- _ => rewrite evict_user_eq in H; inv H end.

Definition obs2 (hr : hres * sub_res) := (obs (fst hr), snd hr).

Lemma another_user_sub_sim f s c d n sid u target mode :
  sim c d -> obs2 (another_user_sub f s c n sid u target mode) = obs2 (another_user_sub f s d n sid u target mode).
Proof.
  intros S. pose proof (sim_wsim c d S) as [_ ES]. destruct (sim_scal c d S) as [_ [_ [E3 [E4 _]]]].
  assert (length (c_users c) = length (c_users d)) as EL by apply S.
  unfold another_user_sub, obs2, obs. rewrite <- E3, <- E4, <- EL.
  pose proof (sim_lookup c d u S) as Lu. pose proof (sim_lookup c d target S) as Lt.
  destruct (alookup u (c_users c)) as [pu|], (alookup u (c_users d)) as [qu|]; try contradiction.
  2:{ cbn [fst snd h_st h_n h_out h_ca]. rewrite ES. reflexivity. }
  assert (pud_mode qu = pud_mode pu) as EM by (unfold pud_mode, core in *; inv Lu; congruence). rewrite EM.
  destruct (alookup target (c_users c)) as [pt|], (alookup target (c_users d)) as [qt|]; try contradiction.
  - assert (p_given qt = p_given pt /\ p_want qt = p_want pt) as [EG EW] by (unfold core in *; inv Lt; split; congruence).
    rewrite EG, EW.
    repeat break_match; evict_norm; cbn [fst snd h_st h_n h_out h_ca c_sess c_set_users]; rewrite ?evict_cache_sess; cbn [c_sess c_set_users]; rewrite ?ES; reflexivity.
  - repeat break_match; evict_norm; cbn [fst snd h_st h_n h_out h_ca c_sess c_set_users]; rewrite ?evict_cache_sess; cbn [c_sess c_set_users]; rewrite ?ES; reflexivity.
Qed.

Lemma tus_finish_sim u nb w1 g1 ow og s3 c3 d3 n3 :
  c_sess c3 = c_sess d3 -> obs2 (tus_finish u nb w1 g1 ow og s3 c3 n3) = obs2 (tus_finish u nb w1 g1 ow og s3 d3 n3).
Proof.
  intros ES. unfold tus_finish, obs2, obs.
  repeat break_match; evict_norm; cbn [fst snd h_st h_n h_out h_ca c_sess c_set_users]; rewrite ?evict_cache_sess; cbn [c_sess c_set_users]; rewrite ?ES; reflexivity.
Qed.

Lemma tus_new_sim f s c d n u mw nb : sim c d -> obs2 (tus_new f s c n u mw nb) = obs2 (tus_new f s d n u mw nb).
Proof.
  intros S. pose proof (sim_wsim c d S) as [_ ES]. destruct (sim_scal c d S) as [_ [_ [_ [E4 _]]]].
  assert (length (c_users c) = length (c_users d)) as EL by apply S.
  unfold tus_new, obs2, obs. rewrite <- E4, <- EL.
  repeat break_match; evict_norm; cbn [fst snd h_st h_n h_out h_ca c_sess c_set_users]; rewrite ?evict_cache_sess; cbn [c_sess c_set_users]; rewrite ?ES; reflexivity.
Qed.

Lemma tus_existing_sim f s c d n u mw nb p0 q0 :
  sim c d -> core p0 = core q0 -> obs2 (tus_existing f s c n u mw nb p0) = obs2 (tus_existing f s d n u mw nb q0).
Proof.
  intros S EC. pose proof (sim_wsim c d S) as [_ ES]. destruct (sim_scal c d S) as [_ [_ [E3 [E4 _]]]].
  assert (p_want q0 = p_want p0 /\ p_given q0 = p_given p0) as [EW EG] by (unfold core in EC; inv EC; split; congruence).
  assert (tus_chk d u mw q0 = tus_chk c u mw p0) as ECHK by (unfold tus_chk; rewrite EW, EG, E3; reflexivity).
  assert (forall a b, tus_w1 d u a b q0 = tus_w1 c u a b p0) as EW1 by (intros; unfold tus_w1; rewrite EW, E3, E4; reflexivity).
  pose proof (sim_pud c d (c_owner c) S) as EO.
  assert (p_want (get_pud d (c_owner c)) = p_want (get_pud c (c_owner c)) /\ p_given (get_pud d (c_owner c)) = p_given (get_pud c (c_owner c)))
    as [EOW EOG] by (unfold core in EO; inv EO; split; congruence).
  unfold tus_existing. rewrite ECHK. destruct (tus_chk c u mw p0) as [[[mw1 g1] oc]|]; [|unfold obs2, obs; cbn; rewrite ES; reflexivity].
  rewrite EW1, EW, EG, <- E3, EOW, EOG.
  match goal with |- context [if ?b then call f n else (true, n)] => destruct (if b then call f n else (true, n)) as [ok1 n1] end.
  destruct (negb ok1); [unfold obs2, obs; cbn; rewrite ES; reflexivity|].
  destruct oc.
  - destruct (call f n1) as [ok2 n2]. destruct (negb ok2); [unfold obs2, obs; cbn; rewrite ES; reflexivity|].
    destruct (call f n2) as [ok3 n3]. destruct (negb ok3); [unfold obs2, obs; cbn; rewrite ES; reflexivity|].
    apply tus_finish_sim. cbn [c_sess c_set_owner c_set_users]. exact ES.
  - apply tus_finish_sim. exact ES.
Qed.

Lemma this_user_sub_sim f s c d n sid u want nb :
  sim c d -> obs2 (this_user_sub f s c n sid u want nb) = obs2 (this_user_sub f s d n sid u want nb).
Proof.
  intros S. rewrite !tus_unfold.
  destruct (match want with [] => (ModeUnset, true) | _ => unmarshal_text ModeUnset want end) as [mw okw].
  destruct (negb okw); [unfold obs2, obs; cbn; rewrite (proj2 (sim_wsim c d S)); reflexivity|].
  pose proof (sim_lookup c d u S) as L.
  destruct (alookup u (c_users c)) as [p0|], (alookup u (c_users d)) as [q0|]; try contradiction.
  - apply tus_existing_sim; assumption.
  - apply tus_new_sim; assumption.
Qed.

Lemma sub_reply_sim f s c d n sid u want bkg :
  sim c d -> obs (sub_reply f s c n sid u want bkg) = obs (sub_reply f s d n sid u want bkg).
Proof.
  intros S. unfold sub_reply.
  assert ((match alookup u (c_users d) with Some _ => false | None => true end) =
          (match alookup u (c_users c) with Some _ => false | None => true end)) as EN.
  { pose proof (sim_lookup c d u S) as L. destruct (alookup u (c_users c)), (alookup u (c_users d)); try contradiction; reflexivity. }
  rewrite EN.
  pose proof (this_user_sub_sim f s c d n sid u want (match alookup u (c_users c) with Some _ => false | None => true end) S) as E.
  destruct (this_user_sub f s c n sid u want _) as [h r], (this_user_sub f s d n sid u want _) as [h' r'].
  unfold obs2, obs in E. cbn [fst snd] in E. inv E.
  destruct r' as [code|ch]; unfold obs; cbn [h_st h_n h_out h_ca].
  - congruence.
  - destruct (match ch with Some (w, g) => is_joiner (N.land g w) | None => true end); [|congruence].
    destruct bkg; cbn [c_sess c_set_sess c_set_users]; congruence.
Qed.

Lemma set_sub_sim f s c d n sid u target mode :
  sim c d -> obs (set_sub f s c n sid u target mode) = obs (set_sub f s d n sid u target mode).
Proof.
  intros S. unfold set_sub. destruct ((target =? 0)%N || (target =? u)%N).
  - pose proof (this_user_sub_sim f s c d n sid u mode false S) as E.
    destruct (this_user_sub f s c n sid u mode false) as [h r], (this_user_sub f s d n sid u mode false) as [h' r'].
    unfold obs2, obs in E. cbn [fst snd] in E. inv E. destruct r'; unfold obs; cbn [h_st h_n h_out h_ca]; congruence.
  - pose proof (another_user_sub_sim f s c d n sid u target mode S) as E.
    destruct (another_user_sub f s c n sid u target mode) as [h r], (another_user_sub f s d n sid u target mode) as [h' r'].
    unfold obs2, obs in E. cbn [fst snd] in E. inv E. destruct r'; unfold obs; cbn [h_st h_n h_out h_ca]; congruence.
Qed.

(* ------------------------------------------------------------------ *)
(* states *)
Definition keys_st (x : state) : Prop := match ca x with Some c => keys_ok c | None => True end.
Definition bis (x y : state) : Prop :=
  st x = st y /\ match ca x, ca y with Some c, Some d => sim c d | None, None => True | _, _ => False end.

Lemma agree_sym c d : cache_agree c d -> cache_agree d c.
Proof. intros [E1 [E2 [E3 [E4 [E5 P]]]]]. do 5 (split; [congruence|]). intros u. symmetry. apply P. Qed.
Lemma agree_trans c d e : cache_agree c d -> cache_agree d e -> cache_agree c e.
Proof.
  intros [E1 [E2 [E3 [E4 [E5 P]]]]] [F1 [F2 [F3 [F4 [F5 Q]]]]]. do 5 (split; [congruence|]). intros u. rewrite P. apply Q.
Qed.

(* two invariant states over the same store with the same sessions are bisimilar *)
Lemma inv_bis x y c d :
  inv x -> inv y -> st x = st y -> ca x = Some c -> ca y = Some d -> keys_ok c -> keys_ok d -> c_sess c = c_sess d -> sim c d.
Proof.
  intros IX IY ES CX CY KC KD ESS.
  pose proof (inv_coherent _ IX) as HX. pose proof (inv_coherent _ IY) as HY. unfold coherent in *. rewrite CX in HX. rewrite CY in HY.
  rewrite ES in HX. assert (cache_agree c d) as A by (eapply agree_trans; [exact HX|apply agree_sym; exact HY]).
  split; [exact A|]. split; [exact ESS|]. split; [apply agree_length; assumption|apply agree_push; assumption].
Qed.

Section BisimStep.
Variable dr : Z -> list (Z * Z) -> option (list (Z * Z)).
Variable nr : list (Z * Z) -> list (Z * Z).
Variable sm : sessmap.

(* same store, same sessions (or both unloaded) *)
Definition wbis (x y : state) : Prop :=
  st x = st y /\ match ca x, ca y with Some c, Some d => c_sess c = c_sess d | None, None => True | _, _ => False end.

Definition res_eq (r r' : state * out) : Prop := snd r = snd r' /\ wbis (fst r) (fst r').

Lemma fin_eq h h' : obs h = obs h' ->
  res_eq (mkState (h_st h) (Some (h_ca h)) (h_n h), h_out h) (mkState (h_st h') (Some (h_ca h')) (h_n h'), h_out h').
Proof. unfold obs, res_eq, wbis. intros E. cbn [fst snd st ca]. repeat split; congruence. Qed.

Lemma keep_eq s c d o : c_sess c = c_sess d -> res_eq (mkState s (Some c) 0, o) (mkState s (Some d) 0, o).
Proof. intros E. split; [reflexivity|]. split; [reflexivity|exact E]. Qed.

Lemma step_obs f x y o : bis x y -> res_eq (step dr nr sm f x o) (step dr nr sm f y o).
Proof.
  intros [ES B]. destruct x as [s cx nx], y as [s' cy ny]. cbn [st ca] in *. subst s'.
  destruct cx as [c|], cy as [d|]; try contradiction.
  2:{ (* both unloaded: the cache is not involved, or it is built from the same store *)
      destruct o; unfold step; cbn [st ca]; try (split; [reflexivity|split; reflexivity]).
      - destruct (try_load f s 0) as [n1 [c|code]]; [|split; [reflexivity|split; reflexivity]].
        apply fin_eq. reflexivity.
      - repeat break_match; split; try reflexivity; split; reflexivity. }
  pose proof (sim_wsim c d B) as [_ ESS].
  assert (forall sid, attached d sid = attached c sid) as EA by (intros sid; unfold attached; rewrite ESS; reflexivity).
  destruct o as [sid want bkg|sid unsub|sid content noecho|sid what seq|sid a b l|sid|sid|sid a b l|sid req hard|sid target mode|sid target| |];
    unfold step; cbn [st ca]; rewrite ?EA.
  - destruct (attached c sid); [apply keep_eq; exact ESS|]. apply fin_eq. apply sub_reply_sim. exact B.
  - destruct (attached c sid); cbn -[leave_unsub leave]; [|apply keep_eq; exact ESS].
    rewrite ESS. destruct unsub.
    + apply fin_eq. apply leave_unsub_sim. exact B.
    + destruct (leave_sim c d sid (match alookup sid (c_sess d) with Some (a, _) => a | None => sess_uid sm sid end) B) as [E1 E2].
      destruct (leave c sid _) as [c1 o1], (leave d sid _) as [d1 o2]. cbn [fst snd] in *. subst o2.
      split; [reflexivity|]. split; [reflexivity|exact E2].
  - destruct (attached c sid); cbn -[publish]; [|apply keep_eq; exact ESS]. apply fin_eq. apply publish_sim. exact B.
  - destruct (attached c sid); cbn -[note]; repeat break_match; try (apply keep_eq; exact ESS); apply fin_eq; apply note_sim; exact B.
  - destruct (attached c sid); cbn -[get_data]; [|apply keep_eq; exact ESS]. apply fin_eq. apply get_data_sim. exact B.
  - destruct (attached c sid); cbn -[get_desc offline_get_desc]; [apply fin_eq; apply get_desc_sim; exact B|].
    split; [reflexivity|]. split; [reflexivity|exact ESS].
  - destruct (attached c sid); cbn -[get_sub offline_get_sub]; [apply fin_eq; apply get_sub_sim; exact B|].
    split; [reflexivity|]. split; [reflexivity|exact ESS].
  - destruct (attached c sid); cbn -[get_del]; [|apply keep_eq; exact ESS]. apply fin_eq. apply get_del_sim. exact B.
  - destruct (attached c sid); cbn -[del_msg]; [|apply keep_eq; exact ESS]. apply fin_eq. apply del_msg_sim. exact B.
  - destruct (attached c sid); cbn -[set_sub offline_set_sub]; [apply fin_eq; apply set_sub_sim; exact B|].
    split; [reflexivity|]. split; [reflexivity|exact ESS].
  - destruct (attached c sid); cbn -[del_sub]; [|apply keep_eq; exact ESS]. apply fin_eq. apply del_sub_sim. exact B.
  - rewrite ESS. destruct (c_sess d) as [|e l] eqn:ED; [split; [reflexivity|split; reflexivity]|apply keep_eq; congruence].
  - split; [reflexivity|split; reflexivity].
Qed.
End BisimStep.

(* ------------------------------------------------------------------ *)
(* the one-entry-per-user property is preserved by every step *)
Section BisimRun.
Variable dr : Z -> list (Z * Z) -> option (list (Z * Z)).
Variable nr : list (Z * Z) -> list (Z * Z).
Variable sm : sessmap.

Lemma keys_sub_reply f s c n sid u want bkg : keys_ok c -> keys_ok (h_ca (sub_reply f s c n sid u want bkg)).
Proof.
  intros K. unfold sub_reply.
  pose proof (keys_tus f s c n sid u want (match alookup u (c_users c) with Some _ => false | None => true end) K) as H.
  destruct (this_user_sub f s c n sid u want _) as [h r]. cbn [fst] in H.
  destruct r; cbn [h_ca]; [exact H|]. repeat break_match; keys_tac H.
Qed.
Lemma keys_set_sub f s c n sid u t m : keys_ok c -> keys_ok (h_ca (set_sub f s c n sid u t m)).
Proof.
  intros K. unfold set_sub. destruct ((t =? 0)%N || (t =? u)%N).
  - pose proof (keys_tus f s c n sid u m false K) as H. destruct (this_user_sub f s c n sid u m false) as [h r]. destruct r; exact H.
  - pose proof (keys_aus f s c n sid u t m K) as H. destruct (another_user_sub f s c n sid u t m) as [h r]. destruct r; exact H.
Qed.

Lemma step_keys f x o : keys_st x -> keys_st (fst (step dr nr sm f x o)).
Proof.
  intros K. destruct x as [s [c|] n]; unfold keys_st in K; cbn [ca] in K.
  - destruct o as [sid want bkg|sid unsub|sid content noecho|sid what seq|sid a b l|sid|sid|sid a b l|sid req hard|sid target mode|sid target| |];
      unfold step; cbn [st ca].
    2:{ destruct (attached c sid); cbn -[leave_unsub leave keys_st]; [|exact K]. destruct unsub.
        - unfold keys_st. cbn [fst ca]. apply keys_leave_unsub. exact K.
        - pose proof (keys_leave c sid (match alookup sid (c_sess c) with Some (a, _) => a | None => sess_uid sm sid end) K) as X.
          destruct (leave c sid _) as [c1 o1]. unfold keys_st. cbn [fst ca h_ca] in *. exact X. }
    all: repeat break_match; unfold keys_st; cbn [fst ca]; try exact K; try exact I.
    all: try (apply keys_sub_reply; exact K).
    all: try (apply keys_publish; exact K).
    all: try (apply keys_note; exact K).
    all: try (rewrite (proj2 (get_data_same _ _ _ _ _ _ _ _ _)); exact K).
    all: try (rewrite (proj2 (get_desc_same _ _ _ _ _)); exact K).
    all: try (rewrite (proj2 (get_sub_same _ _ _ _ _ _)); exact K).
    all: try (rewrite (proj2 (get_del_same _ _ _ _ _ _ _ _ _ _)); exact K).
    all: try (apply keys_del_msg; exact K).
    all: try (apply keys_set_sub; exact K).
    all: try (apply keys_del_sub; exact K).
  - destruct o; unfold step; cbn [st ca]; repeat break_match; unfold keys_st; cbn [fst ca]; try exact I.
    match goal with H : try_load _ _ _ = (_, inl ?c0) |- _ =>
      assert (c0 = load s) as -> by (unfold try_load in H; repeat break_match_hyp; inv H; reflexivity) end.
    apply keys_sub_reply. apply keys_load.
Qed.

Lemma step_f_keys x fo : keys_st x -> keys_st (fst (step_f dr nr sm x fo)).
Proof.
  intros K. unfold step_f. pose proof (step_keys (fst fo) x (snd fo) K) as H.
  destruct (step dr nr sm (fst fo) x (snd fo)) as [x1 o1]. destruct (fst fo); cbn [fst] in *; try exact H. exact I.
Qed.

(* safe_step does not distinguish bisimilar states *)
Lemma bis_attached x y sid : bis x y -> attached_in x sid = attached_in y sid.
Proof.
  intros [_ B]. unfold attached_in. destruct (ca x) as [c|], (ca y) as [d|]; try contradiction; [|reflexivity].
  unfold attached. rewrite (proj2 (sim_wsim c d B)). reflexivity.
Qed.

Lemma bis_safe f x y o : bis x y -> safe_step sm f x o -> safe_step sm f y o.
Proof.
  intros B [KN [T1 [T2 [T3 FO]]]]. pose proof B as [ES BB].
  split; [exact KN|]. split; [|split; [|split]].
  - intros T. apply T1. unfold trig_note_read in *. destruct o; try contradiction.
    destruct (ca x) as [c|], (ca y) as [d|]; try contradiction.
    destruct T as [A [W R]]. pose proof (sim_wsim c d BB) as [_ ESS]. pose proof (sim_pud c d (sess_uid sm sid) BB) as EP.
    split; [unfold attached in *; rewrite ESS; exact A|]. split; [exact W|]. unfold core in EP. inv EP. congruence.
  - intros T. apply T2. unfold trig_readless_pub in *. destruct o; try contradiction.
    destruct (ca x) as [c|], (ca y) as [d|]; try contradiction.
    destruct T as [A R]. pose proof (sim_wsim c d BB) as [_ ESS].
    split; [unfold attached in *; rewrite ESS; exact A|]. rewrite (sim_mode c d _ BB). exact R.
  - intros T. apply T3. unfold trig_offline_setsub in *. destruct o; try contradiction.
    destruct (ca x) as [c|], (ca y) as [d|]; try contradiction.
    pose proof (sim_wsim c d BB) as [_ ESS]. unfold attached in *. rewrite ESS. exact T.
  - unfold fault_ok in *. destruct o; try exact FO.
    + destruct FO as [FO|FO]; [left; exact FO|right]. unfold cur_cache in *.
      destruct (ca x) as [c|], (ca y) as [d|]; try contradiction.
      * pose proof (sim_lookup c d (sess_uid sm sid) BB) as L.
        destruct (alookup (sess_uid sm sid) (c_users c)) as [p|], (alookup (sess_uid sm sid) (c_users d)) as [q|]; try contradiction; [|exact I].
        intros [P1 P2]. apply FO. unfold pending, core in *. inv L. split; congruence.
      * rewrite <- ES. exact FO.
    + destruct FO as [FO|FO]; [left; exact FO|right]. unfold cur_cache in *.
      destruct (ca x) as [c|], (ca y) as [d|]; try contradiction.
      * pose proof (sim_lookup c d (sess_uid sm sid) BB) as L.
        destruct (alookup (sess_uid sm sid) (c_users c)) as [p|], (alookup (sess_uid sm sid) (c_users d)) as [q|]; try contradiction; [|exact I].
        intros [P1 P2]. apply FO. unfold pending, core in *. inv L. split; congruence.
      * rewrite <- ES. exact FO.
Qed.

(* the packaged relation: bisimilar, both satisfying every invariant *)
Definition twin (x y : state) : Prop :=
  bis x y /\ inv x /\ inv y /\ inv_num x /\ inv_num y /\ keys_st x /\ keys_st y.

Lemma wbis_twin x y : wbis x y -> inv x -> inv y -> inv_num x -> inv_num y -> keys_st x -> keys_st y -> twin x y.
Proof.
  intros [ES W] IX IY NX NY KX KY. split; [|tauto]. split; [exact ES|].
  unfold keys_st in *. destruct (ca x) as [c|] eqn:CX, (ca y) as [d|] eqn:CY; try contradiction; [|exact I].
  apply (inv_bis x y c d); assumption.
Qed.

Lemma step_f_twin x y fo :
  twin x y -> safe_step sm (fst fo) x (snd fo) ->
  snd (step_f dr nr sm x fo) = snd (step_f dr nr sm y fo) /\ twin (fst (step_f dr nr sm x fo)) (fst (step_f dr nr sm y fo)).
Proof.
  intros [B [IX [IY [NX [NY [KX KY]]]]]] SX.
  pose proof (bis_safe _ _ _ _ B SX) as SY.
  pose proof (step_f_inv dr nr sm x fo IX NX SX) as IX'. pose proof (step_f_inv dr nr sm y fo IY NY SY) as IY'.
  pose proof (step_f_inv_num dr nr sm x fo NX) as NX'. pose proof (step_f_inv_num dr nr sm y fo NY) as NY'.
  pose proof (step_f_keys x fo KX) as KX'. pose proof (step_f_keys y fo KY) as KY'.
  pose proof (step_obs dr nr sm (fst fo) x y (snd fo) B) as [EO W].
  unfold step_f in *.
  destruct (step dr nr sm (fst fo) x (snd fo)) as [x1 o1], (step dr nr sm (fst fo) y (snd fo)) as [y1 o2]. cbn [fst snd] in *. subst o2.
  destruct (fst fo); cbn [fst snd] in *; (split; [reflexivity|]); apply wbis_twin; try assumption.
  destruct W as [E _]. split; [exact E|exact I].
Qed.

Lemma run_twin h : forall x y,
  twin x y -> safe_run dr nr sm x h ->
  snd (run dr nr sm x h) = snd (run dr nr sm y h) /\ st (fst (run dr nr sm x h)) = st (fst (run dr nr sm y h)).
Proof.
  induction h as [|fo h IH]; intros x y T SR; cbn [run].
  - split; [reflexivity|]. apply T.
  - destruct SR as [SF SR]. destruct (step_f_twin x y fo T SF) as [EO T'].
    destruct (step_f dr nr sm x fo) as [x1 o1], (step_f dr nr sm y fo) as [y1 o2]. cbn [fst snd] in *. subst o2.
    destruct (IH x1 y1 T' SR) as [E1 E2].
    destruct (run dr nr sm x1 h) as [x2 os], (run dr nr sm y1 h) as [y2 os']. cbn [fst snd] in *. subst os'. split; [reflexivity|exact E2].
Qed.

(* a state and its reload are twins *)
Lemma reload_twin x : inv x -> inv_num x -> keys_st x -> twin x (reload x).
Proof.
  intros IX NX KX. unfold reload. destruct x as [s [c|] n]; cbn [ca st ncalls].
  2:{ apply wbis_twin; try assumption. split; [reflexivity|exact I]. }
  pose proof (inv_good _ _ IX eq_refl) as [[W C] S]. cbn [st] in *.
  assert (coh s (reload_cache s c)) as C'.
  { pose proof (coh_load s W) as CL. unfold coh, reload_cache, load in *.
    cbn [c_lastid c_delid c_owner c_auth c_anon c_users] in *. exact CL. }
  assert (sess_ok (reload_cache s c)) as S'.
  { intros sid su bkg Hin. unfold reload_cache in *. cbn [c_sess c_users] in *.
    pose proof (S _ _ _ Hin) as HS. destruct C as [_ [_ [_ [_ [P _]]]]]. specialize (P su).
    destruct W as [ND _]. rewrite <- (load_users_core s su ND) in P.
    destruct (alookup su (c_users c)); [|congruence]. destruct (alookup su (load_users (subs s))); [discriminate|discriminate]. }
  assert (inv (mkState s (Some (reload_cache s c)) n)) as IY by (apply good_inv; split; [split; assumption|exact S']).
  assert (inv_num (mkState s (Some (reload_cache s c)) n)) as NY.
  { destruct NX as [A [B [C0 [C1 C2]]]]. cbn [st ca] in *. destruct C as [EL _].
    unfold inv_num, reload_cache. cbn [st ca c_lastid].
    split; [exact A|]. split; [exact B|]. rewrite <- EL. split; [exact C0|]. split; [lia|exact C2]. }
  apply wbis_twin; try assumption.
  - split; [reflexivity|]. reflexivity.
  - unfold keys_st. cbn [ca]. pose proof (keys_load s) as KL. unfold keys_ok, load, reload_cache in *. cbn [c_users] in *. exact KL.
Qed.

(* RELOAD ANYWHERE: after any trigger-free history h1, the rest of the history h2 produces exactly the
   same replies for every session - and the same store - whether or not the cache is rebuilt by the
   load path (same sessions attached) between h1 and h2 *)
Theorem reload_anywhere h1 h2 x0 :
  inv x0 -> inv_num x0 -> keys_st x0 -> safe_run dr nr sm x0 h1 ->
  safe_run dr nr sm (fst (run dr nr sm x0 h1)) h2 ->
  snd (run dr nr sm (fst (run dr nr sm x0 h1)) h2) = snd (run dr nr sm (reload (fst (run dr nr sm x0 h1))) h2) /\
  st (fst (run dr nr sm (fst (run dr nr sm x0 h1)) h2)) = st (fst (run dr nr sm (reload (fst (run dr nr sm x0 h1))) h2)).
Proof.
  intros IV IN K S1 S2. apply run_twin; [|exact S2]. apply reload_twin.
  - apply run_inv; assumption.
  - apply run_inv_num. exact IN.
  - clear S1 S2 IV IN. revert x0 K. induction h1 as [|fo h IH]; intros x0 K; cbn [run fst]; [exact K|].
    pose proof (step_f_keys x0 fo K) as K1. destruct (step_f dr nr sm x0 fo) as [x1 o1]. cbn [fst] in K1.
    specialize (IH x1 K1). destruct (run dr nr sm x1 h) as [x2 os]. exact IH.
Qed.
End BisimRun.
