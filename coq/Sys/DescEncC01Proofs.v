(* C01: the number shown by a frame is the same in both wire encodings (model Sys/DescEncC01.v). *)
From Coq Require Import ZArith NArith List Bool Lia.
From Tinode Require Import Base.Util Pure.Acs Sys.Topic Sys.DescEncC01.
Import ListNotations.
Open Scope Z_scope.

Lemma int32_id z : -2147483648 <= z < 2147483648 -> int32_c01e z = z.
Proof. intros H. unfold int32_c01e. rewrite Z.mod_small; lia. Qed.

Lemma shown_same_when_fits fr : fits_int32_c01e fr = true ->
  shown_num_c01e EncPB fr = shown_num_c01e EncJSON fr.
Proof.
  unfold fits_int32_c01e. destruct fr; cbn [shown_num_c01e enc_num_c01e]; try reflexivity;
    intros H; apply andb_true_iff in H; destruct H as [H1 H2]; rewrite int32_id by lia; reflexivity.
Qed.

Lemma shown_wit : shown_num_c01e EncPB (Data 2147483648 1 7) <> shown_num_c01e EncJSON (Data 2147483648 1 7).
Proof. vm_compute. discriminate. Qed.
