(** * What the translator harness/translators/dispatch reads off server/session.go
    (definitions only).  coq/Gen/GenDispatch.v, regenerated on every run, is a value of
    type [gen_dispatch]; the per-run obligation coq/Gen/ObC11.v is [gen_ok _ = true]. *)
From Coq Require Import List String Bool.
From Tinode Require Import Sys.SessionAuth.
Import ListNotations.

(** One case of the [switch] of [Session.dispatch].  [Unrecognised] carries the source
    text of a case (or handler expression) whose shape the translator does not know:
    the obligation rejects it. *)
Inductive gen_entry :=
| Entry (k : kind) (g : guard) (src : string)
| Unrecognised (src : string).

Record gen_dispatch := {
  gd_entries : list gen_entry;
  (** [checkVers] is: if s.ver == 0 { queueOut(ErrCommandOutOfSequence); return }; handler(m) *)
  gd_checkvers : bool;
  (** [checkUser] is: if msg.AsUser == "" { queueOut(ErrAuthRequiredReply); return }; handler(m) *)
  gd_checkuser : bool;
  (** the as-user block precedes the switch and is: no extra -> own uid and level;
      else non-root -> queueOut(ErrPermissionDenied), return; else unparsable -> return;
      else msg.AsUser = msg.Extra.AsUser *)
  gd_asuser : bool;
  (** the [default] case replies ErrMalformed and returns *)
  gd_default : bool;
  (** [handler(msg)] is called once, after the switch *)
  gd_called : bool;
  (** the only assignments to Session.ver / Session.uid / Session.authLvl in session.go
      are those of hello (ver) and onLogin (uid, authLvl) *)
  gd_writers : bool;
  (** assignments to the same fields of a session object elsewhere in package main
      ("file:function:lvalue = rvalue", syntactic) *)
  gd_foreign_writers : list string
}.

(** Foreign writers the obligation accepts:
    - assignments of the zero uid / the level none (a log-out can never authenticate; the
      one of the 'me' / 'fnd' topic initialisers is the oracle field [logout] of [BTopic],
      finding obo-sub-missing-user-logs-out-session);
    - the scratch Session value that a proxy topic fills in to forward a background-session
      update to the topic master (never a client connection). *)
Definition ends_with (s suf : string) : bool :=
  String.eqb (substring (String.length s - String.length suf) (String.length suf) s) suf.

Definition foreign_ok (w : string) : bool :=
  ends_with w " = types.ZeroUid" || ends_with w " = auth.LevelNone" ||
  String.eqb w "topic_proxy.go:runProxy:tmpSess.uid = pssd.uid".

Fixpoint table_of (es : list gen_entry) : option table :=
  match es with
  | [] => Some []
  | Entry k g _ :: r => match table_of r with Some t => Some ((k, g) :: t) | None => None end
  | Unrecognised _ :: _ => None
  end.

Definition gen_ok (g : gen_dispatch) : bool :=
  gd_checkvers g && gd_checkuser g && gd_asuser g && gd_default g && gd_called g && gd_writers g &&
  forallb foreign_ok (gd_foreign_writers g) &&
  match table_of (gd_entries g) with Some t => table_ok t | None => false end.

(** The table used when the obligation holds (closed everywhere otherwise). *)
Definition gen_table (g : gen_dispatch) : table :=
  match table_of (gd_entries g) with Some t => t | None => [] end.
