(* C01: two near-simultaneous {sub} to a topic that is NOT loaded.  Numbering slice of
   server/hub.go (Hub.run, case join) and server/init_topic.go (topicInit):

     Hub.run, join:  t := h.topicGet(name)
        t == nil:  t = &Topic{..}; t.markPaused(true); h.topicPut(name, t)   [registered BEFORE it is loaded]
                   go topicInit(t, join, h)
        t != nil:  t.isInactive() (paused: still loading) -> ErrLocked (503) to the session
                   otherwise t.reg <- join: the running topic attaches the session (200)
     topicInit:    initTopicGrp: store reads, t.lastID = stopic.SeqId; t.reg <- join; t.markPaused(false); go t.run(h)
     Topic.run:    the queued join attaches the joining session (200)
     {pub} of an attached session goes to the instance the session is attached to (Session.subs):
        Save(SeqId: t.lastID+1): TopicUpdateOnMessage (seqid := SeqId), MessageSave (unique (topic, seqid):
        duplicate -> error -> 500), success -> t.lastID++ and 202 with the number.

   The store reads of topicInit run on their own goroutine: the hub can take the next {sub} while they are
   in flight, which is the event order [JJoin a; JJoin b; JInit ..].  [early] = the registration
   happens in Hub.run before `go topicInit` (the code as it is); [early = false] registers at the end of
   topicInit instead and is kept to show what the early registration is for.  Subscribers are writers; access
   checks, store failures and unloading are outside this slice (Sys/Topic.v, Sys/TopicBurstC01.v).

   Definitions only.  Proofs are in Sys/HubJoinC01Proofs.v. *)
From Coq Require Import ZArith NArith List Bool.
From Tinode Require Import Base.Util.
Import ListNotations.
Open Scope Z_scope.

Record inst_c01j := mkInstJ { i_lastid : Z; i_live : bool; i_joiner : N }.
Record jstate := mkJ {
  j_seqid : Z;                 (* topics.seqid *)
  j_rows : list Z;             (* stored message numbers *)
  j_reg : option nat;          (* the hub's registry entry for the name: index of the instance *)
  j_insts : list inst_c01j;    (* every Topic instance created so far *)
  j_att : list (N * nat);      (* Session.subs: session -> the instance it is attached to *)
  j_saves : list (Z * bool)    (* ghost: every number passed to MessageSave, with the outcome *) }.

Inductive jev :=
| JJoin (sid : N)                (* Hub.run takes the session's {sub} from h.join *)
| JInit (i : nat)                (* topicInit of instance i completes and the instance handles the queued join *)
| JPub (sid : N).                (* the instance the session is attached to handles its {pub} *)

Inductive jreply := JCtrl (sid : N) (code : Z) | JAck (sid : N) (seq : Z).

Fixpoint jlookup (sid : N) (l : list (N * nat)) : option nat :=
  match l with
  | [] => None
  | (k, v) :: r => if N.eqb sid k then Some v else jlookup sid r
  end.

Fixpoint jset (i : nat) (x : inst_c01j) (l : list inst_c01j) : list inst_c01j :=
  match l, i with
  | [], _ => []
  | _ :: r, O => x :: r
  | y :: r, S i' => y :: jset i' x r
  end.

Definition jstep (early : bool) (x : jstate) (e : jev) : jstate * list jreply :=
  match e with
  | JJoin sid =>
    match j_reg x with
    | None =>
      let i := length (j_insts x) in
      (mkJ (j_seqid x) (j_rows x) (if early then Some i else None) (j_insts x ++ [mkInstJ 0 false sid]) (j_att x) (j_saves x), [])
    | Some i =>
      match nth_error (j_insts x) i with
      | Some t =>
        if i_live t then (mkJ (j_seqid x) (j_rows x) (j_reg x) (j_insts x) ((sid, i) :: j_att x) (j_saves x), [JCtrl sid 200])
        else (x, [JCtrl sid 503])
      | None => (x, [])
      end
    end
  | JInit i =>
    match nth_error (j_insts x) i with
    | Some t =>
      if i_live t then (x, []) else
      (mkJ (j_seqid x) (j_rows x) (if early then j_reg x else Some i)
           (jset i (mkInstJ (j_seqid x) true (i_joiner t)) (j_insts x)) ((i_joiner t, i) :: j_att x) (j_saves x),
       [JCtrl (i_joiner t) 200])
    | None => (x, [])
    end
  | JPub sid =>
    match jlookup sid (j_att x) with
    | None => (x, [JCtrl sid 409])
    | Some i =>
      match nth_error (j_insts x) i with
      | Some t =>
        let seq := i_lastid t + 1 in
        if existsb (Z.eqb seq) (j_rows x)
        then (mkJ seq (j_rows x) (j_reg x) (j_insts x) (j_att x) (j_saves x ++ [(seq, false)]), [JCtrl sid 500])
        else (mkJ seq (j_rows x ++ [seq]) (j_reg x) (jset i (mkInstJ seq true (i_joiner t)) (j_insts x)) (j_att x)
                  (j_saves x ++ [(seq, true)]), [JAck sid seq])
      | None => (x, [])
      end
    end
  end.

Fixpoint jrun (early : bool) (x : jstate) (h : list jev) : jstate * list (list jreply) :=
  match h with
  | [] => (x, [])
  | e :: r => let '(x1, o1) := jstep early x e in
              let '(x2, os) := jrun early x1 r in (x2, o1 :: os)
  end.

Definition jinit (seqid : Z) (rows : list Z) : jstate := mkJ seqid rows None [] [] [].
