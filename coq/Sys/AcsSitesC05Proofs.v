(* Proofs about Sys/AcsSitesC05.v (C05 layer 3: handlers interpreting a client-supplied mode text). *)
From Coq Require Import NArith List Bool Lia.
From Tinode Require Import Base.Util Pure.Acs Pure.AcsProofs Sys.AcsSitesC05.
Import ListNotations.
Open Scope N_scope.

(* ---- ParseAcs / UnmarshalText facts used by every site ---- *)

Lemma unknown_not_parsed s : forallb known_letter s = false -> parse_acs s = None.
Proof.
  intros H. destruct (parse_acs s) as [m|] eqn:E; [|reflexivity].
  apply parse_rejects_unknown in E. congruence.
Qed.

Lemma letter_bit_low c bit : letter_bit c = Some bit -> N.land bit 255 <> 0.
Proof.
  unfold letter_bit.
  repeat match goal with |- context [if ?b then _ else _] => destruct b end;
    intros X; inversion X; subst; vm_compute; discriminate.
Qed.

Lemma lor_low m0 bit : N.land bit 255 <> 0 -> N.land (N.lor m0 bit) 255 <> 0.
Proof.
  intros H E. apply H. rewrite N.land_lor_distr_l in E. apply N.lor_eq_0_iff in E. tauto.
Qed.

Lemma parse_loop_low s : forall m0 m,
  N.land m0 255 <> 0 -> parse_loop s m0 = Some m -> N.land m 255 <> 0.
Proof.
  induction s as [|c rest IH]; intros m0 m Hm0 H; cbn [parse_loop] in H.
  - inversion H; subst; exact Hm0.
  - destruct (letter_bit c) as [bit|] eqn:Eb.
    + apply (IH (N.lor m0 bit) m); [|exact H].
      apply lor_low. exact (letter_bit_low c bit Eb).
    + destruct (is_N c); [|discriminate].
      destruct (m0 =? ModeUnset) eqn:Em; [|discriminate].
      apply N.eqb_eq in Em. subst m0. exfalso. apply Hm0. reflexivity.
Qed.

(* a non-empty text that is accepted denotes a set, never the "no change" marker *)
Lemma parse_nonempty_not_unset c rest m : parse_acs (c :: rest) = Some m -> m <> ModeUnset.
Proof.
  unfold parse_acs. cbn [parse_loop]. intros H.
  destruct (letter_bit c) as [bit|] eqn:Eb.
  - pose proof (parse_loop_low rest (N.lor ModeUnset bit) m
                 (lor_low ModeUnset bit (letter_bit_low c bit Eb)) H) as L.
    intros ->. apply L. reflexivity.
  - destruct (is_N c); [|discriminate].
    destruct ((ModeUnset =? ModeUnset) && match rest with [] => true | _ :: _ => false end); [|discriminate].
    inversion H. discriminate.
Qed.

Lemma land_bitmask_lt m : N.land m ModeBitmask < 256.
Proof.
  change ModeBitmask with (N.ones 8). rewrite N.land_ones. apply N.mod_lt. discriminate.
Qed.

Lemma land_bitmask_not_unset m : (N.land m ModeBitmask =? ModeUnset) = false.
Proof.
  apply N.eqb_neq. pose proof (land_bitmask_lt m). unfold ModeUnset. lia.
Qed.

(* UnmarshalText on a non-empty text: the parsed set, or the receiver untouched + an error *)
Lemma unmarshal_nonempty cur c rest :
  unmarshal_text cur (c :: rest) =
    match parse_acs (c :: rest) with
    | Some m => (N.land m ModeBitmask, true)
    | None => (cur, false)
    end.
Proof.
  unfold unmarshal_text. destruct (parse_acs (c :: rest)) as [m|] eqn:E; [|reflexivity].
  pose proof (parse_nonempty_not_unset c rest m E) as Hn.
  apply N.eqb_neq in Hn. rewrite Hn. reflexivity.
Qed.

Lemma unmarshal_field cur s : fst (unmarshal_text cur s) = field_spec (fun m => m) cur s.
Proof.
  destruct s as [|c rest]; [reflexivity|].
  rewrite unmarshal_nonempty. unfold field_spec. destruct (parse_acs (c :: rest)); reflexivity.
Qed.

(* ---- parseTopicAccess ---- *)

Definition text_bad (s : list N) : bool :=
  match s with [] => false | _ :: _ => match parse_acs s with Some _ => false | None => true end end.

(* the error parseTopicAccess returns: that of anon when anon is given, else that of auth *)
Definition pta_err (acs : defacs) : bool :=
  match da_anon acs with [] => text_bad (da_auth acs) | _ :: _ => text_bad (da_anon acs) end.

Lemma pta_spec acs dA dN :
  parse_topic_access acs dA dN =
    (field_spec (fun m => m) dA (da_auth acs), field_spec (fun m => m) dN (da_anon acs), pta_err acs).
Proof.
  unfold parse_topic_access, pta_err, unmarshal_err.
  destruct (da_auth acs) as [|c1 r1] eqn:Ea; destruct (da_anon acs) as [|c2 r2] eqn:En;
    try rewrite !unmarshal_nonempty; unfold field_spec, text_bad;
    repeat match goal with |- context [parse_acs ?x] => destruct (parse_acs x) end; reflexivity.
Qed.

Lemma field_spec_empty f cur : field_spec f cur [] = cur.
Proof. reflexivity. Qed.

Lemma field_spec_rejected f cur s : parse_acs s = None -> field_spec f cur s = cur.
Proof. intros H. destruct s; [reflexivity|]. unfold field_spec. rewrite H. reflexivity. Qed.

Lemma field_spec_supplied f cur s m : s <> [] -> parse_acs s = Some m ->
  field_spec f cur s = f (N.land m ModeBitmask).
Proof. intros Hs H. destruct s; [congruence|]. unfold field_spec. rewrite H. reflexivity. Qed.

(* with ModeUnset as the default, the parsed field is ModeUnset exactly when nothing is taken *)
Lemma field_unset_cases s :
  (field_spec (fun m => m) ModeUnset s = ModeUnset /\ forall f cur, field_spec f cur s = cur) \/
  (exists m, s <> [] /\ parse_acs s = Some m /\ field_spec (fun m => m) ModeUnset s = N.land m ModeBitmask).
Proof.
  destruct s as [|c r]; [left; split; reflexivity|].
  destruct (parse_acs (c :: r)) as [m|] eqn:E.
  - right. exists m. split; [discriminate|]. split; [reflexivity|]. unfold field_spec. rewrite E. reflexivity.
  - left. split; intros; unfold field_spec; rewrite E; reflexivity.
Qed.

(* ---- {set desc.defacs} on 'me' and on a group topic ---- *)

Definition sd_spec (cat : tcat) (a n : N) (acs : defacs) : N * N :=
  (field_spec (cat_sanitize cat ModeCAuth) a (da_auth acs),
   field_spec (cat_sanitize cat ModeCP2P) n (da_anon acs)).

Lemma assign_field cat mask cur s :
  (if negb (field_spec (fun m => m) ModeUnset s =? ModeUnset)
   then match cat with CatMe => sanitize_p2p mask (field_spec (fun m => m) ModeUnset s)
                     | CatGrp => field_spec (fun m => m) ModeUnset s end
   else cur) = field_spec (cat_sanitize cat mask) cur s.
Proof.
  destruct (field_unset_cases s) as [[H1 H2]|[m [Hs [Hp H1]]]].
  - rewrite H1, H2. reflexivity.
  - rewrite H1, land_bitmask_not_unset. cbn [negb].
    rewrite (field_spec_supplied _ cur s m Hs Hp). destruct cat; reflexivity.
Qed.

(* complete description of the handler: the request is answered 400 and nothing moves, or every
   field holds exactly what its own text says (untouched when empty / not a mode text, the parsed
   set - sanitised on 'me' only - when supplied), answered 200, or 304 when nothing moved *)
Lemma set_desc_result cat a n acs :
  set_desc_defacs cat a n (Some acs) = (400, (a, n)) \/
  (snd (set_desc_defacs cat a n (Some acs)) = sd_spec cat a n acs /\
   (fst (set_desc_defacs cat a n (Some acs)) = 200 \/
    fst (set_desc_defacs cat a n (Some acs)) = 304 /\ sd_spec cat a n acs = (a, n))).
Proof.
  unfold set_desc_defacs, assign_access. rewrite pta_spec.
  destruct (pta_err acs); [left; reflexivity|].
  destruct (is_owner _ || is_owner _); [left; reflexivity|].
  right. rewrite !assign_field. fold (sd_spec cat a n acs). unfold sd_spec.
  set (x := field_spec (cat_sanitize cat ModeCAuth) a (da_auth acs)).
  set (y := field_spec (cat_sanitize cat ModeCP2P) n (da_anon acs)).
  destruct (negb (x =? a) || negb (y =? n)) eqn:E; cbn [fst snd].
  - split; [reflexivity|left; reflexivity].
  - apply orb_false_elim in E. destruct E as [E1 E2].
    apply negb_false_iff in E1. apply negb_false_iff in E2.
    apply N.eqb_eq in E1. apply N.eqb_eq in E2. rewrite E1, E2.
    split; [reflexivity|right; split; reflexivity].
Qed.

Lemma set_desc_absent cat a n : set_desc_defacs cat a n None = (304, (a, n)).
Proof. reflexivity. Qed.

Lemma set_desc_empty_auth cat a n acs : da_auth acs = [] ->
  fst (snd (set_desc_defacs cat a n (Some acs))) = a.
Proof.
  intros H. destruct (set_desc_result cat a n acs) as [E|[E _]]; rewrite E; [reflexivity|].
  unfold sd_spec. rewrite H. reflexivity.
Qed.

Lemma set_desc_empty_anon cat a n acs : da_anon acs = [] ->
  snd (snd (set_desc_defacs cat a n (Some acs))) = n.
Proof.
  intros H. destruct (set_desc_result cat a n acs) as [E|[E _]]; rewrite E; [reflexivity|].
  unfold sd_spec. rewrite H. reflexivity.
Qed.

Lemma set_desc_empty_both cat a n acs : da_auth acs = [] -> da_anon acs = [] ->
  set_desc_defacs cat a n (Some acs) = (304, (a, n)).
Proof.
  intros H1 H2. unfold set_desc_defacs, assign_access. rewrite pta_spec.
  unfold pta_err. rewrite H1, H2. cbn. rewrite !N.eqb_refl. reflexivity.
Qed.

Lemma set_desc_rejected_auth_keeps cat a n acs : parse_acs (da_auth acs) = None ->
  fst (snd (set_desc_defacs cat a n (Some acs))) = a.
Proof.
  intros H. destruct (set_desc_result cat a n acs) as [E|[E _]]; rewrite E; [reflexivity|].
  unfold sd_spec. cbn [fst]. apply field_spec_rejected. exact H.
Qed.

Lemma set_desc_rejected_anon cat a n acs : parse_acs (da_anon acs) = None ->
  set_desc_defacs cat a n (Some acs) = (400, (a, n)).
Proof.
  intros H. unfold set_desc_defacs, assign_access. rewrite pta_spec.
  unfold pta_err, text_bad. destruct (da_anon acs) as [|c r]; [discriminate H|]. rewrite H. reflexivity.
Qed.

Lemma set_desc_rejected_auth_alone cat a n acs : parse_acs (da_auth acs) = None -> da_anon acs = [] ->
  set_desc_defacs cat a n (Some acs) = (400, (a, n)).
Proof.
  intros H Hn. unfold set_desc_defacs, assign_access. rewrite pta_spec.
  unfold pta_err, text_bad. rewrite Hn. destruct (da_auth acs) as [|c r]; [discriminate H|]. rewrite H. reflexivity.
Qed.

(* the full "rejected, everything unchanged" statement and its refutation by the faithful model *)
Definition set_desc_junk_rejected_statement : Prop :=
  forall cat a n acs,
    parse_acs (da_auth acs) = None \/ parse_acs (da_anon acs) = None ->
    set_desc_defacs cat a n (Some acs) = (400, (a, n)).

Lemma set_desc_junk_rejected_refuted : ~ set_desc_junk_rejected_statement.
Proof.
  intros H.
  specialize (H CatGrp 47 0 (mkDefacs [cJ; 33] [cJ; cR]) (or_introl eq_refl)).
  vm_compute in H. discriminate H.
Qed.

Lemma set_desc_junk_rejected_partial cat a n acs :
  parse_acs (da_auth acs) = None \/ parse_acs (da_anon acs) = None ->
  (da_anon acs = [] \/ parse_acs (da_anon acs) = None) ->
  set_desc_defacs cat a n (Some acs) = (400, (a, n)).
Proof.
  intros [H|H] [Hn|Hn].
  - apply set_desc_rejected_auth_alone; assumption.
  - apply set_desc_rejected_anon; assumption.
  - rewrite Hn in H. discriminate H.
  - apply set_desc_rejected_anon; assumption.
Qed.

(* sanitising: a supplied set is masked and gets A on 'me', is taken as it is on a group topic;
   a field that is not supplied is NOT sanitised (it keeps whatever it held) *)
Lemma set_desc_supplied cat a n acs ma mn :
  da_auth acs <> [] -> da_anon acs <> [] ->
  parse_acs (da_auth acs) = Some ma -> parse_acs (da_anon acs) = Some mn ->
  is_owner (N.land ma ModeBitmask) || is_owner (N.land mn ModeBitmask) = false ->
  snd (set_desc_defacs cat a n (Some acs)) =
    (cat_sanitize cat ModeCAuth (N.land ma ModeBitmask), cat_sanitize cat ModeCP2P (N.land mn ModeBitmask)).
Proof.
  intros Ha Hn Pa Pn Ho.
  unfold set_desc_defacs, assign_access. rewrite pta_spec.
  unfold pta_err, text_bad.
  destruct (da_anon acs) as [|c2 r2] eqn:En; [congruence|]. rewrite Pn.
  rewrite (field_spec_supplied _ _ _ ma Ha Pa).
  rewrite (field_spec_supplied _ _ (c2 :: r2) mn Hn Pn).
  rewrite Ho. rewrite !land_bitmask_not_unset. cbn [negb].
  destruct (negb _ || negb _) eqn:E; [destruct cat; reflexivity|].
  apply orb_false_elim in E. destruct E as [E1 E2].
  apply negb_false_iff in E1. apply negb_false_iff in E2.
  apply N.eqb_eq in E1. apply N.eqb_eq in E2. cbn [snd]. rewrite <- E1, <- E2. destruct cat; reflexivity.
Qed.

Lemma offline_set_desc_unchanged a n mode : offline_set_desc_defacs a n mode = (304, (a, n)).
Proof. reflexivity. Qed.

(* ---- {sub topic=new set.desc.defacs} ---- *)

Lemma new_grp_absent ch : new_grp_defacs ch None = (default_access_grp true ch, default_access_grp false ch).
Proof. reflexivity. Qed.

Lemma default_grp_small b ch : default_access_grp b ch < 128.
Proof. destruct b, ch; vm_compute; reflexivity. Qed.

Lemma small_not_owner m : m < 128 -> N.ldiff m ModeOwner = m /\ (m =? ModeInvalid) = false.
Proof.
  intros H. split.
  - apply N.bits_inj. intros i. rewrite N.ldiff_spec.
    destruct (N.testbit ModeOwner i) eqn:E; [|apply andb_true_r].
    assert (i = 7).
    { destruct (N.eq_dec i 7) as [|Hne]; [assumption|].
      change ModeOwner with (2 ^ 7) in E. rewrite N.pow2_bits_false in E by congruence. discriminate. }
    subst i. cbn [negb]. rewrite andb_false_r.
    destruct m as [|p]; [reflexivity|].
    symmetry. apply N.bits_above_log2. apply N.log2_lt_pow2; [lia|]. exact H.
  - apply N.eqb_neq. unfold ModeInvalid. lia.
Qed.

(* a field whose text is empty / absent / not a mode text keeps the default of the category *)
Lemma new_grp_field_keeps ch acs :
  (da_auth acs = [] \/ parse_acs (da_auth acs) = None ->
     fst (new_grp_defacs ch (Some acs)) = default_access_grp true ch) /\
  (da_anon acs = [] \/ parse_acs (da_anon acs) = None ->
     snd (new_grp_defacs ch (Some acs)) = default_access_grp false ch).
Proof.
  unfold new_grp_defacs. rewrite pta_spec.
  pose proof (small_not_owner _ (default_grp_small true ch)) as [Ld Li].
  pose proof (small_not_owner _ (default_grp_small false ch)) as [Ld' Li'].
  split; intros H.
  - assert (E : field_spec (fun m => m) (default_access_grp true ch) (da_auth acs) = default_access_grp true ch).
    { destruct H as [H|H]; [rewrite H; reflexivity|apply field_spec_rejected; exact H]. }
    rewrite E. destruct (pta_err acs); cbn [fst]; [rewrite Li; reflexivity|].
    destruct (_ || _); cbn [fst]; [exact Ld|reflexivity].
  - assert (E : field_spec (fun m => m) (default_access_grp false ch) (da_anon acs) = default_access_grp false ch).
    { destruct H as [H|H]; [rewrite H; reflexivity|apply field_spec_rejected; exact H]. }
    rewrite E. destruct (pta_err acs); cbn [snd]; [rewrite Li'; reflexivity|].
    destruct (_ || _); cbn [snd]; [exact Ld'|reflexivity].
Qed.

(* a supplied pair without O is taken as it is: no category sanitising on group topics *)
Lemma new_grp_supplied ch acs ma mn :
  da_auth acs <> [] -> da_anon acs <> [] ->
  parse_acs (da_auth acs) = Some ma -> parse_acs (da_anon acs) = Some mn ->
  is_owner (N.land ma ModeBitmask) || is_owner (N.land mn ModeBitmask) = false ->
  new_grp_defacs ch (Some acs) = (N.land ma ModeBitmask, N.land mn ModeBitmask).
Proof.
  intros Ha Hn Pa Pn Ho. unfold new_grp_defacs. rewrite pta_spec.
  unfold pta_err, text_bad.
  destruct (da_anon acs) as [|c2 r2] eqn:En; [congruence|]. rewrite Pn.
  rewrite (field_spec_supplied _ _ _ ma Ha Pa).
  rewrite (field_spec_supplied _ _ (c2 :: r2) mn Hn Pn).
  rewrite Ho. reflexivity.
Qed.

(* ---- {acc user=new desc.defacs} ---- *)

Lemma acc_absent : acc_defacs None = (acc_default_auth, acc_default_anon).
Proof. reflexivity. Qed.

Lemma acc_empty_keeps acs :
  (da_auth acs = [] -> fst (acc_defacs (Some acs)) = acc_default_auth) /\
  (da_anon acs = [] -> snd (acc_defacs (Some acs)) = acc_default_anon).
Proof. split; intros H; cbn [acc_defacs fst snd]; rewrite H; reflexivity. Qed.

Lemma acc_field_rejected dflt s : s <> [] -> parse_acs s = None ->
  acc_field dflt s = sanitize_p2p ModeCP2P dflt.
Proof.
  intros Hs H. destruct s as [|c r]; [congruence|]. unfold acc_field.
  rewrite unmarshal_nonempty, H. reflexivity.
Qed.

Lemma acc_rejected_anon_keeps acs : parse_acs (da_anon acs) = None ->
  snd (acc_defacs (Some acs)) = acc_default_anon.
Proof.
  intros H. cbn [acc_defacs snd]. destruct (da_anon acs) as [|c r] eqn:E; [reflexivity|].
  rewrite acc_field_rejected; [reflexivity|discriminate|exact H].
Qed.

Definition acc_rejected_auth_keeps_statement : Prop :=
  forall acs, parse_acs (da_auth acs) = None -> fst (acc_defacs (Some acs)) = acc_default_auth.

Lemma acc_rejected_auth_keeps_refuted : ~ acc_rejected_auth_keeps_statement.
Proof.
  intros H. specialize (H (mkDefacs [cJ; 33] []) eq_refl). vm_compute in H. discriminate H.
Qed.

(* what does hold: nothing of the rejected text is taken; the default is only passed through the
   P2P sanitising (JRWPAS -> JRWPA) that was meant for a supplied value *)
Lemma acc_rejected_auth_partial acs : parse_acs (da_auth acs) = None ->
  fst (acc_defacs (Some acs)) = sanitize_p2p ModeCP2P acc_default_auth.
Proof.
  intros H. cbn [acc_defacs fst]. apply acc_field_rejected; [|exact H].
  intros E. rewrite E in H. discriminate H.
Qed.

Lemma acc_supplied acs ma mn :
  da_auth acs <> [] -> da_anon acs <> [] ->
  parse_acs (da_auth acs) = Some ma -> parse_acs (da_anon acs) = Some mn ->
  acc_defacs (Some acs) =
    (sanitize_p2p ModeCP2P (N.land ma ModeBitmask), sanitize_p2p ModeCP2P (N.land mn ModeBitmask)).
Proof.
  intros Ha Hn Pa Pn. cbn [acc_defacs]. unfold acc_field.
  destruct (da_auth acs) as [|c1 r1] eqn:E1; [congruence|].
  destruct (da_anon acs) as [|c2 r2] eqn:E2; [congruence|].
  rewrite !unmarshal_nonempty, Pa, Pn. reflexivity.
Qed.

(* ---- {sub topic=usrX set.desc.defacs.auth} creating a p2p topic ---- *)

Lemma p2p_not_supplied_same u acs :
  da_auth acs = [] \/ parse_acs (da_auth acs) = None ->
  p2p_new_given u (Some acs) = p2p_new_given u None.
Proof.
  intros H. unfold p2p_new_given. rewrite unmarshal_field.
  destruct H as [H|H]; [rewrite H; reflexivity|rewrite (field_spec_rejected _ _ _ H); reflexivity].
Qed.

Lemma p2p_supplied u acs m : da_auth acs <> [] -> parse_acs (da_auth acs) = Some m ->
  p2p_new_given u (Some acs) = N.lor (N.land (N.land m ModeBitmask) ModeCP2P) ModeApprove.
Proof.
  intros Hs H. unfold p2p_new_given. rewrite unmarshal_field, (field_spec_supplied _ _ _ m Hs H). reflexivity.
Qed.

(* ====================================================================================== *)
(* the mode text of an existing subscription *)

Lemma sub_mode_text_empty : sub_mode_text [] = Some ModeUnset.
Proof. reflexivity. Qed.

Lemma parse_none_nonempty s : parse_acs s = None -> exists c r, s = c :: r.
Proof. destruct s as [|c r]; [discriminate|]. intros _. exists c, r. reflexivity. Qed.

Lemma sub_mode_text_rejected s : parse_acs s = None -> sub_mode_text s = None.
Proof.
  intros H. destruct (parse_none_nonempty s H) as [c [r ->]].
  unfold sub_mode_text, unmarshal_err. rewrite unmarshal_nonempty, H. reflexivity.
Qed.

Lemma sub_mode_text_supplied s m : s <> [] -> parse_acs s = Some m ->
  sub_mode_text s = Some (N.land m ModeBitmask).
Proof.
  intros Hs H. destruct s as [|c r]; [congruence|].
  unfold sub_mode_text, unmarshal_err. rewrite unmarshal_nonempty, H. reflexivity.
Qed.

(* own subscription, empty text: want and given are what they were (unless the user had banned
   itself: then, by design, the empty text means "default" - see the Example in PropC05.v) *)
Lemma this_empty_no_change cat owner af w g : is_joiner w = true ->
  this_user_sub_existing cat owner af w g [] = SsDone (if is_joiner g then 304 else 403) w g.
Proof.
  intros Hj. unfold this_user_sub_existing. rewrite sub_mode_text_empty.
  change (ModeUnset =? ModeUnset) with true. cbn [negb].
  rewrite Hj. cbn [negb]. rewrite !N.eqb_refl. cbn [negb orb].
  rewrite Hj. cbn [negb]. destruct (is_joiner g); reflexivity.
Qed.

Lemma this_rejected cat owner af w g s : parse_acs s = None ->
  this_user_sub_existing cat owner af w g s = SsErr 400.
Proof. intros H. unfold this_user_sub_existing. rewrite (sub_mode_text_rejected s H). reflexivity. Qed.

Lemma unset_not_owner : is_owner ModeUnset = false.
Proof. reflexivity. Qed.

Lemma another_empty_no_change cat hm ho to w g :
  another_user_sub_existing cat hm ho to w g [] = (if is_sharer hm then SsDone 304 w g else SsErr 403).
Proof.
  unfold another_user_sub_existing. destruct (is_sharer hm); [|reflexivity].
  cbn [negb]. change (ModeUnset =? ModeUnset) with true. rewrite unset_not_owner. reflexivity.
Qed.

Lemma another_rejected cat hm ho to w g s : parse_acs s = None ->
  another_user_sub_existing cat hm ho to w g s = (if is_sharer hm then SsErr 400 else SsErr 403).
Proof.
  intros H. destruct (parse_none_nonempty s H) as [c [r ->]].
  unfold another_user_sub_existing, unmarshal_err. destruct (is_sharer hm); [|reflexivity].
  cbn [negb]. rewrite unmarshal_nonempty, H. reflexivity.
Qed.

Lemma offline_sub_empty cat w g : offline_set_sub cat w g [] = SsDone 304 w g.
Proof. reflexivity. Qed.

Lemma offline_sub_rejected cat w g s : parse_acs s = None -> offline_set_sub cat w g s = SsErr 500.
Proof.
  intros H. destruct (parse_none_nonempty s H) as [c [r ->]].
  unfold offline_set_sub, unmarshal_err. rewrite unmarshal_nonempty, H. reflexivity.
Qed.

Lemma p2p_sanitised_not_owner x : is_owner (N.lor (N.land x ModeCP2P) ModeApprove) = false.
Proof.
  unfold is_owner. rewrite N.land_lor_distr_l, <- N.land_assoc.
  change (N.land ModeCP2P ModeOwner) with 0. change (N.land ModeApprove ModeOwner) with 0.
  rewrite N.land_0_r. reflexivity.
Qed.

Lemma p2p_sanitised_not_unset x : (N.lor (N.land x ModeCP2P) ModeApprove =? ModeUnset) = false.
Proof.
  apply N.eqb_neq. intros E.
  assert (H : N.testbit (N.lor (N.land x ModeCP2P) ModeApprove) 8 = N.testbit ModeUnset 8) by (rewrite E; reflexivity).
  rewrite N.lor_spec, N.land_spec in H. change (N.testbit ModeCP2P 8) with false in H.
  change (N.testbit ModeApprove 8) with false in H. change (N.testbit ModeUnset 8) with true in H.
  rewrite andb_false_r in H. discriminate H.
Qed.

Lemma admin_sharer m : is_admin m = true -> is_sharer m = true.
Proof. intros H. unfold is_sharer. rewrite H. reflexivity. Qed.

(* the peer of a p2p topic changing the given: the supplied set is masked with ModeCP2P and gets A *)
Lemma another_p2p_supplied hm ho w g s m :
  s <> [] -> parse_acs s = Some m -> is_admin hm = true ->
  another_user_sub_existing SP2P hm ho false w g s =
    (let g' := N.lor (N.land (N.land m ModeBitmask) ModeCP2P) ModeApprove in
     if g' =? g then SsDone 304 w g else SsDone 200 w g').
Proof.
  intros Hs H Ha. destruct s as [|c r]; [congruence|].
  unfold another_user_sub_existing, unmarshal_err.
  rewrite (admin_sharer hm Ha). cbn [negb]. rewrite unmarshal_nonempty, H.
  cbv beta iota zeta. cbn [negb].
  rewrite p2p_sanitised_not_unset, p2p_sanitised_not_owner, Ha. cbn [negb andb].
  cbv zeta. destruct (_ =? g); reflexivity.
Qed.
