(* Sys/FanoutBkgC02.v, part 4 of the lemmas: perUser stays a map (no key twice), hence the push
   recipients are exactly the users whose STORED grant has R and P. *)
From Coq Require Import ZArith NArith List Bool Lia Permutation.
From Tinode Require Import Sys.Fanout Sys.FanoutProofs Sys.FanoutBkgC02 Sys.FanoutBkgC02Proofs Sys.FanoutBkgC02Steps Sys.FanoutBkgC02Runs.
Import ListNotations.
Open Scope N_scope.

Definition wfu (st : state) : Prop := NoDup (map fst (st_users st)).

Lemma nd_update (us : list (uid * pud)) u f : NoDup (map fst us) -> NoDup (map fst (update u f us)).
Proof. now rewrite keys_update. Qed.
Lemma nd_upsert (us : list (uid * pud)) u f : NoDup (map fst us) -> NoDup (map fst (upsert u f us)).
Proof.
  intros H. unfold upsert. destruct (has_key u us) eqn:E; [now apply nd_update|].
  apply NoDup_keys_app_new; [exact H|]. now apply has_key_false.
Qed.
Lemma nd_remove (us : list (uid * pud)) u : NoDup (map fst us) -> NoDup (map fst (remove_key u us)).
Proof. intros H. unfold remove_key. now apply NoDup_keys_filter. Qed.
Lemma nd_new (us : list (uid * pud)) u p : lookup u us = None -> NoDup (map fst us) -> NoDup (map fst (us ++ [(u, p)])).
Proof. intros Hn H. apply NoDup_keys_app_new; [exact H|]. now apply lookup_none. Qed.

Lemma wfu_evict st u b : wfu st -> wfu (evict_user st u b).
Proof.
  unfold wfu, evict_user. cbn [st_users set_sess set_users]. intros H. destruct b.
  - destruct (st_kind st); auto using nd_remove, nd_upsert.
  - destruct (lookup u (st_users st)) as [p|]; [|exact H]. destruct (pu_ischan p); auto using nd_remove, nd_update.
Qed.
Lemma wfu_xadd st b s u c : wfu st -> wfu (xadd_session st b s u c).
Proof.
  unfold wfu, xadd_session. intros H. destruct b, (has_key s (st_sess st)); cbn [st_users set_sess set_users]; auto using nd_upsert.
Qed.
Lemma wfu_xdrop bkg st s : wfu st -> wfu (xdrop_session bkg st s).
Proof.
  unfold wfu, xdrop_session. intros H. destruct (lookup s (st_sess st)) as [d|]; [|exact H].
  destruct (ss_chan d); [exact H|]. destruct (mem s bkg); cbn [st_users set_sess set_users]; auto using nd_upsert.
Qed.
Lemma wfu_xdrop_fold bkg l : forall st, wfu st -> wfu (fold_left (xdrop_session bkg) l st).
Proof. induction l as [|s r IH]; intros st H; cbn; [exact H|]. apply IH. now apply wfu_xdrop. Qed.

Definition wstep_ok (x : xstate) (r : option xstate) : Prop :=
  match r with Some x' => wfu (x_st x) -> wfu (x_st x') | None => True end.

Lemma own_apply_wfu x f u p w g x1 cl : own_apply x f u p w g = (Some x1, cl) -> wfu (x_st x) -> wfu (x_st x1).
Proof.
  unfold own_apply. destruct ((w =? pu_want p) && (g =? pu_given p)); [intros H; inv H; auto|].
  destruct (fails f 0); intros H; inv H. unfold wfu. cbn [x_st set_xst set_xrows st_users set_users]. apply nd_update.
Qed.

Lemma xattach_wfu x f s u c mw : wstep_ok x (fst (xattach x f s u c mw)).
Proof.
  unfold xattach. destruct (has_key s (st_sess (x_st x))); [cbn; auto|]. destruct (negb (chan_ok (x_st x) c)); [cbn; auto|].
  destruct (is_bkg x s && c); [exact I|]. destruct (lookup u (st_users (x_st x))) as [p|] eqn:Hp.
  - destruct (pu_deleted p); [exact I|]. destruct (negb (pu_ischan p) && c); [cbn; auto|]. destruct (pu_ischan p && negb c); [exact I|].
    destruct (pu_ischan p && _); [exact I|]. unfold xattach_existing.
    destruct (own_modes (x_st x) u p mw) as [| |want given]; [cbn; auto|exact I|].
    destruct (own_apply x f u p want given) as [[x1|] cl] eqn:Ea; [|cbn; auto].
    pose proof (own_apply_wfu _ _ _ _ _ _ _ _ Ea) as H1.
    destruct (negb (has want bJ)); [destruct ((want =? pu_want p) && (given =? pu_given p))|destruct (negb (has given bJ))];
      cbn [fst wstep_ok x_st set_xst]; intros H; auto using wfu_evict, wfu_xadd.
  - destruct (st_kind (x_st x)); try (cbn; auto; fail);
      (destruct c; [unfold xattach_new_chan|destruct (mem u (st_gone (x_st x))); [exact I|unfold xattach_new_sub]]);
      repeat (match goal with |- context [if ?b then _ else _] => destruct b end; try (cbn; auto; fail));
      cbn [fst wstep_ok x_st set_xst set_xrows]; intros H;
      try (apply wfu_evict); try (apply wfu_xadd); unfold wfu; cbn [st_users set_users set_chanrows]; now apply nd_new.
Qed.

Ltac ifs := repeat (match goal with |- context [if ?b then _ else _] => destruct b end; try (cbn; auto; fail)).

Lemma xdetach_wfu x s u c : wstep_ok x (xdetach x s u c).
Proof.
  unfold xdetach. destruct (lookup s (st_sess (x_st x))) as [d|]; [|cbn; auto]. destruct (negb (ss_uid d =? u)); [cbn; auto|].
  destruct (negb (eqb (ss_chan d) (c && chan_ok (x_st x) c))); [cbn; auto|].
  destruct (is_bkg x s); destruct (st_kind (x_st x)); ifs; cbn [wstep_ok x_st set_xst]; unfold wfu; cbn [st_users set_users set_sess];
    intros H; auto using nd_upsert, nd_remove.
Qed.

Lemma xstep_wfu x o : wstep_ok x (xr_state (xstep x o)).
Proof.
  destruct o; cbn [xstep].
  - pose proof (xattach_wfu x f s u chan mw) as H. destruct (xattach x f s u chan mw). exact H.
  - exact (xdetach_wfu x s u chan).
  - cbn [xr_state wstep_ok]. unfold xdisc. cbn [x_st]. intros H. unfold wfu. cbn [st_users set_full]. now apply wfu_xdrop.
  - cbn [xr_state wstep_ok]. unfold xforeground. destruct (negb (is_bkg x s)); [auto|]. destruct (st_kind (x_st x)); cbn [x_st set_xbkg]; auto;
      (destruct (lookup s (st_sess (x_st x))) as [d|]; [|auto]; destruct (ss_chan d); [auto|]; cbn [x_st set_xst set_xbkg];
       unfold wfu; cbn [st_users set_users]; intros H; now apply nd_upsert).
  - unfold xunsub. ifs; (destruct (lookup u (st_users (x_st x))) as [p|]; [|exact I]); (destruct (pu_deleted p); [exact I|]);
      destruct (st_kind (x_st x)); ifs; cbn [xr_state wstep_ok x_st set_xst set_xrows]; try exact I; intros H; unfold wfu;
      cbn [st_users set_gone set_chanrows]; first [exact H|now apply wfu_evict].
  - unfold xset_want. destruct (lookup u (st_users (x_st x))) as [p|]; [|exact I]. destruct (pu_deleted p || pu_ischan p); [exact I|].
    destruct (own_modes (x_st x) u p (Some m)) as [| |want given]; [cbn; auto|exact I|].
    destruct (own_apply x f u p want given) as [[x1|] cl] eqn:Ea; [|cbn; auto].
    pose proof (own_apply_wfu _ _ _ _ _ _ _ _ Ea) as H1. destruct (negb (has want bJ)); cbn [xr_state wstep_ok x_st set_xst]; intros H; auto using wfu_evict.
  - unfold xset_given. destruct (h =? u); [exact I|]. destruct (lookup h (st_users (x_st x))) as [hp|]; [|cbn; auto].
    destruct (negb _); [cbn; auto|]. destruct (has _ bO); [destruct (st_owner (x_st x) =? h); [exact I|cbn; auto]|].
    destruct (lookup u (st_users (x_st x))) as [p|]; [|exact I]. destruct (pu_deleted p || pu_ischan p); [exact I|].
    ifs; cbn [xr_state wstep_ok x_st set_xst set_xrows]; try exact I; intros H; try exact H; try apply wfu_evict; auto; unfold wfu; cbn [st_users set_users]; now apply nd_update.
  - unfold xevict. destruct (negb _); [cbn; auto|]. destruct ((u =? 0) || (u =? h)); [cbn; auto|].
    destruct (st_kind (x_st x)); try (cbn; auto; fail); (destruct (lookup u (st_users (x_st x))) as [p|]; [|cbn; auto]);
      ifs; cbn [xr_state wstep_ok x_st set_xst set_xrows]; try exact I; intros H; unfold wfu; cbn [st_users set_gone]; first [exact H|now apply wfu_evict].
  - cbn [xr_state wstep_ok]. destruct (is_full (x_st x) s); auto.
  - cbn [xr_state wstep_ok x_st set_xst]. auto.
  - unfold xpublish. destruct (fst (publish (x_st x) px)); cbn [xr_state wstep_ok x_st set_xst]; auto.
    intros H. apply wfu_xdrop_fold. exact H.
Qed.

Lemma xrun_wfu ops : forall x, wfu (x_st x) -> wfu (x_st (fst (xrun x ops))).
Proof.
  induction ops as [|o r IH]; intros x H; cbn [xrun]; [exact H|].
  assert (H1 : wfu (x_st (xnext x (xstep x o)))).
  { pose proof (xstep_wfu x o) as Hs. unfold xnext, wstep_ok in *. destruct (xr_state (xstep x o)); auto. }
  specialize (IH _ H1). destruct (xrun (xnext x (xstep x o)) r). exact IH.
Qed.

(* the push receipt is addressed exactly to the users whose STORED grant has R and P *)
Lemma push_by_stored_grant x u : xinv x -> wfu (x_st x) ->
  (In u (push_to (x_st x)) <-> has (seff x u) bR = true /\ has (seff x u) bP = true).
Proof.
  intros [_ [_ [_ [_ Hc]]]] Hw. rewrite push_to_spec. unfold seff, stored_modes. rewrite (Hc u). unfold live_modes. split.
  - intros [p [Hin Hp]]. rewrite (in_lookup _ _ _ Hw Hin). apply push_wanted_spec in Hp. destruct Hp as [HR [HP [Hd Hch]]].
    rewrite Hd, Hch. cbn. unfold eff in *. auto.
  - intros [HR HP]. destruct (lookup u (st_users (x_st x))) as [p|] eqn:Ep; [|cbn in HR; discriminate].
    exists p. split; [now apply lookup_in|]. destruct (pu_deleted p || pu_ischan p) eqn:E; [cbn in HR; discriminate|].
    apply orb_false_iff in E. destruct E as [Hd Hch]. apply push_wanted_spec. cbn in HR, HP. unfold eff. auto.
Qed.
