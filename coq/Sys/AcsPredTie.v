(* Static half of the translator tie "gopure" (see harness/translators/gopure/main.go):
   what each AccessMode predicate of server/store/types/types.go MEANS, for every natural
   number (AccessMode is `uint`; the predicates use bitwise operators and comparisons only,
   so N is an exact model), and the proof that every hand-written copy of these predicates
   in the slice models (Sys/Topic.v, Sys/Pres.v, Sys/AcsSitesC05.v, Sys/FilesSaveC16b.v,
   Pure/Acs.v) has that meaning.  The generated half, coq/Gen/ObAcsPred.v, proves on every
   run that the functions regenerated from the CURRENT source (coq/Gen/GenAcsPred.v) have
   the same meaning; the two halves give "code = every hand copy", for all N. *)
From Coq Require Import NArith Bool Lia List.
From Tinode Require Import Pure.Acs.
From Tinode Require Sys.Topic Sys.Pres Sys.AcsSitesC05 Sys.FilesSaveC16b.
Open Scope N_scope.

(* m & 2^k is 2^k or 0, according to bit k of m *)
Lemma land_pow2 : forall m k, N.land m (2 ^ k) = if N.testbit m k then 2 ^ k else 0.
Proof.
  intros m k. apply N.bits_inj; intro i. rewrite N.land_spec.
  destruct (N.eq_dec i k) as [->|Hne].
  - rewrite N.pow2_bits_true. destruct (N.testbit m k); [rewrite N.pow2_bits_true|rewrite N.bits_0]; reflexivity.
  - rewrite N.pow2_bits_false by congruence. rewrite andb_false_r.
    destruct (N.testbit m k); [rewrite N.pow2_bits_false by congruence|rewrite N.bits_0]; reflexivity.
Qed.

Lemma pow2_neq0 : forall k, (2 ^ k =? 0) = false.
Proof. intro k. apply N.eqb_neq. apply N.pow_nonzero. discriminate. Qed.

(* the two ways of testing one bit that occur in Go code: m&c != 0 and m&c == c *)
Lemma bit_test_ne0 : forall m k, negb (N.land m (2 ^ k) =? 0) = N.testbit m k.
Proof. intros m k. rewrite land_pow2. destruct (N.testbit m k); [rewrite pow2_neq0|]; reflexivity. Qed.
Lemma bit_test_eqc : forall m k, (N.land m (2 ^ k) =? 2 ^ k) = N.testbit m k.
Proof.
  intros m k. rewrite land_pow2. destruct (N.testbit m k); [apply N.eqb_refl|].
  rewrite N.eqb_sym. apply pow2_neq0.
Qed.
Lemma bit_test_ne0' : forall m k, negb (N.land (2 ^ k) m =? 0) = N.testbit m k.
Proof. intros. rewrite N.land_comm. apply bit_test_ne0. Qed.
Lemma bit_test_eqc' : forall m k, (N.land (2 ^ k) m =? 2 ^ k) = N.testbit m k.
Proof. intros. rewrite N.land_comm. apply bit_test_eqc. Qed.

(* The meaning of the predicates (bit i <-> letter i of "JRWPASDO"). *)
Definition spec_joiner (m : N) := N.testbit m 0.
Definition spec_reader (m : N) := N.testbit m 1.
Definition spec_writer (m : N) := N.testbit m 2.
Definition spec_presencer (m : N) := N.testbit m 3.
Definition spec_approver (m : N) := N.testbit m 4.
Definition spec_share_bit (m : N) := N.testbit m 5.
Definition spec_deleter (m : N) := N.testbit m 6.
Definition spec_owner (m : N) := N.testbit m 7.
Definition spec_admin (m : N) := spec_owner m || spec_approver m.
Definition spec_sharer (m : N) := spec_admin m || spec_share_bit m.

Lemma has_spec : forall m k, Topic.has m (2 ^ k) = N.testbit m k.
Proof. intros. unfold Topic.has. apply bit_test_ne0. Qed.
Lemma pres_has_spec : forall m k, Pres.has m (2 ^ k) = N.testbit m k.
Proof. intros. unfold Pres.has. apply bit_test_ne0. Qed.

(* every hand copy has the meaning above, for all N *)
Lemma topic_preds_spec : forall m,
  Topic.is_joiner m = spec_joiner m /\ Topic.is_reader m = spec_reader m /\ Topic.is_writer m = spec_writer m /\
  Topic.is_presencer m = spec_presencer m /\ Topic.is_owner m = spec_owner m /\ Topic.is_deleter m = spec_deleter m /\
  Topic.is_admin m = spec_admin m /\ Topic.is_sharer m = spec_sharer m.
Proof.
  intro m. unfold Topic.is_joiner, Topic.is_reader, Topic.is_writer, Topic.is_presencer, Topic.is_owner,
    Topic.is_deleter, Topic.is_sharer, Topic.is_admin, spec_sharer, spec_admin,
    spec_joiner, spec_reader, spec_writer, spec_presencer, spec_owner, spec_deleter, spec_approver, spec_share_bit.
  change Topic.mJ with (2 ^ 0). change Topic.mR with (2 ^ 1). change Topic.mW with (2 ^ 2). change Topic.mP with (2 ^ 3).
  change Topic.mA with (2 ^ 4). change Topic.mS with (2 ^ 5). change Topic.mD with (2 ^ 6). change Topic.mO with (2 ^ 7).
  rewrite !has_spec. repeat split; reflexivity.
Qed.

Lemma pres_preds_spec : forall m,
  Pres.is_joiner m = spec_joiner m /\ Pres.is_reader m = spec_reader m /\ Pres.is_writer m = spec_writer m /\
  Pres.is_presencer m = spec_presencer m /\ Pres.is_owner m = spec_owner m /\
  Pres.is_admin m = spec_admin m /\ Pres.is_sharer m = spec_sharer m.
Proof.
  intro m. unfold Pres.is_joiner, Pres.is_reader, Pres.is_writer, Pres.is_presencer, Pres.is_owner,
    Pres.is_sharer, Pres.is_admin, spec_sharer, spec_admin,
    spec_joiner, spec_reader, spec_writer, spec_presencer, spec_owner, spec_approver, spec_share_bit.
  change Pres.mJ with (2 ^ 0). change Pres.mR with (2 ^ 1). change Pres.mW with (2 ^ 2). change Pres.mP with (2 ^ 3).
  change Pres.mA with (2 ^ 4). change Pres.mS with (2 ^ 5). change Pres.mO with (2 ^ 7).
  rewrite !pres_has_spec. repeat split; reflexivity.
Qed.

Lemma sites_preds_spec : forall m,
  AcsSitesC05.is_joiner m = spec_joiner m /\ AcsSitesC05.is_owner m = spec_owner m /\
  AcsSitesC05.is_approver m = spec_approver m /\ AcsSitesC05.is_admin m = spec_admin m /\
  AcsSitesC05.is_sharer m = spec_sharer m.
Proof.
  intro m. unfold AcsSitesC05.is_sharer, AcsSitesC05.is_admin, AcsSitesC05.is_joiner, AcsSitesC05.is_owner,
    AcsSitesC05.is_approver, spec_sharer, spec_admin, spec_joiner, spec_owner, spec_approver, spec_share_bit.
  change AcsSitesC05.ModeJoin with (2 ^ 0). change AcsSitesC05.ModeOwner with (2 ^ 7).
  change AcsSitesC05.ModeApprove with (2 ^ 4). change 32 with (2 ^ 5).
  rewrite !bit_test_ne0. repeat split; reflexivity.
Qed.

Lemma files_preds_spec : forall m,
  FilesSaveC16b.is_reader_c16b m = spec_reader m /\ FilesSaveC16b.is_writer_c16b m = spec_writer m.
Proof.
  intro m. unfold FilesSaveC16b.is_reader_c16b, FilesSaveC16b.is_writer_c16b, spec_reader, spec_writer.
  change 2 with (2 ^ 1). change 4 with (2 ^ 2). rewrite !bit_test_ne0. split; reflexivity.
Qed.

(* the intersection law at the level of the meaning: the effective mode (want & given) has a
   permission iff both sides have it *)
Lemma spec_bit_effective : forall k w g, N.testbit (effective w g) k = N.testbit w k && N.testbit g k.
Proof. intros. unfold effective. apply N.land_spec. Qed.

(* ---- general fallback for one-argument predicates over the eight permission bits: whatever
   mask-and-compare shape the source uses, reduce the argument to its low byte and sweep ---- *)
From Tinode Require Import Base.Util.

Lemma land_low : forall m c, N.land 255 c = c -> N.land m c = N.land (N.land m 255) c.
Proof. intros m c H. rewrite <- N.land_assoc, H. reflexivity. Qed.
Lemma land_low' : forall m c, N.land 255 c = c -> N.land c m = N.land c (N.land m 255).
Proof. intros m c H. rewrite (N.land_comm c m), (N.land_comm c (N.land m 255)). apply land_low, H. Qed.
Lemma testbit_low : forall m k, (k <? 8) = true -> N.testbit m k = N.testbit (N.land m 255) k.
Proof.
  intros m k H. apply N.ltb_lt in H. rewrite N.land_spec. change 255 with (N.ones 8).
  rewrite N.ones_spec_low by exact H. rewrite andb_true_r. reflexivity.
Qed.
Lemma land255_lt : forall m, N.land m 255 < 256.
Proof. intro m. change 255 with (N.ones 8). rewrite N.land_ones. apply N.mod_lt. discriminate. Qed.
Lemma sweep_eqb (P Q : N -> bool) :
  forallb (fun x => Bool.eqb (P x) (Q x)) (nrange 256) = true -> forall x, x < 256 -> P x = Q x.
Proof.
  intros H x Hx. apply eqb_prop. exact (sweep1 (fun x => Bool.eqb (P x) (Q x)) 256 H x Hx).
Qed.

(* goal: an equation between boolean terms in which the variable m occurs only under
   `N.land m c`, `N.land c m` (c a closed constant within the low byte) or `N.testbit m k` (k < 8) *)
Ltac low8 m :=
  repeat match goal with
  | |- context [N.land m ?c] => lazymatch c with 255 => fail | _ => rewrite (land_low m c) by reflexivity end
  | |- context [N.land ?c m] => rewrite (land_low' m c) by reflexivity
  | |- context [N.testbit m ?k] => rewrite (testbit_low m k) by reflexivity
  end;
  let x := fresh "x" in let Hx := fresh "Hx" in
  pose proof (land255_lt m) as Hx; set (x := N.land m 255) in *; clearbody x; clear m;
  pattern x;
  match goal with |- (fun y => @?P y = @?Q y) x => apply (sweep_eqb P Q); [vm_compute; reflexivity | exact Hx] end.

(* executable hand copies of IsZero / IsInvalid for the correspondence runner *)
Definition is_zero (m : N) : bool := m =? ModeNone.
Definition is_invalid (m : N) : bool := m =? ModeInvalid.

(* Sys/Fanout.v (C02, C01, C04 fan-out slices) tests permissions as `has m bX` *)
From Tinode Require Sys.Fanout.
Lemma fanout_has_spec : forall m,
  Fanout.has m Fanout.bJ = spec_joiner m /\ Fanout.has m Fanout.bR = spec_reader m /\ Fanout.has m Fanout.bW = spec_writer m /\
  Fanout.has m Fanout.bP = spec_presencer m /\ Fanout.has m Fanout.bA = spec_approver m /\ Fanout.has m Fanout.bS = spec_share_bit m /\
  Fanout.has m Fanout.bD = spec_deleter m /\ Fanout.has m Fanout.bO = spec_owner m.
Proof.
  intro m. unfold Fanout.has, spec_joiner, spec_reader, spec_writer, spec_presencer, spec_approver, spec_share_bit,
    spec_deleter, spec_owner.
  change Fanout.bJ with (2 ^ 0). change Fanout.bR with (2 ^ 1). change Fanout.bW with (2 ^ 2). change Fanout.bP with (2 ^ 3).
  change Fanout.bA with (2 ^ 4). change Fanout.bS with (2 ^ 5). change Fanout.bD with (2 ^ 6). change Fanout.bO with (2 ^ 7).
  rewrite !bit_test_ne0. repeat split; reflexivity.
Qed.

(* ---- what the two comparisons mean bit by bit (for all N) ---- *)
Lemma ones8_bit : forall k, N.testbit 255 k = (k <? 8).
Proof.
  intro k. change 255 with (N.ones 8). destruct (N.ltb_spec k 8) as [H|H].
  - apply N.ones_spec_low. exact H.
  - apply N.ones_spec_high. exact H.
Qed.

(* BetterEqual: every permission asked for is among the eight permission bits and is granted *)
Lemma better_equal_bits : forall g w,
  N.land (N.land 255 g) w = w <->
  (forall k, N.testbit w k = true -> N.testbit g k = true /\ (k <? 8) = true).
Proof.
  intros g w. split.
  - intros H k Hk. rewrite <- H in Hk. rewrite !N.land_spec, ones8_bit in Hk.
    apply andb_true_iff in Hk. destruct Hk as [Hk _]. apply andb_true_iff in Hk. destruct Hk as [H8 Hg]. split; assumption.
  - intros H. apply N.bits_inj. intro k. rewrite !N.land_spec, ones8_bit.
    destruct (N.testbit w k) eqn:E.
    + destruct (H k E) as [Hg H8]. rewrite Hg, H8. reflexivity.
    + apply andb_false_r.
Qed.

(* BetterThan: some permission bit is granted that was not asked for *)
Lemma better_than_bits : forall g w,
  negb (N.ldiff (N.land 255 g) w =? 0) = true <->
  (exists k, (k <? 8) = true /\ N.testbit g k = true /\ N.testbit w k = false).
Proof.
  intros g w. rewrite negb_true_iff, N.eqb_neq. split.
  - intro H. exists (N.log2 (N.ldiff (N.land 255 g) w)).
    pose proof (N.bit_log2 _ H) as B. rewrite N.ldiff_spec, N.land_spec, ones8_bit in B.
    apply andb_true_iff in B. destruct B as [B1 B2]. apply andb_true_iff in B1. destruct B1 as [H8 Hg].
    apply negb_true_iff in B2. repeat split; assumption.
  - intros [k [H8 [Hg Hw]]] E.
    assert (B : N.testbit (N.ldiff (N.land 255 g) w) k = true).
    { rewrite N.ldiff_spec, N.land_spec, ones8_bit, H8, Hg, Hw. reflexivity. }
    rewrite E, N.bits_0 in B. discriminate.
Qed.
