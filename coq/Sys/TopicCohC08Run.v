(* C08: the coherence invariant along arbitrary histories (step, step_f, run). *)
From Coq Require Import ZArith NArith List Bool Lia.
From Tinode Require Import Base.Util Pure.Acs Sys.Topic Sys.TopicTac Sys.TopicFrame Sys.TopicNum Sys.TopicNumThm
  Sys.TopicCohC08 Sys.TopicCohC08Proofs Sys.TopicCohC08Step.
Import ListNotations.
Open Scope Z_scope.

(* a successful thisUserSub leaves the user cached *)
Lemma evict_keeps c u k c' o v :
  evict_user c u false k = (c', o) -> alookup v (c_users c) <> None -> alookup v (c_users c') <> None.
Proof.
  intros HE H. destruct (evict_core _ _ _ _ _ _ HE) as [_ [_ [_ [_ [_ E]]]]]. specialize (E v). cbn [andb] in E.
  destruct (alookup v (c_users c)); [|congruence]. destruct (alookup v (c_users c')); [discriminate|discriminate].
Qed.

Lemma aset_cached {A} u (p : A) l : alookup u (aset u p l) <> None.
Proof. rewrite alookup_aset, N.eqb_refl. discriminate. Qed.

Lemma tus_ok_cached f s c n sid u want nb ch :
  snd (this_user_sub f s c n sid u want nb) = SubOk ch ->
  alookup u (c_users (h_ca (fst (this_user_sub f s c n sid u want nb)))) <> None.
Proof.
  rewrite tus_unfold.
  destruct (match want with [] => (ModeUnset, true) | _ => unmarshal_text ModeUnset want end) as [mw okw].
  destruct (negb okw); [discriminate|].
  assert (forall nb' w1 g1 ow og s3 c3 n3, snd (tus_finish u nb' w1 g1 ow og s3 c3 n3) = SubOk ch ->
            alookup u (c_users (h_ca (fst (tus_finish u nb' w1 g1 ow og s3 c3 n3)))) <> None) as FIN.
  { intros nb' w1 g1 ow og s3 c3 n3. unfold tus_finish. destruct (negb (is_joiner w1)).
    - destruct (evict_user _ u false 0) as [c5 o5] eqn:HE. cbn [fst snd h_ca]. intros _.
      eapply evict_keeps; [exact HE|]. cbn [c_users c_set_users]. apply aset_cached.
    - destruct (negb (is_joiner g1)); cbn [fst snd h_ca]; [discriminate|]. intros _. cbn [c_users c_set_users]. apply aset_cached. }
  destruct (alookup u (c_users c)) as [p0|] eqn:L.
  - unfold tus_existing. destruct (tus_chk c u mw p0) as [[[mw1 g1] oc]|]; [|discriminate].
    match goal with |- context [if ?b then call f n else (true, n)] => destruct (if b then call f n else (true, n)) as [ok1 n1] end.
    destruct (negb ok1); [discriminate|].
    destruct oc; [|apply FIN].
    destruct (call f n1) as [ok2 n2]. destruct (negb ok2); [discriminate|].
    destruct (call f n2) as [ok3 n3]. destruct (negb ok3); [discriminate|]. apply FIN.
  - unfold tus_new. destruct (max_subs <=? Z.of_nat (length (c_users c))); [discriminate|].
    destruct (call f n) as [ok1 n1]. destruct (negb ok1); [discriminate|].
    match goal with |- context [if negb (is_joiner ?g) then _ else _] => destruct (negb (is_joiner g)); [discriminate|] end.
    match goal with |- context [if ?b then call f n1 else (true, n1)] => destruct (if b then call f n1 else (true, n1)) as [ok2 n2] end.
    destruct (negb ok2); [discriminate|].
    match goal with |- context [if negb (is_joiner ?g) then _ else _] => destruct (negb (is_joiner g)) end.
    + destruct (evict_user _ u false 0) as [c3 o3] eqn:HE. cbn [fst snd h_ca]. intros _.
      eapply evict_keeps; [exact HE|]. cbn [c_users c_set_users]. apply aset_cached.
    + cbn [fst snd h_ca]. intros _. cbn [c_users c_set_users]. apply aset_cached.
Qed.

Definition sub_nf (f : fault) (c : cache) (u : N) : Prop :=
  (forall k, fails f k = false) \/ match alookup u (c_users c) with Some p0 => ~ pending p0 | None => True end.

Lemma sub_reply_good f s c n sid u want bkg :
  good3 s c -> u <> 0%N -> sub_nf f c u ->
  good3 (h_st (sub_reply f s c n sid u want bkg)) (h_ca (sub_reply f s c n sid u want bkg)).
Proof.
  intros G3 NZ NF. unfold sub_reply.
  pose proof (this_user_sub_good f s c n sid u want
                (match alookup u (c_users c) with Some _ => false | None => true end) G3 NZ NF) as H.
  pose proof (tus_ok_cached f s c n sid u want (match alookup u (c_users c) with Some _ => false | None => true end)) as K.
  destruct (this_user_sub f s c n sid u want _) as [h r]. cbn [fst snd] in *.
  destruct r as [code|ch]; cbn [h_st h_ca]; [exact H|].
  specialize (K ch eq_refl).
  destruct (match ch with Some (w, g) => is_joiner (N.land g w) | None => true end); [|exact H].
  destruct H as [G S].
  assert (sess_ok (c_set_sess (aset sid (u, bkg)) (h_ca h))) as S' by (apply sess_ok_sess_aset; assumption).
  destruct bkg; split; try (apply good_sess; exact G); try exact S'.
  - destruct (alookup u (c_users (h_ca h))) as [p|] eqn:L; [|congruence].
    assert (get_pud (c_set_sess (aset sid (u, false)) (h_ca h)) u = p) as GP by (unfold get_pud; cbn [c_users c_set_sess]; rewrite L; reflexivity).
    rewrite GP. apply (good_online (h_st h) (c_set_sess _ (h_ca h)) u _ p); [apply good_sess; exact G|exact L].
  - apply sess_ok_users_aset. exact S'.
Qed.

Lemma set_sub_good f s c n sid u target mode :
  good3 s c -> u <> 0%N -> sub_nf f c u ->
  good3 (h_st (set_sub f s c n sid u target mode)) (h_ca (set_sub f s c n sid u target mode)).
Proof.
  intros G3 NZ NF. unfold set_sub.
  destruct ((target =? 0)%N || (target =? u)%N) eqn:SELF.
  - pose proof (this_user_sub_good f s c n sid u mode false G3 NZ NF) as H.
    destruct (this_user_sub f s c n sid u mode false) as [h r]. cbn [fst] in H. destruct r; exact H.
  - apply orb_false_iff in SELF. destruct SELF as [T0 _]. apply N.eqb_neq in T0.
    pose proof (another_user_sub_good f s c n sid u target mode G3 T0) as H.
    destruct (another_user_sub f s c n sid u target mode) as [h r]. cbn [fst] in H. destruct r; exact H.
Qed.

(* offline {set sub} on a topic that is not loaded keeps the store well-formed *)
Lemma wf_offline_set_sub f s sid u target mode :
  wf_store s -> u <> 0%N -> wf_store (o_st (offline_set_sub f s sid u target mode)).
Proof.
  intros W NZ. unfold offline_set_sub. destruct mode as [|m0 ml]; [exact W|].
  destruct (negb (target =? 0)%N && negb (target =? u)%N); [exact W|].
  destruct (call f 0) as [ok1 n1]. destruct (negb ok1); [exact W|].
  destruct (ad_sub_get s u false) as [r0|] eqn:SG; [|exact W].
  destruct (unmarshal_text 0%N (m0 :: ml)) as [mw okw]. destruct (negb okw); [exact W|].
  destruct (negb (Bool.eqb (is_owner mw) (is_owner (s_want r0)))) eqn:EO; [exact W|].
  destruct (mw =? s_want r0)%N; [exact W|].
  destruct (call f n1) as [ok2 n2]. destruct (negb ok2); [exact W|]. cbn [o_st].
  apply negb_false_iff, Bool.eqb_prop in EO.
  unfold ad_sub_get in SG. destruct (find_sub u (subs s)) as [r|] eqn:F; [|discriminate].
  destruct (s_deleted r && negb false) eqn:D; [discriminate|]. inv SG.
  apply wf_parts in W. destruct W as [SH [A [B [o [NZo [[ro [Fo Wo]] U]]]]]].
  apply wf_parts. split; [apply shape_subs_update; exact SH|].
  destruct (scal_subs_update s u (mkUpd (Some mw) None None None None)) as [_ [_ [S3 [_ S5]]]]. rewrite S3, S5.
  split; [exact A|]. split; [exact B|]. exists o. split; [exact NZo|]. split.
  - rewrite row_subs_update, (eqb0 _ NZ). cbn [orb]. destruct (N.eqb_spec o u) as [E|NE].
    + subst o. rewrite Fo in F. inv F. rewrite Fo. eexists. split; [reflexivity|]. cbn. congruence.
    + eauto.
  - intros v r1 F1 W1. rewrite row_subs_update, (eqb0 _ NZ) in F1. cbn [orb] in F1.
    destruct (N.eqb_spec v u) as [E|NE]; [|apply (U v r1 F1 W1)].
    subst v. rewrite F in F1. cbn in F1. inv F1. cbn in *. apply (U u r0 F). congruence.
Qed.

Lemma note_good3 f s c n sid u what seq :
  good3 s c -> u <> 0%N -> ~ (what = K_read /\ p_recv (get_pud c u) < seq) ->
  good3 (h_st (note f s c n sid u what seq)) (h_ca (note f s c n sid u what seq)).
Proof.
  intros [G S] NZ NT. split; [apply note_good; assumption|].
  unfold note. repeat break_match; cbn [h_ca]; try exact S; apply sess_ok_users_aset; exact S.
Qed.

Section Run.
Variable dr : Z -> list (Z * Z) -> option (list (Z * Z)).
Variable nr : list (Z * Z) -> list (Z * Z).
Variable sm : sessmap.

Lemma inv_good x c : inv x -> ca x = Some c -> good3 (st x) c.
Proof. unfold inv. intros [W H] E. rewrite E in H. split; [split; [exact W|apply H]|apply H]. Qed.
Lemma good_inv s c n : good3 s c -> inv (mkState s (Some c) n).
Proof. intros [[W C] S]. split; [exact W|]. split; assumption. Qed.
Lemma inv_wf x : inv x -> wf_store (st x).
Proof. intros [W _]. exact W. Qed.
Lemma inv_unloaded s n : wf_store s -> inv (mkState s None n).
Proof. intros W. split; [exact W|exact I]. Qed.
Lemma inv_keep x n : inv x -> inv (mkState (st x) (ca x) n).
Proof. intros H. exact H. Qed.
Lemma good_load s : wf_store s -> good3 s (load s).
Proof. intros W. split; [split; [exact W|apply coh_load; exact W]|]. intros sid su bkg []. Qed.

Lemma nofault_all f : f = NoFault -> forall k, fails f k = false.
Proof. intros -> k. reflexivity. Qed.

Ltac keep_tac IV CA :=
  first [exact IV
        |unfold inv in *; cbn [st ca] in *; rewrite ?CA in IV; first [exact IV|split; [apply IV|exact I]]].

Lemma step_inv f x o : inv x -> inv_num x -> safe_step sm f x o -> inv (fst (step dr nr sm f x o)).
Proof.
  intros IV IN [KN [T1 [T2 [T3 FO]]]].
  destruct o as [sid want bkg|sid unsub|sid content noecho|sid what seq|sid a b l|sid|sid|sid a b l|sid req hard|sid target mode|sid target| |].
  - (* OSub *)
    cbn [known op_sid] in KN. unfold step. cbn [fault_ok] in FO.
    destruct (ca x) as [c|] eqn:CA.
    + destruct (attached c sid); cbn [fst]; [keep_tac IV CA|]. apply good_inv.
      apply sub_reply_good; [apply inv_good; assumption|exact KN|].
      unfold cur_cache in FO. rewrite CA in FO. destruct FO as [FO|FO]; [left; apply nofault_all; exact FO|right; exact FO].
    + destruct (try_load f (st x) 0) as [n1 [c|code]] eqn:TL; cbn [fst].
      * assert (c = load (st x)) as -> .
        { unfold try_load in TL. repeat break_match_hyp; inv TL; reflexivity. }
        apply good_inv. apply sub_reply_good; [apply good_load, inv_wf, IV|exact KN|].
        unfold cur_cache in FO. rewrite CA in FO. destruct FO as [FO|FO]; [left; apply nofault_all; exact FO|right; exact FO].
      * apply inv_unloaded, inv_wf, IV.
  - (* OLeave *)
    cbn [known op_sid] in KN. unfold step.
    destruct (ca x) as [c|] eqn:CA; cbn -[leave_unsub leave]; [|keep_tac IV CA].
    destruct (attached c sid) eqn:AT; cbn -[leave_unsub leave]; [|keep_tac IV CA].
    destruct unsub.
    + apply good_inv. apply leave_unsub_good. apply inv_good; assumption.
    + destruct (leave c sid _) as [c1 o1] eqn:LV. cbn [fst]. apply good_inv. cbn [h_st h_ca].
      pose proof (leave_good (st x) c sid (match alookup sid (c_sess c) with Some (a, _) => a | None => sess_uid sm sid end)
                             (inv_good _ _ IV CA)) as H. rewrite LV in H. exact H.
  - (* OPub *)
    cbn [known op_sid] in KN. unfold step.
    destruct (ca x) as [c|] eqn:CA; cbn -[publish]; [|keep_tac IV CA].
    destruct (attached c sid) eqn:AT; cbn -[publish]; [|keep_tac IV CA].
    apply good_inv. apply publish_good; [apply inv_good; assumption|exact KN| | |].
    + destruct IN as [_ [_ IN]]. rewrite CA in IN. apply IN.
    + intros _. unfold trig_readless_pub in T2. rewrite CA in T2.
      destruct (is_reader (user_mode c (sess_uid sm sid))); [reflexivity|]. exfalso. apply T2. split; [exact AT|reflexivity].
    + cbn [fault_ok] in FO. exact FO.
  - (* ONote *)
    cbn [known op_sid] in KN. unfold step.
    assert (forall c, ca x = Some c -> attached c sid = true \/ what = K_recv ->
              inv (mkState (h_st (note f (st x) c 0 sid (sess_uid sm sid) what seq)) (Some (h_ca (note f (st x) c 0 sid (sess_uid sm sid) what seq)))
                           (h_n (note f (st x) c 0 sid (sess_uid sm sid) what seq)))) as NG.
    { intros c CA AT. apply good_inv. apply note_good3; [apply inv_good; assumption|exact KN|].
      intros [E1 E2]. destruct AT as [AT|AT]; [|rewrite AT in E1; discriminate].
      apply T1. unfold trig_note_read. rewrite CA. auto. }
    destruct (ca x) as [c|] eqn:CA; cbn -[note].
    + destruct (attached c sid) eqn:AT; cbn -[note].
      * repeat break_match; cbn [fst]; try (keep_tac IV CA); try (apply NG; auto).
      * repeat break_match; cbn [fst]; try (keep_tac IV CA).
        apply NG; [reflexivity|]. right.
        match goal with H : (what =? K_recv)%N = true |- _ => now apply N.eqb_eq in H end.
    + repeat break_match; cbn [fst]; keep_tac IV CA.
  - (* OGetData *)
    unfold step. destruct (ca x) as [c|] eqn:CA; cbn -[get_data]; [|keep_tac IV CA].
    destruct (attached c sid); cbn -[get_data]; [|keep_tac IV CA].
    destruct (get_data_same f (st x) c 0 sid (sess_uid sm sid) a b l) as [E1 E2]. unfold inv. cbn [st ca]. rewrite E1, E2.
    unfold inv in IV. rewrite CA in IV. exact IV.
  - (* OGetDesc *)
    unfold step. destruct (ca x) as [c|] eqn:CA; cbn -[get_desc offline_get_desc].
    + destruct (attached c sid); cbn -[get_desc offline_get_desc].
      * destruct (get_desc_same (st x) c 0 sid (sess_uid sm sid)) as [E1 E2]. unfold inv. cbn [st ca]. rewrite E1, E2.
        unfold inv in IV. rewrite CA in IV. exact IV.
      * unfold inv. cbn [st ca]. rewrite offline_get_desc_frame. unfold inv in IV. rewrite CA in IV. exact IV.
    + unfold inv. cbn [st ca]. rewrite offline_get_desc_frame. split; [apply IV|exact I].
  - (* OGetSub *)
    unfold step. destruct (ca x) as [c|] eqn:CA; cbn -[get_sub offline_get_sub].
    + destruct (attached c sid); cbn -[get_sub offline_get_sub].
      * destruct (get_sub_same f (st x) c 0 sid (sess_uid sm sid)) as [E1 E2]. unfold inv. cbn [st ca]. rewrite E1, E2.
        unfold inv in IV. rewrite CA in IV. exact IV.
      * unfold inv. cbn [st ca]. rewrite offline_get_sub_frame. unfold inv in IV. rewrite CA in IV. exact IV.
    + unfold inv. cbn [st ca]. rewrite offline_get_sub_frame. split; [apply IV|exact I].
  - (* OGetDel *)
    unfold step. destruct (ca x) as [c|] eqn:CA; cbn -[get_del]; [|keep_tac IV CA].
    destruct (attached c sid); cbn -[get_del]; [|keep_tac IV CA].
    destruct (get_del_same nr f (st x) c 0 sid (sess_uid sm sid) a b l) as [E1 E2]. unfold inv. cbn [st ca]. rewrite E1, E2.
    unfold inv in IV. rewrite CA in IV. exact IV.
  - (* ODelMsg *)
    cbn [known op_sid] in KN. unfold step.
    destruct (ca x) as [c|] eqn:CA; cbn -[del_msg]; [|keep_tac IV CA].
    destruct (attached c sid) eqn:AT; cbn -[del_msg]; [|keep_tac IV CA].
    apply good_inv. apply del_msg_good; [apply inv_good; assumption|exact KN|].
    cbn [fault_ok] in FO. exact FO.
  - (* OSetSub *)
    cbn [known op_sid] in KN. unfold step.
    destruct (ca x) as [c|] eqn:CA; cbn -[set_sub offline_set_sub].
    + destruct (attached c sid) eqn:AT; cbn -[set_sub offline_set_sub].
      * apply good_inv. apply set_sub_good; [apply inv_good; assumption|exact KN|].
        cbn [fault_ok] in FO. unfold cur_cache in FO. rewrite CA in FO.
        destruct FO as [FO|FO]; [left; apply nofault_all; exact FO|right; exact FO].
      * exfalso. apply T3. unfold trig_offline_setsub. rewrite CA. exact AT.
    + unfold inv. cbn [st ca]. split; [|exact I]. apply wf_offline_set_sub; [apply IV|exact KN].
  - (* ODelSub *)
    unfold step. destruct (ca x) as [c|] eqn:CA; cbn -[del_sub]; [|keep_tac IV CA].
    destruct (attached c sid) eqn:AT; cbn -[del_sub]; [|keep_tac IV CA].
    apply good_inv. apply del_sub_good. apply inv_good; assumption.
  - (* OUnload *)
    unfold step. destruct (ca x) as [c|] eqn:CA; cbn [fst].
    + destruct (c_sess c); cbn [fst]; [apply inv_unloaded, IV|keep_tac IV CA].
    + keep_tac IV CA.
  - (* ORestart *)
    unfold step. cbn [fst]. apply inv_unloaded, IV.
Qed.

Lemma step_f_inv x fo : inv x -> inv_num x -> safe_step sm (fst fo) x (snd fo) -> inv (fst (step_f dr nr sm x fo)).
Proof.
  intros IV IN SF. unfold step_f. pose proof (step_inv (fst fo) x (snd fo) IV IN SF) as H.
  destruct (step dr nr sm (fst fo) x (snd fo)) as [x1 o1]. cbn [fst] in H.
  destruct (fst fo); cbn [fst]; try exact H. apply inv_unloaded. apply H.
Qed.

Lemma run_inv h : forall x, inv x -> inv_num x -> safe_run dr nr sm x h -> inv (fst (run dr nr sm x h)).
Proof.
  induction h as [|fo h IH]; intros x IV IN SR; cbn [run fst]; [exact IV|].
  destruct SR as [SF SR].
  pose proof (step_f_inv x fo IV IN SF) as IV1.
  pose proof (step_f_inv_num dr nr sm x fo IN) as IN1.
  destruct (step_f dr nr sm x fo) as [x1 o1]. cbn [fst] in *.
  specialize (IH x1 IV1 IN1 SR). destruct (run dr nr sm x1 h) as [x2 os]. exact IH.
Qed.
End Run.
